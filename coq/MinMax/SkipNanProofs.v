(* Specification proofs for the NaN-skipping folds of SkipNan.v and the
   min/max/argmin/argmax_skipnan built on them. *)
From Coq Require Import List Arith Lia Permutation Bool.
Import ListNotations.
From NS Require Import MinMax.MinMax MinMax.SkipNan.

(* ------------------------------------------------------------------ *)
(* Generic loop lemmas for the indexed argmin fold, over an arbitrary
   total preorder [lb]; instantiated with [leb] (argmin) and with the
   flipped [leb] (argmax) below.                                        *)
(* ------------------------------------------------------------------ *)
Section ArgGen.
Variable A : Type.
Variable is_nan : A -> bool.
Variable lb : A -> A -> bool.
Hypothesis lb_total : forall x y, lb x y = true \/ lb y x = true.
Hypothesis lb_trans : forall x y z, lb x y = true -> lb y z = true -> lb x z = true.

Lemma lb_refl : forall x, lb x x = true.
Proof. intros x. destruct (lb_total x x); assumption. Qed.

Lemma lb_false_flip : forall x y, lb x y = false -> lb y x = true.
Proof. intros x y H. destruct (lb_total x y) as [H'|H']; [congruence | exact H']. Qed.

Definition sk_step (st : option A * nat) (px : nat * A) : option A * nat :=
  if is_nan (snd px) then st else argmin_step A lb st px.

Lemma arg_fold_some : forall l s m pm,
  exists x p,
    fold_left sk_step (combine (seq s (length l)) l) (Some m, pm) = (Some x, p) /\
    ((x = m /\ p = pm /\ (forall y, In y l -> is_nan y = false -> lb m y = true)) \/
     (s <= p /\ nth_error l (p - s) = Some x /\ is_nan x = false /\ lb m x = false /\
      (forall y, In y l -> is_nan y = false -> lb x y = true) /\
      (forall q y, q < p - s -> nth_error l q = Some y -> is_nan y = false -> lb y x = false))).
Proof.
  induction l as [|a t IH]; intros s m pm.
  - exists m, pm. split; [reflexivity|]. left.
    split; [reflexivity|]. split; [reflexivity|]. intros y [].
  - simpl. unfold sk_step at 2. simpl. destruct (is_nan a) eqn:Ea.
    + (* NaN: skipped *)
      destruct (IH (S s) m pm) as (x & p & Hr & Hcase).
      exists x, p. split; [exact Hr|].
      destruct Hcase as [(Hx & Hp & Hle) | (Hp & Hn & Hx & Hmx & Hle & Hst)].
      * left. split; [exact Hx|]. split; [exact Hp|].
        intros y [<-|Hy] Hyn; [congruence | apply Hle; assumption].
      * right. split; [lia|]. replace (p - s) with (S (p - S s)) by lia.
        split; [exact Hn|]. split; [exact Hx|]. split; [exact Hmx|]. split.
        -- intros y [<-|Hy] Hyn; [congruence | apply Hle; assumption].
        -- intros q y Hq Hnth Hyn. destruct q as [|q']; simpl in Hnth.
           ++ inversion Hnth; subst. congruence.
           ++ eapply Hst; [|exact Hnth|exact Hyn]. lia.
    + unfold argmin_step. simpl. destruct (lb m a) eqn:Ema.
      * (* current minimum kept *)
        destruct (IH (S s) m pm) as (x & p & Hr & Hcase).
        exists x, p. split; [exact Hr|].
        destruct Hcase as [(Hx & Hp & Hle) | (Hp & Hn & Hx & Hmx & Hle & Hst)].
        -- left. split; [exact Hx|]. split; [exact Hp|].
           intros y [<-|Hy] Hyn; [exact Ema | apply Hle; assumption].
        -- right. split; [lia|]. replace (p - s) with (S (p - S s)) by lia.
           split; [exact Hn|]. split; [exact Hx|]. split; [exact Hmx|]. split.
           ++ intros y [<-|Hy] Hyn; [|apply Hle; assumption].
              eapply lb_trans; [apply lb_false_flip; exact Hmx | exact Ema].
           ++ intros q y Hq Hnth Hyn. destruct q as [|q']; simpl in Hnth.
              ** inversion Hnth; subst.
                 destruct (lb y x) eqn:Eyx; [|reflexivity].
                 rewrite (lb_trans m y x Ema Eyx) in Hmx. discriminate.
              ** eapply Hst; [|exact Hnth|exact Hyn]. lia.
      * (* a strictly smaller: becomes the current minimum *)
        destruct (IH (S s) a s) as (x & p & Hr & Hcase).
        exists x, p. split; [exact Hr|]. right.
        destruct Hcase as [(Hx & Hp & Hle) | (Hp & Hn & Hx & Hax & Hle & Hst)].
        -- subst x p. split; [lia|]. replace (s - s) with 0 by lia.
           split; [reflexivity|]. split; [exact Ea|]. split; [exact Ema|]. split.
           ++ intros y [<-|Hy] Hyn; [apply lb_refl | apply Hle; assumption].
           ++ intros q y Hq. lia.
        -- split; [lia|]. replace (p - s) with (S (p - S s)) by lia.
           split; [exact Hn|]. split; [exact Hx|].
           assert (Hxa : lb x a = true) by (apply lb_false_flip; exact Hax).
           split.
           { destruct (lb m x) eqn:Emx; [|reflexivity].
             rewrite (lb_trans m x a Emx Hxa) in Ema. discriminate. }
           split.
           ++ intros y [<-|Hy] Hyn; [exact Hxa | apply Hle; assumption].
           ++ intros q y Hq Hnth Hyn. destruct q as [|q']; simpl in Hnth.
              ** inversion Hnth; subst. exact Hax.
              ** eapply Hst; [|exact Hnth|exact Hyn]. lia.
Qed.

Lemma arg_fold_none : forall l s pm,
  (fst (fold_left sk_step (combine (seq s (length l)) l) (None, pm)) = None /\
   Forall (fun x => is_nan x = true) l) \/
  (exists x p,
    fold_left sk_step (combine (seq s (length l)) l) (None, pm) = (Some x, p) /\
    s <= p /\ nth_error l (p - s) = Some x /\ is_nan x = false /\
    (forall y, In y l -> is_nan y = false -> lb x y = true) /\
    (forall q y, q < p - s -> nth_error l q = Some y -> is_nan y = false -> lb y x = false)).
Proof.
  induction l as [|a t IH]; intros s pm.
  - left. split; [reflexivity | constructor].
  - simpl. unfold sk_step at 2 4. simpl. destruct (is_nan a) eqn:Ea.
    + destruct (IH (S s) pm) as [(Hn & Hall) | (x & p & Hr & Hp & Hn & Hx & Hle & Hst)].
      * left. split; [exact Hn|]. constructor; assumption.
      * right. exists x, p. split; [exact Hr|]. split; [lia|].
        replace (p - s) with (S (p - S s)) by lia.
        split; [exact Hn|]. split; [exact Hx|]. split.
        -- intros y [<-|Hy] Hyn; [congruence | apply Hle; assumption].
        -- intros q y Hq Hnth Hyn. destruct q as [|q']; simpl in Hnth.
           ++ inversion Hnth; subst. congruence.
           ++ eapply Hst; [|exact Hnth|exact Hyn]. lia.
    + right. unfold argmin_step. simpl.
      destruct (arg_fold_some t (S s) a s) as (x & p & Hr & Hcase).
      exists x, p. split; [exact Hr|].
      destruct Hcase as [(Hx & Hp & Hle) | (Hp & Hn & Hx & Hax & Hle & Hst)].
      * subst x p. split; [lia|]. replace (s - s) with 0 by lia.
        split; [reflexivity|]. split; [exact Ea|]. split.
        -- intros y [<-|Hy] Hyn; [apply lb_refl | apply Hle; assumption].
        -- intros q y Hq. lia.
      * split; [lia|]. replace (p - s) with (S (p - S s)) by lia.
        split; [exact Hn|]. split; [exact Hx|]. split.
        -- intros y [<-|Hy] Hyn; [apply lb_false_flip; exact Hax | apply Hle; assumption].
        -- intros q y Hq Hnth Hyn. destruct q as [|q']; simpl in Hnth.
           ++ inversion Hnth; subst. exact Hax.
           ++ eapply Hst; [|exact Hnth|exact Hyn]. lia.
Qed.

Lemma g_argmin_skipnan_cases : forall data,
  (argmin_skipnan A is_nan lb data = None /\ Forall (fun x => is_nan x = true) data) \/
  (exists p x, argmin_skipnan A is_nan lb data = Some p /\
     nth_error data p = Some x /\ is_nan x = false /\
     (forall y, In y data -> is_nan y = false -> lb x y = true) /\
     (forall q y, q < p -> nth_error data q = Some y -> is_nan y = false -> lb y x = false)).
Proof.
  intros data. unfold argmin_skipnan, indexed_fold_skipnan, indexed.
  change (fun (acc : option A * nat) (px : nat * A) =>
            if is_nan (snd px) then acc else argmin_step A lb acc px) with sk_step.
  destruct (arg_fold_none data 0 0) as [(Hn & Hall) | (x & p & Hr & Hp & Hn & Hx & Hle & Hst)].
  - left. rewrite Hn. split; [reflexivity | exact Hall].
  - right. exists p, x. rewrite Hr. simpl. rewrite Nat.sub_0_r in *.
    repeat split; assumption.
Qed.

End ArgGen.

(* ------------------------------------------------------------------ *)
Section Main.
Variable A : Type.
Variable is_nan : A -> bool.
Variable leb : A -> A -> bool.
Hypothesis leb_total : forall x y, leb x y = true \/ leb y x = true.
Hypothesis leb_trans : forall x y z, leb x y = true -> leb y z = true -> leb x z = true.

Let nn := not_nan A is_nan.

Lemma leb_refl : forall x, leb x x = true.
Proof. intros x. destruct (leb_total x x); assumption. Qed.

Lemma leb_false_flip : forall x y, leb x y = false -> leb y x = true.
Proof. intros x y H. destruct (leb_total x y) as [H'|H']; [congruence | exact H']. Qed.

(* 1 *)
Theorem fold_skipnan_filter : forall B (f : B -> A -> B) init trav,
  fold_skipnan A is_nan f init trav = fold_left f (filter (not_nan A is_nan) trav) init.
Proof.
  intros B f init trav. unfold fold_skipnan. revert init.
  induction trav as [|x t IH]; intros init; [reflexivity|].
  simpl. unfold not_nan at 1. destruct (is_nan x); simpl; apply IH.
Qed.

Lemma fold_left_snoc : forall (l acc : list A),
  fold_left (fun acc x => acc ++ [x]) l acc = acc ++ l.
Proof.
  induction l as [|x t IH]; intros acc; simpl.
  - rewrite app_nil_r. reflexivity.
  - rewrite IH, <- app_assoc. reflexivity.
Qed.

(* 2 *)
Theorem fold_skipnan_sees_each_once : forall trav,
  fold_skipnan A is_nan (fun acc x => acc ++ [x]) [] trav = filter (not_nan A is_nan) trav.
Proof.
  intros trav. rewrite fold_skipnan_filter. apply fold_left_snoc.
Qed.

(* 3 *)
Theorem indexed_fold_skipnan_filter : forall B (f : B -> nat * A -> B) init data,
  indexed_fold_skipnan A is_nan f init data =
  fold_left f (filter (fun px => not_nan A is_nan (snd px)) (indexed A data)) init.
Proof.
  intros B f init data. unfold indexed_fold_skipnan. generalize (indexed A data). intros l.
  revert init. induction l as [|x t IH]; intros init; [reflexivity|].
  simpl. unfold not_nan at 1. destruct (is_nan (snd x)); simpl; apply IH.
Qed.

Lemma In_combine_seq : forall (l : list A) s p x,
  In (p, x) (combine (seq s (length l)) l) <-> s <= p /\ nth_error l (p - s) = Some x.
Proof.
  induction l as [|a t IH]; intros s p x; simpl.
  - split; [intros [] | intros [_ H]]. destruct (p - s); discriminate.
  - rewrite IH. split.
    + intros [Heq | [Hle Hn]].
      * inversion Heq; subst. split; [lia|]. replace (p - p) with 0 by lia. reflexivity.
      * split; [lia|]. replace (p - s) with (S (p - S s)) by lia. exact Hn.
    + intros [Hle Hn]. destruct (Nat.eq_dec p s) as [->|Hne].
      * left. replace (s - s) with 0 in Hn by lia. simpl in Hn. congruence.
      * right. split; [lia|]. replace (p - s) with (S (p - S s)) in Hn by lia. exact Hn.
Qed.

Theorem indexed_positions : forall data p x,
  In (p, x) (indexed A data) <-> nth_error data p = Some x.
Proof.
  intros data p x. unfold indexed. rewrite In_combine_seq, Nat.sub_0_r.
  split; [intros [_ H]; exact H | intros H; split; [lia | exact H]].
Qed.

(* ---- value folds ---- *)

Lemma filter_nn_nil_iff : forall l : list A,
  filter nn l = [] <-> Forall (fun x => is_nan x = true) l.
Proof.
  induction l as [|a t IH]; simpl.
  - split; [constructor | reflexivity].
  - unfold nn at 1, not_nan. destruct (is_nan a) eqn:Ea; simpl.
    + rewrite IH. split; [intros H; constructor; assumption | intros H; inversion H; assumption].
    + split; [discriminate | intros H; inversion H; congruence].
Qed.

Lemma nn_true : forall x, nn x = true <-> is_nan x = false.
Proof. intros x. unfold nn, not_nan. destruct (is_nan x); simpl; split; congruence. Qed.

Lemma Forall_nan_perm : forall data trav : list A, Permutation data trav ->
  (Forall (fun x => is_nan x = true) data <-> Forall (fun x => is_nan x = true) trav).
Proof.
  intros data trav Hp. rewrite !Forall_forall. split; intros H x Hx; apply H.
  - eapply Permutation_in; [apply Permutation_sym; exact Hp | exact Hx].
  - eapply Permutation_in; [exact Hp | exact Hx].
Qed.

Lemma first_not_nan_some : forall data a,
  first_not_nan A is_nan data = Some a -> In a data /\ is_nan a = false.
Proof.
  intros [|h t] a; simpl; [discriminate|].
  destruct (is_nan h) eqn:Eh; [discriminate|]. intros H; inversion H; subst. auto.
Qed.

Lemma first_not_nan_all_nan : forall data,
  Forall (fun x => is_nan x = true) data -> first_not_nan A is_nan data = None.
Proof.
  intros [|h t] H; simpl; [reflexivity|]. inversion H as [|? ? Hh Ht]; subst.
  rewrite Hh. reflexivity.
Qed.

(* generic treatment of min/max: [op] is omin or omax, [R v y] says v is at
   least as good as y *)
Section ValGen.
Variable op : option A -> A -> option A.
Variable R : A -> A -> Prop.
Hypothesis op_none : forall x, op None x = Some x.
Hypothesis R_refl : forall x, R x x.
Hypothesis op_fold_some : forall l a, exists v,
  fold_left op l (Some a) = Some v /\ (v = a \/ In v l) /\ R v a /\ (forall y, In y l -> R v y).

Lemma val_gen_none_iff : forall data trav, Permutation data trav ->
  (fold_skipnan A is_nan op (first_not_nan A is_nan data) trav = None <->
   Forall (fun x => is_nan x = true) data).
Proof.
  intros data trav Hp. rewrite fold_skipnan_filter. fold nn. split.
  - intros Hr. apply (Forall_nan_perm data trav Hp). apply filter_nn_nil_iff.
    destruct (first_not_nan A is_nan data) as [a|].
    + destruct (op_fold_some (filter nn trav) a) as (v & Hv & _). congruence.
    + destruct (filter nn trav) as [|x F]; [reflexivity|]. simpl in Hr.
      rewrite op_none in Hr. destruct (op_fold_some F x) as (v & Hv & _). congruence.
  - intros Hall. rewrite (first_not_nan_all_nan data Hall).
    apply (Forall_nan_perm data trav Hp) in Hall. apply filter_nn_nil_iff in Hall.
    rewrite Hall. reflexivity.
Qed.

Lemma val_gen_spec : forall data trav v, Permutation data trav ->
  fold_skipnan A is_nan op (first_not_nan A is_nan data) trav = Some v ->
  is_nan v = false /\ In v data /\ (forall y, In y data -> is_nan y = false -> R v y).
Proof.
  intros data trav v Hp. rewrite fold_skipnan_filter. fold nn. intros Hr.
  assert (HinF : forall y, In y (filter nn trav) -> In y data /\ is_nan y = false).
  { intros y Hy. apply filter_In in Hy. destruct Hy as [Hy Hn]. split.
    - eapply Permutation_in; [apply Permutation_sym; exact Hp | exact Hy].
    - apply nn_true. exact Hn. }
  assert (HFin : forall y, In y data -> is_nan y = false -> In y (filter nn trav)).
  { intros y Hy Hn. apply filter_In. split.
    - eapply Permutation_in; [exact Hp | exact Hy].
    - apply nn_true. exact Hn. }
  destruct (first_not_nan A is_nan data) as [a|] eqn:Ef.
  - apply first_not_nan_some in Ef. destruct Ef as [Hain Han].
    destruct (op_fold_some (filter nn trav) a) as (v' & Hv & Hin & Hva & Hle).
    rewrite Hr in Hv. inversion Hv; subst v'.
    destruct Hin as [->|Hin].
    + split; [exact Han|]. split; [exact Hain|]. intros y Hy Hn. apply Hle. apply HFin; assumption.
    + destruct (HinF v Hin) as [Hvd Hvn]. split; [exact Hvn|]. split; [exact Hvd|].
      intros y Hy Hn. apply Hle. apply HFin; assumption.
  - destruct (filter nn trav) as [|x F] eqn:EF; [simpl in Hr; discriminate|].
    simpl in Hr. rewrite op_none in Hr.
    destruct (op_fold_some F x) as (v' & Hv & Hin & Hvx & Hle).
    rewrite Hr in Hv. inversion Hv; subst v'.
    assert (HvF : In v (x :: F)) by (destruct Hin as [->|Hin]; [left; reflexivity | right; exact Hin]).
    destruct (HinF v HvF) as [Hvd Hvn]. split; [exact Hvn|]. split; [exact Hvd|].
    intros y Hy Hn. destruct (HFin y Hy Hn) as [<-|HyF]; [exact Hvx | apply Hle; exact HyF].
Qed.
End ValGen.

Lemma omin_fold_some : forall l a, exists v,
  fold_left (omin A leb) l (Some a) = Some v /\ (v = a \/ In v l) /\
  leb v a = true /\ (forall y, In y l -> leb v y = true).
Proof.
  induction l as [|x t IH]; intros a.
  - exists a. split; [reflexivity|]. split; [left; reflexivity|].
    split; [apply leb_refl|]. intros y [].
  - simpl. destruct (leb a x) eqn:Eax.
    + destruct (IH a) as (v & Hr & Hin & Hva & Hle). exists v. split; [exact Hr|].
      split; [destruct Hin; [left | right; right]; assumption|]. split; [exact Hva|].
      intros y [<-|Hy]; [eapply leb_trans; eauto | apply Hle; exact Hy].
    + destruct (IH x) as (v & Hr & Hin & Hvx & Hle). exists v. split; [exact Hr|].
      split; [right; destruct Hin; [left; symmetry | right]; assumption|].
      split; [eapply leb_trans; [exact Hvx | apply leb_false_flip; exact Eax]|].
      intros y [<-|Hy]; [exact Hvx | apply Hle; exact Hy].
Qed.

Lemma omax_fold_some : forall l a, exists v,
  fold_left (omax A leb) l (Some a) = Some v /\ (v = a \/ In v l) /\
  leb a v = true /\ (forall y, In y l -> leb y v = true).
Proof.
  induction l as [|x t IH]; intros a.
  - exists a. split; [reflexivity|]. split; [left; reflexivity|].
    split; [apply leb_refl|]. intros y [].
  - simpl. destruct (leb a x) eqn:Eax.
    + destruct (IH x) as (v & Hr & Hin & Hxv & Hle). exists v. split; [exact Hr|].
      split; [right; destruct Hin; [left; symmetry | right]; assumption|].
      split; [eapply leb_trans; eauto|].
      intros y [<-|Hy]; [exact Hxv | apply Hle; exact Hy].
    + destruct (IH a) as (v & Hr & Hin & Hav & Hle). exists v. split; [exact Hr|].
      split; [destruct Hin; [left | right; right]; assumption|]. split; [exact Hav|].
      intros y [<-|Hy]; [|apply Hle; exact Hy].
      eapply leb_trans; [apply leb_false_flip; exact Eax | exact Hav].
Qed.

(* 4 *)
Theorem min_skipnan_none_iff : forall data trav, Permutation data trav ->
  (min_skipnan A is_nan leb data trav = None <-> Forall (fun x => is_nan x = true) data).
Proof.
  intros data trav Hp. unfold min_skipnan.
  apply (val_gen_none_iff (omin A leb) (fun v y => leb v y = true)); auto.
  apply omin_fold_some.
Qed.

Theorem max_skipnan_none_iff : forall data trav, Permutation data trav ->
  (max_skipnan A is_nan leb data trav = None <-> Forall (fun x => is_nan x = true) data).
Proof.
  intros data trav Hp. unfold max_skipnan.
  apply (val_gen_none_iff (omax A leb) (fun v y => leb y v = true)); auto.
  apply omax_fold_some.
Qed.

(* 5 *)
Theorem min_skipnan_spec : forall data trav v, Permutation data trav ->
  min_skipnan A is_nan leb data trav = Some v ->
  is_nan v = false /\ In v data /\ (forall y, In y data -> is_nan y = false -> leb v y = true).
Proof.
  intros data trav v Hp Hr. unfold min_skipnan in Hr.
  apply (val_gen_spec (omin A leb) (fun v y => leb v y = true)) with (trav := trav); auto.
  apply omin_fold_some.
Qed.

Theorem max_skipnan_spec : forall data trav v, Permutation data trav ->
  max_skipnan A is_nan leb data trav = Some v ->
  is_nan v = false /\ In v data /\ (forall y, In y data -> is_nan y = false -> leb y v = true).
Proof.
  intros data trav v Hp Hr. unfold max_skipnan in Hr.
  apply (val_gen_spec (omax A leb) (fun v y => leb y v = true)) with (trav := trav); auto.
  apply omax_fold_some.
Qed.

(* ---- arg folds ---- *)

Let flip_leb (a b : A) := leb b a.

Lemma flip_total : forall x y, flip_leb x y = true \/ flip_leb y x = true.
Proof. intros x y. unfold flip_leb. apply leb_total. Qed.

Lemma flip_trans : forall x y z, flip_leb x y = true -> flip_leb y z = true -> flip_leb x z = true.
Proof. intros x y z H1 H2. unfold flip_leb in *. eapply leb_trans; eauto. Qed.

Lemma argmax_skipnan_flip : forall data,
  argmax_skipnan A is_nan leb data = argmin_skipnan A is_nan flip_leb data.
Proof. reflexivity. Qed.

Lemma Some_nan_contra : forall (data : list A) p x,
  nth_error data p = Some x -> is_nan x = false ->
  ~ Forall (fun x => is_nan x = true) data.
Proof.
  intros data p x Hn Hx Hall. rewrite Forall_forall in Hall.
  specialize (Hall x (nth_error_In _ _ Hn)). simpl in Hall. congruence.
Qed.

(* 6 *)
Theorem argmin_skipnan_none_iff : forall data,
  argmin_skipnan A is_nan leb data = None <-> Forall (fun x => is_nan x = true) data.
Proof.
  intros data.
  destruct (g_argmin_skipnan_cases A is_nan leb leb_total leb_trans data)
    as [(Hr & Hall) | (p & x & Hr & Hn & Hx & _)].
  - split; auto.
  - rewrite Hr. split; [discriminate|]. intros Hall. exfalso.
    eapply Some_nan_contra; eauto.
Qed.

Theorem argmax_skipnan_none_iff : forall data,
  argmax_skipnan A is_nan leb data = None <-> Forall (fun x => is_nan x = true) data.
Proof.
  intros data. rewrite argmax_skipnan_flip.
  destruct (g_argmin_skipnan_cases A is_nan flip_leb flip_total flip_trans data)
    as [(Hr & Hall) | (p & x & Hr & Hn & Hx & _)].
  - split; auto.
  - rewrite Hr. split; [discriminate|]. intros Hall. exfalso.
    eapply Some_nan_contra; eauto.
Qed.

(* 7 *)
Theorem argmin_skipnan_spec : forall data p,
  argmin_skipnan A is_nan leb data = Some p ->
  exists x, nth_error data p = Some x /\ is_nan x = false /\
    (forall y, In y data -> is_nan y = false -> leb x y = true) /\
    (forall q y, q < p -> nth_error data q = Some y -> is_nan y = false -> leb y x = false).
Proof.
  intros data p Hp.
  destruct (g_argmin_skipnan_cases A is_nan leb leb_total leb_trans data)
    as [(Hr & Hall) | (p' & x & Hr & Hn & Hx & Hle & Hst)]; [congruence|].
  rewrite Hp in Hr. inversion Hr; subst p'. exists x. auto.
Qed.

Theorem argmax_skipnan_spec : forall data p,
  argmax_skipnan A is_nan leb data = Some p ->
  exists x, nth_error data p = Some x /\ is_nan x = false /\
    (forall y, In y data -> is_nan y = false -> leb y x = true) /\
    (forall q y, q < p -> nth_error data q = Some y -> is_nan y = false -> leb x y = false).
Proof.
  intros data p Hp. rewrite argmax_skipnan_flip in Hp.
  destruct (g_argmin_skipnan_cases A is_nan flip_leb flip_total flip_trans data)
    as [(Hr & Hall) | (p' & x & Hr & Hn & Hx & Hle & Hst)]; [congruence|].
  rewrite Hp in Hr. inversion Hr; subst p'. exists x. auto.
Qed.

End Main.

(* ------------------------------------------------------------------ *)
(* 8. Skipping NaNs = running the plain (NaN-free) routine on the
      filtered data.                                                    *)
(* ------------------------------------------------------------------ *)
Section Plain.
Variable A : Type.
Variable is_nan : A -> bool.
Variable leb : A -> A -> bool.
Hypothesis leb_total : forall x y, leb x y = true \/ leb y x = true.
Hypothesis leb_trans : forall x y z, leb x y = true -> leb y z = true -> leb x z = true.

Let nn := not_nan A is_nan.
Let no_nan : A -> bool := fun _ => false.

Lemma Permutation_filter_nn : forall (f : A -> bool) l l',
  Permutation l l' -> Permutation (filter f l) (filter f l').
Proof.
  intros f l l' Hp. induction Hp as [|x l l' Hp IH|x y l|l l' l'' Hp1 IH1 Hp2 IH2]; simpl.
  - constructor.
  - destruct (f x); [constructor|]; exact IH.
  - destruct (f x), (f y); try apply Permutation_refl. apply perm_swap.
  - eapply Permutation_trans; eauto.
Qed.

Lemma in_filter_nn : forall (l : list A) y,
  In y (filter nn l) <-> In y l /\ is_nan y = false.
Proof.
  intros l y. rewrite filter_In. unfold nn, not_nan.
  destruct (is_nan y); simpl; split; intros [H1 H2]; split; congruence.
Qed.

Theorem min_skipnan_eq_plain : forall data trav, Permutation data trav ->
  match min_skipnan A is_nan leb data trav,
        min_skipnan A (fun _ => false) leb
          (filter (not_nan A is_nan) data) (filter (not_nan A is_nan) trav) with
  | None, None => True
  | Some v, Some w => leb v w = true /\ leb w v = true
  | _, _ => False
  end.
Proof.
  intros data trav Hp. fold nn. fold no_nan.
  pose proof (Permutation_filter_nn nn data trav Hp) as HpF.
  pose proof (min_skipnan_none_iff A is_nan leb leb_total leb_trans data trav Hp) as HN1.
  pose proof (min_skipnan_none_iff A no_nan leb leb_total leb_trans _ _ HpF) as HN2.
  pose proof (min_skipnan_spec A is_nan leb leb_total leb_trans data trav) as HS1.
  pose proof (min_skipnan_spec A no_nan leb leb_total leb_trans (filter nn data) (filter nn trav)) as HS2.
  destruct (min_skipnan A is_nan leb data trav) as [v|];
  destruct (min_skipnan A no_nan leb (filter nn data) (filter nn trav)) as [w|].
  - destruct (HS1 v Hp eq_refl) as (Hvn & Hvd & Hvle).
    destruct (HS2 w HpF eq_refl) as (_ & Hwd & Hwle).
    apply in_filter_nn in Hwd. destruct Hwd as [Hwd Hwn]. split.
    + apply Hvle; assumption.
    + apply Hwle; [|reflexivity]. apply in_filter_nn. split; assumption.
  - destruct (HS1 v Hp eq_refl) as (Hvn & Hvd & _).
    assert (Hall : Forall (fun x => no_nan x = true) (filter nn data)) by (apply HN2; reflexivity).
    rewrite Forall_forall in Hall.
    assert (Hv : In v (filter nn data)) by (apply in_filter_nn; split; assumption).
    specialize (Hall v Hv). discriminate.
  - destruct (HS2 w HpF eq_refl) as (_ & Hwd & _).
    apply in_filter_nn in Hwd. destruct Hwd as [Hwd Hwn].
    assert (Hall : Forall (fun x => is_nan x = true) data) by (apply HN1; reflexivity).
    rewrite Forall_forall in Hall. specialize (Hall w Hwd). simpl in Hall. congruence.
  - exact I.
Qed.

Theorem max_skipnan_eq_plain : forall data trav, Permutation data trav ->
  match max_skipnan A is_nan leb data trav,
        max_skipnan A (fun _ => false) leb
          (filter (not_nan A is_nan) data) (filter (not_nan A is_nan) trav) with
  | None, None => True
  | Some v, Some w => leb v w = true /\ leb w v = true
  | _, _ => False
  end.
Proof.
  intros data trav Hp. fold nn. fold no_nan.
  pose proof (Permutation_filter_nn nn data trav Hp) as HpF.
  pose proof (max_skipnan_none_iff A is_nan leb leb_total leb_trans data trav Hp) as HN1.
  pose proof (max_skipnan_none_iff A no_nan leb leb_total leb_trans _ _ HpF) as HN2.
  pose proof (max_skipnan_spec A is_nan leb leb_total leb_trans data trav) as HS1.
  pose proof (max_skipnan_spec A no_nan leb leb_total leb_trans (filter nn data) (filter nn trav)) as HS2.
  destruct (max_skipnan A is_nan leb data trav) as [v|];
  destruct (max_skipnan A no_nan leb (filter nn data) (filter nn trav)) as [w|].
  - destruct (HS1 v Hp eq_refl) as (Hvn & Hvd & Hvle).
    destruct (HS2 w HpF eq_refl) as (_ & Hwd & Hwle).
    apply in_filter_nn in Hwd. destruct Hwd as [Hwd Hwn]. split.
    + apply Hwle; [|reflexivity]. apply in_filter_nn. split; assumption.
    + apply Hvle; assumption.
  - destruct (HS1 v Hp eq_refl) as (Hvn & Hvd & _).
    assert (Hall : Forall (fun x => no_nan x = true) (filter nn data)) by (apply HN2; reflexivity).
    rewrite Forall_forall in Hall.
    assert (Hv : In v (filter nn data)) by (apply in_filter_nn; split; assumption).
    specialize (Hall v Hv). discriminate.
  - destruct (HS2 w HpF eq_refl) as (_ & Hwd & _).
    apply in_filter_nn in Hwd. destruct Hwd as [Hwd Hwn].
    assert (Hall : Forall (fun x => is_nan x = true) data) by (apply HN1; reflexivity).
    rewrite Forall_forall in Hall. specialize (Hall w Hwd). simpl in Hall. congruence.
  - exact I.
Qed.

(* position bookkeeping between data and its filtered version *)
Lemma nth_filter_firstn : forall (data : list A) p x,
  nth_error data p = Some x -> is_nan x = false ->
  nth_error (filter nn data) (length (filter nn (firstn p data))) = Some x.
Proof.
  induction data as [|a t IH]; intros p x Hn Hx.
  - destruct p; discriminate.
  - destruct p as [|p']; simpl in Hn.
    + inversion Hn; subst. simpl. unfold nn at 1, not_nan. rewrite Hx. reflexivity.
    + simpl. destruct (nn a); simpl; apply IH; assumption.
Qed.

Lemma nth_filter_before : forall (data : list A) p k y,
  k < length (filter nn (firstn p data)) -> nth_error (filter nn data) k = Some y ->
  exists q, q < p /\ nth_error data q = Some y /\ is_nan y = false.
Proof.
  induction data as [|a t IH]; intros p k y Hk Hn.
  - destruct p; simpl in Hk; lia.
  - destruct p as [|p']; [simpl in Hk; lia|]. simpl in Hk, Hn.
    destruct (nn a) eqn:Ea.
    + destruct k as [|k']; simpl in Hn.
      * inversion Hn; subst. exists 0. split; [lia|]. split; [reflexivity|].
        unfold nn, not_nan in Ea. destruct (is_nan y); [discriminate | reflexivity].
      * simpl in Hk. destruct (IH p' k' y) as (q & Hq & Hqn & Hy); [lia | exact Hn |].
        exists (S q). split; [lia|]. split; assumption.
    + destruct (IH p' k y Hk Hn) as (q & Hq & Hqn & Hy).
      exists (S q). split; [lia|]. split; assumption.
Qed.

Theorem argmin_skipnan_eq_plain : forall data,
  match argmin_skipnan A is_nan leb data,
        argmin_skipnan A (fun _ => false) leb (filter (not_nan A is_nan) data) with
  | None, None => True
  | Some p, Some k =>
      k = length (filter (not_nan A is_nan) (firstn p data)) /\
      exists x, nth_error data p = Some x /\
                nth_error (filter (not_nan A is_nan) data) k = Some x
  | _, _ => False
  end.
Proof.
  intros data. fold nn. fold no_nan.
  pose proof (argmin_skipnan_none_iff A is_nan leb leb_total leb_trans data) as HN1.
  pose proof (argmin_skipnan_none_iff A no_nan leb leb_total leb_trans (filter nn data)) as HN2.
  pose proof (argmin_skipnan_spec A is_nan leb leb_total leb_trans data) as HS1.
  pose proof (argmin_skipnan_spec A no_nan leb leb_total leb_trans (filter nn data)) as HS2.
  destruct (argmin_skipnan A is_nan leb data) as [p|];
  destruct (argmin_skipnan A no_nan leb (filter nn data)) as [k|].
  - destruct (HS1 p eq_refl) as (x & Hn & Hx & Hle & Hst).
    destruct (HS2 k eq_refl) as (x' & Hn' & _ & Hle' & Hst').
    pose proof (nth_filter_firstn data p x Hn Hx) as Hk0.
    set (k0 := length (filter nn (firstn p data))) in *.
    assert (Hx'in : In x' (filter nn data)) by (eapply nth_error_In; exact Hn').
    apply in_filter_nn in Hx'in. destruct Hx'in as [Hx'd Hx'n].
    assert (Hxin : In x (filter nn data)).
    { apply in_filter_nn. split; [eapply nth_error_In; exact Hn | exact Hx]. }
    assert (Hk : k = k0).
    { destruct (lt_eq_lt_dec k k0) as [[Hlt|Heq]|Hgt]; [|exact Heq|]; exfalso.
      - destruct (nth_filter_before data p k x' Hlt Hn') as (q & Hq & Hqn & Hqx).
        pose proof (Hst q x' Hq Hqn Hqx) as Hf.
        rewrite (Hle' x Hxin eq_refl) in Hf. discriminate.
      - pose proof (Hst' k0 x Hgt Hk0 eq_refl) as Hf.
        rewrite (Hle x' Hx'd Hx'n) in Hf. discriminate. }
    split; [exact Hk|]. exists x. split; [exact Hn|]. rewrite Hk. exact Hk0.
  - destruct (HS1 p eq_refl) as (x & Hn & Hx & _).
    assert (Hall : Forall (fun x => no_nan x = true) (filter nn data)) by (apply HN2; reflexivity).
    rewrite Forall_forall in Hall.
    assert (Hv : In x (filter nn data)).
    { apply in_filter_nn. split; [eapply nth_error_In; exact Hn | exact Hx]. }
    specialize (Hall x Hv). discriminate.
  - destruct (HS2 k eq_refl) as (x' & Hn' & _).
    assert (Hx'in : In x' (filter nn data)) by (eapply nth_error_In; exact Hn').
    apply in_filter_nn in Hx'in. destruct Hx'in as [Hx'd Hx'n].
    assert (Hall : Forall (fun x => is_nan x = true) data) by (apply HN1; reflexivity).
    rewrite Forall_forall in Hall. specialize (Hall x' Hx'd). simpl in Hall. congruence.
  - exact I.
Qed.

End Plain.

Theorem argmax_skipnan_eq_plain : forall (A : Type) (is_nan : A -> bool) (leb : A -> A -> bool),
  (forall x y, leb x y = true \/ leb y x = true) ->
  (forall x y z, leb x y = true -> leb y z = true -> leb x z = true) ->
  forall data : list A,
  match argmax_skipnan A is_nan leb data,
        argmax_skipnan A (fun _ => false) leb (filter (not_nan A is_nan) data) with
  | None, None => True
  | Some p, Some k =>
      k = length (filter (not_nan A is_nan) (firstn p data)) /\
      exists x, nth_error data p = Some x /\
                nth_error (filter (not_nan A is_nan) data) k = Some x
  | _, _ => False
  end.
Proof.
  intros A is_nan leb Htot Htrans data.
  exact (argmin_skipnan_eq_plain A is_nan (fun a b => leb b a)
           (fun x y => Htot y x) (fun x y z H1 H2 => Htrans z y x H2 H1) data).
Qed.

Print Assumptions fold_skipnan_filter.
Print Assumptions fold_skipnan_sees_each_once.
Print Assumptions indexed_fold_skipnan_filter.
Print Assumptions indexed_positions.
Print Assumptions min_skipnan_none_iff.
Print Assumptions max_skipnan_none_iff.
Print Assumptions min_skipnan_spec.
Print Assumptions max_skipnan_spec.
Print Assumptions argmin_skipnan_none_iff.
Print Assumptions argmax_skipnan_none_iff.
Print Assumptions argmin_skipnan_spec.
Print Assumptions argmax_skipnan_spec.
Print Assumptions min_skipnan_eq_plain.
Print Assumptions max_skipnan_eq_plain.
Print Assumptions argmin_skipnan_eq_plain.
Print Assumptions argmax_skipnan_eq_plain.
