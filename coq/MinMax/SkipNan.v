(* The NaN-skipping folds of MaybeNanExt (maybe_nan/mod.rs) and the
   min/max/argmin/argmax_skipnan built on them (quantile/mod.rs).  [is_nan]
   classifies missing values; [leb] is the total order of the NotNan type. *)
From Coq Require Import List Arith Bool.
Import ListNotations.

Section SN.
Variable A : Type.
Variable is_nan : A -> bool.
Variable leb : A -> A -> bool.

Definition not_nan (x : A) : bool := negb (is_nan x).

(* fold_skipnan / visit_skipnan: self.fold(init, |acc, e| if let Some(v) = e.try_as_not_nan() { f(acc, v) } else { acc }) *)
Definition fold_skipnan {B} (f : B -> A -> B) (init : B) (trav : list A) : B :=
  fold_left (fun acc x => if is_nan x then acc else f acc x) trav init.

(* indexed_fold_skipnan over indexed_iter (logical order, flat positions) *)
Definition indexed (data : list A) : list (nat * A) := combine (seq 0 (length data)) data.

Definition indexed_fold_skipnan {B} (f : B -> nat * A -> B) (init : B) (data : list A) : B :=
  fold_left (fun acc px => if is_nan (snd px) then acc else f acc px) (indexed data) init.

(* fold_axis_skipnan on one lane: fold(acc, |acc, e| if not nan { fold(acc, e) } else { acc.clone() }) *)
Definition fold_lane_skipnan {B} (f : B -> A -> B) (init : B) (lane : list A) : B :=
  fold_skipnan f init lane.

(* min_skipnan: first = self.first().and_then(try_as_not_nan);
   fold_skipnan(first, |acc, e| Some(match acc { Some(a) => a.min(e), None => e })) ; None is the NaN value *)
Definition omin (acc : option A) (e : A) : option A :=
  match acc with
  | Some a => Some (if leb a e then a else e)   (* Ord::min: a if a <= e *)
  | None => Some e
  end.
Definition omax (acc : option A) (e : A) : option A :=
  match acc with
  | Some a => Some (if leb a e then e else a)   (* Ord::max(a, e): e if a <= e (max_by returns the second on ties) *)
  | None => Some e
  end.

Definition first_not_nan (data : list A) : option A :=
  match data with
  | [] => None
  | h :: _ => if is_nan h then None else Some h
  end.

Definition min_skipnan (data trav : list A) : option A := fold_skipnan omin (first_not_nan data) trav.
Definition max_skipnan (data trav : list A) : option A := fold_skipnan omax (first_not_nan data) trav.

(* argmin_skipnan: indexed_fold_skipnan(None, |cur, (pattern, elem)| Some(match cur { Some(m) if m <= elem => m, _ => { pattern_min = pattern; elem } })) *)
Definition argmin_step (st : option A * nat) (px : nat * A) : option A * nat :=
  match fst st with
  | Some m => if leb m (snd px) then st else (Some (snd px), fst px)
  | None => (Some (snd px), fst px)
  end.
Definition argmax_step (st : option A * nat) (px : nat * A) : option A * nat :=
  match fst st with
  | Some m => if leb (snd px) m then st else (Some (snd px), fst px)   (* m >= elem *)
  | None => (Some (snd px), fst px)
  end.

(* None = Err(EmptyInput) *)
Definition argmin_skipnan (data : list A) : option nat :=
  let st := indexed_fold_skipnan argmin_step (None, 0) data in
  match fst st with Some _ => Some (snd st) | None => None end.
Definition argmax_skipnan (data : list A) : option nat :=
  let st := indexed_fold_skipnan argmax_step (None, 0) data in
  match fst st with Some _ => Some (snd st) | None => None end.
End SN.
