(* Specification proofs for the models of QuantileExt::{argmin,argmax,min,max}
   in MinMax.v.  The comparison is a partial comparison that is a total preorder
   on the non-NaN elements (what f32/f64 partial_cmp and every Ord type satisfy). *)
From Coq Require Import List Arith Lia Permutation Bool.
Import ListNotations.
From NS Require Import MinMax.MinMax.

(* ------------------------------------------------------------------ *)
(* Generic part: everything about the [Lt] (minimum) direction, and the
   direction-independent Undef characterisation.  The [Gt] direction is
   obtained afterwards by instantiating with the opposite comparison.   *)
(* ------------------------------------------------------------------ *)
Section Gen.
Variable A : Type.
Variable cmp : A -> A -> option comparison.
Variable isnan : A -> bool.

Definition gle (a b : A) := cmp a b = Some Lt \/ cmp a b = Some Eq.

Hypothesis cmp_none : forall a b, cmp a b = None <-> (isnan a = true \/ isnan b = true).
Hypothesis cmp_refl : forall a, isnan a = false -> cmp a a = Some Eq.
Hypothesis cmp_antisym : forall a b, cmp a b = Some Lt <-> cmp b a = Some Gt.
Hypothesis cmp_eq_sym : forall a b, cmp a b = Some Eq -> cmp b a = Some Eq.
Hypothesis gle_trans : forall a b c, gle a b -> gle b c -> gle a c.

Let nan (x : A) := isnan x = true.
Let ok (x : A) := isnan x = false.

Lemma cmp_some : forall a b, ok a -> ok b -> exists c, cmp a b = Some c.
Proof.
  intros a b Ha Hb. destruct (cmp a b) as [c|] eqn:E; [eauto|].
  apply cmp_none in E. unfold ok in *. destruct E; congruence.
Qed.

Lemma cmp_nan_l : forall a b, nan a -> cmp a b = None.
Proof. intros a b Ha. apply cmp_none. left. exact Ha. Qed.

Lemma cmp_nan_r : forall a b, nan b -> cmp a b = None.
Proof. intros a b Hb. apply cmp_none. right. exact Hb. Qed.

Lemma gle_refl : forall a, ok a -> gle a a.
Proof. intros a Ha. right. apply cmp_refl. exact Ha. Qed.

Lemma not_lt_gle : forall a b c, cmp a b = Some c -> c <> Lt -> gle b a.
Proof.
  intros a b c Hc Hne. destruct c.
  - right. apply cmp_eq_sym. exact Hc.
  - congruence.
  - left. apply cmp_antisym. exact Hc.
Qed.

Lemma lt_gle_trans : forall a b c, cmp a b = Some Lt -> gle b c -> cmp a c = Some Lt.
Proof.
  intros a b c Hab Hbc.
  assert (Hac : gle a c) by (eapply gle_trans; [left; exact Hab | exact Hbc]).
  destruct Hac as [Hlt|Heq]; [exact Hlt|]. exfalso.
  apply cmp_eq_sym in Heq.
  assert (Hba : gle b a) by (eapply gle_trans; [exact Hbc | right; exact Heq]).
  apply cmp_antisym in Hab. destruct Hba as [H|H]; congruence.
Qed.

Lemma gle_antisym_eq : forall a b, gle a b -> gle b a -> cmp a b = Some Eq.
Proof.
  intros a b [Hab|Hab] Hba; [|exact Hab]. exfalso.
  apply cmp_antisym in Hab. destruct Hba as [H|H]; congruence.
Qed.

Lemma Exists_nan_cons_ok : forall a t, ok a ->
  (Exists nan (a :: t) <-> Exists nan t).
Proof.
  intros a t Ha. split; intros H.
  - inversion H as [? ? Hn|? ? Ht]; subst; [|exact Ht].
    unfold nan, ok in *. congruence.
  - apply Exists_cons_tl. exact H.
Qed.

(* ---- Undef characterisation, any direction ---- *)

Lemma arg_loop_undef : forall want l pos cur curpos, ok cur ->
  (arg_loop A cmp want l pos cur curpos = MM_Undef <-> Exists nan l).
Proof.
  intros want. induction l as [|a t IH]; intros pos cur curpos Hcur.
  - simpl. split; intros H; [discriminate | inversion H].
  - simpl. destruct (isnan a) eqn:Ea.
    + rewrite (cmp_nan_l a cur Ea). split; intros _; [|reflexivity].
      apply Exists_cons_hd. exact Ea.
    + destruct (cmp_some a cur Ea Hcur) as [c Hc]. rewrite Hc.
      rewrite (Exists_nan_cons_ok a t Ea).
      destruct (match c, want with Lt, Lt | Gt, Gt => true | _, _ => false end).
      * apply IH. exact Ea.
      * apply IH. exact Hcur.
Qed.

Lemma arg_ext_undef_iff : forall want data, data <> [] ->
  (arg_ext A cmp want data = MM_Undef <-> Exists nan data).
Proof.
  intros want [|h t] Hne; [congruence|]. unfold arg_ext.
  destruct (isnan h) eqn:Eh.
  - simpl. rewrite (cmp_nan_l h h Eh). split; intros _; [|reflexivity].
    apply Exists_cons_hd. exact Eh.
  - apply arg_loop_undef. exact Eh.
Qed.

Lemma val_loop_undef : forall want l acc, ok acc ->
  (val_loop A cmp want l acc = MM_Undef <-> Exists nan l).
Proof.
  intros want. induction l as [|a t IH]; intros acc Hacc.
  - simpl. split; intros H; [discriminate | inversion H].
  - simpl. destruct (isnan a) eqn:Ea.
    + rewrite (cmp_nan_l a acc Ea). split; intros _; [|reflexivity].
      apply Exists_cons_hd. exact Ea.
    + destruct (cmp_some a acc Ea Hacc) as [c Hc]. rewrite Hc.
      rewrite (Exists_nan_cons_ok a t Ea).
      destruct (match c, want with Lt, Lt | Gt, Gt => true | _, _ => false end).
      * apply IH. exact Ea.
      * apply IH. exact Hacc.
Qed.

Lemma val_ext_undef_iff : forall want data trav, data <> [] -> Permutation data trav ->
  (val_ext A cmp want data trav = MM_Undef <-> Exists nan data).
Proof.
  intros want [|h t] trav Hne Hperm; [congruence|]. unfold val_ext.
  destruct (isnan h) eqn:Eh.
  - destruct trav as [|a trav'].
    + apply Permutation_sym, Permutation_nil in Hperm. discriminate.
    + simpl. rewrite (cmp_nan_r a h Eh). split; intros _; [|reflexivity].
      apply Exists_cons_hd. exact Eh.
  - rewrite (val_loop_undef want trav h Eh).
    split; intros H; apply Exists_exists in H; destruct H as (x & Hin & Hx);
      apply Exists_exists; exists x; split; try exact Hx.
    + eapply Permutation_in; [apply Permutation_sym; exact Hperm | exact Hin].
    + eapply Permutation_in; [exact Hperm | exact Hin].
Qed.

(* ---- Ok characterisation, minimum direction ---- *)

Lemma arg_loop_ok : forall l pos cur curpos, ok cur -> Forall ok l ->
  exists p x, arg_loop A cmp Lt l pos cur curpos = MM_Ok p /\
    ((p = curpos /\ x = cur /\ (forall y, In y l -> gle cur y)) \/
     (pos <= p /\ nth_error l (p - pos) = Some x /\ cmp x cur = Some Lt /\
      (forall y, In y l -> gle x y) /\
      (forall q y, q < p - pos -> nth_error l q = Some y -> cmp x y = Some Lt))).
Proof.
  induction l as [|a t IH]; intros pos cur curpos Hcur Hall.
  - exists curpos, cur. split; [reflexivity|]. left.
    split; [reflexivity|]. split; [reflexivity|]. intros y [].
  - inversion Hall as [|? ? Ha Ht]; subst.
    destruct (cmp_some a cur Ha Hcur) as [c Hc]. simpl. rewrite Hc.
    assert (Hkeep : c <> Lt ->
      exists p x, arg_loop A cmp Lt t (S pos) cur curpos = MM_Ok p /\
      ((p = curpos /\ x = cur /\ (forall y, In y (a :: t) -> gle cur y)) \/
       (pos <= p /\ nth_error (a :: t) (p - pos) = Some x /\ cmp x cur = Some Lt /\
        (forall y, In y (a :: t) -> gle x y) /\
        (forall q y, q < p - pos -> nth_error (a :: t) q = Some y -> cmp x y = Some Lt)))).
    { intros Hne.
      assert (Hca : gle cur a) by (eapply not_lt_gle; eauto).
      destruct (IH (S pos) cur curpos Hcur Ht) as (p & x & Hr & Hcase).
      exists p, x. split; [exact Hr|].
      destruct Hcase as [(Hp & Hx & Hle) | (Hp & Hn & Hlt & Hle & Hst)].
      - left. split; [exact Hp|]. split; [exact Hx|].
        intros y [<-|Hy]; [exact Hca | apply Hle; exact Hy].
      - right. split; [lia|].
        replace (p - pos) with (S (p - S pos)) by lia.
        split; [exact Hn|]. split; [exact Hlt|].
        assert (Hxa : cmp x a = Some Lt) by (eapply lt_gle_trans; eauto).
        split.
        + intros y [<-|Hy]; [left; exact Hxa | apply Hle; exact Hy].
        + intros q y Hq Hnth. destruct q as [|q']; simpl in Hnth.
          * inversion Hnth; subst. exact Hxa.
          * eapply Hst; [|exact Hnth]. lia. }
    destruct c.
    + apply Hkeep. discriminate.
    + (* a becomes the current minimum *)
      destruct (IH (S pos) a pos Ha Ht) as (p & x & Hr & Hcase).
      exists p, x. split; [exact Hr|]. right.
      destruct Hcase as [(Hp & Hx & Hle) | (Hp & Hn & Hlt & Hle & Hst)].
      * subst p x. split; [lia|]. replace (pos - pos) with 0 by lia.
        split; [reflexivity|]. split; [exact Hc|]. split.
        -- intros y [<-|Hy]; [apply gle_refl; exact Ha | apply Hle; exact Hy].
        -- intros q y Hq. lia.
      * split; [lia|]. replace (p - pos) with (S (p - S pos)) by lia.
        split; [exact Hn|].
        split; [eapply lt_gle_trans; [exact Hlt | left; exact Hc]|].
        split.
        -- intros y [<-|Hy]; [left; exact Hlt | apply Hle; exact Hy].
        -- intros q y Hq Hnth. destruct q as [|q']; simpl in Hnth.
           ++ inversion Hnth; subst. exact Hlt.
           ++ eapply Hst; [|exact Hnth]. lia.
    + apply Hkeep. discriminate.
Qed.

Lemma g_argmin_ok : forall data, data <> [] -> Forall ok data ->
  exists p x, argmin A cmp data = MM_Ok p /\ nth_error data p = Some x /\
    (forall y, In y data -> gle x y) /\
    (forall q y, q < p -> nth_error data q = Some y -> cmp x y = Some Lt).
Proof.
  intros [|h t] Hne Hall; [congruence|].
  inversion Hall as [|? ? Hh Ht]; subst.
  unfold argmin, arg_ext. simpl. rewrite (cmp_refl h Hh).
  destruct (arg_loop_ok t 1 h 0 Hh Ht) as (p & x & Hr & Hcase).
  exists p, x. split; [exact Hr|].
  destruct Hcase as [(Hp & Hx & Hle) | (Hp & Hn & Hlt & Hle & Hst)].
  - subst p x. split; [reflexivity|]. split.
    + intros y [<-|Hy]; [apply gle_refl; exact Hh | apply Hle; exact Hy].
    + intros q y Hq. lia.
  - destruct p as [|p']; [lia|]. replace (S p' - 1) with p' in * by lia.
    split; [exact Hn|]. split.
    + intros y [<-|Hy]; [left; exact Hlt | apply Hle; exact Hy].
    + intros q y Hq Hnth. destruct q as [|q']; simpl in Hnth.
      * inversion Hnth; subst. exact Hlt.
      * eapply Hst; [|exact Hnth]. lia.
Qed.

Lemma val_loop_ok : forall l acc, ok acc -> Forall ok l ->
  exists x, val_loop A cmp Lt l acc = MM_Ok x /\ (x = acc \/ In x l) /\
    gle x acc /\ (forall y, In y l -> gle x y).
Proof.
  induction l as [|a t IH]; intros acc Hacc Hall.
  - exists acc. split; [reflexivity|]. split; [left; reflexivity|].
    split; [apply gle_refl; exact Hacc|]. intros y [].
  - inversion Hall as [|? ? Ha Ht]; subst.
    destruct (cmp_some a acc Ha Hacc) as [c Hc]. simpl. rewrite Hc.
    assert (Hkeep : c <> Lt ->
      exists x, val_loop A cmp Lt t acc = MM_Ok x /\ (x = acc \/ In x (a :: t)) /\
        gle x acc /\ (forall y, In y (a :: t) -> gle x y)).
    { intros Hne.
      assert (Hca : gle acc a) by (eapply not_lt_gle; eauto).
      destruct (IH acc Hacc Ht) as (x & Hr & Hin & Hxa & Hle).
      exists x. split; [exact Hr|]. split; [destruct Hin; [left|right; right]; assumption|].
      split; [exact Hxa|].
      intros y [<-|Hy]; [eapply gle_trans; eauto | apply Hle; exact Hy]. }
    destruct c.
    + apply Hkeep. discriminate.
    + destruct (IH a Ha Ht) as (x & Hr & Hin & Hxa & Hle).
      exists x. split; [exact Hr|].
      split; [right; destruct Hin; [left; symmetry|right]; assumption|].
      split; [eapply gle_trans; [exact Hxa | left; exact Hc]|].
      intros y [<-|Hy]; [exact Hxa | apply Hle; exact Hy].
    + apply Hkeep. discriminate.
Qed.

Lemma g_min_trav_ok : forall data trav, data <> [] -> Permutation data trav -> Forall ok data ->
  exists x, min_trav A cmp data trav = MM_Ok x /\ In x data /\ (forall y, In y data -> gle x y).
Proof.
  intros [|h t] trav Hne Hperm Hall; [congruence|].
  assert (Hh : ok h) by (inversion Hall; assumption).
  assert (Htrav : Forall ok trav).
  { apply Forall_forall. intros y Hy. rewrite Forall_forall in Hall. apply Hall.
    eapply Permutation_in; [apply Permutation_sym; exact Hperm | exact Hy]. }
  unfold min_trav, val_ext.
  destruct (val_loop_ok trav h Hh Htrav) as (x & Hr & Hin & Hxh & Hle).
  exists x. split; [exact Hr|]. split.
  - destruct Hin as [->|Hin]; [left; reflexivity|].
    eapply Permutation_in; [apply Permutation_sym; exact Hperm | exact Hin].
  - intros y Hy. apply Hle. eapply Permutation_in; [exact Hperm | exact Hy].
Qed.

End Gen.

(* ------------------------------------------------------------------ *)
(* The opposite comparison, turning the Gt loops into Lt loops.        *)
(* ------------------------------------------------------------------ *)
Section Flip.
Variable A : Type.
Variable cmp : A -> A -> option comparison.

Definition opp_cmp (a b : A) : option comparison := option_map CompOpp (cmp a b).

Lemma arg_loop_flip : forall l pos cur curpos,
  arg_loop A cmp Gt l pos cur curpos = arg_loop A opp_cmp Lt l pos cur curpos.
Proof.
  induction l as [|a t IH]; intros pos cur curpos; [reflexivity|].
  simpl. unfold opp_cmp at 1. destruct (cmp a cur) as [[]|]; simpl; auto.
Qed.

Lemma val_loop_flip : forall l acc,
  val_loop A cmp Gt l acc = val_loop A opp_cmp Lt l acc.
Proof.
  induction l as [|a t IH]; intros acc; [reflexivity|].
  simpl. unfold opp_cmp at 1. destruct (cmp a acc) as [[]|]; simpl; auto.
Qed.

Lemma argmax_flip : forall data, argmax A cmp data = argmin A opp_cmp data.
Proof. intros [|h t]; [reflexivity|]. apply arg_loop_flip. Qed.

Lemma max_trav_flip : forall data trav, max_trav A cmp data trav = min_trav A opp_cmp data trav.
Proof. intros [|h t] trav; [reflexivity|]. apply val_loop_flip. Qed.

Lemma opp_cmp_lt : forall a b, opp_cmp a b = Some Lt <-> cmp a b = Some Gt.
Proof. intros a b. unfold opp_cmp. destruct (cmp a b) as [[]|]; simpl; split; congruence. Qed.
Lemma opp_cmp_gt : forall a b, opp_cmp a b = Some Gt <-> cmp a b = Some Lt.
Proof. intros a b. unfold opp_cmp. destruct (cmp a b) as [[]|]; simpl; split; congruence. Qed.
Lemma opp_cmp_eq : forall a b, opp_cmp a b = Some Eq <-> cmp a b = Some Eq.
Proof. intros a b. unfold opp_cmp. destruct (cmp a b) as [[]|]; simpl; split; congruence. Qed.
Lemma opp_cmp_none : forall a b, opp_cmp a b = None <-> cmp a b = None.
Proof. intros a b. unfold opp_cmp. destruct (cmp a b) as [[]|]; simpl; split; congruence. Qed.
End Flip.

(* ------------------------------------------------------------------ *)
(* Main theorems.                                                      *)
(* ------------------------------------------------------------------ *)
Section Main.
Variable A : Type.
Variable cmp : A -> A -> option comparison.
Variable isnan : A -> bool.

Definition cle (a b : A) := cmp a b = Some Lt \/ cmp a b = Some Eq.

Hypothesis cmp_none : forall a b, cmp a b = None <-> (isnan a = true \/ isnan b = true).
Hypothesis cmp_refl : forall a, isnan a = false -> cmp a a = Some Eq.
Hypothesis cmp_antisym : forall a b, cmp a b = Some Lt <-> cmp b a = Some Gt.
Hypothesis cmp_eq_sym : forall a b, cmp a b = Some Eq -> cmp b a = Some Eq.
Hypothesis le_trans : forall a b c, cle a b -> cle b c -> cle a c.

(* hypotheses for the opposite comparison *)
Let ocmp := opp_cmp A cmp.

Lemma ocmp_none : forall a b, ocmp a b = None <-> (isnan a = true \/ isnan b = true).
Proof. intros a b. unfold ocmp. rewrite opp_cmp_none. apply cmp_none. Qed.

Lemma ocmp_refl : forall a, isnan a = false -> ocmp a a = Some Eq.
Proof. intros a Ha. unfold ocmp. apply opp_cmp_eq. apply cmp_refl. exact Ha. Qed.

Lemma ocmp_antisym : forall a b, ocmp a b = Some Lt <-> ocmp b a = Some Gt.
Proof.
  intros a b. unfold ocmp. rewrite opp_cmp_lt, opp_cmp_gt.
  split; intros H; apply cmp_antisym; exact H.
Qed.

Lemma ocmp_eq_sym : forall a b, ocmp a b = Some Eq -> ocmp b a = Some Eq.
Proof.
  intros a b. unfold ocmp. rewrite !opp_cmp_eq. apply cmp_eq_sym.
Qed.

Lemma ogle_le : forall a b, gle A ocmp a b <-> cle b a.
Proof.
  intros a b. unfold gle, cle, ocmp. rewrite opp_cmp_lt, opp_cmp_eq. split.
  - intros [H|H]; [left; apply cmp_antisym; exact H | right; apply cmp_eq_sym; exact H].
  - intros [H|H]; [left; apply cmp_antisym; exact H | right; apply cmp_eq_sym; exact H].
Qed.

Lemma ogle_trans : forall a b c, gle A ocmp a b -> gle A ocmp b c -> gle A ocmp a c.
Proof.
  intros a b c Hab Hbc. apply ogle_le. apply ogle_le in Hab. apply ogle_le in Hbc.
  eapply le_trans; eauto.
Qed.

(* 1. empty input *)
Theorem argmin_empty : argmin A cmp [] = MM_Empty.
Proof. reflexivity. Qed.
Theorem argmax_empty : argmax A cmp [] = MM_Empty.
Proof. reflexivity. Qed.
Theorem min_trav_empty : forall trav, min_trav A cmp [] trav = MM_Empty.
Proof. reflexivity. Qed.
Theorem max_trav_empty : forall trav, max_trav A cmp [] trav = MM_Empty.
Proof. reflexivity. Qed.

(* 2. a NaN anywhere makes the result undefined, and nothing else does *)
Theorem argmin_undef_iff : forall data, data <> [] ->
  (argmin A cmp data = MM_Undef <-> Exists (fun x => isnan x = true) data).
Proof. intros data Hne. apply (arg_ext_undef_iff A cmp isnan cmp_none); assumption. Qed.

Theorem argmax_undef_iff : forall data, data <> [] ->
  (argmax A cmp data = MM_Undef <-> Exists (fun x => isnan x = true) data).
Proof. intros data Hne. apply (arg_ext_undef_iff A cmp isnan cmp_none); assumption. Qed.

(* 3. first position of a minimal / maximal element *)
Theorem argmin_ok : forall data, data <> [] -> Forall (fun x => isnan x = false) data ->
  exists p x, argmin A cmp data = MM_Ok p /\ nth_error data p = Some x /\
    (forall y, In y data -> cle x y) /\
    (forall q y, q < p -> nth_error data q = Some y -> cmp x y = Some Lt).
Proof.
  intros data Hne Hall.
  exact (g_argmin_ok A cmp isnan cmp_none cmp_refl cmp_antisym cmp_eq_sym le_trans data Hne Hall).
Qed.

Theorem argmax_ok : forall data, data <> [] -> Forall (fun x => isnan x = false) data ->
  exists p x, argmax A cmp data = MM_Ok p /\ nth_error data p = Some x /\
    (forall y, In y data -> cle y x) /\
    (forall q y, q < p -> nth_error data q = Some y -> cmp x y = Some Gt).
Proof.
  intros data Hne Hall.
  destruct (g_argmin_ok A ocmp isnan ocmp_none ocmp_refl ocmp_antisym ocmp_eq_sym ogle_trans
              data Hne Hall) as (p & x & Hr & Hn & Hle & Hst).
  exists p, x. rewrite argmax_flip. split; [exact Hr|]. split; [exact Hn|]. split.
  - intros y Hy. apply ogle_le. apply Hle. exact Hy.
  - intros q y Hq Hnth. apply (opp_cmp_lt A cmp). eapply Hst; eauto.
Qed.

(* 4. min / max over an arbitrary traversal order: Undef iff a NaN is present *)
Theorem min_trav_undef_iff : forall data trav, data <> [] -> Permutation data trav ->
  (min_trav A cmp data trav = MM_Undef <-> Exists (fun x => isnan x = true) data).
Proof. intros data trav Hne Hp. apply (val_ext_undef_iff A cmp isnan cmp_none); assumption. Qed.

Theorem max_trav_undef_iff : forall data trav, data <> [] -> Permutation data trav ->
  (max_trav A cmp data trav = MM_Undef <-> Exists (fun x => isnan x = true) data).
Proof. intros data trav Hne Hp. apply (val_ext_undef_iff A cmp isnan cmp_none); assumption. Qed.

(* 5. otherwise the result is a least / greatest element of data *)
Theorem min_trav_ok : forall data trav, data <> [] -> Permutation data trav ->
  Forall (fun x => isnan x = false) data ->
  exists x, min_trav A cmp data trav = MM_Ok x /\ In x data /\ (forall y, In y data -> cle x y).
Proof.
  intros data trav Hne Hp Hall.
  exact (g_min_trav_ok A cmp isnan cmp_none cmp_refl cmp_antisym cmp_eq_sym le_trans
           data trav Hne Hp Hall).
Qed.

Theorem max_trav_ok : forall data trav, data <> [] -> Permutation data trav ->
  Forall (fun x => isnan x = false) data ->
  exists x, max_trav A cmp data trav = MM_Ok x /\ In x data /\ (forall y, In y data -> cle y x).
Proof.
  intros data trav Hne Hp Hall.
  destruct (g_min_trav_ok A ocmp isnan ocmp_none ocmp_refl ocmp_antisym ocmp_eq_sym ogle_trans
              data trav Hne Hp Hall) as (x & Hr & Hin & Hle).
  exists x. rewrite max_trav_flip. split; [exact Hr|]. split; [exact Hin|].
  intros y Hy. apply ogle_le. apply Hle. exact Hy.
Qed.

(* helper: an Ok / non-Undef result on non-empty data means there is no NaN *)
Lemma not_Exists_nan_Forall : forall data : list A,
  ~ Exists (fun x => isnan x = true) data -> Forall (fun x => isnan x = false) data.
Proof.
  intros data Hn. apply Forall_forall. intros x Hx.
  destruct (isnan x) eqn:E; [|reflexivity]. exfalso. apply Hn.
  apply Exists_exists. exists x. split; assumption.
Qed.

Lemma Forall_ok_not_Exists_nan : forall data : list A,
  Forall (fun x => isnan x = false) data -> ~ Exists (fun x => isnan x = true) data.
Proof.
  intros data Hall Hex. apply Exists_exists in Hex. destruct Hex as (x & Hin & Hx).
  rewrite Forall_forall in Hall. specialize (Hall x Hin). simpl in Hall. congruence.
Qed.

Lemma le_antisym_eq : forall a b, cle a b -> cle b a -> cmp a b = Some Eq.
Proof.
  intros a b [Hab|Hab] Hba; [|exact Hab]. exfalso.
  apply cmp_antisym in Hab. destruct Hba as [H|H]; congruence.
Qed.

(* 6. argmin/min and argmax/max designate order-equivalent elements *)
Theorem argmin_min_agree : forall data trav p v,
  argmin A cmp data = MM_Ok p -> min_trav A cmp data trav = MM_Ok v -> Permutation data trav ->
  exists x, nth_error data p = Some x /\ cmp x v = Some Eq.
Proof.
  intros data trav p v Ha Hm Hperm.
  assert (Hne : data <> []) by (intros ->; discriminate).
  assert (Hall : Forall (fun x => isnan x = false) data).
  { apply not_Exists_nan_Forall. intros Hex.
    apply (argmin_undef_iff data Hne) in Hex. congruence. }
  destruct (argmin_ok data Hne Hall) as (p' & x & Hr & Hn & Hle & _).
  destruct (min_trav_ok data trav Hne Hperm Hall) as (v' & Hr' & Hin & Hle').
  rewrite Ha in Hr. rewrite Hm in Hr'. inversion Hr; inversion Hr'; subst p' v'.
  exists x. split; [exact Hn|].
  apply le_antisym_eq.
  - apply Hle. exact Hin.
  - apply Hle'. eapply nth_error_In. exact Hn.
Qed.

Theorem argmax_max_agree : forall data trav p v,
  argmax A cmp data = MM_Ok p -> max_trav A cmp data trav = MM_Ok v -> Permutation data trav ->
  exists x, nth_error data p = Some x /\ cmp x v = Some Eq.
Proof.
  intros data trav p v Ha Hm Hperm.
  assert (Hne : data <> []) by (intros ->; discriminate).
  assert (Hall : Forall (fun x => isnan x = false) data).
  { apply not_Exists_nan_Forall. intros Hex.
    apply (argmax_undef_iff data Hne) in Hex. congruence. }
  destruct (argmax_ok data Hne Hall) as (p' & x & Hr & Hn & Hle & _).
  destruct (max_trav_ok data trav Hne Hperm Hall) as (v' & Hr' & Hin & Hle').
  rewrite Ha in Hr. rewrite Hm in Hr'. inversion Hr; inversion Hr'; subst p' v'.
  exists x. split; [exact Hn|].
  apply le_antisym_eq.
  - apply Hle'. eapply nth_error_In. exact Hn.
  - apply Hle. exact Hin.
Qed.

(* 7. trichotomy of outcomes (the three constructors being pairwise distinct,
      exactly one of the three cases holds) *)
Theorem argmin_trichotomy : forall data,
  (argmin A cmp data = MM_Empty <-> data = []) /\
  (argmin A cmp data = MM_Undef <->
     data <> [] /\ Exists (fun x => isnan x = true) data) /\
  ((exists p, argmin A cmp data = MM_Ok p) <->
     data <> [] /\ Forall (fun x => isnan x = false) data).
Proof.
  intros data. destruct data as [|h t] eqn:Ed.
  - split; [split; reflexivity|]. split.
    + split; [discriminate | intros [H _]; congruence].
    + split; [intros [p H]; discriminate | intros [H _]; congruence].
  - rewrite <- Ed. assert (Hne : data <> []) by (rewrite Ed; discriminate).
    pose proof (argmin_undef_iff data Hne) as Hu.
    split; [|split].
    + split; [|intros ->; congruence]. intros He. exfalso.
      assert (Hall : Forall (fun x => isnan x = false) data).
      { apply not_Exists_nan_Forall. intros Hex. apply Hu in Hex. congruence. }
      destruct (argmin_ok data Hne Hall) as (p & x & Hr & _). congruence.
    + split.
      * intros H. split; [exact Hne | apply Hu; exact H].
      * intros [_ H]. apply Hu. exact H.
    + split.
      * intros [p Hp]. split; [exact Hne|]. apply not_Exists_nan_Forall.
        intros Hex. apply Hu in Hex. congruence.
      * intros [_ Hall]. destruct (argmin_ok data Hne Hall) as (p & x & Hr & _).
        exists p. exact Hr.
Qed.

Theorem argmax_trichotomy : forall data,
  (argmax A cmp data = MM_Empty <-> data = []) /\
  (argmax A cmp data = MM_Undef <->
     data <> [] /\ Exists (fun x => isnan x = true) data) /\
  ((exists p, argmax A cmp data = MM_Ok p) <->
     data <> [] /\ Forall (fun x => isnan x = false) data).
Proof.
  intros data. destruct data as [|h t] eqn:Ed.
  - split; [split; reflexivity|]. split.
    + split; [discriminate | intros [H _]; congruence].
    + split; [intros [p H]; discriminate | intros [H _]; congruence].
  - rewrite <- Ed. assert (Hne : data <> []) by (rewrite Ed; discriminate).
    pose proof (argmax_undef_iff data Hne) as Hu.
    split; [|split].
    + split; [|intros ->; congruence]. intros He. exfalso.
      assert (Hall : Forall (fun x => isnan x = false) data).
      { apply not_Exists_nan_Forall. intros Hex. apply Hu in Hex. congruence. }
      destruct (argmax_ok data Hne Hall) as (p & x & Hr & _). congruence.
    + split.
      * intros H. split; [exact Hne | apply Hu; exact H].
      * intros [_ H]. apply Hu. exact H.
    + split.
      * intros [p Hp]. split; [exact Hne|]. apply not_Exists_nan_Forall.
        intros Hex. apply Hu in Hex. congruence.
      * intros [_ Hall]. destruct (argmax_ok data Hne Hall) as (p & x & Hr & _).
        exists p. exact Hr.
Qed.

End Main.

Print Assumptions argmin_empty.
Print Assumptions argmax_empty.
Print Assumptions min_trav_empty.
Print Assumptions max_trav_empty.
Print Assumptions argmin_undef_iff.
Print Assumptions argmax_undef_iff.
Print Assumptions argmin_ok.
Print Assumptions argmax_ok.
Print Assumptions min_trav_undef_iff.
Print Assumptions max_trav_undef_iff.
Print Assumptions min_trav_ok.
Print Assumptions max_trav_ok.
Print Assumptions argmin_min_agree.
Print Assumptions argmax_max_agree.
Print Assumptions argmin_trichotomy.
Print Assumptions argmax_trichotomy.
