(* C08 (binary64): forward error of one entry of pearson_correlation (correlation.rs) AS CODED:
       cov = self.cov(0);  std = self.std_axis(Axis(1), 0);  result = cov / std.dot(&std.t())
   with ndarray 0.16.1's var_axis lane kernel (Welford's update with a FUSED multiply-add):
       mean = 0; sum_sq = 0;
       for i in 0..n { count = (i+1) as f64; delta = x_i - mean; mean = mean + delta / count;
                       sum_sq = (x_i - mean).mul_add(delta, sum_sq) }
       var = sum_sq / (n - ddof);  std = sqrt(var)
   Proofs: Num/WelfordF64.v (model, structural facts), Num/WelfordErrR.v, Num/WelfordErrF64.v (forward
   error of Welford), Num/PearsonF64.v (the entry), Num/PearsonExampleF64.v (satisfiability).

   u64 = 2^-53, eta64 = 2^-1075, g64 k = (1 + u64)^k - 1, pu k = (1 + u64)^k.
   welford_step / welford_run / welford_var / welford_std   the executable model (bit-identical to
                       ndarray on the examples of Num/WelfordF64.v); wm, wq: running mean, sum_sq.
   in_range lo hi xs   every observation is in [lo, hi];   X >= |lo|, |hi|;   D = hi - lo.
   meanR xs, ssR xs    exact mean and exact sum of squared deviations from it.
   sigmaR x = sqrt (ssR x / n),  rhoR x y = (cxy x y / n) / (sigmaR x * sigmaR y)   (Pearson's r).
   The ONLY finiteness hypothesis on a Welford lane is that its result is finite: everything computed
   before it then is (C08_welford_run_finite). *)
From Coq Require Import Reals List Arith ZArith Lia.
Import ListNotations.
From Flocq Require Import Core BinarySingleNaN.
From Coq Require Import QArith Qreals.
From NS Require Import Num.Ops Num.F64 Num.F64Inst Num.Cov Num.SumF64 Num.CovF64 Num.WestErrR
  Num.WelfordF64 Num.WelfordErrR Num.WelfordErrF64 Num.PearsonF64 Num.PearsonExampleF64.
From NS Require Import Run.RunCov Run.RunPearson Num.PearsonCheckF64.
Local Open Scope R_scope.

(* ---------------------------------------------------------------------------------------- *)
(* 0. The lane kernel: real-number semantics of one step, structural facts                    *)
(* ---------------------------------------------------------------------------------------- *)
Theorem C08_welford_step_semantics : forall (i : nat) (m s x : F64),
  (Z.of_nat (i + 1) <= 2 ^ 53)%Z ->
  let st' := welford_step (i, m, s) x in
  fin (wq st') = true ->
  (fin m = true /\ fin s = true /\ fin x = true /\ fin (wm st') = true) /\
  let rnd := round radix2 (SpecFloat.fexp 53 1024) ZnearestE in
  let delta := rnd (B2R x - B2R m) in
  B2R (wm st') = rnd (B2R m + rnd (delta / INR (i + 1))) /\
  B2R (wq st') = rnd (rnd (B2R x - B2R (wm st')) * delta + B2R s).
Proof. exact welford_step_vals. Qed.
Print Assumptions C08_welford_step_semantics.

Theorem C08_welford_run_finite : forall xs : list F64, (Z.of_nat (length xs) <= 2 ^ 53)%Z ->
  fin (wq (welford_run xs)) = true ->
  fin (wm (welford_run xs)) = true /\ Forall (fun x : F64 => fin x = true) xs.
Proof. exact welford_run_finite. Qed.
Print Assumptions C08_welford_run_finite.

(* the computed mean never leaves the range of the data (no smallness hypothesis) *)
Theorem C08_welford_mean_in_range : forall (lo hi : R) (xs : list F64),
  (1 <= length xs)%nat -> (Z.of_nat (length xs) <= 2 ^ 53)%Z ->
  in_range lo hi xs -> fin (wq (welford_run xs)) = true ->
  lo <= B2R (wm (welford_run xs)) <= hi.
Proof. exact welford_mean_in_range. Qed.
Print Assumptions C08_welford_mean_in_range.

(* ANSWER to "can sum_sq go negative with the fused arrangement?": no. *)
Theorem C08_welford_ssq_nonneg : forall xs : list F64, (Z.of_nat (length xs) <= 2 ^ 53)%Z ->
  fin (wq (welford_run xs)) = true -> 0 <= B2R (wq (welford_run xs)).
Proof. exact welford_ssq_nonneg. Qed.
Print Assumptions C08_welford_ssq_nonneg.

Theorem C08_welford_var_nonneg : forall (xs : list F64) (ddof : F64), (Z.of_nat (length xs) <= 2 ^ 53)%Z ->
  fin ddof = true -> 0 < INR (length xs) - B2R ddof ->
  fin (welford_var xs ddof) = true -> 0 <= B2R (welford_var xs ddof).
Proof. exact welford_var_nonneg. Qed.
Print Assumptions C08_welford_var_nonneg.

(* ---------------------------------------------------------------------------------------- *)
(* 1. Forward error of the running mean and of the sum of squares, any length                 *)
(* ---------------------------------------------------------------------------------------- *)
(* the bounds, spelled out *)
Theorem C08_welford_bounds_explicit : forall (N k : nat) (D X Sq : R),
  wBM D X k = (1 + u64) ^ k * (g64 2 * D + (INR k + 1) / 2 * (u64 * X + eta64)) /\
  wBS N D X k Sq
  = (1 + u64) ^ k * ((g64 2 + INR k * u64) * Sq
                     + 2 * D * (1 + g64 2) * (1 + u64) ^ N
                       * (INR k * (g64 2 * D) + INR k * (INR k + 3) / 4 * (u64 * X + eta64))
                     + INR k * eta64).
Proof. intros N k D X Sq. split; [reflexivity|]. unfold wBS. rewrite wcK_closed. reflexivity. Qed.
Print Assumptions C08_welford_bounds_explicit.

Theorem C08_welford_mean_error_f64 : forall (xs : list F64) (lo hi X : R),
  (1 <= length xs)%nat -> (Z.of_nat (length xs) <= 2 ^ 53)%Z ->
  in_range lo hi xs -> Rabs lo <= X -> Rabs hi <= X ->
  fin (wq (welford_run xs)) = true ->
  Rabs (B2R (wm (welford_run xs)) - meanR xs) <= wBM (hi - lo) X (length xs).
Proof. exact welford_mean_error. Qed.
Print Assumptions C08_welford_mean_error_f64.

Theorem C08_welford_ssq_error_f64 : forall (xs : list F64) (lo hi X : R),
  (1 <= length xs)%nat -> (Z.of_nat (length xs) <= 2 ^ 53)%Z ->
  in_range lo hi xs -> Rabs lo <= X -> Rabs hi <= X ->
  fin (wq (welford_run xs)) = true ->
  Rabs (B2R (wq (welford_run xs)) - ssR xs) <= wBS (length xs) (hi - lo) X (length xs) (ssR xs).
Proof. exact welford_ssq_error. Qed.
Print Assumptions C08_welford_ssq_error_f64.

(* polynomial forms under n u <= 1/64 *)
Theorem C08_welford_mean_error_poly_f64 : forall (xs : list F64) (lo hi X : R),
  (1 <= length xs)%nat -> INR (length xs) * u64 <= / 64 ->
  in_range lo hi xs -> Rabs lo <= X -> Rabs hi <= X ->
  fin (wq (welford_run xs)) = true ->
  Rabs (B2R (wm (welford_run xs)) - meanR xs)
    <= 41 / 20 * u64 * (hi - lo) + 61 / 120 * (INR (length xs) + 1) * (u64 * X + eta64).
Proof. exact welford_mean_error_poly. Qed.
Print Assumptions C08_welford_mean_error_poly_f64.

Theorem C08_welford_ssq_error_poly_f64 : forall (xs : list F64) (lo hi X : R),
  (1 <= length xs)%nat -> INR (length xs) * u64 <= / 64 ->
  in_range lo hi xs -> Rabs lo <= X -> Rabs hi <= X ->
  fin (wq (welford_run xs)) = true ->
  let n := INR (length xs) in let D := hi - lo in
  Rabs (B2R (wq (welford_run xs)) - ssR xs)
    <= (61 / 60 * n + 41 / 20) * u64 * ssR xs
       + D * (17 / 4 * n * u64 * D + 21 / 40 * n * (n + 3) * (u64 * X + eta64))
       + 61 / 60 * n * eta64.
Proof. exact welford_ssq_error_poly. Qed.
Print Assumptions C08_welford_ssq_error_poly_f64.

(* ---------------------------------------------------------------------------------------- *)
(* 2. The returned variance and standard deviation                                            *)
(* ---------------------------------------------------------------------------------------- *)
Theorem C08_welford_var_std_bounds_explicit : forall (n : nat) (D X Sq Dn : R),
  wSp n D X Sq = (61 / 60 * INR n + 41 / 20) * u64 * Sq
                 + D * (17 / 4 * INR n * u64 * D + 21 / 40 * INR n * (INR n + 3) * (u64 * X + eta64))
                 + 61 / 60 * INR n * eta64 /\
  wVarB n D X Sq Dn = (wSp n D X Sq * (1 + g64 2) + g64 2 * Sq) / Rabs Dn + eta64 /\
  wStdB n D X Sq Dn = wVarB n D X Sq Dn / sqrt (Sq / Dn) * (1 + u64) + u64 * sqrt (Sq / Dn).
Proof. intros. repeat split; reflexivity. Qed.
Print Assumptions C08_welford_var_std_bounds_explicit.

Theorem C08_welford_var_error_f64 : forall (xs : list F64) (ddof : F64) (lo hi X : R),
  let n := length xs in
  (1 <= n)%nat -> INR n * u64 <= / 64 ->
  in_range lo hi xs -> Rabs lo <= X -> Rabs hi <= X ->
  fin ddof = true -> INR n - B2R ddof <> 0 ->
  fin (welford_var xs ddof) = true ->
  Rabs (B2R (welford_var xs ddof) - ssR xs / (INR n - B2R ddof))
    <= wVarB n (hi - lo) X (ssR xs) (INR n - B2R ddof).
Proof. exact welford_var_error. Qed.
Print Assumptions C08_welford_var_error_f64.

Theorem C08_welford_std_error_f64 : forall (xs : list F64) (ddof : F64) (lo hi X : R),
  let n := length xs in
  (1 <= n)%nat -> INR n * u64 <= / 64 ->
  in_range lo hi xs -> Rabs lo <= X -> Rabs hi <= X ->
  fin ddof = true -> 0 < INR n - B2R ddof -> 0 < ssR xs ->
  fin (welford_var xs ddof) = true ->
  Rabs (B2R (welford_std xs ddof) - sqrt (ssR xs / (INR n - B2R ddof)))
    <= wStdB n (hi - lo) X (ssR xs) (INR n - B2R ddof).
Proof. exact welford_std_error. Qed.
Print Assumptions C08_welford_std_error_f64.

(* ---------------------------------------------------------------------------------------- *)
(* 3. The Pearson entry                                                                       *)
(* ---------------------------------------------------------------------------------------- *)
(* generic composition: ANY approximations cf of C, sif / sjf of si, sj > 0 *)
Theorem C08_pearson_entry_generic_f64 : forall (cf sif sjf : F64) (C si sj Ec Ei Ej : R),
  0 < si -> 0 < sj ->
  Rabs (B2R cf - C) <= Ec -> Rabs (B2R sif - si) <= Ei -> Rabs (B2R sjf - sj) <= Ej ->
  let relP := (Ei / si + Ej / sj + Ei / si * (Ej / sj)) * (1 + u64) + u64 + eta64 / (si * sj) in
  relP <= / 2 ->
  fin (fmul sif sjf) = true -> fin (fdiv cf (fmul sif sjf)) = true ->
  Rabs (B2R (fdiv cf (fmul sif sjf)) - C / (si * sj))
    <= 2 * (Ec + Rabs C * relP) / (si * sj) * (1 + u64) + Rabs (C / (si * sj)) * u64 + eta64.
Proof. exact pearson_entry_generic. Qed.
Print Assumptions C08_pearson_entry_generic_f64.

(* Cauchy-Schwarz for the exact quantities *)
Theorem C08_rhoR_range : forall x y : list F64, length x = length y -> (1 <= length x)%nat ->
  0 < ssR x -> 0 < ssR y -> Rabs (rhoR x y) <= 1.
Proof. exact rhoR_range. Qed.
Print Assumptions C08_rhoR_range.

(* the error terms, spelled out *)
Theorem C08_pearson_terms_explicit : forall (h hm n : nat) (xi xj x : list F64) (lo hi X Ec relP P Ei Ej si sj : R),
  pearson_Ec h hm n xi xj
  = cov_bound h n (g64 (hm + 1) * Rasum (map B2R xi) / INR n + eta64)
                  (g64 (hm + 1) * Rasum (map B2R xj) / INR n + eta64) xi xj (INR n) /\
  pearson_Es n lo hi X x = wStdB n (hi - lo) X (ssR x) (INR n) /\
  pearson_relP Ei Ej si sj = (Ei / si + Ej / sj + Ei / si * (Ej / sj)) * (1 + u64) + u64 + eta64 / (si * sj) /\
  pearson_bound Ec relP P = 2 * (Ec / P + relP) * (1 + u64) + u64 + eta64.
Proof. intros. repeat split; reflexivity. Qed.
Print Assumptions C08_pearson_terms_explicit.

(* HEADLINE: cov entry by ANY evaluation (sum trees of height <= hm for the means, any dot_eval of
   height <= h, fused or not), sigma by ndarray's Welford kernel, one rounding for sigma_i sigma_j,
   one division *)
Theorem C08_pearson_entry_error_f64 :
  forall (xi xj : list F64) (si sj v : F64) (h hm n : nat) (loi hii Xi loj hij Xj : R),
  length xi = n -> length xj = n -> (1 <= n)%nat -> INR n * u64 <= / 64 ->
  in_range loi hii xi -> Rabs loi <= Xi -> Rabs hii <= Xi ->
  in_range loj hij xj -> Rabs loj <= Xj -> Rabs hij <= Xj ->
  0 < ssR xi -> 0 < ssR xj ->
  sum_eval xi si hm -> sum_eval xj sj hm ->
  let nf := f64_of_Z (Z.of_nat n) in
  dot_eval (combine (dev xi (fdiv si nf)) (dev xj (fdiv sj nf))) v h ->
  let cf := fdiv v (fsub nf fzero) in
  let sif := welford_std xi fzero in let sjf := welford_std xj fzero in
  let rho_f := fdiv cf (fmul sif sjf) in
  fin (fmul sif sjf) = true -> fin rho_f = true ->
  let relP := pearson_relP (pearson_Es n loi hii Xi xi) (pearson_Es n loj hij Xj xj) (sigmaR xi) (sigmaR xj) in
  relP <= / 2 ->
  Rabs (B2R rho_f - rhoR xi xj) <= pearson_bound (pearson_Ec h hm n xi xj) relP (sigmaR xi * sigmaR xj).
Proof. exact pearson_entry_error. Qed.
Print Assumptions C08_pearson_entry_error_f64.

(* |rho_fl| <= 1 + bound *)
Theorem C08_pearson_entry_range_f64 :
  forall (xi xj : list F64) (si sj v : F64) (h hm n : nat) (loi hii Xi loj hij Xj : R),
  length xi = n -> length xj = n -> (1 <= n)%nat -> INR n * u64 <= / 64 ->
  in_range loi hii xi -> Rabs loi <= Xi -> Rabs hii <= Xi ->
  in_range loj hij xj -> Rabs loj <= Xj -> Rabs hij <= Xj ->
  0 < ssR xi -> 0 < ssR xj ->
  sum_eval xi si hm -> sum_eval xj sj hm ->
  let nf := f64_of_Z (Z.of_nat n) in
  dot_eval (combine (dev xi (fdiv si nf)) (dev xj (fdiv sj nf))) v h ->
  let sif := welford_std xi fzero in let sjf := welford_std xj fzero in
  let rho_f := fdiv (fdiv v (fsub nf fzero)) (fmul sif sjf) in
  fin (fmul sif sjf) = true -> fin rho_f = true ->
  let relP := pearson_relP (pearson_Es n loi hii Xi xi) (pearson_Es n loj hij Xj xj) (sigmaR xi) (sigmaR xj) in
  relP <= / 2 ->
  Rabs (B2R rho_f) <= 1 + pearson_bound (pearson_Ec h hm n xi xj) relP (sigmaR xi * sigmaR xj).
Proof. exact pearson_entry_range. Qed.
Print Assumptions C08_pearson_entry_range_f64.

(* a diagonal entry is within the bound of 1 (it is NOT always exactly 1: ndarray-stats returns
   0x3FF0000000000001 for the row [0.1; 0.2; 0.3; 0.4]) *)
Theorem C08_pearson_diag_error_f64 : forall (x : list F64) (s v : F64) (h hm n : nat) (lo hi X : R),
  length x = n -> (1 <= n)%nat -> INR n * u64 <= / 64 ->
  in_range lo hi x -> Rabs lo <= X -> Rabs hi <= X -> 0 < ssR x ->
  sum_eval x s hm ->
  let nf := f64_of_Z (Z.of_nat n) in
  dot_eval (combine (dev x (fdiv s nf)) (dev x (fdiv s nf))) v h ->
  let sf := welford_std x fzero in
  let rho_f := fdiv (fdiv v (fsub nf fzero)) (fmul sf sf) in
  fin (fmul sf sf) = true -> fin rho_f = true ->
  let E := pearson_Es n lo hi X x in
  let relP := pearson_relP E E (sigmaR x) (sigmaR x) in
  relP <= / 2 ->
  Rabs (B2R rho_f - 1) <= pearson_bound (pearson_Ec h hm n x x) relP (sigmaR x * sigmaR x).
Proof. exact pearson_diag_error. Qed.
Print Assumptions C08_pearson_diag_error_f64.

(* FALSE: "the computed diagonal is exactly 1" -- row [0.1; 0.2; 0.3; 0.4] gives 1 + 2^-52 *)
Theorem C08_pearson_diag_exactly_one_refuted : exists rows : list (list F64),
  let d := nth 0 (nth 0 (pearson_welford (f64_ops [] []) ex_sum rows) []) fzero in
  fin d = true /\ d <> fone /\ bits_of_f64 d = 0x3FF0000000000001%Z.
Proof. exact pearson_diag_exactly_one_refuted. Qed.
Print Assumptions C08_pearson_diag_exactly_one_refuted.

(* the executable matrix model (Num/Cov.v cov at binary64 for any summation oracle whose results are
   summation trees, ndarray's Welford std, element-wise division): an instance *)
Theorem C08_pearson_model_entry_error_f64 :
  forall (lt et : list (Z * Z)) (sum_o : list F64 -> F64) (hf : nat -> nat),
  (forall l, sum_eval l (sum_o l) (hf (length l))) ->
  forall (rows : list (list F64)) (n i j : nat) (loi hii Xi loj hij Xj : R),
  Forall (fun r => length r = n) rows -> (i < length rows)%nat -> (j < length rows)%nat ->
  (1 <= n)%nat -> INR n * u64 <= / 64 ->
  let xi := nth i rows [] in let xj := nth j rows [] in
  in_range loi hii xi -> Rabs loi <= Xi -> Rabs hii <= Xi ->
  in_range loj hij xj -> Rabs loj <= Xj -> Rabs hij <= Xj ->
  0 < ssR xi -> 0 < ssR xj ->
  let rho_f := nth j (nth i (pearson_welford (f64_ops lt et) sum_o rows) []) fzero in
  fin (fmul (welford_std xi fzero) (welford_std xj fzero)) = true -> fin rho_f = true ->
  let relP := pearson_relP (pearson_Es n loi hii Xi xi) (pearson_Es n loj hij Xj xj) (sigmaR xi) (sigmaR xj) in
  relP <= / 2 ->
  Rabs (B2R rho_f - rhoR xi xj)
    <= pearson_bound (pearson_Ec (hf n) (hf n) n xi xj) relP (sigmaR xi * sigmaR xj).
Proof. exact pearson_model_entry_error. Qed.
Print Assumptions C08_pearson_model_entry_error_f64.

(* checkable sufficient conditions for the smallness hypothesis relP <= 1/2 (no square roots):
   each variance bound is below a tenth of the variance, and eta64 <= sigma_i sigma_j / 8 *)
Theorem C08_pearson_relP_checkable : forall (n : nat) (loi hii Xi loj hij Xj : R) (xi xj : list F64),
  length xi = n -> length xj = n -> (1 <= n)%nat -> 0 < ssR xi -> 0 < ssR xj ->
  0 <= wVarB n (hii - loi) Xi (ssR xi) (INR n) <= ssR xi / INR n / 10 ->
  0 <= wVarB n (hij - loj) Xj (ssR xj) (INR n) <= ssR xj / INR n / 10 ->
  eta64 <= sigmaR xi * sigmaR xj / 8 ->
  pearson_relP (pearson_Es n loi hii Xi xi) (pearson_Es n loj hij Xj xj) (sigmaR xi) (sigmaR xj) <= / 2.
Proof.
  intros n loi hii Xi loj hij Xj xi xj Li Lj Hn Si Sj Vi Vj He.
  apply pearson_relP_small.
  - apply sigmaR_pos; [lia | exact Si].
  - apply sigmaR_pos; [lia | exact Sj].
  - exact (pearson_Es_small n loi hii Xi xi Li Hn Si Vi).
  - exact (pearson_Es_small n loj hij Xj xj Lj Hn Sj Vj).
  - exact He.
Qed.
Print Assumptions C08_pearson_relP_checkable.

(* ---------------------------------------------------------------------------------------- *)
(* 4. The bound evaluated exactly over Q (Run/RunPearson.v), soundness (Num/PearsonCheckF64.v) *)
(* ---------------------------------------------------------------------------------------- *)
(* toQ x: the exact rational value of a binary64 number.
   pearson_bound_Q h hm xi xj = Some B: every data hypothesis of the headline theorem has been
   checked (lengths, n u <= 1/64, the ranges [min, max], positive variances, relP <= 1/2) and B is a
   rational upper bound of the proved bound (sigma_i sigma_j enters through a verified rational lower
   bound of sqrt (V_i V_j)).  pearson_bound_leb .. c: moreover B <= c. *)
Theorem C08_pearson_model_entry_error_num_f64 :
  forall (lt et : list (Z * Z)) (sum_o : list F64 -> F64) (hf : nat -> nat),
  (forall l, sum_eval l (sum_o l) (hf (length l))) ->
  forall (rows : list (list F64)) (n i j : nat) (c : Q),
  Forall (fun r => length r = n) rows -> (i < length rows)%nat -> (j < length rows)%nat ->
  let xi := nth i rows [] in let xj := nth j rows [] in
  pearson_bound_leb (hf n) (hf n) (map toQ xi) (map toQ xj) c = true ->
  let rho_f := nth j (nth i (pearson_welford (f64_ops lt et) sum_o rows) []) fzero in
  fin (fmul (welford_std xi fzero) (welford_std xj fzero)) = true -> fin rho_f = true ->
  Rabs (B2R rho_f - rhoR xi xj) <= Q2R c.
Proof. exact pearson_model_entry_error_num. Qed.
Print Assumptions C08_pearson_model_entry_error_num_f64.

(* a concrete instance, every hypothesis by vm_compute: rows [1;2;4;7], [2;1;6;3], left-to-right sums *)
Theorem C08_pearson_model_numeric_example :
  Rabs (B2R (nth 1 (nth 0 pmat []) fzero) - rhoR px py) <= 288 * u64 /\
  Rabs (B2R (nth 0 (nth 0 pmat []) fzero) - 1) <= 292 * u64.
Proof. exact pearson_model_numeric. Qed.
Print Assumptions C08_pearson_model_numeric_example.

(* the run-time check of an OBSERVED entry (e.g. the one ndarray-stats returns) is sound *)
Theorem C08_pearson_check_sound : forall (h hm : nat) (xi xj : list F64) (obs : F64),
  pearson_check_Q h hm (map toQ xi) (map toQ xj) (toQ obs) = true ->
  exists B : Q, pearson_bound_Q h hm (map toQ xi) (map toQ xj) = Some B /\
                Rabs (B2R obs - rhoR xi xj) <= Q2R B.
Proof. exact pearson_check_Q_bound. Qed.
Print Assumptions C08_pearson_check_sound.
