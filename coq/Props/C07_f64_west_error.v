(* C07 in binary64, the forward-error half: West's incremental weighted variance as coded
   (Num/Kernels.v west_step / west = means.rs inner_weighted_var after the repairs D5, D6) at the
   IEEE-754 instance OW = f64_ops [] [] (West calls no libm function, the tables are irrelevant),
   for lists of ANY length, against the exact quantities
       W = sum w_i,   M = sum w_i x_i / W,   S = sum w_i (x_i - M)^2      (dW, dM, dS below).
   Notation.  l : list (F64 * F64) is the list of (observation, weight) pairs, l = combine data ws
   for the two-list form; n = length l;  frun l = the computed state (wsum, m, s) after l
   (frun (combine data ws) = west_final data ws by conversion);  sw / sm / ss its components.
   u64 = 2^-53 (unit roundoff), eta64 = 2^-1075 (half the smallest subnormal),
   g64 k = (1+u64)^k - 1,  pu k = (1+u64)^k.
   Hypotheses.  west_run_ok st0 l: every weight finite and >= 0 and every state of the scan finite
   (decided by the boolean west_run_okb, C07_f64_run_ok_checkable of Props/C07_f64.v; finiteness of
   the states excludes intermediate overflow).  obs_le X l: |x_i| <= X for every observation of
   non-zero weight (always true for X = Xmax l = max_i |x_i|).  obs_in lo hi l: those observations
   lie in [lo, hi] (decided by obs_inb for binary64 endpoints).  INR n * u64 <= /64: smallness of n u.
   Bounds (all explicit, data only).
     mean_bound n X      = BM n X (DhX n X) n
                         = pu n * (g64 (n+4) * X (1 + pu (n+3)) + n * (u64 X + eI (DhX n X)))
     ssq_bound n X W S   = BS n X (DhX n X) (2X) (W pu n) n W S
                         = pu n * ((g64 (n+7) + n u64) S + W (1 + g64 (n+7)) mean_bound (2X + DhX n X)
                                   + n eS (W pu n) (DhX n X))
     eI Dh = eta64 (Dh pu 2 + 1),  eS Wb Dh = eta64 (Wb (Dh pu 2 + 1) Dh pu 3 + Dh pu 2 + 1)
       (the underflow terms: multiples of eta64);
     polynomial forms under n u <= 1/64:
       |m - M| <= (3.15 n + 8.5) u X + n eta64 (2.2 X + 1.1)
       |s - S| <= ((2.1 n + 7.5) S + (13.5 n + 36) W X^2) u + n eta64 (W X (14 X + 7) + 2.2 X + 1.1)
     SHARP forms, D = hi - lo the spread of the observations (condition-number form of
     Chan-Golub-LeVeque: the error of s is governed by S + W D (D + X), not by W X^2):
       E1p n X = (3.15 n + 8.5) u X + n eta64 (2.2 X + 1.1)      (a-priori mean error)
       MR2 n X D     = ((31/15)(n+4) D + (61/60) n X) u + n eta64 (2.1 D + 61/60)
       SR2 n X D W S = ((2.1 n + 7.5) S + W D (6.55 (n+4) D + 3.25 n X)) u
                       + n eta64 (W D (12 D + 6) + 2.2 D + 1.1)     (valid when E1p n X <= D;
       without that hypothesis MRp / SRp of Num/WestErrRange.v, same shape with D + E1p for D).
   Nothing is assumed beyond the hypotheses shown; Print Assumptions lists the four axioms of
   the Coq Reals / Flocq libraries only. *)
From Coq Require Import List ZArith Bool.
From Flocq Require Import Core BinarySingleNaN.
Require Import Reals.
From NS Require Import Num.F64 Num.Ops Num.F64Inst Num.Kernels Num.SumF64 Num.WestF64.
From NS Require Import Num.WestErrR Num.WestErrF64 Num.WestErrVar Num.WestErrRange.
Import ListNotations.
Notation B2R := (@BinarySingleNaN.B2R 53 1024).
Local Open Scope R_scope.

(* the theorems are stated for OW = f64_ops [] []; any other tables give the same function *)
Theorem C07_f64_tables_irrelevant : forall (lt et : list (Z * Z)) (data ws : list F64) (ddof : F64),
  west (f64_ops lt et) data ws ddof = west OW data ws ddof.
Proof. exact west_tables_irrelevant. Qed.
Print Assumptions C07_f64_tables_irrelevant.

(* (1) the weight sum *)
Theorem C07_f64_wsum_error : forall data ws : list F64, length ws = length data ->
  west_run_ok (fzero, fzero, fzero) (combine data ws) ->
  Rabs (B2R (sw (west_final data ws)) - Rsum (map B2R ws)) <= g64 (length data) * Rsum (map B2R ws).
Proof. exact west_final_wsum_error. Qed.
Print Assumptions C07_f64_wsum_error.

Theorem C07_f64_wsum_error_pairs : forall l : list (F64 * F64), west_run_ok st0 l ->
  Rabs (B2R (sw (frun l)) - dW l) <= g64 (length l) * dW l.
Proof. exact west_wsum_error. Qed.
Print Assumptions C07_f64_wsum_error_pairs.

(* (2) the running mean: a-priori form *)
Theorem C07_f64_mean_error : forall (l : list (F64 * F64)) (X : R),
  0 <= X -> west_run_ok st0 l -> obs_le X l -> 0 < dW l ->
  Rabs (B2R (sm (frun l)) - dM l) <= mean_bound (length l) X.
Proof. exact west_mean_error. Qed.
Print Assumptions C07_f64_mean_error.

Theorem C07_f64_mean_error_poly : forall (l : list (F64 * F64)) (X : R),
  0 <= X -> west_run_ok st0 l -> obs_le X l -> 0 < dW l -> INR (length l) * u64 <= / 64 ->
  Rabs (B2R (sm (frun l)) - dM l)
    <= (63 / 20 * INR (length l) + 17 / 2) * u64 * X
       + INR (length l) * (eta64 * (11 / 5 * X + 11 / 10)).
Proof. exact west_mean_error_poly. Qed.
Print Assumptions C07_f64_mean_error_poly.

(* (3) the sum of squares: a-priori form *)
Theorem C07_f64_ssq_error : forall (l : list (F64 * F64)) (X : R),
  0 <= X -> west_run_ok st0 l -> obs_le X l -> 0 < dW l ->
  Rabs (B2R (ss (frun l)) - dS l) <= ssq_bound (length l) X (dW l) (dS l).
Proof. exact west_ssq_error. Qed.
Print Assumptions C07_f64_ssq_error.

Theorem C07_f64_ssq_error_poly : forall (l : list (F64 * F64)) (X : R),
  0 <= X -> west_run_ok st0 l -> obs_le X l -> 0 < dW l -> INR (length l) * u64 <= / 64 ->
  Rabs (B2R (ss (frun l)) - dS l)
    <= ((21 / 10 * INR (length l) + 15 / 2) * dS l
        + (27 / 2 * INR (length l) + 36) * (dW l * (X * X))) * u64
       + INR (length l) * (eta64 * (dW l * X * (14 * X + 7) + 11 / 5 * X + 11 / 10)).
Proof. exact west_ssq_error_poly. Qed.
Print Assumptions C07_f64_ssq_error_poly.

(* (2'), (3') the sharp forms: observations in [lo, hi] *)
Theorem C07_f64_mean_error_range : forall (l : list (F64 * F64)) (lo hi X : R),
  0 <= X -> lo <= hi -> west_run_ok st0 l -> obs_le X l -> obs_in lo hi l -> 0 < dW l ->
  INR (length l) * u64 <= / 64 -> E1p (length l) X <= hi - lo ->
  Rabs (B2R (sm (frun l)) - dM l) <= MR2 (length l) X (hi - lo).
Proof. exact west_mean_error_range_clean. Qed.
Print Assumptions C07_f64_mean_error_range.

Theorem C07_f64_ssq_error_range : forall (l : list (F64 * F64)) (lo hi X : R),
  0 <= X -> lo <= hi -> west_run_ok st0 l -> obs_le X l -> obs_in lo hi l -> 0 < dW l ->
  INR (length l) * u64 <= / 64 -> E1p (length l) X <= hi - lo ->
  Rabs (B2R (ss (frun l)) - dS l) <= SR2 (length l) X (hi - lo) (dW l) (dS l).
Proof. exact west_ssq_error_range_clean. Qed.
Print Assumptions C07_f64_ssq_error_range.

(* ... without the hypothesis E1p <= hi - lo, and without smallness of n u (g64 form) *)
Theorem C07_f64_ssq_error_range_poly : forall (l : list (F64 * F64)) (lo hi X : R),
  0 <= X -> lo <= hi -> west_run_ok st0 l -> obs_le X l -> obs_in lo hi l -> 0 < dW l ->
  INR (length l) * u64 <= / 64 ->
  Rabs (B2R (ss (frun l)) - dS l) <= SRp (length l) X (hi - lo) (dW l) (dS l).
Proof. exact west_ssq_error_range_poly. Qed.
Print Assumptions C07_f64_ssq_error_range_poly.

Theorem C07_f64_ssq_error_range_g64 : forall (l : list (F64 * F64)) (lo hi X : R),
  0 <= X -> lo <= hi -> west_run_ok st0 l -> obs_le X l -> obs_in lo hi l -> 0 < dW l ->
  Rabs (B2R (ss (frun l)) - dS l) <= ssq_bound_range (length l) X (hi - lo) (dW l) (dS l).
Proof. exact west_ssq_error_range. Qed.
Print Assumptions C07_f64_ssq_error_range_g64.

(* (4) the returned variance s / (wsum - ddof) against S / (W - ddof) *)
Theorem C07_f64_var_error : forall (data ws : list F64) (ddof : F64) (X : R),
  let l := combine data ws in
  let n := length l in
  let Del := dW l - B2R ddof in
  0 <= X -> west_run_ok st0 l -> obs_le X l ->
  fis_finite ddof = true -> 0 <= B2R ddof -> 0 < Del ->
  INR n * u64 <= / 64 -> dW l <= 12 * Del ->
  fis_finite (west OW data ws ddof) = true ->
  Rabs (B2R (west OW data ws ddof) - dS l / Del)
    <= 4 / 3 * (ssq_poly n X (dW l) (dS l)
                + dS l * (64 / 63 * ((INR n + 1) * u64) * dW l / Del)) / Del * (1 + u64)
       + dS l / Del * u64 + eta64.
Proof. exact west_var_error_poly. Qed.
Print Assumptions C07_f64_var_error.

Theorem C07_f64_var_error_range : forall (data ws : list F64) (ddof : F64) (lo hi X : R),
  let l := combine data ws in
  let n := length l in
  let Del := dW l - B2R ddof in
  0 <= X -> lo <= hi -> west_run_ok st0 l -> obs_le X l -> obs_in lo hi l ->
  fis_finite ddof = true -> 0 <= B2R ddof -> 0 < Del ->
  INR n * u64 <= / 64 -> dW l <= 12 * Del ->
  fis_finite (west OW data ws ddof) = true ->
  Rabs (B2R (west OW data ws ddof) - dS l / Del)
    <= 4 / 3 * (SRp n X (hi - lo) (dW l) (dS l)
                + dS l * (64 / 63 * ((INR n + 1) * u64) * dW l / Del)) / Del * (1 + u64)
       + dS l / Del * u64 + eta64.
Proof. exact west_var_error_range. Qed.
Print Assumptions C07_f64_var_error_range.

(* for any bound ES on |s_fl - S| and the g64 form of the smallness hypothesis *)
Theorem C07_f64_var_error_gen : forall (data ws : list F64) (ddof : F64) (ES : R),
  let l := combine data ws in
  let n := length l in
  let Del := dW l - B2R ddof in
  west_run_ok st0 l -> Rabs (B2R (ss (frun l)) - dS l) <= ES ->
  fis_finite ddof = true -> 0 <= B2R ddof -> 0 < Del ->
  g64 (n + 1) * dW l <= / 4 * Del ->
  fis_finite (west OW data ws ddof) = true ->
  Rabs (B2R (west OW data ws ddof) - dS l / Del)
    <= 4 / 3 * (ES + dS l * (g64 (n + 1) * dW l / Del)) / Del * (1 + u64)
       + dS l / Del * u64 + eta64.
Proof. exact west_var_error_gen. Qed.
Print Assumptions C07_f64_var_error_gen.

(* the computed mean: bounded in magnitude by X (1+u)^(n+3) with no further hypothesis ... *)
Theorem C07_f64_mean_magnitude : forall (l : list (F64 * F64)) (X : R),
  0 <= X -> west_run_ok st0 l -> obs_le X l ->
  Rabs (B2R (sm (frun l))) <= X * pu (length l + 3).
Proof. exact west_mean_magnitude. Qed.
Print Assumptions C07_f64_mean_magnitude.

(* ... but NOT always within [min x, max x] (an absorbing weight makes it overshoot):
   data [-1; 1.5 * 2^-53], weights [2^-100; 1] end with the mean 2^-52 above every observation *)
Theorem C07_f64_mean_in_range_refuted : exists data ws : list F64,
  west_run_ok st0 (combine data ws) /\
  Forall (fun w => 0 < B2R w) ws /\
  Forall (fun x => fis_finite x = true /\ B2R x < B2R (sm (west_final data ws))) data.
Proof. exact west_mean_in_range_refuted. Qed.
Print Assumptions C07_f64_mean_in_range_refuted.

(* the parametric invariant from which everything follows: any bounds X, Dh, Dd on the
   observations and on their distances to the computed / exact running means *)
Theorem C07_f64_err_param : forall (l : list (F64 * F64)) (X Dh Dd : R),
  0 <= X -> 0 <= Dh -> 0 <= Dd ->
  west_run_ok st0 l -> devs_ok X Dh Dd st0 (0, 0, 0) l ->
  Inv (length l) X Dh Dd (dW l) (length l) (frun l) (erun l (0, 0, 0)).
Proof. exact west_err_param. Qed.
Print Assumptions C07_f64_err_param.

(* the exact run in closed form *)
Theorem C07_f64_exact_run : forall l : list (F64 * F64),
  Forall (fun xw : F64 * F64 => 0 <= B2R (snd xw)) l -> 0 < dW l ->
  erun l (0, 0, 0) = (dW l, dM l, dS l).
Proof. exact erun_closed. Qed.
Print Assumptions C07_f64_exact_run.

(* the hypotheses are checkable ... *)
Theorem C07_f64_obs_le_max : forall l : list (F64 * F64), obs_le (Xmax l) l.
Proof. exact obs_le_Xmax. Qed.
Print Assumptions C07_f64_obs_le_max.

Theorem C07_f64_obs_in_checkable : forall (flo fhi : F64) (l : list (F64 * F64)),
  fis_finite flo = true -> fis_finite fhi = true ->
  obs_inb flo fhi l = true -> obs_in (B2R flo) (B2R fhi) l.
Proof. exact obs_inb_sound. Qed.
Print Assumptions C07_f64_obs_in_checkable.

Theorem C07_f64_weight_pos_checkable : forall l : list (F64 * F64),
  west_run_ok st0 l -> 0 < B2R (sw (frun l)) -> 0 < dW l.
Proof. exact dW_pos_of_float. Qed.
Print Assumptions C07_f64_weight_pos_checkable.

Theorem C07_f64_ddof_checkable : forall (l : list (F64 * F64)) (d : R),
  west_run_ok st0 l -> INR (length l) * u64 <= / 64 ->
  0 <= d -> 0 < B2R (sw (frun l)) -> 2 * d <= B2R (sw (frun l)) ->
  0 < dW l - d /\ dW l <= 12 * (dW l - d).
Proof. exact ddof_ok_of_float. Qed.
Print Assumptions C07_f64_ddof_checkable.

(* ... and satisfiable: data [1; 2; 4; -3], weights [1; 0; 2; 0.5], ddof = 1 *)
Theorem C07_f64_error_example :
  let X := Xmax ex_l in
  Rabs (B2R (sw (frun ex_l)) - dW ex_l) <= 65 / 64 * 4 * u64 * dW ex_l /\
  Rabs (B2R (sm (frun ex_l)) - dM ex_l)
    <= (63 / 20 * 4 + 17 / 2) * u64 * X + 4 * (eta64 * (11 / 5 * X + 11 / 10)) /\
  Rabs (B2R (ss (frun ex_l)) - dS ex_l) <= ssq_poly 4 X (dW ex_l) (dS ex_l) /\
  Rabs (B2R (west OW ex_data ex_ws fone) - dS ex_l / (dW ex_l - 1))
    <= 4 / 3 * (ssq_poly 4 X (dW ex_l) (dS ex_l)
                + dS ex_l * (64 / 63 * ((4 + 1) * u64) * dW ex_l / (dW ex_l - 1))) / (dW ex_l - 1) * (1 + u64)
       + dS ex_l / (dW ex_l - 1) * u64 + eta64.
Proof. exact west_error_example. Qed.
Print Assumptions C07_f64_error_example.

Theorem C07_f64_range_example :
  Rabs (B2R (sm (frun ex_l)) - dM ex_l) <= MR2 4 4 7 /\
  Rabs (B2R (ss (frun ex_l)) - dS ex_l) <= SR2 4 4 7 (dW ex_l) (dS ex_l).
Proof. exact west_range_example. Qed.
Print Assumptions C07_f64_range_example.
