(* C19: quantiles obey order laws independent of any oracle.
   The laws are stated on the sort-based specification qspec (Quantile/Spec.v) over integer
   element types; C01 (C01_lane_values) transfers them to the lane kernel under every pivot
   oracle.  Linear's laws carry the magnitude bound |x| < 2^52 of the property's quantifier
   (its documented computation goes through f64); the other four strategies are unconditional. *)
From Coq Require Import List Arith ZArith Lia Permutation Bool Reals Sorting.Sorted.
Import ListNotations.
From Flocq Require Import Core BinarySingleNaN.
From NS Require Import Base.Res Num.F64 Quantile.Index Quantile.IndexProofs Quantile.Interp Quantile.Spec Quantile.Laws.
Notation B2R := (@BinarySingleNaN.B2R 53 1024).
Local Open Scope nat_scope.

(* non-decreasing in q, all five strategies *)
Theorem C19_monotone_in_q : forall t (srt : list Z), StronglySorted Z.le srt -> 1 <= length srt ->
  (Z.of_nat (length srt) <= 2 ^ 53)%Z ->
  forall s q1 q2 v1 v2, valid_q q1 = true -> valid_q q2 = true -> (B2R q1 <= B2R q2)%R ->
  (s = Linear -> small srt) ->
  qspec (int_carrier t) s srt q1 = Ok v1 -> qspec (int_carrier t) s srt q2 = Ok v2 -> (v1 <= v2)%Z.
Proof. exact L6_mono. Qed.
Print Assumptions C19_monotone_in_q.

(* between the lane minimum and maximum *)
Theorem C19_bounds : forall t (srt : list Z), StronglySorted Z.le srt -> 1 <= length srt ->
  (Z.of_nat (length srt) <= 2 ^ 53)%Z ->
  forall s q v, valid_q q = true -> (s = Linear -> small srt) ->
  qspec (int_carrier t) s srt q = Ok v -> (nth 0 srt 0 <= v <= nth (length srt - 1) srt 0)%Z.
Proof. exact L2_bounds. Qed.
Print Assumptions C19_bounds.

(* q = 0 returns the minimum, q = 1 the maximum *)
Theorem C19_q_zero : forall t (srt : list Z), StronglySorted Z.le srt -> 1 <= length srt ->
  (Z.of_nat (length srt) <= 2 ^ 53)%Z -> forall q, valid_q q = true -> B2R q = 0%R ->
  let m := nth 0 srt 0%Z in
  qspec (int_carrier t) Lower srt q = Ok m /\ qspec (int_carrier t) Higher srt q = Ok m /\
  qspec (int_carrier t) Nearest srt q = Ok m /\
  (forall v, qspec (int_carrier t) Midpoint srt q = Ok v -> v = m) /\
  (forall v, qspec (int_carrier t) Linear srt q = Ok v -> v = m).
Proof.
  intros t srt H1 H2 H3 q H4 H5 m.
  destruct (L2_zero t srt H1 H2 H3 q H4 H5) as (A & B & C & D & E & _). repeat split; assumption.
Qed.
Print Assumptions C19_q_zero.

Theorem C19_q_one : forall t (srt : list Z), StronglySorted Z.le srt -> 1 <= length srt ->
  (Z.of_nat (length srt) <= 2 ^ 53)%Z -> forall q, valid_q q = true -> B2R q = 1%R ->
  let m := nth (length srt - 1) srt 0%Z in
  qspec (int_carrier t) Lower srt q = Ok m /\ qspec (int_carrier t) Higher srt q = Ok m /\
  qspec (int_carrier t) Nearest srt q = Ok m /\
  (forall v, qspec (int_carrier t) Midpoint srt q = Ok v -> v = m) /\
  (forall v, qspec (int_carrier t) Linear srt q = Ok v -> v = m).
Proof.
  intros t srt H1 H2 H3 q H4 H5 m.
  destruct (L2_one t srt H1 H2 H3 q H4 H5) as (A & B & C & D & E & _). repeat split; assumption.
Qed.
Print Assumptions C19_q_one.

(* Lower <= {Nearest, Midpoint, Linear} <= Higher *)
Theorem C19_lower_le_higher : forall t (srt : list Z), StronglySorted Z.le srt -> 1 <= length srt ->
  (Z.of_nat (length srt) <= 2 ^ 53)%Z ->
  forall s q vl vh v, valid_q q = true -> (s = Linear -> small srt) ->
  qspec (int_carrier t) Lower srt q = Ok vl -> qspec (int_carrier t) Higher srt q = Ok vh ->
  qspec (int_carrier t) s srt q = Ok v -> (vl <= v <= vh)%Z.
Proof. exact L3_lower_le_higher. Qed.
Print Assumptions C19_lower_le_higher.

(* all five coincide whenever (N-1)q, as computed, is integral *)
Theorem C19_coincide : forall t (srt : list Z), StronglySorted Z.le srt -> 1 <= length srt ->
  (Z.of_nat (length srt) <= 2 ^ 53)%Z -> forall q, valid_q q = true ->
  lower_index q (length srt) = higher_index q (length srt) ->
  B2R (qfrac q (length srt)) = 0%R /\
  qspec (int_carrier t) Higher srt q = qspec (int_carrier t) Lower srt q /\
  qspec (int_carrier t) Nearest srt q = qspec (int_carrier t) Lower srt q /\
  (forall s1 s2 v1 v2, qspec (int_carrier t) s1 srt q = Ok v1 -> qspec (int_carrier t) s2 srt q = Ok v2 -> v1 = v2).
Proof. exact L4_coincide. Qed.
Print Assumptions C19_coincide.

(* the result does not change when the lane's elements are permuted *)
Theorem C19_permutation_invariant : forall t s q (l1 l2 s1 s2 : list Z), Permutation l1 l2 ->
  StronglySorted Z.le s1 -> StronglySorted Z.le s2 -> Permutation l1 s1 -> Permutation l2 s2 ->
  qspec (int_carrier t) s s1 q = qspec (int_carrier t) s s2 q.
Proof. exact L8_qspec_perm_invariant. Qed.
Print Assumptions C19_permutation_invariant.

(* the selecting strategies commute with any strictly increasing relabelling of the data *)
Theorem C19_relabel : forall t t' (f : Z -> Z) s (srt : list Z) q, (forall x y, (x < y)%Z -> (f x < f y)%Z) ->
  StronglySorted Z.le srt -> s = Lower \/ s = Higher \/ s = Nearest ->
  StronglySorted Z.le (map f srt) /\
  qspec (int_carrier t') s (map f srt) q =
    match qspec (int_carrier t) s srt q with Ok v => Ok (f v) | Panic => Panic | OutOfFuel => OutOfFuel end.
Proof. exact L7_relabel. Qed.
Print Assumptions C19_relabel.

(* monotonicity of the two indexes themselves *)
Theorem C19_index_mono : forall (q1 q2 : F64) (n lo1 lo2 hi1 hi2 : nat),
  fis_finite q1 = true -> fis_finite q2 = true -> (0 <= B2R q1)%R -> (B2R q1 <= B2R q2)%R -> (B2R q2 <= 1)%R ->
  1 <= n -> (Z.of_nat n <= 2 ^ 53)%Z ->
  lower_index q1 n = Some lo1 -> lower_index q2 n = Some lo2 ->
  higher_index q1 n = Some hi1 -> higher_index q2 n = Some hi2 -> lo1 <= lo2 /\ hi1 <= hi2.
Proof. exact index_mono. Qed.
Print Assumptions C19_index_mono.

(* the magnitude bound on Linear is necessary: beyond 2^53 it is neither bracketed nor monotone *)
Example C19_linear_limit :
  qspec (int_carrier {| signed := true; bits := 64 |}) Linear [2^53+1; 2^53+3; 2^53+3]%Z (f64_of_bits 4601778099247172813) = Ok (2^53+4)%Z /\
  qspec (int_carrier {| signed := true; bits := 64 |}) Linear [2^53+1; 2^53+3; 2^53+3]%Z (f64_of_bits 4602678819172646912) = Ok (2^53+3)%Z.
Proof. split; vm_compute; reflexivity. Qed.
Print Assumptions C19_linear_limit.

Example C19_example :
  map (fun q => qspec (int_carrier {| signed := true; bits := 32 |}) Nearest [1;3;3;7;9]%Z (f64_of_bits q))
      [0; 4598175219545276416; 4602678819172646912; 4604930618986332160; 4607182418800017408]%Z
  = [Ok 1; Ok 3; Ok 3; Ok 7; Ok 9]%Z.
Proof. vm_compute. reflexivity. Qed.
Print Assumptions C19_example.
