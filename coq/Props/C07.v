(* C07: variance, central moments, skewness and kurtosis agree with exact arithmetic.
   Model: Num/Kernels.v (west = the loop of inner_weighted_var with the zero-weight skip;
   moments / central_moment_coefficients / horner / central_moment(s) / kurtosis / skewness),
   here instantiated at the real numbers (Num/RInst.v).  The same definitions instantiated at
   binary64 / binary32 are compared bit for bit with the implementation by the correspondence
   check.  PARTIAL: no end-to-end forward-error theorem for the floating-point instances; the sign
   clause IS proved for binary64 (Props/C07_f64.v), where the proof attempt found defect D6. *)
From Coq Require Import Reals List Arith Lia Permutation.
Import ListNotations.
From NS Require Import Num.Ops Num.Kernels Num.RInst Num.KernelsR.
Local Open Scope R_scope.

(* West's recurrence computes sum w (x - xbar_w)^2 / (sum w - ddof), outside the class K3 *)
Theorem C07_west_is_weighted_variance : forall data ws ddof,
  length ws = length data -> ~ K3 ws -> Rsum ws - ddof <> 0 -> Rsum ws <> 0 ->
  west R_ops data ws ddof
  = Rsum (map (fun xw => snd xw *
                 (fst xw - Rsum (map (fun xw => fst xw * snd xw) (combine data ws)) / Rsum ws) ^ 2)
              (combine data ws))
    / (Rsum ws - ddof).
Proof. exact west_R. Qed.
Print Assumptions C07_west_is_weighted_variance.

(* non-negative weights are outside K3, and give a non-negative variance *)
Theorem C07_nonneg_weights_not_K3 : forall ws, Forall (fun w => 0 <= w) ws -> ~ K3 ws.
Proof. exact nonneg_not_K3. Qed.
Print Assumptions C07_nonneg_weights_not_K3.

Theorem C07_variance_nonneg : forall data ws ddof,
  Forall (fun w => 0 <= w) ws -> 0 < Rsum ws - ddof -> length ws = length data ->
  0 <= west R_ops data ws ddof.
Proof. exact west_nonneg. Qed.
Print Assumptions C07_variance_nonneg.

(* K3 is inhabited (known finding): weights [1; -1; 1] *)
Theorem C07_K3_witness : K3 [1; -1; 1].
Proof. exact K3_witness. Qed.
Print Assumptions C07_K3_witness.

(* the repair of D5 (skip zero weights) changes nothing when no weight is zero *)
Theorem C07_skip_agrees : forall data ws ddof, (forall w, In w ws -> w <> 0) ->
  west_v0 R_ops data ws ddof = west R_ops data ws ddof.
Proof. exact west_skip_agrees. Qed.
Print Assumptions C07_skip_agrees.

(* the repair of D6 (West's original update of the sum of squares) does not change the value in
   exact arithmetic *)
Theorem C07_D6_repair_agrees : forall data ws ddof, length ws = length data -> ~ K3 ws ->
  west_v1 R_ops data ws ddof = west R_ops data ws ddof.
Proof. exact west_v1_agrees. Qed.
Print Assumptions C07_D6_repair_agrees.

(* central_moment(p) = (1/n) sum (x - xbar)^p for every p (order 0 is exactly 1, order 1 exactly 0),
   for every valid summation plan *)
Theorem C07_central_moment : forall pl data p, plan_ok pl (length data) -> (1 <= length data)%nat ->
  central_moment R_ops pl data p
  = Rsum (map (fun x => (x - Rsum data / INR (length data)) ^ p) data) / INR (length data).
Proof. exact central_moment_R. Qed.
Print Assumptions C07_central_moment.

Theorem C07_central_moments : forall pl data p k, plan_ok pl (length data) -> (1 <= length data)%nat ->
  (k <= p)%nat ->
  nth k (central_moments R_ops pl data p) 0
  = Rsum (map (fun x => (x - Rsum data / INR (length data)) ^ k) data) / INR (length data).
Proof. exact central_moments_R. Qed.
Print Assumptions C07_central_moments.

Theorem C07_order_0_and_1_exact : forall (T : Type) (O : ops T) pl data,
  central_moment O pl data 0 = o_one O /\ central_moment O pl data 1 = o_zero O.
Proof. intros. split; reflexivity. Qed.
Print Assumptions C07_order_0_and_1_exact.

Theorem C07_kurtosis : forall pl data, plan_ok pl (length data) -> (1 <= length data)%nat ->
  kurtosis R_ops pl data = mu data 4 / (mu data 2) ^ 2.
Proof. exact kurtosis_R. Qed.
Print Assumptions C07_kurtosis.

Theorem C07_skewness : forall pl data, plan_ok pl (length data) -> (1 <= length data)%nat ->
  skewness R_ops pl data = mu data 3 / (sqrt (mu data 2)) ^ 3.
Proof. exact skewness_R. Qed.
Print Assumptions C07_skewness.

(* the square-and-multiply powi is the power function *)
Theorem C07_powi : forall a k, powi R_ops a k = a ^ k.
Proof. exact powi_R. Qed.
Print Assumptions C07_powi.
