(* C11: histogram counts are exact for every grid and observation history.
   Model: Hist/Histogram.v.  [hits g idx h] is the number of observations of the history
   whose grid lookup yields exactly the bin tuple idx; by C13 (grid_index_of_spec,
   indices_of_some) that lookup yields idx iff the j-th coordinate lies in the left-closed,
   right-open idx_j-th bin of axis j, for all j. *)
From Coq Require Import List Arith ZArith Lia Permutation Bool.
Import ListNotations.
From NS Require Import Base.Res Hist.Edges Hist.Histogram Hist.HistogramProofs.

(* invariant over every history of single inserts (rejected inserts included), from any
   counts array of the right size *)
Theorem C11_hist_inv : forall A (leb : A -> A -> bool) (g : grid A) h c0 c,
  Forall (fun pt => length pt = length g) h -> length c0 = prod_list (grid_shape A g) ->
  add_all A leb g c0 h = Ok c ->
  length c = length c0 /\
  forall idx, Forall2 lt idx (grid_shape A g) ->
    nth (ravel (grid_shape A g) idx) c 0 = nth (ravel (grid_shape A g) idx) c0 0 + hits A leb g idx h.
Proof. exact hist_inv. Qed.
Print Assumptions C11_hist_inv.

(* [hits] counts exactly the observations whose lookup is idx *)
Theorem C11_lands_iff : forall A (leb : A -> A -> bool) (g : grid A) idx pt,
  lands A leb g idx pt = true <-> grid_index_of A leb g pt = Ok (Some idx).
Proof. exact lands_iff. Qed.
Print Assumptions C11_lands_iff.

(* matrix form: never fails on rows of the right arity, counts have the grid's shape and each
   count is the number of rows landing in that bin tuple *)
Theorem C11_histogram_spec : forall A (leb : A -> A -> bool) (g : grid A) rows,
  Forall (fun pt => length pt = length g) rows ->
  exists c, histogram A leb g rows = Ok c /\ length c = prod_list (grid_shape A g) /\
    forall idx, Forall2 lt idx (grid_shape A g) -> nth (ravel (grid_shape A g) idx) c 0 = hits A leb g idx rows.
Proof. exact histogram_spec. Qed.
Print Assumptions C11_histogram_spec.

(* the flat position of a bin tuple is a bijection on in-range tuples *)
Theorem C11_ravel_inj : forall shape idx idx', Forall2 lt idx shape -> Forall2 lt idx' shape ->
  ravel shape idx = ravel shape idx' -> idx = idx'.
Proof. exact ravel_inj. Qed.
Print Assumptions C11_ravel_inj.

Theorem C11_ravel_lt : forall shape idx, Forall2 lt idx shape -> ravel shape idx < prod_list shape.
Proof. exact ravel_lt. Qed.
Print Assumptions C11_ravel_lt.

(* an observation outside the grid is reported as BinNotFound and changes nothing *)
Theorem C11_reject_noop : forall A (leb : A -> A -> bool) (g : grid A) c pt,
  grid_index_of A leb g pt = Ok None -> add_observation A leb g c pt = Ok (c, BinNotFound).
Proof. exact add_observation_reject. Qed.
Print Assumptions C11_reject_noop.

(* the final counts do not depend on the order of the observations (whole result, Panic included) *)
Theorem C11_order_independent : forall A (leb : A -> A -> bool) (g : grid A) h h',
  Permutation h h' -> forall c0, add_all A leb g c0 h = add_all A leb g c0 h'.
Proof. exact add_all_perm_eq. Qed.
Print Assumptions C11_order_independent.

(* the histogram counts exactly the accepted observations *)
Theorem C11_total_count : forall A (leb : A -> A -> bool) (g : grid A) h c0 c,
  Forall (fun pt => length pt = length g) h -> add_all A leb g c0 h = Ok c ->
  list_sum c = list_sum c0 +
    length (filter (fun pt => match grid_index_of A leb g pt with Ok (Some _) => true | _ => false end) h).
Proof. exact total_count. Qed.
Print Assumptions C11_total_count.

(* an axis with zero bins gives empty counts and rejects everything *)
Theorem C11_zero_bin_axis : forall A (leb : A -> A -> bool) (g : grid A) es,
  In es g -> bins_len A es = 0 ->
  prod_list (grid_shape A g) = 0 /\ hist_init A g = [] /\
  forall pt, length pt = length g -> grid_index_of A leb g pt = Ok None.
Proof. exact zero_bin_axis. Qed.
Print Assumptions C11_zero_bin_axis.

(* a row of the wrong arity is a panic (the arity assertion of Grid::index_of) *)
Theorem C11_arity_panic : forall A (leb : A -> A -> bool) (g : grid A) rows,
  Exists (fun pt => length pt <> length g) rows -> histogram A leb g rows = Panic.
Proof. exact histogram_arity_panic. Qed.
Print Assumptions C11_arity_panic.

Example C11_example :
  histogram Z Z.leb [[1;3;5]%Z; [0;10]%Z] [[1;5];[3;0];[4;9];[5;5];[2;10]]%Z = Ok [1; 2].
Proof. exact histogram_Z_example. Qed.
Print Assumptions C11_example.
