(* C01 on the code model, closed.  Props/C01.v states the lane theorem under the packaged
   hypotheses lane_ok; Quantile/EndToEnd.v discharges every one of them for the integer carriers
   (total antisymmetric order, in-range indexes for every valid q and N <= 2^53, searched indexes)
   and lifts the result to the array-level routine quantiles_axis of Run/RunQuant.v - the very
   function the correspondence check evaluates against quantiles_axis_mut: guards, lane loop over
   a buffer with arbitrary (disjoint, in-bounds) lane cell lists, shared pivot counter. *)
From Coq Require Import List Arith ZArith Lia Permutation Bool Reals Sorting.Sorted.
Import ListNotations.
From NS Require Import Base.Order Base.Res Base.SortDedup Num.F64 Quantile.Index Quantile.Interp
  Quantile.Lane Quantile.Spec Quantile.LaneProofs Mem.Buffer Mem.LanesProofs Run.RunQuant Quantile.EndToEnd.
Local Open Scope nat_scope.

(* every integer lane, every list of valid q, every pivot oracle and counter: the values are the
   specification evaluated on the sorted lane *)
Theorem C01_code_lane : forall (t : ity) (s : strategy) (lane : list Z) (qs : list F64),
  (1 <= length lane)%nat -> (Z.of_nat (length lane) <= 2 ^ 53)%Z ->
  Forall (fun q => valid_q q = true) qs ->
  exists ds, searched s qs (length lane) = Ok ds /\
    forall fuel pick c, (length lane <= fuel)%nat ->
      lane_vals (quantiles_lane (int_carrier t) s fuel pick c qs ds lane) =
      qspecs (int_carrier t) s (isort Z Z.leb lane) qs.
Proof. exact quantiles_lane_Z. Qed.
Print Assumptions C01_code_lane.

(* ... and 'the sorted lane' may be any sorted permutation of it *)
Theorem C01_code_lane_any_sorted : forall (t : ity) (s : strategy) (lane srt : list Z) (qs : list F64),
  (1 <= length lane)%nat -> (Z.of_nat (length lane) <= 2 ^ 53)%Z ->
  Forall (fun q => valid_q q = true) qs ->
  Permutation lane srt -> StronglySorted Z.le srt ->
  exists ds, searched s qs (length lane) = Ok ds /\
    forall fuel pick c, (length lane <= fuel)%nat ->
      lane_vals (quantiles_lane (int_carrier t) s fuel pick c qs ds lane) =
      qspecs (int_carrier t) s srt qs.
Proof. exact quantiles_lane_Z_any_sorted. Qed.
Print Assumptions C01_code_lane_any_sorted.

(* the full result triple: values, a permutation of the lane, some final counter *)
Theorem C01_code_lane_run : forall (t : ity) (s : strategy) (lane : list Z) (qs : list F64) (ds : list nat),
  (1 <= length lane)%nat -> (Z.of_nat (length lane) <= 2 ^ 53)%Z ->
  Forall (fun q => valid_q q = true) qs ->
  searched s qs (length lane) = Ok ds ->
  forall fuel pick c, (length lane <= fuel)%nat ->
  exists lane' c', Permutation lane lane' /\
    quantiles_lane (int_carrier t) s fuel pick c qs ds lane =
    (vals <- qspecs (int_carrier t) s (isort Z Z.leb lane) qs ;; Ok (vals, lane', c')).
Proof. exact quantiles_lane_Z_eq. Qed.
Print Assumptions C01_code_lane_run.

(* array level: every element of the result is the documented order statistic of its lane, computed
   from the lane's ORIGINAL contents; cells outside the lanes unchanged; each lane only permuted *)
Theorem C01_code_axis_values : forall t s pick qs n other (buf : list Z) lanes vs buf' c,
  (Z.of_nat n <= 2 ^ 53)%Z ->
  Forall (fun cs => length cs = n) lanes -> lanes_wf buf lanes ->
  length qs * other <> 0 ->
  quantiles_axis (int_carrier t) s pick qs n other buf lanes = Q_Ok (vs, buf', c) ->
  length vs = length lanes /\ length buf' = length buf /\
  (forall o, ~ In o (concat lanes) -> nth_error buf' o = nth_error buf o) /\
  (forall k cs, nth_error lanes k = Some cs ->
     exists l l' vals, vread buf cs = Ok l /\ nth_error vs k = Some vals /\
       Ok vals = qspecs (int_carrier t) s (isort Z Z.leb l) qs /\
       vread buf' cs = Ok l' /\ Permutation l l').
Proof. exact quantiles_axis_values. Qed.
Print Assumptions C01_code_axis_values.

(* result shape: one row per lane, one value per q *)
Theorem C01_code_axis_shape : forall t s pick qs n other (buf : list Z) lanes vs buf' c,
  (Z.of_nat n <= 2 ^ 53)%Z ->
  Forall (fun cs => length cs = n) lanes -> lanes_wf buf lanes ->
  quantiles_axis (int_carrier t) s pick qs n other buf lanes = Q_Ok (vs, buf', c) ->
  (length qs * other <> 0)%nat ->
  length vs = length lanes /\ Forall (fun v => length v = length qs) vs.
Proof. exact quantiles_axis_shape. Qed.
Print Assumptions C01_code_axis_shape.

(* totality: on valid q and a non-empty axis the routine panics only if some lane's specification
   itself fails (the K1 class for Midpoint/Linear) *)
Theorem C01_code_axis_total : forall t s pick qs n other (buf : list Z) lanes,
  Forall (fun q => valid_q q = true) qs -> 1 <= n -> (Z.of_nat n <= 2 ^ 53)%Z ->
  Forall (fun cs => length cs = n) lanes -> lanes_wf buf lanes ->
  (forall cs l, In cs lanes -> vread buf cs = Ok l ->
     exists vals, qspecs (int_carrier t) s (isort Z Z.leb l) qs = Ok vals) ->
  exists r, quantiles_axis (int_carrier t) s pick qs n other buf lanes = Q_Ok r.
Proof. exact quantiles_axis_total. Qed.
Print Assumptions C01_code_axis_total.

(* guards, any carrier: an invalid q is reported first, then an empty axis *)
Theorem C01_code_axis_invalid : forall A (C : carrier A) s pick qs n other (buf : list A) lanes q,
  first_invalid qs = Some q ->
  quantiles_axis C s pick qs n other buf lanes = Q_Err (QE_Invalid q).
Proof. exact quantiles_axis_invalid. Qed.
Print Assumptions C01_code_axis_invalid.

Theorem C01_code_axis_empty : forall A (C : carrier A) s pick qs n other (buf : list A) lanes,
  first_invalid qs = None -> n = 0 ->
  quantiles_axis C s pick qs n other buf lanes = Q_Err QE_Empty.
Proof. exact quantiles_axis_empty. Qed.
Print Assumptions C01_code_axis_empty.

Theorem C01_code_axis_nothing : forall A (C : carrier A) s pick qs n other (buf : list A) lanes,
  first_invalid qs = None -> n <> 0 -> length qs * other = 0 ->
  quantiles_axis C s pick qs n other buf lanes = Q_Ok ([], buf, 0).
Proof. exact quantiles_axis_nothing. Qed.
Print Assumptions C01_code_axis_nothing.

