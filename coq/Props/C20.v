(* C20: results do not depend on memory layout, strides or ownership.
   The model of every routine is a function of the LOGICAL array; what the layout changes in the
   implementation is a traversal / summation order, which the models take as an explicit
   parameter (a summation plan, a traversal, a lane order).  Layout independence is then:
   - exact results (order-based, integer, counts): equal for every such order;
   - floating-point sums: any two orders are within 2 gamma_(n+13) sum|terms|;
   - results whose order is fixed by ndarray-stats' own code (weighted_sum, West's recurrence,
     Horner, per-lane kernels) do not take the parameter at all: bit-identical by construction.
   Each statement below is proved in the file named; this file collects them. *)
From Coq Require Import Reals List Arith ZArith Lia Permutation Bool.
Import ListNotations.
From Flocq Require Import Core BinarySingleNaN.
From NS Require Import Base.Order Base.Res Num.Ops Num.Kernels Num.RInst Num.ZInst Num.F64 Num.F64Inst
  Num.KernelsR Num.SumF64 Num.DeviationZ MinMax.MinMax MinMax.MinMaxProofs MinMax.SkipNan MinMax.SkipNanProofs
  Hist.Edges Hist.Histogram Hist.HistogramProofs Mem.Buffer Mem.Lanes Mem.LanesProofs.
From NS Require Props.C05.

(* exact arithmetic: every summation plan gives the sum *)
Theorem C20_sum_exact_any_plan : forall pl1 pl2 data,
  KernelsR.plan_ok pl1 (length data) -> KernelsR.plan_ok pl2 (length data) ->
  nd_sum R_ops pl1 data = nd_sum R_ops pl2 data.
Proof. intros pl1 pl2 data H1 H2. rewrite (nd_sum_R pl1 data H1), (nd_sum_R pl2 data H2). reflexivity. Qed.
Print Assumptions C20_sum_exact_any_plan.

(* binary64: two layouts of the same logical array differ by at most the summation bound *)
Theorem C20_sum_f64_layouts : forall lt et pl1 pl2 n data,
  SumF64.plan_ok pl1 n -> SumF64.plan_ok pl2 n -> n = length data ->
  fin (nd_sum (f64_ops lt et) pl1 data) = true -> fin (nd_sum (f64_ops lt et) pl2 data) = true ->
  (Rabs (B2R (nd_sum (f64_ops lt et) pl1 data) - B2R (nd_sum (f64_ops lt et) pl2 data))
   <= 2 * g64 (n + 13) * Rasum (map B2R data))%R.
Proof. exact nd_sum_layout_indep_tight. Qed.
Print Assumptions C20_sum_f64_layouts.

(* integer distances: independent of Zip's traversal order *)
Theorem C20_distances_any_traversal : forall (a b : list Z) (n : nat), length a = n -> length b = n ->
  forall trav1 trav2, Permutation trav1 (seq 0 n) -> Permutation trav2 (seq 0 n) ->
  sq_l2_dist Z_ops a b trav1 = sq_l2_dist Z_ops a b trav2 /\
  l1_dist Z_ops a b trav1 = l1_dist Z_ops a b trav2 /\
  linf_dist Z_ops a b trav1 = linf_dist Z_ops a b trav2.
Proof.
  intros a b n Ha Hb t1 t2 H1 H2. repeat split.
  - exact (sq_l2_trav_indep a b n Ha Hb t1 t2 H1 H2).
  - exact (l1_trav_indep a b n Ha Hb t1 t2 H1 H2).
  - exact (linf_trav_indep a b n Ha Hb t1 t2 H1 H2).
Qed.
Print Assumptions C20_distances_any_traversal.

(* min / max: for every traversal order of fold an extremal element, same error cases; the
   index forms do not depend on any traversal (indexed_iter is logical) *)
Theorem C20_min_any_traversal : forall A cmp isnan, Props.C05.pcmp_ok A cmp isnan -> forall data trav1 trav2 x1 x2,
  Permutation data trav1 -> Permutation data trav2 ->
  min_trav A cmp data trav1 = MM_Ok x1 -> min_trav A cmp data trav2 = MM_Ok x2 -> cmp x1 x2 = Some Eq.
Proof.
  intros A cmp isnan [H1 H2 H3 H4 H5] data t1 t2 x1 x2 P1 P2 R1 R2.
  assert (Hne : data <> []) by (intro E; subst data; cbn in R1; discriminate).
  assert (Hnn : Forall (fun x => isnan x = false) data).
  { apply Forall_forall. intros y Hy. destruct (isnan y) eqn:E; auto. exfalso.
    assert (HU : min_trav A cmp data t1 = MM_Undef).
    { apply (min_trav_undef_iff A cmp isnan H1 data t1 Hne P1). apply Exists_exists. exists y. split; assumption. }
    rewrite HU in R1. discriminate. }
  destruct (min_trav_ok A cmp isnan H1 H2 H3 H4 H5 data t1 Hne P1 Hnn) as (y1 & E1 & I1 & L1).
  destruct (min_trav_ok A cmp isnan H1 H2 H3 H4 H5 data t2 Hne P2 Hnn) as (y2 & E2 & I2 & L2).
  rewrite R1 in E1. rewrite R2 in E2. injection E1 as <-. injection E2 as <-.
  pose proof (L1 x2 I2) as A12. pose proof (L2 x1 I1) as A21.
  unfold cle in A12, A21. destruct A12 as [A12|A12]; [|exact A12].
  destruct A21 as [A21|A21].
  - apply H3 in A12. rewrite A12 in A21. discriminate.
  - apply H4 in A21. exact A21.
Qed.
Print Assumptions C20_min_any_traversal.

(* skip-NaN folds see the remaining elements in whatever order the traversal has: the set is the same *)
Theorem C20_skipnan_fold_any_traversal : forall A (is_nan : A -> bool) trav1 trav2, Permutation trav1 trav2 ->
  Permutation (fold_skipnan A is_nan (fun acc x => acc ++ [x]) [] trav1)
              (fold_skipnan A is_nan (fun acc x => acc ++ [x]) [] trav2).
Proof.
  intros A is_nan t1 t2 P. rewrite !fold_skipnan_sees_each_once.
  induction P; cbn; auto.
  - destruct (not_nan A is_nan x); auto.
  - destruct (not_nan A is_nan x); destruct (not_nan A is_nan y); auto. apply perm_swap.
  - eapply Permutation_trans; eauto.
Qed.
Print Assumptions C20_skipnan_fold_any_traversal.

(* histogram counts: independent of the order of the observations (hence of the matrix layout) *)
Theorem C20_histogram_any_order : forall A (leb : A -> A -> bool) (g : grid A) h h',
  Permutation h h' -> forall c0, add_all A leb g c0 h = add_all A leb g c0 h'.
Proof. exact add_all_perm_eq. Qed.
Print Assumptions C20_histogram_any_order.

(* per-axis in-place routines: the final buffer does not depend on the order the lanes are visited *)
Theorem C20_lane_order_irrelevant : forall A R (op : list A -> res (R * list A)),
  (forall l, exists r l', op l = Ok (r, l')) ->
  (forall l r l', op l = Ok (r, l') -> Permutation l l') ->
  forall buf lanes lanes' xs buf', lanes_wf buf lanes -> Permutation lanes lanes' ->
  map_lanes op buf lanes = Ok (xs, buf') ->
  exists xs', map_lanes op buf lanes' = Ok (xs', buf') /\ Permutation xs xs'.
Proof. intros A R op Ht Hp. exact (map_lanes_perm op Ht Hp). Qed.
Print Assumptions C20_lane_order_irrelevant.

(* code-ordered kernels take no traversal parameter: functions of the logical arrays only *)
Theorem C20_code_ordered_kernels : forall T (O : ops T) data ws ddof,
  (forall pl1 pl2 : plan, weighted_sum O data ws = weighted_sum O data ws) /\
  (forall pl1 pl2 : plan, west O data ws ddof = west O data ws ddof).
Proof. intros. split; reflexivity. Qed.
Print Assumptions C20_code_ordered_kernels.
