(* C18: bulk routines equal their single-item counterparts item by item. *)
From Coq Require Import List Arith ZArith Lia Permutation Bool.
Import ListNotations.
From NS Require Import Base.Order Base.Res Sort.Select Sort.SelectMany Sort.SelectManyProofs Sort.Rank
  Num.Ops Num.Kernels Num.KernelsR Num.F64 Quantile.Index Quantile.Interp Quantile.Lane Quantile.Spec
  Quantile.LaneProofs Run.RunBase Run.RunNum.
From NS Require Props.C01.

(* quantiles: the j-th value of the bulk result is the single-q result for the j-th q
   (request order, duplicates allowed), for every pivot oracle on either side *)
Theorem C18_quantiles_item_by_item : forall A (C : carrier A) s lane srt qs ds, Props.C01.lane_ok C s lane srt qs ds ->
  forall fuel pick c vals lane' c', length lane <= fuel ->
  quantiles_lane C s fuel pick c qs ds lane = Ok (vals, lane', c') ->
  length vals = length qs /\
  forall j q, nth_error qs j = Some q ->
    exists v, nth_error vals j = Some v /\ qspec C s srt q = Ok v /\ qspecs C s srt [q] = Ok [v].
Proof.
  intros A C s lane srt qs ds [H1 H2 H3 H4 H5 H6 H7 H8] fuel pick c vals lane' c' Hf Hr.
  destruct (quantiles_lane_request_order C s H1 H2 lane srt qs ds H3 H4 H5 H6 H7 H8 fuel pick c vals lane' c' Hf Hr) as (Ha & _ & Hc).
  split; assumption.
Qed.
Print Assumptions C18_quantiles_item_by_item.

Theorem C18_single_is_bulk_of_one : forall A (C : carrier A) s (srt : list A) q v,
  qspecs C s srt [q] = Ok [v] <-> qspec C s srt q = Ok v.
Proof. intros. apply qspecs_single. Qed.
Print Assumptions C18_single_is_bulk_of_one.

(* selection: the entry for index i of the bulk form equals (order-equivalent) single selection of i,
   whatever pivots either draws *)
Theorem C18_select_many_eq_select : forall A (leb : A -> A -> bool), total leb -> transitive leb ->
  forall fuel pick a idxs, Forall (fun i => i < length a) idxs -> length a <= fuel -> 0 < fuel ->
  exists kvs a' c, select_many A leb fuel pick a idxs = Ok (kvs, a', c) /\
    forall k v, In (k, v) kvs -> forall fuel' pick' c', length a <= fuel' ->
      exists v' a'' c'', select A leb fuel' pick' c' a k = Ok (v', a'', c'') /\ leb v v' = true /\ leb v' v = true.
Proof. exact select_many_eq_select. Qed.
Print Assumptions C18_select_many_eq_select.

(* moments: central_moments(p)[k] IS central_moment(k), as terms over ANY carrier - hence bit
   for bit in binary64/binary32 without any floating-point reasoning *)
Theorem C18_central_moments_nth : forall T (O : ops T) pl data p k d, k <= p ->
  nth k (central_moments O pl data p) d = central_moment O pl data k.
Proof. exact central_moments_nth. Qed.
Print Assumptions C18_central_moments_nth.

(* per-axis weighted family: each element is the whole-array kernel applied to that lane
   (the code is map_axis over the lane kernel; the model is defined the same way) *)
Theorem C18_axis_is_lane_kernel : forall T (O : ops T) (dec : Z -> T) (enc : T -> Z) plw data ws lanes ddof,
  let d := map dec data in let w := map dec ws in
  let lane l := map (fun p => nth p d (o_zero O)) l in
  stat_axis O dec enc 0 plw data ws lanes ddof = map (fun l => enc (weighted_sum O (lane l) w)) lanes /\
  stat_axis O dec enc 1 plw data ws lanes ddof = map (fun l => enc (o_div O (weighted_sum O (lane l) w) (nd_sum O plw w))) lanes /\
  stat_axis O dec enc 2 plw data ws lanes ddof = map (fun l => enc (west O (lane l) w (dec ddof))) lanes /\
  stat_axis O dec enc 3 plw data ws lanes ddof = map (fun l => enc (o_sqrt O (west O (lane l) w (dec ddof)))) lanes.
Proof. intros. repeat split; reflexivity. Qed.
Print Assumptions C18_axis_is_lane_kernel.

(* and the whole-array weighted mean divides by the same sum of the weights *)
Theorem C18_weighted_mean_same_divisor : forall T (O : ops T) plw data ws,
  weighted_mean O plw data ws = o_div O (weighted_sum O data ws) (nd_sum O plw ws).
Proof. reflexivity. Qed.
Print Assumptions C18_weighted_mean_same_divisor.
