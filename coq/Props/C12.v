(* C12: strategy-built bins start at the minimum and cover every observation.
   Model: Hist/Strategies.v (EquiSpaced: validity check, n_bins counted with the expression
   that places the edges - the D4 repair -, build = sort+dedup of min + i*w for i in 0..=n_bins).
   The advised width is an input (see the model's header).  Generic coverage holds for every
   totally ordered carrier; the exact equal-width / closed-form statements are over Z.
   PARTIAL for binary64: coverage is the generic theorem's instance given termination, which is
   established per executed case; equal width holds only up to rounding and is checked by the
   oracle, not proved. *)
From Coq Require Import List Arith ZArith Lia Bool.
Import ListNotations.
From NS Require Import Base.Order Base.Res Base.SortDedup Num.Ops Num.ZInst Hist.Edges Hist.EdgesProofs
  Hist.Histogram Hist.Strategies Hist.StrategiesProofs.

(* the counting loop exits exactly when the placed edge exceeds the maximum *)
Theorem C12_n_bins_exit : forall T (O : ops T) (leb : T -> T -> bool) repr fuel mn w mx n,
  n_bins O leb repr fuel mn w mx = Ok n ->
  (forall i, i < n -> exists e, edge O repr mn w i = Ok e /\ leb e mx = true) /\
  (exists e, edge O repr mn w n = Ok e /\ leb e mx = false).
Proof.
  intros T O leb repr fuel mn w mx n H. unfold n_bins in H.
  destruct (n_bins_loop_spec O leb repr fuel mn w mx 0 n H) as (_ & H2 & H3).
  split; [intros i Hi; apply H2; lia | exact H3].
Qed.
Print Assumptions C12_n_bins_exit.

(* every value between the first placed edge and the maximum falls into exactly one bin *)
Theorem C12_cover : forall T (O : ops T) (leb : T -> T -> bool) repr, total leb -> transitive leb ->
  forall fuel mn w mx es, build O leb repr fuel mn w mx = Ok es ->
  forall e0, edge O repr mn w 0 = Ok e0 -> forall x, leb e0 x = true -> leb x mx = true ->
  exists i, index_of T leb es x = Some i /\
    forall i', (exists a b, nth_error es i' = Some a /\ nth_error es (i' + 1) = Some b /\
                            leb a x = true /\ sltb T leb x b = true) <-> i' = i.
Proof. intros T O leb repr Ht Htr. exact (build_cover_exactly_one O leb repr Ht Htr). Qed.
Print Assumptions C12_cover.

(* advertised number of bins = number built, when the width separates consecutive edges *)
Theorem C12_n_bins_built : forall T (O : ops T) (leb : T -> T -> bool) repr, total leb ->
  forall fuel mn w mx es n placed, build O leb repr fuel mn w mx = Ok es ->
  n_bins O leb repr fuel mn w mx = Ok n -> edges_upto O repr mn w (S n) 0 = Ok placed ->
  strict T leb placed -> es = placed /\ bins_len T es = n.
Proof. intros T O leb repr Ht. exact (build_bins_len O leb repr Ht). Qed.
Print Assumptions C12_n_bins_built.

(* errors: empty data, constant data, non-positive width *)
Theorem C12_empty : forall T (O : ops T) (leb : T -> T -> bool) repr fuel mn mx w,
  strategy_bins O leb repr fuel [] mn mx w = Ok (inl SE_Empty).
Proof. intros. apply strategy_empty. Qed.
Print Assumptions C12_empty.

Theorem C12_constant : forall T (O : ops T) (leb : T -> T -> bool) repr fuel data mn mx w,
  data <> [] -> leb mx mn = true -> strategy_bins O leb repr fuel data mn mx w = Ok (inl SE_Strategy).
Proof. intros. apply strategy_constant; assumption. Qed.
Print Assumptions C12_constant.

(* ---- integers: exact ---- *)
Section Z.
Local Open Scope Z_scope.
Variables (fuel : nat) (mn w mx : Z) (es : list Z).
Hypothesis Hw : 0 < w.
Hypothesis Hmm : mn < mx.
Hypothesis Hfuel : (Z.to_nat ((mx - mn) / w) + 2 <= fuel)%nat.
Hypothesis Hb : build Z_ops Z.leb (fun _ => true) fuel mn w mx = Ok es.

Theorem C12_Z_terminates : n_bins Z_ops Z.leb (fun _ => true) fuel mn w mx = Ok (Z.to_nat ((mx - mn) / w + 1)).
Proof. exact (n_bins_Z fuel mn w mx Hw Hmm Hfuel). Qed.

Theorem C12_Z_edges : es = map (fun i => mn + Z.of_nat i * w) (seq 0 (S (Z.to_nat ((mx - mn) / w + 1)))).
Proof. pose proof (build_Z fuel mn w mx Hw Hmm Hfuel) as H. rewrite Hb in H. injection H as H. exact H. Qed.

Theorem C12_Z_starts_at_min : nth_error es 0 = Some mn.
Proof. exact (first_edge_Z fuel mn w mx es Hw Hmm Hfuel Hb). Qed.

Theorem C12_Z_equal_width : forall i a b, nth_error es i = Some a -> nth_error es (S i) = Some b -> b - a = w.
Proof. exact (equal_width_Z fuel mn w mx es Hw Hmm Hfuel Hb). Qed.

Theorem C12_Z_ends_above_max : exists l, nth_error es (length es - 1) = Some l /\ mx < l <= mx + w.
Proof.
  destruct (last_edge_Z fuel mn w mx es Hw Hmm Hfuel Hb) as (l & H1 & _ & H3 & H4).
  exists l. repeat split; assumption.
Qed.

Theorem C12_Z_n_bins_is_built : n_bins Z_ops Z.leb (fun _ => true) fuel mn w mx = Ok (bins_len Z es).
Proof. exact (n_bins_eq_bins_len_Z fuel mn w mx es Hw Hmm Hfuel Hb). Qed.

Theorem C12_Z_every_observation_in_one_bin : forall x, mn <= x <= mx ->
  index_of Z Z.leb es x = Some (Z.to_nat ((x - mn) / w)).
Proof. exact (cover_Z fuel mn w mx es Hw Hmm Hfuel Hb). Qed.

Theorem C12_Z_all_counted : forall data, Forall (fun x => mn <= x <= mx) data ->
  exists c, histogram Z Z.leb [es] (map (fun x => [x]) data) = Ok c /\ list_sum c = length data.
Proof. exact (all_counted_Z fuel mn w mx es Hw Hmm Hfuel Hb). Qed.
End Z.
Print Assumptions C12_Z_terminates.
Print Assumptions C12_Z_edges.
Print Assumptions C12_Z_starts_at_min.
Print Assumptions C12_Z_equal_width.
Print Assumptions C12_Z_ends_above_max.
Print Assumptions C12_Z_n_bins_is_built.
Print Assumptions C12_Z_every_observation_in_one_bin.
Print Assumptions C12_Z_all_counted.

(* over the integers the pre-repair accumulation counted the same bins (why D4 was invisible there) *)
Theorem C12_v0_agrees_on_Z : forall fuel mn w mx,
  n_bins_v0 Z_ops Z.leb fuel mn w mx = n_bins Z_ops Z.leb (fun _ => true) fuel mn w mx.
Proof. exact n_bins_v0_Z. Qed.
Print Assumptions C12_v0_agrees_on_Z.

(* K4 (known finding): a from_usize too narrow for the bin count panics *)
Theorem C12_K4_witness : build Z_ops Z.leb (fun i => Nat.leb i 127) 200 (-60)%Z 1%Z 67%Z = Panic.
Proof. exact K4_witness. Qed.
Print Assumptions C12_K4_witness.
