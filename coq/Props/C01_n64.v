(* C01 / C19 on N64 (non-NaN binary64) lanes: the two arithmetic strategies in IEEE-754 binary64.
   Quantile/InterpF64.v proves, for the model functions n64_midpoint / n64_linear that the
   correspondence check evaluates bit for bit against interpolate.rs on N64 lanes: the value as a
   composition of roundings of the documented formula, the bracket lower <= result <= higher
   (exact, no ulp slack, for fraction < 1), a rounding-error bound against the real-number
   definition, and that a NaN result (the N64 panic) needs the gap higher - lower to overflow -
   the known-finding class K1. *)
From Flocq Require Import Core BinarySingleNaN.
Require Import Reals ZArith Bool.
From NS Require Import Base.Res Num.F64 Quantile.Index Quantile.Interp Num.SumF64 Quantile.InterpF64.
Local Open Scope R_scope.

(* Midpoint: finite, bracketed, within 2u(|l|+|h|)+eta of (l+h)/2, whenever the gap does not overflow *)
Theorem C01_n64_midpoint : forall (l h : F64),
  fis_finite l = true -> fis_finite h = true -> B2R l <= B2R h ->
  rnd (B2R h - B2R l) < bpow radix2 1024 ->
  exists m, n64_midpoint l h = Ok m /\ fis_finite m = true /\
    B2R m = rnd (B2R l + rnd (rnd (B2R h - B2R l) / 2)) /\
    B2R l <= B2R m <= B2R h /\
    Rabs (B2R m - (B2R l + B2R h) / 2)
      <= u64 * (B2R h - B2R l) + u64 * Rmax (Rabs (B2R l)) (Rabs (B2R h)) + eta64 /\
    Rabs (B2R m - (B2R l + B2R h) / 2) <= 2 * u64 * (Rabs (B2R l) + Rabs (B2R h)) + eta64.
Proof. exact n64_midpoint_spec. Qed.
Print Assumptions C01_n64_midpoint.

(* Linear, fraction < 1 (always the case: the fraction is index - floor(index)): exactly inside
   [lower, higher] and within 3u(|l|+|h|)+eta of the real interpolation *)
Theorem C01_n64_linear_bracket : forall (l h frac : F64),
  fis_finite l = true -> fis_finite h = true -> fis_finite frac = true ->
  0 <= B2R frac < 1 -> B2R l <= B2R h ->
  rnd (B2R h - B2R l) < bpow radix2 1024 ->
  exists v, n64_linear l h frac = Ok v /\ fis_finite v = true /\
    B2R v = rnd (B2R l + rnd (B2R frac * rnd (B2R h - B2R l))) /\
    B2R l <= B2R v <= B2R h /\
    Rabs (B2R v - (B2R l + B2R frac * (B2R h - B2R l)))
      <= 3 * u64 * (Rabs (B2R l) + Rabs (B2R h)) + eta64.
Proof. exact n64_linear_bracket. Qed.
Print Assumptions C01_n64_linear_bracket.

(* Linear: the full account including the frac -> 1 envelope *)
Theorem C01_n64_linear : forall (l h frac : F64),
  fis_finite l = true -> fis_finite h = true -> fis_finite frac = true ->
  0 <= B2R frac < 1 -> B2R l <= B2R h ->
  rnd (B2R h - B2R l) < bpow radix2 1024 ->
  rnd (B2R l + rnd (B2R h - B2R l)) < bpow radix2 1024 ->
  exists v, n64_linear l h frac = Ok v /\ fis_finite v = true /\
    B2R v = rnd (B2R l + rnd (B2R frac * rnd (B2R h - B2R l))) /\
    B2R l <= B2R v /\
    B2R v <= rnd (B2R l + rnd (B2R h - B2R l)) /\
    rnd (B2R l + rnd (B2R h - B2R l))
      <= B2R h + u64 * Rabs (B2R h) + u64 * (1 + u64) * (B2R h - B2R l) /\
    (0 <= B2R l -> B2R v <= succ64 (B2R h) /\ succ64 (B2R h) = B2R h + ulp64 (B2R h)) /\
    Rabs (B2R v - (B2R l + B2R frac * (B2R h - B2R l)))
      <= u64 * (2 * B2R frac * (B2R h - B2R l) + Rabs (B2R l) + Rabs (B2R h)) + eta64 /\
    Rabs (B2R v - (B2R l + B2R frac * (B2R h - B2R l)))
      <= 3 * u64 * (Rabs (B2R l) + Rabs (B2R h)) + eta64.
Proof. exact n64_linear_spec. Qed.
Print Assumptions C01_n64_linear.

(* outside those side conditions: Midpoint never panics on finite inputs (it returns an infinity when
   the gap overflows - K1); Linear panics only for 0 * inf, i.e. gap overflow and fraction zero *)
Theorem C01_n64_midpoint_never_panics : forall (l h : F64),
  fis_finite l = true -> fis_finite h = true ->
  exists m, n64_midpoint l h = Ok m /\ fis_nan m = false /\
    (fis_finite (fsub h l) = true -> fis_finite m = true \/ exists s, m = B754_infinity s) /\
    (forall s, fsub h l = B754_infinity s -> m = B754_infinity s).
Proof. exact n64_midpoint_no_panic. Qed.
Print Assumptions C01_n64_midpoint_never_panics.

Theorem C01_n64_linear_panic_only : forall (l h frac : F64),
  fis_finite l = true -> fis_finite h = true -> fis_finite frac = true ->
  (exists v, n64_linear l h frac = Ok v /\ fis_nan v = false) \/
  (n64_linear l h frac = Panic /\ (exists s, fsub h l = B754_infinity s) /\ B2R frac = 0).
Proof. exact n64_linear_panic_only. Qed.
Print Assumptions C01_n64_linear_panic_only.

(* both side conditions follow from |l|, |h| <= 2^1022 *)
Theorem C01_n64_side_conditions : forall (L H : R),
  L <= H -> Rabs L <= bpow radix2 1022 -> Rabs H <= bpow radix2 1022 ->
  rnd (H - L) < bpow radix2 1024 /\ rnd (L + rnd (H - L)) < bpow radix2 1024.
Proof. exact side_conditions_of_bound. Qed.
Print Assumptions C01_n64_side_conditions.

