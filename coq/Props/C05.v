(* C05: min / max / argmin / argmax designate a true extremum or the right error.
   Model: MinMax/MinMax.v.  [data] is the array in logical order, positions are flat logical
   positions; [trav] is the (layout-dependent) order in which ndarray's fold visits the
   elements: the value forms are proved for EVERY permutation trav of data. *)
From Coq Require Import List Arith ZArith Lia Permutation Bool.
Import ListNotations.
From NS Require Import MinMax.MinMax MinMax.MinMaxProofs Run.RunBase Run.RunNan.

(* what is assumed of partial_cmp: None exactly on NaN operands, a total preorder otherwise *)
Record pcmp_ok (A : Type) (cmp : A -> A -> option comparison) (isnan : A -> bool) : Prop := {
  pc_none : forall a b, cmp a b = None <-> (isnan a = true \/ isnan b = true);
  pc_refl : forall a, isnan a = false -> cmp a a = Some Eq;
  pc_antisym : forall a b, cmp a b = Some Lt <-> cmp b a = Some Gt;
  pc_eq_sym : forall a b, cmp a b = Some Eq -> cmp b a = Some Eq;
  pc_trans : forall a b c, cle A cmp a b -> cle A cmp b c -> cle A cmp a c }.

(* outcome classification: EmptyInput iff no elements; UndefinedOrder iff a NaN anywhere; Ok otherwise *)
Theorem C05_argmin_outcome : forall A cmp isnan, pcmp_ok A cmp isnan -> forall data,
  (argmin A cmp data = MM_Empty <-> data = []) /\
  (argmin A cmp data = MM_Undef <-> data <> [] /\ Exists (fun x => isnan x = true) data) /\
  ((exists p, argmin A cmp data = MM_Ok p) <-> data <> [] /\ Forall (fun x => isnan x = false) data).
Proof. intros A cmp isnan [H1 H2 H3 H4 H5]. exact (argmin_trichotomy A cmp isnan H1 H2 H3 H4 H5). Qed.
Print Assumptions C05_argmin_outcome.

Theorem C05_argmax_outcome : forall A cmp isnan, pcmp_ok A cmp isnan -> forall data,
  (argmax A cmp data = MM_Empty <-> data = []) /\
  (argmax A cmp data = MM_Undef <-> data <> [] /\ Exists (fun x => isnan x = true) data) /\
  ((exists p, argmax A cmp data = MM_Ok p) <-> data <> [] /\ Forall (fun x => isnan x = false) data).
Proof. intros A cmp isnan [H1 H2 H3 H4 H5]. exact (argmax_trichotomy A cmp isnan H1 H2 H3 H4 H5). Qed.
Print Assumptions C05_argmax_outcome.

(* a successful argmin designates the first position of an element <= every element *)
Theorem C05_argmin_ok : forall A cmp isnan, pcmp_ok A cmp isnan -> forall data,
  data <> [] -> Forall (fun x => isnan x = false) data ->
  exists p x, argmin A cmp data = MM_Ok p /\ nth_error data p = Some x /\
    (forall y, In y data -> cle A cmp x y) /\
    (forall q y, q < p -> nth_error data q = Some y -> cmp x y = Some Lt).
Proof. intros A cmp isnan [H1 H2 H3 H4 H5]. exact (argmin_ok A cmp isnan H1 H2 H3 H4 H5). Qed.
Print Assumptions C05_argmin_ok.

Theorem C05_argmax_ok : forall A cmp isnan, pcmp_ok A cmp isnan -> forall data,
  data <> [] -> Forall (fun x => isnan x = false) data ->
  exists p x, argmax A cmp data = MM_Ok p /\ nth_error data p = Some x /\
    (forall y, In y data -> cle A cmp y x) /\
    (forall q y, q < p -> nth_error data q = Some y -> cmp x y = Some Gt).
Proof. intros A cmp isnan [H1 H2 H3 H4 H5]. exact (argmax_ok A cmp isnan H1 H2 H3 H4 H5). Qed.
Print Assumptions C05_argmax_ok.

(* value forms, for every traversal order *)
Theorem C05_min_undef_iff : forall A cmp isnan, pcmp_ok A cmp isnan -> forall data trav,
  data <> [] -> Permutation data trav ->
  (min_trav A cmp data trav = MM_Undef <-> Exists (fun x => isnan x = true) data).
Proof. intros A cmp isnan [H1 _ _ _ _]. exact (min_trav_undef_iff A cmp isnan H1). Qed.
Print Assumptions C05_min_undef_iff.

Theorem C05_max_undef_iff : forall A cmp isnan, pcmp_ok A cmp isnan -> forall data trav,
  data <> [] -> Permutation data trav ->
  (max_trav A cmp data trav = MM_Undef <-> Exists (fun x => isnan x = true) data).
Proof. intros A cmp isnan [H1 _ _ _ _]. exact (max_trav_undef_iff A cmp isnan H1). Qed.
Print Assumptions C05_max_undef_iff.

Theorem C05_min_ok : forall A cmp isnan, pcmp_ok A cmp isnan -> forall data trav,
  data <> [] -> Permutation data trav -> Forall (fun x => isnan x = false) data ->
  exists x, min_trav A cmp data trav = MM_Ok x /\ In x data /\ (forall y, In y data -> cle A cmp x y).
Proof. intros A cmp isnan [H1 H2 H3 H4 H5]. exact (min_trav_ok A cmp isnan H1 H2 H3 H4 H5). Qed.
Print Assumptions C05_min_ok.

Theorem C05_max_ok : forall A cmp isnan, pcmp_ok A cmp isnan -> forall data trav,
  data <> [] -> Permutation data trav -> Forall (fun x => isnan x = false) data ->
  exists x, max_trav A cmp data trav = MM_Ok x /\ In x data /\ (forall y, In y data -> cle A cmp y x).
Proof. intros A cmp isnan [H1 H2 H3 H4 H5]. exact (max_trav_ok A cmp isnan H1 H2 H3 H4 H5). Qed.
Print Assumptions C05_max_ok.

(* the value found by the arg- form equals (order-equivalent) the value returned by the value form *)
Theorem C05_arg_value_agree : forall A cmp isnan, pcmp_ok A cmp isnan -> forall data trav p v,
  Permutation data trav ->
  (argmin A cmp data = MM_Ok p -> min_trav A cmp data trav = MM_Ok v ->
     exists x, nth_error data p = Some x /\ cmp x v = Some Eq) /\
  (argmax A cmp data = MM_Ok p -> max_trav A cmp data trav = MM_Ok v ->
     exists x, nth_error data p = Some x /\ cmp x v = Some Eq).
Proof.
  intros A cmp isnan [H1 H2 H3 H4 H5] data trav p v HP. split; intros Ha Hv.
  - exact (argmin_min_agree A cmp isnan H1 H2 H3 H4 H5 data trav p v Ha Hv HP).
  - exact (argmax_max_agree A cmp isnan H1 H2 H3 H4 H5 data trav p v Ha Hv HP).
Qed.
Print Assumptions C05_arg_value_agree.

(* the hypotheses are satisfiable: the executable instance used by the correspondence check
   (Z keys with one NaN key) satisfies them *)
Local Opaque znan.
Lemma zcmp_ok : pcmp_ok Z zcmp znan.
Proof.
  unfold zcmp. constructor.
  - intros a b. destruct (znan a); destruct (znan b); cbn; split; intros H;
      try discriminate; try tauto; try (destruct H; discriminate); auto.
  - intros a Ha. rewrite Ha. cbn. now rewrite Z.compare_refl.
  - intros a b. destruct (znan a); destruct (znan b); cbn; try (split; discriminate).
    rewrite (Z.compare_antisym a b). destruct (Z.compare a b); cbn; split; intros H; try discriminate; auto.
  - intros a b. destruct (znan a); destruct (znan b); cbn; try discriminate.
    rewrite (Z.compare_antisym a b). destruct (Z.compare a b); cbn; intros H; try discriminate; auto.
  - intros a b c. unfold cle.
    destruct (znan a); destruct (znan b); destruct (znan c); cbn;
      try (intros [H|H]; discriminate); try (intros _ [H|H]; discriminate).
    intros Hab Hbc.
    assert (Hab' : (a ?= b)%Z <> Gt) by (destruct Hab as [H|H]; inversion H as [H']; rewrite H'; discriminate).
    assert (Hbc' : (b ?= c)%Z <> Gt) by (destruct Hbc as [H|H]; inversion H as [H']; rewrite H'; discriminate).
    destruct (Z.compare a c) eqn:E; auto.
    exfalso. apply Z.compare_gt_iff in E. apply Z.compare_le_iff in Hab'. apply Z.compare_le_iff in Hbc'.
    apply (Z.lt_irrefl a). eapply Z.le_lt_trans; [exact Hab'|]. eapply Z.le_lt_trans; [exact Hbc'|exact E].
Qed.
Local Transparent znan.
Print Assumptions zcmp_ok.

Example C05_example :
  argmin Z zcmp [3;1;4;1;5]%Z = MM_Ok 1 /\ argmax Z zcmp [3;1;4;1;5]%Z = MM_Ok 4 /\
  min_trav Z zcmp [3;1;4;1;5]%Z [5;1;4;1;3]%Z = MM_Ok 1%Z /\
  argmin Z zcmp [3; nank; 1]%Z = MM_Undef /\ argmin Z zcmp [] = MM_Empty /\
  pcmp_ok Z zcmp znan.
Proof. do 5 (split; [vm_compute; reflexivity|]). exact zcmp_ok. Qed.
Print Assumptions C05_example.
