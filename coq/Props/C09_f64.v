(* C09 in binary64: the deviation kernels of Num/Kernels.v (sq_l2_dist, l1_dist, linf_dist: folds
   over Zip::from(a).and(b) in an arbitrary traversal order [trav]) at the IEEE-754 instance
   f64_ops - the instance the correspondence check evaluates bit for bit against deviation.rs on
   f64 data.  Props/C09.v states the exact-arithmetic laws over Z; here, for floats: non-negativity,
   exactly zero on identical arguments, BIT-FOR-BIT symmetry (for the same traversal), linf_dist as
   the rounded maximum, and rounding-error bounds relative to the exactly summed terms.
   reads_fin a trav: every element read is finite; rdiff_at a b p = a_p - b_p in the reals. *)
From Coq Require Import List ZArith Bool.
From Flocq Require Import Core BinarySingleNaN.
Require Import Reals.
From NS Require Import Num.F64 Num.Ops Num.F64Inst Num.Kernels Num.SumF64 Num.DeviationF64.
Import ListNotations.
Notation B2R := (@BinarySingleNaN.B2R 53 1024).
Local Open Scope R_scope.

Theorem C09_f64_sq_l2_nonneg : forall lt et a b trav,
  fis_finite (sq_l2_dist (f64_ops lt et) a b trav) = true -> 0 <= B2R (sq_l2_dist (f64_ops lt et) a b trav).
Proof. exact sq_l2_dist_nonneg. Qed.
Print Assumptions C09_f64_sq_l2_nonneg.

Theorem C09_f64_l1_nonneg : forall lt et a b trav,
  fis_finite (l1_dist (f64_ops lt et) a b trav) = true -> 0 <= B2R (l1_dist (f64_ops lt et) a b trav).
Proof. exact l1_dist_nonneg. Qed.
Print Assumptions C09_f64_l1_nonneg.

Theorem C09_f64_linf_nonneg : forall lt et a b trav, 0 <= B2R (linf_dist (f64_ops lt et) a b trav).
Proof. exact linf_dist_nonneg. Qed.
Print Assumptions C09_f64_linf_nonneg.

(* zero for identical arguments: the bit pattern +0.0 *)
Theorem C09_f64_zero_on_identical : forall lt et a trav, reads_fin a trav ->
  sq_l2_dist (f64_ops lt et) a a trav = fzero /\ l1_dist (f64_ops lt et) a a trav = fzero /\
  linf_dist (f64_ops lt et) a a trav = fzero.
Proof.
  intros lt et a trav H. repeat split;
    [apply sq_l2_dist_self | apply l1_dist_self | apply linf_dist_self]; exact H.
Qed.
Print Assumptions C09_f64_zero_on_identical.

(* symmetric, bit for bit (overflow included), for the same traversal *)
Theorem C09_f64_symmetric : forall lt et a b trav, reads_fin a trav -> reads_fin b trav ->
  sq_l2_dist (f64_ops lt et) a b trav = sq_l2_dist (f64_ops lt et) b a trav /\
  l1_dist (f64_ops lt et) a b trav = l1_dist (f64_ops lt et) b a trav /\
  linf_dist (f64_ops lt et) a b trav = linf_dist (f64_ops lt et) b a trav.
Proof.
  intros lt et a b trav Ha Hb. repeat split;
    [apply sq_l2_dist_sym | apply l1_dist_sym | apply linf_dist_sym]; assumption.
Qed.
Print Assumptions C09_f64_symmetric.

(* linf_dist is the (correctly rounded) maximum of the |a_p - b_p| *)
Theorem C09_f64_linf_value : forall lt et a b trav, reads_fin a trav -> reads_fin b trav ->
  fis_finite (linf_dist (f64_ops lt et) a b trav) = true ->
  B2R (linf_dist (f64_ops lt et) a b trav) =
  round radix2 (SpecFloat.fexp 53 1024) ZnearestE (Rmaxl (map (fun p => Rabs (rdiff_at a b p)) trav)).
Proof. exact linf_dist_value. Qed.
Print Assumptions C09_f64_linf_value.

(* within a roundoff bound of the exactly summed terms *)
Theorem C09_f64_sq_l2_error : forall lt et a b trav, fis_finite (sq_l2_dist (f64_ops lt et) a b trav) = true ->
  let S := Rsum (map (fun p => rdiff_at a b p * rdiff_at a b p) trav) in
  Rabs (B2R (sq_l2_dist (f64_ops lt et) a b trav) - S)
    <= g64 (length trav + 2) * S + INR (length trav) * (1 + g64 (length trav)) * eta64.
Proof. exact sq_l2_dist_error. Qed.
Print Assumptions C09_f64_sq_l2_error.

Theorem C09_f64_l1_error : forall lt et a b trav, fis_finite (l1_dist (f64_ops lt et) a b trav) = true ->
  let S := Rsum (map (fun p => Rabs (rdiff_at a b p)) trav) in
  Rabs (B2R (l1_dist (f64_ops lt et) a b trav) - S) <= g64 (length trav) * S.
Proof. exact l1_dist_error_tight. Qed.
Print Assumptions C09_f64_l1_error.
