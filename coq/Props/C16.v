(* C16: out-of-range positions are always rejected, in-range ones never are.
   Panic is an explicit outcome of the models; an out-of-range read is Panic, never a
   default value.  The statements hold for every pivot oracle and every fuel. *)
From Coq Require Import List Arith ZArith Lia Permutation Bool Sorting.Sorted.
Import ListNotations.
From NS Require Import Base.Order Base.Res Base.SortDedup
  Sort.Partition Sort.PartitionProofs Sort.Select Sort.SelectProofs Sort.Rank
  Sort.Bulk Sort.BulkProofs Sort.SelectMany Sort.SelectManyProofs Sort.Pinned
  Hist.Edges Hist.EdgesProofs.

Theorem C16_partition_oob : forall A (leb : A -> A -> bool) a p,
  length a <= p -> partition A leb a p = Panic.
Proof. exact partition_oob. Qed.
Print Assumptions C16_partition_oob.

Theorem C16_select_oob : forall A (leb : A -> A -> bool) fuel pick c a i,
  length a <= i -> 0 < fuel -> select A leb fuel pick c a i = Panic.
Proof. exact select_oob. Qed.
Print Assumptions C16_select_oob.

Theorem C16_select_many_oob : forall A (leb : A -> A -> bool) fuel pick a idxs,
  Exists (fun i => length a <= i) idxs -> select_many A leb fuel pick a idxs = Panic.
Proof. exact select_many_oob. Qed.
Print Assumptions C16_select_many_oob.

Theorem C16_bins_index_oob : forall A (es : list A) i, bins_len A es <= i -> bins_index A es i = Panic.
Proof. exact bins_index_oob. Qed.
Print Assumptions C16_bins_index_oob.

Theorem C16_grid_index_oob : forall A (g : grid A) idx k es i,
  nth_error g k = Some es -> nth_error idx k = Some i -> bins_len A es <= i -> grid_index A g idx = Panic.
Proof. exact grid_index_oob. Qed.
Print Assumptions C16_grid_index_oob.

Theorem C16_grid_index_arity : forall A (g : grid A) idx, length idx <> length g -> grid_index A g idx = Panic.
Proof. exact grid_index_arity. Qed.
Print Assumptions C16_grid_index_arity.

(* conversely, no call with in-range arguments panics *)
Theorem C16_partition_in_range : forall A (leb : A -> A -> bool) a p, p < length a ->
  exists r, partition A leb a p = Ok r.
Proof.
  intros A leb a p H. destruct (partition_spec A leb a p H) as (k & a' & pv & R & _).
  exists (k, a'). exact R.
Qed.
Print Assumptions C16_partition_in_range.

Theorem C16_select_in_range : forall A (leb : A -> A -> bool), total leb -> transitive leb ->
  forall fuel pick c a i, i < length a -> length a <= fuel ->
  exists r, select A leb fuel pick c a i = Ok r.
Proof.
  intros A leb Ht Htr fuel pick c a i Hi Hf.
  destruct (select_spec A leb Ht Htr fuel pick c a i Hi Hf) as (v & a' & c' & R & _).
  exists (v, a', c'). exact R.
Qed.
Print Assumptions C16_select_in_range.

Theorem C16_select_many_in_range : forall A (leb : A -> A -> bool), total leb -> transitive leb ->
  forall fuel pick a idxs, Forall (fun i => i < length a) idxs -> length a <= fuel -> 0 < fuel ->
  (exists r, select_many A leb fuel pick a idxs = Ok r) /\
  select_many A leb fuel pick a idxs <> Panic /\ select_many A leb fuel pick a idxs <> OutOfFuel.
Proof. exact select_many_in_range_ok. Qed.
Print Assumptions C16_select_many_in_range.

Theorem C16_bins_index_in_range : forall A (es : list A) i,
  (exists r, bins_index A es i = Ok r) <-> i < bins_len A es.
Proof. exact bins_index_ok_iff. Qed.
Print Assumptions C16_bins_index_in_range.

Theorem C16_grid_index_in_range : forall A (g : grid A) idx, length idx = length g ->
  ((exists r, grid_index A g idx = Ok r) <->
   forall k es i, nth_error g k = Some es -> nth_error idx k = Some i -> i < bins_len A es).
Proof. exact grid_index_ok_iff. Qed.
Print Assumptions C16_grid_index_in_range.

(* the pinned pre-repair code (defect D2) answered out-of-range requests *)
Theorem C16_select_v0_refuted : exists r, select_v0 Z Z.leb 5 (fun _ _ => 0) 0 [42%Z] 7 = Ok r.
Proof. exact select_v0_refuted. Qed.
Print Assumptions C16_select_v0_refuted.

Theorem C16_select_many_v0_refuted : exists r, select_many_v0 Z Z.leb 5 (fun _ _ => 0) [42%Z] [5] = Ok r.
Proof. exact select_many_v0_refuted. Qed.
Print Assumptions C16_select_many_v0_refuted.

Example C16_repaired_panics : select_many Z Z.leb 5 (fun _ _ => 0) [42%Z] [5] = Panic
  /\ select Z Z.leb 5 (fun _ _ => 0) 0 [42%Z] 7 = Panic.
Proof. split; vm_compute; reflexivity. Qed.
Print Assumptions C16_repaired_panics.
