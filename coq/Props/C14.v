(* C14: NaN-skipping operations equal the plain operation on the data without NaNs.
   Model: MinMax/SkipNan.v.  [data] is the array in logical order (positions are flat logical
   positions of the ORIGINAL array), [trav] the order in which ndarray's fold / for_each visits
   the elements: any permutation of data. *)
From Coq Require Import List Arith ZArith Lia Permutation Bool.
Import ListNotations.
From NS Require Import Base.Order MinMax.SkipNan MinMax.SkipNanProofs Run.RunBase Run.RunNan.

(* folds and visits see exactly the remaining elements, each once, in traversal order *)
Theorem C14_fold_is_fold_of_filter : forall A (is_nan : A -> bool) B (f : B -> A -> B) init trav,
  fold_skipnan A is_nan f init trav = fold_left f (filter (not_nan A is_nan) trav) init.
Proof. exact fold_skipnan_filter. Qed.
Print Assumptions C14_fold_is_fold_of_filter.

Theorem C14_fold_sees_each_once : forall A (is_nan : A -> bool) trav,
  fold_skipnan A is_nan (fun acc x => acc ++ [x]) [] trav = filter (not_nan A is_nan) trav.
Proof. exact fold_skipnan_sees_each_once. Qed.
Print Assumptions C14_fold_sees_each_once.

Theorem C14_indexed_fold_is_fold_of_filter : forall A (is_nan : A -> bool) B (f : B -> nat * A -> B) init data,
  indexed_fold_skipnan A is_nan f init data =
  fold_left f (filter (fun px => not_nan A is_nan (snd px)) (indexed A data)) init.
Proof. exact indexed_fold_skipnan_filter. Qed.
Print Assumptions C14_indexed_fold_is_fold_of_filter.

(* ... with positions of the original array *)
Theorem C14_indexed_positions : forall A (data : list A) p x,
  In (p, x) (indexed A data) <-> nth_error data p = Some x.
Proof. exact indexed_positions. Qed.
Print Assumptions C14_indexed_positions.

(* value forms: nothing left <-> the missing value; otherwise a non-missing minimum / maximum *)
Theorem C14_min_none_iff : forall A is_nan (leb : A -> A -> bool), total leb -> transitive leb ->
  forall data trav, Permutation data trav ->
  (min_skipnan A is_nan leb data trav = None <-> Forall (fun x => is_nan x = true) data).
Proof. exact min_skipnan_none_iff. Qed.
Print Assumptions C14_min_none_iff.

Theorem C14_max_none_iff : forall A is_nan (leb : A -> A -> bool), total leb -> transitive leb ->
  forall data trav, Permutation data trav ->
  (max_skipnan A is_nan leb data trav = None <-> Forall (fun x => is_nan x = true) data).
Proof. exact max_skipnan_none_iff. Qed.
Print Assumptions C14_max_none_iff.

Theorem C14_min_spec : forall A is_nan (leb : A -> A -> bool), total leb -> transitive leb ->
  forall data trav v, Permutation data trav -> min_skipnan A is_nan leb data trav = Some v ->
  is_nan v = false /\ In v data /\ (forall y, In y data -> is_nan y = false -> leb v y = true).
Proof. exact min_skipnan_spec. Qed.
Print Assumptions C14_min_spec.

Theorem C14_max_spec : forall A is_nan (leb : A -> A -> bool), total leb -> transitive leb ->
  forall data trav v, Permutation data trav -> max_skipnan A is_nan leb data trav = Some v ->
  is_nan v = false /\ In v data /\ (forall y, In y data -> is_nan y = false -> leb y v = true).
Proof. exact max_skipnan_spec. Qed.
Print Assumptions C14_max_spec.

(* = the plain operation on the data with the missing values deleted *)
Theorem C14_min_eq_plain : forall A is_nan (leb : A -> A -> bool), total leb -> transitive leb ->
  forall data trav, Permutation data trav ->
  match min_skipnan A is_nan leb data trav,
        min_skipnan A (fun _ => false) leb (filter (not_nan A is_nan) data) (filter (not_nan A is_nan) trav) with
  | None, None => True
  | Some v, Some w => leb v w = true /\ leb w v = true
  | _, _ => False
  end.
Proof. exact min_skipnan_eq_plain. Qed.
Print Assumptions C14_min_eq_plain.

Theorem C14_max_eq_plain : forall A is_nan (leb : A -> A -> bool), total leb -> transitive leb ->
  forall data trav, Permutation data trav ->
  match max_skipnan A is_nan leb data trav,
        max_skipnan A (fun _ => false) leb (filter (not_nan A is_nan) data) (filter (not_nan A is_nan) trav) with
  | None, None => True
  | Some v, Some w => leb v w = true /\ leb w v = true
  | _, _ => False
  end.
Proof. exact max_skipnan_eq_plain. Qed.
Print Assumptions C14_max_eq_plain.

(* index forms: EmptyInput iff nothing is left; otherwise a position of the original array
   holding the first extremal non-missing element *)
Theorem C14_argmin_none_iff : forall A is_nan (leb : A -> A -> bool), total leb -> transitive leb -> forall data,
  argmin_skipnan A is_nan leb data = None <-> Forall (fun x => is_nan x = true) data.
Proof. exact argmin_skipnan_none_iff. Qed.
Print Assumptions C14_argmin_none_iff.

Theorem C14_argmax_none_iff : forall A is_nan (leb : A -> A -> bool), total leb -> transitive leb -> forall data,
  argmax_skipnan A is_nan leb data = None <-> Forall (fun x => is_nan x = true) data.
Proof. exact argmax_skipnan_none_iff. Qed.
Print Assumptions C14_argmax_none_iff.

Theorem C14_argmin_spec : forall A is_nan (leb : A -> A -> bool), total leb -> transitive leb ->
  forall data p, argmin_skipnan A is_nan leb data = Some p ->
  exists x, nth_error data p = Some x /\ is_nan x = false /\
    (forall y, In y data -> is_nan y = false -> leb x y = true) /\
    (forall q y, q < p -> nth_error data q = Some y -> is_nan y = false -> leb y x = false).
Proof. exact argmin_skipnan_spec. Qed.
Print Assumptions C14_argmin_spec.

Theorem C14_argmax_spec : forall A is_nan (leb : A -> A -> bool), total leb -> transitive leb ->
  forall data p, argmax_skipnan A is_nan leb data = Some p ->
  exists x, nth_error data p = Some x /\ is_nan x = false /\
    (forall y, In y data -> is_nan y = false -> leb y x = true) /\
    (forall q y, q < p -> nth_error data q = Some y -> is_nan y = false -> leb x y = false).
Proof. exact argmax_skipnan_spec. Qed.
Print Assumptions C14_argmax_spec.

(* the index form designates the element the plain form designates in the filtered array *)
Theorem C14_argmin_eq_plain : forall A is_nan (leb : A -> A -> bool), total leb -> transitive leb ->
  forall data,
  match argmin_skipnan A is_nan leb data,
        argmin_skipnan A (fun _ => false) leb (filter (not_nan A is_nan) data) with
  | None, None => True
  | Some p, Some k => k = length (filter (not_nan A is_nan) (firstn p data)) /\
      exists x, nth_error data p = Some x /\ nth_error (filter (not_nan A is_nan) data) k = Some x
  | _, _ => False
  end.
Proof. exact argmin_skipnan_eq_plain. Qed.
Print Assumptions C14_argmin_eq_plain.

Example C14_example :
  min_skipnan Z znan Z.leb [nank; 3; 1; nank; 2]%Z [2; nank; 1; 3; nank]%Z = Some 1%Z /\
  argmin_skipnan Z znan Z.leb [nank; 3; 1; nank; 1]%Z = Some 2 /\
  argmax_skipnan Z znan Z.leb [nank; 3; 1; nank; 3]%Z = Some 1 /\
  argmin_skipnan Z znan Z.leb [nank; nank]%Z = None /\
  min_skipnan Z znan Z.leb [nank; nank]%Z [nank; nank]%Z = None.
Proof. repeat split; vm_compute; reflexivity. Qed.
Print Assumptions C14_example.

(* quantile_axis_skipnan_mut on one lane: strip the missing values (C04), then the lane quantile
   kernel on the returned prefix (C01) - the values are those of the sort-based specification on
   the lane WITHOUT its missing values, for every pivot oracle *)
From NS Require Import Base.Res Mem.RemoveNan Mem.RemoveNanProofs Num.F64 Quantile.Index Quantile.Interp
  Quantile.Lane Quantile.Spec Quantile.LaneProofs Sort.Rank.
From NS Require Props.C01.

Theorem C14_quantile_skipnan_lane : forall A (C : carrier A) s (is_nan : A -> bool) lane i lane' srt qs ds,
  remove_nan A is_nan lane = Ok (i, lane') ->
  Permutation (filter (fun x => negb (is_nan x)) lane) srt ->
  Props.C01.lane_ok C s (firstn i lane') srt qs ds ->
  forall fuel pick c, length (firstn i lane') <= fuel ->
  lane_vals (quantiles_lane C s fuel pick c qs ds (firstn i lane')) = qspecs C s srt qs /\
  Forall (fun x => is_nan x = false) (firstn i lane') /\
  Permutation (firstn i lane') (filter (fun x => negb (is_nan x)) lane).
Proof.
  intros A C s is_nan lane i lane' srt qs ds Hr Hp Hok fuel pick c Hf.
  destruct (remove_nan_survivors A is_nan lane i lane' Hr) as [Hs _].
  destruct (remove_nan_spec A is_nan lane) as (i0 & l0 & E & _ & _ & _ & Hnn & _).
  rewrite Hr in E. injection E as <- <-.
  split; [|split; assumption].
  exact (Props.C01.C01_lane_values A C s (firstn i lane') srt qs ds Hok fuel pick c Hf).
Qed.
Print Assumptions C14_quantile_skipnan_lane.
