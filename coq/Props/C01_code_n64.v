(* C01 on the code model for lanes of non-NaN binary64 values (the N64 element type), closed.
   Proofs: Quantile/EndToEndF64.v.

   FINDING.  Props.C01.lane_ok cannot be instantiated at n64_carrier: its field lo_total asks the
   order to be total on the whole carrier type and fle NaN x = fle x NaN = false
   (C01_n64_fle_not_total).  The proofs go through the kernel instead: the lane kernel only compares
   lane elements, so on a NaN-free lane it runs identically under fle and under fle totalised by
   placing NaN below everything (EndToEndF64.kernel_ext); the generic theorems are instantiated at the
   totalised carrier and transported back.  No hypothesis about NaN outside the lane remains.

   A  exact form: NaN-free lane on which fle is antisymmetric (<=> the lane does not hold both +0
      and -0): values = qspecs on the fle-insertion-sorted lane (or any fle-sorted permutation),
      Ok and Panic alike, for every pivot oracle / counter / sufficient fuel.  The hypothesis is
      NECESSARY (C01_n64_exact_form_needs_hypothesis).
   B  every NaN-free lane: values pointwise == (N64's numerical equality, +0 == -0) to qspecs on any
      fle-sorted permutation; two runs with different oracles agree pointwise for ==.
   C  the array-level routine quantiles_axis n64_carrier (the function m_quantiles_n64 evaluates).
   D  evaluations on bit patterns. *)
From Coq Require Import List Arith ZArith Lia Permutation Bool Reals Sorting.Sorted.
Import ListNotations.
From Flocq Require Import Core BinarySingleNaN.
From NS Require Import Base.Order Base.Res Base.SortDedup Sort.Rank Num.F64 Quantile.Index Quantile.Interp
  Quantile.Lane Quantile.Spec Quantile.LaneProofs Mem.Buffer Mem.LanesProofs Run.RunQuant
  Quantile.EndToEnd Quantile.EndToEndF64.
Local Open Scope nat_scope.

(* vocabulary (definitions of Quantile/EndToEndF64.v, restated so that this file reads alone) *)
Theorem C01_n64_def_nonnan : forall x, nonnan x = (fis_nan x = false).
Proof. exact (fun x => eq_refl). Qed.
Print Assumptions C01_n64_def_nonnan.
Theorem C01_n64_def_fle_antisym_on : forall l, fle_antisym_on l =
  (forall x y, In x l -> In y l -> fle x y = true -> fle y x = true -> x = y).
Proof. exact (fun l => eq_refl). Qed.
Print Assumptions C01_n64_def_fle_antisym_on.
Theorem C01_n64_def_no_mixed_zeros : forall l,
  no_mixed_zeros l = ~ (In (B754_zero false) l /\ In (B754_zero true) l).
Proof. exact (fun l => eq_refl). Qed.
Print Assumptions C01_n64_def_no_mixed_zeros.
Theorem C01_n64_def_nequiv : forall x y, nequiv x y = (feq x y = true).
Proof. exact (fun x y => eq_refl). Qed.
Print Assumptions C01_n64_def_nequiv.
Theorem C01_n64_def_zeq : forall x y, zeq x y = (x = y \/ (is_zero x = true /\ is_zero y = true)).
Proof. exact (fun x y => eq_refl). Qed.
Print Assumptions C01_n64_def_zeq.
Theorem C01_n64_def_res_rel : forall T U (R : T -> U -> Prop) r1 r2, res_rel R r1 r2 =
  match r1, r2 with Ok a, Ok b => R a b | Panic, Panic => True | OutOfFuel, OutOfFuel => True | _, _ => False end.
Proof. exact (fun T U R r1 r2 => eq_refl). Qed.
Print Assumptions C01_n64_def_res_rel.
(* zeq implies == on non-NaN values, and == implies zeq *)
Theorem C01_n64_zeq_feq : forall x y, fis_nan x = false -> zeq x y -> feq x y = true.
Proof. exact zeq_feq. Qed.
Print Assumptions C01_n64_zeq_feq.
Theorem C01_n64_feq_zeq : forall x y, feq x y = true -> zeq x y.
Proof. exact feq_zeq. Qed.
Print Assumptions C01_n64_feq_zeq.

(* ---------------- the finding ---------------- *)
Theorem C01_n64_fle_not_total : ~ total fle.
Proof. exact fle_not_total. Qed.
Print Assumptions C01_n64_fle_not_total.

(* the kernel consults the order on lane elements only *)
Theorem C01_n64_kernel_ext : forall A (C1 C2 : carrier A) (P : A -> Prop) s fuel pick c qs ds lane,
  (forall x y, P x -> P y -> c_leb C1 x y = c_leb C2 x y) ->
  c_midpoint C1 = c_midpoint C2 -> c_linear C1 = c_linear C2 ->
  Forall P lane ->
  quantiles_lane C1 s fuel pick c qs ds lane = quantiles_lane C2 s fuel pick c qs ds lane.
Proof. exact kernel_ext. Qed.
Print Assumptions C01_n64_kernel_ext.

(* ---------------- A: exact form ---------------- *)

(* the hypothesis of A in its two readings *)
Theorem C01_n64_antisym_iff_no_mixed_zeros : forall l : list F64,
  no_mixed_zeros l <-> fle_antisym_on l.
Proof. exact no_mixed_zeros_iff_fle_antisym. Qed.
Print Assumptions C01_n64_antisym_iff_no_mixed_zeros.

(* analogue of C01_code_lane *)
Theorem C01_code_lane_n64 : forall (s : strategy) (lane : list F64) (qs : list F64),
  1 <= length lane -> (Z.of_nat (length lane) <= 2 ^ 53)%Z ->
  Forall (fun q => valid_q q = true) qs ->
  Forall (fun x => fis_nan x = false) lane ->
  (forall x y, In x lane -> In y lane -> fle x y = true -> fle y x = true -> x = y) ->
  exists ds, searched s qs (length lane) = Ok ds /\
    forall fuel pick c, length lane <= fuel ->
      lane_vals (quantiles_lane n64_carrier s fuel pick c qs ds lane) =
      qspecs n64_carrier s (isort F64 fle lane) qs.
Proof. exact quantiles_lane_N64. Qed.
Print Assumptions C01_code_lane_n64.

Theorem C01_code_lane_n64_no_mixed_zeros : forall (s : strategy) (lane : list F64) (qs : list F64),
  1 <= length lane -> (Z.of_nat (length lane) <= 2 ^ 53)%Z ->
  Forall (fun q => valid_q q = true) qs ->
  Forall (fun x => fis_nan x = false) lane ->
  ~ (In (B754_zero false) lane /\ In (B754_zero true) lane) ->
  exists ds, searched s qs (length lane) = Ok ds /\
    forall fuel pick c, length lane <= fuel ->
      lane_vals (quantiles_lane n64_carrier s fuel pick c qs ds lane) =
      qspecs n64_carrier s (isort F64 fle lane) qs.
Proof. exact quantiles_lane_N64_no_mixed_zeros. Qed.
Print Assumptions C01_code_lane_n64_no_mixed_zeros.

(* analogue of C01_code_lane_any_sorted; [sorted] is the index-wise sortedness of Sort/Rank.v,
   implied by StronglySorted (C01_n64_sorted_of_StronglySorted) *)
Theorem C01_code_lane_n64_any_sorted : forall (s : strategy) (lane srt : list F64) (qs : list F64),
  1 <= length lane -> (Z.of_nat (length lane) <= 2 ^ 53)%Z ->
  Forall (fun q => valid_q q = true) qs ->
  Forall (fun x => fis_nan x = false) lane ->
  (forall x y, In x lane -> In y lane -> fle x y = true -> fle y x = true -> x = y) ->
  Permutation lane srt -> sorted F64 fle srt ->
  exists ds, searched s qs (length lane) = Ok ds /\
    forall fuel pick c, length lane <= fuel ->
      lane_vals (quantiles_lane n64_carrier s fuel pick c qs ds lane) = qspecs n64_carrier s srt qs.
Proof. exact quantiles_lane_N64_any_sorted. Qed.
Print Assumptions C01_code_lane_n64_any_sorted.

Theorem C01_n64_sorted_of_StronglySorted : forall srt : list F64,
  Forall (fun x => fis_nan x = false) srt ->
  StronglySorted (fun x y => fle x y = true) srt -> sorted F64 fle srt.
Proof. exact sorted_fle_of_StronglySorted. Qed.
Print Assumptions C01_n64_sorted_of_StronglySorted.

Theorem C01_n64_isort_sorted : forall lane : list F64,
  Forall (fun x => fis_nan x = false) lane ->
  Permutation lane (isort F64 fle lane) /\
  StronglySorted (fun x y => fle x y = true) (isort F64 fle lane).
Proof. exact isort_fle_perm_sorted. Qed.
Print Assumptions C01_n64_isort_sorted.

(* analogue of C01_code_lane_run: the full result triple *)
Theorem C01_code_lane_run_n64 : forall (s : strategy) (lane : list F64) (qs : list F64) (ds : list nat),
  1 <= length lane -> (Z.of_nat (length lane) <= 2 ^ 53)%Z ->
  Forall (fun q => valid_q q = true) qs ->
  searched s qs (length lane) = Ok ds ->
  Forall (fun x => fis_nan x = false) lane ->
  (forall x y, In x lane -> In y lane -> fle x y = true -> fle y x = true -> x = y) ->
  forall fuel pick c, length lane <= fuel ->
  exists lane' c', Permutation lane lane' /\
    quantiles_lane n64_carrier s fuel pick c qs ds lane =
    (vals <- qspecs n64_carrier s (isort F64 fle lane) qs ;; Ok (vals, lane', c')).
Proof. exact quantiles_lane_N64_eq. Qed.
Print Assumptions C01_code_lane_run_n64.

(* Ok and Panic are mirrored (Panic = Midpoint / Linear producing NaN, class K1) *)
Theorem C01_code_lane_spec_n64 : forall (s : strategy) (lane : list F64) (qs : list F64) (ds : list nat),
  1 <= length lane -> (Z.of_nat (length lane) <= 2 ^ 53)%Z ->
  Forall (fun q => valid_q q = true) qs ->
  searched s qs (length lane) = Ok ds ->
  Forall (fun x => fis_nan x = false) lane ->
  (forall x y, In x lane -> In y lane -> fle x y = true -> fle y x = true -> x = y) ->
  forall fuel pick c, length lane <= fuel ->
  (forall vals, qspecs n64_carrier s (isort F64 fle lane) qs = Ok vals ->
     exists lane' c', quantiles_lane n64_carrier s fuel pick c qs ds lane = Ok (vals, lane', c') /\
       Permutation lane lane') /\
  (qspecs n64_carrier s (isort F64 fle lane) qs = Panic ->
     quantiles_lane n64_carrier s fuel pick c qs ds lane = Panic).
Proof. exact quantiles_lane_N64_spec. Qed.
Print Assumptions C01_code_lane_spec_n64.

(* the selecting strategies never fail (infinities allowed) and return lane elements *)
Theorem C01_n64_selecting_total : forall (s : strategy) (srt : list F64) (qs : list F64),
  s = Higher \/ s = Lower \/ s = Nearest ->
  1 <= length srt -> (Z.of_nat (length srt) <= 2 ^ 53)%Z ->
  Forall (fun q => valid_q q = true) qs ->
  exists vals, qspecs n64_carrier s srt qs = Ok vals /\ Forall (fun v => In v srt) vals.
Proof. exact qspecs_N64_selecting_total. Qed.
Print Assumptions C01_n64_selecting_total.

(* the hypothesis of A is necessary: lane [+0; -0], q = [0; 1], Lower, pivot = last element *)
Theorem C01_n64_exact_form_needs_hypothesis :
  Forall (fun x => fis_nan x = false) lane_pm /\ ~ fle_antisym_on lane_pm /\
  lane_vals (quantiles_lane n64_carrier Lower 3 pick_last 0 qs01 [0; 1] lane_pm) <>
  qspecs n64_carrier Lower (isort F64 fle lane_pm) qs01.
Proof. exact exact_form_fails_on_mixed_zeros. Qed.
Print Assumptions C01_n64_exact_form_needs_hypothesis.

Theorem C01_n64_mixed_zeros_pivot_dependence :
  searched Lower qs01 2 = Ok [0; 1] /\
  bits_res (lane_vals (quantiles_lane n64_carrier Lower 3 pick_first 0 qs01 [0; 1] lane_pm)) =
    [0; 9223372036854775808]%Z /\
  bits_res (lane_vals (quantiles_lane n64_carrier Lower 3 pick_last 0 qs01 [0; 1] lane_pm)) =
    [9223372036854775808; 0]%Z /\
  bits_res (qspecs n64_carrier Lower (isort F64 fle lane_pm) qs01) = [0; 9223372036854775808]%Z.
Proof. exact mixed_zeros_pivot_dependence. Qed.
Print Assumptions C01_n64_mixed_zeros_pivot_dependence.

(* ---------------- B: up to numerical equality, every NaN-free lane ---------------- *)

(* order equivalence of fle IS numerical equality *)
Theorem C01_n64_feq_iff : forall x y : F64, feq x y = true <-> (fle x y = true /\ fle y x = true).
Proof. exact feq_fle_iff. Qed.
Print Assumptions C01_n64_feq_iff.

(* generic: total preorder + a relation R containing the order equivalence on the lane and
   respected by the carrier's midpoint / linear *)
Theorem C01_lane_preorder : forall A (C : carrier A) (s : strategy),
  total (c_leb C) -> transitive (c_leb C) ->
  forall R : A -> A -> Prop,
  (forall l l' h h', R l l' -> R h h' -> res_rel R (c_midpoint C l h) (c_midpoint C l' h')) ->
  (forall l l' h h' f, R l l' -> R h h' -> res_rel R (c_linear C l h f) (c_linear C l' h' f)) ->
  forall (lane srt : list A) (qs : list F64) (ds : list nat),
  1 <= length lane ->
  (forall q, In q qs -> exists lo hi,
     lower_index q (length lane) = Some lo /\ higher_index q (length lane) = Some hi /\
     lo < length lane /\ hi < length lane) ->
  searched s qs (length lane) = Ok ds ->
  Permutation lane srt -> sorted A (c_leb C) srt ->
  (forall x y, In x lane -> In y lane -> c_leb C x y = true -> c_leb C y x = true -> R x y) ->
  forall fuel pick c, length lane <= fuel ->
  exists lane' c' rv, Permutation lane lane' /\
    quantiles_lane C s fuel pick c qs ds lane = (vals <- rv ;; Ok (vals, lane', c')) /\
    res_rel (Forall2 R) rv (qspecs C s srt qs).
Proof. exact (fun A C s => quantiles_lane_R C s). Qed.
Print Assumptions C01_lane_preorder.

(* the congruences, for R = "same bit pattern or both zeros" (reflexive also at NaN) *)
Theorem C01_n64_midpoint_congruence : forall l l' h h' : F64, zeq l l' -> zeq h h' ->
  res_rel zeq (n64_midpoint l h) (n64_midpoint l' h').
Proof. exact n64_midpoint_zeq. Qed.
Print Assumptions C01_n64_midpoint_congruence.

Theorem C01_n64_linear_congruence : forall l l' h h' f : F64, zeq l l' -> zeq h h' ->
  res_rel zeq (n64_linear l h f) (n64_linear l' h' f).
Proof. exact n64_linear_zeq. Qed.
Print Assumptions C01_n64_linear_congruence.

(* division is NOT a congruence in its divisor (1/+0 = +inf, 1/-0 = -inf); n64_midpoint only
   divides by the constant 2 *)
Theorem C01_n64_fdiv_divisor_not_congruent :
  zeq (B754_zero false) (B754_zero true) /\
  ~ zeq (fdiv fone (B754_zero false)) (fdiv fone (B754_zero true)).
Proof. exact fdiv_not_zeq_r. Qed.
Print Assumptions C01_n64_fdiv_divisor_not_congruent.

(* B for the values *)
Theorem C01_code_lane_n64_eqv : forall (s : strategy) (lane srt : list F64) (qs : list F64),
  1 <= length lane -> (Z.of_nat (length lane) <= 2 ^ 53)%Z ->
  Forall (fun q => valid_q q = true) qs ->
  Forall (fun x => fis_nan x = false) lane ->
  Permutation lane srt -> sorted F64 fle srt ->
  exists ds, searched s qs (length lane) = Ok ds /\
    forall fuel pick c, length lane <= fuel ->
      res_rel (Forall2 (fun x y => feq x y = true))
        (lane_vals (quantiles_lane n64_carrier s fuel pick c qs ds lane))
        (qspecs n64_carrier s srt qs).
Proof. exact quantiles_lane_N64_nequiv_any. Qed.
Print Assumptions C01_code_lane_n64_eqv.

(* B: the full triple (values of the run related by zeq, which implies == on non-NaN values) *)
Theorem C01_code_lane_run_n64_eqv : forall (s : strategy) (lane srt : list F64) (qs : list F64) (ds : list nat),
  1 <= length lane -> (Z.of_nat (length lane) <= 2 ^ 53)%Z ->
  Forall (fun q => valid_q q = true) qs ->
  searched s qs (length lane) = Ok ds ->
  Forall (fun x => fis_nan x = false) lane ->
  Permutation lane srt -> sorted F64 fle srt ->
  forall fuel pick c, length lane <= fuel ->
  exists lane' c' rv, Permutation lane lane' /\
    quantiles_lane n64_carrier s fuel pick c qs ds lane = (vals <- rv ;; Ok (vals, lane', c')) /\
    res_rel (Forall2 zeq) rv (qspecs n64_carrier s srt qs).
Proof. exact quantiles_lane_N64_zeq. Qed.
Print Assumptions C01_code_lane_run_n64_eqv.

(* "identical on every call" for N64's own == *)
Theorem C01_n64_deterministic_eqv : forall (s : strategy) (lane : list F64) (qs : list F64),
  1 <= length lane -> (Z.of_nat (length lane) <= 2 ^ 53)%Z ->
  Forall (fun q => valid_q q = true) qs ->
  Forall (fun x => fis_nan x = false) lane ->
  exists ds, searched s qs (length lane) = Ok ds /\
    forall fuel1 pick1 c1 fuel2 pick2 c2, length lane <= fuel1 -> length lane <= fuel2 ->
      res_rel (Forall2 (fun x y => feq x y = true))
        (lane_vals (quantiles_lane n64_carrier s fuel1 pick1 c1 qs ds lane))
        (lane_vals (quantiles_lane n64_carrier s fuel2 pick2 c2 qs ds lane)).
Proof. exact quantiles_lane_N64_deterministic_nequiv. Qed.
Print Assumptions C01_n64_deterministic_eqv.

(* ---------------- C: array level ---------------- *)

Theorem C01_code_axis_values_n64 : forall s pick qs n other (buf : list F64) lanes vs buf' c,
  (Z.of_nat n <= 2 ^ 53)%Z ->
  Forall (fun cs => length cs = n) lanes -> lanes_wf buf lanes ->
  length qs * other <> 0 ->
  (forall cs l, In cs lanes -> vread buf cs = Ok l ->
     Forall (fun x => fis_nan x = false) l /\
     (forall x y, In x l -> In y l -> fle x y = true -> fle y x = true -> x = y)) ->
  quantiles_axis n64_carrier s pick qs n other buf lanes = Q_Ok (vs, buf', c) ->
  length vs = length lanes /\ length buf' = length buf /\
  (forall o, ~ In o (concat lanes) -> nth_error buf' o = nth_error buf o) /\
  (forall k cs, nth_error lanes k = Some cs ->
     exists l l' vals, vread buf cs = Ok l /\ nth_error vs k = Some vals /\
       Ok vals = qspecs n64_carrier s (isort F64 fle l) qs /\
       vread buf' cs = Ok l' /\ Permutation l l').
Proof. exact quantiles_axis_values_N64. Qed.
Print Assumptions C01_code_axis_values_n64.

(* the same with the hypothesis on the whole buffer: no NaN, not both zeros *)
Theorem C01_code_axis_values_n64_buf : forall s pick qs n other (buf : list F64) lanes vs buf' c,
  (Z.of_nat n <= 2 ^ 53)%Z ->
  Forall (fun cs => length cs = n) lanes -> lanes_wf buf lanes ->
  length qs * other <> 0 ->
  Forall (fun x => fis_nan x = false) buf ->
  ~ (In (B754_zero false) buf /\ In (B754_zero true) buf) ->
  quantiles_axis n64_carrier s pick qs n other buf lanes = Q_Ok (vs, buf', c) ->
  length vs = length lanes /\ length buf' = length buf /\
  (forall o, ~ In o (concat lanes) -> nth_error buf' o = nth_error buf o) /\
  (forall k cs, nth_error lanes k = Some cs ->
     exists l l' vals, vread buf cs = Ok l /\ nth_error vs k = Some vals /\
       Ok vals = qspecs n64_carrier s (isort F64 fle l) qs /\
       vread buf' cs = Ok l' /\ Permutation l l').
Proof. exact quantiles_axis_values_N64_buf. Qed.
Print Assumptions C01_code_axis_values_n64_buf.

(* B at array level: NaN-free lanes only *)
Theorem C01_code_axis_values_n64_eqv : forall s pick qs n other (buf : list F64) lanes vs buf' c,
  (Z.of_nat n <= 2 ^ 53)%Z ->
  Forall (fun cs => length cs = n) lanes -> lanes_wf buf lanes ->
  length qs * other <> 0 ->
  (forall cs l, In cs lanes -> vread buf cs = Ok l -> Forall (fun x => fis_nan x = false) l) ->
  quantiles_axis n64_carrier s pick qs n other buf lanes = Q_Ok (vs, buf', c) ->
  length vs = length lanes /\ length buf' = length buf /\
  (forall o, ~ In o (concat lanes) -> nth_error buf' o = nth_error buf o) /\
  (forall k cs, nth_error lanes k = Some cs ->
     exists l l' vals svals, vread buf cs = Ok l /\ nth_error vs k = Some vals /\
       qspecs n64_carrier s (isort F64 fle l) qs = Ok svals /\
       Forall2 (fun x y => feq x y = true) vals svals /\
       vread buf' cs = Ok l' /\ Permutation l l').
Proof. exact quantiles_axis_values_N64_nequiv. Qed.
Print Assumptions C01_code_axis_values_n64_eqv.

Theorem C01_code_axis_shape_n64 : forall s pick qs n other (buf : list F64) lanes vs buf' c,
  (Z.of_nat n <= 2 ^ 53)%Z ->
  Forall (fun cs => length cs = n) lanes -> lanes_wf buf lanes ->
  (forall cs l, In cs lanes -> vread buf cs = Ok l -> Forall (fun x => fis_nan x = false) l) ->
  quantiles_axis n64_carrier s pick qs n other buf lanes = Q_Ok (vs, buf', c) ->
  length qs * other <> 0 ->
  length vs = length lanes /\ Forall (fun v => length v = length qs) vs.
Proof. exact quantiles_axis_shape_N64. Qed.
Print Assumptions C01_code_axis_shape_n64.

(* totality: on valid q, a non-empty axis and NaN-free lanes the routine panics only if some lane's
   specification itself fails (K1: Midpoint / Linear producing NaN, e.g. inf - inf) *)
Theorem C01_code_axis_total_n64 : forall s pick qs n other (buf : list F64) lanes,
  Forall (fun q => valid_q q = true) qs -> 1 <= n -> (Z.of_nat n <= 2 ^ 53)%Z ->
  Forall (fun cs => length cs = n) lanes -> lanes_wf buf lanes ->
  (forall cs l, In cs lanes -> vread buf cs = Ok l -> Forall (fun x => fis_nan x = false) l) ->
  (forall cs l, In cs lanes -> vread buf cs = Ok l ->
     exists vals, qspecs n64_carrier s (isort F64 fle l) qs = Ok vals) ->
  exists r, quantiles_axis n64_carrier s pick qs n other buf lanes = Q_Ok r.
Proof. exact quantiles_axis_total_N64. Qed.
Print Assumptions C01_code_axis_total_n64.

(* ... and never for the selecting strategies *)
Theorem C01_code_axis_total_n64_selecting : forall s pick qs n other (buf : list F64) lanes,
  s = Higher \/ s = Lower \/ s = Nearest ->
  Forall (fun q => valid_q q = true) qs -> 1 <= n -> (Z.of_nat n <= 2 ^ 53)%Z ->
  Forall (fun cs => length cs = n) lanes -> lanes_wf buf lanes ->
  (forall cs l, In cs lanes -> vread buf cs = Ok l -> Forall (fun x => fis_nan x = false) l) ->
  exists r, quantiles_axis n64_carrier s pick qs n other buf lanes = Q_Ok r.
Proof. exact quantiles_axis_total_N64_selecting. Qed.
Print Assumptions C01_code_axis_total_n64_selecting.

Theorem C01_code_axis_invalid_n64 : forall s pick qs n other (buf : list F64) lanes q,
  first_invalid qs = Some q ->
  quantiles_axis n64_carrier s pick qs n other buf lanes = Q_Err (QE_Invalid q).
Proof. exact quantiles_axis_invalid_N64. Qed.
Print Assumptions C01_code_axis_invalid_n64.

Theorem C01_code_axis_empty_n64 : forall s pick qs n other (buf : list F64) lanes,
  first_invalid qs = None -> n = 0 ->
  quantiles_axis n64_carrier s pick qs n other buf lanes = Q_Err QE_Empty.
Proof. exact quantiles_axis_empty_N64. Qed.
Print Assumptions C01_code_axis_empty_n64.

Theorem C01_code_axis_nothing_n64 : forall s pick qs n other (buf : list F64) lanes,
  first_invalid qs = None -> n <> 0 -> length qs * other = 0 ->
  quantiles_axis n64_carrier s pick qs n other buf lanes = Q_Ok ([], buf, 0).
Proof. exact quantiles_axis_nothing_N64. Qed.
Print Assumptions C01_code_axis_nothing_n64.

(* ---------------- D: evaluations ---------------- *)

(* lane5 = [1.0; -0.0; +inf; 1.0; -2.5] (duplicates, an infinity, a negative zero),
   qs5 = [0.25; 0.5; 0.1; 1.0; 0.0], two pivot oracles *)
Theorem C01_n64_example_lower :
  bits_res (lane_vals (quantiles_lane n64_carrier Lower 6 pick_first 0 qs5 [0; 1; 2; 4] lane5)) =
    [9223372036854775808; 4607182418800017408; 13836183955189006336; 9218868437227405312;
     13836183955189006336]%Z /\
  bits_res (lane_vals (quantiles_lane n64_carrier Lower 6 pick_last 0 qs5 [0; 1; 2; 4] lane5)) =
    [9223372036854775808; 4607182418800017408; 13836183955189006336; 9218868437227405312;
     13836183955189006336]%Z /\
  searched Lower qs5 5 = Ok [0; 1; 2; 4].
Proof. exact D_lane5_lower. Qed.
Print Assumptions C01_n64_example_lower.

Theorem C01_n64_example_linear :
  bits_res (lane_vals (quantiles_lane n64_carrier Linear 6 pick_first 0 qs3 [0; 1; 2] lane5)) =
    [0; 4607182418800017408; 13832806255468478464]%Z /\
  bits_res (lane_vals (quantiles_lane n64_carrier Linear 6 pick_last 0 qs3 [0; 1; 2] lane5)) =
    [0; 4607182418800017408; 13832806255468478464]%Z /\
  searched Linear qs3 5 = Ok [0; 1; 2].
Proof. exact D_lane5_linear. Qed.
Print Assumptions C01_n64_example_linear.

(* K1 mirrored: Midpoint at q = 1 computes inf - inf *)
Theorem C01_n64_example_midpoint_panics :
  qspecs n64_carrier Midpoint (isort F64 fle lane5) qs5 = Panic /\
  quantiles_lane n64_carrier Midpoint 6 pick_first 0 qs5 [0; 1; 2; 4] lane5 = Panic /\
  quantiles_lane n64_carrier Midpoint 6 pick_last 0 qs5 [0; 1; 2; 4] lane5 = Panic.
Proof. exact D_lane5_midpoint_panics. Qed.
Print Assumptions C01_n64_example_midpoint_panics.

(* non-vacuity: A applied to lane5, B applied to the mixed-zero lane, C's hypotheses on a 3 x 2 array *)
Theorem C01_n64_nonvacuous_A : forall fuel pick c, 5 <= fuel ->
  bits_res (lane_vals (quantiles_lane n64_carrier Linear fuel pick c qs3 [0; 1; 2] lane5)) =
    [0; 4607182418800017408; 13832806255468478464]%Z.
Proof. exact A_lane5. Qed.
Print Assumptions C01_n64_nonvacuous_A.

Theorem C01_n64_nonvacuous_B : forall fuel1 pick1 c1 fuel2 pick2 c2, 2 <= fuel1 -> 2 <= fuel2 ->
  res_rel (Forall2 nequiv)
    (lane_vals (quantiles_lane n64_carrier Lower fuel1 pick1 c1 qs01 [0; 1] lane_pm))
    (lane_vals (quantiles_lane n64_carrier Lower fuel2 pick2 c2 qs01 [0; 1] lane_pm)).
Proof. exact B_lane_pm. Qed.
Print Assumptions C01_n64_nonvacuous_B.

Theorem C01_n64_nonvacuous_C :
  lanes_wf buf6 lanes6 /\ Forall (fun cs => length cs = 3) lanes6 /\
  Forall nonnan buf6 /\ no_mixed_zeros buf6 /\ Forall (fun q => valid_q q = true) qs_c /\
  (Z.of_nat 3 <= 2 ^ 53)%Z /\ length qs_c * 2 <> 0.
Proof. exact C_axis_hypotheses. Qed.
Print Assumptions C01_n64_nonvacuous_C.

Theorem C01_n64_example_axis :
  axis_vals (quantiles_axis n64_carrier Midpoint pick_first qs_c 3 2 buf6 lanes6) =
    [[4607182418800017408; 13836183955189006336]; [0; 0]]%Z /\
  axis_vals (quantiles_axis n64_carrier Midpoint pick_last qs_c 3 2 buf6 lanes6) =
    [[4607182418800017408; 13836183955189006336]; [0; 0]]%Z /\
  axis_vals (quantiles_axis n64_carrier Lower pick_first qs_c 3 2 buf6 lanes6) =
    [[4607182418800017408; 13836183955189006336]; [9223372036854775808; 9223372036854775808]]%Z /\
  axis_vals (quantiles_axis n64_carrier Lower pick_last qs_c 3 2 buf6 lanes6) =
    [[4607182418800017408; 13836183955189006336]; [9223372036854775808; 9223372036854775808]]%Z.
Proof. exact C_axis_run. Qed.
Print Assumptions C01_n64_example_axis.
