(* C10: entropy, cross-entropy and KL divergence follow their definitions.
   Model: Num/Kernels.v (entropy, kl_divergence, cross_entropy) over the reals; ln is the real
   logarithm (in the executable binary64/binary32 instances it is an oracle table recorded from
   the implementation's libm). *)
From Coq Require Import Reals List Arith Lia.
Import ListNotations.
From NS Require Import Num.Ops Num.Kernels Num.RInst Num.EntropyR.
Local Open Scope R_scope.

(* definitions, with every term whose x_i (p_i) is zero contributing exactly zero *)
Theorem C10_entropy_def : forall x : list R,
  entropy R_ops (PMem (seq 0 (length x))) x = - Rsum (map (fun v => if Req_EM_T v 0 then 0 else v * ln v) x).
Proof. exact entropy_R. Qed.
Print Assumptions C10_entropy_def.

Theorem C10_kl_def : forall p q : list R, length p = length q ->
  kl_divergence R_ops p q =
  - Rsum (map (fun pq => if Req_EM_T (fst pq) 0 then 0 else fst pq * ln (snd pq / fst pq)) (combine p q)).
Proof. exact kl_R. Qed.
Print Assumptions C10_kl_def.

Theorem C10_cross_entropy_def : forall p q : list R, length p = length q ->
  cross_entropy R_ops p q =
  - Rsum (map (fun pq => if Req_EM_T (fst pq) 0 then 0 else fst pq * ln (snd pq)) (combine p q)).
Proof. exact cross_R. Qed.
Print Assumptions C10_cross_entropy_def.

Theorem C10_kl_self_zero : forall p : list R, kl_divergence R_ops p p = 0.
Proof. exact kl_self_gen. Qed.
Print Assumptions C10_kl_self_zero.

Theorem C10_cross_is_entropy_plus_kl : forall p q : list R, length p = length q ->
  Forall (fun pq => 0 < fst pq -> 0 < snd pq) (combine p q) -> Forall (fun v => 0 <= v) p ->
  cross_entropy R_ops p q = entropy R_ops (PMem (seq 0 (length p))) p + kl_divergence R_ops p q.
Proof. exact cross_eq_entropy_plus_kl. Qed.
Print Assumptions C10_cross_is_entropy_plus_kl.

Theorem C10_gibbs : forall p q : list R, length p = length q ->
  Forall (fun v => 0 <= v) p -> Forall (fun v => 0 < v) q -> Rsum p = 1 -> Rsum q = 1 ->
  0 <= kl_divergence R_ops p q.
Proof. exact gibbs. Qed.
Print Assumptions C10_gibbs.

Theorem C10_entropy_le_ln_n : forall p : list R, Forall (fun v => 0 <= v) p -> Rsum p = 1 -> (1 <= length p)%nat ->
  entropy R_ops (PMem (seq 0 (length p))) p <= ln (INR (length p)).
Proof. exact entropy_le_ln_n. Qed.
Print Assumptions C10_entropy_le_ln_n.

Theorem C10_entropy_nonneg : forall p : list R, Forall (fun v => 0 <= v <= 1) p ->
  0 <= entropy R_ops (PMem (seq 0 (length p))) p.
Proof. exact entropy_nonneg. Qed.
Print Assumptions C10_entropy_nonneg.
