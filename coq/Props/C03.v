(* C03: in-place routines only permute the lanes they were given.
   All data movement of the safe code is ArrayBase::swap on the caller's view, so the
   buffer-level meaning of a list-level operation is: read the view's cells, run the
   operation, write the view back (Mem/Buffer.v: lift_op; per-axis routines: Mem/Lanes.v:
   map_lanes over the pairwise disjoint lanes).  The unsafe pointer code that bypasses that
   discipline is modelled explicitly in C04. *)
From Coq Require Import List Arith ZArith Lia Permutation Bool.
Import ListNotations.
From NS Require Import Base.Order Base.Res Mem.Buffer Mem.BufferProofs Mem.Lanes Mem.LanesProofs
  Mem.RemoveNan Mem.RemoveNanBuf Sort.Partition Sort.PartitionProofs Sort.Select Sort.SelectProofs.

(* any list-level operation that permutes its input, lifted to a view: the view keeps its
   multiset, nothing outside the view's cells changes *)
Theorem C03_view_frame : forall A R (op : list A -> res (R * list A)) buf cs l x l',
  NoDup cs -> vread buf cs = Ok l -> op l = Ok (x, l') -> Permutation l l' ->
  exists buf', lift_op op buf cs = Ok (x, buf') /\ vread buf' cs = Ok l' /\
    length buf' = length buf /\ (forall o, ~ In o cs -> nth_error buf' o = nth_error buf o).
Proof. intros A R. exact (@lift_op_one A R). Qed.
Print Assumptions C03_view_frame.

(* per-axis application: each lane's result is the operation applied to that lane's ORIGINAL
   contents, each lane keeps its multiset (no element moves between lanes), nothing outside
   the lanes changes *)
Theorem C03_lanes : forall A R (op : list A -> res (R * list A)),
  (forall l, exists r l', op l = Ok (r, l')) ->
  (forall l r l', op l = Ok (r, l') -> Permutation l l') ->
  forall lanes buf, lanes_wf buf lanes ->
  exists xs buf', map_lanes op buf lanes = Ok (xs, buf') /\
    length xs = length lanes /\ length buf' = length buf /\
    (forall o, ~ In o (concat lanes) -> nth_error buf' o = nth_error buf o) /\
    (forall k cs, nth_error lanes k = Some cs ->
       exists l l' x, vread buf cs = Ok l /\ op l = Ok (x, l') /\ nth_error xs k = Some x /\
         vread buf' cs = Ok l' /\ Permutation l l').
Proof. intros A R op Ht Hp. exact (map_lanes_spec op Ht Hp). Qed.
Print Assumptions C03_lanes.

(* the final buffer does not depend on the order in which the lanes are visited *)
Theorem C03_lane_order_irrelevant : forall A R (op : list A -> res (R * list A)),
  (forall l, exists r l', op l = Ok (r, l')) ->
  (forall l r l', op l = Ok (r, l') -> Permutation l l') ->
  forall buf lanes lanes' xs buf', lanes_wf buf lanes -> Permutation lanes lanes' ->
  map_lanes op buf lanes = Ok (xs, buf') ->
  exists xs', map_lanes op buf lanes' = Ok (xs', buf') /\ Permutation xs xs'.
Proof. intros A R op Ht Hp. exact (map_lanes_perm op Ht Hp). Qed.
Print Assumptions C03_lane_order_irrelevant.

(* instances: partitioning and selection on a view *)
Theorem C03_partition : forall A (leb : A -> A -> bool) (buf : list A) cs p l,
  NoDup cs -> vread buf cs = Ok l -> p < length l ->
  exists k l' buf', lift_op (fun l => partition A leb l p) buf cs = Ok (k, buf') /\
    vread buf' cs = Ok l' /\ Permutation l l' /\ length buf' = length buf /\
    (forall o, ~ In o cs -> nth_error buf' o = nth_error buf o).
Proof. exact partition_b_frame. Qed.
Print Assumptions C03_partition.

Theorem C03_select : forall A (leb : A -> A -> bool), total leb -> transitive leb ->
  forall fuel pick c (buf : list A) cs i l,
  NoDup cs -> vread buf cs = Ok l -> i < length l -> length l <= fuel ->
  exists v c' l' buf', lift_op (select_op leb fuel pick c i) buf cs = Ok ((v, c'), buf') /\
    vread buf' cs = Ok l' /\ Permutation l l' /\ length buf' = length buf /\
    nth_error l' i = Some v /\ (forall o, ~ In o cs -> nth_error buf' o = nth_error buf o).
Proof. exact select_b_frame. Qed.
Print Assumptions C03_select.

(* NaN removal on a view: missing values included in the preserved multiset *)
Theorem C03_remove_nan : forall A (is_nan : A -> bool) buf v, wf_view buf v ->
  exists l l' v' buf', vread buf (cells v) = Ok l /\ remove_nan_b is_nan buf v = Ok (v', buf') /\
    vread buf' (cells v) = Ok l' /\ Permutation l l' /\ length buf' = length buf /\
    (forall o, ~ In o (cells v) -> nth_error buf' o = nth_error buf o).
Proof.
  intros A is_nan buf v Hwf.
  destruct (remove_nan_b_spec is_nan buf v Hwf) as
    (l & i & l' & buf' & v' & H1 & H2 & H3 & H4 & H5 & H6 & H7 & H8 & H9 & H10 & H11 & H12 & H13 & H14 & H15).
  exists l, l', v', buf'. repeat split; assumption.
Qed.
Print Assumptions C03_remove_nan.

(* reading and writing a view *)
Theorem C03_vwrite_frame : forall A (buf : list A) cs l o, ~ In o cs -> nth_error (vwrite buf cs l) o = nth_error buf o.
Proof. intros A. exact (@vwrite_frame A). Qed.
Print Assumptions C03_vwrite_frame.

Theorem C03_vread_vwrite : forall A (buf : list A) cs l, NoDup cs -> Forall (fun c => c < length buf) cs ->
  length l = length cs -> vread (vwrite buf cs l) cs = Ok l.
Proof. intros A. exact (@vread_vwrite A). Qed.
Print Assumptions C03_vread_vwrite.
