(* C13: edges are strictly sorted and bin lookup is left-closed, right-open.
   Model: Hist/Edges.v (edges_from = sort + dedup; indices_of through a search
   that is uniquely determined on a strictly sorted list; Bins and Grid accessors). *)
From Coq Require Import List Arith ZArith Lia Bool Sorting.Sorted.
Import ListNotations.
From NS Require Import Base.Order Base.Res Base.SortDedup Base.SortDedupProofs Hist.Edges Hist.EdgesProofs.

(* edges built from any collection: exactly the distinct inputs, strictly increasing *)
Theorem C13_edges_strict : forall A (leb : A -> A -> bool), total leb -> transitive leb ->
  forall l, StronglySorted (fun x y => sltb A leb x y = true) (edges_from A leb l).
Proof. exact edges_from_strict. Qed.
Print Assumptions C13_edges_strict.

Theorem C13_edges_sound : forall A (leb : A -> A -> bool) l x, In x (edges_from A leb l) -> In x l.
Proof. exact edges_from_In. Qed.
Print Assumptions C13_edges_sound.

Theorem C13_edges_complete : forall A (leb : A -> A -> bool), total leb -> transitive leb ->
  forall l x, In x l -> exists y, In y (edges_from A leb l) /\ eqv A leb x y = true.
Proof. exact edges_from_complete. Qed.
Print Assumptions C13_edges_complete.

(* over Z the result is THE strictly increasing list of the distinct inputs, whatever
   sorting algorithm is used *)
Theorem C13_edges_Z_unique : forall l es, StronglySorted Z.lt es -> (forall x, In x es <-> In x l) ->
  es = edges_from Z Z.leb l.
Proof.
  intros l es Hs Hin. apply Z_strict_unique; [exact Hs | apply Z_sort_dedup_lt |].
  intro x. rewrite Hin. symmetry. apply Z_sort_dedup_In.
Qed.
Print Assumptions C13_edges_Z_unique.

(* lookup: bin i exactly when edge_i <= v < edge_{i+1} *)
Theorem C13_lookup_some : forall A (leb : A -> A -> bool), total leb -> transitive leb ->
  forall es v i j, strict A leb es ->
  (indices_of A leb es v = Some (i, j) <->
   j = i + 1 /\ exists a b, nth_error es i = Some a /\ nth_error es j = Some b /\
                            leb a v = true /\ sltb A leb v b = true).
Proof. exact indices_of_some. Qed.
Print Assumptions C13_lookup_some.

(* and nothing otherwise: fewer than two edges, below the first edge, at or above the last *)
Theorem C13_lookup_none : forall A (leb : A -> A -> bool), total leb -> transitive leb ->
  forall es v, strict A leb es ->
  (indices_of A leb es v = None <->
   length es < 2 \/
   (exists a, nth_error es 0 = Some a /\ sltb A leb v a = true) \/
   (exists b, nth_error es (length es - 1) = Some b /\ leb b v = true)).
Proof. exact indices_of_none. Qed.
Print Assumptions C13_lookup_none.

Theorem C13_bin_unique : forall A (leb : A -> A -> bool), total leb -> transitive leb ->
  forall es v, strict A leb es -> forall i i' a b a' b',
  nth_error es i = Some a -> nth_error es (i + 1) = Some b -> leb a v = true -> sltb A leb v b = true ->
  nth_error es i' = Some a' -> nth_error es (i' + 1) = Some b' -> leb a' v = true -> sltb A leb v b' = true ->
  i = i'.
Proof. exact bin_unique. Qed.
Print Assumptions C13_bin_unique.

(* number of bins = max(#edges - 1, 0) (truncated subtraction) *)
Theorem C13_bins_len : forall A (es : list A), bins_len A es = length es - 1.
Proof. exact bins_len_spec. Qed.
Print Assumptions C13_bins_len.

(* index, range and by-position accessors agree *)
Theorem C13_accessors_agree : forall A (leb : A -> A -> bool), total leb -> transitive leb ->
  forall es v i, strict A leb es -> index_of A leb es v = Some i ->
  i < bins_len A es /\ exists a b, nth_error es i = Some a /\ nth_error es (i + 1) = Some b /\
    range_of A leb es v = Ok (Some (a, b)) /\ bins_index A es i = Ok (a, b).
Proof. exact index_of_range_of. Qed.
Print Assumptions C13_accessors_agree.

Theorem C13_bins_index_ok_iff : forall A (es : list A) i,
  (exists r, bins_index A es i = Ok r) <-> i < bins_len A es.
Proof. exact bins_index_ok_iff. Qed.
Print Assumptions C13_bins_index_ok_iff.

(* Grid: componentwise *)
Theorem C13_grid_shape : forall A (g : grid A), length (grid_shape A g) = grid_ndim A g.
Proof. exact grid_shape_length. Qed.
Print Assumptions C13_grid_shape.

Theorem C13_grid_index_of_some : forall A (leb : A -> A -> bool) (g : grid A) pt idx,
  length pt = length g ->
  (grid_index_of A leb g pt = Ok (Some idx) <->
   length idx = length g /\
   forall k es v i, nth_error g k = Some es -> nth_error pt k = Some v -> nth_error idx k = Some i ->
                    index_of A leb es v = Some i).
Proof. exact grid_index_of_spec. Qed.
Print Assumptions C13_grid_index_of_some.

Theorem C13_grid_index_of_none : forall A (leb : A -> A -> bool) (g : grid A) pt,
  length pt = length g ->
  (grid_index_of A leb g pt = Ok None <->
   exists k es v, nth_error g k = Some es /\ nth_error pt k = Some v /\ index_of A leb es v = None).
Proof. exact grid_index_of_none. Qed.
Print Assumptions C13_grid_index_of_none.

Theorem C13_grid_index_in_shape : forall A (leb : A -> A -> bool) (g : grid A) pt idx,
  grid_index_of A leb g pt = Ok (Some idx) -> Forall2 (fun i s => i < s) idx (grid_shape A g).
Proof. exact grid_index_of_in_shape_gen. Qed.
Print Assumptions C13_grid_index_in_shape.

Theorem C13_grid_index_ranges : forall A (g : grid A) idx r, grid_index A g idx = Ok r ->
  length r = length g /\
  forall k es i, nth_error g k = Some es -> nth_error idx k = Some i ->
    exists ab, nth_error r k = Some ab /\ bins_index A es i = Ok ab.
Proof. exact grid_index_nth. Qed.
Print Assumptions C13_grid_index_ranges.

(* non-vacuity *)
Example C13_example :
  edges_from Z Z.leb [5;1;3;3;1]%Z = [1;3;5]%Z /\
  map (indices_of Z Z.leb [1;3;5]%Z) [0;1;2;3;4;5;6]%Z =
    [None; Some (0,1); Some (0,1); Some (1,2); Some (1,2); None; None].
Proof. split; vm_compute; reflexivity. Qed.
Print Assumptions C13_example.
