(* C19 on N64 (non-NaN binary64) lanes: the order laws of the quantile specification in IEEE-754
   binary64, all five strategies, EXACT (no ulp slack).
   The lane `srt` is sorted by `fle`, its elements are finite and of magnitude at most 2^1022 (so no
   gap  higher - lower  overflows; N64 itself allows infinities and overflowing gaps - known-finding
   class K1, see C19_n64_K1_gap_overflow), 1 <= N <= 2^53.  Values are compared as reals (B2R):
   Midpoint and Linear of l = h = -0.0 return +0.0 (C19_n64_signed_zero).
   Proofs: Quantile/LawsF64.v (on top of Quantile/InterpF64.v and Quantile/IndexProofs.v). *)
From Coq Require Import List Arith ZArith Lia Bool Reals Sorting.Sorted.
Import ListNotations.
From Flocq Require Import Core BinarySingleNaN.
From NS Require Import Base.Res Num.F64 Quantile.Index Quantile.IndexProofs Quantile.Interp Quantile.Spec
  Quantile.InterpF64 Quantile.LawsF64.
Notation B2R := (@BinarySingleNaN.B2R 53 1024).
Local Open Scope nat_scope.

(* 6. total: a valid q never panics and the result is finite *)
Theorem C19_n64_total : forall (srt : list F64),
  Forall (fun x => fis_finite x = true /\ (Rabs (B2R x) <= bpow radix2 1022)%R) srt ->
  StronglySorted (fun a b => fle a b = true) srt ->
  1 <= length srt -> (Z.of_nat (length srt) <= 2 ^ 53)%Z ->
  forall s q, valid_q q = true ->
  exists v, qspec n64_carrier s srt q = Ok v /\ fis_finite v = true.
Proof. exact B0_total. Qed.
Print Assumptions C19_n64_total.

(* 1. non-decreasing in q, all five strategies, exactly *)
Theorem C19_n64_monotone_in_q : forall (srt : list F64),
  Forall (fun x => fis_finite x = true /\ (Rabs (B2R x) <= bpow radix2 1022)%R) srt ->
  StronglySorted (fun a b => fle a b = true) srt ->
  1 <= length srt -> (Z.of_nat (length srt) <= 2 ^ 53)%Z ->
  forall s q1 q2 v1 v2, valid_q q1 = true -> valid_q q2 = true -> (B2R q1 <= B2R q2)%R ->
  qspec n64_carrier s srt q1 = Ok v1 -> qspec n64_carrier s srt q2 = Ok v2 -> (B2R v1 <= B2R v2)%R.
Proof. exact B6_mono. Qed.
Print Assumptions C19_n64_monotone_in_q.

(* 2. between the lane minimum and maximum *)
Theorem C19_n64_bounds : forall (srt : list F64),
  Forall (fun x => fis_finite x = true /\ (Rabs (B2R x) <= bpow radix2 1022)%R) srt ->
  StronglySorted (fun a b => fle a b = true) srt ->
  1 <= length srt -> (Z.of_nat (length srt) <= 2 ^ 53)%Z ->
  forall s q v, valid_q q = true -> qspec n64_carrier s srt q = Ok v ->
  (B2R (nth 0 srt fzero) <= B2R v <= B2R (nth (length srt - 1) srt fzero))%R.
Proof. exact B2_bounds. Qed.
Print Assumptions C19_n64_bounds.

(* ... and more precisely between the elements at floor and ceil of the index *)
Theorem C19_n64_bracket : forall (srt : list F64),
  Forall (fun x => fis_finite x = true /\ (Rabs (B2R x) <= bpow radix2 1022)%R) srt ->
  StronglySorted (fun a b => fle a b = true) srt ->
  1 <= length srt -> (Z.of_nat (length srt) <= 2 ^ 53)%Z ->
  forall s q v, valid_q q = true -> qspec n64_carrier s srt q = Ok v ->
  exists lo hi a b,
    lower_index q (length srt) = Some lo /\ higher_index q (length srt) = Some hi /\
    nth_error srt lo = Some a /\ nth_error srt hi = Some b /\
    fis_finite v = true /\ (B2R a <= B2R v <= B2R b)%R.
Proof. exact B1_bracket. Qed.
Print Assumptions C19_n64_bracket.

(* 3. Lower <= {Nearest, Midpoint, Linear} <= Higher *)
Theorem C19_n64_lower_le_higher : forall (srt : list F64),
  Forall (fun x => fis_finite x = true /\ (Rabs (B2R x) <= bpow radix2 1022)%R) srt ->
  StronglySorted (fun a b => fle a b = true) srt ->
  1 <= length srt -> (Z.of_nat (length srt) <= 2 ^ 53)%Z ->
  forall s q vl vh v, valid_q q = true ->
  qspec n64_carrier Lower srt q = Ok vl -> qspec n64_carrier Higher srt q = Ok vh ->
  qspec n64_carrier s srt q = Ok v -> (B2R vl <= B2R v <= B2R vh)%R.
Proof. exact B3_lower_le_higher. Qed.
Print Assumptions C19_n64_lower_le_higher.

(* 4. all five coincide whenever (N-1)q, as computed, is integral *)
Theorem C19_n64_coincide : forall (srt : list F64),
  Forall (fun x => fis_finite x = true /\ (Rabs (B2R x) <= bpow radix2 1022)%R) srt ->
  StronglySorted (fun a b => fle a b = true) srt ->
  1 <= length srt -> (Z.of_nat (length srt) <= 2 ^ 53)%Z ->
  forall q, valid_q q = true ->
  lower_index q (length srt) = higher_index q (length srt) ->
  B2R (qfrac q (length srt)) = 0%R /\
  qspec n64_carrier Higher srt q = qspec n64_carrier Lower srt q /\
  qspec n64_carrier Nearest srt q = qspec n64_carrier Lower srt q /\
  (forall s, exists v vl, qspec n64_carrier s srt q = Ok v /\ qspec n64_carrier Lower srt q = Ok vl /\
     fis_finite v = true /\ B2R v = B2R vl) /\
  (forall s1 s2 v1 v2, qspec n64_carrier s1 srt q = Ok v1 -> qspec n64_carrier s2 srt q = Ok v2 ->
     B2R v1 = B2R v2).
Proof. exact B4_coincide. Qed.
Print Assumptions C19_n64_coincide.

Theorem C19_n64_coincide_iff_frac_zero : forall (srt : list F64),
  Forall (fun x => fis_finite x = true /\ (Rabs (B2R x) <= bpow radix2 1022)%R) srt ->
  StronglySorted (fun a b => fle a b = true) srt ->
  1 <= length srt -> (Z.of_nat (length srt) <= 2 ^ 53)%Z ->
  forall q, valid_q q = true ->
  (lower_index q (length srt) = higher_index q (length srt) <-> B2R (qfrac q (length srt)) = 0%R).
Proof. exact B4_frac_zero. Qed.
Print Assumptions C19_n64_coincide_iff_frac_zero.

(* 5. q = 0 returns the minimum, q = 1 the maximum *)
Theorem C19_n64_q_zero : forall (srt : list F64),
  Forall (fun x => fis_finite x = true /\ (Rabs (B2R x) <= bpow radix2 1022)%R) srt ->
  StronglySorted (fun a b => fle a b = true) srt ->
  1 <= length srt -> (Z.of_nat (length srt) <= 2 ^ 53)%Z ->
  forall q, valid_q q = true -> B2R q = 0%R ->
  let m := nth 0 srt fzero in
  qspec n64_carrier Lower srt q = Ok m /\ qspec n64_carrier Higher srt q = Ok m /\
  qspec n64_carrier Nearest srt q = Ok m /\
  (forall s, exists v, qspec n64_carrier s srt q = Ok v /\ fis_finite v = true /\ B2R v = B2R m).
Proof. exact B2_zero. Qed.
Print Assumptions C19_n64_q_zero.

Theorem C19_n64_q_one : forall (srt : list F64),
  Forall (fun x => fis_finite x = true /\ (Rabs (B2R x) <= bpow radix2 1022)%R) srt ->
  StronglySorted (fun a b => fle a b = true) srt ->
  1 <= length srt -> (Z.of_nat (length srt) <= 2 ^ 53)%Z ->
  forall q, valid_q q = true -> B2R q = 1%R ->
  let m := nth (length srt - 1) srt fzero in
  qspec n64_carrier Lower srt q = Ok m /\ qspec n64_carrier Higher srt q = Ok m /\
  qspec n64_carrier Nearest srt q = Ok m /\
  (forall s, exists v, qspec n64_carrier s srt q = Ok v /\ fis_finite v = true /\ B2R v = B2R m).
Proof. exact B2_one. Qed.
Print Assumptions C19_n64_q_one.

(* The magnitude bound is only used to keep every gap higher - lower finite.  The laws hold under
   that weaker hypothesis (here: totality and monotonicity), and it follows from max - min alone. *)
Theorem C19_n64_total_gap : forall (srt : list F64),
  Forall (fun x => fis_finite x = true) srt ->
  StronglySorted (fun a b => fle a b = true) srt ->
  (forall a b, In a srt -> In b srt -> (B2R a <= B2R b)%R -> (rnd (B2R b - B2R a) < bpow radix2 1024)%R) ->
  1 <= length srt -> (Z.of_nat (length srt) <= 2 ^ 53)%Z ->
  forall s q, valid_q q = true ->
  exists v, qspec n64_carrier s srt q = Ok v /\ fis_finite v = true.
Proof. exact F0_total. Qed.
Print Assumptions C19_n64_total_gap.

Theorem C19_n64_monotone_in_q_gap : forall (srt : list F64),
  Forall (fun x => fis_finite x = true) srt ->
  StronglySorted (fun a b => fle a b = true) srt ->
  (forall a b, In a srt -> In b srt -> (B2R a <= B2R b)%R -> (rnd (B2R b - B2R a) < bpow radix2 1024)%R) ->
  1 <= length srt -> (Z.of_nat (length srt) <= 2 ^ 53)%Z ->
  forall s q1 q2 v1 v2, valid_q q1 = true -> valid_q q2 = true -> (B2R q1 <= B2R q2)%R ->
  qspec n64_carrier s srt q1 = Ok v1 -> qspec n64_carrier s srt q2 = Ok v2 -> (B2R v1 <= B2R v2)%R.
Proof. exact F6_mono. Qed.
Print Assumptions C19_n64_monotone_in_q_gap.

Theorem C19_n64_gap_of_range : forall (srt : list F64),
  Forall (fun x => fis_finite x = true) srt ->
  StronglySorted (fun a b => fle a b = true) srt ->
  (rnd (B2R (nth (length srt - 1) srt fzero) - B2R (nth 0 srt fzero)) < bpow radix2 1024)%R ->
  forall a b, In a srt -> In b srt -> (B2R a <= B2R b)%R -> (rnd (B2R b - B2R a) < bpow radix2 1024)%R.
Proof. exact gap_ok_of_range. Qed.
Print Assumptions C19_n64_gap_of_range.

(* a boolean check that establishes the lane hypothesis *)
Theorem C19_n64_lane_check : forall (srt : list F64),
  forallb (fun x => fis_finite x && fle (fabs x) (f64_of_bits 9209861237972664320)) srt = true ->
  Forall (fun x => fis_finite x = true /\ (Rabs (B2R x) <= bpow radix2 1022)%R) srt.
Proof. exact lane_okb_sound. Qed.
Print Assumptions C19_n64_lane_check.

(* ---- examples ---- *)
(* lane [1.0; 2.5; 2.5; 10.0]: hypotheses hold; the five quantiles (Lower, Nearest, Midpoint, Linear,
   Higher; bit patterns) at q = 0.3, 0.7, 0.9 *)
Example C19_n64_example_hyps :
  Forall (fun x => fis_finite x = true /\ (Rabs (B2R x) <= bpow radix2 1022)%R) ex_lane /\
  StronglySorted (fun a b => fle a b = true) ex_lane /\ 1 <= length ex_lane /\
  (Z.of_nat (length ex_lane) <= 2 ^ 53)%Z /\
  valid_q ex_q03 = true /\ valid_q ex_q07 = true /\ valid_q ex_q09 = true.
Proof. exact ex_lane_hyps. Qed.
Print Assumptions C19_n64_example_hyps.

Example C19_n64_example_values :
  ex_lane = map f64_of_bits [4607182418800017408; 4612811918334230528; 4612811918334230528; 4621819117588971520]%Z /\
  map (fun q => map (fun s => match qspec n64_carrier s ex_lane (f64_of_bits q) with Ok v => bits_of_f64 v | _ => (-1)%Z end)
                    [Lower; Nearest; Midpoint; Linear; Higher])
      [4599075939470750515; 4604480259023595110; 4606281698874543309]%Z =
  [[4607182418800017408; 4612811918334230528; 4610560118520545280; 4612474148362177740; 4612811918334230528];
   [4612811918334230528; 4612811918334230528; 4618722892845154304; 4614500768194494458; 4621819117588971520];
   [4612811918334230528; 4621819117588971520; 4618722892845154304; 4620411742705418242; 4621819117588971520]]%Z.
Proof. split; [reflexivity | vm_compute; reflexivity]. Qed.
Print Assumptions C19_n64_example_values.

Example C19_n64_example_monotone : forall s v1 v2 v3,
  qspec n64_carrier s ex_lane ex_q03 = Ok v1 -> qspec n64_carrier s ex_lane ex_q07 = Ok v2 ->
  qspec n64_carrier s ex_lane ex_q09 = Ok v3 -> (B2R v1 <= B2R v2 <= B2R v3)%R.
Proof. exact ex_mono_instance. Qed.
Print Assumptions C19_n64_example_monotone.

(* lane [-0.0; -0.0], q = 0: Lower/Nearest/Higher return -0.0, Midpoint/Linear return +0.0 *)
Example C19_n64_signed_zero :
  map (fun s => match qspec n64_carrier s (map f64_of_bits [9223372036854775808; 9223372036854775808]%Z) fzero
                with Ok v => bits_of_f64 v | _ => (-1)%Z end)
      [Lower; Nearest; Midpoint; Linear; Higher] =
  [9223372036854775808; 9223372036854775808; 0; 0; 9223372036854775808]%Z.
Proof. vm_compute. reflexivity. Qed.
Print Assumptions C19_n64_signed_zero.

(* K1: lane [-MAX; MAX] (finite, sorted, but beyond the magnitude bound), q = 0.5: Midpoint and Linear
   return +infinity (bits 0x7FF0000000000000) *)
Example C19_n64_K1_gap_overflow :
  map (fun s => match qspec n64_carrier s (map f64_of_bits [18442240474082181119; 9218868437227405311]%Z) fhalf
                with Ok v => bits_of_f64 v | _ => (-1)%Z end)
      [Lower; Nearest; Midpoint; Linear; Higher] =
  [18442240474082181119; 9218868437227405311; 9218868437227405312; 9218868437227405312; 9218868437227405311]%Z.
Proof. vm_compute. reflexivity. Qed.
Print Assumptions C19_n64_K1_gap_overflow.
