(* C09 in binary64, DERIVED measures: l2_dist = sqrt(sq_l2_dist), mean_abs_err = l1_dist / n,
   mean_sq_err = sq_l2_dist / n, root_mean_sq_err = sqrt(mean_sq_err) and
   peak_signal_to_noise_ratio = 10 * log10(maxv * maxv / mean_sq_err) of deviation.rs, defined in
   Num/DerivedF64.v over the abstract carrier (on top of the accumulations of Num/Kernels.v) and
   studied here at the IEEE-754 instance f64_ops, for arrays of any length n (1 <= n <= 2^53 where
   a division by n is involved) and EVERY traversal order that visits each position once.
     is_traversal trav n = Permutation trav (seq 0 n);   rdiff_at a b p = a_p - b_p in the reals;
     SSE a b = sum_p (a_p - b_p)^2,  SAE a b = sum_p |a_p - b_p|  (exact, logical order);
     u64 = 2^-53, eta64 = 2^-1075, g64 k = (1 + u64)^k - 1,  hsq g = g/2 + g^2/2
   (the square root halves a relative error to first order).  The terms in eta64 come from
   underflow of the squares (a_p - b_p)^2 and of the final quotient; they are necessary: when
   every |a_p - b_p| < 2^-538 the computed sum of squares is 0.
   Hypotheses: finiteness of the computed result (checkable by running the model); an explicit
   smallness condition g64 (n + c) <= 1 for the square roots (implied by n <= 2^50, see
   g64_quarter); for PSNR an accuracy premise on the log10 oracle (relative error elog, like
   ln_table_accurate of Props/C10_f64.v), maxv^2 and the quotient maxv^2/mse computed as normal
   numbers >= 2^-1021, and relative accuracy dm <= 1/2 of the mean squared error.
   PARTIAL for PSNR in this sense only: log10 is an oracle with a premise, not libm's code.
   Num/DerivedF64.v (ex_l2_error, ex_mae_error, ex_mse_error, ex_rmse_error) and
   Num/OracleExamplesF64.v (ex_psnr_error) instantiate every theorem on a concrete run. *)
From Coq Require Import List ZArith Bool Permutation.
From Flocq Require Import Core BinarySingleNaN.
Require Import Reals.
From NS Require Import Num.F64 Num.Ops Num.RInst Num.F64Inst Num.Kernels Num.SumF64 Num.DeviationF64
  Num.DerivedF64 Num.OracleF64 Num.PsnrF64.
Import ListNotations.
Notation B2R := (@BinarySingleNaN.B2R 53 1024).
Local Open Scope R_scope.

(* |l2_fl - sqrt S| <= ((1+u) (g/2 + g^2/2) + u) sqrt S + (1+u) sqrt(n (1 + g_n) eta),  g = g64(n+2) *)
Theorem C09_f64_l2_error : forall lt et a b trav n, n = length a -> is_traversal trav n ->
  fis_finite (l2_dist (f64_ops lt et) a b trav) = true -> g64 (n + 2) <= 1 ->
  Rabs (B2R (l2_dist (f64_ops lt et) a b trav) - sqrt (SSE a b))
    <= ((1 + u64) * hsq (g64 (n + 2)) + u64) * sqrt (SSE a b)
       + (1 + u64) * sqrt (INR n * (1 + g64 n) * eta64).
Proof. exact l2_dist_error. Qed.
Print Assumptions C09_f64_l2_error.

(* for S > 0, without a square root of the underflow term and without a smallness hypothesis *)
Theorem C09_f64_l2_error_pos : forall lt et a b trav n, n = length a -> is_traversal trav n ->
  fis_finite (l2_dist (f64_ops lt et) a b trav) = true -> 0 < SSE a b ->
  Rabs (B2R (l2_dist (f64_ops lt et) a b trav) - sqrt (SSE a b))
    <= ((1 + u64) * g64 (n + 2) + u64) * sqrt (SSE a b)
       + (1 + u64) * (INR n * (1 + g64 n) * eta64) / sqrt (SSE a b).
Proof. exact l2_dist_error_pos. Qed.
Print Assumptions C09_f64_l2_error_pos.

Theorem C09_f64_mean_abs_err_error : forall lt et a b trav n, n = length a -> is_traversal trav n ->
  (1 <= n)%nat -> (Z.of_nat n <= 2 ^ 53)%Z ->
  fis_finite (mean_abs_err (f64_ops lt et) a b trav) = true ->
  Rabs (B2R (mean_abs_err (f64_ops lt et) a b trav) - SAE a b / INR n)
    <= g64 (n + 1) * (SAE a b / INR n) + eta64.
Proof. exact mean_abs_err_error. Qed.
Print Assumptions C09_f64_mean_abs_err_error.

Theorem C09_f64_mean_sq_err_error : forall lt et a b trav n, n = length a -> is_traversal trav n ->
  (1 <= n)%nat -> (Z.of_nat n <= 2 ^ 53)%Z ->
  fis_finite (mean_sq_err (f64_ops lt et) a b trav) = true ->
  Rabs (B2R (mean_sq_err (f64_ops lt et) a b trav) - SSE a b / INR n)
    <= g64 (n + 3) * (SSE a b / INR n) + (2 + g64 (n + 1)) * eta64.
Proof. exact mean_sq_err_error. Qed.
Print Assumptions C09_f64_mean_sq_err_error.

Theorem C09_f64_root_mean_sq_err_error : forall lt et a b trav n, n = length a -> is_traversal trav n ->
  (1 <= n)%nat -> (Z.of_nat n <= 2 ^ 53)%Z ->
  fis_finite (root_mean_sq_err (f64_ops lt et) a b trav) = true -> g64 (n + 3) <= 1 ->
  Rabs (B2R (root_mean_sq_err (f64_ops lt et) a b trav) - sqrt (SSE a b / INR n))
    <= ((1 + u64) * hsq (g64 (n + 3)) + u64) * sqrt (SSE a b / INR n)
       + (1 + u64) * sqrt ((2 + g64 (n + 1)) * eta64).
Proof. exact root_mean_sq_err_error. Qed.
Print Assumptions C09_f64_root_mean_sq_err_error.

(* the smallness hypotheses hold up to n + c <= 2^50 *)
Theorem C09_f64_g64_small : forall k, (Z.of_nat k <= 2 ^ 50)%Z -> g64 k <= / 4.
Proof. exact g64_quarter. Qed.
Print Assumptions C09_f64_g64_small.

(* zero for identical arguments: the bit pattern +0.0 (any list of positions read) *)
Theorem C09_f64_derived_zero_on_identical : forall lt et a trav, reads_fin a trav ->
  (1 <= length a)%nat -> (Z.of_nat (length a) <= 2 ^ 53)%Z ->
  l2_dist (f64_ops lt et) a a trav = fzero /\ mean_abs_err (f64_ops lt et) a a trav = fzero /\
  mean_sq_err (f64_ops lt et) a a trav = fzero /\ root_mean_sq_err (f64_ops lt et) a a trav = fzero.
Proof. exact derived_self. Qed.
Print Assumptions C09_f64_derived_zero_on_identical.

(* more generally +0.0 exactly when the exact sum over the positions read is 0 (e.g. -0.0 against
   +0.0): the error bounds above are not needed at S = 0 *)
Theorem C09_f64_l2_zero : forall lt et a b trav, reads_fin a trav -> reads_fin b trav ->
  Rsum (map (fun p => rdiff_at a b p * rdiff_at a b p) trav) = 0 ->
  l2_dist (f64_ops lt et) a b trav = fzero.
Proof. exact l2_dist_zero. Qed.
Print Assumptions C09_f64_l2_zero.

Theorem C09_f64_root_mean_sq_err_zero : forall lt et a b trav, reads_fin a trav -> reads_fin b trav ->
  (1 <= length a)%nat -> (Z.of_nat (length a) <= 2 ^ 53)%Z ->
  Rsum (map (fun p => rdiff_at a b p * rdiff_at a b p) trav) = 0 ->
  root_mean_sq_err (f64_ops lt et) a b trav = fzero.
Proof. exact root_mean_sq_err_zero. Qed.
Print Assumptions C09_f64_root_mean_sq_err_zero.

Theorem C09_f64_mean_abs_err_zero : forall lt et a b trav, reads_fin a trav -> reads_fin b trav ->
  (1 <= length a)%nat -> (Z.of_nat (length a) <= 2 ^ 53)%Z ->
  Rsum (map (fun p => Rabs (rdiff_at a b p)) trav) = 0 ->
  mean_abs_err (f64_ops lt et) a b trav = fzero.
Proof. exact mean_abs_err_zero. Qed.
Print Assumptions C09_f64_mean_abs_err_zero.

(* symmetric, bit for bit (overflow and NaN included), for the same traversal *)
Theorem C09_f64_derived_symmetric : forall lt et a b trav,
  reads_fin a trav -> reads_fin b trav -> length a = length b ->
  l2_dist (f64_ops lt et) a b trav = l2_dist (f64_ops lt et) b a trav /\
  mean_abs_err (f64_ops lt et) a b trav = mean_abs_err (f64_ops lt et) b a trav /\
  mean_sq_err (f64_ops lt et) a b trav = mean_sq_err (f64_ops lt et) b a trav /\
  root_mean_sq_err (f64_ops lt et) a b trav = root_mean_sq_err (f64_ops lt et) b a trav.
Proof. exact derived_sym. Qed.
Print Assumptions C09_f64_derived_symmetric.

Theorem C09_f64_psnr_symmetric : forall lt et flog10 a b trav maxv,
  reads_fin a trav -> reads_fin b trav -> length a = length b ->
  psnr (f64_ops lt et) flog10 a b trav maxv = psnr (f64_ops lt et) flog10 b a trav maxv.
Proof. exact psnr_sym. Qed.
Print Assumptions C09_f64_psnr_symmetric.

(* non-negative (B2R of a non-finite value is 0: no finiteness hypothesis needed) *)
Theorem C09_f64_derived_nonneg : forall lt et a b trav,
  (1 <= length a)%nat -> (Z.of_nat (length a) <= 2 ^ 53)%Z ->
  0 <= B2R (l2_dist (f64_ops lt et) a b trav) /\ 0 <= B2R (mean_abs_err (f64_ops lt et) a b trav) /\
  0 <= B2R (mean_sq_err (f64_ops lt et) a b trav) /\ 0 <= B2R (root_mean_sq_err (f64_ops lt et) a b trav).
Proof. exact derived_nonneg. Qed.
Print Assumptions C09_f64_derived_nonneg.

(* PSNR: absolute error in dB.  MSE = SSE / n exact; dm bounds the relative error of the
   computed mean squared error; D = (10 / ln 10) (4 u64 + 2 dm) is the effect of the three
   relative perturbations inside the logarithm (10 / ln 10 < 5 by ln10_gt_2) *)
Theorem C09_f64_psnr_error : forall lt et (flog10 : F64 -> F64) (elog : R),
  0 <= elog -> log10_accurate flog10 elog ->
  forall a b trav maxv n, n = length a -> is_traversal trav n ->
  (1 <= n)%nat -> (Z.of_nat n <= 2 ^ 53)%Z ->
  fis_finite (psnr (f64_ops lt et) flog10 a b trav maxv) = true ->
  let MSE := SSE a b / INR n in
  let dm := g64 (n + 3) + (2 + g64 (n + 1)) * eta64 / MSE in
  0 < SSE a b -> dm <= / 2 ->
  bpow radix2 (-1021) <= B2R (fmul maxv maxv) ->
  bpow radix2 (-1021) <= B2R (fdiv (fmul maxv maxv) (mean_sq_err (f64_ops lt et) a b trav)) ->
  let P := 10 * (ln (B2R maxv * B2R maxv / MSE) / ln 10) in
  let D := 10 / ln 10 * (4 * u64 + 2 * dm) in
  Rabs (B2R (psnr (f64_ops lt et) flog10 a b trav maxv) - P)
    <= ((1 + elog) * (1 + u64) - 1) * (Rabs P + D) + D + eta64.
Proof. exact psnr_error. Qed.
Print Assumptions C09_f64_psnr_error.

(* the same for any exact reference MSE > 0 and any proved relative accuracy dm <= 1/2 of the
   computed mean squared error *)
Theorem C09_f64_psnr_error_gen : forall lt et (flog10 : F64 -> F64) (elog : R),
  0 <= elog -> log10_accurate flog10 elog ->
  forall a b trav maxv (MSE dm : R),
  fis_finite (psnr (f64_ops lt et) flog10 a b trav maxv) = true ->
  0 < MSE -> 0 <= dm <= / 2 ->
  Rabs (B2R (mean_sq_err (f64_ops lt et) a b trav) - MSE) <= dm * MSE ->
  bpow radix2 (-1021) <= B2R (fmul maxv maxv) ->
  bpow radix2 (-1021) <= B2R (fdiv (fmul maxv maxv) (mean_sq_err (f64_ops lt et) a b trav)) ->
  let P := 10 * (ln (B2R maxv * B2R maxv / MSE) / ln 10) in
  let D := 10 / ln 10 * (4 * u64 + 2 * dm) in
  Rabs (B2R (psnr (f64_ops lt et) flog10 a b trav maxv) - P)
    <= ((1 + elog) * (1 + u64) - 1) * (Rabs P + D) + D + eta64.
Proof. exact psnr_error_gen. Qed.
Print Assumptions C09_f64_psnr_error_gen.

(* the exact references of the bounds are the same definitions at the real instance R_ops *)
Theorem C09_f64_derived_R_reference : forall a b trav, is_traversal trav (length a) ->
  l2_dist R_ops (map B2R a) (map B2R b) trav = sqrt (SSE a b) /\
  mean_abs_err R_ops (map B2R a) (map B2R b) trav = SAE a b / INR (length a) /\
  mean_sq_err R_ops (map B2R a) (map B2R b) trav = SSE a b / INR (length a) /\
  root_mean_sq_err R_ops (map B2R a) (map B2R b) trav = sqrt (SSE a b / INR (length a)).
Proof. exact derived_R. Qed.
Print Assumptions C09_f64_derived_R_reference.

(* first-order forms: g64 k <= 2 k u64 as long as k u64 <= 1/2 *)
Theorem C09_f64_mean_abs_err_error_lin : forall lt et a b trav n, n = length a -> is_traversal trav n ->
  (1 <= n)%nat -> INR (n + 1) * u64 <= / 2 ->
  fis_finite (mean_abs_err (f64_ops lt et) a b trav) = true ->
  Rabs (B2R (mean_abs_err (f64_ops lt et) a b trav) - SAE a b / INR n)
    <= 2 * (INR (n + 1) * u64) * (SAE a b / INR n) + eta64.
Proof. exact mean_abs_err_error_lin. Qed.
Print Assumptions C09_f64_mean_abs_err_error_lin.

Theorem C09_f64_mean_sq_err_error_lin : forall lt et a b trav n, n = length a -> is_traversal trav n ->
  (1 <= n)%nat -> INR (n + 3) * u64 <= / 2 ->
  fis_finite (mean_sq_err (f64_ops lt et) a b trav) = true ->
  Rabs (B2R (mean_sq_err (f64_ops lt et) a b trav) - SSE a b / INR n)
    <= 2 * (INR (n + 3) * u64) * (SSE a b / INR n) + 3 * eta64.
Proof. exact mean_sq_err_error_lin. Qed.
Print Assumptions C09_f64_mean_sq_err_error_lin.

(* REFUTED: the bounds without the underflow (eta64) terms.  For a = [2^-540], b = [0] the square
   underflows: l2_dist, mean_sq_err and root_mean_sq_err are +0 although SSE = 2^-1080 > 0, so no
   purely relative bound with constant c < 1 holds *)
Theorem C09_f64_relative_bound_refuted :
  l2_dist OX cx_a cx_b [0%nat] = fzero /\ mean_sq_err OX cx_a cx_b [0%nat] = fzero /\
  root_mean_sq_err OX cx_a cx_b [0%nat] = fzero /\ 0 < SSE cx_a cx_b /\
  forall c, c < 1 -> ~ Rabs (B2R (l2_dist OX cx_a cx_b [0%nat]) - sqrt (SSE cx_a cx_b)) <= c * sqrt (SSE cx_a cx_b).
Proof. exact derived_relative_bound_refuted. Qed.
Print Assumptions C09_f64_relative_bound_refuted.
