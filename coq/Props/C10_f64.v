(* C10 (binary64): entropy, cross-entropy and KL divergence of Num/Kernels.v instantiated at
   Num/F64Inst.v are within an explicit bound of their definitions, GIVEN an accuracy bound
   eln on the recorded ln table (a premise of each theorem, not an axiom): every entry of the
   table with a finite positive argument and a finite result has relative error <= eln.
   A term whose p_i is zero is the bit pattern +0.  (Num/MeansF64.v) *)
From Coq Require Import Reals List Arith ZArith Lia Permutation.
Import ListNotations.
From Flocq Require Import Core BinarySingleNaN.
From NS Require Import Num.Ops Num.Kernels Num.F64 Num.F64Inst Num.SumF64 Num.MeansF64.
Local Open Scope R_scope.

Definition ln_table_accurate (lt et : list (Z * Z)) (eln : R) : Prop :=
  forall x : F64, fin x = true -> 0 < B2R x ->
    tab_lookup lt (bits_of_f64 x) <> None -> fin (o_ln (f64_ops lt et) x) = true ->
    Rabs (B2R (o_ln (f64_ops lt et) x) - ln (B2R x)) <= eln * Rabs (ln (B2R x)).

Theorem C10_entropy_error_f64 : forall lt et eln, 0 <= eln -> ln_table_accurate lt et eln ->
  forall pl (data : list F64) n,
  SumF64.plan_ok pl n -> n = length data ->
  Forall (fun x => 0 <= B2R x) data ->
  fin (entropy (f64_ops lt et) pl data) = true ->
  Rabs (B2R (entropy (f64_ops lt et) pl data)
        - (- Rsum (map (fun x : F64 => if Req_EM_T (B2R x) 0 then 0 else B2R x * ln (B2R x)) data)))
    <= ((1 + eln) * (1 + u64) * (1 + g64 (n + 13)) - 1)
         * Rasum (map (fun x : F64 => if Req_EM_T (B2R x) 0 then 0 else B2R x * ln (B2R x)) data)
       + INR n * (1 + g64 (n + 13)) * eta64.
Proof. exact entropy_error. Qed.
Print Assumptions C10_entropy_error_f64.

(* a zero probability contributes exactly +0 (independently of the ln table) *)
Theorem C10_zero_term_f64 : forall lt et (x : F64), fin x = true -> B2R x = 0 ->
  (if o_is_zero (f64_ops lt et) x then o_zero (f64_ops lt et)
   else o_mul (f64_ops lt et) x (o_ln (f64_ops lt et) x)) = fzero.
Proof. intros lt et x Fx Zx. exact (proj1 (entropy_zero_term lt et x Fx Zx)). Qed.
Print Assumptions C10_zero_term_f64.

Theorem C10_cross_entropy_error_f64 : forall lt et eln, 0 <= eln -> ln_table_accurate lt et eln ->
  forall (p q : list F64) n,
  n = length p -> length p = length q ->
  Forall (fun pq => 0 <= B2R (fst pq) /\ (B2R (fst pq) <> 0 -> 0 < B2R (snd pq))) (combine p q) ->
  fin (cross_entropy (f64_ops lt et) p q) = true ->
  Rabs (B2R (cross_entropy (f64_ops lt et) p q)
        - (- Rsum (map (fun pq : F64 * F64 =>
                          if Req_EM_T (B2R (fst pq)) 0 then 0 else B2R (fst pq) * ln (B2R (snd pq)))
                       (combine p q))))
    <= ((1 + eln) * (1 + u64) * (1 + g64 (n + 13)) - 1)
         * Rasum (map (fun pq : F64 * F64 =>
                         if Req_EM_T (B2R (fst pq)) 0 then 0 else B2R (fst pq) * ln (B2R (snd pq)))
                      (combine p q))
       + INR n * (1 + g64 (n + 13)) * eta64.
Proof. exact cross_entropy_error. Qed.
Print Assumptions C10_cross_entropy_error_f64.

(* KL: the quotient q_i / p_i is rounded before the logarithm, which adds an absolute error
   2 u64 p_i to the i-th term; the quotient must be in the normal range *)
Theorem C10_kl_error_f64 : forall lt et eln, 0 <= eln -> ln_table_accurate lt et eln ->
  forall (p q : list F64) n,
  n = length p -> length p = length q ->
  Forall (fun pq => 0 <= B2R (fst pq) /\
                    (B2R (fst pq) <> 0 -> 0 < B2R (snd pq) /\
                       bpow radix2 (-1022) <= B2R (snd pq) / B2R (fst pq) <= bpow radix2 1023))
         (combine p q) ->
  fin (kl_divergence (f64_ops lt et) p q) = true ->
  Rabs (B2R (kl_divergence (f64_ops lt et) p q)
        - (- Rsum (map (fun pq : F64 * F64 =>
                          if Req_EM_T (B2R (fst pq)) 0 then 0
                          else B2R (fst pq) * ln (B2R (snd pq) / B2R (fst pq)))
                       (combine p q))))
    <= ((1 + eln) * (1 + u64) * (1 + g64 (n + 13)) - 1)
         * Rasum (map (fun pq : F64 * F64 =>
                         if Req_EM_T (B2R (fst pq)) 0 then 0
                         else B2R (fst pq) * ln (B2R (snd pq) / B2R (fst pq)))
                      (combine p q))
       + (1 + g64 (n + 13))
         * ((1 + eln) * (1 + u64) * (2 * u64) * Rsum (map (fun pq : F64 * F64 => B2R (fst pq)) (combine p q))
            + INR n * eta64).
Proof. exact kl_divergence_error. Qed.
Print Assumptions C10_kl_error_f64.
