(* C08 (binary64): forward error of one entry of the covariance matrix (correlation.rs: cov) for
   EVERY evaluation order of the row sums (ndarray mean_axis) and of the matrix product
   (matrixmultiply: any blocking), with or without fused multiply-add.  Proofs: Num/CovF64.v.

   u64 = 2^-53, eta64 = 2^-1075, g64 k = (1 + u64)^k - 1 (Num/SumF64.v).
   ffma a b c          Flocq's Bfma: ONE rounding of a*b + c.
   dot_eval l v h      v is the value of some binary tree of height <= h over the terms a_k*b_k of l,
                       in any order, accumulators may start at +0, every product either rounded on its
                       own (fmul) or fused into the addition that consumes it (ffma).
   sum_eval xs v h     v is the value of some summation tree of height <= h over xs (and zeros).
   meanR x             exact mean;  dev x m = [fsub x_k m]  (one rounding each);
   cxy x y             sum_k (x_k - meanR x)(y_k - meanR y)      (exact means)
   axy x y             sum_k |x_k - meanR x||y_k - meanR y|,  adev x = sum_k |x_k - meanR x|
   cov_bound           see C08_cov_bound_explicit below.
   The first-order effect of the errors of the means cancels in the exact sum (sum_k (x_k - mean) = 0):
   they enter only through  n em_i em_j  and, multiplied by g64(h+5), through the rounding errors. *)
From Coq Require Import Reals List Arith ZArith Lia Permutation.
Import ListNotations.
From Flocq Require Import Core BinarySingleNaN.
From NS Require Import Num.Ops Num.F64 Num.F64Inst Num.Cov Num.SumF64 Num.CovF64.
Local Open Scope R_scope.

(* the fused step: real-number semantics, and finiteness of the result forces finite operands *)
Theorem C08_ffma_value : forall a b c : F64, fin (ffma a b c) = true ->
  B2R (ffma a b c)
  = round radix2 (SpecFloat.fexp 53 1024) ZnearestE (B2R a * B2R b + B2R c)
  /\ fin a = true /\ fin b = true /\ fin c = true.
Proof. intros a b c H. split; [exact (ffma_value a b c H)|exact (ffma_finite_args a b c H)]. Qed.
Print Assumptions C08_ffma_value.

(* 1. every evaluation of a dot product, fused or not *)
Theorem C08_dot_eval_error_f64 : forall (l : list (F64 * F64)) (v : F64) (h : nat),
  dot_eval l v h -> fin v = true ->
  Rabs (B2R v - Rsum (map (fun ab => B2R (fst ab) * B2R (snd ab)) l))
    <= g64 (h + 1) * Rasum (map (fun ab => B2R (fst ab) * B2R (snd ab)) l)
       + INR (length l) * (1 + g64 h) * eta64.
Proof. exact dot_eval_error. Qed.
Print Assumptions C08_dot_eval_error_f64.

(* instances of dot_eval: any summation tree over individually rounded products (no FMA) ... *)
Theorem C08_dot_eval_unfused : forall (l : list (F64 * F64)) (v : F64) (k h : nat),
  sum_tree_for v (map (fun ab => fmul (fst ab) (snd ab)) l) k h -> dot_eval l v h.
Proof. exact sum_tree_dot_eval. Qed.
Print Assumptions C08_dot_eval_unfused.

(* ... and the fused accumulation acc = fma(a_k, b_k, acc) from +0 *)
Theorem C08_dot_eval_fused_chain : forall l : list (F64 * F64),
  dot_eval l (fold_left (fun acc ab => ffma (fst ab) (snd ab) acc) l fzero) (length l).
Proof. exact fma_dot_eval. Qed.
Print Assumptions C08_dot_eval_fused_chain.

(* the bound, spelled out *)
Theorem C08_cov_bound_explicit : forall (h n : nat) (ei ej : R) (x y : list F64) (D : R),
  cov_bound h n ei ej x y D
  = (g64 (h + 5) * (axy x y + ej * adev x + ei * adev y + INR n * ei * ej)
     + (1 + g64 2) * (INR n * ei * ej + INR n * (1 + g64 h) * eta64)) / Rabs D + eta64.
Proof. reflexivity. Qed.
Print Assumptions C08_cov_bound_explicit.

(* 2. one entry: arbitrary approximate means mi, mj (errors em_i, em_j), any dot evaluation *)
Theorem C08_cov_entry_error_f64 : forall (xi xj : list F64) (mi mj ddof v : F64) (h n : nat) (emi emj : R),
  length xi = n -> length xj = n -> (1 <= n)%nat -> (Z.of_nat n <= 2 ^ 53)%Z ->
  Rabs (B2R mi - meanR xi) <= emi -> Rabs (B2R mj - meanR xj) <= emj ->
  dot_eval (combine (dev xi mi) (dev xj mj)) v h ->
  INR n - B2R ddof <> 0 ->
  fin ddof = true ->
  fin (fdiv v (fsub (f64_of_Z (Z.of_nat n)) ddof)) = true ->
  Rabs (B2R (fdiv v (fsub (f64_of_Z (Z.of_nat n)) ddof)) - cxy xi xj / (INR n - B2R ddof))
    <= cov_bound h n emi emj xi xj (INR n - B2R ddof).
Proof. exact cov_entry_error_f64. Qed.
Print Assumptions C08_cov_entry_error_f64.

(* the mean computed by any summation tree of height <= hm, then one division *)
Theorem C08_mean_tree_error_f64 : forall (x : list F64) (s : F64) (hm n : nat),
  sum_eval x s hm -> length x = n -> (1 <= n)%nat -> (Z.of_nat n <= 2 ^ 53)%Z ->
  fin (fdiv s (f64_of_Z (Z.of_nat n))) = true ->
  Rabs (B2R (fdiv s (f64_of_Z (Z.of_nat n))) - meanR x)
    <= g64 (hm + 1) * Rasum (map B2R x) / INR n + eta64.
Proof. exact mean_tree_error. Qed.
Print Assumptions C08_mean_tree_error_f64.

(* one entry with the means computed by arbitrary summation trees *)
Theorem C08_cov_entry_error_means_f64 : forall (xi xj : list F64) (si sj ddof v : F64) (h hm n : nat),
  length xi = n -> length xj = n -> (1 <= n)%nat -> (Z.of_nat n <= 2 ^ 53)%Z ->
  sum_eval xi si hm -> sum_eval xj sj hm ->
  let nf := f64_of_Z (Z.of_nat n) in
  dot_eval (combine (dev xi (fdiv si nf)) (dev xj (fdiv sj nf))) v h ->
  INR n - B2R ddof <> 0 ->
  fin ddof = true ->
  fin (fdiv v (fsub nf ddof)) = true ->
  Rabs (B2R (fdiv v (fsub nf ddof)) - cxy xi xj / (INR n - B2R ddof))
    <= cov_bound h n (g64 (hm + 1) * Rasum (map B2R xi) / INR n + eta64)
                     (g64 (hm + 1) * Rasum (map B2R xj) / INR n + eta64) xi xj (INR n - B2R ddof).
Proof. exact cov_entry_error_f64_means. Qed.
Print Assumptions C08_cov_entry_error_means_f64.

(* 3. entries (i,j) and (j,i), each by ANY evaluation: both within the bound, hence 2 B apart *)
Theorem C08_cov_symmetric_error_f64 :
  forall (xi xj : list F64) (mi mj ddof vij vji : F64) (h n : nat) (emi emj : R),
  length xi = n -> length xj = n -> (1 <= n)%nat -> (Z.of_nat n <= 2 ^ 53)%Z ->
  Rabs (B2R mi - meanR xi) <= emi -> Rabs (B2R mj - meanR xj) <= emj ->
  dot_eval (combine (dev xi mi) (dev xj mj)) vij h ->
  dot_eval (combine (dev xj mj) (dev xi mi)) vji h ->
  INR n - B2R ddof <> 0 ->
  let Df := fsub (f64_of_Z (Z.of_nat n)) ddof in
  fin ddof = true -> fin (fdiv vij Df) = true -> fin (fdiv vji Df) = true ->
  let B := cov_bound h n emi emj xi xj (INR n - B2R ddof) in
  Rabs (B2R (fdiv vij Df) - cxy xi xj / (INR n - B2R ddof)) <= B /\
  Rabs (B2R (fdiv vji Df) - cxy xi xj / (INR n - B2R ddof)) <= B /\
  Rabs (B2R (fdiv vij Df) - B2R (fdiv vji Df)) <= 2 * B.
Proof. exact cov_f64_symmetric_error. Qed.
Print Assumptions C08_cov_symmetric_error_f64.

(* sums and fused sums of non-negative terms are non-negative; so is a diagonal entry *)
Theorem C08_dot_eval_nonneg : forall (l : list (F64 * F64)) (v : F64) (h : nat),
  dot_eval l v h -> Forall (fun ab => 0 <= B2R (fst ab) * B2R (snd ab)) l -> fin v = true -> 0 <= B2R v.
Proof. exact dot_eval_nonneg. Qed.
Print Assumptions C08_dot_eval_nonneg.

Theorem C08_cov_diag_nonneg_f64 : forall (x : list F64) (m ddof v : F64) (h n : nat),
  (Z.of_nat n <= 2 ^ 53)%Z ->
  dot_eval (combine (dev x m) (dev x m)) v h ->
  0 < INR n - B2R ddof ->
  fin ddof = true ->
  fin (fdiv v (fsub (f64_of_Z (Z.of_nat n)) ddof)) = true ->
  0 <= B2R (fdiv v (fsub (f64_of_Z (Z.of_nat n)) ddof)).
Proof. exact cov_f64_diag_nonneg. Qed.
Print Assumptions C08_cov_diag_nonneg_f64.

(* 4. the executable model Num/Cov.v at the binary64 operations, for any summation oracle whose
      results are summation trees of height <= hf (length): an instance of the above (no FMA) *)
Theorem C08_cov_model_entry_error_f64 :
  forall (lt et : list (Z * Z)) (sum_o : list F64 -> F64) (hf : nat -> nat),
  (forall l, exists k, sum_tree_for (sum_o l) l k (hf (length l))) ->
  forall (rows : list (list F64)) (ddof : F64) (n i j : nat),
  Forall (fun r => length r = n) rows -> (i < length rows)%nat -> (j < length rows)%nat ->
  (1 <= n)%nat -> (Z.of_nat n <= 2 ^ 53)%Z ->
  let xi := nth i rows [] in let xj := nth j rows [] in
  let c := nth j (nth i (cov (f64_ops lt et) sum_o rows ddof) []) fzero in
  INR n - B2R ddof <> 0 ->
  fin ddof = true ->
  fin c = true ->
  Rabs (B2R c - cxy xi xj / (INR n - B2R ddof))
    <= cov_bound (hf n) n (g64 (hf n + 1) * Rasum (map B2R xi) / INR n + eta64)
                          (g64 (hf n + 1) * Rasum (map B2R xj) / INR n + eta64)
                 xi xj (INR n - B2R ddof).
Proof. exact cov_model_entry_error. Qed.
Print Assumptions C08_cov_model_entry_error_f64.

Theorem C08_cov_model_diag_nonneg_f64 :
  forall (lt et : list (Z * Z)) (sum_o : list F64 -> F64) (hf : nat -> nat),
  (forall l, exists k, sum_tree_for (sum_o l) l k (hf (length l))) ->
  forall (rows : list (list F64)) (ddof : F64) (n i : nat),
  Forall (fun r => length r = n) rows -> (i < length rows)%nat -> (Z.of_nat n <= 2 ^ 53)%Z ->
  let c := nth i (nth i (cov (f64_ops lt et) sum_o rows ddof) []) fzero in
  0 < INR n - B2R ddof -> fin ddof = true -> fin c = true -> 0 <= B2R c.
Proof. exact cov_model_diag_nonneg. Qed.
Print Assumptions C08_cov_model_diag_nonneg_f64.

(* n - ddof never overflows for a finite ddof *)
Theorem C08_divisor_finite : forall (n : nat) (ddof : F64), (Z.of_nat n <= 2 ^ 53)%Z ->
  fin ddof = true -> fin (fsub (f64_of_Z (Z.of_nat n)) ddof) = true.
Proof. exact divisor_finite. Qed.
Print Assumptions C08_divisor_finite.
