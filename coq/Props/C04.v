(* C04: NaN-stripped views are sound for every stride and element type.
   Model: Mem/RemoveNan.v - the two-pointer compaction of remove_nan_mut on the list read
   from the view, at buffer level (read / compact / write back), the prefix slice and the
   descriptor arithmetic of the unsafe pointer cast (cast_view).  The element type enters
   only through [is_nan], so one theorem covers f32, f64 and the twelve Option<_> types. *)
From Coq Require Import List Arith ZArith Lia Permutation Bool.
Import ListNotations.
From NS Require Import Base.Res Mem.Buffer Mem.BufferProofs Mem.RemoveNan Mem.RemoveNanProofs Mem.RemoveNanBuf.

(* list level: never panics, never runs out of fuel; survivors first, NaNs last; permutation *)
Theorem C04_remove_nan_spec : forall A (is_nan : A -> bool) a, exists i a',
  remove_nan A is_nan a = Ok (i, a') /\ Permutation a a' /\ length a' = length a /\ i <= length a /\
  Forall (fun x => is_nan x = false) (firstn i a') /\ Forall (fun x => is_nan x = true) (skipn i a').
Proof. exact remove_nan_spec. Qed.
Print Assumptions C04_remove_nan_spec.

(* buffer level, for every well-formed view (any length, offset, positive/negative/zero stride):
   the returned view's cells are a prefix of the input view's cells (it aliases only memory of
   the input view), its elements are exactly the non-missing elements as a multiset, none is
   missing, its length is their count; nothing outside the view changes *)
Theorem C04_remove_nan_b_spec : forall A (is_nan : A -> bool) buf v, wf_view buf v ->
  exists l i l' buf' v',
    vread buf (cells v) = Ok l /\ remove_nan A is_nan l = Ok (i, l') /\
    remove_nan_b is_nan buf v = Ok (v', buf') /\ v_len v' = i /\
    i = length (filter (fun x => negb (is_nan x)) l) /\
    cells v' = firstn i (cells v) /\ incl (cells v') (cells v) /\
    length buf' = length buf /\
    (forall o, ~ In o (cells v) -> nth_error buf' o = nth_error buf o) /\
    vread buf' (cells v) = Ok l' /\ vread buf' (cells v') = Ok (firstn i l') /\
    Forall (fun x => is_nan x = false) (firstn i l') /\
    Permutation (firstn i l') (filter (fun x => negb (is_nan x)) l) /\
    Forall (fun x => is_nan x = true) (skipn i l') /\ Permutation l l'.
Proof. intros A is_nan. exact (remove_nan_b_spec is_nan). Qed.
Print Assumptions C04_remove_nan_b_spec.

(* every value later handed out as a 'not-NaN' typed reference really is not NaN / None *)
Theorem C04_not_nan_handed_out : forall A (is_nan : A -> bool) buf v v' buf', wf_view buf v ->
  remove_nan_b is_nan buf v = Ok (v', buf') ->
  forall c, In c (cells v') -> exists x, nth_error buf' c = Some x /\ is_nan x = false.
Proof. intros A is_nan. exact (remove_nan_b_not_nan_handed_out is_nan). Qed.
Print Assumptions C04_not_nan_handed_out.

(* idempotent: stripping the returned prefix again changes nothing and returns the same view *)
Theorem C04_idempotent : forall A (is_nan : A -> bool) buf v v' buf', wf_view buf v ->
  remove_nan_b is_nan buf v = Ok (v', buf') ->
  remove_nan_b is_nan buf' (slice_prefix v (v_len v')) = Ok (v', buf').
Proof. intros A is_nan. exact (remove_nan_b_idem is_nan). Qed.
Print Assumptions C04_idempotent.

(* the pointer cast keeps exactly the cells, in the same logical order, for every stride sign *)
Theorem C04_cast_view_cells : forall v, cells (cast_view v) = cells v.
Proof. exact cast_view_cells. Qed.
Print Assumptions C04_cast_view_cells.

(* an array without missing values is returned unchanged *)
Theorem C04_no_nan_identity : forall A (is_nan : A -> bool) a,
  Forall (fun x => is_nan x = false) a -> remove_nan A is_nan a = Ok (length a, a).
Proof. exact remove_nan_no_nan_id. Qed.
Print Assumptions C04_no_nan_identity.

(* the pinned pre-repair Option<T> path (defect D3) hands out a cell outside the input view *)
Theorem C04_v0_refuted : exists v' buf',
  remove_nan_b_v0 (Z.eqb 0) [1;9;0;9;2]%Z {| v_off := 0; v_len := 3; v_stride := 2 |} = Ok (v', buf') /\
  ~ incl (cells v') (cells {| v_off := 0; v_len := 3; v_stride := 2 |}).
Proof. exact remove_nan_b_v0_wrong. Qed.
Print Assumptions C04_v0_refuted.

(* non-vacuity: forward and reversed stride-2 lanes *)
Example C04_example :
  (exists v' buf', remove_nan_b (Z.eqb 0) [1;9;0;9;2]%Z {| v_off := 0; v_len := 3; v_stride := 2 |} = Ok (v', buf') /\
     cells v' = [0; 2] /\ buf' = [1;9;2;9;0]%Z) /\
  (exists v' buf', remove_nan_b (Z.eqb 0) [1;9;0;9;2]%Z {| v_off := 4; v_len := 3; v_stride := -2 |} = Ok (v', buf') /\
     v_off v' = 4%Z /\ v_stride v' = (-2)%Z /\ v_len v' = 2 /\ cells v' = [4; 2] /\ buf' = [0;9;1;9;2]%Z).
Proof. split; [exact remove_nan_b_fwd_ok | exact remove_nan_b_rev_ok]. Qed.
Print Assumptions C04_example.
