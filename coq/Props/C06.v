(* C06: means and weighted sums agree with exact arithmetic.
   Model: Num/Kernels.v (nd_sum under ndarray's layout-dependent summation plan, mean,
   weighted_sum, weighted_mean, harmonic_mean, geometric_mean).  Three instances:
   - the reals (Num/KernelsR.v): the kernels ARE the textbook definitions, for every plan;
   - the integers (Num/ZInst.v): exact, the division is the type's truncating division;
   - binary64 (Num/SumF64.v): the executable model the implementation is compared with bit for
     bit is within gamma_k * sum|terms| of the exact value (k = n + 13 for sums), for every plan.
   PARTIAL: harmonic and geometric mean are bounded only for their summation stage (libm). *)
From Coq Require Import Reals List Arith ZArith Lia Permutation.
Import ListNotations.
From Flocq Require Import Core BinarySingleNaN.
From NS Require Import Num.Ops Num.Kernels Num.RInst Num.ZInst Num.F64 Num.F64Inst Num.KernelsR Num.SumF64.

(* ---- exact arithmetic: the kernels are the definitions, whatever the summation order ---- *)
Theorem C06_sum_any_order_R : forall pl data, KernelsR.plan_ok pl (length data) ->
  nd_sum R_ops pl data = KernelsR.Rsum data.
Proof. exact nd_sum_R. Qed.
Print Assumptions C06_sum_any_order_R.

Theorem C06_mean_R : forall pl data, KernelsR.plan_ok pl (length data) ->
  mean R_ops pl data = (KernelsR.Rsum data / INR (length data))%R.
Proof. exact mean_R. Qed.
Print Assumptions C06_mean_R.

Theorem C06_weighted_sum_R : forall data ws, length ws = length data ->
  weighted_sum R_ops data ws = KernelsR.Rsum (map (fun dw => (fst dw * snd dw)%R) (combine data ws)).
Proof. exact weighted_sum_R. Qed.
Print Assumptions C06_weighted_sum_R.

Theorem C06_weighted_mean_R : forall plw data ws, length ws = length data -> KernelsR.plan_ok plw (length ws) ->
  weighted_mean R_ops plw data ws
  = (KernelsR.Rsum (map (fun dw => (fst dw * snd dw)%R) (combine data ws)) / KernelsR.Rsum ws)%R.
Proof. exact weighted_mean_R. Qed.
Print Assumptions C06_weighted_mean_R.

Theorem C06_harmonic_mean_R : forall pl data, KernelsR.plan_ok pl (length data) ->
  harmonic_mean R_ops pl data = (1 / (KernelsR.Rsum (map (fun x => 1 / x) data) / INR (length data)))%R.
Proof. exact harmonic_mean_R. Qed.
Print Assumptions C06_harmonic_mean_R.

Theorem C06_geometric_mean_R : forall pl data, KernelsR.plan_ok pl (length data) ->
  geometric_mean R_ops pl data = exp (KernelsR.Rsum (map ln data) / INR (length data)).
Proof. exact geometric_mean_R. Qed.
Print Assumptions C06_geometric_mean_R.

(* ---- binary64: every summation plan is within the tree bound of the exact sum ---- *)
Theorem C06_sum_error_f64 : forall lt et pl data, SumF64.plan_ok pl (length data) ->
  fin (nd_sum (f64_ops lt et) pl data) = true ->
  (Rabs (B2R (nd_sum (f64_ops lt et) pl data) - Rsum (map B2R data))
   <= g64 (length data + 13) * Rasum (map B2R data))%R.
Proof. exact nd_sum_error_tight. Qed.
Print Assumptions C06_sum_error_f64.

Theorem C06_mean_error_f64 : forall lt et pl data n, SumF64.plan_ok pl n -> n = length data ->
  (1 <= n)%nat -> (Z.of_nat n <= 2 ^ 53)%Z -> fin (mean (f64_ops lt et) pl data) = true ->
  (Rabs (B2R (mean (f64_ops lt et) pl data) - Rsum (map B2R data) / INR n)
   <= g64 (n + 14) * Rasum (map B2R data) / INR n + eta64)%R.
Proof. exact mean_error_tight. Qed.
Print Assumptions C06_mean_error_f64.

Theorem C06_weighted_sum_error_f64 : forall lt et data ws, length ws = length data ->
  fin (weighted_sum (f64_ops lt et) data ws) = true ->
  (Rabs (B2R (weighted_sum (f64_ops lt et) data ws)
         - Rsum (map (fun dw => B2R (fst dw) * B2R (snd dw)) (combine data ws)))
   <= g64 (length data + 1) * Rsum (map (fun dw => Rabs (B2R (fst dw) * B2R (snd dw))) (combine data ws))
      + INR (length data) * (1 + g64 (length data)) * eta64)%R.
Proof. exact wsum_error. Qed.
Print Assumptions C06_weighted_sum_error_f64.

(* the 8-way unrolled fold of ndarray's sum, on its own *)
Theorem C06_unrolled_sum_error_f64 : forall lt et xs, fin (unrolled_sum (f64_ops lt et) xs) = true ->
  (Rabs (B2R (unrolled_sum (f64_ops lt et) xs) - Rsum (map B2R xs))
   <= g64 (length xs / 8 + 12) * Rasum (map B2R xs))%R.
Proof. exact unrolled_sum_error_tight. Qed.
Print Assumptions C06_unrolled_sum_error_f64.

(* the constants *)
Theorem C06_constants : u64 = bpow radix2 (-53) /\ eta64 = bpow radix2 (-1075) /\
  forall k, g64 k = ((1 + u64) ^ k - 1)%R.
Proof. repeat split. Qed.
Print Assumptions C06_constants.
