(* C06 (binary64, geometric mean): geometric_mean of Num/Kernels.v, exp(mean(map ln data)), at the
   instance f64_ops lt et whose ln and exp are the oracle tables lt and et (values recorded from
   the implementation's libm), for every summation plan and any length 1 <= n <= 2^53.
   GIVEN accuracy bounds on the two tables (premises, not axioms):
     ln_table_accurate lt et eln   (Props/C10_f64.v): entries with a finite positive argument and a
                                    finite result have relative error <= eln;
     exp_table_accurate lt et eexp (Num/GeomF64.v): entries with a finite argument and a finite
                                    result have relative error <= eexp;
   strictly positive data and finite computed mean-of-logs and result,
     |gm_fl - GM| <= GM (exp(E) (1 + eexp) - 1)   (<= GM (E + eexp)/(1 - E) when E < 1)
   where GM = exp((1/n) sum ln x_i) and
     E = ((1 + eln)(1 + g64(n+14)) - 1) (1/n) sum |ln x_i| + eta64
   bounds the absolute error of the mean-of-logs stage (C06_log_mean_error_f64).
   Over the reals GM is the positive n-th root of the product (GM^n = prod x_i, no Rpower) and
   min x_i <= GM <= max x_i.
   Num/OracleExamplesF64.v (ex_gm_error) instantiates the theorem on geometric_mean [2; 4; 8] with
   tables holding libm's values, the two premises being proved by interval arithmetic. *)
From Coq Require Import Reals RList List Arith ZArith Lia Permutation.
Import ListNotations.
From Flocq Require Import Core BinarySingleNaN.
From NS Require Import Num.Ops Num.Kernels Num.RInst Num.F64 Num.F64Inst Num.SumF64 Num.MeansF64 Num.GeomF64
  Props.C10_f64.
Local Open Scope R_scope.

(* the mean-of-logs stage: absolute error E *)
Theorem C06_log_mean_error_f64 : forall lt et eln, ln_table_accurate lt et eln ->
  forall pl (data : list F64) n,
  SumF64.plan_ok pl n -> n = length data -> (1 <= n)%nat -> (Z.of_nat n <= 2 ^ 53)%Z ->
  Forall (fun x => 0 < B2R x) data ->
  fin (mean (f64_ops lt et) (plan_of_map pl (length data)) (map (o_ln (f64_ops lt et)) data)) = true ->
  Rabs (B2R (mean (f64_ops lt et) (plan_of_map pl (length data)) (map (o_ln (f64_ops lt et)) data))
        - Rsum (map (fun x => ln (B2R x)) data) / INR (length data))
    <= ((1 + eln) * (1 + g64 (length data + 14)) - 1)
         * (Rsum (map (fun x => Rabs (ln (B2R x))) data) / INR (length data)) + eta64.
Proof. exact log_mean_error. Qed.
Print Assumptions C06_log_mean_error_f64.

Theorem C06_geometric_mean_error_f64 : forall lt et eln eexp, 0 <= eexp ->
  ln_table_accurate lt et eln -> exp_table_accurate lt et eexp ->
  forall pl (data : list F64) n,
  SumF64.plan_ok pl n -> n = length data -> (1 <= n)%nat -> (Z.of_nat n <= 2 ^ 53)%Z ->
  Forall (fun x => 0 < B2R x) data ->
  fin (mean (f64_ops lt et) (plan_of_map pl (length data)) (map (o_ln (f64_ops lt et)) data)) = true ->
  fin (geometric_mean (f64_ops lt et) pl data) = true ->
  let E := ((1 + eln) * (1 + g64 (length data + 14)) - 1)
             * (Rsum (map (fun x => Rabs (ln (B2R x))) data) / INR (length data)) + eta64 in
  let GMx := exp (Rsum (map ln (map B2R data)) / INR (length (map B2R data))) in
  Rabs (B2R (geometric_mean (f64_ops lt et) pl data) - GMx) <= GMx * (exp E * (1 + eexp) - 1).
Proof. exact geometric_mean_error. Qed.
Print Assumptions C06_geometric_mean_error_f64.

(* first-order form *)
Theorem C06_geometric_mean_error_lin_f64 : forall lt et eln eexp, 0 <= eexp ->
  ln_table_accurate lt et eln -> exp_table_accurate lt et eexp ->
  forall pl (data : list F64) n,
  SumF64.plan_ok pl n -> n = length data -> (1 <= n)%nat -> (Z.of_nat n <= 2 ^ 53)%Z ->
  Forall (fun x => 0 < B2R x) data ->
  fin (mean (f64_ops lt et) (plan_of_map pl (length data)) (map (o_ln (f64_ops lt et)) data)) = true ->
  fin (geometric_mean (f64_ops lt et) pl data) = true ->
  let E := ((1 + eln) * (1 + g64 (length data + 14)) - 1)
             * (Rsum (map (fun x => Rabs (ln (B2R x))) data) / INR (length data)) + eta64 in
  E < 1 ->
  Rabs (B2R (geometric_mean (f64_ops lt et) pl data) - GM (map B2R data))
    <= GM (map B2R data) * ((E + eexp) / (1 - E)).
Proof. exact geometric_mean_error_lin. Qed.
Print Assumptions C06_geometric_mean_error_lin_f64.

(* GM over the reals: exp of the mean of logs is the positive n-th root of the product ... *)
Theorem C06_GM_is_root_of_product : forall xs : list R, xs <> [] -> Forall (fun x => 0 < x) xs ->
  0 < exp (Rsum (map ln xs) / INR (length xs)) /\
  exp (Rsum (map ln xs) / INR (length xs)) ^ length xs = fold_right Rmult 1 xs.
Proof. exact GM_pow. Qed.
Print Assumptions C06_GM_is_root_of_product.

(* ... and lies between the smallest and the largest element *)
Theorem C06_GM_min_max : forall xs : list R, xs <> [] -> Forall (fun x => 0 < x) xs ->
  MinRlist xs <= exp (Rsum (map ln xs) / INR (length xs)) <= MaxRlist xs.
Proof. exact GM_min_max. Qed.
Print Assumptions C06_GM_min_max.

Theorem C06_GM_between : forall (xs : list R) lo hi, xs <> [] -> 0 < lo ->
  Forall (fun x => lo <= x <= hi) xs -> lo <= exp (Rsum (map ln xs) / INR (length xs)) <= hi.
Proof. exact GM_between. Qed.
Print Assumptions C06_GM_between.

(* GM is the same kernel at the real instance, for every plan *)
Theorem C06_GM_is_kernel_R : forall pl (xs : list R), SumF64.plan_ok pl (length xs) ->
  geometric_mean R_ops pl xs = exp (Rsum (map ln xs) / INR (length xs)).
Proof. exact geometric_mean_R_GM. Qed.
Print Assumptions C06_GM_is_kernel_R.
