(* C01: quantiles equal the documented order statistic of every lane.
   Models: Quantile/Index.v (the binary64 index q*(N-1), floor, ceil, fraction),
   Quantile/Interp.v (the five strategies over bounded integers and N64), Quantile/Lane.v
   (per lane: bulk quickselect of the needed indexes under an arbitrary pivot oracle, then one
   value per requested q) and Quantile/Spec.v (the specification: fully sort the lane, take
   the elements at floor((N-1)q) and ceil((N-1)q), apply the strategy). *)
From Coq Require Import List Arith ZArith Lia Permutation Bool Reals Sorting.Sorted.
Import ListNotations.
From Flocq Require Import Core BinarySingleNaN.
From NS Require Import Base.Order Base.Res Sort.Rank Num.F64 Quantile.Index Quantile.IndexProofs
  Quantile.Interp Quantile.Lane Quantile.Spec Quantile.LaneProofs Quantile.Laws.

Notation B2R := (@BinarySingleNaN.B2R 53 1024).
Local Open Scope nat_scope.

(* what is assumed of a lane: a total order that is antisymmetric on the lane's elements
   (true of the integer types; for N64 it only excludes a lane holding both +0 and -0), in-range
   indexes (discharged by C01_index_in_range below for every valid q and N <= 2^53) *)
Record lane_ok {A} (C : carrier A) (s : strategy) (lane srt : list A) (qs : list F64) (ds : list nat) : Prop := {
  lo_total : total (c_leb C);
  lo_trans : transitive (c_leb C);
  lo_len : 1 <= length lane;
  lo_idx : forall q, In q qs -> exists lo hi, lower_index q (length lane) = Some lo /\
             higher_index q (length lane) = Some hi /\ lo < length lane /\ hi < length lane;
  lo_searched : searched s qs (length lane) = Ok ds;
  lo_perm : Permutation lane srt;
  lo_sorted : sorted A (c_leb C) srt;
  lo_anti : forall x y, In x lane -> In y lane -> c_leb C x y = true -> c_leb C y x = true -> x = y }.

(* the index arithmetic in binary64: for every valid q and 1 <= N <= 2^53 *)
Theorem C01_index : forall (q : F64) (n : nat),
  fis_finite q = true -> (0 <= B2R q <= 1)%R -> (1 <= n)%nat -> (Z.of_nat n <= 2 ^ 53)%Z ->
  exists lo hi : nat,
    lower_index q n = Some lo /\ higher_index q n = Some hi /\
    Z.of_nat lo = Zfloor (B2R (fidx q n)) /\ Z.of_nat hi = Zceil (B2R (fidx q n)) /\
    (lo <= hi)%nat /\ (hi <= n - 1)%nat /\ (hi - lo <= 1)%nat /\
    B2R (qfrac q n) = (B2R (fidx q n) - IZR (Z.of_nat lo))%R /\
    (0 <= B2R (qfrac q n) < 1)%R /\
    (lo = hi <-> B2R (qfrac q n) = 0%R).
Proof. exact index_spec. Qed.
Print Assumptions C01_index.

Theorem C01_fidx : forall (q : F64) (n : nat),
  fis_finite q = true -> (0 <= B2R q <= 1)%R -> (1 <= n)%nat -> (Z.of_nat n <= 2 ^ 53)%Z ->
  fis_finite (fidx q n) = true /\
  B2R (fidx q n) = round radix2 (SpecFloat.fexp 53 1024) ZnearestE (B2R q * IZR (Z.of_nat n - 1)) /\
  (0 <= B2R (fidx q n) <= IZR (Z.of_nat n - 1))%R.
Proof. exact fidx_range. Qed.
Print Assumptions C01_fidx.

Theorem C01_valid_q : forall q : F64, valid_q q = true <-> (fis_finite q = true /\ (0 <= B2R q <= 1)%R).
Proof. exact valid_q_spec. Qed.
Print Assumptions C01_valid_q.

(* hence the in-range hypothesis of lane_ok holds for every valid q *)
Theorem C01_index_in_range : forall (q : F64) (n : nat),
  valid_q q = true -> (1 <= n)%nat -> (Z.of_nat n <= 2 ^ 53)%Z ->
  exists lo hi, lower_index q n = Some lo /\ higher_index q n = Some hi /\ lo < n /\ hi < n.
Proof.
  intros q n Hv Hn1 Hn. apply valid_q_spec in Hv. destruct Hv as [Hf Hr].
  destruct (index_spec q n Hf Hr Hn1 Hn) as (lo & hi & H1 & H2 & _ & _ & H5 & H6 & _).
  exists lo, hi. repeat split; auto; lia.
Qed.
Print Assumptions C01_index_in_range.

(* the lane kernel returns EXACTLY the values of the sort-based specification, for every
   pivot oracle, every pivot counter and every sufficient fuel; the lane is only permuted *)
Theorem C01_lane_spec : forall A (C : carrier A) s lane srt qs ds, lane_ok C s lane srt qs ds ->
  forall fuel pick c, length lane <= fuel ->
  (forall vals, qspecs C s srt qs = Ok vals ->
     exists lane' c', quantiles_lane C s fuel pick c qs ds lane = Ok (vals, lane', c') /\ Permutation lane lane') /\
  (qspecs C s srt qs = Panic -> quantiles_lane C s fuel pick c qs ds lane = Panic).
Proof.
  intros A C s lane srt qs ds [H1 H2 H3 H4 H5 H6 H7 H8].
  exact (quantiles_lane_spec C s H1 H2 lane srt qs ds H3 H4 H5 H6 H7 H8).
Qed.
Print Assumptions C01_lane_spec.

Theorem C01_lane_values : forall A (C : carrier A) s lane srt qs ds, lane_ok C s lane srt qs ds ->
  forall fuel pick c, length lane <= fuel ->
  lane_vals (quantiles_lane C s fuel pick c qs ds lane) = qspecs C s srt qs.
Proof.
  intros A C s lane srt qs ds [H1 H2 H3 H4 H5 H6 H7 H8].
  exact (quantiles_lane_vals C s H1 H2 lane srt qs ds H3 H4 H5 H6 H7 H8).
Qed.
Print Assumptions C01_lane_values.

(* identical on every call whatever pivots the randomized selection draws *)
Theorem C01_deterministic : forall A (C : carrier A) s lane srt qs ds, lane_ok C s lane srt qs ds ->
  forall fuel1 pick1 c1 fuel2 pick2 c2, length lane <= fuel1 -> length lane <= fuel2 ->
  lane_vals (quantiles_lane C s fuel1 pick1 c1 qs ds lane) = lane_vals (quantiles_lane C s fuel2 pick2 c2 qs ds lane).
Proof.
  intros A C s lane srt qs ds [H1 H2 H3 H4 H5 H6 H7 H8] fuel1 pick1 c1 fuel2 pick2 c2 Hf1 Hf2.
  exact (proj1 (quantiles_lane_deterministic C s H1 H2 lane srt qs ds H3 H4 H5 H6 H7 H8 fuel1 pick1 c1 fuel2 pick2 c2 Hf1 Hf2)).
Qed.
Print Assumptions C01_deterministic.

(* one value per requested q, in request order, duplicates allowed *)
Theorem C01_request_order : forall A (C : carrier A) s lane srt qs ds, lane_ok C s lane srt qs ds ->
  forall fuel pick c vals lane' c', length lane <= fuel ->
  quantiles_lane C s fuel pick c qs ds lane = Ok (vals, lane', c') ->
  length vals = length qs /\ Forall2 (fun q v => qspec C s srt q = Ok v) qs vals.
Proof.
  intros A C s lane srt qs ds [H1 H2 H3 H4 H5 H6 H7 H8] fuel pick c vals lane' c' Hf Hr.
  destruct (quantiles_lane_request_order C s H1 H2 lane srt qs ds H3 H4 H5 H6 H7 H8 fuel pick c vals lane' c' Hf Hr) as (Ha & Hb & _).
  split; assumption.
Qed.
Print Assumptions C01_request_order.

(* the selecting strategies return the documented element of the sorted lane *)
Theorem C01_selecting : forall t (srt : list Z), StronglySorted Z.le srt -> (1 <= length srt)%nat ->
  (Z.of_nat (length srt) <= 2 ^ 53)%Z -> forall q, valid_q q = true ->
  exists lo hi a b, lower_index q (length srt) = Some lo /\ higher_index q (length srt) = Some hi /\
    nth_error srt lo = Some a /\ nth_error srt hi = Some b /\ (a <= b)%Z /\
    qspec (int_carrier t) Lower srt q = Ok a /\
    qspec (int_carrier t) Higher srt q = Ok b /\
    qspec (int_carrier t) Nearest srt q = Ok (if flt (qfrac q (length srt)) fhalf then a else b).
Proof. exact L1_select. Qed.
Print Assumptions C01_selecting.

(* integers: Midpoint and Linear never leave [lower, higher] ... *)
Theorem C01_bracket : forall t (srt : list Z), StronglySorted Z.le srt -> (1 <= length srt)%nat ->
  (Z.of_nat (length srt) <= 2 ^ 53)%Z -> forall s q v, valid_q q = true -> (s = Linear -> small srt) ->
  qspec (int_carrier t) s srt q = Ok v ->
  exists lo hi a b, lower_index q (length srt) = Some lo /\ higher_index q (length srt) = Some hi /\
    nth_error srt lo = Some a /\ nth_error srt hi = Some b /\ (a <= v <= b)%Z.
Proof. exact L1_bracket. Qed.
Print Assumptions C01_bracket.

(* ... and are within one unit of the exact value *)
Theorem C01_midpoint_within_one : forall t l h v, (l <= h)%Z -> int_midpoint t l h = Ok v ->
  (l <= v <= h)%Z /\ (2 * v <= l + h < 2 * v + 2)%Z.
Proof.
  intros t l h v Hlh. unfold int_midpoint.
  destruct (in_range t (h - l)); [|discriminate].
  destruct (in_range t (l + Z.quot (h - l) 2)); [|discriminate].
  intros H. inversion H; subst v. clear H.
  rewrite Z.quot_div_nonneg by lia.
  pose proof (Z.div_mod (h - l) 2 ltac:(lia)) as Hd.
  pose proof (Z.mod_pos_bound (h - l) 2 ltac:(lia)) as Hm. lia.
Qed.
Print Assumptions C01_midpoint_within_one.

Theorem C01_linear_within_one : forall t l h frac v, (l <= h)%Z -> (Z.abs l < 2 ^ 52)%Z -> (Z.abs h < 2 ^ 52)%Z ->
  fis_finite frac = true -> (0 <= B2R frac < 1)%R -> int_linear t l h frac = Ok v ->
  (l <= v <= h)%Z /\ (Rabs (IZR v - (IZR l + B2R frac * IZR (h - l))) < 1)%R.
Proof.
  intros t l h frac v H1 H2 H3 H4 H5 H6.
  destruct (L5_linear_bracket t l h frac v H1 H2 H3 H4 H5 H6) as (z & _ & _ & _ & Hb & _ & Hw).
  split; assumption.
Qed.
Print Assumptions C01_linear_within_one.

(* whenever the value is representable: outside the known-finding class K1 the computation
   succeeds.  K1 = the gap higher - lower is not representable in the element type. *)
Theorem C01_midpoint_ok_outside_K1 : forall t l h, (l <= h)%Z ->
  in_range t l = true -> in_range t h = true -> in_range t (h - l) = true ->
  exists v, int_midpoint t l h = Ok v.
Proof.
  intros t l h Hlh Hl Hh Hd. unfold int_midpoint. rewrite Hd.
  assert (Hr : in_range t (l + Z.quot (h - l) 2) = true).
  { unfold in_range in *. apply andb_true_iff in Hl, Hh. destruct Hl as [Hl1 Hl2], Hh as [Hh1 Hh2].
    apply Z.leb_le in Hl1, Hl2, Hh1, Hh2. rewrite Z.quot_div_nonneg by lia.
    pose proof (Z.div_mod (h - l) 2 ltac:(lia)) as Hdm.
    pose proof (Z.mod_pos_bound (h - l) 2 ltac:(lia)) as Hm.
    apply andb_true_iff; split; apply Z.leb_le; lia. }
  rewrite Hr. eexists; reflexivity.
Qed.
Print Assumptions C01_midpoint_ok_outside_K1.

Theorem C01_linear_ok_outside_K1 : forall t l h frac, (l <= h)%Z -> (Z.abs l < 2 ^ 52)%Z -> (Z.abs h < 2 ^ 52)%Z ->
  fis_finite frac = true -> (0 <= B2R frac < 1)%R ->
  in_range t l = true -> in_range t h = true -> in_range t (h - l) = true -> in_range t 0 = true ->
  exists v, int_linear t l h frac = Ok v.
Proof. exact L5_linear_total. Qed.
Print Assumptions C01_linear_ok_outside_K1.

(* K1 witnesses (known finding): the result is representable, the computation is not *)
Definition i8 : ity := {| signed := true; bits := 8 |}.
Lemma K1_witness_midpoint : int_midpoint i8 (-100) 100 = Panic /\ in_range i8 0 = true.
Proof. split; vm_compute; reflexivity. Qed.
Print Assumptions K1_witness_midpoint.
Lemma K1_witness_linear : int_linear i8 (-100) 100 (f64_of_bits 4607092346807469998) = Panic.
Proof. vm_compute. reflexivity. Qed.
Print Assumptions K1_witness_linear.

(* the magnitude bound of Linear is necessary: above 2^53 the documented computation through
   f64 leaves the bracket (a documented limit of the property, not a finding) *)
Example C01_linear_limit :
  qspec (int_carrier {| signed := true; bits := 64 |}) Linear [2^53+1; 2^53+3]%Z (f64_of_bits 4606281698874543309)
  = Ok (2^53+4)%Z.
Proof. vm_compute. reflexivity. Qed.
Print Assumptions C01_linear_limit.

(* non-vacuity *)
Example C01_example :
  qspecs (int_carrier {| signed := true; bits := 64 |}) Linear [1;2;3;4;5]%Z
    [f64_of_bits 4602678819172646912; f64_of_bits 4598175219545276416] = Ok [3; 2]%Z /\
  qspec (int_carrier {| signed := false; bits := 8 |}) Midpoint [0; 255]%Z (f64_of_bits 4602678819172646912) = Ok 127%Z.
Proof. split; vm_compute; reflexivity. Qed.
Print Assumptions C01_example.
