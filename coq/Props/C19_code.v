(* C19 on the code model: the order laws of Props/C19.v are stated on the sort-based
   specification; here they are transferred to what the lane kernel (Quantile/Lane.v: bulk
   quickselect under an arbitrary pivot oracle, then one value per requested q) actually returns on
   an integer lane, with no remaining hypothesis about sorting, indexes or the order relation
   (Quantile/EndToEnd.v discharges them for the integer carriers). *)
From Coq Require Import List Arith ZArith Lia Permutation Bool Reals Sorting.Sorted.
Import ListNotations.
From Flocq Require Import Core BinarySingleNaN.
From NS Require Import Base.Res Base.SortDedup Base.SortDedupProofs Num.F64 Quantile.Index Quantile.IndexProofs
  Quantile.Interp Quantile.Lane Quantile.Spec Quantile.LaneProofs Quantile.Laws Quantile.EndToEnd.
Notation B2R := (@BinarySingleNaN.B2R 53 1024).
Local Open Scope nat_scope.

(* whatever a run returns is the specification evaluated on the sorted lane *)
Theorem C19_code_is_spec : forall t s (lane : list Z) qs ds fuel pick c vals lane' c',
  1 <= length lane -> (Z.of_nat (length lane) <= 2 ^ 53)%Z ->
  Forall (fun q => valid_q q = true) qs -> searched s qs (length lane) = Ok ds -> length lane <= fuel ->
  quantiles_lane (int_carrier t) s fuel pick c qs ds lane = Ok (vals, lane', c') ->
  qspecs (int_carrier t) s (isort Z Z.leb lane) qs = Ok vals /\ Permutation lane lane'.
Proof.
  intros t s lane qs ds fuel pick c vals lane' c' H1 H2 Hq Hs Hf Hrun.
  destruct (quantiles_lane_Z_eq t s lane qs ds H1 H2 Hq Hs fuel pick c Hf) as (l2 & c2 & Hp & E).
  rewrite E in Hrun.
  destruct (qspecs (int_carrier t) s (isort Z Z.leb lane) qs) as [v| |]; cbn [bind] in Hrun; try discriminate Hrun.
  inversion Hrun; subst. split; [reflexivity | exact Hp].
Qed.
Print Assumptions C19_code_is_spec.

Lemma small_isort : forall l, small l -> small (isort Z Z.leb l).
Proof.
  intros l H. unfold small in *. rewrite Forall_forall in *. intros x Hx.
  apply H. apply (proj1 (isort_In Z Z.leb l x)). exact Hx.
Qed.
Print Assumptions small_isort.

Lemma qspecs_two : forall t s srt q1 q2 v1 v2,
  qspecs (int_carrier t) s srt [q1; q2] = Ok [v1; v2] ->
  qspec (int_carrier t) s srt q1 = Ok v1 /\ qspec (int_carrier t) s srt q2 = Ok v2.
Proof.
  intros t s srt q1 q2 v1 v2 H. cbn [qspecs] in H.
  destruct (qspec (int_carrier t) s srt q1) as [a| |]; cbn [bind] in H; try discriminate H.
  destruct (qspec (int_carrier t) s srt q2) as [b| |]; cbn [bind] in H; try discriminate H.
  inversion H; subst. split; reflexivity.
Qed.
Print Assumptions qspecs_two.

(* monotone in q: what one bulk call returns for q1 <= q2, under every pivot oracle *)
Theorem C19_code_monotone : forall t s (lane : list Z) q1 q2 ds fuel pick c v1 v2 lane' c',
  1 <= length lane -> (Z.of_nat (length lane) <= 2 ^ 53)%Z ->
  valid_q q1 = true -> valid_q q2 = true -> (B2R q1 <= B2R q2)%R -> (s = Linear -> small lane) ->
  searched s [q1; q2] (length lane) = Ok ds -> length lane <= fuel ->
  quantiles_lane (int_carrier t) s fuel pick c [q1; q2] ds lane = Ok ([v1; v2], lane', c') ->
  (v1 <= v2)%Z.
Proof.
  intros t s lane q1 q2 ds fuel pick c v1 v2 lane' c' H1 H2 V1 V2 H12 Hsm Hs Hf Hrun.
  assert (Hq : Forall (fun q => valid_q q = true) [q1; q2]) by (repeat constructor; assumption).
  destruct (C19_code_is_spec t s lane _ ds fuel pick c _ lane' c' H1 H2 Hq Hs Hf Hrun) as [E _].
  apply qspecs_two in E. destruct E as [E1 E2].
  assert (Hlen : length (isort Z Z.leb lane) = length lane) by apply (isort_length Z Z.leb).
  apply (L6_mono t (isort Z Z.leb lane) (isort_Z_StronglySorted_le lane)
           ltac:(rewrite Hlen; exact H1) ltac:(rewrite Hlen; exact H2) s q1 q2 v1 v2 V1 V2 H12
           (fun Hl => small_isort lane (Hsm Hl)) E1 E2).
Qed.
Print Assumptions C19_code_monotone.

(* within the lane's minimum and maximum: every value the kernel returns *)
Theorem C19_code_bounds : forall t s (lane : list Z) q ds fuel pick c v lane' c',
  1 <= length lane -> (Z.of_nat (length lane) <= 2 ^ 53)%Z ->
  valid_q q = true -> (s = Linear -> small lane) ->
  searched s [q] (length lane) = Ok ds -> length lane <= fuel ->
  quantiles_lane (int_carrier t) s fuel pick c [q] ds lane = Ok ([v], lane', c') ->
  (nth 0 (isort Z Z.leb lane) 0 <= v <= nth (length lane - 1) (isort Z Z.leb lane) 0)%Z.
Proof.
  intros t s lane q ds fuel pick c v lane' c' H1 H2 V Hsm Hs Hf Hrun.
  assert (Hq : Forall (fun q => valid_q q = true) [q]) by (repeat constructor; assumption).
  destruct (C19_code_is_spec t s lane _ ds fuel pick c _ lane' c' H1 H2 Hq Hs Hf Hrun) as [E _].
  cbn [qspecs] in E.
  destruct (qspec (int_carrier t) s (isort Z Z.leb lane) q) as [a| |] eqn:Eq; cbn [bind] in E; try discriminate E.
  inversion E; subst a.
  assert (Hlen : length (isort Z Z.leb lane) = length lane) by apply (isort_length Z Z.leb).
  rewrite <- Hlen.
  apply (L2_bounds t (isort Z Z.leb lane) (isort_Z_StronglySorted_le lane)
           ltac:(rewrite Hlen; exact H1) ltac:(rewrite Hlen; exact H2) s q v V
           (fun Hl => small_isort lane (Hsm Hl)) Eq).
Qed.
Print Assumptions C19_code_bounds.

(* permutation invariance of the code: two lanes that are permutations of each other give the
   same values, whatever pivots either run draws *)
Theorem C19_code_perm_invariant : forall t s (l1 l2 : list Z) qs ds fuel1 pick1 c1 fuel2 pick2 c2,
  Permutation l1 l2 -> 1 <= length l1 -> (Z.of_nat (length l1) <= 2 ^ 53)%Z ->
  Forall (fun q => valid_q q = true) qs -> searched s qs (length l1) = Ok ds ->
  length l1 <= fuel1 -> length l1 <= fuel2 ->
  lane_vals (quantiles_lane (int_carrier t) s fuel1 pick1 c1 qs ds l1) =
  lane_vals (quantiles_lane (int_carrier t) s fuel2 pick2 c2 qs ds l2).
Proof.
  intros t s l1 l2 qs ds fuel1 pick1 c1 fuel2 pick2 c2 Hp H1 H2 Hq Hs Hf1 Hf2.
  assert (Hl : length l2 = length l1) by (symmetry; apply Permutation_length; exact Hp).
  assert (Hsrt : Permutation l2 (isort Z Z.leb l1)).
  { eapply Permutation_trans; [apply Permutation_sym; exact Hp | apply isort_perm]. }
  destruct (quantiles_lane_Z_any_sorted t s l1 (isort Z Z.leb l1) qs H1 H2 Hq (isort_perm Z Z.leb l1)
              (isort_Z_StronglySorted_le l1)) as (d1 & S1 & R1).
  assert (H1' : 1 <= length l2) by (rewrite Hl; exact H1).
  assert (H2' : (Z.of_nat (length l2) <= 2 ^ 53)%Z) by (rewrite Hl; exact H2).
  destruct (quantiles_lane_Z_any_sorted t s l2 (isort Z Z.leb l1) qs H1' H2' Hq Hsrt
              (isort_Z_StronglySorted_le l1)) as (d2 & S2 & R2).
  rewrite Hl in S2. rewrite Hs in S1. rewrite Hs in S2.
  inversion S1; subst d1. inversion S2; subst d2.
  rewrite R1 by exact Hf1. rewrite R2 by (rewrite Hl; exact Hf2). reflexivity.
Qed.
Print Assumptions C19_code_perm_invariant.
