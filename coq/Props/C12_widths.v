(* C12, continued: the bin WIDTH is computed by the model (Hist/Widths.v: from_array of Sqrt, Rice,
   Sturges, FreedmanDiaconis and Auto, from the data and libm's two recorded values) instead of being
   an input, and strategy_full composes it with EquiSpaced (Hist/Strategies.v).  Together with
   Props/C12.v this gives, for integer data, the complete property with NO hypothesis about the width:
   "for every 1-D data set and every strategy that accepts it, construction terminates and the bins
   start exactly at the data minimum, are equally wide, end strictly above the data maximum by at most
   one width, every observation falls in exactly one bin and a histogram counts all n observations;
   the advertised number of bins equals the number built; empty data is rejected with EmptyInput and
   constant data with the Strategy error."
     E : elt T is the element type as the width formulas use it (int_elt t: overflow-checked bounded
     integers; n64_elt: N64); first_min / first_max are QuantileExt::min / max; L : libm is the pair
     of libm values (powf(n, 1/3), log2(n)) recorded for this n; outcomes are
     Ok (inl SE_Empty | inl SE_Strategy | inr (width, min, max)), Panic, OutOfFuel.
   Proofs: Hist/WidthsProofs.v (generic), Hist/WidthsZ.v (integers), Hist/WidthsF64.v and Hist/WidthsN64.v
   (binary64 / N64),
   Hist/WidthsExamples.v (executed instances). *)
From Coq Require Import List Arith ZArith Lia Bool.
Import ListNotations.
From Flocq Require Import Core BinarySingleNaN.
Require Import Reals.
From NS Require Import Base.Order Base.Res Base.SortDedup Num.Ops Num.ZInst Num.F64 Quantile.Index
  Quantile.Interp Quantile.Spec Hist.Edges Hist.Histogram Hist.Strategies Hist.StrategiesProofs
  Hist.StrategiesF64 Hist.Widths Hist.WidthsProofs Hist.StrategiesF64Width Hist.WidthsZ Hist.WidthsF64 Hist.WidthsN64 Hist.WidthsExamples
  Run.RunWidths.
Local Open Scope nat_scope.

(* ---- W1: empty data is rejected with EmptyInput, by every strategy ---- *)
Theorem C12w_empty : forall T (E : elt T) zero k L, from_array E zero k [] L = Ok (inl SE_Empty).
Proof. exact @from_array_empty. Qed.
Print Assumptions C12w_empty.

Theorem C12w_full_empty : forall T (E : elt T) (O : ops T) repr fuel_of k L,
  strategy_full E O repr fuel_of k [] L = Ok (inl SE_Empty).
Proof. exact @strategy_full_empty. Qed.
Print Assumptions C12w_full_empty.

(* ---- W2: an accepted outcome: the width passed EquiSpaced::new, min and max are the data's ---- *)
Theorem C12w_accepted : forall T (E : elt T) zero k x t L w mn mx,
  from_array E zero k (x :: t) L = Ok (inr (w, mn, mx)) ->
  accepts E zero w mn mx = true /\ mn = first_min E x t /\ mx = first_max E x t.
Proof. exact @from_array_inr. Qed.
Print Assumptions C12w_accepted.

(* ... and which formula produced the width *)
Theorem C12w_accepted_width : forall T (E : elt T) zero k x t L w mn mx,
  from_array E zero k (x :: t) L = Ok (inr (w, mn, mx)) ->
  match k with
  | KSqrt | KRice | KSturges =>
    width_of_count E mn mx (count_bins k (Z.of_nat (S (length t))) L) = Ok w
  | KFD => fd_width E (x :: t) L = Ok w
  | KAuto =>
    fd_width E (x :: t) L = Ok w \/
    width_of_count E mn mx (count_bins KSturges (Z.of_nat (S (length t))) L) = Ok w
  end.
Proof. exact @from_array_inr_width. Qed.
Print Assumptions C12w_accepted_width.

(* ---- W3: first_min / first_max: an element, a lower / upper bound, and the FIRST such element ---- *)
Theorem C12w_first_min : forall T (E : elt T), total (e_leb E) -> transitive (e_leb E) -> forall x t,
  In (first_min E x t) (x :: t) /\
  (forall y, In y (x :: t) -> e_leb E (first_min E x t) y = true) /\
  exists pre post, x :: t = pre ++ first_min E x t :: post /\
    forall y, In y pre -> e_leb E y (first_min E x t) = false.
Proof. exact @first_min_spec. Qed.
Print Assumptions C12w_first_min.

Theorem C12w_first_max : forall T (E : elt T), total (e_leb E) -> transitive (e_leb E) -> forall x t,
  In (first_max E x t) (x :: t) /\
  (forall y, In y (x :: t) -> e_leb E y (first_max E x t) = true) /\
  exists pre post, x :: t = pre ++ first_max E x t :: post /\
    forall y, In y pre -> e_leb E (first_max E x t) y = false.
Proof. exact @first_max_spec. Qed.
Print Assumptions C12w_first_max.

(* ---- W4: strategy_full is from_array, then n_bins and build / strategy_bins of Props/C12.v ---- *)
Theorem C12w_refines : forall T (E : elt T) (O : ops T) repr fuel_of k data L w nb es,
  strategy_full E O repr fuel_of k data L = Ok (inr (w, nb, es)) ->
  exists mn mx,
    from_array E (o_zero O) k data L = Ok (inr (w, mn, mx)) /\
    n_bins O (e_leb E) repr (fuel_of w mn mx) mn w mx = Ok nb /\
    build O (e_leb E) repr (fuel_of w mn mx) mn w mx = Ok es /\
    strategy_bins O (e_leb E) repr (fuel_of w mn mx) data mn mx w = Ok (inr es).
Proof. exact @strategy_full_refines. Qed.
Print Assumptions C12w_refines.

Theorem C12w_error_iff : forall T (E : elt T) (O : ops T) repr fuel_of k data L e,
  strategy_full E O repr fuel_of k data L = Ok (inl e) <-> from_array E (o_zero O) k data L = Ok (inl e).
Proof. exact @strategy_full_err_iff. Qed.
Print Assumptions C12w_error_iff.

(* a successful run never consulted an unrepresentable index *)
Theorem C12w_repr_n_bins : forall T (O : ops T) leb repr fuel mn w mx n,
  n_bins O leb repr fuel mn w mx = Ok n -> n_bins O leb (fun _ => true) fuel mn w mx = Ok n.
Proof. exact @n_bins_repr_ok. Qed.
Print Assumptions C12w_repr_n_bins.

Theorem C12w_repr_build : forall T (O : ops T) leb repr fuel mn w mx es,
  build O leb repr fuel mn w mx = Ok es -> build O leb (fun _ => true) fuel mn w mx = Ok es.
Proof. exact @build_repr_ok. Qed.
Print Assumptions C12w_repr_build.

Theorem C12w_repr_full : forall T (E : elt T) (O : ops T) repr fuel_of k data L r,
  strategy_full E O repr fuel_of k data L = Ok r ->
  strategy_full E O (fun _ => true) fuel_of k data L = Ok r.
Proof. exact @strategy_full_repr_ok. Qed.
Print Assumptions C12w_repr_full.

(* ---- W5: constant data is never accepted ---- *)
Theorem C12w_constant : forall T (E : elt T) zero k x t L r,
  e_leb E x x = true -> Forall (fun y => y = x) t ->
  from_array E zero k (x :: t) L = Ok r -> r = inl SE_Strategy.
Proof. exact @from_array_constant. Qed.
Print Assumptions C12w_constant.

Theorem C12w_constant_cases : forall T (E : elt T), arith_no_oof E -> forall zero k x t L,
  e_leb E x x = true -> Forall (fun y => y = x) t ->
  from_array E zero k (x :: t) L = Ok (inl SE_Strategy) \/ from_array E zero k (x :: t) L = Panic.
Proof. exact @from_array_constant_cases. Qed.
Print Assumptions C12w_constant_cases.

Theorem C12w_int_constant_cases : forall t k x l L, Forall (fun y => y = x) l ->
  from_array (int_elt t) 0%Z k (x :: l) L = Ok (inl SE_Strategy) \/
  from_array (int_elt t) 0%Z k (x :: l) L = Panic.
Proof. exact from_array_int_constant_cases. Qed.
Print Assumptions C12w_int_constant_cases.

Theorem C12w_n64_constant_cases : forall k x l L, fis_nan x = false -> Forall (fun y => y = x) l ->
  from_array n64_elt fzero k (x :: l) L = Ok (inl SE_Strategy) \/
  from_array n64_elt fzero k (x :: l) L = Panic.
Proof. exact from_array_n64_constant_cases. Qed.
Print Assumptions C12w_n64_constant_cases.

(* the dichotomy is false for an arbitrary element type (one whose arithmetic reports OutOfFuel) *)
Theorem C12w_constant_dichotomy_refuted :
  exists (T : Type) (E : elt T) zero k x t L,
    total (e_leb E) /\ transitive (e_leb E) /\ Forall (fun y => y = x) t /\
    from_array E zero k (x :: t) L <> Ok (inl SE_Strategy) /\ from_array E zero k (x :: t) L <> Panic.
Proof. exact constant_dichotomy_refuted_for_arbitrary_elt. Qed.
Print Assumptions C12w_constant_dichotomy_refuted.

(* integers: the width arithmetic does not fail on constant data *)
Theorem C12w_int_constant_simple : forall t k x m L,
  k = KSqrt \/ k = KRice \/ k = KSturges -> in_range t 0 = true ->
  (0 < count_bins k (Z.of_nat (S m)) L <= imax t)%Z ->
  from_array (int_elt t) 0%Z k (x :: repeat x m) L = Ok (inl SE_Strategy).
Proof. exact from_array_int_constant_simple. Qed.
Print Assumptions C12w_int_constant_simple.

Theorem C12w_int_constant_fd : forall t x m L d,
  in_range t 0 = true -> in_range t 2 = true -> (Z.of_nat (S m) <= 2 ^ 53)%Z ->
  int_of_f64 t (l_cbrt L) = Some d -> d <> 0%Z ->
  from_array (int_elt t) 0%Z KFD (x :: repeat x m) L = Ok (inl SE_Strategy).
Proof. exact from_array_int_constant_fd. Qed.
Print Assumptions C12w_int_constant_fd.

Theorem C12w_int_constant_auto : forall t x m L d,
  in_range t 0 = true -> in_range t 2 = true -> (Z.of_nat (S m) <= 2 ^ 53)%Z ->
  int_of_f64 t (l_cbrt L) = Some d -> d <> 0%Z ->
  (0 < count_bins KSturges (Z.of_nat (S m)) L <= imax t)%Z ->
  from_array (int_elt t) 0%Z KAuto (x :: repeat x m) L = Ok (inl SE_Strategy).
Proof. exact from_array_int_constant_auto. Qed.
Print Assumptions C12w_int_constant_auto.

(* the quartiles (Nearest) of a constant lane of length <= 2^53 are its value, for any carrier *)
Theorem C12w_quartile_constant : forall A (C : carrier A) (srt : list A) x q,
  valid_q q = true -> 1 <= length srt -> (Z.of_nat (length srt) <= 2 ^ 53)%Z ->
  Forall (fun y => y = x) srt -> qspec C Nearest srt q = Ok x.
Proof. exact @qspec_nearest_const. Qed.
Print Assumptions C12w_quartile_constant.

(* the complementary failures: a zero or unrepresentable bin count panics (from_usize().unwrap(), / 0) *)
Theorem C12w_int_count_zero : forall t k x l L,
  k = KSqrt \/ k = KRice \/ k = KSturges -> count_bins k (Z.of_nat (S (length l))) L = 0%Z ->
  from_array (int_elt t) 0%Z k (x :: l) L = Panic.
Proof. exact from_array_int_count_zero. Qed.
Print Assumptions C12w_int_count_zero.

Theorem C12w_int_count_unrepresentable : forall t k x l L,
  k = KSqrt \/ k = KRice \/ k = KSturges ->
  in_range t (count_bins k (Z.of_nat (S (length l))) L) = false ->
  from_array (int_elt t) 0%Z k (x :: l) L = Panic.
Proof. exact from_array_int_count_unrepresentable. Qed.
Print Assumptions C12w_int_count_unrepresentable.

(* ---- W6: integers, end to end; fuelZ w mn mx = Z.to_nat ((mx - mn) / w + 3) ---- *)
Theorem C12w_int : forall t k data L w nb es,
  strategy_full (int_elt t) Z_ops (fun _ => true) (fun w mn mx => Z.to_nat ((mx - mn) / w + 3)) k data L
    = Ok (inr (w, nb, es)) ->
  (0 < w)%Z /\
  exists x l, data = x :: l /\
    let mn := first_min (int_elt t) x l in
    let mx := first_max (int_elt t) x l in
    from_array (int_elt t) 0%Z k data L = Ok (inr (w, mn, mx)) /\
    Forall (fun y => mn <= y <= mx)%Z data /\ In mn data /\ In mx data /\
    (mn < mx)%Z /\
    nth_error es 0 = Some mn /\
    es = map (fun i => mn + Z.of_nat i * w)%Z (seq 0 (S nb)) /\
    nb = Z.to_nat ((mx - mn) / w + 1) /\
    bins_len Z es = nb /\
    (forall i a b, nth_error es i = Some a -> nth_error es (S i) = Some b -> (b - a)%Z = w) /\
    (exists last, nth_error es (length es - 1) = Some last /\ (mx < last <= mx + w)%Z) /\
    (forall y, In y data -> index_of Z Z.leb es y = Some (Z.to_nat ((y - mn) / w))) /\
    (exists c, histogram Z Z.leb [es] (map (fun y => [y]) data) = Ok c /\ list_sum c = length data).
Proof. exact strategy_full_int_spec. Qed.
Print Assumptions C12w_int.

(* for an arbitrary from_usize, a successful run is the run with every index representable *)
Theorem C12w_int_repr : forall t repr k data L w nb es,
  strategy_full (int_elt t) Z_ops repr fuelZ k data L = Ok (inr (w, nb, es)) ->
  strategy_full (int_elt t) Z_ops (fun _ => true) fuelZ k data L = Ok (inr (w, nb, es)).
Proof. exact strategy_full_int_spec_repr. Qed.
Print Assumptions C12w_int_repr.

(* termination and totality: an accepted width determines the whole outcome; never OutOfFuel;
   a Panic of the composed strategy is a Panic of the width arithmetic *)
Theorem C12w_int_outcome : forall t k data L w mn mx,
  from_array (int_elt t) 0%Z k data L = Ok (inr (w, mn, mx)) ->
  strategy_full (int_elt t) Z_ops (fun _ => true) fuelZ k data L =
  Ok (inr (w, Z.to_nat ((mx - mn) / w + 1),
           map (fun i => mn + Z.of_nat i * w)%Z (seq 0 (S (Z.to_nat ((mx - mn) / w + 1)))))).
Proof. exact strategy_full_int_of_from_array. Qed.
Print Assumptions C12w_int_outcome.

Theorem C12w_int_terminates : forall t repr k data L,
  strategy_full (int_elt t) Z_ops repr fuelZ k data L <> OutOfFuel.
Proof. exact strategy_full_int_not_oof. Qed.
Print Assumptions C12w_int_terminates.

Theorem C12w_int_panic_iff : forall t k data L,
  strategy_full (int_elt t) Z_ops (fun _ => true) fuelZ k data L = Panic <->
  from_array (int_elt t) 0%Z k data L = Panic.
Proof. exact strategy_full_int_panic_iff. Qed.
Print Assumptions C12w_int_panic_iff.

(* ---- W7: Auto ---- *)
Theorem C12w_auto_both_accept : forall T (E : elt T) zero data L wf mnf mxf ws mns mxs,
  from_array E zero KFD data L = Ok (inr (wf, mnf, mxf)) ->
  from_array E zero KSturges data L = Ok (inr (ws, mns, mxs)) ->
  from_array E zero KAuto data L = Ok (inr (if ltb E ws wf then (ws, mns, mxs) else (wf, mnf, mxf))) /\
  mnf = mns /\ mxf = mxs.
Proof. exact @auto_both_accept. Qed.
Print Assumptions C12w_auto_both_accept.

Theorem C12w_auto_one_accepts : forall T (E : elt T) zero data L,
  (forall e s, from_array E zero KFD data L = Ok (inl e) -> from_array E zero KSturges data L = Ok (inr s) ->
     from_array E zero KAuto data L = Ok (inr s)) /\
  (forall e f, from_array E zero KFD data L = Ok (inr f) -> from_array E zero KSturges data L = Ok (inl e) ->
     from_array E zero KAuto data L = Ok (inr f)) /\
  (forall e e', from_array E zero KFD data L = Ok (inl e) -> from_array E zero KSturges data L = Ok (inl e') ->
     from_array E zero KAuto data L = Ok (inl e)).
Proof.
  intros T E zero data L. split; [| split].
  - intros e s. exact (auto_only_sturges E zero data L e s).
  - intros e f. exact (auto_only_fd E zero data L e f).
  - intros e e'. exact (auto_neither E zero data L e e').
Qed.
Print Assumptions C12w_auto_one_accepts.

(* Auto's outcome - error, panic or grid - is FD's or Sturges' *)
Theorem C12w_auto_grid : forall T (E : elt T) (O : ops T) repr fuel_of data L,
  strategy_full E O repr fuel_of KAuto data L = strategy_full E O repr fuel_of KFD data L \/
  strategy_full E O repr fuel_of KAuto data L = strategy_full E O repr fuel_of KSturges data L.
Proof. exact @auto_grid_is_fd_or_sturges. Qed.
Print Assumptions C12w_auto_grid.

Theorem C12w_auto_grid_both_accept : forall T (E : elt T) (O : ops T) repr fuel_of data L wf mnf mxf ws mns mxs,
  from_array E (o_zero O) KFD data L = Ok (inr (wf, mnf, mxf)) ->
  from_array E (o_zero O) KSturges data L = Ok (inr (ws, mns, mxs)) ->
  strategy_full E O repr fuel_of KAuto data L =
    if ltb E ws wf then strategy_full E O repr fuel_of KSturges data L
    else strategy_full E O repr fuel_of KFD data L.
Proof. exact @auto_grid_both_accept. Qed.
Print Assumptions C12w_auto_grid_both_accept.

(* ---- W8: executed instances (see Hist/WidthsExamples.v for the rest) ---- *)
Theorem C12w_example_sqrt_i64 :
  m_full_int true 64 0 [424; 441; 499; 35; 421; 487; 440; 466; 446; 402; 400; 1659]%Z 0 0 =
  [0; 541; 4; 4; 5; 35; 576; 1117; 1658; 2199]%Z.
Proof. exact ex_sqrt_i64. Qed.
Print Assumptions C12w_example_sqrt_i64.

Theorem C12w_example_fd_i64 :
  m_head_int true 64 3 [424; 441; 499; 35; 421; 487; 440; 466; 446; 402; 400; 1659]%Z
    4612337753436226293 0 = [0; 45; 35; 1659]%Z.
Proof. exact ex_fd_head_i64. Qed.
Print Assumptions C12w_example_fd_i64.

Theorem C12w_example_errors :
  m_full_int true 64 0 [7; 7; 7; 7]%Z 0 0 = [2]%Z /\ m_full_int true 64 0 [] 0 0 = [1]%Z /\
  m_full_int true 8 0 [-100; 100]%Z 0 0 = [3]%Z.
Proof. exact (conj ex_constant_sqrt (conj ex_empty ex_i8_range_overflow)). Qed.
Print Assumptions C12w_example_errors.

(* ---- W9: binary64 ---- *)
(* Sqrt's bin count is the twice-rounded square root, at least 1 and at most n: the width division
   never divides by zero and from_usize(n_bins) is representable wherever n is *)
Theorem C12w_sqrt_count : forall (n : Z) (L : libm), (1 <= n <= 2 ^ 53)%Z ->
  count_bins KSqrt n L = ZnearestA (round radix2 (SpecFloat.fexp 53 1024) ZnearestE (sqrt (IZR n))) /\
  (1 <= count_bins KSqrt n L <= n)%Z.
Proof. exact count_bins_sqrt. Qed.
Print Assumptions C12w_sqrt_count.

(* N64: constant finite data is rejected; the arithmetic does not fail *)
Theorem C12w_n64_constant_sqrt : forall x m L,
  fis_finite x = true -> (Z.of_nat (S m) <= 2 ^ 53)%Z ->
  from_array n64_elt fzero KSqrt (x :: repeat x m) L = Ok (inl SE_Strategy).
Proof. exact from_array_n64_constant_sqrt. Qed.
Print Assumptions C12w_n64_constant_sqrt.

Theorem C12w_n64_constant_simple : forall k x m L,
  k = KSqrt \/ k = KRice \/ k = KSturges -> fis_finite x = true ->
  (1 <= count_bins k (Z.of_nat (S m)) L <= 2 ^ 53)%Z ->
  from_array n64_elt fzero k (x :: repeat x m) L = Ok (inl SE_Strategy).
Proof. exact from_array_n64_constant_simple. Qed.
Print Assumptions C12w_n64_constant_simple.

Theorem C12w_n64_constant_fd : forall x m L,
  fis_finite x = true -> (Z.of_nat (S m) <= 2 ^ 53)%Z -> B2R (l_cbrt L) <> 0%R ->
  from_array n64_elt fzero KFD (x :: repeat x m) L = Ok (inl SE_Strategy).
Proof. exact from_array_n64_constant_fd. Qed.
Print Assumptions C12w_n64_constant_fd.

Theorem C12w_n64_constant_auto : forall x m L,
  fis_finite x = true -> (Z.of_nat (S m) <= 2 ^ 53)%Z -> B2R (l_cbrt L) <> 0%R ->
  (1 <= count_bins KSturges (Z.of_nat (S m)) L <= 2 ^ 53)%Z ->
  from_array n64_elt fzero KAuto (x :: repeat x m) L = Ok (inl SE_Strategy).
Proof. exact from_array_n64_constant_auto. Qed.
Print Assumptions C12w_n64_constant_auto.

(* N64: an accepted width is not NaN and strictly positive - possibly +infinity *)
Theorem C12w_n64_accepted : forall k data L w mn mx,
  from_array n64_elt fzero k data L = Ok (inr (w, mn, mx)) ->
  fis_nan w = false /\ fle w fzero = false /\ fle mx mn = false /\
  (w = B754_infinity false \/ (fis_finite w = true /\ (0 < B2R w)%R)).
Proof. exact from_array_n64_accepted. Qed.
Print Assumptions C12w_n64_accepted.

(* N64 end to end: for finite data every hypothesis about minimum, maximum and width of the binary64
   grid theorems (Props/C12_f64_width.v) is derived from the run; what is left is finiteness of the
   width and the no-overflow condition grid_safe of the grid, under which: at least one bin, first edge
   = minimum, last edge above the maximum by at most a width plus roundoff, every observation in exactly
   one bin of the built grid, all observations counted; and, when the width separates consecutive
   edges, the edges are min + i * w and the advertised count is the count built *)
Theorem C12w_n64 : forall fuel_of k data L w nb es,
  Forall (fun y => fis_finite y = true) data ->
  strategy_full n64_elt O64 (fun _ => true) fuel_of k data L = Ok (inr (w, nb, es)) ->
  exists x l, data = x :: l /\
    let mn := first_min n64_elt x l in
    let mx := first_max n64_elt x l in
    from_array n64_elt fzero k data L = Ok (inr (w, mn, mx)) /\
    In mn data /\ In mx data /\ fis_finite mn = true /\ fis_finite mx = true /\
    Forall (fun y => B2R mn <= B2R y <= B2R mx)%R data /\
    (B2R mn < B2R mx)%R /\
    fis_nan w = false /\
    (w = B754_infinity false \/ (fis_finite w = true /\ (0 < B2R w)%R)) /\
    n_bins O64 fle (fun _ => true) (fuel_of w mn mx) mn w mx = Ok nb /\
    build O64 fle (fun _ => true) (fuel_of w mn mx) mn w mx = Ok es /\
    (fis_finite w = true -> grid_safe mn w nb ->
       1 <= nb /\
       B2R (edgeF mn w 0) = B2R mn /\
       (B2R mx < B2R (edgeF mn w nb))%R /\
       (B2R (edgeF mn w nb) <= B2R mx + B2R w + 2 * Num.SumF64.u64 * (Rabs (B2R mn) + (2 * iR nb - 1) * B2R w))%R /\
       (forall y, In y data ->
          exists i, index_of F64 fle es y = Some i /\
            forall i', (exists a b, nth_error es i' = Some a /\ nth_error es (i' + 1) = Some b /\
                                    fle a y = true /\ sltb F64 fle y b = true) <-> i' = i) /\
       (exists c, histogram F64 fle [es] (map (fun y => [y]) data) = Ok c /\
                  list_sum c = length data) /\
       ((forall i, i < nb -> (2 * Num.SumF64.u64 * (Rabs (B2R mn) + (2 * iR i + 1) * B2R w) < B2R w)%R) ->
          es = map (edgeF mn w) (seq 0 (S nb)) /\ bins_len F64 es = nb)).
Proof. exact strategy_full_n64_spec. Qed.
Print Assumptions C12w_n64.

(* FINDING: an infinite width is accepted, and the grid placement then yields a NaN edge where N64
   arithmetic panics (the EquiSpaced model uses unchecked binary64 operations) *)
Theorem C12w_n64_infinite_width :
  m_head_n64 0 [18438243695727462560; 9214871658872686752]%Z 0 0 =
    [0; 9218868437227405312; 18438243695727462560; 9214871658872686752]%Z /\
  m_full_n64 0 [18438243695727462560; 9214871658872686752]%Z 0 0 = [3]%Z /\
  enc_full bits_of_f64
    (strategy_full n64_elt (F64Inst.f64_ops [] []) (fun _ => true) (fun _ _ _ => 100%nat) KSqrt
       (map f64_of_bits [18438243695727462560; 9214871658872686752]%Z) (mk_libm 0 0)) =
    [0; 9218868437227405312; 0; 0; 1; 9221120237041090560]%Z.
Proof. exact ex_n64_infinite_width. Qed.
Print Assumptions C12w_n64_infinite_width.

(* The executable integer instance (Run/RunWidths.v: m_full_int) reports Panic unless every edge the
   counting loop and the builder compute stays inside the element type (debug profile: overflow checks):
   what the boolean placement_ok establishes, for every index up to the advertised number of bins. *)
Lemma placement_ok_from_sound : forall t mn w k iz,
  placement_ok_from t mn w iz k = true ->
  forall j, (j < k)%nat ->
    Interp.in_range t ((iz + Z.of_nat j) * w)%Z = true /\
    Interp.in_range t (mn + (iz + Z.of_nat j) * w)%Z = true.
Proof.
  intros t mn w k. induction k as [|k IH]; intros iz H j Hj; [lia|].
  cbn [placement_ok_from] in H.
  apply Bool.andb_true_iff in H. destruct H as [H Hrest].
  apply Bool.andb_true_iff in H. destruct H as [H1 H2].
  destruct j as [|j].
  - cbn [Z.of_nat]. rewrite Z.add_0_r. split; assumption.
  - specialize (IH (iz + 1)%Z Hrest j ltac:(lia)).
    replace (iz + Z.of_nat (S j))%Z with (iz + 1 + Z.of_nat j)%Z by lia. exact IH.
Qed.
Print Assumptions placement_ok_from_sound.

Theorem C12w_placement_ok : forall t mn w nb,
  placement_ok t mn w nb = true ->
  forall i, (i <= nb)%nat ->
    Interp.in_range t (Z.of_nat i * w)%Z = true /\ Interp.in_range t (mn + Z.of_nat i * w)%Z = true.
Proof.
  intros t mn w nb H i Hi. unfold placement_ok in H.
  destruct (placement_ok_from_sound t mn w (S nb) 0%Z H i ltac:(lia)) as [A B].
  rewrite Z.add_0_l in A, B. split; assumption.
Qed.
Print Assumptions C12w_placement_ok.
