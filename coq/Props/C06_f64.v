(* C06 (binary64, quotient-type means): forward-error bounds for weighted_mean and harmonic_mean
   of Num/Kernels.v instantiated at Num/F64Inst.v, for every summation plan (Num/MeansF64.v).
   u64 = 2^-53, eta64 = 2^-1075, g64 k = (1 + u64)^k - 1 (Num/SumF64.v).
   - weighted_mean: relative to  sum|x_i w_i| / |sum w_i|, with the condition number
     kappa_w = sum|w_i| / |sum w_i| of the denominator; side condition g64(n+13) * kappa_w <= 1/4;
     the sum of weights must not overflow (otherwise the model, like the code, returns a finite 0).
   - harmonic_mean: purely relative bound for data within [2^-1000, 2^1000] (no underflow in
     any of the n + 2 divisions), side condition g64(n+16) <= 1/4. *)
From Coq Require Import Reals List Arith ZArith Lia Permutation.
Import ListNotations.
From Flocq Require Import Core BinarySingleNaN.
From NS Require Import Num.Ops Num.Kernels Num.F64 Num.F64Inst Num.SumF64 Num.MeansF64.
Local Open Scope R_scope.

Theorem C06_weighted_mean_error_f64 : forall lt et plw (data ws : list F64),
  length ws = length data -> SumF64.plan_ok plw (length ws) ->
  fin (nd_sum (f64_ops lt et) plw ws) = true ->
  fin (weighted_mean (f64_ops lt et) plw data ws) = true ->
  Rsum (map B2R ws) <> 0 ->
  g64 (length data + 13) * (Rasum (map B2R ws) / Rabs (Rsum (map B2R ws))) <= / 4 ->
  Rabs (B2R (weighted_mean (f64_ops lt et) plw data ws)
        - Rsum (map (fun dw => B2R (fst dw) * B2R (snd dw)) (combine data ws)) / Rsum (map B2R ws))
    <= (2 * (g64 (length data + 1)
             + g64 (length data + 13) * (Rasum (map B2R ws) / Rabs (Rsum (map B2R ws)))) + u64)
         * Rsum (map (fun dw => Rabs (B2R (fst dw) * B2R (snd dw))) (combine data ws))
         / Rabs (Rsum (map B2R ws))
       + 2 * (INR (length data) * (1 + g64 (length data)) * eta64) / Rabs (Rsum (map B2R ws))
       + eta64.
Proof. exact weighted_mean_error. Qed.
Print Assumptions C06_weighted_mean_error_f64.

(* all weights positive: kappa_w = 1 *)
Theorem C06_weighted_mean_error_pos_f64 : forall lt et plw (data ws : list F64),
  length ws = length data -> (1 <= length data)%nat -> SumF64.plan_ok plw (length ws) ->
  Forall (fun w => 0 < B2R w) ws ->
  fin (nd_sum (f64_ops lt et) plw ws) = true ->
  fin (weighted_mean (f64_ops lt et) plw data ws) = true ->
  g64 (length data + 13) <= / 4 ->
  Rabs (B2R (weighted_mean (f64_ops lt et) plw data ws)
        - Rsum (map (fun dw => B2R (fst dw) * B2R (snd dw)) (combine data ws)) / Rsum (map B2R ws))
    <= (2 * (g64 (length data + 1) + g64 (length data + 13)) + u64)
         * Rsum (map (fun dw => Rabs (B2R (fst dw) * B2R (snd dw))) (combine data ws))
         / Rsum (map B2R ws)
       + 2 * (INR (length data) * (1 + g64 (length data)) * eta64) / Rsum (map B2R ws)
       + eta64.
Proof. exact weighted_mean_error_pos. Qed.
Print Assumptions C06_weighted_mean_error_pos_f64.

Theorem C06_harmonic_mean_error_f64 : forall lt et pl (data : list F64) n,
  SumF64.plan_ok pl n -> n = length data -> (1 <= n)%nat -> (Z.of_nat n <= 2 ^ 53)%Z ->
  Forall (fun x => bpow radix2 (-1000) <= B2R x <= bpow radix2 1000) data ->
  fin (mean (f64_ops lt et) (plan_of_map pl n)
         (map (fun x => o_div (f64_ops lt et) (o_one (f64_ops lt et)) x) data)) = true ->
  fin (harmonic_mean (f64_ops lt et) pl data) = true ->
  g64 (n + 16) <= / 4 ->
  Rabs (B2R (harmonic_mean (f64_ops lt et) pl data) - INR n / Rsum (map (fun x => / B2R x) data))
    <= 4 / 3 * (g64 (n + 16) + u64) * (INR n / Rsum (map (fun x => / B2R x) data)).
Proof. exact harmonic_mean_error. Qed.
Print Assumptions C06_harmonic_mean_error_f64.
