(* C17: every fallible routine reports exactly the documented error.
   Model: Errors/Decision.v - the guard sequences as decision functions from a call descriptor
   (shape of self, shape of the argument, axis, requested quantiles, whether ddof is in the
   routine's documented range) to Ok / EmptyInput / ShapeMismatch (both shapes) /
   InvalidQuantile (the q) / Panic, one family per guard sequence. *)
From Coq Require Import List Arith ZArith Bool.
Import ListNotations.
From NS Require Import Num.F64 Quantile.Index Quantile.Lane Errors.Decision Errors.DecisionProofs.

(* EmptyInput exactly when the (first) input has no elements *)
Theorem C17_empty_iff : forall f c, In f [F_single; F_pair; F_pair_ddof; F_axis; F_axis_ddof] ->
  (decide f c = O_Empty <-> size (c_self c) = 0).
Proof. exact empty_iff. Qed.
Print Assumptions C17_empty_iff.

(* for quantiles: when the chosen axis has length zero, and only after every q was found valid *)
Theorem C17_quantile_empty_iff : forall c,
  decide F_quantiles c = O_Empty <->
  Forall (fun q => valid_q q = true) (c_qs c) /\ nth (c_axis c) (c_self c) 0 = 0.
Proof. exact quantile_empty_iff. Qed.
Print Assumptions C17_quantile_empty_iff.

(* ShapeMismatch carrying both shapes exactly when a non-empty input meets a different shape *)
Theorem C17_mismatch_iff : forall f c, In f [F_pair; F_pair_ddof] ->
  (decide f c = O_Shape (c_self c) (c_other c) <-> size (c_self c) <> 0 /\ c_self c <> c_other c).
Proof. exact mismatch_iff. Qed.
Print Assumptions C17_mismatch_iff.

Theorem C17_mismatch_payload : forall f c s1 s2, decide f c = O_Shape s1 s2 -> s1 = c_self c /\ s2 = c_other c.
Proof. exact mismatch_payload. Qed.
Print Assumptions C17_mismatch_payload.

(* per-axis weights: a different length than the axis *)
Theorem C17_axis_mismatch_iff : forall f c, In f [F_axis; F_axis_ddof] ->
  (decide f c = O_Shape (c_self c) (c_other c) <->
   size (c_self c) <> 0 /\ nth (c_axis c) (c_self c) 0 <> size (c_other c)).
Proof. exact axis_mismatch_iff. Qed.
Print Assumptions C17_axis_mismatch_iff.

(* InvalidQuantile carries the FIRST offending q and is checked before emptiness *)
Theorem C17_invalid_q_first : forall c q,
  decide F_quantiles c = O_InvalidQ q <->
  exists pre post, c_qs c = pre ++ q :: post /\ Forall (fun x => valid_q x = true) pre /\ valid_q q = false.
Proof. exact invalid_q_first. Qed.
Print Assumptions C17_invalid_q_first.

(* the sum-type routines accept empty inputs *)
Theorem C17_sum_type_accepts_empty : forall c,
  (c_self c = c_other c -> decide F_pair_sum c = O_Ok) /\
  (nth (c_axis c) (c_self c) 0 = size (c_other c) -> decide F_axis_sum c = O_Ok).
Proof. exact sum_type_accepts_empty. Qed.
Print Assumptions C17_sum_type_accepts_empty.

(* none of these conditions surfaces as a panic *)
Theorem C17_no_guard_panics : forall f c, decide f c = O_Panic -> c_ddof_ok c = false.
Proof. exact no_guard_panics. Qed.
Print Assumptions C17_no_guard_panics.

(* and Ok otherwise *)
Theorem C17_ok_otherwise : forall f c, f <> F_pearson -> f <> F_cov ->
  size (c_self c) <> 0 -> c_self c = c_other c \/ In f [F_single; F_quantiles; F_axis; F_axis_ddof; F_axis_sum] ->
  nth (c_axis c) (c_self c) 0 = size (c_other c) \/ ~ In f [F_axis; F_axis_ddof; F_axis_sum] ->
  nth (c_axis c) (c_self c) 0 <> 0 \/ f <> F_quantiles ->
  Forall (fun q => valid_q q = true) (c_qs c) -> c_ddof_ok c = true -> decide f c = O_Ok.
Proof. exact ok_otherwise. Qed.
Print Assumptions C17_ok_otherwise.

(* K2 (known finding): cov on shape (0, k), k > 0, answers Ok although the input has no elements *)
Example C17_K2_witness :
  decide F_cov {| c_self := [0; 2]; c_other := []; c_axis := 0; c_qs := []; c_ddof_ok := true |} = O_Ok /\
  size [0; 2] = 0.
Proof. split; reflexivity. Qed.
Print Assumptions C17_K2_witness.

(* non-vacuity: precedence of the three errors *)
Example C17_example :
  decide F_pair {| c_self := [0]; c_other := [2]; c_axis := 0; c_qs := []; c_ddof_ok := true |} = O_Empty /\
  decide F_pair {| c_self := [2; 3]; c_other := [3; 2]; c_axis := 0; c_qs := []; c_ddof_ok := true |} = O_Shape [2; 3] [3; 2] /\
  decide F_pair_sum {| c_self := [0]; c_other := [0]; c_axis := 0; c_qs := []; c_ddof_ok := true |} = O_Ok /\
  decide F_quantiles {| c_self := [0]; c_other := []; c_axis := 0; c_qs := [f64_of_bits 4602678819172646912; f64_of_bits 4611686018427387904; f64_of_bits 13826050856027422720]; c_ddof_ok := true |}
    = O_InvalidQ (f64_of_bits 4611686018427387904).
Proof. repeat split; vm_compute; reflexivity. Qed.
Print Assumptions C17_example.
