(* C09: deviation measures are exact counts and distances, paired by logical index.
   Model: Num/Kernels.v (sq_l2_dist, l1_dist, linf_dist: Zip::from(self).and(other)
   accumulations under an arbitrary traversal order of the logical positions) over the integers
   (Num/ZInst.v): exact and independent of the traversal.  The derived measures (l2_dist,
   mean_abs_err, mean_sq_err, root_mean_sq_err, psnr) are the documented functions of these by
   construction and are compared relationally by the correspondence check. *)
From Coq Require Import ZArith List Arith Lia Permutation.
Import ListNotations.
From NS Require Import Num.Ops Num.Kernels Num.ZInst Num.DeviationZ.
Local Open Scope Z_scope.

Theorem C09_sq_l2_exact : forall (a b : list Z) (n : nat), length a = n -> length b = n ->
  forall trav, Permutation trav (seq 0 n) ->
  sq_l2_dist Z_ops a b trav = Zsum (map (fun ab => (fst ab - snd ab) * (fst ab - snd ab)) (combine a b)).
Proof. exact sq_l2_Z. Qed.
Print Assumptions C09_sq_l2_exact.

Theorem C09_l1_exact : forall (a b : list Z) (n : nat), length a = n -> length b = n ->
  forall trav, Permutation trav (seq 0 n) ->
  l1_dist Z_ops a b trav = Zsum (map (fun ab => Z.abs (fst ab - snd ab)) (combine a b)).
Proof. exact l1_Z. Qed.
Print Assumptions C09_l1_exact.

Theorem C09_linf_exact : forall (a b : list Z) (n : nat), length a = n -> length b = n ->
  forall trav, Permutation trav (seq 0 n) ->
  linf_dist Z_ops a b trav = fold_right Z.max 0 (map (fun ab => Z.abs (fst ab - snd ab)) (combine a b)).
Proof. exact linf_Z. Qed.
Print Assumptions C09_linf_exact.

(* independent of the (layout-dependent) traversal order *)
Theorem C09_traversal_independent : forall (a b : list Z) (n : nat), length a = n -> length b = n ->
  forall trav1 trav2, Permutation trav1 (seq 0 n) -> Permutation trav2 (seq 0 n) ->
  sq_l2_dist Z_ops a b trav1 = sq_l2_dist Z_ops a b trav2 /\
  l1_dist Z_ops a b trav1 = l1_dist Z_ops a b trav2 /\
  linf_dist Z_ops a b trav1 = linf_dist Z_ops a b trav2.
Proof.
  intros a b n Ha Hb t1 t2 H1 H2. repeat split.
  - exact (sq_l2_trav_indep a b n Ha Hb t1 t2 H1 H2).
  - exact (l1_trav_indep a b n Ha Hb t1 t2 H1 H2).
  - exact (linf_trav_indep a b n Ha Hb t1 t2 H1 H2).
Qed.
Print Assumptions C09_traversal_independent.

(* symmetric, and zero for identical arguments *)
Theorem C09_symmetric : forall a b trav,
  sq_l2_dist Z_ops a b trav = sq_l2_dist Z_ops b a trav /\
  l1_dist Z_ops a b trav = l1_dist Z_ops b a trav /\
  linf_dist Z_ops a b trav = linf_dist Z_ops b a trav.
Proof. intros. repeat split; [apply sq_l2_sym | apply l1_sym | apply linf_sym]. Qed.
Print Assumptions C09_symmetric.

Theorem C09_zero_on_identical : forall a trav,
  sq_l2_dist Z_ops a a trav = 0 /\ l1_dist Z_ops a a trav = 0 /\ linf_dist Z_ops a a trav = 0.
Proof. intros. repeat split; [apply sq_l2_self | apply l1_self | apply linf_self]. Qed.
Print Assumptions C09_zero_on_identical.

(* counts *)
Theorem C09_count_eq_plus_neq : forall a b : list Z, length a = length b ->
  (count_eq a b + count_neq a b = length a)%nat.
Proof. exact count_eq_neq. Qed.
Print Assumptions C09_count_eq_plus_neq.

Theorem C09_count_neq_is_count : forall a b : list Z, length a = length b ->
  count_neq a b = length (filter (fun ab => negb (Z.eqb (fst ab) (snd ab))) (combine a b)).
Proof. exact count_neq_filter. Qed.
Print Assumptions C09_count_neq_is_count.

Theorem C09_count_eq_sym : forall a b : list Z, count_eq a b = count_eq b a.
Proof. exact count_eq_sym. Qed.
Print Assumptions C09_count_eq_sym.

Theorem C09_nonneg : forall a b trav,
  0 <= sq_l2_dist Z_ops a b trav /\ 0 <= l1_dist Z_ops a b trav /\ 0 <= linf_dist Z_ops a b trav /\
  linf_dist Z_ops a b trav <= l1_dist Z_ops a b trav.
Proof. intros. repeat split; [apply sq_l2_nonneg | apply l1_nonneg | apply linf_nonneg | apply linf_le_l1]. Qed.
Print Assumptions C09_nonneg.
