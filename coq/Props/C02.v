(* C02: selection returns the true order statistic under every pivot sequence.
   Models: Sort/Select.v (get_from_sorted_mut), Sort/Bulk.v + Sort/SelectMany.v
   (get_many_from_sorted_mut).  The pivot oracle [pick] (call counter, sub-array
   length -> position) is universally quantified in every theorem: the statements
   hold for every sequence of pivot choices the random generator could return. *)
From Coq Require Import List Arith ZArith Lia Permutation Bool Sorting.Sorted.
Import ListNotations.
From NS Require Import Base.Order Base.Res Base.SortDedup Base.SortDedupProofs
  Sort.Partition Sort.PartitionProofs Sort.Select Sort.SelectProofs Sort.Rank
  Sort.Bulk Sort.BulkProofs Sort.SelectMany Sort.SelectManyProofs.

(* single selection: value at i, two-sided ordering, permutation - for every pick *)
Theorem C02_select_spec : forall A (leb : A -> A -> bool), total leb -> transitive leb ->
  forall fuel pick c a i, i < length a -> length a <= fuel ->
  exists v a' c', select A leb fuel pick c a i = Ok (v, a', c') /\
    Permutation a a' /\ length a' = length a /\ nth_error a' i = Some v /\
    le_seg A leb a' v 0 i /\ ge_seg A leb a' v i (length a).
Proof. exact select_spec. Qed.
Print Assumptions C02_select_spec.

(* ... and the value is what ANY full sort places at position i *)
Theorem C02_select_sorted : forall A (leb : A -> A -> bool), total leb -> transitive leb ->
  forall fuel pick c a i s, i < length a -> length a <= fuel -> Permutation a s -> sorted A leb s ->
  exists v a' c' w, select A leb fuel pick c a i = Ok (v, a', c') /\ Permutation a a' /\
    nth_error s i = Some w /\ leb v w = true /\ leb w v = true.
Proof. exact select_sorted. Qed.
Print Assumptions C02_select_sorted.

(* bulk form: one entry per distinct requested index, in increasing index order, each
   value placed at its index of the rearranged array - for every pick *)
Theorem C02_select_many_spec : forall A (leb : A -> A -> bool), total leb -> transitive leb ->
  forall fuel pick a idxs, Forall (fun i => i < length a) idxs -> length a <= fuel -> 0 < fuel ->
  exists kvs a' c, select_many A leb fuel pick a idxs = Ok (kvs, a', c) /\
    Permutation a a' /\ length a' = length a /\
    map fst kvs = sort_dedup nat Nat.leb idxs /\ StronglySorted lt (map fst kvs) /\
    (forall i, In i (map fst kvs) <-> In i idxs) /\
    Forall (fun kv => placed A leb a' (fst kv) (snd kv)) kvs.
Proof. exact select_many_spec. Qed.
Print Assumptions C02_select_many_spec.

Theorem C02_select_many_sorted : forall A (leb : A -> A -> bool), total leb -> transitive leb ->
  forall fuel pick a idxs s, Forall (fun i => i < length a) idxs -> length a <= fuel -> 0 < fuel ->
  Permutation a s -> sorted A leb s ->
  exists kvs a' c, select_many A leb fuel pick a idxs = Ok (kvs, a', c) /\
    map fst kvs = sort_dedup nat Nat.leb idxs /\
    forall k v, In (k, v) kvs -> exists w, nth_error s k = Some w /\ leb v w = true /\ leb w v = true.
Proof. exact select_many_sorted. Qed.
Print Assumptions C02_select_many_sorted.

(* the key list is THE strictly increasing list of the distinct requested indexes *)
Theorem C02_keys_unique : forall idxs ks, StronglySorted lt ks -> (forall i, In i ks <-> In i idxs) ->
  ks = sort_dedup nat Nat.leb idxs.
Proof.
  intros idxs ks Hs Hin. apply nat_strict_unique; [exact Hs | apply nat_sort_dedup_lt |].
  intro x. rewrite Hin. symmetry. apply nat_sort_dedup_In.
Qed.
Print Assumptions C02_keys_unique.

(* non-vacuity *)
Example C02_example :
  select_many Z Z.leb 10 (fun c n => c) [3;1;4;1;5;9;2;6]%Z [4;1;1;7]
  = Ok ([(1, 1%Z); (4, 4%Z); (7, 9%Z)], [1;1;2;3;4;5;6;9]%Z, 5).
Proof. exact select_many_example. Qed.
Print Assumptions C02_example.
