(* C12 in binary64, second part: what the test oracle checked and Props/C12_f64.v left unproved -
   "bins are equally wide up to roundoff", "the last edge is strictly above the maximum by at most
   one width up to roundoff", "every observation falls in exactly one bin" - for the EquiSpaced
   builder of Hist/Strategies.v at the IEEE-754 instance O64 / fle (edgeF mn w i = mn + (i as f64) * w).
   mn = data minimum, mx = data maximum, w = advised width, all finite, 0 < w, mn <= mx.
   Roundoff is measured in u64 = 2^-53.  There is no underflow term: i * w is a multiple of 2^-1074.
   No-overflow side condition: indexes <= 2^53 and |mn| + (N + 1) * w <= 2^1022 ([safe mn w N] below);
   C12_f64_safe_side shows it implies the raw side conditions of C12_f64_edge_value. *)
From Coq Require Import List Arith ZArith Bool.
From Flocq Require Import Core BinarySingleNaN.
Require Import Reals.
From NS Require Import Base.Order Base.Res Base.SortDedup Num.Ops Num.F64 Num.F64Inst Num.SumF64
  Hist.Edges Hist.Histogram Hist.Strategies Hist.StrategiesF64 Hist.StrategiesF64Width.
Import ListNotations.
Local Open Scope R_scope.

Local Notation safe mn w N :=
  (Z.le (Z.of_nat N) (2 ^ 53)%Z /\
   Rabs (B2R mn) + (IZR (Z.of_nat N) + 1) * B2R w <= bpow radix2 1022).
Local Notation run fuel mn w mx := (n_bins O64 fle (fun _ => true) fuel mn w mx).

(* ---- side conditions ---- *)
Theorem C12_f64_safe_side : forall (mn w : F64) (N i : nat),
  0 <= B2R w -> safe mn w N -> (i <= N)%nat ->
  (Z.of_nat i <= 2 ^ 53)%Z /\
  Rabs (rnd (IZR (Z.of_nat i) * B2R w)) < bpow radix2 1024 /\
  Rabs (rnd (B2R mn + rnd (IZR (Z.of_nat i) * B2R w))) < bpow radix2 1024.
Proof. exact grid_safe_side. Qed.
Print Assumptions C12_f64_safe_side.

Theorem C12_f64_safe_edge : forall (mn w : F64) (N i : nat),
  fis_finite mn = true -> fis_finite w = true -> 0 <= B2R w -> safe mn w N -> (i <= N)%nat ->
  fis_finite (edgeF mn w i) = true /\
  B2R (edgeF mn w i) = rnd (B2R mn + rnd (IZR (Z.of_nat i) * B2R w)).
Proof. exact grid_safe_edge. Qed.
Print Assumptions C12_f64_safe_edge.

(* ---- 1. one edge, one bin width ---- *)
Theorem C12_f64_edge_error : forall (mn w : F64) (i : nat),
  fis_finite mn = true -> fis_finite w = true -> 0 <= B2R w -> safe mn w i ->
  Rabs (B2R (edgeF mn w i) - (B2R mn + IZR (Z.of_nat i) * B2R w))
    <= u64 * (Rabs (B2R mn + IZR (Z.of_nat i) * B2R w) + IZR (Z.of_nat i) * B2R w).
Proof. exact edge_error_f64. Qed.
Print Assumptions C12_f64_edge_error.

(* sharpest form obtained: 2u(|mn| + (2i+1) w) *)
Theorem C12_f64_width_error_sharp : forall (mn w : F64) (i : nat),
  fis_finite mn = true -> fis_finite w = true -> 0 <= B2R w -> safe mn w (S i) ->
  Rabs ((B2R (edgeF mn w (S i)) - B2R (edgeF mn w i)) - B2R w)
    <= 2 * u64 * (Rabs (B2R mn) + (2 * IZR (Z.of_nat i) + 1) * B2R w).
Proof. exact width_error_f64. Qed.
Print Assumptions C12_f64_width_error_sharp.

(* the shape c * u * (|mn| + (i+1) w), c = 4 *)
Theorem C12_f64_width_error : forall (mn w : F64) (i : nat),
  fis_finite mn = true -> fis_finite w = true -> 0 <= B2R w -> safe mn w (S i) ->
  Rabs ((B2R (edgeF mn w (S i)) - B2R (edgeF mn w i)) - B2R w)
    <= 4 * u64 * (Rabs (B2R mn) + (IZR (Z.of_nat i) + 1) * B2R w).
Proof. exact width_error_f64'. Qed.
Print Assumptions C12_f64_width_error.

(* "width large enough to separate consecutive edges" *)
Theorem C12_f64_separated_sharp : forall (mn w : F64) (i : nat),
  fis_finite mn = true -> fis_finite w = true -> 0 <= B2R w -> safe mn w (S i) ->
  2 * u64 * (Rabs (B2R mn) + (2 * IZR (Z.of_nat i) + 1) * B2R w) < B2R w ->
  B2R (edgeF mn w i) < B2R (edgeF mn w (S i)).
Proof. exact edges_separated_f64. Qed.
Print Assumptions C12_f64_separated_sharp.

Theorem C12_f64_separated : forall (mn w : F64) (i : nat),
  fis_finite mn = true -> fis_finite w = true -> 0 < B2R w -> safe mn w (S i) ->
  u64 * (Rabs (B2R mn) + (IZR (Z.of_nat i) + 1) * B2R w) * 4 <= B2R w / 4 ->
  B2R (edgeF mn w i) < B2R (edgeF mn w (S i)) /\
  3 / 4 * B2R w <= B2R (edgeF mn w (S i)) - B2R (edgeF mn w i) <= 5 / 4 * B2R w.
Proof. exact edges_separated_f64'. Qed.
Print Assumptions C12_f64_separated.

(* ---- 3. first edge, at least one bin ---- *)
Theorem C12_f64_first_edge : forall (fuel : nat) (mn w mx : F64) (n : nat),
  fis_finite mn = true -> fis_finite w = true -> fis_finite mx = true ->
  B2R mn <= B2R mx -> run fuel mn w mx = Ok n ->
  B2R (edgeF mn w 0) = B2R mn /\ (1 <= n)%nat.
Proof. exact first_edge_f64. Qed.
Print Assumptions C12_f64_first_edge.

(* ---- 2. last edge ---- *)
Theorem C12_f64_last_edge : forall (fuel : nat) (mn w mx : F64) (n : nat),
  fis_finite mn = true -> fis_finite w = true -> fis_finite mx = true ->
  0 < B2R w -> B2R mn <= B2R mx -> run fuel mn w mx = Ok n -> safe mn w n ->
  B2R mx < B2R (edgeF mn w n) /\
  B2R (edgeF mn w n) <= B2R mx + B2R w
     + 2 * u64 * (Rabs (B2R mn) + (2 * IZR (Z.of_nat n) - 1) * B2R w).
Proof. exact last_edge_f64. Qed.
Print Assumptions C12_f64_last_edge.

(* ---- 4. coverage ---- *)
(* on the raw edges, for any real x between minimum and maximum *)
Theorem C12_f64_cover : forall (fuel : nat) (mn w mx : F64) (n : nat),
  fis_finite mn = true -> fis_finite w = true -> fis_finite mx = true ->
  0 < B2R w -> B2R mn <= B2R mx -> run fuel mn w mx = Ok n -> safe mn w n ->
  forall x : R, B2R mn <= x <= B2R mx ->
  exists i, (i < n)%nat /\ B2R (edgeF mn w i) <= x < B2R (edgeF mn w (S i)) /\
    forall j, (j < n)%nat -> B2R (edgeF mn w j) <= x < B2R (edgeF mn w (S j)) -> j = i.
Proof. exact cover_f64. Qed.
Print Assumptions C12_f64_cover.

(* with the comparisons the implementation performs *)
Theorem C12_f64_cover_fle : forall (fuel : nat) (mn w mx : F64) (n : nat),
  fis_finite mn = true -> fis_finite w = true -> fis_finite mx = true ->
  0 < B2R w -> B2R mn <= B2R mx -> run fuel mn w mx = Ok n -> safe mn w n ->
  forall x : F64, fis_finite x = true -> B2R mn <= B2R x <= B2R mx ->
  exists i, (i < n)%nat /\ fle (edgeF mn w i) x = true /\ fle (edgeF mn w (S i)) x = false /\
    forall j, (j < n)%nat -> fle (edgeF mn w j) x = true -> fle (edgeF mn w (S j)) x = false -> j = i.
Proof. exact cover_f64_fle. Qed.
Print Assumptions C12_f64_cover_fle.

(* the generic C12_cover (Props/C12.v) needs a total order; fle is not total (NaN) ... *)
Theorem C12_f64_fle_not_total : ~ total fle.
Proof. exact fle_not_total. Qed.
Print Assumptions C12_f64_fle_not_total.

(* ... but it transports through a totalisation of fle that agrees with fle on the non-NaN values
   the builder handles: same conclusion as C12_cover, for the list returned by build and the
   model's bin search, with fle *)
Theorem C12_f64_cover_build : forall (fuel : nat) (mn w mx : F64) (n : nat) (es : list F64),
  fis_finite mn = true -> fis_finite w = true -> fis_finite mx = true ->
  0 < B2R w -> run fuel mn w mx = Ok n -> safe mn w n ->
  build O64 fle (fun _ => true) fuel mn w mx = Ok es ->
  forall x : F64, fis_finite x = true -> B2R mn <= B2R x <= B2R mx ->
  exists i, index_of F64 fle es x = Some i /\
    forall i', (exists a b, nth_error es i' = Some a /\ nth_error es (i' + 1) = Some b /\
                            fle a x = true /\ sltb F64 fle x b = true) <-> i' = i.
Proof. exact cover_build_f64. Qed.
Print Assumptions C12_f64_cover_build.

Theorem C12_f64_build_ok : forall (fuel : nat) (mn w mx : F64) (n : nat),
  run fuel mn w mx = Ok n ->
  build O64 fle (fun _ => true) fuel mn w mx = Ok (edges_from F64 fle (map (edgeF mn w) (seq 0 (S n)))).
Proof. exact build_f64_ok. Qed.
Print Assumptions C12_f64_build_ok.

(* when the width separates consecutive edges the returned list is edge 0 .. edge n: n bins *)
Theorem C12_f64_build_edges : forall (fuel : nat) (mn w mx : F64) (n : nat) (es : list F64),
  fis_finite mn = true -> fis_finite w = true -> fis_finite mx = true ->
  0 < B2R w -> run fuel mn w mx = Ok n -> safe mn w n ->
  build O64 fle (fun _ => true) fuel mn w mx = Ok es ->
  (forall i, (i < n)%nat ->
     2 * u64 * (Rabs (B2R mn) + (2 * IZR (Z.of_nat i) + 1) * B2R w) < B2R w) ->
  es = map (edgeF mn w) (seq 0 (S n)) /\ bins_len F64 es = n /\
  forall i, (i <= n)%nat -> nth_error es i = Some (edgeF mn w i).
Proof. exact build_edges_f64. Qed.
Print Assumptions C12_f64_build_edges.

Theorem C12_f64_all_counted : forall (fuel : nat) (mn w mx : F64) (n : nat) (es : list F64),
  fis_finite mn = true -> fis_finite w = true -> fis_finite mx = true ->
  0 < B2R w -> run fuel mn w mx = Ok n -> safe mn w n ->
  build O64 fle (fun _ => true) fuel mn w mx = Ok es ->
  forall data : list F64,
  Forall (fun x => fis_finite x = true /\ B2R mn <= B2R x <= B2R mx) data ->
  exists c, histogram F64 fle [es] (map (fun x => [x]) data) = Ok c /\ list_sum c = length data.
Proof. exact all_counted_f64. Qed.
Print Assumptions C12_f64_all_counted.

(* ---- 5. number of bins ---- *)
Theorem C12_f64_n_bins_estimate : forall (fuel : nat) (mn w mx : F64) (n : nat),
  fis_finite mn = true -> fis_finite w = true -> fis_finite mx = true ->
  0 < B2R w -> B2R mn <= B2R mx -> run fuel mn w mx = Ok n -> safe mn w n ->
  let q := (B2R mx - B2R mn) / B2R w in
  let d := u64 * (Rabs (B2R mn) / B2R w + 2 * IZR (Z.of_nat n)) in
  q - d < IZR (Z.of_nat n) <= q + 1 + d.
Proof. exact n_bins_estimate_f64. Qed.
Print Assumptions C12_f64_n_bins_estimate.

Theorem C12_f64_n_bins_estimate_sep : forall (fuel : nat) (mn w mx : F64) (n : nat),
  fis_finite mn = true -> fis_finite w = true -> fis_finite mx = true ->
  0 < B2R w -> B2R mn <= B2R mx -> run fuel mn w mx = Ok n -> safe mn w n ->
  u64 * (Rabs (B2R mn) + (IZR (Z.of_nat n) + 1) * B2R w) * 4 <= B2R w / 4 ->
  (B2R mx - B2R mn) / B2R w - / 8 < IZR (Z.of_nat n) <= (B2R mx - B2R mn) / B2R w + 1 + / 8.
Proof. exact n_bins_estimate_sep_f64. Qed.
Print Assumptions C12_f64_n_bins_estimate_sep.

(* termination from the inputs: any safe N whose exact edge clears the maximum by the roundoff *)
Theorem C12_f64_terminates_safe : forall (mn w mx : F64) (N : nat),
  fis_finite mn = true -> fis_finite w = true -> fis_finite mx = true -> 0 <= B2R w ->
  safe mn w N ->
  B2R mx + u64 * (Rabs (B2R mn) + 2 * (IZR (Z.of_nat N) * B2R w)) < B2R mn + IZR (Z.of_nat N) * B2R w ->
  exists n, (n <= N)%nat /\ run (S N) mn w mx = Ok n /\ safe mn w n.
Proof. exact n_bins_f64_terminates_safe. Qed.
Print Assumptions C12_f64_terminates_safe.

(* ---- the exact statements are false in binary64 ---- *)
(* mn = 0.1, w = 0.3: bin 0 is wider than w, bin 1 narrower *)
Theorem C12_f64_cx_unequal_width :
  B2R (edgeF ex_mn ex_w 0) + B2R ex_w < B2R (edgeF ex_mn ex_w 1) /\
  B2R (edgeF ex_mn ex_w 2) < B2R (edgeF ex_mn ex_w 1) + B2R ex_w.
Proof. exact cx_unequal_width. Qed.
Print Assumptions C12_f64_cx_unequal_width.

(* mn = 0.1, w = 0.3, mx = edge 6: 7 bins and the last edge exceeds mx + w *)
Theorem C12_f64_cx_last_edge :
  run 100%nat ex_mn ex_w cx_mx = Ok 7%nat /\
  B2R cx_mx + B2R ex_w < B2R (edgeF ex_mn ex_w 7).
Proof. exact cx_last_edge. Qed.
Print Assumptions C12_f64_cx_last_edge.

(* mn = 1, w = 2^-60: edge 1 = edge 0 although 0 < w *)
Theorem C12_f64_cx_not_separated :
  fis_finite cx_one = true /\ fis_finite cx_tiny = true /\ 0 < B2R cx_tiny /\
  bits_of_f64 (edgeF cx_one cx_tiny 1) = bits_of_f64 (edgeF cx_one cx_tiny 0).
Proof. exact cx_not_separated. Qed.
Print Assumptions C12_f64_cx_not_separated.

(* ---- the hypotheses are satisfiable: mn = 0.1, w = 0.3, mx = 1.7 ---- *)
Theorem C12_f64_ex_run : run 100%nat ex_mn ex_w ex_mx = Ok 6%nat.
Proof. exact ex_run. Qed.
Theorem C12_f64_ex_safe : safe ex_mn ex_w 6.
Proof. exact ex_safe. Qed.
Theorem C12_f64_ex_separated : forall i, (i < 6)%nat ->
  2 * u64 * (Rabs (B2R ex_mn) + (2 * IZR (Z.of_nat i) + 1) * B2R ex_w) < B2R ex_w.
Proof. exact ex_separated. Qed.
Theorem C12_f64_ex_edges :
  map (fun i => bits_of_f64 (edgeF ex_mn ex_w i)) (seq 0 7) =
  [4591870180066957722; 4600877379321698714; 4604480259023595110; 4607182418800017407;
   4608533498688228557; 4609884578576439706; 4611235658464650854]%Z.
Proof. exact ex_edges. Qed.
Print Assumptions C12_f64_ex_run.
Print Assumptions C12_f64_ex_safe.
Print Assumptions C12_f64_ex_separated.
Print Assumptions C12_f64_ex_edges.
