(* C12 in binary64: the EquiSpaced builder of Hist/Strategies.v at the IEEE-754 instance
   (Num/F64Inst.v) - the instance the correspondence check evaluates bit for bit against
   strategies.rs on f64/N64 data.  The generic theorems of Props/C12.v are stated over an ordered
   ring; here: the value of every edge as two roundings of min + i*width, monotonicity of the edges,
   termination of the counting loop at the least index whose edge exceeds the maximum (and every
   later finite edge exceeds it too), and fle is a total preorder on non-NaN values. *)
From Coq Require Import List Arith ZArith Bool.
From Flocq Require Import Core BinarySingleNaN.
Require Import Reals.
From NS Require Import Base.Res Num.Ops Num.F64 Num.F64Inst Hist.Strategies Hist.StrategiesF64.
Import ListNotations.
Local Open Scope R_scope.

Theorem C12_f64_edge : forall (mn w : F64) (i : nat),
  edge O64 (fun _ => true) mn w i = Ok (fadd mn (fmul (f64_of_Z (Z.of_nat i)) w)).
Proof. exact edge_f64. Qed.
Print Assumptions C12_f64_edge.

Theorem C12_f64_edge_value : forall (mn w : F64) (i : nat),
  fis_finite mn = true -> fis_finite w = true -> (Z.of_nat i <= 2 ^ 53)%Z ->
  Rabs (rnd (IZR (Z.of_nat i) * B2R w)) < bpow radix2 1024 ->
  Rabs (rnd (B2R mn + rnd (IZR (Z.of_nat i) * B2R w))) < bpow radix2 1024 ->
  fis_finite (edgeF mn w i) = true /\
  B2R (edgeF mn w i) = rnd (B2R mn + rnd (IZR (Z.of_nat i) * B2R w)).
Proof. exact edgeF_correct. Qed.
Print Assumptions C12_f64_edge_value.

Theorem C12_f64_edge_zero : forall (mn w : F64),
  fis_finite mn = true -> fis_finite w = true ->
  fis_finite (edgeF mn w 0) = true /\ B2R (edgeF mn w 0) = B2R mn.
Proof. exact edgeF_0. Qed.
Print Assumptions C12_f64_edge_zero.

Theorem C12_f64_edge_mono : forall (mn w : F64) (i j : nat),
  0 <= B2R w -> (i <= j)%nat -> (Z.of_nat j <= 2 ^ 53)%Z ->
  fis_finite (edgeF mn w j) = true ->
  fis_finite (edgeF mn w i) = true /\ B2R (edgeF mn w i) <= B2R (edgeF mn w j).
Proof. exact edge_mono. Qed.
Print Assumptions C12_f64_edge_mono.

(* construction terminates: as soon as SOME index has its edge above the maximum, the loop stops at the least one *)
Theorem C12_f64_terminates : forall (mn w mx : F64) (N : nat),
  fle (edgeF mn w N) mx = false ->
  exists n, (n <= N)%nat /\
    n_bins O64 fle (fun _ => true) (S N) mn w mx = Ok n /\
    fle (edgeF mn w n) mx = false /\
    forall i, (i < n)%nat -> fle (edgeF mn w i) mx = true.
Proof. exact n_bins_f64_terminates. Qed.
Print Assumptions C12_f64_terminates.

Theorem C12_f64_threshold : forall (mn w mx : F64) (N n : nat),
  fis_finite mx = true -> 0 <= B2R w ->
  n_bins O64 fle (fun _ => true) (S N) mn w mx = Ok n ->
  fle (edgeF mn w n) mx = false ->
  forall j, (n <= j)%nat -> (Z.of_nat j <= 2 ^ 53)%Z -> fis_finite (edgeF mn w j) = true ->
    fle (edgeF mn w j) mx = false /\ B2R mx < B2R (edgeF mn w j).
Proof. exact n_bins_f64_threshold. Qed.
Print Assumptions C12_f64_threshold.

Theorem C12_f64_terminates_R : forall (mn w mx : F64) (N : nat),
  fis_finite mn = true -> fis_finite w = true -> fis_finite mx = true ->
  0 <= B2R w -> (Z.of_nat N <= 2 ^ 53)%Z ->
  Rabs (rnd (IZR (Z.of_nat N) * B2R w)) < bpow radix2 1024 ->
  Rabs (rnd (B2R mn + rnd (IZR (Z.of_nat N) * B2R w))) < bpow radix2 1024 ->
  B2R mx < rnd (B2R mn + rnd (IZR (Z.of_nat N) * B2R w)) ->
  exists n, (n <= N)%nat /\
    n_bins O64 fle (fun _ => true) (S N) mn w mx = Ok n /\
    (forall i, (i < n)%nat -> B2R (edgeF mn w i) <= B2R mx) /\
    (forall j, (n <= j <= N)%nat -> B2R mx < B2R (edgeF mn w j)).
Proof. exact n_bins_f64_terminates_R. Qed.
Print Assumptions C12_f64_terminates_R.

Theorem C12_f64_le_total : forall (a b : F64),
  fis_nan a = false -> fis_nan b = false -> fle a b = true \/ fle b a = true.
Proof. exact fle_total_nonnan. Qed.
Print Assumptions C12_f64_le_total.

Theorem C12_f64_le_trans : forall (a b c : F64),
  fle a b = true -> fle b c = true -> fle a c = true.
Proof. exact fle_trans_nonnan. Qed.
Print Assumptions C12_f64_le_trans.

