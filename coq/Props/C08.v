(* C08: covariance and Pearson correlation follow their definitions.
   Model: Num/Cov.v over the reals with the summation oracle instantiated by the plain sum
   (over R every summation order gives the same value).  PARTIAL: the entrywise forward error
   of the floating-point computation (matrixmultiply's kernel order) is not proved. *)
From Coq Require Import Reals List Arith Lia.
Import ListNotations.
From NS Require Import Num.Ops Num.RInst Num.Cov Num.CovR.
Local Open Scope R_scope.

Theorem C08_cov_entry : forall rows n ddof i j,
  Forall (fun row => length row = n) rows -> (i < length rows)%nat -> (j < length rows)%nat ->
  let xi := nth i rows [] in let xj := nth j rows [] in
  let mean_i := Rsum xi / INR n in let mean_j := Rsum xj / INR n in
  entry (covR rows ddof) i j
  = Rsum (map (fun ab => (fst ab - mean_i) * (snd ab - mean_j)) (combine xi xj)) / (INR n - ddof).
Proof. exact cov_entry. Qed.
Print Assumptions C08_cov_entry.

Theorem C08_cov_shape : forall rows ddof, length (covR rows ddof) = length rows.
Proof. exact covR_length. Qed.
Print Assumptions C08_cov_shape.

Theorem C08_cov_symmetric : forall rows n ddof i j, Forall (fun row => length row = n) rows ->
  (i < length rows)%nat -> (j < length rows)%nat ->
  entry (covR rows ddof) i j = entry (covR rows ddof) j i.
Proof. exact cov_sym. Qed.
Print Assumptions C08_cov_symmetric.

Theorem C08_cov_diag_nonneg : forall rows n ddof i, Forall (fun row => length row = n) rows ->
  (i < length rows)%nat -> 0 < INR n - ddof -> 0 <= entry (covR rows ddof) i i.
Proof. exact cov_diag_nonneg. Qed.
Print Assumptions C08_cov_diag_nonneg.

Theorem C08_cauchy_schwarz : forall a b : list R, length a = length b ->
  (Rsum (map (fun ab => fst ab * snd ab) (combine a b))) ^ 2
  <= Rsum (map (fun x => x * x) a) * Rsum (map (fun x => x * x) b).
Proof. exact cauchy_schwarz. Qed.
Print Assumptions C08_cauchy_schwarz.

Theorem C08_pearson_entry : forall rows n i j, Forall (fun row => length row = n) rows ->
  (i < length rows)%nat -> (j < length rows)%nat ->
  entry (pearsonR rows) i j
  = entry (covR rows 0) i j / (sqrt (entry (covR rows 0) i i) * sqrt (entry (covR rows 0) j j)).
Proof. exact pearson_entry. Qed.
Print Assumptions C08_pearson_entry.

Theorem C08_pearson_diag : forall rows n i, Forall (fun row => length row = n) rows -> (i < length rows)%nat ->
  0 < entry (covR rows 0) i i -> entry (pearsonR rows) i i = 1.
Proof. exact pearson_diag. Qed.
Print Assumptions C08_pearson_diag.

Theorem C08_pearson_range : forall rows n i j, Forall (fun row => length row = n) rows ->
  (i < length rows)%nat -> (j < length rows)%nat ->
  0 < entry (covR rows 0) i i -> 0 < entry (covR rows 0) j j ->
  -1 <= entry (pearsonR rows) i j <= 1.
Proof. exact pearson_range. Qed.
Print Assumptions C08_pearson_range.

Theorem C08_pearson_is_r : forall rows n i j, Forall (fun row => length row = n) rows -> (1 <= n)%nat ->
  (i < length rows)%nat -> (j < length rows)%nat ->
  entry (pearsonR rows) i j = r (nth i rows []) (nth j rows []).
Proof. exact pearson_entry_r. Qed.
Print Assumptions C08_pearson_is_r.

(* unchanged by a positive affine rescaling of a variable; sign flips when it is negated *)
Theorem C08_affine_invariant : forall a b x y, 0 < a -> r (map (fun v => a * v + b) x) y = r x y.
Proof. exact r_affine. Qed.
Print Assumptions C08_affine_invariant.

Theorem C08_negation_flips : forall x y, r (map Ropp x) y = - r x y.
Proof. exact r_neg. Qed.
Print Assumptions C08_negation_flips.

(* the ddof cancels between covariance and standard deviations *)
Theorem C08_ddof_cancels : forall rows n ddof i j, Forall (fun row => length row = n) rows -> (1 <= n)%nat ->
  (i < length rows)%nat -> (j < length rows)%nat -> 0 < INR n - ddof ->
  entry (covR rows ddof) i j / (sqrt (entry (covR rows ddof) i i) * sqrt (entry (covR rows ddof) j j))
  = entry (covR rows 0) i j / (sqrt (entry (covR rows 0) i i) * sqrt (entry (covR rows 0) j j)).
Proof. exact cov_ddof_cancels. Qed.
Print Assumptions C08_ddof_cancels.
