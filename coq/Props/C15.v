(* C15: partition_mut places the pivot at its sorted rank. *)
From Coq Require Import List Arith Lia Permutation Bool.
Import ListNotations.
From NS Require Import Base.Res Base.ArrLemmas Sort.Partition Sort.PartitionProofs.

Theorem C15_partition_spec :
  forall (A : Type) (leb : A -> A -> bool),
  forall a p, p < length a ->
  exists k a' pv, partition A leb a p = Ok (k, a') /\ nth_error a p = Some pv /\
    Permutation a a' /\ length a' = length a /\ k < length a /\
    nth_error a' k = Some pv /\
    lt_seg A leb a' pv 0 k /\ ge_seg A leb a' pv (k + 1) (length a).
Proof. exact partition_spec. Qed.
Print Assumptions C15_partition_spec.

Theorem C15_partition_oob :
  forall (A : Type) (leb : A -> A -> bool) a p, length a <= p -> partition A leb a p = Panic.
Proof. exact partition_oob. Qed.
Print Assumptions C15_partition_oob.
