(* C15: partition_mut places the pivot at its sorted rank.
   For every non-empty array and in-range pivot position the model of partition_mut
   returns Ok (never Panic, never OutOfFuel), the returned k is the number of elements
   strictly smaller than the pivot value, position k holds the pivot value, everything
   before k is strictly smaller, everything after is greater or equal, and the array is a
   permutation of the input. *)
From Coq Require Import List Arith ZArith Lia Permutation Bool.
Import ListNotations.
From NS Require Import Base.Res Base.ArrLemmas Sort.Partition Sort.PartitionProofs Sort.PartitionRank Sort.Pinned.

Theorem C15_partition_rank :
  forall (A : Type) (leb : A -> A -> bool),
  (forall x y, leb x y = true \/ leb y x = true) ->
  forall a p, p < length a ->
  exists k a' pv, partition A leb a p = Ok (k, a') /\ nth_error a p = Some pv /\
    k = countb A (fun x => ltb A leb x pv) a /\
    Permutation a a' /\ length a' = length a /\ k < length a /\
    nth_error a' k = Some pv /\
    (forall m x, m < k -> nth_error a' m = Some x -> ltb A leb x pv = true) /\
    (forall m x, k < m -> nth_error a' m = Some x -> leb pv x = true).
Proof. exact partition_rank. Qed.
Print Assumptions C15_partition_rank.

(* out-of-range pivot positions are rejected (shared with C16) *)
Theorem C15_partition_oob :
  forall (A : Type) (leb : A -> A -> bool) a p, length a <= p -> partition A leb a p = Panic.
Proof. exact partition_oob. Qed.
Print Assumptions C15_partition_oob.

(* non-vacuity: the crate's documentation example, and the single-element array of defect D1 *)
Example C15_doc_example :
  partition Z Z.leb [3;1;4;5;2]%Z 2 = Ok (3, [2;1;3;4;5]%Z) /\ partition Z Z.leb [5%Z] 0 = Ok (0, [5%Z]).
Proof. split; vm_compute; reflexivity. Qed.
Print Assumptions C15_doc_example.

(* the pinned pre-repair code fails exactly there *)
Theorem C15_v0_refuted : partition_v0 Z Z.leb [5%Z] 0 = Panic.
Proof. exact partition_v0_refuted. Qed.
Print Assumptions C15_v0_refuted.
