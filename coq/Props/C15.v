(* C15: partition_mut places the pivot at its sorted rank.
   For every non-empty array and in-range pivot position the model of partition_mut
   returns Ok (never Panic, never OutOfFuel), the returned k is the number of elements
   strictly smaller than the pivot value, position k holds the pivot value, everything
   before k is strictly smaller, everything after is greater or equal, and the array is a
   permutation of the input. *)
From Coq Require Import List Arith ZArith Lia Permutation Bool.
Import ListNotations.
From NS Require Import Base.Order Base.Res Base.ArrLemmas Sort.Partition Sort.PartitionProofs Sort.PartitionRank Sort.Pinned Run.RunSort.

Theorem C15_partition_rank :
  forall (A : Type) (leb : A -> A -> bool),
  (forall x y, leb x y = true \/ leb y x = true) ->
  forall a p, p < length a ->
  exists k a' pv, partition A leb a p = Ok (k, a') /\ nth_error a p = Some pv /\
    k = countb A (fun x => ltb A leb x pv) a /\
    Permutation a a' /\ length a' = length a /\ k < length a /\
    nth_error a' k = Some pv /\
    (forall m x, m < k -> nth_error a' m = Some x -> ltb A leb x pv = true) /\
    (forall m x, k < m -> nth_error a' m = Some x -> leb pv x = true).
Proof. exact partition_rank. Qed.
Print Assumptions C15_partition_rank.

(* out-of-range pivot positions are rejected (shared with C16) *)
Theorem C15_partition_oob :
  forall (A : Type) (leb : A -> A -> bool) a p, length a <= p -> partition A leb a p = Panic.
Proof. exact partition_oob. Qed.
Print Assumptions C15_partition_oob.

(* non-vacuity: the crate's documentation example, and the single-element array of defect D1 *)
Example C15_doc_example :
  partition Z Z.leb [3;1;4;5;2]%Z 2 = Ok (3, [2;1;3;4;5]%Z) /\ partition Z Z.leb [5%Z] 0 = Ok (0, [5%Z]).
Proof. split; vm_compute; reflexivity. Qed.
Print Assumptions C15_doc_example.

(* the pinned pre-repair code fails exactly there *)
Theorem C15_v0_refuted : partition_v0 Z Z.leb [5%Z] 0 = Panic.
Proof. exact partition_v0_refuted. Qed.
Print Assumptions C15_v0_refuted.

(* Element types whose order is coarser than identity (N64: -0.0 = +0.0 with different bits; records ordered
   by a key).  The theorem above asks only for a total leb, so it covers them: the executable instance the
   correspondence check uses for N64 lanes with both zeros is the preorder leb_half on 2 * key + tag
   (Run/RunSort.v), which is total and transitive but not antisymmetric; the partition keeps every element's
   identity (Permutation), so "equal" elements are not interchangeable. *)
Theorem C15_preorder_instance :
  total leb_half /\ transitive leb_half /\
  (exists x y : Z, leb_half x y = true /\ leb_half y x = true /\ x <> y).
Proof.
  repeat split.
  - intros x y. unfold leb_half. destruct (Z.leb_spec (x / 2) (y / 2)) as [H|H]; [left; reflexivity|right].
    apply Z.leb_le. lia.
  - intros x y z' H1 H2. unfold leb_half in *. apply Z.leb_le in H1, H2. apply Z.leb_le. lia.
  - exists 0%Z, 1%Z. split; [reflexivity|split; [reflexivity|discriminate]].
Qed.
Print Assumptions C15_preorder_instance.

(* +0.0 (code 0) in front, -1.0 (code -2), pivot -0.0 (code 1) at the end: rank 1, all three codes kept *)
Example C15_signed_zeros :
  partition Z leb_half [0; -2; 1]%Z 2 = Ok (1, [-2; 1; 0]%Z).
Proof. vm_compute. reflexivity. Qed.
Print Assumptions C15_signed_zeros.
