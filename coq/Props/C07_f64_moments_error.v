(* C07 (binary64, forward error): central_moment / central_moments / kurtosis / skewness of
   summary_statistics/means.rs as modelled in Num/Kernels.v, instantiated at IEEE-754 binary64
   (f64_ops lt et), for data of ANY length n, any valid summation plan pl.
   Proofs: Num/PowiF64.v, Num/MomentsErrF64.v, Num/HornerF64.v, Num/CentralMomentF64.v,
   Num/MomentsBoundF64.v, Num/VarianceErrF64.v (pre-repair routine), Num/CentralMomentRepF64.v,
   Num/MomentsBoundRepF64.v (repaired routine), Num/MomentsCorF64.v, Num/MomentsExampleF64.v.

   The scheme: m = fl(mean);  d_i = fl(x_i - m);  r_1 = fl(sum d / n), r_k = fl((sum powi(d_i,k)) / n);
   corr = - r_1;  result = Horner at corr of the coefficients fl(C(q, j) * r_(p-j)), j = 0..p.

   DEFECT D7 (found by this analysis, confirmed on the crate, repaired).  The code took the binomial
   coefficients of order q = p + 1 = len(moments) (central_moment_coefficients_v0 / central_moment_v0).
   Over the reals this is invisible (corr = 0).  In floating point the polynomial then is NOT the
   central moment of the shifted data about their own mean, and the error m - xbar of the computed mean
   enters the result to FIRST order (~ (m - xbar) * mu_(p-1) for p >= 3; squared for p = 2):
     - section V0: the bound for central_moment_v0 necessarily contains  C2 * mdelta * A_(p-1)  with C2 >= p,
       and the naive bound "C * u64 * (1/n) sum |x_i - xbar|^p" is REFUTED (C07_f64_v0_naive_bound_refuted);
     - section REPAIRED: with q = p (central_moment_coefficients / central_moment) the binomial theorem gives
       sum_j C(p,j) rho_(p-j) c^j = (1/n) sum (d_i + c)^p  (C07_binomial_identity); at c = - rho_1 this is the
       central moment of the d_i about their own mean, in which m - xbar cancels exactly
       (d_i - dbar = (x_i - xbar) + O(u64) (|x_i - xbar| + mdelta + A_1)), and mdelta enters the bound only
       multiplied by u64:  D1 * A_p + D2 * mdelta * A_(p-1) + D3 * eta64 (1 + A_p)  with D1, D2 = O(u64).
       On the refutation witness the repaired routine returns the exact moments (C07_f64_D7_regression_pin).
   The ONLY run-time hypothesis of the central-moment theorems is that the RESULT is finite.

   Notation.  u64 = 2^-53, eta64 = 2^-1075, g64 k = (1 + u64)^k - 1 (Num/SumF64.v).
     meanR xs     exact mean of the data           cmu xs k = (1/n) sum (x_i - meanR xs)^k  (= KernelsR.mu)
     mdelta xs    = g64(n+14) * (sum |x_i|) / n + eta64        the bound on |fl(mean) - mean|
     sdev xs x    = |x - meanR xs| + mdelta xs = a_i           Amom xs k = A_k = (1/n) sum a_i^k
     bdev xs x    = a_i + A_1 = b_i;  Smom xs k = (1/n) sum b_i^k;  Tmom xs E k = (1/n) sum ((1+u64) b_i + E)^k
     rho ds k     = (1/n) sum d_i^k,  alpha ds k = (1/n) sum |d_i|^k    exact raw moments of COMPUTED shifted data
     binom        the binomial coefficients;  hornerR cs x = sum_j cs_j x^j evaluated by Horner's rule over R
     hornerU l y  = sum_(i<l) (1+u64) eta64 (y (1+u64)^2)^i     underflow contribution of Horner's rule
     Eraw n k A   error bound of the k-th computed raw moment;  Rbd n k A bound on its magnitude
     kappa n A dl bound on |corr|;  cbdq q n p A j bound on the j-th coefficient (cbd = cbdq (p+1))
     cm_bound / cmC1..3   structured bound / closed-form constants of the PRE-REPAIR routine
     cm_bound_rep, cm_err / cmD1..3   the same for the REPAIRED routine. *)
From Coq Require Import Reals List Arith ZArith Lia Permutation.
Import ListNotations.
From Flocq Require Import Core BinarySingleNaN.
From NS Require Num.KernelsR.
From NS Require Import Num.Ops Num.F64 Num.F64Inst Num.Kernels Num.SumF64 Num.CovF64
  Num.PowiF64 Num.MomentsErrF64 Num.HornerF64 Num.CentralMomentF64 Num.MomentsBoundF64
  Num.VarianceErrF64 Num.CentralMomentRepF64 Num.MomentsBoundRepF64 Num.MomentsCorF64 Num.MomentsExampleF64.
Notation B2R := (@BinarySingleNaN.B2R 53 1024).
Local Open Scope R_scope.

(* (1) powi: square and multiply, any base (subnormal, huge), any exponent *)
Theorem C07_f64_powi_error : forall lt et (x : F64) k, fin (powi (f64_ops lt et) x k) = true ->
  Rabs (B2R (powi (f64_ops lt et) x k) - B2R x ^ k)
    <= g64 k * Rabs (B2R x) ^ k + INR k * (1 + g64 k) * eta64.
Proof. exact powi_error. Qed.
Print Assumptions C07_f64_powi_error.

Theorem C07_f64_powi_error_no_underflow : forall lt et (x : F64) k, 1 <= Rabs (B2R x) ->
  fin (powi (f64_ops lt et) x k) = true ->
  Rabs (B2R (powi (f64_ops lt et) x k) - B2R x ^ k) <= g64 k * Rabs (B2R x) ^ k.
Proof. exact powi_error_big. Qed.
Print Assumptions C07_f64_powi_error_no_underflow.

(* (2) the mean, and the shift: no underflow term in a subtraction *)
Theorem C07_f64_mean_error : forall lt et pl (xs : list F64) n,
  plan_ok pl n -> n = length xs -> (1 <= n)%nat -> (Z.of_nat n <= 2 ^ 53)%Z ->
  fin (mean (f64_ops lt et) pl xs) = true ->
  Rabs (B2R (mean (f64_ops lt et) pl xs) - meanR xs) <= mdelta xs.
Proof. exact mean_delta. Qed.
Print Assumptions C07_f64_mean_error.

Theorem C07_f64_mdelta_explicit : forall xs : list F64,
  mdelta xs = g64 (length xs + 14) * Rasum (map B2R xs) / INR (length xs) + eta64.
Proof. reflexivity. Qed.
Print Assumptions C07_f64_mdelta_explicit.

Theorem C07_f64_shift_relative : forall (xs : list F64) (m : F64),
  Rabs (B2R m - meanR xs) <= mdelta xs -> Forall (fun x => fin (fsub x m) = true) xs ->
  forall x : F64, In x xs ->
  exists e, Rabs e <= u64 /\ B2R (fsub x m) = (B2R x - B2R m) * (1 + e).
Proof. exact shift_relative. Qed.
Print Assumptions C07_f64_shift_relative.

(* (3) raw moments of any list ds of binary64 numbers (in the scheme: the shifted data) *)
Theorem C07_f64_raw_moment_error : forall lt et plm (ds : list F64) n k,
  plan_ok plm n -> n = length ds -> (1 <= n)%nat -> (Z.of_nat n <= 2 ^ 53)%Z ->
  fin (raw_mom lt et plm ds k) = true ->
  Rabs (B2R (raw_mom lt et plm ds k) - rho ds k)
    <= g64 (n + k + 14) * alpha ds k + (INR k * (1 + g64 (n + k + 14)) + 1) * eta64
  /\ Forall (fun d => fin (powi (f64_ops lt et) d k) = true) ds.
Proof. exact raw_moment_error. Qed.
Print Assumptions C07_f64_raw_moment_error.

Theorem C07_f64_raw_mom_is_model : forall lt et plm (ds : list F64) k,
  raw_mom lt et plm ds k
  = fdiv (nd_sum (f64_ops lt et) plm (map (fun d => powi (f64_ops lt et) d k) ds)) (f64_of_Z (Z.of_nat (length ds))).
Proof. reflexivity. Qed.
Print Assumptions C07_f64_raw_mom_is_model.

(* the shifted data against the exact central moments: the conditioning term k * mdelta * A_(k-1) *)
Theorem C07_f64_shifted_vs_central : forall (xs : list F64) (m : F64),
  (1 <= length xs)%nat -> Rabs (B2R m - meanR xs) <= mdelta xs ->
  Forall (fun x => fin (fsub x m) = true) xs -> forall k,
  Rabs (rho (dev xs m) k - cmu xs k) <= g64 k * Amom xs k + INR k * mdelta xs * Amom xs (k - 1) /\
  alpha (dev xs m) k <= (1 + g64 k) * Amom xs k.
Proof.
  intros xs m Hn Hm Hf k. split; [apply shifted_moment_vs_central|apply alpha_le_Amom]; assumption.
Qed.
Print Assumptions C07_f64_shifted_vs_central.

Theorem C07_f64_shifted_mean_small : forall (xs : list F64) (m : F64),
  (1 <= length xs)%nat -> Rabs (B2R m - meanR xs) <= mdelta xs ->
  Forall (fun x => fin (fsub x m) = true) xs ->
  Rabs (rho (dev xs m) 1) <= mdelta xs + u64 * Amom xs 1.
Proof. exact shifted_mean_small. Qed.
Print Assumptions C07_f64_shifted_mean_small.

(* IterBinomial and Horner's rule as coded *)
Theorem C07_iter_binomial : forall n, iter_binomial n = map (binom n) (seq 0 (S n)).
Proof. exact iter_binomial_spec. Qed.
Print Assumptions C07_iter_binomial.

Theorem C07_f64_horner_error : forall lt et (cs : list F64) (x : F64),
  fin (horner (f64_ops lt et) cs x) = true ->
  Forall (fun c => fin c = true) cs /\ (cs <> [] -> fin x = true) /\
  Rabs (B2R (horner (f64_ops lt et) cs x) - hornerR (map B2R cs) (B2R x))
    <= g64 (2 * length cs) * hornerR (map (fun c => Rabs (B2R c)) cs) (Rabs (B2R x))
       + hornerU (length cs) (Rabs (B2R x)).
Proof. exact horner_error. Qed.
Print Assumptions C07_f64_horner_error.

(* ================================================================== *)
(* V0.  The PRE-REPAIR routine central_moment_v0 (binomials of order p+1) *)
(* ================================================================== *)
Theorem C07_f64_cm_bound_explicit : forall n p A dl,
  cm_bound n p A dl
  = (let kp := dl + u64 * A 1%nat + Eraw n 1 A in
     g64 p * A p + INR p * dl * A (p - 1)%nat + Eraw n p A
     + kp * hornerR (map (cbd n p A) (seq 1 p)) kp
     + g64 (2 * S p) * hornerR (map (cbd n p A) (seq 0 (S p))) kp
     + hornerU (S p) kp) /\
  (forall k, Eraw n k A = g64 (n + k + 14) * ((1 + g64 k) * A k) + (INR k * (1 + g64 (n + k + 14)) + 1) * eta64) /\
  (forall j, cbd n p A j = INR (binom (S p) j) * ((1 + g64 (p - j)) * A (p - j)%nat + Eraw n (p - j) A) * (1 + u64) + eta64).
Proof. intros. repeat split. Qed.
Print Assumptions C07_f64_cm_bound_explicit.

Theorem C07_f64_central_moment_v0_error : forall lt et pl (xs : list F64) p n,
  plan_ok pl n -> n = length xs -> (1 <= n)%nat -> (Z.of_nat n <= 2 ^ 53)%Z ->
  (2 <= p <= 52)%nat -> fin (central_moment_v0 (f64_ops lt et) pl xs p) = true ->
  Rabs (B2R (central_moment_v0 (f64_ops lt et) pl xs p) - cmu xs p) <= cm_bound n p (Amom xs) (mdelta xs).
Proof. exact central_moment_v0_error. Qed.
Print Assumptions C07_f64_central_moment_v0_error.

Theorem C07_f64_central_moment_v0_error_closed : forall lt et pl (xs : list F64) p n,
  plan_ok pl n -> n = length xs -> (1 <= n)%nat -> (Z.of_nat n <= 2 ^ 53)%Z ->
  (2 <= p <= 52)%nat -> fin (central_moment_v0 (f64_ops lt et) pl xs p) = true ->
  g64 (n + 16) <= / 4 ->
  Rabs (B2R (central_moment_v0 (f64_ops lt et) pl xs p) - cmu xs p)
    <= cmC1 n p 4 * Amom xs p + cmC2 n p 4 * (mdelta xs * Amom xs (p - 1))
       + cmC3 n p 4 * (eta64 * (1 + Amom xs p)).
Proof. exact central_moment_v0_error_closed. Qed.
Print Assumptions C07_f64_central_moment_v0_error_closed.

Theorem C07_f64_central_moment_v0_error_closed_th : forall lt et pl (xs : list F64) p n th,
  plan_ok pl n -> n = length xs -> (1 <= n)%nat -> (Z.of_nat n <= 2 ^ 53)%Z ->
  (2 <= p <= 52)%nat -> fin (central_moment_v0 (f64_ops lt et) pl xs p) = true ->
  1 <= th -> kappa n (Amom xs) (mdelta xs) <= th * Amom xs 1 ->
  Rabs (B2R (central_moment_v0 (f64_ops lt et) pl xs p) - cmu xs p)
    <= cmC1 n p th * Amom xs p + cmC2 n p th * (mdelta xs * Amom xs (p - 1))
       + cmC3 n p th * (eta64 * (1 + Amom xs p)).
Proof. exact central_moment_v0_error_closed_th. Qed.
Print Assumptions C07_f64_central_moment_v0_error_closed_th.

(* C2 >= p: the error of the mean enters to first order *)
Theorem C07_f64_v0_closed_constants_explicit : forall n p th,
  let G := g64 (n + 2 * p + 15) in let K := 2 ^ S p * th ^ p in
  let r1 := 1 + G in let r2 := (INR p * (1 + G) + 1) * (1 + u64) + 1 in
  cmC1 n p th = g64 p + g64 (n + 2 * p + 14) + INR p * K * r1 * g64 (n + 16) + g64 (2 * S p) * (INR (S p) * K * r1) /\
  cmC2 n p th = INR p + INR p * K * r1 /\
  cmC3 n p th = (INR p * (1 + G) + 1) + INR p * K * (r1 * (2 + G) + r2) + g64 (2 * S p) * (INR (S p) * K * r2)
                + INR (S p) * ((1 + g64 (2 * p + 1)) * th ^ p).
Proof. intros. repeat split. Qed.
Print Assumptions C07_f64_v0_closed_constants_explicit.

Theorem C07_f64_v0_C1_first_order : forall n p th, (1 <= p)%nat -> 1 <= th -> INR (n + 2 * p + 15) * u64 <= / 2 ->
  cmC1 n p th <= (2 * INR (n + 3 * p + 14) + 4 * INR p * (2 ^ S p * th ^ p) * INR (n + 16)
                  + 8 * INR (S p) * INR (S p) * (2 ^ S p * th ^ p)) * u64.
Proof. exact cmC1_first_order. Qed.
Print Assumptions C07_f64_v0_C1_first_order.

(* order 2 of the pre-repair routine: the polynomial collapses to r_2; mean error squared *)
Theorem C07_f64_variance_v0_error : forall lt et pl (xs : list F64) n,
  plan_ok pl n -> n = length xs -> (1 <= n)%nat -> (Z.of_nat n <= 2 ^ 53)%Z ->
  fin (central_moment_v0 (f64_ops lt et) pl xs 2) = true ->
  Rabs (B2R (central_moment_v0 (f64_ops lt et) pl xs 2) - cmu xs 2) <= var_bound n (Amom xs) (mdelta xs).
Proof. exact central_moment2_v0_error. Qed.
Print Assumptions C07_f64_variance_v0_error.

Theorem C07_f64_var_bound_explicit : forall n A dl,
  var_bound n A dl
  = (let kp := kappa n A dl in
     g64 2 * A 2%nat + dl * dl + Eraw n 2 A + kp * (3 * kp * u64 + eta64)
     + g64 6 * (Rbd n 2 A + kp * ((3 * kp * (1 + u64) + eta64) + kp * 3)) + hornerU 3 kp).
Proof. reflexivity. Qed.
Print Assumptions C07_f64_var_bound_explicit.

Theorem C07_f64_moments_v0_example : forall p, In p [2; 3; 4; 9; 20]%nat ->
  Rabs (B2R (central_moment_v0 OE exm_pl1 exm_xs p) - cmu exm_xs p) <= cm_bound 7 p (Amom exm_xs) (mdelta exm_xs) /\
  Rabs (B2R (central_moment_v0 OE exm_pl3 exm_ys p) - cmu exm_ys p) <= cm_bound 6 p (Amom exm_ys) (mdelta exm_ys).
Proof. exact central_moment_v0_error_example. Qed.
Print Assumptions C07_f64_moments_v0_example.

(* REFUTED for the pre-repair routine: "error <= C * u64 * (1/n) sum |x_i - xbar|^p".
   Data [2^52+1; 2^52+2]: exact mean 2^52 + 3/2, computed mean 2^52 + 2;
   order 2: computed 1/2, exact 1/4 = (1/n) sum |x_i - xbar|^2; order 3: computed 1/4, exact 0. *)
Theorem C07_f64_v0_naive_bound_refuted :
  plan_ok cx_mom_pl 2 /\
  fin (central_moment_v0 OE cx_mom_pl cx_mom_xs 2) = true /\ fin (central_moment_v0 OE cx_mom_pl cx_mom_xs 3) = true /\
  meanR cx_mom_xs = IZR (2 ^ 52) + 3 / 2 /\
  cmu cx_mom_xs 2 = / 4 /\ cmu cx_mom_xs 3 = 0 /\
  Rsum (map (fun x : F64 => Rabs (B2R x - meanR cx_mom_xs) ^ 2) cx_mom_xs) / 2 = / 4 /\
  Rsum (map (fun x : F64 => Rabs (B2R x - meanR cx_mom_xs) ^ 3) cx_mom_xs) / 2 = / 8 /\
  B2R (central_moment_v0 OE cx_mom_pl cx_mom_xs 2) = / 2 /\
  B2R (central_moment_v0 OE cx_mom_pl cx_mom_xs 3) = / 4.
Proof. exact naive_moment_bound_refuted. Qed.
Print Assumptions C07_f64_v0_naive_bound_refuted.

(* regression pin of D7: (repaired, pre-repair) bit patterns on the witness, orders 2, 3, 4;
   the repaired routine returns the exact central moments 1/4, 0 (and 1/16) *)
Theorem C07_f64_D7_regression_pin :
  map (fun p => (bits_of_f64 (central_moment OE cx_mom_pl cx_mom_xs p),
                 bits_of_f64 (central_moment_v0 OE cx_mom_pl cx_mom_xs p))) [2; 3; 4]%nat
  = [(0x3FD0000000000000, 0x3FE0000000000000); (0, 0x3FD0000000000000);
     (0x3FB0000000000000, 0x3FC8000000000000)]%Z /\
  B2R (central_moment OE cx_mom_pl cx_mom_xs 2) = cmu cx_mom_xs 2 /\
  B2R (central_moment OE cx_mom_pl cx_mom_xs 3) = cmu cx_mom_xs 3.
Proof. exact central_moment_repaired_on_witness. Qed.
Print Assumptions C07_f64_D7_regression_pin.

(* ================================================================== *)
(* REPAIRED.  central_moment / central_moments (binomials of order p)   *)
(* ================================================================== *)
(* the binomial theorem for the coefficients of the code, and the polynomial identity *)
Theorem C07_binomial_theorem : forall p (d c : R),
  Rsum (map (fun i => INR (binom p i) * d ^ (p - i) * c ^ i) (seq 0 (S p))) = (d + c) ^ p.
Proof. exact binom_thm. Qed.
Print Assumptions C07_binomial_theorem.

Theorem C07_binomial_identity : forall (ds : list F64) p (c : R),
  hornerR (map (fun j => INR (binom p j) * rho ds (p - j)) (seq 0 (S p))) c
  = Rsum (map (fun d : F64 => (B2R d + c) ^ p) ds) / INR (length ds).
Proof. exact rho_binom_identity. Qed.
Print Assumptions C07_binomial_identity.

(* the error of the mean cancels in the shifted data centred at their own exact mean *)
Theorem C07_f64_centred_shifted_data : forall (xs : list F64) (m : F64),
  (1 <= length xs)%nat -> Rabs (B2R m - meanR xs) <= mdelta xs ->
  Forall (fun x => fin (fsub x m) = true) xs -> forall x, In x xs ->
  Rabs ((B2R (fsub x m) - rho (dev xs m) 1) - (B2R x - meanR xs)) <= u64 * bdev xs x.
Proof. intros xs m Hn Hm Hf x Hx. exact (proj1 (centred_elem xs m Hn Hm Hf x Hx)). Qed.
Print Assumptions C07_f64_centred_shifted_data.

Theorem C07_f64_cm_bound_rep_explicit : forall (xs : list F64) n p,
  cm_err xs n p
  = (let A := Amom xs in let kp := kappa n A (mdelta xs) in
     INR p * u64 * (1 + g64 (p - 1)) * Smom xs p
     + INR p * Eraw n 1 A * Tmom xs (Eraw n 1 A) (p - 1)
     + hornerR (map (fun j => INR (binom p j) * Eraw n (p - j) A) (seq 0 (S p))) kp
     + kp * hornerR (map (fun j => INR (binom p j) * Rbd n (p - j) A * u64 + eta64) (seq 1 p)) kp
     + g64 (2 * S p) * hornerR (map (cbdq p n p A) (seq 0 (S p))) kp
     + hornerU (S p) kp).
Proof. reflexivity. Qed.
Print Assumptions C07_f64_cm_bound_rep_explicit.

(* (4) headline, repaired routine, every order 2 <= p <= 53 *)
Theorem C07_f64_central_moment_error : forall lt et pl (xs : list F64) p n,
  plan_ok pl n -> n = length xs -> (1 <= n)%nat -> (Z.of_nat n <= 2 ^ 53)%Z ->
  (2 <= p <= 53)%nat -> fin (central_moment (f64_ops lt et) pl xs p) = true ->
  Rabs (B2R (central_moment (f64_ops lt et) pl xs p) - cmu xs p) <= cm_err xs n p.
Proof. exact central_moment_error. Qed.
Print Assumptions C07_f64_central_moment_error.

(* closed form: D1 * A_p + D2 * mdelta * A_(p-1) + D3 * eta64 (1 + A_p), D1 and D2 of first order in u64 *)
Theorem C07_f64_central_moment_error_closed : forall lt et pl (xs : list F64) p n,
  plan_ok pl n -> n = length xs -> (1 <= n)%nat -> (Z.of_nat n <= 2 ^ 53)%Z ->
  (2 <= p <= 53)%nat -> fin (central_moment (f64_ops lt et) pl xs p) = true ->
  g64 (n + 16) <= / 4 ->
  Rabs (B2R (central_moment (f64_ops lt et) pl xs p) - cmu xs p)
    <= cmD1 n p 4 * Amom xs p + cmD2 n p 4 * (mdelta xs * Amom xs (p - 1))
       + cmD3 n p 4 * (eta64 * (1 + Amom xs p)).
Proof. exact central_moment_error_closed. Qed.
Print Assumptions C07_f64_central_moment_error_closed.

Theorem C07_f64_closed_constants_explicit : forall n p th,
  let G := g64 (n + 2 * p + 15) in let Gc := g64 (n + 2 * p + 14) in let K := 2 ^ S p * th ^ p in
  let r1 := 1 + G in let r2 := (INR p * (1 + G) + 1) * (1 + u64) + 1 in let r3 := INR p * (1 + G) + 1 in
  let cT := 4 ^ (p - 1) * 2 ^ p in
  cmD2 n p th = INR p * K * (Gc + u64 * r1) /\
  cmD1 n p th = INR p * u64 * (1 + g64 (p - 1)) * 2 ^ S p + INR p * cT * g64 (n + 16) + Gc
                + g64 (2 * S p) * (INR (S p) * K * r1) + cmD2 n p th * g64 (n + 16) /\
  cmD3 n p th = INR p * cT * (2 + G) + r3 + INR p * K * r3 + INR p * K * (u64 * r3 + 1)
                + g64 (2 * S p) * (INR (S p) * K * r2) + INR (S p) * ((1 + g64 (2 * p + 1)) * th ^ p)
                + cmD2 n p th * (2 + G).
Proof. intros. repeat split. Qed.
Print Assumptions C07_f64_closed_constants_explicit.

(* the constant in front of  mdelta * A_(p-1)  is O(u64): the mean error enters at second order only *)
Theorem C07_f64_D2_first_order : forall n p th, 1 <= th -> INR (n + 2 * p + 15) * u64 <= / 2 ->
  0 <= cmD2 n p th <= (INR p * (2 ^ S p * th ^ p) * (2 * INR (n + 2 * p + 14) + 2)) * u64.
Proof. exact cmD2_first_order. Qed.
Print Assumptions C07_f64_D2_first_order.

Theorem C07_f64_D1_first_order : forall n p th, (1 <= p)%nat -> 1 <= th -> INR (n + 2 * p + 15) * u64 <= / 2 ->
  cmD1 n p th <= (4 * INR p * 2 ^ S p + 2 * INR p * (4 ^ (p - 1) * 2 ^ p) * INR (n + 16) + 2 * INR (n + 2 * p + 14)
                  + 8 * INR (S p) * INR (S p) * (2 ^ S p * th ^ p)
                  + INR p * (2 ^ S p * th ^ p) * (2 * INR (n + 2 * p + 14) + 2)) * u64.
Proof. exact cmD1_first_order. Qed.
Print Assumptions C07_f64_D1_first_order.

(* orders 0 and 1 are exactly 1 and 0 (both routines); the list central_moments order by order *)
Theorem C07_f64_orders_0_1 : forall lt et pl (xs : list F64),
  B2R (central_moment (f64_ops lt et) pl xs 0) = 1 /\ B2R (central_moment (f64_ops lt et) pl xs 1) = 0 /\
  B2R (central_moment_v0 (f64_ops lt et) pl xs 0) = 1 /\ B2R (central_moment_v0 (f64_ops lt et) pl xs 1) = 0.
Proof.
  intros. split; [apply (central_moment_order0 lt et pl xs)|]. split; [apply (central_moment_order1 lt et pl xs)|].
  apply (central_moment_v0_orders01 lt et pl xs).
Qed.
Print Assumptions C07_f64_orders_0_1.

Theorem C07_f64_central_moments_error : forall lt et pl (xs : list F64) p k n,
  plan_ok pl n -> n = length xs -> (1 <= n)%nat -> (Z.of_nat n <= 2 ^ 53)%Z ->
  (2 <= k <= p)%nat -> (k <= 53)%nat ->
  fin (nth k (central_moments (f64_ops lt et) pl xs p) fzero) = true ->
  Rabs (B2R (nth k (central_moments (f64_ops lt et) pl xs p) fzero) - cmu xs k) <= cm_err xs n k.
Proof. exact central_moments_error. Qed.
Print Assumptions C07_f64_central_moments_error.

Theorem C07_f64_cmu_is_mu : forall (xs : list F64) k, cmu xs k = KernelsR.mu (map B2R xs) k.
Proof. exact cmu_is_mu. Qed.
Print Assumptions C07_f64_cmu_is_mu.

(* (5) kurtosis = m4 / powi m2 2 and skewness = m3 / powi (sqrt m2) 3 (repaired central_moments) *)
Theorem C07_f64_kurtosis_error : forall lt et pl (xs : list F64) n,
  plan_ok pl n -> n = length xs -> (1 <= n)%nat -> (Z.of_nat n <= 2 ^ 53)%Z ->
  fin (kurtosis (f64_ops lt et) pl xs) = true ->
  fin (powi (f64_ops lt et) (central_moment (f64_ops lt et) pl xs 2) 2) = true ->
  let mu2 := cmu xs 2 in let mu4 := cmu xs 4 in
  let e2 := cm_err xs n 2 in let e4 := cm_err xs n 4 in
  let eD := g64 2 * (Rabs mu2 + e2) ^ 2 + INR 2 * (1 + g64 2) * eta64 + e2 * (2 * Rabs mu2 + e2) in
  mu2 <> 0 -> eD <= mu2 ^ 2 / 4 ->
  Rabs (B2R (kurtosis (f64_ops lt et) pl xs) - mu4 / mu2 ^ 2)
    <= 4 / 3 * (e4 + Rabs mu4 * (eD / mu2 ^ 2)) / mu2 ^ 2 * (1 + u64) + Rabs (mu4 / mu2 ^ 2) * u64 + eta64.
Proof. exact kurtosis_error. Qed.
Print Assumptions C07_f64_kurtosis_error.

Theorem C07_f64_skewness_error : forall lt et pl (xs : list F64) n,
  plan_ok pl n -> n = length xs -> (1 <= n)%nat -> (Z.of_nat n <= 2 ^ 53)%Z ->
  fin (skewness (f64_ops lt et) pl xs) = true ->
  fin (powi (f64_ops lt et) (fsqrt (central_moment (f64_ops lt et) pl xs 2)) 3) = true ->
  let mu2 := cmu xs 2 in let mu3 := cmu xs 3 in
  let e2 := cm_err xs n 2 in let e3 := cm_err xs n 3 in
  let s := sqrt mu2 in
  let es := e2 / s * (1 + u64) + s * u64 + eta64 in
  let eD := g64 3 * (s + es) ^ 3 + INR 3 * (1 + g64 3) * eta64 + ((s + es) ^ 3 - s ^ 3) in
  0 < mu2 -> e2 <= mu2 -> eD <= s ^ 3 / 4 ->
  Rabs (B2R (skewness (f64_ops lt et) pl xs) - mu3 / s ^ 3)
    <= 4 / 3 * (e3 + Rabs mu3 * (eD / s ^ 3)) / s ^ 3 * (1 + u64) + Rabs (mu3 / s ^ 3) * u64 + eta64.
Proof. exact skewness_error. Qed.
Print Assumptions C07_f64_skewness_error.

(* the closed form applies to the bounds e2, e3, e4 of the two corollaries *)
Theorem C07_f64_cm_err_closed : forall (xs : list F64) n p, n = length xs -> (1 <= n)%nat -> (1 <= p)%nat ->
  g64 (n + 16) <= / 4 ->
  cm_err xs n p <= cmD1 n p 4 * Amom xs p + cmD2 n p 4 * (mdelta xs * Amom xs (p - 1))
                   + cmD3 n p 4 * (eta64 * (1 + Amom xs p)).
Proof. exact cm_bound_rep_Amom_closed. Qed.
Print Assumptions C07_f64_cm_err_closed.

(* the hypotheses are satisfiable: integer data under two plans, and data mixing inexact decimals
   with a subnormal, orders 2, 3, 4, 9, 20 *)
Theorem C07_f64_moments_example : forall p, In p [2; 3; 4; 9; 20]%nat ->
  Rabs (B2R (central_moment OE exm_pl1 exm_xs p) - cmu exm_xs p) <= cm_err exm_xs 7 p /\
  Rabs (B2R (central_moment OE exm_pl2 exm_xs p) - cmu exm_xs p) <= cm_err exm_xs 7 p /\
  Rabs (B2R (central_moment OE exm_pl3 exm_ys p) - cmu exm_ys p) <= cm_err exm_ys 6 p.
Proof. exact central_moment_error_example. Qed.
Print Assumptions C07_f64_moments_example.

Theorem C07_f64_moments_closed_example : forall p, In p [2; 3; 4]%nat ->
  let xs := map f64_of_Z [1; 2; 4; 7; 11; 16; 22]%Z in
  let pl := PRows [(true, [0; 1; 2; 3]%nat); (false, [4; 5; 6]%nat)] in
  Rabs (B2R (central_moment (f64_ops [] []) pl xs p) - cmu xs p)
    <= cmD1 7 p 4 * Amom xs p + cmD2 7 p 4 * (mdelta xs * Amom xs (p - 1))
       + cmD3 7 p 4 * (eta64 * (1 + Amom xs p)).
Proof. exact central_moment_error_closed_example. Qed.
Print Assumptions C07_f64_moments_closed_example.

Theorem C07_f64_kurtosis_skewness_runs_finite :
  fin (kurtosis OE exm_pl1 exm_xs) = true /\ fin (powi OE (central_moment OE exm_pl1 exm_xs 2) 2) = true /\
  fin (skewness OE exm_pl1 exm_xs) = true /\ fin (powi OE (fsqrt (central_moment OE exm_pl1 exm_xs 2)) 3) = true /\
  fin (kurtosis OE exm_pl3 exm_ys) = true /\ fin (powi OE (central_moment OE exm_pl3 exm_ys 2) 2) = true /\
  fin (skewness OE exm_pl3 exm_ys) = true /\ fin (powi OE (fsqrt (central_moment OE exm_pl3 exm_ys 2)) 3) = true.
Proof. exact kurtosis_skewness_finite_example. Qed.
Print Assumptions C07_f64_kurtosis_skewness_runs_finite.

(* all hypotheses of the kurtosis / skewness theorems (finiteness AND the real-number smallness
   conditions) hold on the run exm_xs = [1; 2; 4; 7; 11; 16; 22]: the conclusions, instantiated *)
Theorem C07_f64_example_e2_small : 0 <= cm_err exm_xs 7 2 <= / 1000.
Proof. exact exm_e2. Qed.
Print Assumptions C07_f64_example_e2_small.

Theorem C07_f64_kurtosis_example :
  let mu2 := cmu exm_xs 2 in let mu4 := cmu exm_xs 4 in
  let e2 := cm_err exm_xs 7 2 in let e4 := cm_err exm_xs 7 4 in
  let eD := g64 2 * (Rabs mu2 + e2) ^ 2 + INR 2 * (1 + g64 2) * eta64 + e2 * (2 * Rabs mu2 + e2) in
  Rabs (B2R (kurtosis OE exm_pl1 exm_xs) - mu4 / mu2 ^ 2)
    <= 4 / 3 * (e4 + Rabs mu4 * (eD / mu2 ^ 2)) / mu2 ^ 2 * (1 + u64) + Rabs (mu4 / mu2 ^ 2) * u64 + eta64.
Proof. exact kurtosis_error_example. Qed.
Print Assumptions C07_f64_kurtosis_example.

Theorem C07_f64_skewness_example :
  let mu2 := cmu exm_xs 2 in let mu3 := cmu exm_xs 3 in
  let e2 := cm_err exm_xs 7 2 in let e3 := cm_err exm_xs 7 3 in
  let s := sqrt mu2 in
  let es := e2 / s * (1 + u64) + s * u64 + eta64 in
  let eD := g64 3 * (s + es) ^ 3 + INR 3 * (1 + g64 3) * eta64 + ((s + es) ^ 3 - s ^ 3) in
  Rabs (B2R (skewness OE exm_pl1 exm_xs) - mu3 / s ^ 3)
    <= 4 / 3 * (e3 + Rabs mu3 * (eD / s ^ 3)) / s ^ 3 * (1 + u64) + Rabs (mu3 / s ^ 3) * u64 + eta64.
Proof. exact skewness_error_example. Qed.
Print Assumptions C07_f64_skewness_example.
