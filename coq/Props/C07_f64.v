(* C07 in binary64: the sign clause "the variance of data with non-negative weights is
   non-negative" on the IEEE-754 instance of the loop of inner_weighted_var - the instance the
   correspondence check evaluates bit for bit against means.rs.
   The attempt to prove it for the loop as it stood (west_v1: s += w (x - m)(x - m')) FAILED and
   produced a counterexample that the real code reproduced (defect D6, repaired): when a weight
   absorbs the accumulated weight the running mean overshoots the observation and the term is
   negative.  For the repaired loop (west: s += W_old (w / W_new (x - m)) (x - m)) the sign clause
   is proved with no condition beyond finiteness of the run.
   OW = f64_ops [] []; west_run_ok st l: every weight finite and >= 0, every state finite;
   sw / ss: the weight-sum and sum-of-squares components of a state. *)
From Coq Require Import List ZArith Bool.
From Flocq Require Import Core BinarySingleNaN.
Require Import Reals.
From NS Require Import Num.F64 Num.Ops Num.F64Inst Num.Kernels Num.WestF64.
Import ListNotations.
Notation B2R := (@BinarySingleNaN.B2R 53 1024).
Local Open Scope R_scope.

(* the pre-repair loop: refuted, with the witness [-1, 1.5 * 2^-53] / weights [2^-100, 1] *)
Theorem C07_f64_v1_nonneg_refuted : exists data ws : list F64,
  length data = length ws /\ Forall (fun x => fis_finite x = true) data /\
  Forall (fun w => fis_finite w = true /\ 0 < B2R w) ws /\
  (let '(wsum, m, s) := west_v1_final data ws in
   fis_finite wsum = true /\ fis_finite m = true /\ fis_finite s = true /\ B2R s < 0 /\ B2R fzero < B2R wsum) /\
  fis_finite (west_v1 OW data ws fzero) = true /\ B2R (west_v1 OW data ws fzero) < 0.
Proof. exact west_v1_nonneg_refuted. Qed.
Print Assumptions C07_f64_v1_nonneg_refuted.

Theorem C07_f64_v1_witness_bits : bits_of_f64 (west_v1 OW cx_data cx_ws fzero) = 0xbc90000000000001%Z.
Proof. exact cx_v1_value. Qed.
Print Assumptions C07_f64_v1_witness_bits.

(* ... and what was true of it: non-negative as long as no weight absorbs the accumulated weight *)
Theorem C07_f64_v1_nonneg_without_absorption : forall data ws ddof,
  west_v1_run_ok (fzero, fzero, fzero) (combine data ws) ->
  fis_finite ddof = true -> 0 <= B2R ddof -> B2R ddof < B2R (sw (west_v1_final data ws)) ->
  fis_nan (west_v1 OW data ws ddof) = false /\
  (fis_finite (west_v1 OW data ws ddof) = true -> 0 <= B2R (west_v1 OW data ws ddof)).
Proof. exact west_v1_nonneg. Qed.
Print Assumptions C07_f64_v1_nonneg_without_absorption.

(* the repaired loop: every term added to s is non-negative *)
Theorem C07_f64_step_nonneg : forall wsum m s x w : F64,
  let wsum' := fadd wsum w in
  let xmm := fsub x m in
  let inc := fmul (fdiv w wsum') xmm in
  let m' := fadd m inc in
  let sinc := fmul (fmul wsum inc) xmm in
  let s' := fadd s sinc in
  fis_finite wsum' = true -> fis_finite m' = true -> fis_finite s' = true ->
  0 <= B2R wsum -> 0 < B2R w ->
  0 <= B2R sinc /\ (0 <= B2R s -> 0 <= B2R s') /\ 0 < B2R wsum'.
Proof. exact west_step_s_nonneg. Qed.
Print Assumptions C07_f64_step_nonneg.

Theorem C07_f64_sum_of_squares_nonneg : forall data ws : list F64,
  west_run_ok (fzero, fzero, fzero) (combine data ws) ->
  let st := west_final data ws in
  st_finite st /\ 0 <= B2R (sw st) /\ 0 <= B2R (ss st).
Proof. exact west_s_nonneg_f64. Qed.
Print Assumptions C07_f64_sum_of_squares_nonneg.

(* the variance: never NaN, and non-negative whenever finite *)
Theorem C07_f64_variance_nonneg : forall (data ws : list F64) (ddof : F64),
  west_run_ok (fzero, fzero, fzero) (combine data ws) ->
  fis_finite ddof = true -> 0 <= B2R ddof -> B2R ddof < B2R (sw (west_final data ws)) ->
  fis_nan (west OW data ws ddof) = false /\
  (fis_finite (west OW data ws ddof) = true -> 0 <= B2R (west OW data ws ddof)).
Proof. exact west_nonneg_f64. Qed.
Print Assumptions C07_f64_variance_nonneg.

(* the hypothesis is satisfiable, also by the input that broke the old loop *)
Theorem C07_f64_witness_repaired :
  bits_of_f64 (west OW cx_data cx_ws fzero) = 0x39b0000000000002%Z /\
  fis_finite (west OW cx_data cx_ws fzero) = true /\ 0 < B2R (west OW cx_data cx_ws fzero).
Proof. exact west_repaired_on_cx. Qed.
Print Assumptions C07_f64_witness_repaired.

Theorem C07_f64_run_ok_checkable : forall l st, west_run_okb st l = true -> west_run_ok st l.
Proof. exact west_run_okb_sound. Qed.
Print Assumptions C07_f64_run_ok_checkable.
