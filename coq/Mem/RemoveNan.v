(* NaN compaction (maybe_nan/mod.rs: remove_nan_mut) and the pointer cast that
   re-types the stripped view (cast_view_mut), at list level and at
   buffer/descriptor level. *)
From Coq Require Import List Arith ZArith Lia Bool.
Import ListNotations.
From NS Require Import Base.Res Mem.Buffer.

Section RN.
Variable A : Type.
Variable is_nan : A -> bool.

(* while i <= j && !view[i].is_nan() { i += 1 } *)
Fixpoint rn_scan_i (fuel : nat) (a : list A) (i j : nat) : res nat :=
  match fuel with
  | O => OutOfFuel
  | S f =>
    if j <? i then Ok i else
    x <- get a i ;;
    if is_nan x then Ok i else rn_scan_i f a (i + 1) j
  end.

(* while j > i && view[j].is_nan() { j -= 1 } *)
Fixpoint rn_scan_j (fuel : nat) (a : list A) (i j : nat) : res nat :=
  match fuel with
  | O => OutOfFuel
  | S f =>
    if j <=? i then Ok j else
    x <- get a j ;;
    if is_nan x then rn_scan_j f a i (j - 1) else Ok j
  end.

Fixpoint rn_outer (fuel : nat) (a : list A) (i j : nat) : res (nat * list A) :=
  match fuel with
  | O => OutOfFuel
  | S f =>
    i' <- rn_scan_i (S (length a)) a i j ;;
    j' <- rn_scan_j (S (length a)) a i' j ;;
    if j' <=? i' then Ok (i', a)
    else a' <- swap a i' j' ;; rn_outer f a' (i' + 1) (j' - 1)
  end.

(* returns the number of survivors and the rearranged lane; the survivors are the
   first [fst] elements *)
Definition remove_nan (a : list A) : res (nat * list A) :=
  match a with
  | [] => Ok (0, [])
  | _ => rn_outer (S (length a)) a 0 (length a - 1)
  end.
End RN.

(* view.slice_move(s![..i]) keeps offset and stride *)
Definition slice_prefix (v : view1) (i : nat) : view1 :=
  {| v_off := v_off v; v_len := i; v_stride := v_stride v |}.

(* cast_view_mut: descriptor arithmetic of the pointer cast. The result is described
   as (pointer offset handed to from_shape_ptr, len, non-negative stride, inverted?) and
   then normalised to a view1 by invert_axis. *)
Definition cast_view (v : view1) : view1 :=
  let len := v_len v in
  if len <=? 1 then {| v_off := v_off v; v_len := len; v_stride := 0 |}
  else if (0 <=? v_stride v)%Z then v
  else
    let neg_stride := (- v_stride v)%Z in
    let neg_ptr := (v_off v + Z.of_nat (len - 1) * v_stride v)%Z in
    (* from_shape_ptr([len].strides([neg_stride]), neg_ptr) then invert_axis:
       the pointer moves to the last element, the stride is negated *)
    {| v_off := (neg_ptr + Z.of_nat (len - 1) * neg_stride)%Z; v_len := len; v_stride := (- neg_stride)%Z |}.

(* pre-repair Option<T> path (defect D3): from_shape_ptr(dim, ptr) = unit stride *)
Definition cast_view_v0 (v : view1) : view1 :=
  {| v_off := v_off v; v_len := v_len v; v_stride := 1 |}.

Section RNB.
Context {A : Type}.
Variable is_nan : A -> bool.

(* buffer-level remove_nan_mut of the MaybeNan impls: compact, slice the prefix, cast *)
Definition remove_nan_b (buf : list A) (v : view1) : res (view1 * list A) :=
  r <- lift_op (remove_nan A is_nan) buf (cells v) ;;
  let '(i, buf') := r in Ok (cast_view (slice_prefix v i), buf').

Definition remove_nan_b_v0 (buf : list A) (v : view1) : res (view1 * list A) :=
  r <- lift_op (remove_nan A is_nan) buf (cells v) ;;
  let '(i, buf') := r in Ok (cast_view_v0 (slice_prefix v i), buf').
End RNB.
