(* Flat buffers and 1-D strided views: the memory-level reading of an in-place
   list operation is  read the view, run the operation, write the view back. *)
From Coq Require Import List Arith ZArith Lia Bool.
Import ListNotations.
From NS Require Import Base.Res.

Record view1 := { v_off : Z; v_len : nat; v_stride : Z }.

Definition cell_at (v : view1) (k : nat) : nat :=
  Z.to_nat (v_off v + Z.of_nat k * v_stride v).

Definition cells (v : view1) : list nat := map (cell_at v) (seq 0 (v_len v)).

Section Buf.
Context {A : Type}.

Fixpoint vread (buf : list A) (cs : list nat) : res (list A) :=
  match cs with
  | [] => Ok []
  | c :: t => x <- get buf c ;; r <- vread buf t ;; Ok (x :: r)
  end.

Fixpoint vwrite (buf : list A) (cs : list nat) (l : list A) : list A :=
  match cs, l with
  | c :: cs', x :: l' => vwrite (upd buf c x) cs' l'
  | _, _ => buf
  end.

(* buffer-level semantics of a list-level in-place operation returning a result *)
Definition lift_op {R} (op : list A -> res (R * list A)) (buf : list A) (cs : list nat)
  : res (R * list A) :=
  l <- vread buf cs ;;
  r <- op l ;;
  let '(x, l') := r in Ok (x, vwrite buf cs l').
End Buf.
