(* Proofs about flat buffers, strided views, lifted operations and the view cast. *)
From Coq Require Import List Arith ZArith Lia Permutation Bool.
Import ListNotations.
From NS Require Import Base.Res Base.ArrLemmas Mem.Buffer Mem.RemoveNan.

Section P.
Context {A : Type}.
Implicit Types buf l : list A.
Implicit Types cs : list nat.

(* ---------- helpers ---------- *)

Lemma upd_same buf c x : nth_error buf c = Some x -> upd buf c x = buf.
Proof.
  revert c; induction buf as [|h t IH]; intros [|c] H; simpl in *; try congruence.
  f_equal. now apply IH.
Qed.

Lemma vread_cons_inv buf c cs l :
  vread buf (c :: cs) = Ok l ->
  exists x r, l = x :: r /\ get buf c = Ok x /\ vread buf cs = Ok r.
Proof.
  cbn [vread]. destruct (get buf c) as [x| |] eqn:G; cbn [bind]; try discriminate.
  destruct (vread buf cs) as [r| |] eqn:V; cbn [bind]; try discriminate.
  intros H; inversion H; subst. eauto.
Qed.

(* ---------- 1 ---------- *)
Lemma vread_length : forall (buf : list A) cs l, vread buf cs = Ok l -> length l = length cs.
Proof.
  intros buf cs; induction cs as [|c t IH]; intros l H.
  - cbn [vread] in H. inversion H; reflexivity.
  - apply vread_cons_inv in H. destruct H as (x & r & -> & _ & V).
    simpl. f_equal. now apply IH.
Qed.

(* ---------- 2 ---------- *)
Lemma vread_ok : forall (buf : list A) cs, Forall (fun c => c < length buf) cs ->
  exists l, vread buf cs = Ok l /\ length l = length cs /\
    (forall k c, nth_error cs k = Some c -> nth_error l k = nth_error buf c).
Proof.
  intros buf cs; induction cs as [|c t IH]; intros F.
  - exists []. cbn [vread]. repeat split; auto. intros [|k] c H; simpl in H; discriminate.
  - inversion F as [|c' t' Hc Ft]; subst.
    destruct (IH Ft) as (r & V & L & N).
    destruct (get_ok buf c Hc) as (x & G & Nx).
    exists (x :: r). cbn [vread]. rewrite G, V. cbn [bind]. repeat split.
    + simpl. now rewrite L.
    + intros [|k] c0 H; simpl in H.
      * inversion H; subst. simpl. now rewrite Nx.
      * simpl. now apply N.
Qed.

(* ---------- 3 ---------- *)
Lemma vread_Ok_inv : forall (buf : list A) cs l, vread buf cs = Ok l ->
  Forall (fun c => c < length buf) cs /\
  (forall k c, nth_error cs k = Some c -> nth_error l k = nth_error buf c).
Proof.
  intros buf cs; induction cs as [|c t IH]; intros l H.
  - split; [constructor|]. intros [|k] c H0; simpl in H0; discriminate.
  - apply vread_cons_inv in H. destruct H as (x & r & -> & G & V).
    apply get_Ok_inv in G. destruct G as [Nx Hc].
    destruct (IH r V) as [Ft N]. split.
    + constructor; auto.
    + intros [|k] c0 H; simpl in H.
      * inversion H; subst. simpl. now rewrite Nx.
      * simpl. now apply N.
Qed.

(* ---------- 4 ---------- *)
Lemma vwrite_length : forall buf cs l, length (vwrite buf cs l) = length buf.
Proof.
  intros buf cs; revert buf; induction cs as [|c t IH]; intros buf [|x r]; cbn [vwrite]; auto.
  rewrite IH. apply upd_length.
Qed.

(* ---------- 5 ---------- *)
Lemma vwrite_frame : forall buf cs l o, ~ In o cs ->
  nth_error (vwrite buf cs l) o = nth_error buf o.
Proof.
  intros buf cs; revert buf; induction cs as [|c t IH]; intros buf [|x r] o NI; cbn [vwrite]; auto.
  rewrite IH by (intros HI; apply NI; now right).
  apply nth_error_upd_neq. intros ->. apply NI. now left.
Qed.

(* ---------- 6 ---------- *)
Lemma vread_vwrite : forall buf cs l, NoDup cs -> Forall (fun c => c < length buf) cs ->
  length l = length cs -> vread (vwrite buf cs l) cs = Ok l.
Proof.
  intros buf cs; revert buf; induction cs as [|c t IH]; intros buf [|x r] ND F L;
    simpl in L; try discriminate.
  - reflexivity.
  - inversion ND as [|c' t' NI NDt]; subst. inversion F as [|c' t' Hc Ft]; subst.
    cbn [vwrite vread].
    assert (G : get (vwrite (upd buf c x) t r) c = Ok x).
    { unfold get. rewrite vwrite_frame by exact NI. now rewrite nth_error_upd_eq. }
    rewrite G. cbn [bind]. rewrite IH; auto.
    + eapply Forall_impl; [|exact Ft]. intros a Ha. cbn beta. now rewrite upd_length.
Qed.

(* ---------- 7 : NoDup is not needed ---------- *)
Lemma vwrite_vread_id_gen : forall buf cs l, vread buf cs = Ok l -> vwrite buf cs l = buf.
Proof.
  intros buf cs; induction cs as [|c t IH]; intros l H.
  - reflexivity.
  - apply vread_cons_inv in H. destruct H as (x & r & -> & G & V).
    apply get_Ok_inv in G. destruct G as [Nx _].
    cbn [vwrite]. rewrite (upd_same _ _ _ Nx). now apply IH.
Qed.

Lemma vwrite_vread_id : forall buf cs l, vread buf cs = Ok l -> NoDup cs -> vwrite buf cs l = buf.
Proof. intros buf cs l H _. now apply vwrite_vread_id_gen. Qed.

(* ---------- 10 helper: an out-of-range cell makes the read panic ---------- *)
Lemma vread_panic_oob : forall buf cs, Exists (fun c => length buf <= c) cs ->
  vread buf cs = Panic.
Proof.
  intros buf cs; induction cs as [|c t IH]; intros E.
  - inversion E.
  - cbn [vread]. destruct (le_lt_dec (length buf) c) as [Hc|Hc].
    + rewrite get_panic by exact Hc. reflexivity.
    + destruct (get_ok buf c Hc) as (x & G & _). rewrite G. cbn [bind].
      inversion E as [c' t' Hbad | c' t' Et]; subst; [lia|].
      rewrite (IH Et). reflexivity.
Qed.

(* vread never runs out of fuel *)
Lemma vread_not_oof : forall buf cs, vread buf cs <> OutOfFuel.
Proof.
  intros buf cs; induction cs as [|c t IH]; cbn [vread]; [discriminate|].
  unfold get. destruct (nth_error buf c); cbn [bind]; [|discriminate].
  destruct (vread buf t); cbn [bind]; try discriminate. congruence.
Qed.

(* ---------- 8 ---------- *)
Lemma lift_op_spec : forall R (op : list A -> res (R * list A)) buf cs x buf',
  NoDup cs ->
  (forall l r l', op l = Ok (r, l') -> length l' = length l) ->
  lift_op op buf cs = Ok (x, buf') ->
  exists l l', vread buf cs = Ok l /\ op l = Ok (x, l') /\ vread buf' cs = Ok l' /\
    length buf' = length buf /\
    (forall o, ~ In o cs -> nth_error buf' o = nth_error buf o).
Proof.
  intros R op buf cs x buf' ND LP H. unfold lift_op in H.
  destruct (vread buf cs) as [l| |] eqn:V; cbn [bind] in H; try discriminate.
  destruct (op l) as [[r l']| |] eqn:O; cbn [bind] in H; try discriminate.
  inversion H; subst. exists l, l'.
  destruct (vread_Ok_inv _ _ _ V) as [F _].
  repeat split; auto.
  - apply vread_vwrite; auto. rewrite (LP _ _ _ O). now apply vread_length with (buf := buf).
  - apply vwrite_length.
  - intros o NI. now apply vwrite_frame.
Qed.

(* ---------- 9 ---------- *)
Lemma lift_op_ok : forall R (op : list A -> res (R * list A)) buf cs,
  NoDup cs -> Forall (fun c => c < length buf) cs ->
  (forall l, length l = length cs -> exists r l', op l = Ok (r, l')) ->
  exists x buf', lift_op op buf cs = Ok (x, buf').
Proof.
  intros R op buf cs _ F T.
  destruct (vread_ok buf cs F) as (l & V & L & _).
  destruct (T l L) as (r & l' & O).
  exists r, (vwrite buf cs l'). unfold lift_op. rewrite V. cbn [bind]. rewrite O. reflexivity.
Qed.

(* ---------- 10 ---------- *)
Lemma lift_op_panic_oob : forall R (op : list A -> res (R * list A)) buf cs,
  Exists (fun c => length buf <= c) cs -> lift_op op buf cs = Panic.
Proof.
  intros R op buf cs E. unfold lift_op. rewrite (vread_panic_oob _ _ E). reflexivity.
Qed.

End P.

(* ================= views ================= *)

(* ---------- 11 ---------- *)
Lemma cells_length : forall v, length (cells v) = v_len v.
Proof. intros v. unfold cells. now rewrite map_length, seq_length. Qed.

(* ---------- 12 ---------- *)
Lemma cells_nth : forall v k, k < v_len v -> nth_error (cells v) k = Some (cell_at v k).
Proof.
  intros v k H. unfold cells.
  rewrite nth_error_map.
  rewrite (nth_error_nth' (seq 0 (v_len v)) 0) by now rewrite seq_length.
  rewrite seq_nth by exact H. reflexivity.
Qed.

Lemma cells_In : forall v c, In c (cells v) <-> exists k, k < v_len v /\ c = cell_at v k.
Proof.
  intros v c. unfold cells. rewrite in_map_iff. split.
  - intros (k & E & I). apply in_seq in I. exists k. split; [lia|auto].
  - intros (k & Hk & ->). exists k. split; auto. apply in_seq. lia.
Qed.

(* ---------- 13 ---------- *)
Lemma NoDup_map_inj_on {X Y} (f : X -> Y) (l : list X) :
  (forall a b, In a l -> In b l -> f a = f b -> a = b) -> NoDup l -> NoDup (map f l).
Proof.
  induction l as [|h t IH]; intros Inj ND; simpl; [constructor|].
  inversion ND as [|h' t' NI NDt]; subst. constructor.
  - intros HI. apply in_map_iff in HI. destruct HI as (b & E & Ib).
    assert (b = h) by (apply Inj; simpl; auto). subst. contradiction.
  - apply IH; auto. intros a b Ia Ib. apply Inj; simpl; auto.
Qed.

Lemma cells_NoDup : forall v, v_stride v <> 0%Z ->
  (forall k, k < v_len v -> (0 <= v_off v + Z.of_nat k * v_stride v)%Z) ->
  NoDup (cells v).
Proof.
  intros v S NN. unfold cells. apply NoDup_map_inj_on; [|apply seq_NoDup].
  intros a b Ia Ib E. apply in_seq in Ia. apply in_seq in Ib.
  unfold cell_at in E.
  assert (Ha := NN a ltac:(lia)). assert (Hb := NN b ltac:(lia)).
  apply Z2Nat.inj in E; try assumption.
  assert (E' : (Z.of_nat a * v_stride v = Z.of_nat b * v_stride v)%Z) by lia.
  apply Z.mul_reg_r in E'; [lia | exact S].
Qed.

Lemma cells_NoDup_short : forall v, v_len v <= 1 -> NoDup (cells v).
Proof.
  intros v H. unfold cells. destruct (v_len v) as [|[|n]]; simpl; try lia.
  - constructor.
  - constructor; [simpl; tauto | constructor].
Qed.

(* ---------- 14 ---------- *)
Lemma firstn_seq : forall i n s, i <= n -> firstn i (seq s n) = seq s i.
Proof.
  induction i as [|i IH]; intros [|n] s H; simpl; try lia; auto.
  f_equal. apply IH. lia.
Qed.

Lemma cells_slice_prefix : forall v i, i <= v_len v ->
  cells (slice_prefix v i) = firstn i (cells v).
Proof.
  intros v i H. unfold cells. rewrite firstn_map, firstn_seq by exact H.
  cbn [slice_prefix v_len]. apply map_ext. intros k. reflexivity.
Qed.

Lemma firstn_incl {X} : forall n (l : list X), incl (firstn n l) l.
Proof.
  induction n as [|n IH]; intros [|h t]; simpl; try (intros y Hy; now inversion Hy).
  intros y [->|I]; [now left | right; now apply IH].
Qed.

Lemma cells_slice_prefix_incl : forall v i, i <= v_len v ->
  incl (cells (slice_prefix v i)) (cells v).
Proof. intros v i H. rewrite cells_slice_prefix by exact H. apply firstn_incl. Qed.

(* ---------- 15 ---------- *)
(* cells of a view of length <= 1 do not depend on the stride *)
Lemma cells_short_stride_irrel : forall off len s1 s2, len <= 1 ->
  cells {| v_off := off; v_len := len; v_stride := s1 |} =
  cells {| v_off := off; v_len := len; v_stride := s2 |}.
Proof.
  intros off len s1 s2 H. unfold cells, cell_at. cbn [v_off v_len v_stride].
  destruct len as [|[|n]]; try lia.
  - reflexivity.
  - (* Z.of_nat 0 * s reduces to 0 for every s *) reflexivity.
Qed.

Lemma cast_view_cells : forall v, cells (cast_view v) = cells v.
Proof.
  intros [off len s]. unfold cast_view. cbn [v_off v_len v_stride].
  destruct (Nat.leb_spec len 1) as [H|H].
  - now apply cells_short_stride_irrel.
  - destruct (Z.leb_spec 0 s) as [Hs|Hs]; [reflexivity|].
    f_equal. f_equal; lia.
Qed.

(* the cast also preserves the descriptor's length *)
Lemma cast_view_len : forall v, v_len (cast_view v) = v_len v.
Proof.
  intros [off len s]. unfold cast_view. cbn [v_off v_len v_stride].
  destruct (len <=? 1); [reflexivity|]. destruct (0 <=? s)%Z; reflexivity.
Qed.

(* ---------- 16 ---------- *)
Lemma cast_view_v0_wrong : exists v, v_len v = 2 /\ ~ incl (cells (cast_view_v0 v)) (cells v).
Proof.
  exists {| v_off := 0; v_len := 2; v_stride := 2 |}. split; [reflexivity|].
  intros I. specialize (I 1). vm_compute in I.
  destruct I as [E|[E|[]]]; [right; left; reflexivity | discriminate | discriminate].
Qed.

Print Assumptions vread_length.
Print Assumptions vread_ok.
Print Assumptions vread_Ok_inv.
Print Assumptions vwrite_length.
Print Assumptions vwrite_frame.
Print Assumptions vread_vwrite.
Print Assumptions vwrite_vread_id.
Print Assumptions vwrite_vread_id_gen.
Print Assumptions vread_panic_oob.
Print Assumptions lift_op_spec.
Print Assumptions lift_op_ok.
Print Assumptions lift_op_panic_oob.
Print Assumptions cells_length.
Print Assumptions cells_nth.
Print Assumptions cells_NoDup.
Print Assumptions cells_NoDup_short.
Print Assumptions cells_slice_prefix.
Print Assumptions cells_slice_prefix_incl.
Print Assumptions cells_short_stride_irrel.
Print Assumptions cast_view_cells.
Print Assumptions cast_view_len.
Print Assumptions cast_view_v0_wrong.
