(* Functional correctness of the NaN compaction loop (remove_nan_mut). *)
From Coq Require Import List Arith ZArith Lia Permutation Bool.
Import ListNotations.
From NS Require Import Base.Res Base.ArrLemmas Mem.Buffer Mem.RemoveNan.

(* generic list facts *)
Section Aux.
Context {T : Type}.
Variable P : T -> Prop.

Lemma Forall_nth_all (l : list T) :
  (forall k, k < length l -> exists x, nth_error l k = Some x /\ P x) -> Forall P l.
Proof.
  induction l as [|h t IH]; intros H; constructor.
  - destruct (H 0) as (x & Nx & Px); [simpl; lia|]. simpl in Nx. congruence.
  - apply IH. intros k Hk. apply (H (S k)). simpl; lia.
Qed.

Lemma Forall_firstn_seg (l : list T) i :
  (forall k, k < i -> exists x, nth_error l k = Some x /\ P x) -> Forall P (firstn i l).
Proof.
  revert l. induction i as [|i IH]; intros l H; [constructor|].
  destruct l as [|h t].
  - destruct (H 0) as (x & Nx & _); [lia|]. discriminate.
  - simpl. constructor.
    + destruct (H 0) as (x & Nx & Px); [lia|]. simpl in Nx. congruence.
    + apply IH. intros k Hk. apply (H (S k)). lia.
Qed.

Lemma Forall_skipn_seg (l : list T) i :
  (forall k, i <= k < length l -> exists x, nth_error l k = Some x /\ P x) -> Forall P (skipn i l).
Proof.
  revert l. induction i as [|i IH]; intros l H.
  - simpl. apply Forall_nth_all. intros k Hk. apply H. lia.
  - destruct l as [|h t]; [constructor|]. simpl. apply IH.
    intros k Hk. apply (H (S k)). simpl; lia.
Qed.

Lemma Forall_nth_error (l : list T) k x : Forall P l -> nth_error l k = Some x -> P x.
Proof. intros F N. rewrite Forall_forall in F. apply F. eapply nth_error_In; eauto. Qed.
End Aux.

Section Filt.
Context {T : Type}.
Variable f : T -> bool.

Lemma filter_perm (l l' : list T) : Permutation l l' -> Permutation (filter f l) (filter f l').
Proof.
  induction 1 as [|x l l' HP IH|x y l|l l' l'' HP1 IH1 HP2 IH2]; simpl.
  - constructor.
  - destruct (f x); auto.
  - destruct (f x), (f y); auto. apply perm_swap.
  - eapply Permutation_trans; eauto.
Qed.

Lemma filter_all_true (l : list T) : Forall (fun x => f x = true) l -> filter f l = l.
Proof. induction 1 as [|x l Hx HF IH]; simpl; auto. rewrite Hx. now f_equal. Qed.

Lemma filter_all_false (l : list T) : Forall (fun x => f x = false) l -> filter f l = [].
Proof. induction 1 as [|x l Hx HF IH]; simpl; auto. now rewrite Hx. Qed.
End Filt.

Section P.
Variable A : Type.
Variable is_nan : A -> bool.
Notation rn_scan_i := (rn_scan_i A is_nan).
Notation rn_scan_j := (rn_scan_j A is_nan).
Notation rn_outer := (rn_outer A is_nan).
Notation remove_nan := (remove_nan A is_nan).

Definition ok_seg (a : list A) (lo hi : nat) :=
  forall k, lo <= k < hi -> exists x, nth_error a k = Some x /\ is_nan x = false.
Definition nan_seg (a : list A) (lo hi : nat) :=
  forall k, lo <= k < hi -> exists x, nth_error a k = Some x /\ is_nan x = true.

Lemma rn_scan_i_spec fuel a i j :
  j < length a -> i <= j + 1 -> j + 2 - i <= fuel ->
  exists i', rn_scan_i fuel a i j = Ok i' /\ i <= i' <= j + 1 /\ ok_seg a i i' /\
    (i' = j + 1 \/ (i' <= j /\ exists x, nth_error a i' = Some x /\ is_nan x = true)).
Proof.
  revert i. induction fuel as [|f IH]; intros i Hj Hij Hf; [lia|].
  cbn [RemoveNan.rn_scan_i]. destruct (Nat.ltb_spec j i) as [L|L].
  - exists i. repeat split; try lia. intros k Hk; lia.
  - destruct (get_ok a i) as (x & G & N); [lia|]. rewrite G. cbn [bind].
    destruct (is_nan x) eqn:E.
    + exists i. repeat split; try lia. { intros k Hk; lia. } right. split; [lia|]. eauto.
    + destruct (IH (i + 1)) as (i' & R & B & S & F); try lia.
      exists i'. rewrite R. repeat split; try lia; auto.
      intros k Hk. destruct (Nat.eq_dec k i) as [->|Nk].
      * exists x. split; auto.
      * apply S. lia.
Qed.

Lemma rn_scan_j_spec fuel a i j :
  j < length a -> j + 1 - i <= fuel -> 1 <= fuel ->
  exists j', rn_scan_j fuel a i j = Ok j' /\ j' <= j /\ (i <= j -> i <= j') /\ (j <= i -> j' = j) /\
    nan_seg a (j' + 1) (j + 1) /\
    (j' <= i \/ (i < j' /\ exists x, nth_error a j' = Some x /\ is_nan x = false)).
Proof.
  revert j. induction fuel as [|f IH]; intros j Hj Hf Hf1; [lia|].
  cbn [RemoveNan.rn_scan_j]. destruct (Nat.leb_spec j i) as [L|L].
  - exists j. repeat split; try lia. intros k Hk; lia.
  - destruct (get_ok a j Hj) as (x & G & N). rewrite G. cbn [bind].
    destruct (is_nan x) eqn:E.
    + destruct (IH (j - 1)) as (j' & R & B1 & B2 & B3 & S & F); try lia.
      exists j'. rewrite R. repeat split; try lia; auto.
      intros k Hk. destruct (Nat.eq_dec k j) as [->|Nk].
      * eauto.
      * apply S. lia.
    + exists j. repeat split; try lia. { intros k Hk; lia. } right. split; [lia|]. eauto.
Qed.

Record inv (n : nat) (a0 a : list A) (i j : nat) : Prop := {
  inv_len : length a = n;
  inv_j : j < n;
  inv_ij : i <= j + 1;
  inv_ok : ok_seg a 0 i;
  inv_nan : nan_seg a (j + 1) n;
  inv_perm : Permutation a0 a }.

Lemma rn_outer_spec fuel n a0 a i j :
  inv n a0 a i j -> j + 2 - i <= fuel ->
  exists i' a', rn_outer fuel a i j = Ok (i', a') /\
    length a' = n /\ i' <= n /\ ok_seg a' 0 i' /\ nan_seg a' i' n /\ Permutation a0 a' /\
    (forall k, ok_seg a 0 (k + 1) -> nth_error a' k = nth_error a k).
Proof.
  revert a i j. induction fuel as [|f IH]; intros a i j I Hf; [destruct I; lia|].
  destruct I as [Hlen Hj Hij Hok Hnan Hperm].
  cbn [RemoveNan.rn_outer].
  destruct (rn_scan_i_spec (S (length a)) a i j) as (i' & Ri & Bi & Si & Fi); try lia.
  rewrite Ri. cbn [bind].
  destruct (rn_scan_j_spec (S (length a)) a i' j) as (j' & Rj & Bj & Bj1 & Bj2 & Sj & Fj); try lia.
  rewrite Rj. cbn [bind].
  assert (OK' : ok_seg a 0 i').
  { intros k Hk. destruct (Nat.lt_ge_cases k i); [apply Hok|apply Si]; lia. }
  assert (NAN' : nan_seg a (j' + 1) n).
  { intros k Hk. destruct (Nat.le_gt_cases k j); [apply Sj|apply Hnan]; lia. }
  destruct (Nat.leb_spec j' i') as [L|L].
  - (* exit *)
    exists i', a. repeat split; auto; try lia.
    intros k Hk.
    destruct (Nat.le_gt_cases (j' + 1) k) as [K|K]; [apply NAN'; lia|].
    destruct Fi as [Fi|[Fi1 (x & Nx & Ex)]].
    + (* i' = j + 1, so j' = j and k >= j' + 1 *) lia.
    + assert (k = i') by lia. subst k. eauto.
  - (* swap and continue: i' < j' *)
    destruct Fi as [Fi|[Fi1 (xi & Nxi & Exi)]]; [lia|].
    destruct Fj as [Fj|[_ (xj & Nxj & Exj)]]; [lia|].
    destruct (swap_spec a i' j') as (x & y & a' & Sw & Nx & Ny & La & Ni' & Nj' & Nk & P); try lia.
    rewrite Sw. cbn [bind].
    assert (x = xi) by congruence. assert (y = xj) by congruence. subst x y.
    destruct (IH a' (i' + 1) (j' - 1)) as (i2 & a2 & R & H1 & H2 & H3 & H4 & H5 & H6); try lia.
    + constructor; try lia.
      * intros k Hk. destruct (Nat.eq_dec k i') as [->|Nki].
        { exists xj. split; auto. }
        { rewrite Nk; try lia. apply OK'. lia. }
      * intros k Hk. destruct (Nat.eq_dec k j') as [->|Nkj].
        { exists xi. split; auto. }
        { rewrite Nk; try lia. apply NAN'. lia. }
      * eapply Permutation_trans; eauto.
    + exists i2, a2. rewrite R. repeat split; auto; try lia.
      intros k Hk.
      (* position k lies strictly below the first NaN i' *)
      assert (Kk : k < i').
      { destruct (Nat.lt_ge_cases k i') as [K|K]; auto. exfalso.
        destruct (Hk i') as (z & Nz & Ez); [lia|]. congruence. }
      rewrite H6.
      * apply Nk; lia.
      * intros m Hm. rewrite Nk; try lia. apply Hk. lia.
Qed.

(* the whole function, with the extra stability clause *)
Lemma remove_nan_full a :
  exists i a', remove_nan a = Ok (i, a') /\ Permutation a a' /\ length a' = length a /\
    i <= length a /\ ok_seg a' 0 i /\ nan_seg a' i (length a) /\
    (forall k, ok_seg a 0 (k + 1) -> nth_error a' k = nth_error a k).
Proof.
  destruct a as [|h t].
  - exists 0, []. cbn. repeat split; auto; intros k Hk; lia.
  - set (a := h :: t). unfold RemoveNan.remove_nan. fold a.
    assert (La : length a = S (length t)) by reflexivity.
    destruct (rn_outer_spec (S (length a)) (length a) a a 0 (length a - 1))
      as (i & a' & R & H1 & H2 & H3 & H4 & H5 & H6).
    + constructor; auto; try lia; intros k Hk; lia.
    + lia.
    + exists i, a'. repeat split; auto.
Qed.

(* 1 *)
Theorem remove_nan_spec : forall a, exists i a',
  remove_nan a = Ok (i, a') /\ Permutation a a' /\ length a' = length a /\ i <= length a /\
  Forall (fun x => is_nan x = false) (firstn i a') /\
  Forall (fun x => is_nan x = true) (skipn i a').
Proof.
  intros a. destruct (remove_nan_full a) as (i & a' & R & HP & HL & Hi & Hok & Hnan & _).
  exists i, a'. repeat split; auto.
  - apply Forall_firstn_seg. intros k Hk. apply Hok. lia.
  - apply Forall_skipn_seg. intros k Hk. apply Hnan. lia.
Qed.

Lemma filter_split_ok (l1 l2 : list A) :
  Forall (fun x => is_nan x = false) l1 -> Forall (fun x => is_nan x = true) l2 ->
  filter (fun x => negb (is_nan x)) (l1 ++ l2) = l1 /\ filter is_nan (l1 ++ l2) = l2.
Proof.
  intros F1 F2. rewrite !filter_app. split.
  - rewrite filter_all_true, filter_all_false, app_nil_r; auto.
    + eapply Forall_impl; [|exact F2]. intros x Hx. cbv beta in *. now rewrite Hx.
    + eapply Forall_impl; [|exact F1]. intros x Hx. cbv beta in *. now rewrite Hx.
  - rewrite filter_all_false, filter_all_true; auto.
Qed.

(* 3 *)
Theorem remove_nan_survivors a i a' :
  remove_nan a = Ok (i, a') ->
  Permutation (firstn i a') (filter (fun x => negb (is_nan x)) a) /\
  Permutation (skipn i a') (filter is_nan a).
Proof.
  intros R. destruct (remove_nan_spec a) as (i0 & a0 & R0 & HP & HL & Hi & F1 & F2).
  rewrite R in R0. inversion R0; subst i0 a0; clear R0.
  destruct (filter_split_ok _ _ F1 F2) as [E1 E2]. rewrite firstn_skipn in E1, E2.
  split.
  - rewrite <- E1 at 1. apply Permutation_sym. now apply filter_perm.
  - rewrite <- E2 at 1. apply Permutation_sym. now apply filter_perm.
Qed.

(* 2 *)
Theorem remove_nan_count a i a' :
  remove_nan a = Ok (i, a') -> i = length (filter (fun x => negb (is_nan x)) a).
Proof.
  intros R. destruct (remove_nan_survivors a i a' R) as [S1 _].
  destruct (remove_nan_spec a) as (i0 & a0 & R0 & HP & HL & Hi & F1 & F2).
  rewrite R in R0. inversion R0; subst i0 a0; clear R0.
  rewrite <- (Permutation_length S1). rewrite firstn_length. lia.
Qed.

(* 4 *)
Theorem remove_nan_no_nan_id a :
  Forall (fun x => is_nan x = false) a -> remove_nan a = Ok (length a, a).
Proof.
  intros F. destruct a as [|h t]; [reflexivity|].
  set (a := h :: t) in *. unfold RemoveNan.remove_nan. fold a.
  assert (La : length a = S (length t)) by reflexivity.
  cbn [RemoveNan.rn_outer].
  destruct (rn_scan_i_spec (S (length a)) a 0 (length a - 1)) as (i' & Ri & Bi & Si & Fi); try lia.
  rewrite Ri. cbn [bind].
  destruct (rn_scan_j_spec (S (length a)) a i' (length a - 1)) as (j' & Rj & Bj & Bj1 & Bj2 & Sj & Fj); try lia.
  rewrite Rj. cbn [bind].
  destruct Fi as [Fi|[Fi1 (x & Nx & Ex)]].
  - destruct (Nat.leb_spec j' i') as [L|L]; [|lia].
    replace i' with (length a) by lia. reflexivity.
  - exfalso. pose proof (Forall_nth_error _ _ _ _ F Nx) as Hx. cbv beta in Hx. congruence.
Qed.

(* 5 *)
Theorem remove_nan_idem a i a' :
  remove_nan a = Ok (i, a') -> remove_nan (firstn i a') = Ok (i, firstn i a').
Proof.
  intros R. destruct (remove_nan_spec a) as (i0 & a0 & R0 & HP & HL & Hi & F1 & F2).
  rewrite R in R0. inversion R0; subst i0 a0; clear R0.
  rewrite (remove_nan_no_nan_id _ F1). rewrite firstn_length.
  replace (Nat.min i (length a')) with i by lia. reflexivity.
Qed.

(* 6 *)
Theorem remove_nan_prefix_stable a i a' :
  forall k x,
  (forall m, m <= k -> exists y, nth_error a m = Some y /\ is_nan y = false) ->
  nth_error a k = Some x ->
  remove_nan a = Ok (i, a') -> nth_error a' k = Some x.
Proof.
  intros k x Hpre Nx R.
  destruct (remove_nan_full a) as (i0 & a0 & R0 & _ & _ & _ & _ & _ & St).
  rewrite R in R0. inversion R0; subst i0 a0; clear R0.
  rewrite St; auto. intros m Hm. apply Hpre. lia.
Qed.
End P.

Example remove_nan_ex1 :
  remove_nan Z (Z.eqb 0) [1;0;2;0;0;3]%Z = Ok (3, [1;3;2;0;0;0]%Z).
Proof. vm_compute. reflexivity. Qed.

Example remove_nan_ex2 :
  remove_nan Z (Z.eqb 0) [0;0]%Z = Ok (0, [0;0]%Z).
Proof. vm_compute. reflexivity. Qed.

Print Assumptions remove_nan_spec.
Print Assumptions remove_nan_count.
Print Assumptions remove_nan_survivors.
Print Assumptions remove_nan_no_nan_id.
Print Assumptions remove_nan_idem.
Print Assumptions remove_nan_prefix_stable.
