(* In-place routines on views and per-lane application: a lifted operation that permutes
   its input keeps the view's multiset and frames the rest of the buffer; lanes do not
   interfere with each other and the visiting order does not matter. *)
From Coq Require Import List Arith ZArith Lia Permutation Bool.
Import ListNotations.
From NS Require Import Base.Res Base.ArrLemmas Mem.Buffer Mem.BufferProofs Mem.RemoveNan
  Mem.RemoveNanProofs Mem.Lanes.
From NS Require Import Sort.Partition Sort.PartitionProofs Sort.Select Sort.SelectProofs.

(* ================= generic helpers (no hypotheses on the operation) ================= *)
Section Gen.
Context {A : Type}.
Implicit Types buf : list A.
Implicit Types cs : list nat.

Lemma lift_op_one : forall {R} (op : list A -> res (R * list A)) buf cs l x l',
  NoDup cs -> vread buf cs = Ok l -> op l = Ok (x, l') -> Permutation l l' ->
  exists buf', lift_op op buf cs = Ok (x, buf') /\ vread buf' cs = Ok l' /\
    length buf' = length buf /\
    (forall o, ~ In o cs -> nth_error buf' o = nth_error buf o).
Proof.
  intros R op buf cs l x l' ND V O HP.
  exists (vwrite buf cs l'). split.
  { unfold lift_op. rewrite V. cbn [bind]. rewrite O. cbn [bind]. reflexivity. }
  destruct (vread_Ok_inv _ _ _ V) as [F _].
  split.
  { apply vread_vwrite; auto.
    rewrite <- (Permutation_length HP). now apply vread_length with (buf := buf). }
  split; [apply vwrite_length|].
  intros o NI. now apply vwrite_frame.
Qed.

(* ---------- 6 ---------- *)
Lemma vread_frame : forall buf buf' cs,
  (forall o, In o cs -> nth_error buf' o = nth_error buf o) ->
  vread buf' cs = vread buf cs.
Proof.
  intros buf buf' cs; induction cs as [|c t IH]; intros H; [reflexivity|].
  cbn [vread]. unfold get. rewrite (H c) by now left.
  rewrite IH; [reflexivity|]. intros o Ho. apply H. now right.
Qed.

Lemma buf_ext : forall (b1 b2 : list A),
  (forall o, nth_error b1 o = nth_error b2 o) -> b1 = b2.
Proof.
  induction b1 as [|h t IH]; intros [|h2 t2] H.
  - reflexivity.
  - specialize (H 0). discriminate.
  - specialize (H 0). discriminate.
  - assert (H0 := H 0). simpl in H0. inversion H0; subst. f_equal.
    apply IH. intros o. apply (H (S o)).
Qed.

Lemma NoDup_app_inv {X} : forall (l1 l2 : list X), NoDup (l1 ++ l2) ->
  NoDup l1 /\ NoDup l2 /\ (forall x, In x l1 -> ~ In x l2).
Proof.
  induction l1 as [|h t IH]; intros l2 H; simpl in *.
  - repeat split; auto. constructor.
  - inversion H as [|h' t' NI ND]; subst.
    destruct (IH l2 ND) as (N1 & N2 & D). repeat split; auto.
    + constructor; auto. intros HI. apply NI. apply in_or_app. now left.
    + intros x [->|Hx]; [|now apply D].
      intros HI. apply NI. apply in_or_app. now right.
Qed.

Lemma Permutation_concat {X} : forall (l l' : list (list X)),
  Permutation l l' -> Permutation (concat l) (concat l').
Proof.
  induction 1 as [|x l l' HP IH|x y l|l l' l'' HP1 IH1 HP2 IH2]; cbn [concat].
  - constructor.
  - now apply Permutation_app_head.
  - rewrite !app_assoc. apply Permutation_app_tail. apply Permutation_app_comm.
  - eapply Permutation_trans; eauto.
Qed.

Lemma In_concat_lane {X} : forall (lanes : list (list X)) (ln : list X) (o : X),
  In ln lanes -> In o ln -> In o (concat lanes).
Proof. intros lanes ln o H1 H2. apply in_concat. eauto. Qed.

Lemma Forall2_of_nth {X Y} (P : X -> Y -> Prop) : forall (l : list X) (m : list Y),
  length m = length l ->
  (forall k a, nth_error l k = Some a -> exists b, nth_error m k = Some b /\ P a b) ->
  Forall2 P l m.
Proof.
  induction l as [|a t IH]; intros [|b m] L H; simpl in L; try discriminate.
  - constructor.
  - constructor.
    + destruct (H 0 a eq_refl) as (b' & Nb & Pb). simpl in Nb. inversion Nb; subst. exact Pb.
    + apply IH; [lia|]. intros k a0 Hk. apply (H (S k) a0 Hk).
Qed.

Lemma Forall2_functional {X Y} (P : X -> Y -> Prop) :
  (forall a b b', P a b -> P a b' -> b = b') ->
  forall (l : list X) (m m' : list Y), Forall2 P l m -> Forall2 P l m' -> m = m'.
Proof.
  intros Fn l m m' H; revert m'.
  induction H as [|a b l m Pab F IH]; intros m' H'; inversion H'; subst; [reflexivity|].
  f_equal; [eapply Fn; eauto | now apply IH].
Qed.
End Gen.

(* ================= a total, permuting operation ================= *)
Section LP.
Context {A R : Type}.
Variable op : list A -> res (R * list A).
Hypothesis op_total : forall l, exists r l', op l = Ok (r, l').
Hypothesis op_perm : forall l r l', op l = Ok (r, l') -> Permutation l l'.

(* ---------- 5 ---------- *)
Theorem lift_op_perm_frame : forall (buf : list A) cs,
  NoDup cs -> Forall (fun c => c < length buf) cs ->
  exists x buf' l l', lift_op op buf cs = Ok (x, buf') /\ vread buf cs = Ok l /\
    op l = Ok (x, l') /\ vread buf' cs = Ok l' /\ Permutation l l' /\
    length buf' = length buf /\
    (forall o, ~ In o cs -> nth_error buf' o = nth_error buf o).
Proof.
  intros buf cs ND F.
  destruct (vread_ok buf cs F) as (l & V & _ & _).
  destruct (op_total l) as (x & l' & O).
  assert (HP := op_perm _ _ _ O).
  destruct (lift_op_one op buf cs l x l' ND V O HP) as (buf' & E & V' & L & Fr).
  exists x, buf', l, l'. repeat split; auto.
Qed.

(* ---------- 7 ---------- *)
Definition lanes_wf (buf : list A) (lanes : list (list nat)) :=
  NoDup (concat lanes) /\ Forall (fun c => c < length buf) (concat lanes).

Theorem map_lanes_spec : forall lanes (buf : list A), lanes_wf buf lanes ->
  exists xs buf', map_lanes op buf lanes = Ok (xs, buf') /\
    length xs = length lanes /\ length buf' = length buf /\
    (forall o, ~ In o (concat lanes) -> nth_error buf' o = nth_error buf o) /\
    (forall k cs, nth_error lanes k = Some cs ->
       exists l l' x, vread buf cs = Ok l /\ op l = Ok (x, l') /\ nth_error xs k = Some x /\
         vread buf' cs = Ok l' /\ Permutation l l').
Proof.
  induction lanes as [|cs t IH]; intros buf [ND F].
  - exists [], buf. cbn [map_lanes]. repeat split; auto.
    intros [|k] cs H; simpl in H; discriminate.
  - cbn [concat] in ND, F.
    destruct (NoDup_app_inv _ _ ND) as (ND1 & ND2 & Dj).
    apply Forall_app in F. destruct F as [F1 F2].
    destruct (lift_op_perm_frame buf cs ND1 F1)
      as (x & b1 & l & l1 & E1 & V & O & V1 & HP & L1 & Fr1).
    assert (W1 : lanes_wf b1 t).
    { split; auto. eapply Forall_impl; [|exact F2]. intros c Hc. cbn beta. now rewrite L1. }
    destruct (IH b1 W1) as (xs & b2 & E2 & Lxs & L2 & Fr2 & Each).
    exists (x :: xs), b2. split.
    { cbn [map_lanes]. rewrite E1. cbn [bind]. rewrite E2. cbn [bind]. reflexivity. }
    split. { simpl. now rewrite Lxs. }
    split. { now rewrite L2. }
    split.
    { intros o NI. cbn [concat] in NI. rewrite Fr2, Fr1; auto.
      - intros HI. apply NI. apply in_or_app. now left.
      - intros HI. apply NI. apply in_or_app. now right. }
    intros [|k] cs0 Hk; simpl in Hk.
    + inversion Hk; subst cs0. exists l, l1, x. repeat split; auto.
      rewrite <- V1. apply vread_frame. intros o Ho. apply Fr2. now apply Dj.
    + destruct (Each k cs0 Hk) as (l0 & l0' & x0 & V0 & O0 & Nx0 & V0' & HP0).
      exists l0, l0', x0. repeat split; auto.
      rewrite <- V0. symmetry. apply vread_frame. intros o Ho. apply Fr1.
      intros HI. apply (Dj o HI).
      apply (In_concat_lane t cs0 o); [eapply nth_error_In; exact Hk | exact Ho].
Qed.

Lemma lanes_wf_perm : forall (buf : list A) lanes lanes',
  lanes_wf buf lanes -> Permutation lanes lanes' -> lanes_wf buf lanes'.
Proof.
  intros buf lanes lanes' [ND F] HP. apply Permutation_concat in HP. split.
  - eapply Permutation_NoDup; eauto.
  - eapply Permutation_Forall; eauto.
Qed.

(* ---------- 8 : the visiting order does not matter ---------- *)
Theorem map_lanes_perm : forall (buf : list A) lanes lanes' xs buf',
  lanes_wf buf lanes -> Permutation lanes lanes' ->
  map_lanes op buf lanes = Ok (xs, buf') ->
  exists xs', map_lanes op buf lanes' = Ok (xs', buf') /\ Permutation xs xs'.
Proof.
  intros buf lanes lanes' xs buf' W HP E.
  assert (W' := lanes_wf_perm _ _ _ W HP).
  destruct (map_lanes_spec lanes buf W) as (xs0 & b0 & E0 & Lx & Lb & Fr & Each).
  rewrite E in E0. inversion E0; subst xs0 b0; clear E0.
  destruct (map_lanes_spec lanes' buf W') as (xs' & b' & E' & Lx' & Lb' & Fr' & Each').
  assert (EB : b' = buf').
  { apply buf_ext. intros o.
    destruct (in_dec Nat.eq_dec o (concat lanes)) as [HI|NI].
    - apply in_concat in HI. destruct HI as (cs & Hcs & Ho).
      assert (Hcs' : In cs lanes') by (eapply Permutation_in; eauto).
      destruct (In_nth_error _ _ Hcs) as [k Hk]. destruct (In_nth_error _ _ Hcs') as [k' Hk'].
      destruct (Each k cs Hk) as (l & l1 & x & V & O & _ & V1 & _).
      destruct (Each' k' cs Hk') as (l0 & l2 & x0 & V0 & O0 & _ & V2 & _).
      rewrite V in V0. inversion V0; subst l0. rewrite O in O0. inversion O0; subst x0 l2.
      destruct (In_nth_error _ _ Ho) as [j Hj].
      destruct (vread_Ok_inv _ _ _ V1) as [_ N1]. destruct (vread_Ok_inv _ _ _ V2) as [_ N2].
      rewrite <- (N1 j o Hj), <- (N2 j o Hj). reflexivity.
    - rewrite Fr by exact NI. apply Fr'. intros HI. apply NI.
      eapply Permutation_in; [apply Permutation_sym, Permutation_concat; exact HP | exact HI]. }
  subst b'. exists xs'. split; [exact E'|].
  set (P := fun (cs : list nat) (x : R) => exists l l', vread buf cs = Ok l /\ op l = Ok (x, l')).
  assert (F2 : Forall2 P lanes xs).
  { apply Forall2_of_nth; auto. intros k cs Hk.
    destruct (Each k cs Hk) as (l & l1 & x & V & O & Nx & _). exists x. split; auto.
    exists l, l1; auto. }
  assert (F2' : Forall2 P lanes' xs').
  { apply Forall2_of_nth; auto. intros k cs Hk.
    destruct (Each' k cs Hk) as (l & l1 & x & V & O & Nx & _). exists x. split; auto.
    exists l, l1; auto. }
  destruct (Permutation_Forall2 HP F2) as (xs2 & HPx & F2'').
  assert (xs2 = xs'); [|subst; exact HPx].
  eapply Forall2_functional; [|exact F2''|exact F2'].
  intros cs a b (l & l1 & V & O) (l0 & l2 & V0 & O0).
  rewrite V in V0. inversion V0; subst l0. rewrite O in O0. now inversion O0.
Qed.
End LP.

(* ================= corollaries for the sort routines ================= *)

Theorem partition_b_frame : forall A (leb : A -> A -> bool) (buf : list A) cs p l,
  NoDup cs -> vread buf cs = Ok l -> p < length l ->
  exists k l' buf', lift_op (fun l => partition A leb l p) buf cs = Ok (k, buf') /\
    vread buf' cs = Ok l' /\ Permutation l l' /\ length buf' = length buf /\
    (forall o, ~ In o cs -> nth_error buf' o = nth_error buf o).
Proof.
  intros A leb buf cs p l ND V Hp.
  destruct (partition_spec A leb l p Hp) as (k & l' & pv & E & _ & HP & _).
  destruct (lift_op_one (fun l => partition A leb l p) buf cs l k l' ND V E HP)
    as (buf' & E' & V' & L & Fr).
  exists k, l', buf'. repeat split; auto.
Qed.

Definition select_op {A} (leb : A -> A -> bool) fuel pick c i : list A -> res ((A * nat) * list A) :=
  fun l => match select A leb fuel pick c l i with
           | Ok (v, l', c') => Ok ((v, c'), l')
           | Panic => Panic
           | OutOfFuel => OutOfFuel
           end.

Theorem select_b_frame : forall A (leb : A -> A -> bool),
  (forall x y, leb x y = true \/ leb y x = true) ->
  (forall x y z, leb x y = true -> leb y z = true -> leb x z = true) ->
  forall fuel pick c (buf : list A) cs i l,
  NoDup cs -> vread buf cs = Ok l -> i < length l -> length l <= fuel ->
  exists v c' l' buf', lift_op (select_op leb fuel pick c i) buf cs = Ok ((v, c'), buf') /\
    vread buf' cs = Ok l' /\ Permutation l l' /\ length buf' = length buf /\
    nth_error l' i = Some v /\
    (forall o, ~ In o cs -> nth_error buf' o = nth_error buf o).
Proof.
  intros A leb Tot Tr fuel pick c buf cs i l ND V Hi Hf.
  destruct (select_spec A leb Tot Tr fuel pick c l i Hi Hf) as (v & l' & c' & E & HP & _ & Nv & _).
  assert (O : select_op leb fuel pick c i l = Ok ((v, c'), l')).
  { unfold select_op. rewrite E. reflexivity. }
  destruct (lift_op_one (select_op leb fuel pick c i) buf cs l (v, c') l' ND V O HP)
    as (buf' & E' & V' & L & Fr).
  exists v, c', l', buf'. repeat split; auto.
Qed.

Print Assumptions lift_op_one.
Print Assumptions lift_op_perm_frame.
Print Assumptions vread_frame.
Print Assumptions map_lanes_spec.
Print Assumptions map_lanes_perm.
Print Assumptions partition_b_frame.
Print Assumptions select_b_frame.
