(* Per-lane application of an in-place list operation: the lanes of an n-D view along an
   axis are 1-D views (cell lists) of the same buffer; Zip / map_axis_mut visit them in a
   layout-dependent order. *)
From Coq Require Import List Arith Bool.
Import ListNotations.
From NS Require Import Base.Res Mem.Buffer.

Section L.
Context {A R : Type}.
Variable op : list A -> res (R * list A).

Fixpoint map_lanes (buf : list A) (lanes : list (list nat)) : res (list R * list A) :=
  match lanes with
  | [] => Ok ([], buf)
  | cs :: t =>
    r <- lift_op op buf cs ;;
    let '(x, b1) := r in
    r2 <- map_lanes b1 t ;;
    let '(xs, b2) := r2 in Ok (x :: xs, b2)
  end.
End L.
