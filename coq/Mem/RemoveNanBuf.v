(* Buffer-level remove_nan_mut: the compaction runs on the cells of a well-formed mutable
   view, the stripped prefix is re-typed by the pointer cast.  Total on every well-formed
   view (any stride sign, offset, length); hands out only cells of the input view, all of
   them holding non-missing values; frames everything outside the view. *)
From Coq Require Import List Arith ZArith Lia Permutation Bool.
Import ListNotations.
From NS Require Import Base.Res Base.ArrLemmas Mem.Buffer Mem.BufferProofs Mem.RemoveNan
  Mem.RemoveNanProofs.

Section RNBuf.
Context {A : Type}.
Variable is_nan : A -> bool.

(* ndarray's invariant for a mutable view: distinct cells, all inside the allocation *)
Definition wf_view (buf : list A) (v : view1) :=
  NoDup (cells v) /\ Forall (fun c => c < length buf) (cells v).

(* reading a prefix of the cell list reads the prefix of the contents *)
Lemma vread_firstn : forall (buf : list A) cs l i,
  vread buf cs = Ok l -> vread buf (firstn i cs) = Ok (firstn i l).
Proof.
  intros buf cs; induction cs as [|c t IH]; intros l i H.
  - cbn [vread] in H. inversion H; subst. destruct i; reflexivity.
  - apply vread_cons_inv in H. destruct H as (x & r & -> & G & V).
    destruct i as [|i]; [reflexivity|].
    cbn [firstn vread]. rewrite G. cbn [bind]. rewrite (IH r i V). reflexivity.
Qed.

(* ---------- 1 ---------- *)
Theorem remove_nan_b_spec : forall buf v, wf_view buf v ->
  exists l i l' buf' v',
    vread buf (cells v) = Ok l /\
    remove_nan A is_nan l = Ok (i, l') /\
    remove_nan_b is_nan buf v = Ok (v', buf') /\
    v_len v' = i /\
    i = length (filter (fun x => negb (is_nan x)) l) /\
    cells v' = firstn i (cells v) /\
    incl (cells v') (cells v) /\
    length buf' = length buf /\
    (forall o, ~ In o (cells v) -> nth_error buf' o = nth_error buf o) /\
    vread buf' (cells v) = Ok l' /\
    vread buf' (cells v') = Ok (firstn i l') /\
    Forall (fun x => is_nan x = false) (firstn i l') /\
    Permutation (firstn i l') (filter (fun x => negb (is_nan x)) l) /\
    Forall (fun x => is_nan x = true) (skipn i l') /\
    Permutation l l'.
Proof.
  intros buf v [ND F].
  destruct (vread_ok buf (cells v) F) as (l & V & L & _).
  destruct (remove_nan_spec A is_nan l) as (i & l' & R & HP & HL & Hi & F1 & F2).
  assert (Hiv : i <= v_len v) by (rewrite <- cells_length; lia).
  assert (HC : cells (cast_view (slice_prefix v i)) = firstn i (cells v)).
  { rewrite cast_view_cells. now apply cells_slice_prefix. }
  assert (V' : vread (vwrite buf (cells v) l') (cells v) = Ok l').
  { apply vread_vwrite; auto. lia. }
  exists l, i, l', (vwrite buf (cells v) l'), (cast_view (slice_prefix v i)).
  split; [exact V|]. split; [exact R|]. split.
  { unfold remove_nan_b, lift_op. rewrite V. cbn [bind]. rewrite R. cbn [bind]. reflexivity. }
  split. { rewrite cast_view_len. reflexivity. }
  split. { now apply (remove_nan_count A is_nan l i l'). }
  split; [exact HC|].
  split. { rewrite HC. apply firstn_incl. }
  split. { apply vwrite_length. }
  split. { intros o NI. now apply vwrite_frame. }
  split; [exact V'|].
  split. { rewrite HC. now apply vread_firstn. }
  split; [exact F1|].
  split. { now apply (remove_nan_survivors A is_nan l i l'). }
  split; [exact F2 | exact HP].
Qed.

(* ---------- 2 ---------- *)
Theorem remove_nan_b_idem : forall buf v v' buf', wf_view buf v ->
  remove_nan_b is_nan buf v = Ok (v', buf') ->
  remove_nan_b is_nan buf' (slice_prefix v (v_len v')) = Ok (v', buf').
Proof.
  intros buf v v' buf' W H.
  destruct (remove_nan_b_spec buf v W)
    as (l & i & l' & b1 & v1 & V & R & E & Hlen & Hcnt & HC & _ & _ & _ & V1 & V2 & F1 & _).
  rewrite H in E. inversion E; subst v1 b1; clear E.
  assert (L : length l = v_len v).
  { rewrite <- cells_length. now apply vread_length with (buf := buf). }
  assert (Hiv : i <= v_len v).
  { destruct (remove_nan_spec A is_nan l) as (i0 & l0 & R0 & _ & _ & Hi0 & _).
    rewrite R in R0. inversion R0; subst i0 l0. lia. }
  rewrite Hlen.
  assert (Ev : v' = cast_view (slice_prefix v i)).
  { unfold remove_nan_b, lift_op in H. rewrite V in H. cbn [bind] in H. rewrite R in H.
    cbn [bind] in H. inversion H; reflexivity. }
  unfold remove_nan_b, lift_op.
  rewrite cells_slice_prefix by exact Hiv.
  rewrite (vread_firstn _ _ _ i V1). cbn [bind].
  rewrite (remove_nan_idem A is_nan l i l' R). cbn [bind].
  rewrite (vwrite_vread_id_gen _ _ _ (vread_firstn _ _ _ i V1)).
  rewrite Ev. reflexivity.
Qed.

(* ---------- 3 ---------- *)
Theorem remove_nan_b_not_nan_handed_out : forall buf v v' buf', wf_view buf v ->
  remove_nan_b is_nan buf v = Ok (v', buf') ->
  forall c, In c (cells v') -> exists x, nth_error buf' c = Some x /\ is_nan x = false.
Proof.
  intros buf v v' buf' W H c HI.
  destruct (remove_nan_b_spec buf v W)
    as (l & i & l' & b1 & v1 & _ & _ & E & _ & _ & _ & _ & _ & _ & _ & V2 & F1 & _).
  rewrite H in E. inversion E; subst v1 b1; clear E.
  destruct (In_nth_error _ _ HI) as [k Nk].
  destruct (vread_Ok_inv _ _ _ V2) as [_ N].
  specialize (N k c Nk).
  assert (Hk : k < length (firstn i l')).
  { rewrite (vread_length _ _ _ V2). apply nth_error_Some. congruence. }
  destruct (nth_error (firstn i l') k) as [x|] eqn:Nx.
  - exists x. split; [now symmetry|].
    rewrite Forall_forall in F1. apply F1. eapply nth_error_In; eauto.
  - apply nth_error_None in Nx. lia.
Qed.
End RNBuf.

(* ---------- 4 : the pre-repair cast hands out cells outside the view ---------- *)
Theorem remove_nan_b_v0_wrong :
  exists v' buf',
    remove_nan_b_v0 (Z.eqb 0) [1;9;0;9;2]%Z {| v_off := 0; v_len := 3; v_stride := 2 |}
      = Ok (v', buf') /\
    ~ incl (cells v') (cells {| v_off := 0; v_len := 3; v_stride := 2 |}).
Proof.
  eexists. eexists. split; [vm_compute; reflexivity|].
  intros I. specialize (I 1). vm_compute in I.
  destruct I as [E|[E|[E|[]]]]; try discriminate. right; left; reflexivity.
Qed.

Example remove_nan_b_fwd_ok :
  exists v' buf',
    remove_nan_b (Z.eqb 0) [1;9;0;9;2]%Z {| v_off := 0; v_len := 3; v_stride := 2 |}
      = Ok (v', buf') /\
    cells v' = [0; 2] /\ buf' = [1;9;2;9;0]%Z.
Proof. eexists. eexists. split; [vm_compute; reflexivity|]. split; vm_compute; reflexivity. Qed.

Example remove_nan_b_rev_ok :
  exists v' buf',
    remove_nan_b (Z.eqb 0) [1;9;0;9;2]%Z {| v_off := 4; v_len := 3; v_stride := -2 |}
      = Ok (v', buf') /\
    v_off v' = 4%Z /\ v_stride v' = (-2)%Z /\ v_len v' = 2 /\ cells v' = [4; 2] /\
    buf' = [0;9;1;9;2]%Z.
Proof.
  eexists. eexists. split; [vm_compute; reflexivity|]. repeat split; vm_compute; reflexivity.
Qed.

Print Assumptions remove_nan_b_spec.
Print Assumptions remove_nan_b_idem.
Print Assumptions remove_nan_b_not_nan_handed_out.
Print Assumptions remove_nan_b_v0_wrong.
Print Assumptions remove_nan_b_fwd_ok.
Print Assumptions remove_nan_b_rev_ok.
