(* The hypotheses of the Pearson-entry theorems (Num/PearsonF64.v) are satisfiable and checkable:
   1. sufficient conditions for the smallness hypothesis  relP <= 1/2  in terms of the variance
      bound (no square roots);
   2. the executable model [pearson_welford] on the 2 x 4 data  x = [1; 2; 4; 7], y = [2; 1; 6; 3]
      with left-to-right sums: every hypothesis is discharged by computation or by [lra]. *)
From Flocq Require Import Core BinarySingleNaN Plus_error Relative.
Require Import Reals Lra Lia ZArith Psatz Bool List Permutation.
From NS Require Import Num.F64 Num.Ops Num.F64Inst Num.Cov Num.SumBridge Num.SumF64
  Quantile.IndexProofs Quantile.InterpF64 Num.DeviationF64 Num.MeansF64 Num.CovF64 Num.DerivedF64.
From NS Require Import Num.WestErrR Num.WelfordF64 Num.WelfordErrR Num.WelfordErrF64 Num.PearsonF64.
Import ListNotations.
Open Scope R_scope.

(* ------------------------------------------------------------------ *)
(* 1. Sufficient conditions for relP <= 1/2                            *)
(* ------------------------------------------------------------------ *)
Lemma pearson_relP_small (Ei Ej si sj : R) : 0 < si -> 0 < sj ->
  0 <= Ei <= si / 8 -> 0 <= Ej <= sj / 8 -> eta64 <= si * sj / 8 ->
  pearson_relP Ei Ej si sj <= / 2.
Proof.
  intros Hi Hj [Ei0 Ei1] [Ej0 Ej1] He. unfold pearson_relP.
  assert (Ii : 0 < / si) by (apply Rinv_0_lt_compat; exact Hi).
  assert (Ij : 0 < / sj) by (apply Rinv_0_lt_compat; exact Hj).
  assert (HP : 0 < si * sj) by (apply Rmult_lt_0_compat; lra).
  assert (IP : 0 < / (si * sj)) by (apply Rinv_0_lt_compat; exact HP).
  assert (A : 0 <= Ei / si <= / 8).
  { unfold Rdiv. split; [apply Rmult_le_pos; lra|].
    apply Rmult_le_reg_r with si; [exact Hi|]. rewrite Rmult_assoc, Rinv_l by lra. lra. }
  assert (B : 0 <= Ej / sj <= / 8).
  { unfold Rdiv. split; [apply Rmult_le_pos; lra|].
    apply Rmult_le_reg_r with sj; [exact Hj|]. rewrite Rmult_assoc, Rinv_l by lra. lra. }
  assert (C : eta64 / (si * sj) <= / 8).
  { unfold Rdiv. apply Rmult_le_reg_r with (si * sj); [exact HP|]. rewrite Rmult_assoc, Rinv_l by lra. lra. }
  assert (AB : Ei / si * (Ej / sj) <= / 8 * / 8) by (apply Rmult_le_compat; lra).
  pose proof u64_tiny' as Hu. pose proof u64_pos as Hu0.
  assert (T : (Ei / si + Ej / sj + Ei / si * (Ej / sj)) * (1 + u64) <= (/ 8 + / 8 + / 8 * / 8) * (1 + u64)).
  { apply Rmult_le_compat_r; lra. }
  lra.
Qed.

(* the relative error bound of a standard deviation is a rational function of S, n and the data range *)
Lemma pearson_Es_rel (n : nat) (lo hi X : R) (x : list F64) : length x = n -> (1 <= n)%nat -> 0 < ssR x ->
  pearson_Es n lo hi X x / sigmaR x
  = wVarB n (hi - lo) X (ssR x) (INR n) / (ssR x / INR n) * (1 + u64) + u64.
Proof.
  intros L Hn HS. unfold pearson_Es, wStdB, sigmaR. rewrite L.
  assert (HV : 0 < ssR x / INR n) by (apply Rdiv_lt_0_compat; [exact HS | apply lt_0_INR; lia]).
  pose proof (sqrt_lt_R0 _ HV) as Hr. pose proof (sqrt_sqrt _ (Rlt_le _ _ HV)) as Er.
  set (r := sqrt (ssR x / INR n)) in *. rewrite <- Er. field. lra.
Qed.

(* hence: a variance bound below a tenth of the variance gives  Es <= sigma / 8 *)
Lemma pearson_Es_small (n : nat) (lo hi X : R) (x : list F64) : length x = n -> (1 <= n)%nat -> 0 < ssR x ->
  0 <= wVarB n (hi - lo) X (ssR x) (INR n) <= ssR x / INR n / 10 ->
  0 <= pearson_Es n lo hi X x <= sigmaR x / 8.
Proof.
  intros L Hn HS [B0 B1].
  assert (Lx : (1 <= length x)%nat) by lia.
  pose proof (sigmaR_pos x Lx HS) as Ps.
  pose proof (pearson_Es_rel n lo hi X x L Hn HS) as E.
  assert (HV : 0 < ssR x / INR n) by (apply Rdiv_lt_0_compat; [exact HS | apply lt_0_INR; lia]).
  set (V := ssR x / INR n) in *. set (W := wVarB n (hi - lo) X (ssR x) (INR n)) in *.
  assert (IV : 0 < / V) by (apply Rinv_0_lt_compat; exact HV).
  assert (Q : 0 <= W / V <= / 10).
  { unfold Rdiv. split; [apply Rmult_le_pos; lra|].
    apply Rmult_le_reg_r with V; [exact HV|]. rewrite Rmult_assoc, Rinv_l by lra. lra. }
  pose proof u64_tiny' as Hu. pose proof u64_pos as Hu0.
  assert (R1 : 0 <= pearson_Es n lo hi X x / sigmaR x <= / 8).
  { rewrite E. split; [nra|]. assert (W / V * (1 + u64) <= / 10 * (1 + u64)) by (apply Rmult_le_compat_r; lra). lra. }
  assert (Is : 0 < / sigmaR x) by (apply Rinv_0_lt_compat; exact Ps).
  unfold Rdiv in R1. destruct R1 as [R1 R2]. split.
  - apply Rmult_le_reg_r with (/ sigmaR x); [exact Is|]. lra.
  - apply Rmult_le_reg_r with (/ sigmaR x); [exact Is|]. unfold Rdiv. rewrite Rmult_assoc, (Rmult_comm (/ 8)), <- Rmult_assoc, Rinv_r by lra. lra.
Qed.

(* an upper bound of the variance bound without the (1+u)^2 factors *)
Lemma wVarB_le (n : nat) (D X Sq Dn : R) : 0 < Dn -> 0 <= Sq -> 0 <= wSp n D X Sq ->
  0 <= wVarB n D X Sq Dn <= (1001 / 1000 * wSp n D X Sq + 2001 / 1000 * u64 * Sq) / Dn + eta64.
Proof.
  intros HD HS HW. unfold wVarB. rewrite (Rabs_pos_eq Dn) by lra.
  pose proof g64_2_small as G. pose proof (g64_nonneg 2) as G0. pose proof u64_tiny' as Hu.
  pose proof u64_pos as Hu0. pose proof eta64_pos as He.
  assert (ID : 0 < / Dn) by (apply Rinv_0_lt_compat; exact HD).
  assert (G1 : g64 2 <= / 1000) by lra.
  assert (A0 : 0 <= wSp n D X Sq * (1 + g64 2) + g64 2 * Sq).
  { assert (0 <= wSp n D X Sq * (1 + g64 2)) by (apply Rmult_le_pos; lra).
    assert (0 <= g64 2 * Sq) by (apply Rmult_le_pos; lra). lra. }
  assert (A1 : wSp n D X Sq * (1 + g64 2) + g64 2 * Sq <= 1001 / 1000 * wSp n D X Sq + 2001 / 1000 * u64 * Sq).
  { assert (wSp n D X Sq * (1 + g64 2) <= wSp n D X Sq * (1001 / 1000)) by (apply Rmult_le_compat_l; lra).
    assert (g64 2 * Sq <= 2001 / 1000 * u64 * Sq) by (apply Rmult_le_compat_r; lra). lra. }
  unfold Rdiv. split.
  - assert (0 <= (wSp n D X Sq * (1 + g64 2) + g64 2 * Sq) * / Dn) by (apply Rmult_le_pos; lra). lra.
  - apply Rplus_le_compat_r. apply Rmult_le_compat_r; lra.
Qed.

(* ------------------------------------------------------------------ *)
(* 2. The model on concrete data                                       *)
(* ------------------------------------------------------------------ *)
Definition px : list F64 := [f64_of_Z 1; f64_of_Z 2; f64_of_Z 4; f64_of_Z 7].
Definition py : list F64 := [f64_of_Z 2; f64_of_Z 1; f64_of_Z 6; f64_of_Z 3].
Definition prows : list (list F64) := [px; py].
Definition pmat : list (list F64) := pearson_welford (f64_ops [] []) ex_sum prows.

(* the values; ndarray-stats 0.6.0 pearson_correlation on the same data returns the same bits for
   (0,0), (0,1), (1,0) and (1,1) *)
Example pmat_bits :
  map (map bits_of_f64) pmat
  = [[0x3FF0000000000000; 0x3FDA20BD700C2C3F]; [0x3FDA20BD700C2C3F; 0x3FF0000000000000]]%Z.
Proof. vm_compute. reflexivity. Qed.

Lemma Bz (z : Z) : (0 <= z <= 2 ^ 53)%Z -> B2R (f64_of_Z z) = IZR z.
Proof. intros Hz. apply f64_of_Z_exact. exact Hz. Qed.

Lemma px_ssR : ssR px = 21.
Proof.
  unfold ssR, ssC, meanR, px. cbn [map length]. unfold Rsum. cbn [fold_right].
  rewrite !Bz by lia. replace (INR 4) with 4 by (rewrite INR_IZR_INZ; reflexivity). field.
Qed.
Lemma py_ssR : ssR py = 14.
Proof.
  unfold ssR, ssC, meanR, py. cbn [map length]. unfold Rsum. cbn [fold_right].
  rewrite !Bz by lia. replace (INR 4) with 4 by (rewrite INR_IZR_INZ; reflexivity). field.
Qed.

Lemma frange (a b : Z) (l : list F64) : (0 <= a <= 2 ^ 53)%Z -> (0 <= b <= 2 ^ 53)%Z ->
  in_rangeb (f64_of_Z a) (f64_of_Z b) l = true -> in_range (IZR a) (IZR b) l.
Proof.
  intros Ha Hb H. destruct (f64_of_Z_exact a Ha) as [Fa Ea]. destruct (f64_of_Z_exact b Hb) as [Fb Eb].
  rewrite <- Ea, <- Eb. apply in_rangeb_sound; assumption.
Qed.
Lemma px_range : in_range 1 7 px.
Proof. apply (frange 1 7); [lia | lia | vm_compute; reflexivity]. Qed.
Lemma py_range : in_range 1 6 py.
Proof. apply (frange 1 6); [lia | lia | vm_compute; reflexivity]. Qed.

Lemma INR4 : INR 4 = 4. Proof. rewrite INR_IZR_INZ. reflexivity. Qed.
Lemma small4 : INR 4 * u64 <= / 64.
Proof. rewrite INR4. pose proof u64_tiny'. lra. Qed.
Lemma eta_le_u : eta64 <= u64.
Proof. unfold eta64, u64. apply bpow_le. lia. Qed.

(* the variance bounds are below a tenth of the variances *)
Lemma px_varB : 0 <= wVarB 4 (7 - 1) 7 21 (INR 4) <= 21 / INR 4 / 10.
Proof.
  rewrite INR4. pose proof u64_tiny' as Hu. pose proof u64_pos as Hu0. pose proof eta64_pos as He.
  pose proof eta_le_u as Heu.
  assert (W : 0 <= wSp 4 (7 - 1) 7 21 <= 2000 * u64) by (unfold wSp; rewrite INR4; split; nra).
  destruct (wVarB_le 4 (7 - 1) 7 21 4 ltac:(lra) ltac:(lra) (proj1 W)) as [B0 B1].
  split; [exact B0|]. eapply Rle_trans; [exact B1|]. lra.
Qed.
Lemma py_varB : 0 <= wVarB 4 (6 - 1) 6 14 (INR 4) <= 14 / INR 4 / 10.
Proof.
  rewrite INR4. pose proof u64_tiny' as Hu. pose proof u64_pos as Hu0. pose proof eta64_pos as He.
  pose proof eta_le_u as Heu.
  assert (W : 0 <= wSp 4 (6 - 1) 6 14 <= 2000 * u64) by (unfold wSp; rewrite INR4; split; nra).
  destruct (wVarB_le 4 (6 - 1) 6 14 4 ltac:(lra) ltac:(lra) (proj1 W)) as [B0 B1].
  split; [exact B0|]. eapply Rle_trans; [exact B1|]. lra.
Qed.

Lemma pxy_relP :
  pearson_relP (pearson_Es 4 1 7 7 px) (pearson_Es 4 1 6 6 py) (sigmaR px) (sigmaR py) <= / 2.
Proof.
  assert (Lx : length px = 4%nat) by reflexivity. assert (Ly : length py = 4%nat) by reflexivity.
  assert (Sx : 0 < ssR px) by (rewrite px_ssR; lra). assert (Sy : 0 < ssR py) by (rewrite py_ssR; lra).
  pose proof (sigmaR_pos px ltac:(rewrite Lx; lia) Sx) as Px.
  pose proof (sigmaR_pos py ltac:(rewrite Ly; lia) Sy) as Py.
  apply pearson_relP_small; try assumption.
  - apply (pearson_Es_small 4 1 7 7 px Lx ltac:(lia) Sx). rewrite px_ssR. exact px_varB.
  - apply (pearson_Es_small 4 1 6 6 py Ly ltac:(lia) Sy). rewrite py_ssR. exact py_varB.
  - (* sigma_x sigma_y >= 1 *)
    assert (Gx : 1 <= sigmaR px).
    { unfold sigmaR. rewrite px_ssR, Lx, INR4. apply le_sqrt; lra. }
    assert (Gy : 1 <= sigmaR py).
    { unfold sigmaR. rewrite py_ssR, Ly, INR4. apply le_sqrt; lra. }
    pose proof eta_le_u. pose proof u64_tiny'. nra.
Qed.

(* entry (0, 1) of the executable model is within the proved bound of Pearson's r of the data,
   and the diagonal entry (0, 0) within the bound of 1 *)
Example pearson_model_example :
  let rho01 := nth 1 (nth 0 pmat []) fzero in
  let rho00 := nth 0 (nth 0 pmat []) fzero in
  let relP01 := pearson_relP (pearson_Es 4 1 7 7 px) (pearson_Es 4 1 6 6 py) (sigmaR px) (sigmaR py) in
  let relP00 := pearson_relP (pearson_Es 4 1 7 7 px) (pearson_Es 4 1 7 7 px) (sigmaR px) (sigmaR px) in
  Rabs (B2R rho01 - rhoR px py) <= pearson_bound (pearson_Ec 4 4 4 px py) relP01 (sigmaR px * sigmaR py) /\
  Rabs (B2R rho00 - 1) <= pearson_bound (pearson_Ec 4 4 4 px px) relP00 (sigmaR px * sigmaR px).
Proof.
  intros rho01 rho00 relP01 relP00.
  assert (HR : Forall (fun r : list F64 => length r = 4%nat) prows) by (repeat constructor).
  assert (H0 : (0 < length prows)%nat) by (cbn [prows length]; lia).
  assert (H1 : (1 < length prows)%nat) by (cbn [prows length]; lia).
  assert (A1 : Rabs 1 <= 7) by (rewrite Rabs_pos_eq; lra).
  assert (A7 : Rabs 7 <= 7) by (rewrite Rabs_pos_eq; lra).
  assert (B1 : Rabs 1 <= 6) by (rewrite Rabs_pos_eq; lra).
  assert (B6 : Rabs 6 <= 6) by (rewrite Rabs_pos_eq; lra).
  assert (Sx : 0 < ssR px) by (rewrite px_ssR; lra). assert (Sy : 0 < ssR py) by (rewrite py_ssR; lra).
  split.
  - assert (Fp : fin (fmul (welford_std px fzero) (welford_std py fzero)) = true) by (vm_compute; reflexivity).
    assert (Fr : fin rho01 = true) by (vm_compute; reflexivity).
    exact (pearson_model_entry_error [] [] ex_sum (fun n => n) ex_sum_eval prows 4 0 1 1 7 7 1 6 6
             HR H0 H1 ltac:(lia) small4 px_range A1 A7 py_range B1 B6 Sx Sy Fp Fr pxy_relP).
  - assert (Fp : fin (fmul (welford_std px fzero) (welford_std px fzero)) = true) by (vm_compute; reflexivity).
    assert (Fr : fin rho00 = true) by (vm_compute; reflexivity).
    assert (Lx : length px = 4%nat) by reflexivity.
    pose proof (sigmaR_pos px ltac:(rewrite Lx; lia) Sx) as Px.
    assert (Hrel : relP00 <= / 2).
    { assert (Gx : 1 <= sigmaR px).
      { unfold sigmaR. rewrite px_ssR, Lx, INR4. apply le_sqrt; lra. }
      apply pearson_relP_small; try assumption.
      - apply (pearson_Es_small 4 1 7 7 px Lx ltac:(lia) Sx). rewrite px_ssR. exact px_varB.
      - apply (pearson_Es_small 4 1 7 7 px Lx ltac:(lia) Sx). rewrite px_ssR. exact px_varB.
      - pose proof eta_le_u. pose proof u64_tiny'. nra. }
    pose proof (pearson_model_entry_error [] [] ex_sum (fun n => n) ex_sum_eval prows 4 0 0 1 7 7 1 7 7
                  HR H0 H0 ltac:(lia) small4 px_range A1 A7 px_range A1 A7 Sx Sx Fp Fr Hrel) as T.
    cbv zeta in T. change (nth 0 prows []) with px in T.
    rewrite (rhoR_diag px ltac:(rewrite Lx; lia) Sx) in T. exact T.
Qed.

(* REFUTED: "the diagonal of the computed correlation matrix is exactly 1".  For the row
   [0.1; 0.2; 0.3; 0.4] the model returns 1 + 2^-52, and so does ndarray-stats 0.6.0
   (0x3FF0000000000001): the covariance entry and the product of the two standard deviations are
   rounded independently.  The diagonal is within the proved bound of 1 (pearson_diag_error). *)
Theorem pearson_diag_exactly_one_refuted : exists rows : list (list F64),
  let d := nth 0 (nth 0 (pearson_welford (f64_ops [] []) ex_sum rows) []) fzero in
  fin d = true /\ d <> fone /\ bits_of_f64 d = 0x3FF0000000000001%Z.
Proof.
  exists [wex3]. cbv zeta. split; [vm_compute; reflexivity|]. split; [|vm_compute; reflexivity].
  intros E. apply (f_equal bits_of_f64) in E. vm_compute in E. discriminate E.
Qed.

Print Assumptions pearson_model_example.
Print Assumptions pearson_diag_exactly_one_refuted.
