(* ndarray 0.16.1 `var_axis` / `std_axis` (src/numeric/impl_numeric.rs), one lane, in IEEE-754
   binary64: Welford's one-pass update with a FUSED multiply-add,

       mean = 0; sum_sq = 0;
       for (i, x) in lane.enumerate() {
           count = (i + 1) as f64;  delta = x - mean;  mean = mean + delta / count;
           sum_sq = (x - mean).mul_add(delta, sum_sq);          // one rounding of (x - mean) * delta + sum_sq
       }
       var = sum_sq / (n - ddof);     std = sqrt(var)

   This file: the executable model ([welford_step], [welford_run], [welford_var], [welford_std]),
   the real-number semantics of one step, and the STRUCTURAL facts that hold with no smallness
   hypothesis at all, as soon as the final sum of squares is finite:
     - every intermediate value and every observation is finite ([welford_run_finite]);
     - the computed running mean moves from the old mean towards x and never passes it; it stays in
       the range [lo, hi] of the observations ([welford_mean_in_range]);
     - the fused increment (x - mean_new) * delta is never negative, hence sum_sq >= 0, var >= 0
       ([welford_ssq_nonneg], [welford_var_nonneg]) -- the analogue for West's weighted update
       needed a repair of the code (Num/WestF64.v); this arrangement does not.
   The forward error analysis is in Num/WelfordErrR.v / Num/WelfordErrF64.v. *)
From Flocq Require Import Core BinarySingleNaN Plus_error Relative.
Require Import Reals Lra Lia ZArith Psatz Bool List.
From NS Require Import Num.F64 Num.Ops Num.F64Inst Num.SumBridge Num.SumF64
  Quantile.IndexProofs Quantile.InterpF64 Num.DeviationF64 Num.MeansF64 Num.CovF64 Num.DerivedF64.
Import ListNotations.
Open Scope R_scope.

Local Instance prec64_gt_0W : Prec_gt_0 53 := Hprec64.
Local Instance vexp64W : Valid_exp fx := fexp_correct 53 1024 Hprec64.

(* ------------------------------------------------------------------ *)
(* 1. The model                                                        *)
(* ------------------------------------------------------------------ *)
(* state: (number of observations consumed, running mean, running sum of squares) *)
Definition wstate := (nat * F64 * F64)%type.
Definition wi (st : wstate) : nat := fst (fst st).
Definition wm (st : wstate) : F64 := snd (fst st).
Definition wq (st : wstate) : F64 := snd st.

Definition welford_step (st : wstate) (x : F64) : wstate :=
  let count := f64_of_Z (Z.of_nat (wi st + 1)) in
  let delta := fsub x (wm st) in
  let mean' := fadd (wm st) (fdiv delta count) in
  (S (wi st), mean', ffma (fsub x mean') delta (wq st)).

Definition welford_init : wstate := (0%nat, fzero, fzero).
Definition welford_run (xs : list F64) : wstate := fold_left welford_step xs welford_init.

(* dof = n - ddof (one rounding), var = sum_sq / dof, std = sqrt var *)
Definition welford_var (xs : list F64) (ddof : F64) : F64 :=
  fdiv (wq (welford_run xs)) (fsub (f64_of_Z (Z.of_nat (length xs))) ddof).
Definition welford_std (xs : list F64) (ddof : F64) : F64 := fsqrt (welford_var xs ddof).

Lemma welford_run_snoc xs x : welford_run (xs ++ [x]) = welford_step (welford_run xs) x.
Proof. unfold welford_run. rewrite fold_left_app. reflexivity. Qed.

Lemma welford_fold_count xs : forall st, wi (fold_left welford_step xs st) = (wi st + length xs)%nat.
Proof.
  induction xs as [|x xs IH]; intros st; cbn [fold_left length]; [lia|].
  rewrite IH. unfold welford_step, wi. cbn [fst snd]. lia.
Qed.
Lemma welford_run_count xs : wi (welford_run xs) = length xs.
Proof. unfold welford_run. rewrite welford_fold_count. reflexivity. Qed.

(* concrete values; each was compared with ndarray 0.16.1 itself (var_axis / std_axis on x86-64,
   hardware FMA): bit-identical.  Data [1; 2; 4; 7]: exact mean 3.5, exact sum of squares 21 --
   the computed one is 21 (1 - 2^-52): the roundings of the running mean already show. *)
Definition wex : list F64 := [f64_of_Z 1; f64_of_Z 2; f64_of_Z 4; f64_of_Z 7].
Example welford_example_bits :
  bits_of_f64 (wm (welford_run wex)) = 0x400C000000000000%Z /\          (* 3.5 *)
  bits_of_f64 (wq (welford_run wex)) = 0x4034FFFFFFFFFFFF%Z /\          (* 20.999999999999996 *)
  bits_of_f64 (welford_var wex fzero) = 0x4014FFFFFFFFFFFF%Z /\         (* 5.249999999999999, ddof = 0 *)
  bits_of_f64 (welford_var wex fone) = 0x401BFFFFFFFFFFFF%Z /\          (* 6.999999999999999, ddof = 1 *)
  bits_of_f64 (welford_std wex fzero) = 0x4002548EB9151E85%Z.           (* 2.29128784747792 *)
Proof. vm_compute. repeat split; reflexivity. Qed.

(* [0.1; 0.2; 0.3; 0.4; 1e15] *)
Definition wex2 : list F64 :=
  map f64_of_bits [0x3FB999999999999A; 0x3FC999999999999A; 0x3FD3333333333333; 0x3FD999999999999A;
                   0x430C6BF526340000]%Z.
Example welford_example2_bits :
  bits_of_f64 (wm (welford_run wex2)) = 0x42E6BCC41E900006%Z /\
  bits_of_f64 (wq (welford_run wex2)) = 0x462431E0FAE6D71E%Z /\
  bits_of_f64 (welford_var wex2 fzero) = 0x460027E72F1F127E%Z /\
  bits_of_f64 (welford_std wex2 fzero) = 0x42F6BCC41E8FFFFE%Z.
Proof. vm_compute. repeat split; reflexivity. Qed.

(* [0.1; 0.2; 0.3; 0.4] *)
Definition wex3 : list F64 :=
  map f64_of_bits [0x3FB999999999999A; 0x3FC999999999999A; 0x3FD3333333333333; 0x3FD999999999999A]%Z.
Example welford_example3_bits :
  bits_of_f64 (welford_var wex3 fzero) = 0x3F8999999999999A%Z /\
  bits_of_f64 (welford_var wex3 fone) = 0x3F91111111111111%Z /\
  bits_of_f64 (welford_std wex3 fzero) = 0x3FBC9F25C5BFEDD9%Z.
Proof. vm_compute. repeat split; reflexivity. Qed.

(* ------------------------------------------------------------------ *)
(* 2. Real-number semantics of one step                                *)
(* ------------------------------------------------------------------ *)
Definition Rcount (i : nat) : R := INR (i + 1).

Lemma count_spec (i : nat) : (Z.of_nat (i + 1) <= 2 ^ 53)%Z ->
  fin (f64_of_Z (Z.of_nat (i + 1))) = true /\ B2R (f64_of_Z (Z.of_nat (i + 1))) = Rcount i /\ 1 <= Rcount i.
Proof.
  intros H. destruct (nf_spec (i + 1) H) as [F E]. split; [exact F|]. split; [exact E|].
  unfold Rcount. replace 1 with (INR 1) by reflexivity. apply le_INR. lia.
Qed.

(* finiteness of the new sum of squares forces finiteness of everything the step touched *)
Lemma welford_step_vals (i : nat) (m s x : F64) :
  (Z.of_nat (i + 1) <= 2 ^ 53)%Z ->
  let st' := welford_step (i, m, s) x in
  fin (wq st') = true ->
  (fin m = true /\ fin s = true /\ fin x = true /\ fin (wm st') = true) /\
  let delta := rnd (B2R x - B2R m) in
  B2R (wm st') = rnd (B2R m + rnd (delta / Rcount i)) /\
  B2R (wq st') = rnd (rnd (B2R x - B2R (wm st')) * delta + B2R s).
Proof.
  intros Hi st' Hf. unfold st', welford_step, wi, wm, wq in *. cbn [fst snd] in *.
  destruct (count_spec i Hi) as (Fc & Ec & Hc1).
  set (cnt := f64_of_Z (Z.of_nat (i + 1))) in *.
  set (delta := fsub x m) in *.
  set (m' := fadd m (fdiv delta cnt)) in *.
  destruct (ffma_finite_args _ _ _ Hf) as (Fd2 & Fdelta & Fs).
  destruct (fsub_finite_args _ _ Fd2) as [Fx Fm'].
  destruct (fadd_finite_args _ _ Fm') as [Fm Fq].
  assert (NZ : B2R cnt <> 0) by (rewrite Ec; lra).
  destruct (fdiv_value delta cnt NZ Fq) as [Eq _].
  split; [repeat split; assumption|]. cbv zeta.
  pose proof (fsub_value x m Fdelta) as Edelta. fold delta in Edelta.
  split.
  - unfold m'. rewrite (fadd_value _ _ Fm'), Eq, Edelta, Ec. reflexivity.
  - rewrite (ffma_value _ _ _ Hf), (fsub_value _ _ Fd2), Edelta. reflexivity.
Qed.

(* ------------------------------------------------------------------ *)
(* 3. The new mean lies between the old mean and the observation        *)
(* ------------------------------------------------------------------ *)
(* the increment q = fl(fl(x - m) / c), c >= 2, never exceeds the exact gap x - m *)
Lemma wf_inc_up (m x c : R) : fmt m -> fmt x -> 2 <= c -> m <= x ->
  0 <= rnd (rnd (x - m) / c) <= x - m.
Proof.
  intros Gm Gx Hc Hmx.
  assert (D0 : 0 <= rnd (x - m)) by (apply rnd_ge_0; lra).
  assert (Ic : 0 < / c) by (apply Rinv_0_lt_compat; lra).
  split; [apply rnd_ge_0; unfold Rdiv; apply Rmult_le_pos; lra|].
  destruct (half_gap_le m x Gm Gx Hmx) as [_ HG2].
  eapply Rle_trans; [|exact HG2]. apply rnd_le.
  unfold Rdiv. apply Rmult_le_compat_l; [exact D0|].
  apply Rinv_le_contravar; lra.
Qed.

Lemma wf_mean_up (m x c : R) : fmt m -> fmt x -> 2 <= c -> m <= x ->
  m <= rnd (m + rnd (rnd (x - m) / c)) <= x.
Proof.
  intros Gm Gx Hc Hmx. destruct (wf_inc_up m x c Gm Gx Hc Hmx) as [Q0 Q1].
  split; [apply rnd_ge_fmt; [exact Gm | lra] | apply rnd_le_fmt; [exact Gx | lra]].
Qed.

Lemma wf_mean_dn (m x c : R) : fmt m -> fmt x -> 2 <= c -> x <= m ->
  x <= rnd (m + rnd (rnd (x - m) / c)) <= m.
Proof.
  intros Gm Gx Hc Hxm. destruct (wf_inc_up x m c Gx Gm Hc Hxm) as [Q0 Q1].
  assert (E : rnd (rnd (x - m) / c) = - rnd (rnd (m - x) / c)).
  { replace (x - m) with (- (m - x)) by ring. rewrite rnd_opp.
    replace (- rnd (m - x) / c) with (- (rnd (m - x) / c)) by (unfold Rdiv; ring).
    apply rnd_opp. }
  rewrite E.
  split; [apply rnd_ge_fmt; [exact Gx | lra] | apply rnd_le_fmt; [exact Gm | lra]].
Qed.

(* the fused increment is never negative *)
Lemma wf_inc_sq_nonneg (m x c : R) : fmt m -> fmt x -> 2 <= c ->
  let m' := rnd (m + rnd (rnd (x - m) / c)) in
  0 <= rnd (x - m') * rnd (x - m).
Proof.
  intros Gm Gx Hc m'. destruct (Rle_or_lt m x) as [H | H].
  - destruct (wf_mean_up m x c Gm Gx Hc H) as [_ U]. fold m' in U.
    apply Rmult_le_pos; apply rnd_ge_0; lra.
  - destruct (wf_mean_dn m x c Gm Gx Hc (Rlt_le _ _ H)) as [L _]. fold m' in L.
    assert (A : rnd (x - m') <= 0) by (rewrite <- rnd_0; apply rnd_le; lra).
    assert (B : rnd (x - m) <= 0) by (rewrite <- rnd_0; apply rnd_le; lra).
    nra.
Qed.

(* the first step (mean = 0, count = 1) is exact *)
Lemma wf_first (x : R) : fmt x ->
  rnd (0 + rnd (rnd (x - 0) / 1)) = x.
Proof.
  intros Gx. rewrite Rminus_0_r, (rnd_id x Gx). unfold Rdiv. rewrite Rinv_1, Rmult_1_r, (rnd_id x Gx), Rplus_0_l.
  apply rnd_id. exact Gx.
Qed.

(* ------------------------------------------------------------------ *)
(* 4. Structural invariant of a run                                    *)
(* ------------------------------------------------------------------ *)
Definition in_range (lo hi : R) (xs : list F64) : Prop := Forall (fun x : F64 => lo <= B2R x <= hi) xs.

(* before any observation the state is (0, +0, +0); afterwards the mean is in range and sum_sq >= 0 *)
Definition wf_inv (lo hi : R) (st : wstate) : Prop :=
  fin (wm st) = true /\ fin (wq st) = true /\ 0 <= B2R (wq st) /\
  (wi st = 0%nat -> B2R (wm st) = 0 /\ B2R (wq st) = 0) /\
  ((1 <= wi st)%nat -> lo <= B2R (wm st) <= hi).

Lemma wf_inv_init lo hi : wf_inv lo hi welford_init.
Proof.
  unfold wf_inv, welford_init, wi, wm, wq. cbn [fst snd]. rewrite B2R_fzero.
  split; [reflexivity|]. split; [reflexivity|]. split; [lra|].
  split; [intros _; split; reflexivity | intros H0; lia].
Qed.

Lemma INR_ge_2 (i : nat) : (1 <= i)%nat -> 2 <= Rcount i.
Proof.
  intros H. unfold Rcount. replace 2 with (INR 2) by (cbn [INR]; ring). apply le_INR. lia.
Qed.

Lemma wf_inv_step lo hi (st : wstate) (x : F64) :
  (Z.of_nat (wi st + 1) <= 2 ^ 53)%Z -> lo <= B2R x <= hi ->
  wf_inv lo hi st -> fin (wq (welford_step st x)) = true -> wf_inv lo hi (welford_step st x).
Proof.
  intros Hi Hx (Fm & Fs & Hs0 & H0 & H1) Hf.
  destruct st as [[i m] s]. unfold wi, wm, wq in *. cbn [fst snd] in *.
  destruct (welford_step_vals i m s x Hi Hf) as ((_ & _ & Fx & Fm') & Em' & Es'). cbv zeta in Em', Es'.
  set (st' := welford_step (i, m, s) x) in *.
  assert (Ei : wi st' = S i) by reflexivity.
  unfold wf_inv. rewrite Ei.
  split; [exact Fm'|]. split; [exact Hf|].
  destruct i as [|i].
  - destruct (H0 eq_refl) as [Zm Zs].
    assert (Em1 : B2R (wm st') = B2R x).
    { rewrite Em', Zm. unfold Rcount. cbn [Nat.add INR]. apply wf_first. apply fmt_B2R. }
    split.
    + rewrite Es', Em1, Zs. replace (B2R x - B2R x) with 0 by ring.
      rewrite rnd_0, Rmult_0_l, Rplus_0_r, rnd_0. lra.
    + split; [intros Z; discriminate Z|]. intros _. rewrite Em1. exact Hx.
  - assert (Hc : 2 <= Rcount (S i)) by (apply INR_ge_2; lia).
    specialize (H1 ltac:(lia)).
    split.
    + rewrite Es', Em'. apply rnd_ge_0.
      pose proof (wf_inc_sq_nonneg (B2R m) (B2R x) (Rcount (S i)) (fmt_B2R m) (fmt_B2R x) Hc) as P.
      cbv zeta in P. lra.
    + split; [intros Z; discriminate Z|]. intros _. rewrite Em'.
      destruct (Rle_or_lt (B2R m) (B2R x)) as [H | H].
      * destruct (wf_mean_up (B2R m) (B2R x) _ (fmt_B2R m) (fmt_B2R x) Hc H). lra.
      * destruct (wf_mean_dn (B2R m) (B2R x) _ (fmt_B2R m) (fmt_B2R x) Hc (Rlt_le _ _ H)). lra.
Qed.

(* finiteness of the LAST sum of squares is the only finiteness hypothesis needed *)
Lemma welford_prefix_finite xs x : (Z.of_nat (length xs + 1) <= 2 ^ 53)%Z ->
  fin (wq (welford_run (xs ++ [x]))) = true ->
  fin (wq (welford_run xs)) = true /\ fin (wm (welford_run xs)) = true /\ fin x = true /\
  fin (wm (welford_run (xs ++ [x]))) = true.
Proof.
  intros Hn Hf. rewrite welford_run_snoc in *.
  pose proof (welford_run_count xs) as Ec.
  destruct (welford_run xs) as [[i m] s]. unfold wi in Ec. cbn [fst] in Ec. subst i.
  destruct (welford_step_vals (length xs) m s x Hn Hf) as ((Fm & Fs & Fx & Fm') & _).
  unfold wm, wq. cbn [fst snd]. repeat split; assumption.
Qed.

Theorem welford_run_inv lo hi xs : (Z.of_nat (length xs) <= 2 ^ 53)%Z ->
  in_range lo hi xs -> fin (wq (welford_run xs)) = true -> wf_inv lo hi (welford_run xs).
Proof.
  induction xs as [|x xs IH] using rev_ind; intros Hn Hr Hf; [apply wf_inv_init|].
  rewrite app_length in Hn. cbn [length] in Hn.
  apply Forall_app in Hr. destruct Hr as [Hr Hx]. inversion Hx as [|? ? Hx1 _]; subst.
  destruct (welford_prefix_finite xs x Hn Hf) as (Fq & _).
  rewrite welford_run_snoc in *.
  apply wf_inv_step; [rewrite welford_run_count; exact Hn | exact Hx1 | apply IH; [lia | exact Hr | exact Fq] | exact Hf].
Qed.

Theorem welford_run_finite xs : (Z.of_nat (length xs) <= 2 ^ 53)%Z ->
  fin (wq (welford_run xs)) = true ->
  fin (wm (welford_run xs)) = true /\ Forall (fun x : F64 => fin x = true) xs.
Proof.
  induction xs as [|x xs IH] using rev_ind; intros Hn Hf; [split; [reflexivity | constructor]|].
  rewrite app_length in Hn. cbn [length] in Hn.
  destruct (welford_prefix_finite xs x Hn Hf) as (Fq & _ & Fx & Fm').
  split; [exact Fm'|]. apply Forall_app. split; [apply IH; [lia | exact Fq] | constructor; [exact Fx | constructor]].
Qed.

(* the range of the data *)
Definition wlo (xs : list F64) : R := fold_right (fun x acc => Rmin (B2R x) acc) (B2R (hd fzero xs)) xs.
Definition whi (xs : list F64) : R := fold_right (fun x acc => Rmax (B2R x) acc) (B2R (hd fzero xs)) xs.
Lemma in_range_lo_hi xs : in_range (wlo xs) (whi xs) xs.
Proof.
  unfold in_range, wlo, whi. generalize (B2R (hd fzero xs)). intros d.
  induction xs as [|x xs IH]; [constructor|]. cbn [fold_right]. constructor.
  - split; [apply Rmin_l | apply Rmax_l].
  - eapply Forall_impl; [|exact IH]. intros a [A1 A2]. split.
    + eapply Rle_trans; [apply Rmin_r | exact A1].
    + eapply Rle_trans; [exact A2 | apply Rmax_r].
Qed.

Theorem welford_mean_in_range lo hi xs : (1 <= length xs)%nat -> (Z.of_nat (length xs) <= 2 ^ 53)%Z ->
  in_range lo hi xs -> fin (wq (welford_run xs)) = true ->
  lo <= B2R (wm (welford_run xs)) <= hi.
Proof.
  intros H1 Hn Hr Hf. destruct (welford_run_inv lo hi xs Hn Hr Hf) as (_ & _ & _ & _ & H).
  apply H. rewrite welford_run_count. exact H1.
Qed.

Theorem welford_ssq_nonneg xs : (Z.of_nat (length xs) <= 2 ^ 53)%Z ->
  fin (wq (welford_run xs)) = true -> 0 <= B2R (wq (welford_run xs)).
Proof.
  intros Hn Hf. destruct (welford_run_inv _ _ xs Hn (in_range_lo_hi xs) Hf) as (_ & _ & H & _). exact H.
Qed.

(* the returned variance and standard deviation are never negative (and never NaN when finite) *)
Theorem welford_var_nonneg xs ddof : (Z.of_nat (length xs) <= 2 ^ 53)%Z ->
  fin ddof = true -> 0 < INR (length xs) - B2R ddof ->
  fin (welford_var xs ddof) = true -> 0 <= B2R (welford_var xs ddof).
Proof.
  intros Hn Fd HD Hf. unfold welford_var in *.
  destruct (divisor_model (length xs) ddof Hn Fd) as (d & Hd & ED & Pd).
  assert (PD : 0 < B2R (fsub (f64_of_Z (Z.of_nat (length xs))) ddof)).
  { rewrite ED. apply Rmult_lt_0_compat; assumption. }
  assert (ND : B2R (fsub (f64_of_Z (Z.of_nat (length xs))) ddof) <> 0) by lra.
  destruct (fdiv_value _ _ ND Hf) as [Ev Fq]. rewrite Ev. apply rnd_ge_0.
  apply Rmult_le_pos; [apply welford_ssq_nonneg; assumption | apply Rlt_le, Rinv_0_lt_compat; exact PD].
Qed.

Theorem welford_std_nonneg xs ddof : 0 <= B2R (welford_std xs ddof).
Proof. apply fsqrt_nonneg. Qed.

(* the hypotheses are satisfiable *)
Example welford_structural_example :
  fin (wq (welford_run wex2)) = true /\
  0 <= B2R (wq (welford_run wex2)) /\
  wlo wex2 <= B2R (wm (welford_run wex2)) <= whi wex2.
Proof.
  assert (F : fin (wq (welford_run wex2)) = true) by (vm_compute; reflexivity).
  assert (Hn : (Z.of_nat (length wex2) <= 2 ^ 53)%Z) by (vm_compute; discriminate).
  split; [exact F|]. split; [exact (welford_ssq_nonneg wex2 Hn F)|].
  apply welford_mean_in_range; [vm_compute; lia | exact Hn | apply in_range_lo_hi | exact F].
Qed.

Print Assumptions welford_run_finite.
Print Assumptions welford_mean_in_range.
Print Assumptions welford_ssq_nonneg.
Print Assumptions welford_var_nonneg.
