(* Soundness of the rational evaluation of the Pearson-entry bound (Run/RunPearson.v):
   1. Q2R of the rational constants, of the exact value of a binary64 number, of the rational sums;
   2. the data statistics computed over Q are the real-number ones of Num/CovF64.v / Num/WelfordErrF64.v;
   3. [pearson_stats_Q_sound]: when pearson_stats_Q succeeds, every hypothesis of
      C08_pearson_entry_error_f64 that concerns the DATA holds (lengths, n u <= 1/64, ranges, positive
      variances, relP <= 1/2) and the rational bound dominates the proved bound;
   4. [pearson_model_entry_error_Q]: the model's entry is within the RATIONAL bound of Pearson's r --
      all hypotheses are booleans evaluable by vm_compute;
   5. [pearson_check_Q_sound]: an observed binary64 value accepted by pearson_check_Q is within the
      rational bound of Pearson's r of the data. *)
From Flocq Require Import Core BinarySingleNaN.
Require Import Reals Lra Lia ZArith QArith Qabs Qreals Psatz Bool List.
From NS Require Import Num.F64 Num.Ops Num.F64Inst Num.QInst Num.Cov Num.SumF64
  Quantile.IndexProofs Quantile.InterpF64 Num.DeviationF64 Num.MeansF64 Num.CovF64 Num.DerivedF64.
From NS Require Import Num.WestErrR Num.WelfordF64 Num.WelfordErrR Num.WelfordErrF64 Num.PearsonF64
  Num.PearsonExampleF64.
From NS Require Import Run.RunBase Run.RunCov Run.RunPearson.
Import ListNotations.
Open Scope R_scope.

(* ------------------------------------------------------------------ *)
(* 1. Q2R basics                                                       *)
(* ------------------------------------------------------------------ *)
Lemma Q2R_zero : Q2R 0 = 0.
Proof. unfold Q2R. cbn [Qnum Qden]. lra. Qed.
Lemma Q2R_one : Q2R 1 = 1.
Proof. unfold Q2R. cbn [Qnum Qden]. lra. Qed.
Lemma Q2R_inject_Z (z : Z) : Q2R (inject_Z z) = IZR z.
Proof. unfold Q2R, inject_Z. cbn [Qnum Qden]. lra. Qed.
Lemma Q2R_nq (n : nat) : Q2R (inject_Z (Z.of_nat n)) = INR n.
Proof. rewrite Q2R_inject_Z. symmetry. apply INR_IZR_INZ. Qed.
Lemma Q2R_Qred (q : Q) : Q2R (Qred q) = Q2R q.
Proof. apply Qeq_eqR, Qred_correct. Qed.
Lemma Q2R_make (a : Z) (p : positive) : Q2R (a # p) = IZR a / IZR (Zpos p).
Proof. reflexivity. Qed.
Lemma Qnz_of_R (q : Q) : Q2R q <> 0 -> ~ (q == 0)%Q.
Proof. intros H E. apply H. rewrite (Qeq_eqR _ _ E). exact Q2R_zero. Qed.

Lemma Q2R_Qabs (q : Q) : Q2R (Qabs q) = Rabs (Q2R q).
Proof.
  destruct (Qlt_le_dec q 0) as [H | H].
  - rewrite (Qeq_eqR _ _ (Qabs_neg q (Qlt_le_weak _ _ H))), Q2R_opp.
    apply Qlt_Rlt in H. rewrite Q2R_zero in H. rewrite Rabs_left by exact H. reflexivity.
  - rewrite (Qeq_eqR _ _ (Qabs_pos q H)).
    apply Qle_Rle in H. rewrite Q2R_zero in H. rewrite Rabs_pos_eq by exact H. reflexivity.
Qed.

Lemma Qle_bool_R (a b : Q) : Qle_bool a b = true -> Q2R a <= Q2R b.
Proof. intros H. apply Qle_Rle. apply Qle_bool_iff. exact H. Qed.
Lemma Qle_bool_false_R (a b : Q) : Qle_bool a b = false -> Q2R b < Q2R a.
Proof.
  intros H. apply Qlt_Rlt. apply Qnot_le_lt. intros L. apply Qle_bool_iff in L. rewrite L in H. discriminate H.
Qed.

Lemma qmax_ge (a b : Q) : Q2R a <= Q2R (qmax a b) /\ Q2R b <= Q2R (qmax a b).
Proof.
  unfold qmax. destruct (Qle_bool a b) eqn:E.
  - apply Qle_bool_R in E. lra.
  - apply Qle_bool_false_R in E. lra.
Qed.

Lemma IZR_pow2 (e : Z) : (0 <= e)%Z -> IZR (2 ^ e) = bpow radix2 e.
Proof. intros He. exact (IZR_Zpower radix2 e He). Qed.

Lemma Q2R_inv_pow2 (e : Z) : (0 <= e)%Z -> Q2R (1 # Z.to_pos (2 ^ e)) = bpow radix2 (- e).
Proof.
  intros He. rewrite Q2R_make.
  assert (P : (0 < 2 ^ e)%Z) by (apply Z.pow_pos_nonneg; lia).
  rewrite (Z2Pos.id _ P), (IZR_pow2 e He), bpow_opp. unfold Rdiv. ring.
Qed.

Lemma Q2R_u64Q : Q2R u64Q = u64.
Proof. exact (Q2R_inv_pow2 53 ltac:(lia)). Qed.
Lemma Q2R_eta64Q : Q2R eta64Q = eta64.
Proof. exact (Q2R_inv_pow2 1075 ltac:(lia)). Qed.

Lemma Q2R_g64Q (k : nat) : Q2R (g64Q k) = g64 k.
Proof.
  unfold g64Q. cbv zeta. set (kz := Z.of_nat k).
  assert (Hk : (0 <= kz)%Z) by (unfold kz; lia).
  assert (P : (0 < 2 ^ (53 * kz))%Z) by (apply Z.pow_pos_nonneg; lia).
  rewrite Q2R_make, (Z2Pos.id _ P), minus_IZR.
  assert (E1 : IZR (2 ^ (53 * kz)) = IZR (2 ^ 53) ^ k).
  { rewrite Z.pow_mul_r by lia. unfold kz. symmetry. apply pow_IZR. }
  assert (E2 : IZR ((2 ^ 53 + 1) ^ kz) = (IZR (2 ^ 53) + 1) ^ k).
  { unfold kz. rewrite <- pow_IZR, plus_IZR. reflexivity. }
  rewrite E1, E2. set (A := IZR (2 ^ 53)).
  assert (HA : 0 < A) by (unfold A; apply IZR_lt; reflexivity).
  assert (Eu : u64 = / A).
  { unfold A. change (IZR (2 ^ 53)) with (bpow radix2 53). unfold u64. exact (bpow_opp radix2 53). }
  unfold g64. rewrite Eu.
  assert (K : (1 + / A) ^ k * A ^ k = (A + 1) ^ k).
  { rewrite <- Rpow_mult_distr. f_equal. field. lra. }
  assert (PA : 0 < A ^ k) by (apply pow_lt; exact HA).
  rewrite <- K. field. lra.
Qed.

(* the exact value of a binary64 number *)
Lemma Q2R_toQ (x : F64) : Q2R (toQ x) = B2R x.
Proof.
  unfold toQ, f64_to_Q. destruct x as [s | s | | s m e Hb]; try exact Q2R_zero.
  cbn [BinarySingleNaN.B2R]. unfold F2R. cbn [Fnum Fexp].
  set (mz := if s then Z.neg m else Z.pos m).
  assert (Emz : cond_Zopp s (Z.pos m) = mz) by (unfold mz; destruct s; reflexivity).
  rewrite Emz. destruct (0 <=? e)%Z eqn:He.
  - apply Z.leb_le in He. rewrite Q2R_inject_Z, mult_IZR, (IZR_pow2 e He). reflexivity.
  - apply Z.leb_gt in He. rewrite Q2R_Qred, Q2R_make.
    assert (P : (0 < 2 ^ (- e))%Z) by (apply Z.pow_pos_nonneg; lia).
    rewrite (Z2Pos.id _ P), (IZR_pow2 (- e)) by lia. rewrite bpow_opp. unfold Rdiv.
    rewrite Rinv_inv. reflexivity.
Qed.

(* rational sums *)
Lemma Q2R_fold_qsum (l : list Q) : forall a0 : Q,
  Q2R (fold_left (fun a b => Qred (a + b)) l a0) = Q2R a0 + Rsum (map Q2R l).
Proof.
  induction l as [|x l IH]; intros a0; cbn [fold_left map].
  - rewrite Rsum_nil. ring.
  - rewrite IH, Q2R_Qred, Q2R_plus, Rsum_cons. ring.
Qed.
Lemma Q2R_qsum (l : list Q) : Q2R (qsum l) = Rsum (map Q2R l).
Proof. unfold qsum. rewrite Q2R_fold_qsum, Q2R_zero. ring. Qed.
Lemma Q2R_qsum_map {A} (f : A -> Q) (g : A -> R) (l : list A) :
  (forall a, Q2R (f a) = g a) -> Q2R (qsum (map f l)) = Rsum (map g l).
Proof. intros E. rewrite Q2R_qsum, map_map. apply Rsum_map_ext. exact E. Qed.

(* ------------------------------------------------------------------ *)
(* 2. The data statistics                                              *)
(* ------------------------------------------------------------------ *)
Definition qs (x : list F64) : list Q := map toQ x.

Lemma qs_length x : length (qs x) = length x.
Proof. apply map_length. Qed.

Lemma nq_nz (n : nat) : (1 <= n)%nat -> ~ (inject_Z (Z.of_nat n) == 0)%Q.
Proof. intros Hn. apply Qnz_of_R. rewrite Q2R_nq. apply not_0_INR. lia. Qed.

Lemma Q2R_qmean (x : list F64) : (1 <= length x)%nat -> Q2R (qmean (qs x)) = meanR x.
Proof.
  intros Hn. unfold qmean, meanR. rewrite qs_length, Q2R_div by (apply nq_nz; exact Hn).
  rewrite Q2R_nq. f_equal. unfold qs. rewrite Q2R_qsum, map_map. apply Rsum_map_ext. exact Q2R_toQ.
Qed.

Lemma Q2R_qasum (x : list F64) : Q2R (qasum (qs x)) = Rasum (map B2R x).
Proof.
  unfold qasum, qs. rewrite map_map, (Q2R_qsum_map _ (fun v : F64 => Rabs (B2R v))).
  - apply Rsum_abs_Rasum.
  - intros a. rewrite Q2R_Qabs, Q2R_toQ. reflexivity.
Qed.

Lemma Q2R_qadev (x : list F64) : (1 <= length x)%nat -> Q2R (qadev (qs x)) = adev x.
Proof.
  intros Hn. unfold qadev, adev. cbv zeta. unfold qs at 2. rewrite map_map.
  apply Q2R_qsum_map. intros a. rewrite Q2R_Qabs, Q2R_minus, Q2R_toQ, (Q2R_qmean x Hn). reflexivity.
Qed.

Lemma combine_qs (x y : list F64) :
  combine (qs x) (qs y) = map (fun p : F64 * F64 => (toQ (fst p), toQ (snd p))) (combine x y).
Proof. unfold qs. apply combine_map_map'. Qed.

Lemma Q2R_qaxy (x y : list F64) : (1 <= length x)%nat -> (1 <= length y)%nat ->
  Q2R (qaxy (qs x) (qs y)) = axy x y.
Proof.
  intros Hx Hy. unfold qaxy, axy. cbv zeta. rewrite combine_qs, map_map.
  apply Q2R_qsum_map. intros p. cbn [fst snd].
  rewrite Q2R_mult, !Q2R_Qabs, !Q2R_minus, !Q2R_toQ, (Q2R_qmean x Hx), (Q2R_qmean y Hy). reflexivity.
Qed.

Lemma Q2R_qcxy (x y : list F64) : (1 <= length x)%nat -> (1 <= length y)%nat ->
  Q2R (qcxy (qs x) (qs y)) = cxy x y.
Proof.
  intros Hx Hy. unfold qcxy, cxy. cbv zeta. rewrite combine_qs, map_map.
  apply Q2R_qsum_map. intros p. cbn [fst snd].
  rewrite Q2R_mult, !Q2R_minus, !Q2R_toQ, (Q2R_qmean x Hx), (Q2R_qmean y Hy). reflexivity.
Qed.

Lemma Q2R_qss (x : list F64) : (1 <= length x)%nat -> Q2R (qss (qs x)) = ssR x.
Proof.
  intros Hx. unfold qss, ssR, ssC. cbv zeta. pose proof (Q2R_qmean x Hx) as Em.
  set (m := qmean (qs x)) in *. unfold qs. rewrite map_map.
  apply Q2R_qsum_map. intros a. rewrite Q2R_mult, !Q2R_minus, !Q2R_toQ, Em. reflexivity.
Qed.

Lemma in_rangeQ_sound (lo hi : Q) (x : list F64) :
  in_rangeQ lo hi (qs x) = true -> in_range (Q2R lo) (Q2R hi) x.
Proof.
  unfold in_rangeQ, qs. intros H. rewrite forallb_forall in H.
  unfold in_range. apply Forall_forall. intros v Hv.
  specialize (H (toQ v) (in_map toQ x v Hv)). apply andb_prop in H. destruct H as [H1 H2].
  apply Qle_bool_R in H1. apply Qle_bool_R in H2. rewrite Q2R_toQ in H1, H2. lra.
Qed.

(* the error terms *)
Lemma Q2R_mean_bound (hm : nat) (x : list F64) : (1 <= length x)%nat ->
  Q2R (mean_bound_Q hm (qs x)) = mean_err hm (length x) x.
Proof.
  intros Hn. unfold mean_bound_Q, mean_err. rewrite qs_length.
  rewrite Q2R_plus, Q2R_div by (apply nq_nz; exact Hn).
  rewrite Q2R_mult, Q2R_g64Q, Q2R_qasum, Q2R_nq, Q2R_eta64Q. reflexivity.
Qed.

Lemma Q2R_cov_bound (h n : nat) (ei ej D : Q) (x y : list F64) :
  length x = n -> length y = n -> (1 <= n)%nat -> Q2R D <> 0 ->
  Q2R (cov_bound_Q h n ei ej (qs x) (qs y) D) = cov_bound h n (Q2R ei) (Q2R ej) x y (Q2R D).
Proof.
  intros Lx Ly Hn HD. unfold cov_bound_Q, cov_bound, covQ. cbv zeta.
  assert (ND : ~ (Qabs D == 0)%Q).
  { apply Qnz_of_R. rewrite Q2R_Qabs. apply Rabs_no_R0. exact HD. }
  rewrite Q2R_plus, Q2R_div by exact ND.
  repeat (rewrite Q2R_plus || rewrite Q2R_mult).
  rewrite !Q2R_g64Q, Q2R_Qabs, !Q2R_eta64Q, !Q2R_nq, !Q2R_one.
  rewrite (Q2R_qaxy x y) by lia. rewrite (Q2R_qadev x), (Q2R_qadev y) by lia.
  reflexivity.
Qed.

Lemma Q2R_const (a : Z) (p : positive) : Q2R (a # p) = IZR a / IZR (Zpos p).
Proof. reflexivity. Qed.

Lemma Q2R_wSpQ (n : nat) (D X Sq : Q) : Q2R (wSpQ n D X Sq) = wSp n (Q2R D) (Q2R X) (Q2R Sq).
Proof.
  unfold wSpQ, wSp. cbv zeta.
  repeat (rewrite Q2R_plus || rewrite Q2R_mult).
  rewrite !Q2R_nq, !Q2R_u64Q, !Q2R_eta64Q.
  rewrite !Q2R_const. field.
Qed.

Lemma Q2R_wVarBQ (n : nat) (D X Sq Dn : Q) : Q2R Dn <> 0 ->
  Q2R (wVarBQ n D X Sq Dn) = wVarB n (Q2R D) (Q2R X) (Q2R Sq) (Q2R Dn).
Proof.
  intros HD. unfold wVarBQ, wVarB.
  assert (ND : ~ (Qabs Dn == 0)%Q).
  { apply Qnz_of_R. rewrite Q2R_Qabs. apply Rabs_no_R0. exact HD. }
  rewrite Q2R_plus, Q2R_div by exact ND.
  rewrite Q2R_plus, !Q2R_mult, Q2R_plus, Q2R_one, Q2R_g64Q, Q2R_wSpQ, Q2R_Qabs, Q2R_eta64Q. reflexivity.
Qed.

(* Es / sigma, a rational function of the data *)
Lemma Q2R_std_relQ (n : nat) (lo hi X : Q) (x : list F64) : length x = n -> (1 <= n)%nat -> 0 < ssR x ->
  Q2R (std_relQ n (hi - lo) X (qss (qs x)))
  = pearson_Es n (Q2R lo) (Q2R hi) (Q2R X) x / sigmaR x.
Proof.
  intros L Hn HS. rewrite (pearson_Es_rel n _ _ _ x L Hn HS). unfold std_relQ. cbv zeta.
  assert (Hk : INR n <> 0) by (apply not_0_INR; lia).
  assert (ES : Q2R (qss (qs x)) = ssR x) by (apply Q2R_qss; lia).
  assert (NV : ~ (qss (qs x) / inject_Z (Z.of_nat n) == 0)%Q).
  { apply Qnz_of_R. rewrite Q2R_div by (apply nq_nz; exact Hn). rewrite ES, Q2R_nq.
    unfold Rdiv. apply Rmult_integral_contrapositive_currified; [lra | apply Rinv_neq_0_compat; exact Hk]. }
  rewrite Q2R_plus, Q2R_mult, Q2R_div by exact NV.
  rewrite Q2R_div by (apply nq_nz; exact Hn).
  rewrite Q2R_wVarBQ by (rewrite Q2R_nq; exact Hk).
  rewrite Q2R_plus, Q2R_one, Q2R_u64Q, Q2R_minus, Q2R_nq, ES. reflexivity.
Qed.

(* non-negativity of the covariance bound *)
Lemma mean_err_nonneg (hm n : nat) (x : list F64) : (1 <= n)%nat -> 0 <= mean_err hm n x.
Proof.
  intros Hn. unfold mean_err. pose proof (g64_nonneg (hm + 1)). pose proof (Rasum_nonneg (map B2R x)).
  pose proof eta64_pos. assert (0 < INR n) by (apply lt_0_INR; lia).
  assert (0 <= g64 (hm + 1) * Rasum (map B2R x) / INR n).
  { unfold Rdiv. apply Rmult_le_pos; [apply Rmult_le_pos; lra | apply Rlt_le, Rinv_0_lt_compat; lra]. }
  lra.
Qed.

Lemma cov_bound_nonneg (h n : nat) (ei ej D : R) (x y : list F64) : 0 <= ei -> 0 <= ej -> D <> 0 ->
  0 <= cov_bound h n ei ej x y D.
Proof.
  intros Hi Hj HD. unfold cov_bound, covQ.
  pose proof (axy_nonneg x y). pose proof (adev_nonneg x). pose proof (adev_nonneg y).
  pose proof (pos_INR n). pose proof (g64_nonneg (h + 5)). pose proof (g64_nonneg 2). pose proof (g64_nonneg h).
  pose proof eta64_pos.
  assert (0 <= ej * adev x) by (apply Rmult_le_pos; lra).
  assert (0 <= ei * adev y) by (apply Rmult_le_pos; lra).
  assert (0 <= INR n * ei * ej) by (apply Rmult_le_pos; [apply Rmult_le_pos|]; lra).
  assert (0 <= INR n * (1 + g64 h) * eta64) by (apply Rmult_le_pos; [apply Rmult_le_pos|]; lra).
  assert (0 <= g64 (h + 5) * (axy x y + ej * adev x + ei * adev y + INR n * ei * ej)) by (apply Rmult_le_pos; lra).
  assert (0 <= (1 + g64 2) * (INR n * ei * ej + INR n * (1 + g64 h) * eta64)) by (apply Rmult_le_pos; lra).
  assert (0 < / Rabs D) by (apply Rinv_0_lt_compat, Rabs_pos_lt; exact HD).
  unfold Rdiv.
  assert (0 <= (g64 (h + 5) * (axy x y + ej * adev x + ei * adev y + INR n * ei * ej)
                + (1 + g64 2) * (INR n * ei * ej + INR n * (1 + g64 h) * eta64)) * / Rabs D)
    by (apply Rmult_le_pos; lra).
  lra.
Qed.

Lemma wSp_nonneg (n : nat) (D X Sq : R) : 0 <= D -> 0 <= X -> 0 <= Sq -> 0 <= wSp n D X Sq.
Proof.
  intros HD HX HS. unfold wSp. pose proof u64_pos. pose proof eta64_pos. pose proof (pos_INR n).
  assert (0 <= (61 / 60 * INR n + 41 / 20) * u64 * Sq) by (apply Rmult_le_pos; [apply Rmult_le_pos|]; nra).
  assert (0 <= 17 / 4 * INR n * u64 * D) by (apply Rmult_le_pos; [apply Rmult_le_pos|]; nra).
  assert (0 <= 21 / 40 * INR n * (INR n + 3) * (u64 * X + eta64)).
  { apply Rmult_le_pos; [apply Rmult_le_pos; nra | nra]. }
  assert (0 <= 61 / 60 * INR n * eta64) by (apply Rmult_le_pos; nra).
  assert (0 <= D * (17 / 4 * INR n * u64 * D + 21 / 40 * INR n * (INR n + 3) * (u64 * X + eta64)))
    by (apply Rmult_le_pos; lra).
  lra.
Qed.

Lemma in_range_le (lo hi : R) (x : list F64) : (1 <= length x)%nat -> in_range lo hi x -> lo <= hi.
Proof.
  intros Hn Hr. destruct x as [|x0 x]; [cbn [length] in Hn; lia|].
  inversion Hr as [|? ? Hx0 _]; subst. lra.
Qed.

(* Es / sigma >= 0 *)
Lemma std_rel_nonneg (n : nat) (lo hi X : R) (x : list F64) : length x = n -> (1 <= n)%nat -> 0 < ssR x ->
  in_range lo hi x -> Rabs lo <= X -> 0 <= pearson_Es n lo hi X x / sigmaR x.
Proof.
  intros L Hn HS Hr HX. rewrite (pearson_Es_rel n lo hi X x L Hn HS).
  assert (Hk : 0 < INR n) by (apply lt_0_INR; lia).
  pose proof (in_range_le lo hi x ltac:(lia) Hr) as Hlh. pose proof (Rabs_pos lo) as Hl.
  assert (W0 : 0 <= wVarB n (hi - lo) X (ssR x) (INR n)).
  { apply wVarB_le; [exact Hk | lra | apply wSp_nonneg; lra]. }
  assert (0 <= wVarB n (hi - lo) X (ssR x) (INR n) / (ssR x / INR n)).
  { apply Rmult_le_pos; [exact W0|]. apply Rlt_le, Rinv_0_lt_compat, Rdiv_lt_0_compat; assumption. }
  pose proof u64_pos. nra.
Qed.

(* ------------------------------------------------------------------ *)
(* 3. Soundness of the rational bound                                  *)
(* ------------------------------------------------------------------ *)
(* the real-number monotonicity step: sigma_i sigma_j replaced by a lower bound L *)
Lemma pearson_bound_lower (Ec ri rj P L : R) : 0 <= Ec -> 0 <= ri -> 0 <= rj -> 0 < L -> L <= P ->
  let relP := (ri + rj + ri * rj) * (1 + u64) + u64 + eta64 / P in
  let relL := (ri + rj + ri * rj) * (1 + u64) + u64 + eta64 / L in
  relP <= relL /\ pearson_bound Ec relP P <= 2 * (Ec / L + relL) * (1 + u64) + u64 + eta64.
Proof.
  intros HE Hi Hj HL HLP relP relL.
  assert (HP : 0 < P) by lra.
  assert (I : / P <= / L) by (apply Rinv_le_contravar; lra).
  assert (IP : 0 < / P) by (apply Rinv_0_lt_compat; exact HP).
  pose proof eta64_pos as He. pose proof u64_pos as Hu.
  assert (A : eta64 / P <= eta64 / L) by (unfold Rdiv; apply Rmult_le_compat_l; lra).
  assert (B : Ec / P <= Ec / L) by (unfold Rdiv; apply Rmult_le_compat_l; lra).
  assert (R1 : relP <= relL) by (unfold relP, relL; lra).
  split; [exact R1|]. unfold pearson_bound.
  assert (2 * (Ec / P + relP) * (1 + u64) <= 2 * (Ec / L + relL) * (1 + u64)).
  { apply Rmult_le_compat_r; lra. }
  lra.
Qed.

Lemma Q2R_half : Q2R (1 # 2) = / 2.
Proof. rewrite Q2R_const. unfold Rdiv. lra. Qed.
Lemma Q2R_64th : Q2R (1 # 64) = / 64.
Proof. rewrite Q2R_const. unfold Rdiv. lra. Qed.

(* what a successful evaluation establishes *)
Definition pearson_data_ok (h hm : nat) (xi xj : list F64) (s : pearson_stats) : Prop :=
  exists loi hii Xi loj hij Xj : R,
  let n := length xi in
  let relP := pearson_relP (pearson_Es n loi hii Xi xi) (pearson_Es n loj hij Xj xj) (sigmaR xi) (sigmaR xj) in
  length xj = n /\ (1 <= n)%nat /\ INR n * u64 <= / 64 /\
  (in_range loi hii xi /\ Rabs loi <= Xi /\ Rabs hii <= Xi) /\
  (in_range loj hij xj /\ Rabs loj <= Xj /\ Rabs hij <= Xj) /\
  0 < ssR xi /\ 0 < ssR xj /\
  relP <= / 2 /\
  pearson_bound (pearson_Ec h hm n xi xj) relP (sigmaR xi * sigmaR xj) <= Q2R (ps_B s) /\
  Q2R (ps_C s) = cxy xi xj / INR n /\
  0 < Q2R (ps_V s) /\ sqrt (Q2R (ps_V s)) = sigmaR xi * sigmaR xj.

Theorem pearson_stats_Q_sound (h hm : nat) (xi xj : list F64) (s : pearson_stats) :
  pearson_stats_Q h hm (qs xi) (qs xj) = Some s -> pearson_data_ok h hm xi xj s.
Proof.
  unfold pearson_stats_Q. cbv zeta. rewrite !qs_length.
  set (n := length xi). set (nq := inject_Z (Z.of_nat n)).
  set (loi := qlo (qs xi)). set (hii := qhi (qs xi)). set (Xi := qmax (Qabs loi) (Qabs hii)).
  set (loj := qlo (qs xj)). set (hij := qhi (qs xj)). set (Xj := qmax (Qabs loj) (Qabs hij)).
  set (Si := qss (qs xi)). set (Sj := qss (qs xj)).
  remember (Qred (Si / nq * (Sj / nq))%Q) as V eqn:DV. remember (sqrt_lowQ V) as L eqn:DL.
  remember (Qred (std_relQ n (hii - loi) Xi Si)) as ri eqn:Dri.
  remember (Qred (std_relQ n (hij - loj) Xj Sj)) as rj eqn:Drj.
  remember (Qred ((ri + rj + ri * rj) * (1 + u64Q) + u64Q + eta64Q / L)%Q) as relPq eqn:DrelP.
  remember (Qred (cov_bound_Q h n (mean_bound_Q hm (qs xi)) (mean_bound_Q hm (qs xj)) (qs xi) (qs xj) nq)) as Ecq eqn:DEc.
  destruct (_ && _) eqn:Hc; [|discriminate]. intros E. injection E as E. subst s. cbn [ps_B ps_C ps_V].
  repeat (apply andb_prop in Hc; destruct Hc as [Hc ?]).
  rename H into CrelP, H0 into CL2, H1 into CL0, H2 into CSj, H3 into CSi, H4 into CRj, H5 into CRi, H6 into Csmall, H7 into Cn1.
  apply Nat.eqb_eq in Hc. apply Nat.leb_le in Cn1.
  assert (Lj : length xj = n) by exact Hc.
  assert (Hk : 0 < INR n) by (apply lt_0_INR; lia).
  assert (Hk' : INR n <> 0) by lra.
  assert (Nnq : ~ (nq == 0)%Q) by (apply nq_nz; exact Cn1).
  (* n u <= 1/64 *)
  apply Qle_bool_R in Csmall. rewrite Q2R_mult, Q2R_u64Q, Q2R_64th in Csmall. unfold nq in Csmall. rewrite Q2R_nq in Csmall.
  (* ranges *)
  apply in_rangeQ_sound in CRi. apply in_rangeQ_sound in CRj.
  destruct (qmax_ge (Qabs loi) (Qabs hii)) as [Ai1 Ai2]. fold Xi in Ai1, Ai2. rewrite Q2R_Qabs in Ai1, Ai2.
  destruct (qmax_ge (Qabs loj) (Qabs hij)) as [Aj1 Aj2]. fold Xj in Aj1, Aj2. rewrite Q2R_Qabs in Aj1, Aj2.
  (* variances *)
  assert (ESi : Q2R Si = ssR xi) by (apply Q2R_qss; exact Cn1).
  assert (ESj : Q2R Sj = ssR xj) by (apply Q2R_qss; lia).
  apply negb_true_iff in CSi. apply Qle_bool_false_R in CSi. rewrite Q2R_zero, ESi in CSi.
  apply negb_true_iff in CSj. apply Qle_bool_false_R in CSj. rewrite Q2R_zero, ESj in CSj.
  assert (Lxi : (1 <= length xi)%nat) by exact Cn1. assert (Lxj : (1 <= length xj)%nat) by lia.
  pose proof (sigmaR_pos xi Lxi CSi) as Pi. pose proof (sigmaR_pos xj Lxj CSj) as Pj.
  set (P := sigmaR xi * sigmaR xj).
  assert (HP : 0 < P) by (apply Rmult_lt_0_compat; assumption).
  assert (EV : Q2R V = P * P).
  { rewrite DV. rewrite Q2R_Qred, Q2R_mult, !Q2R_div by exact Nnq. unfold nq. rewrite Q2R_nq, ESi, ESj.
    replace (P * P) with ((sigmaR xi * sigmaR xi) * (sigmaR xj * sigmaR xj)) by (unfold P; ring).
    rewrite (sigmaR_sq xi Lxi), (sigmaR_sq xj Lxj), Lj. reflexivity. }
  assert (HV : 0 < Q2R V) by (rewrite EV; apply Rmult_lt_0_compat; exact HP).
  assert (SV : sqrt (Q2R V) = P) by (rewrite EV; apply sqrt_square; lra).
  (* L *)
  apply negb_true_iff in CL0. apply Qle_bool_false_R in CL0. rewrite Q2R_zero in CL0.
  apply Qle_bool_R in CL2. rewrite Q2R_mult in CL2.
  assert (HLP : Q2R L <= P).
  { rewrite <- SV. apply le_sqrt; [lra | exact CL2]. }
  (* the relative errors of the standard deviations *)
  assert (Eri : Q2R ri = pearson_Es n (Q2R loi) (Q2R hii) (Q2R Xi) xi / sigmaR xi).
  { rewrite Dri. unfold Si. rewrite Q2R_Qred. apply Q2R_std_relQ; [reflexivity | exact Cn1 | exact CSi]. }
  assert (Erj : Q2R rj = pearson_Es n (Q2R loj) (Q2R hij) (Q2R Xj) xj / sigmaR xj).
  { rewrite Drj. unfold Sj. rewrite Q2R_Qred. apply Q2R_std_relQ; [exact Lj | exact Cn1 | exact CSj]. }
  (* the covariance error *)
  assert (EEc : Q2R Ecq = pearson_Ec h hm n xi xj).
  { rewrite DEc. unfold pearson_Ec. rewrite Q2R_Qred, (Q2R_cov_bound h n _ _ nq xi xj eq_refl Lj Cn1) by (unfold nq; rewrite Q2R_nq; exact Hk').
    rewrite (Q2R_mean_bound hm xi Lxi), (Q2R_mean_bound hm xj Lxj), Lj. unfold nq. rewrite Q2R_nq. reflexivity. }
  assert (Ec0 : 0 <= pearson_Ec h hm n xi xj).
  { unfold pearson_Ec. apply cov_bound_nonneg; [apply mean_err_nonneg; exact Cn1 | apply mean_err_nonneg; exact Cn1 | exact Hk']. }
  (* non-negativity of the relative errors *)
  assert (NL : ~ (L == 0)%Q) by (apply Qnz_of_R; lra).
  assert (ErelP : Q2R relPq = (Q2R ri + Q2R rj + Q2R ri * Q2R rj) * (1 + u64) + u64 + eta64 / Q2R L).
  { rewrite DrelP. rewrite Q2R_Qred, !Q2R_plus, Q2R_div by exact NL. rewrite Q2R_mult, !Q2R_plus, Q2R_mult, Q2R_one, Q2R_u64Q, Q2R_eta64Q. reflexivity. }
  apply Qle_bool_R in CrelP. rewrite Q2R_half, ErelP in CrelP.
  (* ri, rj >= 0 *)
  assert (Hri : 0 <= Q2R ri) by (rewrite Eri; apply (std_rel_nonneg n _ _ _ xi eq_refl Cn1 CSi CRi Ai1)).
  assert (Hrj : 0 <= Q2R rj) by (rewrite Erj; apply (std_rel_nonneg n _ _ _ xj Lj Cn1 CSj CRj Aj1)).
  destruct (pearson_bound_lower (pearson_Ec h hm n xi xj) (Q2R ri) (Q2R rj) P (Q2R L) Ec0 Hri Hrj CL0 HLP) as [R1 R2].
  cbv zeta in R1, R2.
  assert (ErelR : pearson_relP (pearson_Es n (Q2R loi) (Q2R hii) (Q2R Xi) xi)
                               (pearson_Es n (Q2R loj) (Q2R hij) (Q2R Xj) xj) (sigmaR xi) (sigmaR xj)
                  = (Q2R ri + Q2R rj + Q2R ri * Q2R rj) * (1 + u64) + u64 + eta64 / P).
  { unfold pearson_relP. rewrite Eri, Erj. reflexivity. }
  exists (Q2R loi), (Q2R hii), (Q2R Xi), (Q2R loj), (Q2R hij), (Q2R Xj). cbv zeta. fold n.
  split; [exact Lj|]. split; [exact Cn1|]. split; [exact Csmall|].
  split; [split; [exact CRi | split; assumption]|]. split; [split; [exact CRj | split; assumption]|].
  split; [exact CSi|]. split; [exact CSj|].
  split; [rewrite ErelR; lra|]. split; [|split; [|split; [exact HV | exact SV]]].
  - rewrite ErelR. eapply Rle_trans; [exact R2|]. apply Req_le.
    assert (EB : Q2R (Qred (2 * (Ecq / L + relPq) * (1 + u64Q) + u64Q + eta64Q))
                 = 2 * (Q2R Ecq / Q2R L + Q2R relPq) * (1 + u64) + u64 + eta64).
    { rewrite Q2R_Qred, !Q2R_plus, !Q2R_mult, !Q2R_plus, Q2R_div by exact NL.
      rewrite Q2R_one, !Q2R_u64Q, Q2R_eta64Q.
      replace (Q2R 2) with 2 by (unfold Q2R; cbn [Qnum Qden]; lra). reflexivity. }
    rewrite <- EEc, <- ErelP. symmetry. exact EB.
  - change (Q2R (Qred (qcxy (qs xi) (qs xj) / nq)) = cxy xi xj / INR n).
    rewrite Q2R_Qred, Q2R_div by exact Nnq. unfold nq. rewrite Q2R_nq, (Q2R_qcxy xi xj Lxi Lxj). reflexivity.
Qed.

(* ------------------------------------------------------------------ *)
(* 4. The model's entry within the rational bound                      *)
(* ------------------------------------------------------------------ *)
Theorem pearson_model_entry_error_Q
    (lt et : list (Z * Z)) (sum_o : list F64 -> F64) (hf : nat -> nat)
    (sum_o_tree : forall l, sum_eval l (sum_o l) (hf (length l)))
    (rows : list (list F64)) (n i j : nat) (B : Q) :
  Forall (fun r => length r = n) rows -> (i < length rows)%nat -> (j < length rows)%nat ->
  let xi := nth i rows [] in let xj := nth j rows [] in
  pearson_bound_Q (hf n) (hf n) (qs xi) (qs xj) = Some B ->
  let rho_f := nth j (nth i (pearson_welford (f64_ops lt et) sum_o rows) []) fzero in
  fin (fmul (welford_std xi fzero) (welford_std xj fzero)) = true -> fin rho_f = true ->
  Rabs (B2R rho_f - rhoR xi xj) <= Q2R B.
Proof.
  intros HR Hi Hj xi xj HB rho_f Fp Fr.
  unfold pearson_bound_Q in HB. destruct (pearson_stats_Q (hf n) (hf n) (qs xi) (qs xj)) as [s|] eqn:Es; [|discriminate].
  injection HB as HB. subst B.
  destruct (pearson_stats_Q_sound _ _ _ _ _ Es)
    as (loi & hii & Xi & loj & hij & Xj & Hlen & Hn1 & Hsmall & (Ri & A1 & A2) & (Rj & A3 & A4) & Si & Sj & HrelP & Hbound & _).
  cbv zeta in *.
  assert (Li : length xi = n).
  { unfold xi. rewrite Forall_forall in HR. apply HR. apply nth_In. exact Hi. }
  rewrite Li in *.
  eapply Rle_trans; [|exact Hbound].
  exact (pearson_model_entry_error lt et sum_o hf sum_o_tree rows n i j loi hii Xi loj hij Xj
           HR Hi Hj Hn1 Hsmall Ri A1 A2 Rj A3 A4 Si Sj Fp Fr HrelP).
Qed.

(* ... hence within any rational c that the evaluated bound does not exceed *)
Theorem pearson_model_entry_error_num
    (lt et : list (Z * Z)) (sum_o : list F64 -> F64) (hf : nat -> nat)
    (sum_o_tree : forall l, sum_eval l (sum_o l) (hf (length l)))
    (rows : list (list F64)) (n i j : nat) (c : Q) :
  Forall (fun r => length r = n) rows -> (i < length rows)%nat -> (j < length rows)%nat ->
  let xi := nth i rows [] in let xj := nth j rows [] in
  pearson_bound_leb (hf n) (hf n) (qs xi) (qs xj) c = true ->
  let rho_f := nth j (nth i (pearson_welford (f64_ops lt et) sum_o rows) []) fzero in
  fin (fmul (welford_std xi fzero) (welford_std xj fzero)) = true -> fin rho_f = true ->
  Rabs (B2R rho_f - rhoR xi xj) <= Q2R c.
Proof.
  intros HR Hi Hj xi xj HB rho_f Fp Fr. unfold pearson_bound_leb in HB.
  destruct (pearson_bound_Q (hf n) (hf n) (qs xi) (qs xj)) as [B|] eqn:EB; [|discriminate].
  apply Qle_bool_R in HB. eapply Rle_trans; [|exact HB].
  exact (pearson_model_entry_error_Q lt et sum_o hf sum_o_tree rows n i j B HR Hi Hj EB Fp Fr).
Qed.

(* the data of Num/PearsonExampleF64.v: entry (0,1) of the model is within 288 u = 3.2e-14 of
   Pearson's r of the data, the diagonal entry (0,0) within 292 u of 1; every hypothesis is
   discharged by vm_compute *)
Example pearson_model_numeric :
  Rabs (B2R (nth 1 (nth 0 pmat []) fzero) - rhoR px py) <= 288 * u64 /\
  Rabs (B2R (nth 0 (nth 0 pmat []) fzero) - 1) <= 292 * u64.
Proof.
  assert (HR : Forall (fun r : list F64 => length r = 4%nat) prows) by (repeat constructor).
  assert (H0 : (0 < length prows)%nat) by (cbn [prows length]; lia).
  assert (H1 : (1 < length prows)%nat) by (cbn [prows length]; lia).
  assert (Ec : forall k : Z, Q2R (k # 9007199254740992) = IZR k * u64).
  { intros k. rewrite Q2R_make. change (IZR (Z.pos 9007199254740992)) with (bpow radix2 53).
    unfold Rdiv. apply f_equal. exact (eq_sym (bpow_opp radix2 53)). }
  split.
  - rewrite <- (Ec 288%Z).
    apply (pearson_model_entry_error_num [] [] ex_sum (fun n => n) ex_sum_eval prows 4 0 1 _ HR H0 H1);
      vm_compute; reflexivity.
  - rewrite <- (Ec 292%Z).
    pose proof (pearson_model_entry_error_num [] [] ex_sum (fun n => n) ex_sum_eval prows 4 0 0
                  (292 # 9007199254740992) HR H0 H0) as T.
    cbv zeta in T. change (nth 0 prows []) with px in T.
    rewrite (rhoR_diag px) in T.
    + apply T; vm_compute; reflexivity.
    + cbn [px length]. lia.
    + rewrite px_ssR. lra.
Qed.

(* ------------------------------------------------------------------ *)
(* 5. The check of an observed value                                   *)
(* ------------------------------------------------------------------ *)
Lemma le_div_sqrt (t C V : R) : 0 < V ->
  (t <= 0 /\ (0 <= C \/ C * C <= t * t * V)) \/ (0 < t /\ 0 <= C /\ t * t * V <= C * C) ->
  t <= C / sqrt V.
Proof.
  intros HV H. pose proof (sqrt_lt_R0 V HV) as Hr. pose proof (sqrt_sqrt V (Rlt_le _ _ HV)) as Er.
  set (r := sqrt V) in *.
  assert (K : t * r <= C).
  { destruct H as [[Ht [HC | HC]] | (Ht & HC & HS)].
    - nra.
    - destruct (Rle_or_lt 0 C) as [C0 | C0]; [nra|].
      destruct (Rle_or_lt (t * r) C) as [G | G]; [exact G | exfalso].
      assert (T : t * r <= 0) by nra.
      assert (Q1 : (t * r) * (t * r) < C * C) by nra.
      replace (t * t * V) with ((t * r) * (t * r)) in HC by (rewrite <- Er; ring). lra.
    - destruct (Rle_or_lt (t * r) C) as [G | G]; [exact G | exfalso].
      assert (Q1 : C * C < (t * r) * (t * r)) by nra.
      replace (t * t * V) with ((t * r) * (t * r)) in HS by (rewrite <- Er; ring). lra. }
  apply Rmult_le_reg_r with r; [exact Hr|]. unfold Rdiv. rewrite Rmult_assoc, Rinv_l by lra. lra.
Qed.

Lemma le_rho_sound (t C V : Q) : 0 < Q2R V -> le_rho t C V = true -> Q2R t <= Q2R C / sqrt (Q2R V).
Proof.
  intros HV H. apply le_div_sqrt; [exact HV|]. unfold le_rho in H.
  destruct (Qle_bool t 0) eqn:Et.
  - left. apply Qle_bool_R in Et. rewrite Q2R_zero in Et. split; [exact Et|].
    apply orb_prop in H. destruct H as [H | H]; apply Qle_bool_R in H.
    + left. rewrite Q2R_zero in H. exact H.
    + right. rewrite !Q2R_mult in H. exact H.
  - right. apply Qle_bool_false_R in Et. rewrite Q2R_zero in Et. split; [exact Et|].
    apply andb_prop in H. destruct H as [H1 H2]. apply Qle_bool_R in H1. apply Qle_bool_R in H2.
    rewrite Q2R_zero in H1. rewrite !Q2R_mult in H2. split; assumption.
Qed.

Lemma rho_le_sound (t C V : Q) : 0 < Q2R V -> rho_le t C V = true -> Q2R C / sqrt (Q2R V) <= Q2R t.
Proof.
  intros HV H. unfold rho_le in H. apply (le_rho_sound _ _ _ HV) in H. rewrite !Q2R_opp in H.
  unfold Rdiv in *. lra.
Qed.

Theorem pearson_check_Q_sound (h hm : nat) (xi xj : list F64) (obs : F64) :
  pearson_check_Q h hm (qs xi) (qs xj) (toQ obs) = true ->
  exists s, pearson_stats_Q h hm (qs xi) (qs xj) = Some s /\ pearson_data_ok h hm xi xj s /\
            Rabs (B2R obs - rhoR xi xj) <= Q2R (ps_B s).
Proof.
  unfold pearson_check_Q. destruct (pearson_stats_Q h hm (qs xi) (qs xj)) as [s|] eqn:Es; [|discriminate].
  intros H. exists s. split; [reflexivity|].
  pose proof (pearson_stats_Q_sound _ _ _ _ _ Es) as OK. split; [exact OK|].
  destruct OK as (loi & hii & Xi & loj & hij & Xj & Hlen & Hn1 & Hsmall & _ & _ & Si & Sj & HrelP & Hbound & EC & HV & SV).
  cbv zeta in *.
  apply andb_prop in H. destruct H as [H1 H2].
  apply (le_rho_sound _ _ _ HV) in H1. apply (rho_le_sound _ _ _ HV) in H2.
  rewrite Q2R_minus in H1. rewrite Q2R_plus in H2. rewrite Q2R_toQ, EC, SV in H1, H2.
  unfold rhoR. apply Rabs_le. lra.
Qed.

Corollary pearson_check_Q_bound (h hm : nat) (xi xj : list F64) (obs : F64) :
  pearson_check_Q h hm (map toQ xi) (map toQ xj) (toQ obs) = true ->
  exists B : Q, pearson_bound_Q h hm (map toQ xi) (map toQ xj) = Some B /\
                Rabs (B2R obs - rhoR xi xj) <= Q2R B.
Proof.
  intros H. destruct (pearson_check_Q_sound h hm xi xj obs H) as (s & Es & _ & B).
  exists (ps_B s). split; [|exact B]. unfold pearson_bound_Q. fold (qs xi) (qs xj). rewrite Es. reflexivity.
Qed.

Print Assumptions pearson_stats_Q_sound.
Print Assumptions pearson_model_entry_error_Q.
Print Assumptions pearson_model_numeric.
Print Assumptions pearson_check_Q_sound.
