(* Forward-error bounds in IEEE-754 binary64 for the quotient-type kernels of Num/Kernels.v
   instantiated at Num/F64Inst.v: weighted_mean (M1), harmonic_mean (M2) and the entropy-type
   sums (M3, under an accuracy hypothesis on the ln oracle table). *)
From Flocq Require Import Core BinarySingleNaN Plus_error Relative.
Require Import Reals Lra Lia ZArith Psatz Bool List Permutation.
From NS Require Import Num.F64 Num.Ops Num.F64Inst Num.Kernels Num.SumBridge Num.SumF64
  Quantile.IndexProofs Quantile.InterpF64 Num.DeviationF64.
Import ListNotations.
Open Scope R_scope.

Local Instance prec64_gt_0M : Prec_gt_0 53 := Hprec64.
Local Instance vexp64M : Valid_exp (SpecFloat.fexp 53 1024) := fexp_correct 53 1024 Hprec64.

(* ------------------------------------------------------------------ *)
(* 0. Real-number lemmas: perturbed quotient, one rounding             *)
(* ------------------------------------------------------------------ *)

(* N'/D' against N/D when D' = D (1 + d), |d| <= c <= 1/4 and E bounds |N' - N| + |N| c *)
Lemma quot_error (N N' D D' E c : R) :
  D <> 0 -> 0 <= c <= / 4 ->
  Rabs (D' - D) <= c * Rabs D ->
  Rabs (N' - N) + Rabs N * c <= E ->
  D' <> 0 /\ Rabs (N' / D' - N / D) <= 4 / 3 * E / Rabs D.
Proof.
  intros HD Hc HDd HE.
  assert (PD : 0 < Rabs D) by (apply Rabs_pos_lt; exact HD).
  assert (LD : 3 / 4 * Rabs D <= Rabs D').
  { pose proof (Rabs_triang_inv D D') as T. rewrite (Rabs_minus_sym D D') in T.
    assert (c * Rabs D <= / 4 * Rabs D) by (apply Rmult_le_compat_r; lra). lra. }
  assert (ND : D' <> 0).
  { intros Z. rewrite Z, Rabs_R0 in LD. lra. }
  split; [exact ND|].
  assert (PD' : 0 < Rabs D') by lra.
  replace (N' / D' - N / D) with (((N' - N) - N * ((D' - D) / D)) * / D') by (field; split; assumption).
  rewrite Rabs_mult, Rabs_inv.
  assert (B1 : Rabs ((N' - N) - N * ((D' - D) / D)) <= E).
  { eapply Rle_trans; [apply Rabs_triang|]. rewrite Rabs_Ropp, Rabs_mult.
    assert (Q : Rabs ((D' - D) / D) <= c).
    { unfold Rdiv. rewrite Rabs_mult, Rabs_inv.
      apply Rmult_le_reg_r with (Rabs D); [exact PD|].
      rewrite Rmult_assoc, Rinv_l by lra. lra. }
    assert (Rabs N * Rabs ((D' - D) / D) <= Rabs N * c).
    { apply Rmult_le_compat_l; [apply Rabs_pos|exact Q]. }
    lra. }
  assert (E0 : 0 <= E).
  { pose proof (Rabs_pos (N' - N)). pose proof (Rabs_pos N).
    assert (0 <= Rabs N * c) by (apply Rmult_le_pos; lra). lra. }
  assert (B2 : / Rabs D' <= 4 / 3 * / Rabs D).
  { replace (4 / 3 * / Rabs D) with (/ (3 / 4 * Rabs D)) by (field; lra).
    apply Rinv_le_contravar; [lra|exact LD]. }
  unfold Rdiv. rewrite (Rmult_comm (4 * / 3) E), Rmult_assoc.
  apply Rmult_le_compat; [apply Rabs_pos|apply Rlt_le, Rinv_0_lt_compat; exact PD'|exact B1|exact B2].
Qed.

(* one rounding of an approximate quotient *)
Lemma round_near (q q' Q d : R) : Rabs q <= Q -> Rabs (q' - q) <= d ->
  Rabs (rnd q' - q) <= d * (1 + u64) + Q * u64 + eta64.
Proof.
  intros HQ Hd.
  destruct (rnd_model q') as (e & e' & He & He' & E). rewrite E.
  pose proof u64_pos as Hu.
  replace (q' * (1 + e) + e' - q) with ((q' - q) * (1 + e) + q * e + e') by ring.
  eapply Rle_trans; [apply Rabs_triang|]. apply Rplus_le_compat; [|exact He'].
  eapply Rle_trans; [apply Rabs_triang|]. rewrite !Rabs_mult.
  assert (B2 : Rabs (1 + e) <= 1 + u64).
  { eapply Rle_trans; [apply Rabs_triang|]. rewrite Rabs_R1. lra. }
  apply Rplus_le_compat.
  - apply Rmult_le_compat; try apply Rabs_pos; assumption.
  - apply Rmult_le_compat; try apply Rabs_pos; assumption.
Qed.

Lemma fdiv_value (x y : F64) : B2R y <> 0 -> fin (fdiv x y) = true ->
  B2R (fdiv x y) = rnd (B2R x / B2R y) /\ fin x = true.
Proof. exact (fdiv_round x y). Qed.

Lemma Rabs_Rsum_le {A} (f : A -> R) (l : list A) :
  Rabs (Rsum (map f l)) <= Rsum (map (fun a => Rabs (f a)) l).
Proof. rewrite Rsum_abs_Rasum. apply Rsum_le_Rasum. Qed.

Lemma Rsum_abs_nonneg {A} (f : A -> R) (l : list A) : 0 <= Rsum (map (fun a => Rabs (f a)) l).
Proof. rewrite Rsum_abs_Rasum. apply Rasum_nonneg. Qed.

(* ------------------------------------------------------------------ *)
(* M1. weighted_mean                                                    *)
(* ------------------------------------------------------------------ *)
(* exact numerator  sum x_i w_i,  its absolute version  sum |x_i w_i|,  and the condition number
   of the denominator  kappa_w = sum |w_i| / |sum w_i| *)
Definition wm_num (data ws : list F64) : R :=
  Rsum (map (fun dw => B2R (fst dw) * B2R (snd dw)) (combine data ws)).
Definition wm_abs (data ws : list F64) : R :=
  Rsum (map (fun dw => Rabs (B2R (fst dw) * B2R (snd dw))) (combine data ws)).
Definition kappa_w (ws : list F64) : R := Rasum (map B2R ws) / Rabs (Rsum (map B2R ws)).

Lemma kappa_w_nonneg ws : 0 <= kappa_w ws.
Proof.
  unfold kappa_w, Rdiv. apply Rmult_le_pos; [apply Rasum_nonneg|].
  destruct (Req_dec (Rsum (map B2R ws)) 0) as [Z|NZ].
  - rewrite Z, Rabs_R0, Rinv_0. lra.
  - apply Rlt_le, Rinv_0_lt_compat, Rabs_pos_lt. exact NZ.
Qed.

Lemma Rasum_pos_Rsum (l : list R) : Forall (fun x => 0 < x) l -> Rasum l = Rsum l /\ 0 <= Rsum l.
Proof.
  intros HF. induction HF as [|x l Hx HF [IH1 IH2]]; [unfold Rasum, Rsum; simpl; lra|].
  rewrite Rasum_cons, Rsum_cons, IH1, Rabs_pos_eq by lra. lra.
Qed.

Lemma kappa_w_pos ws : Forall (fun w => 0 < B2R w) ws -> ws <> [] ->
  Rsum (map B2R ws) <> 0 /\ kappa_w ws = 1.
Proof.
  intros HF NE.
  assert (HF' : Forall (fun x => 0 < x) (map B2R ws)) by (rewrite Forall_map; exact HF).
  destruct (Rasum_pos_Rsum _ HF') as [E1 E2].
  assert (P : 0 < Rsum (map B2R ws)).
  { destruct ws as [|w ws]; [elim NE; reflexivity|]. cbn [map]. rewrite Rsum_cons.
    inversion HF as [|? ? Hw HF2]; subst. inversion HF' as [|? ? _ HF3]; subst.
    destruct (Rasum_pos_Rsum _ HF3) as [_ Q]. lra. }
  split; [lra|]. unfold kappa_w. rewrite E1, Rabs_pos_eq by lra. field. lra.
Qed.

Section Means.
Variables lt et : list (Z * Z).
Let O := f64_ops lt et.

Lemma weighted_mean_unfold plw data ws :
  weighted_mean O plw data ws = fdiv (weighted_sum O data ws) (nd_sum O plw ws).
Proof. reflexivity. Qed.

Theorem weighted_mean_error plw data ws :
  length ws = length data -> plan_ok plw (length ws) ->
  fin (nd_sum O plw ws) = true ->
  fin (weighted_mean O plw data ws) = true ->
  Rsum (map B2R ws) <> 0 ->
  g64 (length data + 13) * kappa_w ws <= / 4 ->
  Rabs (B2R (weighted_mean O plw data ws) - wm_num data ws / Rsum (map B2R ws))
    <= (2 * (g64 (length data + 1) + g64 (length data + 13) * kappa_w ws) + u64)
         * wm_abs data ws / Rabs (Rsum (map B2R ws))
       + 2 * (INR (length data) * (1 + g64 (length data)) * eta64) / Rabs (Rsum (map B2R ws))
       + eta64.
Proof.
  intros HL HP FD Hf HS Hk. rewrite weighted_mean_unfold in *.
  pose proof (nd_sum_error_tight lt et plw ws HP FD) as BD. fold O in BD. rewrite HL in BD.
  set (n := length data) in *.
  set (D' := B2R (nd_sum O plw ws)) in *. set (D := Rsum (map B2R ws)) in *.
  set (W := Rasum (map B2R ws)) in *.
  set (c := g64 (n + 13) * kappa_w ws) in *.
  assert (PD : 0 < Rabs D) by (apply Rabs_pos_lt; exact HS).
  assert (Ec : c * Rabs D = g64 (n + 13) * W).
  { unfold c, kappa_w. fold W D. field. lra. }
  assert (Hc : 0 <= c <= / 4).
  { split; [|exact Hk]. apply Rmult_le_pos; [apply g64_nonneg|apply kappa_w_nonneg]. }
  assert (BD' : Rabs (D' - D) <= c * Rabs D) by (rewrite Ec; exact BD).
  assert (ND : D' <> 0).
  { apply (quot_error 0 0 D D' 0 c HS Hc BD').
    rewrite Rminus_diag_eq, Rabs_R0 by reflexivity. lra. }
  destruct (fdiv_value _ _ ND Hf) as [Ev FN]. rewrite Ev.
  pose proof (wsum_error lt et data ws HL FN) as BN. fold O in BN.
  fold (wm_num data ws) in BN. fold (wm_abs data ws) in BN. fold n in BN. fold D' .
  set (N' := B2R (weighted_sum O data ws)) in *. set (N := wm_num data ws) in *.
  set (A := wm_abs data ws) in *.
  set (bN := INR n * (1 + g64 n) * eta64) in *.
  assert (HA : 0 <= A) by apply Rsum_abs_nonneg.
  assert (HNA : Rabs N <= A) by apply Rabs_Rsum_le.
  set (E := g64 (n + 1) * A + bN + A * c).
  assert (HE : Rabs (N' - N) + Rabs N * c <= E).
  { unfold E. assert (Rabs N * c <= A * c) by (apply Rmult_le_compat_r; lra). lra. }
  destruct (quot_error N N' D D' E c HS Hc BD' HE) as [_ BQ].
  assert (HQ : Rabs (N / D) <= A / Rabs D).
  { unfold Rdiv. rewrite Rabs_mult, Rabs_inv. apply Rmult_le_compat_r; [|exact HNA].
    apply Rlt_le, Rinv_0_lt_compat. exact PD. }
  eapply Rle_trans; [apply (round_near _ _ _ _ HQ BQ)|].
  pose proof u64_pos as Hu. pose proof u64_small as Hu4.
  assert (HbN : 0 <= bN).
  { unfold bN. apply Rmult_le_pos; [apply Rmult_le_pos; [apply pos_INR|pose proof (g64_nonneg n); lra]|].
    apply Rlt_le, eta64_pos. }
  assert (E0 : 0 <= E).
  { unfold E. pose proof (g64_nonneg (n + 1)).
    assert (0 <= g64 (n + 1) * A) by (apply Rmult_le_pos; lra).
    assert (0 <= A * c) by (apply Rmult_le_pos; lra). lra. }
  set (iD := / Rabs D). assert (HiD : 0 < iD) by (apply Rinv_0_lt_compat; exact PD).
  set (Z := E * iD). assert (HZ : 0 <= Z) by (apply Rmult_le_pos; lra).
  replace (4 / 3 * E / Rabs D) with (4 / 3 * Z) by (unfold Z, iD; field; lra).
  replace ((2 * (g64 (n + 1) + c) + u64) * A / Rabs D + 2 * bN / Rabs D + eta64)
    with (2 * Z + u64 * (A / Rabs D) + eta64) by (unfold Z, E, iD; field; lra).
  assert (Zu : Z * u64 <= Z * / 4) by (apply Rmult_le_compat_l; lra).
  lra.
Qed.

(* all weights positive: kappa_w = 1 *)
Corollary weighted_mean_error_pos plw data ws :
  length ws = length data -> (1 <= length data)%nat -> plan_ok plw (length ws) ->
  Forall (fun w => 0 < B2R w) ws ->
  fin (nd_sum O plw ws) = true ->
  fin (weighted_mean O plw data ws) = true ->
  g64 (length data + 13) <= / 4 ->
  Rabs (B2R (weighted_mean O plw data ws) - wm_num data ws / Rsum (map B2R ws))
    <= (2 * (g64 (length data + 1) + g64 (length data + 13)) + u64)
         * wm_abs data ws / Rsum (map B2R ws)
       + 2 * (INR (length data) * (1 + g64 (length data)) * eta64) / Rsum (map B2R ws)
       + eta64.
Proof.
  intros HL Hn HP HW FD Hf Hg.
  assert (NE : ws <> []) by (intros ->; cbn [length] in HL; lia).
  destruct (kappa_w_pos ws HW NE) as [HS Hk].
  pose proof (weighted_mean_error plw data ws HL HP FD Hf HS) as B.
  rewrite Hk, Rmult_1_r in B. specialize (B Hg).
  assert (P : 0 <= Rsum (map B2R ws)).
  { apply Rasum_pos_Rsum. rewrite Forall_map. exact HW. }
  rewrite (Rabs_pos_eq _ P) in B. exact B.
Qed.
End Means.

Lemma rnd_rel (x : R) : bpow radix2 (-1022) <= Rabs x ->
  exists e, Rabs e <= u64 /\ rnd x = x * (1 + e).
Proof.
  intros Hx.
  destruct (relative_error_N_FLT_ex radix2 (-1074) 53 Hprec64 (fun z => negb (Z.even z)) x Hx) as (e & He & E).
  exists e. split; [|exact E].
  rewrite u64_eq. exact He.
Qed.

(* finiteness of ArrayBase::sum propagates to the summands *)
Lemma nd_sum_finite_args lt et pl (data : list F64) : plan_ok pl (length data) ->
  fin (nd_sum (f64_ops lt et) pl data) = true -> Forall (fun x => fin x = true) data.
Proof.
  intros HP Hf. destruct (nd_sum_tree lt et pl data HP) as (k & t & Ev & P & _).
  rewrite Ev in Hf. apply fleaves_finite in Hf.
  pose proof (Permutation_Forall P Hf) as Q. apply Forall_app in Q. exact (proj2 Q).
Qed.

Lemma plan_of_map_ok pl n : plan_ok pl n -> plan_ok (plan_of_map pl n) n.
Proof.
  unfold plan_ok. destruct pl as [order|rows]; cbn [plan_of_map plan_positions]; intros P; [exact P|].
  apply Permutation_refl.
Qed.

(* ---- real-number lemmas for M2 ---- *)
Lemma rel_terms {A} (P X : A -> R) (l : list A) :
  Forall (fun a => 0 <= X a /\ Rabs (P a - X a) <= u64 * X a) l ->
  Rabs (Rsum (map P l) - Rsum (map X l)) <= u64 * Rsum (map X l) /\
  Rasum (map P l) = Rsum (map P l) /\ 0 <= Rsum (map X l).
Proof.
  intros HF. pose proof u64_pos as Hu. pose proof u64_small as Hu4.
  induction HF as [|a l [Ha1 Ha2] HF (IH1 & IH2 & IH3)].
  - cbn [map]. unfold Rsum, Rasum. cbn [fold_right]. rewrite Rminus_0_r, Rabs_R0. lra.
  - cbn [map]. rewrite !Rsum_cons, !Rasum_cons, IH2.
    assert (Pa : 0 <= P a).
    { apply Rabs_le_inv in Ha2. assert (u64 * X a <= / 4 * X a) by (apply Rmult_le_compat_r; lra). lra. }
    rewrite (Rabs_pos_eq _ Pa). split; [|split; lra].
    replace (P a + Rsum (map P l) - (X a + Rsum (map X l)))
      with ((P a - X a) + (Rsum (map P l) - Rsum (map X l))) by ring.
    eapply Rle_trans; [apply Rabs_triang|]. lra.
Qed.

Lemma Rsum_bounds {A} (X : A -> R) (l : list A) (lo hi : R) :
  Forall (fun a => lo <= X a <= hi) l ->
  INR (length l) * lo <= Rsum (map X l) <= INR (length l) * hi.
Proof.
  intros HF. induction HF as [|a l Ha HF IH].
  - cbn [map length INR]. unfold Rsum. cbn [fold_right]. lra.
  - cbn [map]. rewrite Rsum_cons. change (length (a :: l)) with (S (length l)). rewrite S_INR. lra.
Qed.

(* reciprocal of an approximation, rounded once without underflow *)
Lemma recip_error (M m g e : R) : 0 < M -> 0 <= g <= / 4 -> Rabs (m - M) <= g * M -> Rabs e <= u64 ->
  Rabs (1 / m * (1 + e) - 1 / M) <= 4 / 3 * (g + u64) * (1 / M).
Proof.
  intros HM Hg Hm He. pose proof u64_pos as Hu.
  assert (gM : g * M <= / 4 * M) by (apply Rmult_le_compat_r; lra).
  assert (Lm : 3 / 4 * M <= m) by (apply Rabs_le_inv in Hm; lra).
  assert (Pm : 0 < m) by lra.
  replace (1 / m * (1 + e) - 1 / M) with ((e * M - (m - M)) * / M * / m) by (field; lra).
  rewrite !Rabs_mult, (Rabs_pos_eq (/ M)), (Rabs_pos_eq (/ m)) by (apply Rlt_le, Rinv_0_lt_compat; assumption).
  assert (B1 : Rabs (e * M - (m - M)) <= (g + u64) * M).
  { eapply Rle_trans; [apply Rabs_triang|]. rewrite Rabs_Ropp, Rabs_mult, (Rabs_pos_eq M) by lra.
    assert (Rabs e * M <= u64 * M) by (apply Rmult_le_compat_r; lra). lra. }
  assert (B2 : / m <= 4 / 3 * / M).
  { replace (4 / 3 * / M) with (/ (3 / 4 * M)) by (field; lra). apply Rinv_le_contravar; lra. }
  assert (iM : 0 < / M) by (apply Rinv_0_lt_compat; exact HM).
  assert (B3 : Rabs (e * M - (m - M)) * / M <= g + u64).
  { apply Rmult_le_reg_r with M; [exact HM|]. rewrite Rmult_assoc, Rinv_l by lra. lra. }
  assert (G0 : 0 <= g + u64) by lra.
  eapply Rle_trans.
  { apply Rmult_le_compat; [|apply Rlt_le, Rinv_0_lt_compat; exact Pm|exact B3|exact B2].
    apply Rmult_le_pos; [apply Rabs_pos|lra]. }
  unfold Rdiv. lra.
Qed.

Definition lo1000 : R := bpow radix2 (-1000).
Definition hi1000 : R := bpow radix2 1000.
Lemma lo1000_pos : 0 < lo1000. Proof. apply bpow_gt_0. Qed.
Lemma hi1000_pos : 0 < hi1000. Proof. apply bpow_gt_0. Qed.
Lemma lo_hi_inv : / hi1000 = lo1000.
Proof. unfold hi1000, lo1000. rewrite <- bpow_opp. reflexivity. Qed.
Lemma hi_lo_inv : / lo1000 = hi1000.
Proof. rewrite <- lo_hi_inv, Rinv_inv. reflexivity. Qed.
Lemma eta64_le_lo : eta64 <= u64 * (/ 2 * lo1000).
Proof.
  unfold eta64, u64, lo1000. change (/ 2) with (bpow radix2 (-1)).
  rewrite <- !bpow_plus. apply bpow_le. lia.
Qed.
Lemma b1022_le_lo : bpow radix2 (-1022) <= / 2 * lo1000.
Proof.
  unfold lo1000. change (/ 2) with (bpow radix2 (-1)).
  rewrite <- !bpow_plus. apply bpow_le. lia.
Qed.

(* 1/x for x in [2^-1000, 2^1000]: one relative rounding error, same range *)
Lemma recip_term (x : R) : lo1000 <= x <= hi1000 ->
  lo1000 <= / x <= hi1000 /\ Rabs (rnd (1 / x) - / x) <= u64 * / x.
Proof.
  intros [H1 H2]. pose proof lo1000_pos as Hl. pose proof hi1000_pos as Hh.
  assert (Px : 0 < x) by lra.
  assert (R1 : lo1000 <= / x).
  { rewrite <- lo_hi_inv. apply Rinv_le_contravar; lra. }
  assert (R2 : / x <= hi1000).
  { rewrite <- hi_lo_inv. apply Rinv_le_contravar; lra. }
  split; [split; assumption|].
  pose proof b1022_le_lo as Hb.
  destruct (rnd_rel (1 / x)) as (e & He & E).
  { unfold Rdiv. rewrite Rmult_1_l, Rabs_pos_eq by lra. lra. }
  rewrite E. unfold Rdiv. rewrite Rmult_1_l.
  replace (/ x * (1 + e) - / x) with (e * / x) by ring.
  rewrite Rabs_mult, (Rabs_pos_eq (/ x)) by lra.
  apply Rmult_le_compat_r; lra.
Qed.

Lemma chain_error (m P M g : R) : 0 <= g -> 0 < M ->
  Rabs (P - M) <= u64 * M -> Rabs (m - P) <= (g + u64) * P ->
  Rabs (m - M) <= ((g * (1 + u64) + u64) * (1 + u64) + u64) * M.
Proof.
  intros Hg HM HP Hm. pose proof u64_pos as Hu.
  assert (P1 : P <= (1 + u64) * M) by (apply Rabs_le_inv in HP; lra).
  assert (Q : (g + u64) * P <= (g + u64) * ((1 + u64) * M)) by (apply Rmult_le_compat_l; lra).
  replace (m - M) with ((m - P) + (P - M)) by ring.
  eapply Rle_trans; [apply Rabs_triang|].
  assert (X1 : 0 <= g * u64 * M) by (apply Rmult_le_pos; [apply Rmult_le_pos|]; lra).
  assert (X2 : 0 <= g * u64 * u64 * M).
  { apply Rmult_le_pos; [|lra]. apply Rmult_le_pos; [apply Rmult_le_pos|]; lra. }
  replace (((g * (1 + u64) + u64) * (1 + u64) + u64) * M)
    with ((g + u64) * ((1 + u64) * M) + u64 * M + g * u64 * M + g * u64 * u64 * M) by ring.
  lra.
Qed.

(* ------------------------------------------------------------------ *)
(* M2. harmonic_mean                                                    *)
(* ------------------------------------------------------------------ *)
Section HM.
Variables lt et : list (Z * Z).
Let O := f64_ops lt et.

Definition recips (data : list F64) : list F64 := map (fun x => fdiv fone x) data.

Lemma harmonic_mean_unfold pl (data : list F64) n : n = length data ->
  harmonic_mean O pl data = fdiv fone (mean O (plan_of_map pl n) (recips data)).
Proof. intros ->. reflexivity. Qed.

Theorem harmonic_mean_error pl (data : list F64) n :
  plan_ok pl n -> n = length data -> (1 <= n)%nat -> (Z.of_nat n <= 2 ^ 53)%Z ->
  Forall (fun x => lo1000 <= B2R x <= hi1000) data ->
  fin (mean O (plan_of_map pl n) (recips data)) = true ->
  fin (harmonic_mean O pl data) = true ->
  g64 (n + 16) <= / 4 ->
  Rabs (B2R (harmonic_mean O pl data) - INR n / Rsum (map (fun x => / B2R x) data))
    <= 4 / 3 * (g64 (n + 16) + u64) * (INR n / Rsum (map (fun x => / B2R x) data)).
Proof.
  intros HP En H1 H2 HR Fm Fh Hg. rewrite (harmonic_mean_unfold pl data n En) in Fh |- *.
  set (plm := plan_of_map pl n) in *. set (rs := recips data) in *.
  assert (Lr : length rs = n) by (unfold rs, recips; rewrite map_length; symmetry; exact En).
  assert (HPm : plan_ok plm n) by (apply plan_of_map_ok; exact HP).
  pose proof u64_pos as Hu. pose proof u64_small as Hu4.
  pose proof lo1000_pos as Hlo. pose proof hi1000_pos as Hhi.
  (* the reciprocals are finite *)
  assert (Frs : Forall (fun x => fin x = true) rs).
  { assert (Fm' : fin (fdiv (nd_sum O plm rs) (f64_of_Z (Z.of_nat (length rs)))) = true) by exact Fm.
    rewrite Lr in Fm'.
    destruct (f64_of_Z_exact (Z.of_nat n)) as [_ EN]; [lia|].
    destruct (fdiv_value _ _ (ltac:(rewrite EN; apply not_0_IZR; lia)) Fm') as [_ Fs].
    apply (nd_sum_finite_args lt et plm rs); [rewrite Lr; exact HPm|exact Fs]. }
  (* each one carries one relative rounding error *)
  set (Pf := fun x : F64 => B2R (fdiv fone x)). set (X := fun x : F64 => / B2R x).
  assert (HT : Forall (fun x => 0 <= X x /\ Rabs (Pf x - X x) <= u64 * X x) data).
  { unfold rs, recips in Frs. rewrite Forall_map in Frs.
    rewrite Forall_forall in *. intros x Hx. specialize (HR x Hx). specialize (Frs x Hx). cbv beta in Frs.
    destruct (recip_term (B2R x) HR) as [[R1 R2] R3].
    assert (Nx : B2R x <> 0) by lra.
    destruct (fdiv_value fone x Nx Frs) as [Ev _].
    unfold Pf, X. rewrite Ev. rewrite (proj2 fone_spec). split; [lra|exact R3]. }
  destruct (rel_terms Pf X data HT) as (T1 & T2 & T3).
  assert (HB : Forall (fun x => lo1000 <= X x <= hi1000) data).
  { eapply Forall_impl; [|exact HR]. intros x Hx. cbv beta in *. apply recip_term. exact Hx. }
  pose proof (Rsum_bounds X data _ _ HB) as SB. rewrite <- En in SB.
  pose proof (mean_error_tight lt et plm rs n HPm (eq_sym Lr) H1 H2 Fm) as BM. fold O in BM.
  unfold rs at 2 3 in BM. unfold recips in BM. rewrite map_map in BM. fold Pf in BM. rewrite T2 in BM.
  change (Rsum (map (fun x => / B2R x) data)) with (Rsum (map X data)).
  set (S := Rsum (map X data)) in *. set (Sp := Rsum (map Pf data)) in *.
  set (m := B2R (mean O plm rs)) in *.
  assert (HN : 1 <= INR n) by (change 1 with (INR 1); apply le_INR; exact H1).
  set (Nn := INR n) in *.
  set (M := S / Nn). set (P := Sp / Nn).
  assert (ES : S = M * Nn) by (unfold M; field; lra).
  assert (iN : 0 < / Nn) by (apply Rinv_0_lt_compat; lra).
  assert (LM : lo1000 <= M <= hi1000).
  { split; apply Rmult_le_reg_r with Nn; try lra. }
  assert (PM : Rabs (P - M) <= u64 * M).
  { unfold P, M, Rdiv. rewrite <- Rmult_minus_distr_r, Rabs_mult, (Rabs_pos_eq (/ Nn)) by lra.
    rewrite <- Rmult_assoc. apply Rmult_le_compat_r; lra. }
  assert (LP : 3 / 4 * lo1000 <= P).
  { apply Rabs_le_inv in PM. assert (u64 * M <= / 4 * M) by (apply Rmult_le_compat_r; lra). lra. }
  assert (Bm : Rabs (m - P) <= (g64 (n + 14) + u64) * P).
  { fold P in BM. unfold Rdiv in BM. rewrite Rmult_assoc in BM. fold (Sp / Nn) in BM. fold P in BM.
    pose proof eta64_le_lo as He.
    assert (u64 * (/ 2 * lo1000) <= u64 * P) by (apply Rmult_le_compat_l; lra). lra. }
  assert (Bg : Rabs (m - M) <= g64 (n + 16) * M).
  { replace (n + 16)%nat with (Datatypes.S (Datatypes.S (n + 14))) by lia. rewrite !g64_S.
    apply (chain_error m P M (g64 (n + 14))); [apply g64_nonneg|lra|exact PM|exact Bm]. }
  pose proof (g64_nonneg (n + 16)) as G16.
  assert (gM : g64 (n + 16) * M <= / 4 * M) by (apply Rmult_le_compat_r; lra).
  assert (Lm : 3 / 4 * M <= m <= 5 / 4 * M) by (apply Rabs_le_inv in Bg; lra).
  assert (Nm : m <> 0) by lra.
  destruct (fdiv_value fone _ Nm Fh) as [Ev _]. rewrite Ev, (proj2 fone_spec). fold m.
  destruct (rnd_rel (1 / m)) as (e & He & E).
  { unfold Rdiv. rewrite Rmult_1_l.
    assert (Pm : 0 < m) by lra.
    assert (Q : / (5 / 4 * hi1000) <= / m) by (apply Rinv_le_contravar; lra).
    replace (/ (5 / 4 * hi1000)) with (4 / 5 * / hi1000) in Q by (field; lra).
    rewrite lo_hi_inv in Q. pose proof b1022_le_lo.
    rewrite Rabs_pos_eq; [lra|]. apply Rlt_le, Rinv_0_lt_compat. exact Pm. }
  rewrite E.
  assert (PS : 0 < S).
  { assert (0 < Nn * lo1000) by (apply Rmult_lt_0_compat; lra). lra. }
  replace (Nn / S) with (1 / M) by (unfold M; field; split; lra).
  apply recip_error; [lra|lra|exact Bg|exact He].
Qed.
End HM.

(* ------------------------------------------------------------------ *)
(* M3. entropy-type sums under an accuracy hypothesis on the ln table   *)
(* ------------------------------------------------------------------ *)

(* sums of approximated terms: relative error c on each term plus an absolute error Bd *)
Lemma approx_terms {A} (P X Bd : A -> R) (c : R) (l : list A) :
  Forall (fun a => Rabs (P a - X a) <= c * Rabs (X a) + Bd a) l ->
  Rabs (Rsum (map P l) - Rsum (map X l)) <= c * Rasum (map X l) + Rsum (map Bd l) /\
  Rasum (map P l) <= (1 + c) * Rasum (map X l) + Rsum (map Bd l).
Proof.
  intros HF. induction HF as [|a l Ha HF [IH1 IH2]].
  - cbn [map]. unfold Rsum, Rasum. cbn [fold_right]. rewrite Rminus_0_r, Rabs_R0. lra.
  - cbn [map]. rewrite !Rsum_cons, !Rasum_cons. split.
    + replace (P a + Rsum (map P l) - (X a + Rsum (map X l)))
        with ((P a - X a) + (Rsum (map P l) - Rsum (map X l))) by ring.
      eapply Rle_trans; [apply Rabs_triang|]. lra.
    + assert (Q : Rabs (P a) <= Rabs (X a) + Rabs (P a - X a)).
      { replace (P a) with (X a + (P a - X a)) at 1 by ring. apply Rabs_triang. }
      lra.
Qed.

Lemma Rsum_const {A} (k : R) (l : list A) : Rsum (map (fun _ => k) l) = INR (length l) * k.
Proof.
  induction l as [|a l IH]; [cbn [map length INR]; unfold Rsum; cbn [fold_right]; lra|].
  cbn [map]. rewrite Rsum_cons, IH. change (length (a :: l)) with (S (length l)). rewrite S_INR. ring.
Qed.

(* ArrayBase::sum of computed terms against the sum of the exact terms *)
Lemma terms_sum_error lt et {A} (tf : A -> F64) (X Bd : A -> R) (c : R) pl (l : list A) :
  plan_ok pl (length l) ->
  fin (nd_sum (f64_ops lt et) pl (map tf l)) = true ->
  Forall (fun a => fin (tf a) = true -> Rabs (B2R (tf a) - X a) <= c * Rabs (X a) + Bd a) l ->
  Rabs (B2R (nd_sum (f64_ops lt et) pl (map tf l)) - Rsum (map X l))
    <= ((1 + c) * (1 + g64 (length l + 13)) - 1) * Rasum (map X l)
       + (1 + g64 (length l + 13)) * Rsum (map Bd l).
Proof.
  intros HP Hf HT.
  assert (HP' : plan_ok pl (length (map tf l))) by (rewrite map_length; exact HP).
  pose proof (nd_sum_error_tight lt et pl (map tf l) HP' Hf) as B.
  pose proof (nd_sum_finite_args lt et pl (map tf l) HP' Hf) as FF.
  rewrite map_length, map_map in B. rewrite Forall_map in FF.
  assert (HT' : Forall (fun a => Rabs (B2R (tf a) - X a) <= c * Rabs (X a) + Bd a) l).
  { rewrite Forall_forall in *. intros a Ha. apply (HT a Ha). apply (FF a Ha). }
  destruct (approx_terms (fun a => B2R (tf a)) X Bd c l HT') as [R1 R2].
  set (g := g64 (length l + 13)) in *. pose proof (g64_nonneg (length l + 13)) as G. fold g in G.
  set (s := B2R (nd_sum (f64_ops lt et) pl (map tf l))) in *.
  set (Sp := Rsum (map (fun a => B2R (tf a)) l)) in *. set (Ap := Rasum (map (fun a => B2R (tf a)) l)) in *.
  set (Sx := Rsum (map X l)) in *. set (Ax := Rasum (map X l)) in *. set (Sb := Rsum (map Bd l)) in *.
  replace (s - Sx) with ((s - Sp) + (Sp - Sx)) by ring.
  eapply Rle_trans; [apply Rabs_triang|].
  assert (Q : g * Ap <= g * ((1 + c) * Ax + Sb)) by (apply Rmult_le_compat_l; lra).
  replace (((1 + c) * (1 + g) - 1) * Ax + (1 + g) * Sb)
    with (g * ((1 + c) * Ax + Sb) + (c * Ax + Sb)) by ring.
  lra.
Qed.

(* p * L' rounded once, where L' approximates L with relative error eln *)
Lemma mul_ln_error (X Y e e' eln : R) : 0 <= eln ->
  Rabs (Y - X) <= eln * Rabs X -> Rabs e <= u64 -> Rabs e' <= eta64 ->
  Rabs (Y * (1 + e) + e' - X) <= ((1 + eln) * (1 + u64) - 1) * Rabs X + eta64.
Proof.
  intros Hl HY He He'. pose proof u64_pos as Hu. pose proof (Rabs_pos X) as HX.
  replace (Y * (1 + e) + e' - X) with ((Y - X) + Y * e + e') by ring.
  eapply Rle_trans; [apply Rabs_triang|]. apply Rplus_le_compat; [|exact He'].
  eapply Rle_trans; [apply Rabs_triang|]. rewrite Rabs_mult.
  assert (AY : Rabs Y <= (1 + eln) * Rabs X).
  { replace Y with (X + (Y - X)) at 1 by ring. eapply Rle_trans; [apply Rabs_triang|]. lra. }
  assert (Q : Rabs Y * Rabs e <= (1 + eln) * Rabs X * u64).
  { apply Rmult_le_compat; try apply Rabs_pos; assumption. }
  replace (((1 + eln) * (1 + u64) - 1) * Rabs X) with (eln * Rabs X + (1 + eln) * Rabs X * u64) by ring.
  lra.
Qed.

(* x == 0.0 *)
Lemma feq_fzero_true (x : F64) : feq x fzero = true -> fin x = true /\ B2R x = 0.
Proof.
  destruct x as [s|s| |s m e H]; try (destruct s; discriminate); try discriminate.
  intros _. split; reflexivity.
Qed.
Lemma feq_fzero_false (x : F64) : feq x fzero = false -> fin x = true -> B2R x <> 0.
Proof.
  destruct x as [s|s| |s m e H]; intros H1 H2; try discriminate H2.
  - destruct s; discriminate H1.
  - clear H1 H2. destruct s.
    + pose proof (B2R_finite_neg m e H). lra.
    + assert (0 < B2R (B754_finite false m e H)); [|lra].
      unfold BinarySingleNaN.B2R. apply F2R_gt_0. simpl. lia.
Qed.

Lemma fin_tab_fn_present tab (x : F64) : fin (tab_fn tab x) = true -> tab_lookup tab (bits_of_f64 x) <> None.
Proof. unfold tab_fn. intros Hf E. rewrite E in Hf. discriminate Hf. Qed.

Definition xlnx (v : R) : R := if Req_EM_T v 0 then 0 else v * ln v.
Definition xlny (v w : R) : R := if Req_EM_T v 0 then 0 else v * ln w.

Lemma ln_le_minus1' (t : R) : 0 < t -> ln t <= t - 1.
Proof. intros Ht. pose proof (exp_ineq1_le (ln t)) as He. rewrite (exp_ln t Ht) in He. lra. Qed.

Lemma ln1p_bound (e : R) : Rabs e <= u64 -> Rabs (ln (1 + e)) <= 2 * u64.
Proof.
  intros He. apply Rabs_le_inv in He. pose proof u64_pos as Hu. pose proof u64_small as Hu4.
  assert (P : 0 < 1 + e) by lra.
  pose proof (ln_le_minus1' (1 + e) P) as U.
  assert (Pi : 0 < / (1 + e)) by (apply Rinv_0_lt_compat; exact P).
  pose proof (ln_le_minus1' (/ (1 + e)) Pi) as L. rewrite (ln_Rinv _ P) in L.
  assert (I : / (1 + e) <= 1 + 2 * u64).
  { apply Rmult_le_reg_r with (1 + e); [exact P|]. rewrite Rinv_l by lra.
    assert (Q1 : (1 + 2 * u64) * (1 - u64) <= (1 + 2 * u64) * (1 + e)) by (apply Rmult_le_compat_l; lra).
    assert (Q2 : u64 * u64 <= u64 * / 4) by (apply Rmult_le_compat_l; lra).
    lra. }
  apply Rabs_le. lra.
Qed.

Lemma xlny_0 (v w : R) : v = 0 -> xlny v w = 0.
Proof. intros ->. unfold xlny. destruct (Req_EM_T 0 0) as [_|N]; [reflexivity|elim N; reflexivity]. Qed.
Lemma xlny_nz (v w : R) : v <> 0 -> xlny v w = v * ln w.
Proof. intros N. unfold xlny. destruct (Req_EM_T v 0) as [Z|_]; [elim N; exact Z|reflexivity]. Qed.

Lemma Rsum_affine {A} (k b : R) (f : A -> R) (l : list A) :
  Rsum (map (fun a => k * f a + b) l) = k * Rsum (map f l) + INR (length l) * b.
Proof.
  induction l as [|a l IH]; [cbn [map length INR]; unfold Rsum; cbn [fold_right]; lra|].
  cbn [map]. rewrite !Rsum_cons, IH. change (length (a :: l)) with (S (length l)). rewrite S_INR. ring.
Qed.

Lemma B2R_pos_fin (y : F64) : 0 < B2R y -> fin y = true.
Proof. destruct y as [s|s| |s m e H]; cbn [BinarySingleNaN.B2R]; intros Hy; try lra. reflexivity. Qed.

Section Ent.
Variables lt et : list (Z * Z).
Let O := f64_ops lt et.
Variable eln : R.
Hypothesis eln_nonneg : 0 <= eln.
(* accuracy of the recorded ln on the entries of the table (finite positive argument, finite result) *)
Hypothesis ln_acc : forall x : F64, fin x = true -> 0 < B2R x ->
  tab_lookup lt (bits_of_f64 x) <> None -> fin (o_ln O x) = true ->
  Rabs (B2R (o_ln O x) - ln (B2R x)) <= eln * Rabs (ln (B2R x)).

(* the term  if p == 0 { 0 } else { p * ln(y) }  of the three kernels *)
Definition pln_term (p y : F64) : F64 := if feq p fzero then fzero else fmul p (tab_fn lt y).

(* a zero p contributes the bit pattern +0 *)
Lemma pln_term_zero (p y : F64) : fin p = true -> B2R p = 0 -> pln_term p y = fzero.
Proof.
  intros Fp Zp. unfold pln_term. destruct (feq p fzero) eqn:E; [reflexivity|].
  elim (feq_fzero_false p E Fp). exact Zp.
Qed.

Lemma pln_term_finite_p (p y : F64) : fin (pln_term p y) = true -> fin p = true.
Proof.
  unfold pln_term. destruct (feq p fzero) eqn:E; intros Hf.
  - apply (feq_fzero_true p E).
  - apply (fmul_finite_args _ _ Hf).
Qed.

Lemma pln_term_error (p y : F64) :
  0 <= B2R p -> (B2R p <> 0 -> 0 < B2R y) -> fin (pln_term p y) = true ->
  Rabs (B2R (pln_term p y) - xlny (B2R p) (B2R y))
    <= ((1 + eln) * (1 + u64) - 1) * Rabs (xlny (B2R p) (B2R y)) + eta64.
Proof.
  intros Hp Hy Hf. unfold pln_term in *. destruct (feq p fzero) eqn:E.
  - destruct (feq_fzero_true p E) as [_ Zp]. unfold xlny.
    destruct (Req_EM_T (B2R p) 0) as [_|NZ]; [|elim NZ; exact Zp].
    rewrite B2R_fzero, Rminus_0_r, Rabs_R0. pose proof eta64_pos. lra.
  - destruct (fmul_finite_args _ _ Hf) as [Fp FL].
    pose proof (feq_fzero_false p E Fp) as NZ. specialize (Hy NZ).
    pose proof (B2R_pos_fin y Hy) as Fy.
    pose proof (ln_acc y Fy Hy (fin_tab_fn_present lt y FL) FL) as HL.
    change (o_ln O y) with (tab_fn lt y) in HL.
    rewrite (fmul_value _ _ Hf).
    destruct (rnd_model (B2R p * B2R (tab_fn lt y))) as (e & e' & He & He' & Er). rewrite Er.
    unfold xlny. destruct (Req_EM_T (B2R p) 0) as [Zp|_]; [elim NZ; exact Zp|].
    apply mul_ln_error; [exact eln_nonneg| |exact He|exact He'].
    rewrite <- Rmult_minus_distr_l, !Rabs_mult.
    rewrite (Rmult_comm eln), Rmult_assoc. apply Rmult_le_compat_l; [apply Rabs_pos|].
    rewrite Rmult_comm. exact HL.
Qed.

(* ---- entropy ---- *)
Lemma entropy_unfold pl (data : list F64) n : n = length data ->
  entropy O pl data = fneg (nd_sum O (plan_of_map pl n) (map (fun x => pln_term x x) data)).
Proof. intros ->. reflexivity. Qed.

Theorem entropy_error pl (data : list F64) n :
  plan_ok pl n -> n = length data ->
  Forall (fun x => 0 <= B2R x) data ->
  fin (entropy O pl data) = true ->
  Rabs (B2R (entropy O pl data) - (- Rsum (map (fun x : F64 => xlnx (B2R x)) data)))
    <= ((1 + eln) * (1 + u64) * (1 + g64 (n + 13)) - 1) * Rasum (map (fun x : F64 => xlnx (B2R x)) data)
       + INR n * (1 + g64 (n + 13)) * eta64.
Proof.
  intros HP En Hpos Hf. rewrite (entropy_unfold pl data n En) in Hf |- *.
  unfold fneg in Hf |- *. rewrite is_finite_Bopp in Hf. rewrite B2R_Bopp.
  assert (HPm : plan_ok (plan_of_map pl n) (length data)) by (rewrite <- En; apply plan_of_map_ok; exact HP).
  pose proof (terms_sum_error lt et (fun x => pln_term x x) (fun x => xlnx (B2R x)) (fun _ => eta64)
                ((1 + eln) * (1 + u64) - 1) (plan_of_map pl n) data HPm Hf) as B.
  rewrite Rsum_const, <- En in B.
  match goal with |- Rabs (- ?a - - ?b) <= _ => replace (- a - - b) with (- (a - b)) by ring end.
  rewrite Rabs_Ropp.
  eapply Rle_trans; [apply B|].
  - eapply Forall_impl; [|exact Hpos]. intros x Hx Fx. cbv beta in *.
    apply (pln_term_error x x Hx); [intros NZ; lra|exact Fx].
  - apply Req_le. ring.
Qed.

(* a zero probability contributes exactly +0 to the summed array *)
Theorem entropy_zero_term (x : F64) : fin x = true -> B2R x = 0 ->
  (if o_is_zero O x then o_zero O else o_mul O x (o_ln O x)) = fzero /\ xlnx (B2R x) = 0.
Proof.
  intros Fx Zx. split.
  - exact (pln_term_zero x x Fx Zx).
  - unfold xlnx. destruct (Req_EM_T (B2R x) 0) as [_|NZ]; [reflexivity|elim NZ; exact Zx].
Qed.

(* ---- cross entropy ---- *)
Lemma cross_entropy_unfold (p q : list F64) :
  cross_entropy O p q
  = fneg (nd_sum O (PMem (seq 0 (length p))) (map (fun pq => pln_term (fst pq) (snd pq)) (combine p q))).
Proof. reflexivity. Qed.

Theorem cross_entropy_error (p q : list F64) n :
  n = length p -> length p = length q ->
  Forall (fun pq => 0 <= B2R (fst pq) /\ (B2R (fst pq) <> 0 -> 0 < B2R (snd pq))) (combine p q) ->
  fin (cross_entropy O p q) = true ->
  Rabs (B2R (cross_entropy O p q)
        - (- Rsum (map (fun pq : F64 * F64 => xlny (B2R (fst pq)) (B2R (snd pq))) (combine p q))))
    <= ((1 + eln) * (1 + u64) * (1 + g64 (n + 13)) - 1)
         * Rasum (map (fun pq : F64 * F64 => xlny (B2R (fst pq)) (B2R (snd pq))) (combine p q))
       + INR n * (1 + g64 (n + 13)) * eta64.
Proof.
  intros En HL Hpos Hf. rewrite cross_entropy_unfold in Hf |- *.
  unfold fneg in Hf |- *. rewrite is_finite_Bopp in Hf. rewrite B2R_Bopp.
  assert (Lc : length (combine p q) = n) by (rewrite combine_length, <- HL, Nat.min_id; symmetry; exact En).
  assert (HPm : plan_ok (PMem (seq 0 (length p))) (length (combine p q))).
  { rewrite Lc, <- En. unfold plan_ok. cbn [plan_positions]. apply Permutation_refl. }
  set (tf := fun pq : F64 * F64 => pln_term (fst pq) (snd pq)) in *.
  set (X := fun pq : F64 * F64 => xlny (B2R (fst pq)) (B2R (snd pq))).
  pose proof (terms_sum_error lt et tf X (fun _ => eta64)
                ((1 + eln) * (1 + u64) - 1) (PMem (seq 0 (length p))) (combine p q) HPm Hf) as B.
  rewrite Rsum_const, Lc in B.
  match goal with |- Rabs (- ?a - - ?b) <= _ => replace (- a - - b) with (- (a - b)) by ring end.
  rewrite Rabs_Ropp.
  eapply Rle_trans; [apply B|].
  - eapply Forall_impl; [|exact Hpos]. intros pq [H1 H2] Fx.
    apply (pln_term_error (fst pq) (snd pq) H1 H2 Fx).
  - apply Req_le. ring.
Qed.

(* ---- Kullback-Leibler divergence: one more rounding (q_i / p_i) inside the logarithm ---- *)
Lemma kl_divergence_unfold (p q : list F64) :
  kl_divergence O p q
  = fneg (nd_sum O (PMem (seq 0 (length p)))
            (map (fun pq => pln_term (fst pq) (fdiv (snd pq) (fst pq))) (combine p q))).
Proof. reflexivity. Qed.

Lemma kl_term_error (p q : F64) :
  0 <= B2R p ->
  (B2R p <> 0 -> 0 < B2R q /\ bpow radix2 (-1022) <= B2R q / B2R p <= bpow radix2 1023) ->
  fin (pln_term p (fdiv q p)) = true ->
  Rabs (B2R (pln_term p (fdiv q p)) - xlny (B2R p) (B2R q / B2R p))
    <= ((1 + eln) * (1 + u64) - 1) * Rabs (xlny (B2R p) (B2R q / B2R p))
       + ((1 + eln) * (1 + u64) * (2 * u64) * B2R p + eta64).
Proof.
  intros Hp Hq Hf. pose proof u64_pos as Hu. pose proof u64_small as Hu4.
  set (c := (1 + eln) * (1 + u64) - 1).
  assert (Hc : 0 <= c).
  { unfold c. assert (0 <= eln * u64) by (apply Rmult_le_pos; lra). lra. }
  replace ((1 + eln) * (1 + u64)) with (1 + c) by (unfold c; ring).
  destruct (Req_dec (B2R p) 0) as [Zp|NZ].
  - pose proof (pln_term_error p (fdiv q p) Hp (fun N => False_ind _ (N Zp)) Hf) as B.
    rewrite (xlny_0 _ (B2R (fdiv q p)) Zp) in B. rewrite (xlny_0 _ _ Zp). rewrite Zp. fold c in B. lra.
  - destruct (Hq NZ) as (Pq & Rlo & Rhi).
    pose proof (pln_term_finite_p _ _ Hf) as Fp. pose proof (B2R_pos_fin q Pq) as Fq.
    assert (Pp : 0 < B2R p) by lra.
    set (r := B2R q / B2R p) in *.
    assert (Pr : 0 < r) by (apply Rdiv_lt_0_compat; assumption).
    destruct (rnd_rel r) as (e1 & He1 & E1); [rewrite Rabs_pos_eq by lra; exact Rlo|].
    assert (He1' := Rabs_le_inv _ _ He1).
    assert (Py : 0 < rnd r).
    { rewrite E1. apply Rmult_lt_0_compat; lra. }
    assert (Hb : Rabs (rnd r) < bpow radix2 1024).
    { rewrite Rabs_pos_eq by lra.
      apply Rle_lt_trans with (bpow radix2 1023); [|apply bpow_lt; lia].
      apply rnd_le_fmt; [apply fmt_bpow; lia|exact Rhi]. }
    destruct (fdiv_correct q p Fq NZ Hb) as [Fy Ey]. fold r in Ey.
    assert (PBy : 0 < B2R (fdiv q p)) by (rewrite Ey; exact Py).
    pose proof (pln_term_error p (fdiv q p) Hp (fun _ => PBy) Hf) as B. fold c in B.
    rewrite (xlny_nz _ (B2R (fdiv q p)) NZ) in B. rewrite (xlny_nz _ _ NZ). rewrite Ey, E1 in B.
    rewrite ln_mult in B by lra.
    pose proof (ln1p_bound e1 He1) as HL.
    set (t := B2R (pln_term p (fdiv q p))) in *. set (lam := ln (1 + e1)) in *.
    set (X := B2R p * ln r) in *.
    assert (EY : B2R p * (ln r + lam) = X + B2R p * lam) by (unfold X; ring). rewrite EY in B.
    assert (HD : Rabs (B2R p * lam) <= 2 * u64 * B2R p).
    { rewrite Rabs_mult, (Rabs_pos_eq (B2R p)) by lra. rewrite Rmult_comm.
      apply Rmult_le_compat_r; lra. }
    assert (HY : Rabs (X + B2R p * lam) <= Rabs X + 2 * u64 * B2R p).
    { eapply Rle_trans; [apply Rabs_triang|]. lra. }
    assert (Q : c * Rabs (X + B2R p * lam) <= c * (Rabs X + 2 * u64 * B2R p)).
    { apply Rmult_le_compat_l; assumption. }
    replace (t - X) with ((t - (X + B2R p * lam)) + B2R p * lam) by ring.
    eapply Rle_trans; [apply Rabs_triang|].
    replace ((1 + c) * (2 * u64) * B2R p) with (c * (2 * u64 * B2R p) + 2 * u64 * B2R p) by ring.
    lra.
Qed.

Theorem kl_divergence_error (p q : list F64) n :
  n = length p -> length p = length q ->
  Forall (fun pq => 0 <= B2R (fst pq) /\
                    (B2R (fst pq) <> 0 -> 0 < B2R (snd pq) /\
                       bpow radix2 (-1022) <= B2R (snd pq) / B2R (fst pq) <= bpow radix2 1023))
         (combine p q) ->
  fin (kl_divergence O p q) = true ->
  Rabs (B2R (kl_divergence O p q)
        - (- Rsum (map (fun pq : F64 * F64 => xlny (B2R (fst pq)) (B2R (snd pq) / B2R (fst pq))) (combine p q))))
    <= ((1 + eln) * (1 + u64) * (1 + g64 (n + 13)) - 1)
         * Rasum (map (fun pq : F64 * F64 => xlny (B2R (fst pq)) (B2R (snd pq) / B2R (fst pq))) (combine p q))
       + (1 + g64 (n + 13))
         * ((1 + eln) * (1 + u64) * (2 * u64) * Rsum (map (fun pq : F64 * F64 => B2R (fst pq)) (combine p q))
            + INR n * eta64).
Proof.
  intros En HL Hpos Hf. rewrite kl_divergence_unfold in Hf |- *.
  unfold fneg in Hf |- *. rewrite is_finite_Bopp in Hf. rewrite B2R_Bopp.
  assert (Lc : length (combine p q) = n) by (rewrite combine_length, <- HL, Nat.min_id; symmetry; exact En).
  assert (HPm : plan_ok (PMem (seq 0 (length p))) (length (combine p q))).
  { rewrite Lc, <- En. unfold plan_ok. cbn [plan_positions]. apply Permutation_refl. }
  set (tf := fun pq : F64 * F64 => pln_term (fst pq) (fdiv (snd pq) (fst pq))) in *.
  set (X := fun pq : F64 * F64 => xlny (B2R (fst pq)) (B2R (snd pq) / B2R (fst pq))).
  set (K := (1 + eln) * (1 + u64) * (2 * u64)).
  pose proof (terms_sum_error lt et tf X (fun pq : F64 * F64 => K * B2R (fst pq) + eta64)
                ((1 + eln) * (1 + u64) - 1) (PMem (seq 0 (length p))) (combine p q) HPm Hf) as B.
  rewrite (Rsum_affine K eta64 (fun pq : F64 * F64 => B2R (fst pq))), Lc in B.
  match goal with |- Rabs (- ?a - - ?b) <= _ => replace (- a - - b) with (- (a - b)) by ring end.
  rewrite Rabs_Ropp.
  eapply Rle_trans; [apply B|].
  - eapply Forall_impl; [|exact Hpos]. intros pq [H1 H2] Fx.
    apply (kl_term_error (fst pq) (snd pq) H1 H2 Fx).
  - apply Req_le. ring.
Qed.
End Ent.

Print Assumptions weighted_mean_error.
Print Assumptions weighted_mean_error_pos.
Print Assumptions harmonic_mean_error.
Print Assumptions entropy_error.
Print Assumptions entropy_zero_term.
Print Assumptions cross_entropy_error.
Print Assumptions kl_divergence_error.
