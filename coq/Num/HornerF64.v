(* The last stage of the central-moment scheme of means.rs (Num/Kernels.v: iter_binomial,
   central_moment_coefficients, horner) in IEEE-754 binary64:
     - IterBinomial yields the binomial coefficients (iter_binomial_spec), exactly;
     - the coefficient list as an explicit map over the index (cmc_as_map);
     - the rounding-error bound of Horner's rule as coded, with its underflow term (horner_error). *)
From Flocq Require Import Core BinarySingleNaN Plus_error Relative.
Require Import Reals Lra Lia ZArith Psatz Bool List Arith Permutation.
From NS Require Import Num.F64 Num.Ops Num.F64Inst Num.Kernels Num.SumBridge Num.SumF64
  Quantile.IndexProofs Quantile.InterpF64 Num.DeviationF64 Num.MeansF64 Num.CovF64 Num.PowiF64.
Import ListNotations.
Open Scope R_scope.

Local Instance prec64_gt_0H : Prec_gt_0 53 := Hprec64.
Local Instance vexp64H : Valid_exp (SpecFloat.fexp 53 1024) := fexp_correct 53 1024 Hprec64.

(* ------------------------------------------------------------------ *)
(* 1. Binomial coefficients and IterBinomial                            *)
(* ------------------------------------------------------------------ *)
Fixpoint binom (n k : nat) {struct n} : nat :=
  match n, k with
  | _, O => 1
  | O, S _ => 0
  | S n', S k' => binom n' k' + binom n' (S k')
  end.

Lemma binom_0_r n : binom n 0 = 1%nat.
Proof. destruct n; reflexivity. Qed.
Lemma binom_SS n k : binom (S n) (S k) = (binom n k + binom n (S k))%nat.
Proof. reflexivity. Qed.
Lemma binom_gt n : forall k, (n < k)%nat -> binom n k = 0%nat.
Proof.
  induction n as [|n IH]; intros [|k] H; try lia; [reflexivity|].
  rewrite binom_SS, !IH by lia. reflexivity.
Qed.
Lemma binom_1_r n : binom n 1 = n.
Proof. induction n as [|n IH]; [reflexivity|]. rewrite binom_SS, IH, binom_0_r. lia. Qed.
Lemma binom_diag n : binom n n = 1%nat.
Proof. induction n as [|n IH]; [reflexivity|]. rewrite binom_SS, IH, binom_gt by lia. lia. Qed.

Lemma binom_step n : forall k, (S k * binom n (S k) = (n - k) * binom n k)%nat.
Proof.
  induction n as [|n IH]; intros k.
  - simpl. lia.
  - rewrite binom_SS. destruct k as [|k'].
    + rewrite !binom_0_r. pose proof (IH 0%nat) as I0. rewrite binom_0_r in I0. lia.
    + rewrite (binom_SS n k'). pose proof (IH k') as I1. pose proof (IH (S k')) as I2.
      destruct (le_lt_dec n k') as [Hle|Hlt].
      * rewrite (binom_gt n (S k')) in * by lia. rewrite (binom_gt n (S (S k'))) by lia. lia.
      * set (B0 := binom n k') in *. set (B1 := binom n (S k')) in *. set (B2 := binom n (S (S k'))) in *.
        assert (E1 : (n - k' = S (n - S k'))%nat) by lia. assert (E2 : (S n - S k' = n - k')%nat) by lia.
        rewrite E2. rewrite E1 in *. set (a := (n - S k')%nat) in *. nia.
Qed.

Lemma binom_le_pow n : forall k, (binom n k <= 2 ^ n)%nat.
Proof.
  induction n as [|n IH]; intros [|k]; cbn [binom]; try (simpl; lia).
  - pose proof (Nat.pow_nonzero 2 (S n)). lia.
  - pose proof (IH k). pose proof (IH (S k)). simpl. lia.
Qed.

Lemma iter_from_spec n : forall fuel k a, (k <= S n)%nat -> (S n - k < fuel)%nat ->
  (k <> 0%nat -> a = binom n (k - 1)) ->
  iter_binomial_from fuel n k a = map (binom n) (seq k (S n - k)).
Proof.
  induction fuel as [|f IH]; intros k a Hk Hf Ha; [lia|].
  cbn [iter_binomial_from]. destruct (Nat.ltb n k) eqn:E.
  - apply Nat.ltb_lt in E. replace (S n - k)%nat with 0%nat by lia. reflexivity.
  - apply Nat.ltb_ge in E. replace (S n - k)%nat with (S (n - k)) by lia. cbn [seq map].
    assert (Ea : (if Nat.eqb k 0 then 1%nat else Nat.div (Nat.mul a (Nat.add (Nat.sub n k) 1)) k) = binom n k).
    { destruct k as [|k]; [rewrite binom_0_r; reflexivity|]. cbn [Nat.eqb].
      rewrite Ha by lia. replace (S k - 1)%nat with k by lia.
      pose proof (binom_step n k) as St. replace (n - S k + 1)%nat with (n - k)%nat by lia.
      rewrite (Nat.mul_comm (binom n k)), <- St, Nat.mul_comm. apply Nat.div_mul. lia. }
    rewrite Ea. f_equal. rewrite IH; [replace (S n - S k)%nat with (n - k)%nat by lia; reflexivity|lia|lia|].
    intros _. replace (S k - 1)%nat with k by lia. reflexivity.
Qed.

Theorem iter_binomial_spec n : iter_binomial n = map (binom n) (seq 0 (S n)).
Proof.
  unfold iter_binomial. rewrite iter_from_spec; [rewrite Nat.sub_0_r; reflexivity|lia|lia|].
  intros H. elim H. reflexivity.
Qed.

(* ------------------------------------------------------------------ *)
(* 2. List structure of moments / central_moment_coefficients           *)
(* ------------------------------------------------------------------ *)
Lemma rev_seq0 n : rev (seq 0 n) = map (fun j => (n - 1 - j)%nat) (seq 0 n).
Proof.
  induction n as [|n IH]; [reflexivity|].
  rewrite seq_S at 1. rewrite rev_app_distr. cbn [rev app plus].
  cbn [seq map]. f_equal; [lia|].
  rewrite <- seq_shift, map_map, IH. apply map_ext. intros j. lia.
Qed.

Lemma combine_map_seq {A B} (f : nat -> A) (g : nat -> B) a b : forall s,
  combine (map f (seq s (a + b))) (map g (seq s a)) = map (fun j => (f j, g j)) (seq s a).
Proof.
  induction a as [|a IH]; intros s.
  - cbn [seq map plus]. destruct (map f (seq s b)); reflexivity.
  - cbn [seq map plus combine]. f_equal. apply IH.
Qed.

Lemma combine_map_seq0 {A B} (f : nat -> A) (g : nat -> B) a s :
  combine (map f (seq s a)) (map g (seq s a)) = map (fun j => (f j, g j)) (seq s a).
Proof. pose proof (combine_map_seq f g a 0 s) as H. rewrite Nat.add_0_r in H. exact H. Qed.

(* the pre-repair coefficients (defect D7): binomials of order p + 1 = len(moments) *)
Lemma cmc_v0_as_map {T} (O : ops T) (rm : nat -> T) p :
  central_moment_coefficients_v0 O (map rm (seq 0 (S p)))
  = map (fun j => o_mul O (o_of_nat O (binom (S p) j)) (rm (p - j)%nat)) (seq 0 (S p)).
Proof.
  unfold central_moment_coefficients_v0. rewrite map_length, seq_length, iter_binomial_spec.
  rewrite <- map_rev, rev_seq0, map_map.
  replace (S (S p)) with (S p + 1)%nat by lia.
  rewrite combine_map_seq, map_map. apply map_ext. intros j. cbn [fst snd].
  replace (S p - 1 - j)%nat with (p - j)%nat by lia. reflexivity.
Qed.

(* the repaired coefficients: binomials of order p *)
Lemma cmc_as_map {T} (O : ops T) (rm : nat -> T) p :
  central_moment_coefficients O (map rm (seq 0 (S p)))
  = map (fun j => o_mul O (o_of_nat O (binom p j)) (rm (p - j)%nat)) (seq 0 (S p)).
Proof.
  unfold central_moment_coefficients. rewrite map_length, seq_length. cbn [Nat.pred].
  rewrite iter_binomial_spec, <- map_rev, rev_seq0, map_map.
  rewrite combine_map_seq0, map_map. apply map_ext. intros j. cbn [fst snd].
  replace (S p - 1 - j)%nat with (p - j)%nat by lia. reflexivity.
Qed.

(* ------------------------------------------------------------------ *)
(* 3. Horner's rule over the reals                                      *)
(* ------------------------------------------------------------------ *)
Definition hornerR (cs : list R) (x : R) : R := fold_right (fun c r => c + x * r) 0 cs.
(* the underflow contribution of a Horner evaluation with len coefficients at a point of magnitude y *)
Definition hornerU (len : nat) (y : R) : R :=
  hornerR (repeat ((1 + u64) * eta64) len) (y * ((1 + u64) * (1 + u64))).

Lemma hornerR_cons c cs x : hornerR (c :: cs) x = c + x * hornerR cs x.
Proof. reflexivity. Qed.
Lemma hornerU_S len y : hornerU (S len) y = (1 + u64) * eta64 + y * ((1 + u64) * (1 + u64)) * hornerU len y.
Proof. reflexivity. Qed.

Lemma hornerR_abs cs x : Rabs (hornerR cs x) <= hornerR (map Rabs cs) (Rabs x).
Proof.
  induction cs as [|c cs IH]; cbn [map]; [unfold hornerR; simpl; rewrite Rabs_R0; lra|].
  rewrite !hornerR_cons. eapply Rle_trans; [apply Rabs_triang|]. rewrite Rabs_mult.
  apply Rplus_le_compat_l. apply Rmult_le_compat_l; [apply Rabs_pos|exact IH].
Qed.

Lemma hornerR_map_le {A} (f g : A -> R) l x y : (forall a, In a l -> 0 <= f a <= g a) -> 0 <= x <= y ->
  0 <= hornerR (map f l) x <= hornerR (map g l) y.
Proof.
  intros H Hxy. induction l as [|a l IH]; cbn [map]; [unfold hornerR; simpl; lra|].
  rewrite !hornerR_cons. pose proof (H a (or_introl eq_refl)) as Ha.
  assert (IH' : 0 <= hornerR (map f l) x <= hornerR (map g l) y).
  { apply IH. intros b Hb. apply H. right. exact Hb. }
  assert (P : x * hornerR (map f l) x <= y * hornerR (map g l) y) by (apply Rmult_le_compat; lra).
  assert (P0 : 0 <= x * hornerR (map f l) x) by (apply Rmult_le_pos; lra).
  lra.
Qed.

Lemma hornerU_mono len x y : 0 <= x <= y -> 0 <= hornerU len x <= hornerU len y.
Proof.
  intros Hxy. pose proof u64_pos as Hu. pose proof eta64_pos as He.
  assert (Q : 0 <= (1 + u64) * (1 + u64)) by nra.
  assert (C0 : 0 <= (1 + u64) * eta64) by (apply Rmult_le_pos; lra).
  induction len as [|len IH]; [unfold hornerU, hornerR; simpl; lra|].
  rewrite !hornerU_S.
  assert (X1 : 0 <= x * ((1 + u64) * (1 + u64)) <= y * ((1 + u64) * (1 + u64))).
  { split; [apply Rmult_le_pos; lra|apply Rmult_le_compat_r; lra]. }
  assert (P : x * ((1 + u64) * (1 + u64)) * hornerU len x <= y * ((1 + u64) * (1 + u64)) * hornerU len y)
    by (apply Rmult_le_compat; lra).
  assert (P0 : 0 <= x * ((1 + u64) * (1 + u64)) * hornerU len x) by (apply Rmult_le_pos; lra).
  lra.
Qed.

(* one step of the recurrence  r = fl(c + fl(x * r'))  against  h = c + x * h' *)
Lemma horner_step (C X R' h' a' U' G e1 e1' e2 : R) :
  Rabs e1 <= u64 -> Rabs e1' <= eta64 -> Rabs e2 <= u64 -> 0 <= G -> 0 <= U' ->
  Rabs (R' - h') <= G * a' + U' -> Rabs h' <= a' ->
  Rabs ((C + (X * R' * (1 + e1) + e1')) * (1 + e2) - (C + X * h'))
    <= ((1 + G) * (1 + u64) * (1 + u64) - 1) * (Rabs C + Rabs X * a')
       + ((1 + u64) * eta64 + Rabs X * ((1 + u64) * (1 + u64)) * U').
Proof.
  intros He1 He1' He2 HG HU HR Hh. pose proof u64_pos as Hu. pose proof eta64_pos as Het.
  assert (a0 : 0 <= a') by (pose proof (Rabs_pos h'); lra).
  replace ((C + (X * R' * (1 + e1) + e1')) * (1 + e2) - (C + X * h'))
    with (C * e2 + X * ((R' - h') * ((1 + e1) * (1 + e2)) + h' * ((1 + e1) * (1 + e2) - 1)) + e1' * (1 + e2)) by ring.
  assert (E12 : Rabs ((1 + e1) * (1 + e2)) <= (1 + u64) * (1 + u64)).
  { rewrite Rabs_mult. apply Rmult_le_compat; try apply Rabs_pos; apply Rabs_1pe; assumption. }
  assert (E12' : Rabs ((1 + e1) * (1 + e2) - 1) <= (1 + u64) * (1 + u64) - 1).
  { pose proof (two_eps_g e1 e2 He1 He2) as T. unfold g64 in T. simpl in T. lra. }
  assert (B1 : Rabs (C * e2) <= Rabs C * u64).
  { rewrite Rabs_mult. apply Rmult_le_compat_l; [apply Rabs_pos|exact He2]. }
  assert (B2 : Rabs ((R' - h') * ((1 + e1) * (1 + e2))) <= (G * a' + U') * ((1 + u64) * (1 + u64))).
  { rewrite Rabs_mult. apply Rmult_le_compat; try apply Rabs_pos; assumption. }
  assert (B3 : Rabs (h' * ((1 + e1) * (1 + e2) - 1)) <= a' * ((1 + u64) * (1 + u64) - 1)).
  { rewrite Rabs_mult. apply Rmult_le_compat; try apply Rabs_pos; assumption. }
  assert (B4 : Rabs (e1' * (1 + e2)) <= eta64 * (1 + u64)).
  { rewrite Rabs_mult. apply Rmult_le_compat; try apply Rabs_pos; [exact He1'|apply Rabs_1pe; exact He2]. }
  set (I := (R' - h') * ((1 + e1) * (1 + e2)) + h' * ((1 + e1) * (1 + e2) - 1)) in *.
  assert (BI : Rabs I <= (G * a' + U') * ((1 + u64) * (1 + u64)) + a' * ((1 + u64) * (1 + u64) - 1)).
  { unfold I. eapply Rle_trans; [apply Rabs_triang|]. lra. }
  assert (BX : Rabs (X * I) <= Rabs X * ((G * a' + U') * ((1 + u64) * (1 + u64)) + a' * ((1 + u64) * (1 + u64) - 1))).
  { rewrite Rabs_mult. apply Rmult_le_compat_l; [apply Rabs_pos|exact BI]. }
  assert (GU : u64 <= (1 + G) * (1 + u64) * (1 + u64) - 1) by nra.
  assert (BC : Rabs C * u64 <= Rabs C * ((1 + G) * (1 + u64) * (1 + u64) - 1)).
  { apply Rmult_le_compat_l; [apply Rabs_pos|exact GU]. }
  eapply Rle_trans; [apply Rabs_triang|]. eapply Rle_trans; [apply Rplus_le_compat_r, Rabs_triang|].
  lra.
Qed.

(* ------------------------------------------------------------------ *)
(* 4. Horner's rule in binary64                                         *)
(* ------------------------------------------------------------------ *)
Section Horner.
Variables lt et : list (Z * Z).
Let O := f64_ops lt et.

Lemma horner_fold cs x : horner O cs x = fold_right (fun c r => fadd c (fmul x r)) fzero cs.
Proof.
  pose proof (fold_left_rev_right (fun c r => fadd c (fmul x r)) (rev cs) fzero) as H.
  rewrite rev_involutive in H. symmetry. exact H.
Qed.

Theorem horner_error cs x : fin (horner O cs x) = true ->
  Forall (fun c => fin c = true) cs /\ (cs <> [] -> fin x = true) /\
  Rabs (B2R (horner O cs x) - hornerR (map B2R cs) (B2R x))
    <= g64 (2 * length cs) * hornerR (map (fun c => Rabs (B2R c)) cs) (Rabs (B2R x))
       + hornerU (length cs) (Rabs (B2R x)).
Proof.
  rewrite horner_fold. induction cs as [|c cs IH]; cbn [fold_right map length]; intros Hf.
  - split; [constructor|]. split; [intros H; elim H; reflexivity|].
    unfold hornerU, hornerR. simpl. rewrite Rminus_0_r, Rabs_R0. lra.
  - set (r' := fold_right (fun c r => fadd c (fmul x r)) fzero cs) in *.
    destruct (fadd_finite_args _ _ Hf) as [Fc Fq]. destruct (fmul_finite_args _ _ Fq) as [Fx Fr'].
    destruct (IH Fr') as (Fcs & _ & E').
    split; [constructor; assumption|]. split; [intros _; exact Fx|].
    rewrite (fadd_value _ _ Hf), (fmul_value _ _ Fq).
    destruct (rnd_model (B2R x * B2R r')) as (e1 & e1' & He1 & He1' & E1).
    destruct (rnd_plus_model (B2R c) (rnd (B2R x * B2R r')) (fmt_B2R c) (rnd_fmt _)) as (e2 & He2 & E2).
    assert (He2' : Rabs e2 <= u64) by (pose proof u64_frac_le; lra).
    rewrite E2, E1. rewrite !hornerR_cons, hornerU_S.
    set (m := length cs) in *.
    assert (Hh : Rabs (hornerR (map B2R cs) (B2R x)) <= hornerR (map (fun c0 => Rabs (B2R c0)) cs) (Rabs (B2R x))).
    { eapply Rle_trans; [apply hornerR_abs|]. rewrite map_map. apply Rle_refl. }
    assert (U0 : 0 <= hornerU m (Rabs (B2R x))).
    { apply (hornerU_mono m (Rabs (B2R x)) (Rabs (B2R x))). split; [apply Rabs_pos|apply Rle_refl]. }
    pose proof (horner_step (B2R c) (B2R x) (B2R r') _ _ _ (g64 (2 * m)) e1 e1' e2
                  He1 He1' He2' (g64_nonneg _) U0 E' Hh) as St.
    replace (2 * S m)%nat with (S (S (2 * m))) by lia.
    assert (EG : (1 + g64 (2 * m)) * (1 + u64) * (1 + u64) - 1 = g64 (S (S (2 * m)))).
    { pose proof (g64_S' (2 * m)). pose proof (g64_S' (S (2 * m))). nra. }
    rewrite EG in St. exact St.
Qed.
End Horner.

(* ------------------------------------------------------------------ *)
(* 5. One coefficient  fl(C(p+1, j) * r)                                *)
(* ------------------------------------------------------------------ *)
Lemma coef_val (b : nat) (r : F64) : (Z.of_nat b <= 2 ^ 53)%Z ->
  fin (fmul (f64_of_Z (Z.of_nat b)) r) = true ->
  fin r = true /\ B2R (fmul (f64_of_Z (Z.of_nat b)) r) = rnd (INR b * B2R r).
Proof.
  intros Hb Hf. destruct (fmul_finite_args _ _ Hf) as [_ Fr]. split; [exact Fr|].
  rewrite (fmul_value _ _ Hf). destruct (f64_of_Z_exact (Z.of_nat b)) as [_ E]; [lia|].
  rewrite E, <- INR_IZR_INZ. reflexivity.
Qed.

Lemma coef_abs (b : nat) (R0 : R) : Rabs (rnd (INR b * R0)) <= INR b * Rabs R0 * (1 + u64) + eta64.
Proof.
  destruct (rnd_model (INR b * R0)) as (e & e' & He & He' & E). rewrite E.
  eapply Rle_trans; [apply Rabs_triang|]. apply Rplus_le_compat; [|exact He'].
  rewrite !Rabs_mult, (Rabs_pos_eq (INR b)) by apply pos_INR.
  apply Rmult_le_compat_l; [apply Rmult_le_pos; [apply pos_INR|apply Rabs_pos]|apply Rabs_1pe; exact He].
Qed.

Print Assumptions iter_binomial_spec.
Print Assumptions horner_error.
