(* IEEE-754 binary64 (and binary32) as Flocq's BinarySingleNaN.binary_float, with the
   operations Rust's f64 performs (round to nearest even).  Values are exchanged with the
   harness as bit patterns. *)
From Coq Require Import ZArith Bool.
From Flocq Require Import Core BinarySingleNaN Binary Bits.

Definition F64 := BinarySingleNaN.binary_float 53 1024.

Lemma Hprec64 : FLX.Prec_gt_0 53. Proof. reflexivity. Qed.
Lemma Hmax64 : Prec_lt_emax 53 1024. Proof. reflexivity. Qed.

Definition f64_of_bits (z : Z) : F64 := B2BSN 53 1024 (b64_of_bits z).

(* canonical quiet NaN for printing *)
Definition nan_bits : Z := 9221120237041090560%Z.
Definition nan_pl64 : { x : Binary.binary_float 53 1024 | Binary.is_nan 53 1024 x = true } :=
  exist _ (Binary.B754_nan 53 1024 false (iter_nat xO 51 xH) (refl_equal true)) (refl_equal true).
Definition bits_of_f64 (x : F64) : Z :=
  match x with
  | BinarySingleNaN.B754_nan => nan_bits
  | _ => bits_of_b64 (BSN2B 53 1024 nan_pl64 x)
  end.

Definition fadd : F64 -> F64 -> F64 := @BinarySingleNaN.Bplus 53 1024 Hprec64 Hmax64 mode_NE.
Definition fsub : F64 -> F64 -> F64 := @BinarySingleNaN.Bminus 53 1024 Hprec64 Hmax64 mode_NE.
Definition fmul : F64 -> F64 -> F64 := @BinarySingleNaN.Bmult 53 1024 Hprec64 Hmax64 mode_NE.
Definition fdiv : F64 -> F64 -> F64 := @BinarySingleNaN.Bdiv 53 1024 Hprec64 Hmax64 mode_NE.
Definition fsqrt : F64 -> F64 := @BinarySingleNaN.Bsqrt 53 1024 Hprec64 Hmax64 mode_NE.
Definition fneg : F64 -> F64 := @BinarySingleNaN.Bopp 53 1024.
Definition fabs : F64 -> F64 := @BinarySingleNaN.Babs 53 1024.
Definition fcmp : F64 -> F64 -> option comparison := @BinarySingleNaN.Bcompare 53 1024.
Definition flt (x y : F64) : bool := match fcmp x y with Some Lt => true | _ => false end.
Definition fle (x y : F64) : bool := match fcmp x y with Some Lt | Some Eq => true | _ => false end.
Definition feq (x y : F64) : bool := match fcmp x y with Some Eq => true | _ => false end.
Definition fis_nan (x : F64) : bool := BinarySingleNaN.is_nan x.
Definition fis_finite (x : F64) : bool := BinarySingleNaN.is_finite x.

(* `n as f64` for an integer n (round to nearest even; exact below 2^53) *)
Definition f64_of_Z (n : Z) : F64 := BinarySingleNaN.binary_normalize 53 1024 Hprec64 Hmax64 mode_NE n 0 false.

(* floor / ceil / trunc of a float, as floats, and truncation to an integer *)
Definition ffloor : F64 -> F64 := @BinarySingleNaN.Bnearbyint 53 1024 Hmax64 mode_DN.
Definition fceil : F64 -> F64 := @BinarySingleNaN.Bnearbyint 53 1024 Hmax64 mode_UP.
Definition ftrunc : F64 -> F64 := @BinarySingleNaN.Bnearbyint 53 1024 Hmax64 mode_ZR.
Definition ftrunc_Z : F64 -> Z := @BinarySingleNaN.Btrunc 53 1024.

Definition fzero : F64 := BinarySingleNaN.B754_zero false.
Definition fone : F64 := f64_of_Z 1.
Definition fhalf : F64 := f64_of_bits 4602678819172646912%Z.
Definition ftwo : F64 := f64_of_Z 2.
