(* deviation.rs over unbounded integers: the distances are exact sums / maxima over the
   position-wise pairs, independent of the traversal order; symmetry, zero on the diagonal,
   the equal / unequal counts. *)
From Coq Require Import ZArith Lia List Arith Permutation Bool.
Import ListNotations.
From NS Require Import Num.Ops Num.Kernels Num.ZInst.
Local Open Scope Z_scope.

Fixpoint Zsum (l : list Z) : Z := match l with [] => 0 | x :: t => x + Zsum t end.

(* ---------- sums and maxima: fold_left vs. the specification, permutations ---------- *)
Lemma fold_left_add_gen {A : Type} (f : A -> Z) (l : list A) :
  forall acc, fold_left (fun r x => r + f x) l acc = acc + Zsum (map f l).
Proof.
  induction l as [|x t IH]; intros acc; simpl.
  - lia.
  - rewrite IH. lia.
Qed.

Lemma Zsum_perm (l l' : list Z) : Permutation l l' -> Zsum l = Zsum l'.
Proof.
  intros HP. induction HP as [|x l l' HP IH|x y l|l l' l'' HP1 IH1 HP2 IH2]; simpl; lia.
Qed.

Lemma fold_left_add_perm {A : Type} (f : A -> Z) (l l' : list A) (acc : Z) :
  Permutation l l' ->
  fold_left (fun r x => r + f x) l acc = fold_left (fun r x => r + f x) l' acc.
Proof.
  intros HP. rewrite !fold_left_add_gen. f_equal. apply Zsum_perm. now apply Permutation_map.
Qed.

Notation Zmaxl l := (fold_right Z.max 0 l) (only parsing).

Lemma Zmaxl_nonneg (l : list Z) : 0 <= Zmaxl l.
Proof. induction l as [|x t IH]; simpl; lia. Qed.

Lemma fold_right_max_base (a c : Z) (l : list Z) :
  fold_right Z.max (Z.max a c) l = Z.max c (fold_right Z.max a l).
Proof. induction l as [|x t IH]; simpl; [lia|]. rewrite IH. lia. Qed.

Lemma fold_left_max_gen {A : Type} (f : A -> Z) (l : list A) :
  forall acc, fold_left (fun mx x => Z.max mx (f x)) l acc = fold_right Z.max acc (map f l).
Proof.
  induction l as [|x t IH]; intros acc; simpl.
  - reflexivity.
  - rewrite IH. apply fold_right_max_base.
Qed.

Lemma Zmaxl_perm (acc : Z) (l l' : list Z) :
  Permutation l l' -> fold_right Z.max acc l = fold_right Z.max acc l'.
Proof.
  intros HP. induction HP as [|x l l' HP IH|x y l|l l' l'' HP1 IH1 HP2 IH2]; simpl; lia.
Qed.

Lemma fold_left_max_perm {A : Type} (f : A -> Z) (l l' : list A) (acc : Z) :
  Permutation l l' ->
  fold_left (fun mx x => Z.max mx (f x)) l acc = fold_left (fun mx x => Z.max mx (f x)) l' acc.
Proof.
  intros HP. rewrite !fold_left_max_gen. apply Zmaxl_perm. now apply Permutation_map.
Qed.

(* ---------- the kernels at Z_ops, unfolded ---------- *)
Lemma zip_trav_Z (a b : list Z) (trav : list nat) :
  zip_trav Z_ops a b trav = map (fun p => (nth p a 0, nth p b 0)) trav.
Proof. reflexivity. Qed.

Lemma sq_l2_unfold (a b : list Z) (trav : list nat) :
  sq_l2_dist Z_ops a b trav =
  fold_left (fun r ab => r + (fst ab - snd ab) * (fst ab - snd ab)) (zip_trav Z_ops a b trav) 0.
Proof. reflexivity. Qed.

Lemma l1_unfold (a b : list Z) (trav : list nat) :
  l1_dist Z_ops a b trav =
  fold_left (fun r ab => r + Z.abs (fst ab - snd ab)) (zip_trav Z_ops a b trav) 0.
Proof. reflexivity. Qed.

Lemma linf_fold_max (l : list (Z * Z)) :
  forall acc,
  fold_left (fun mx ab => let d := o_abs Z_ops (o_sub Z_ops (fst ab) (snd ab)) in
                          if o_ltb Z_ops mx d then d else mx) l acc =
  fold_left (fun mx ab => Z.max mx (Z.abs (fst ab - snd ab))) l acc.
Proof.
  induction l as [|x t IH]; intros acc; simpl.
  - reflexivity.
  - rewrite <- IH. simpl. f_equal.
    destruct (Z.ltb_spec acc (Z.abs (fst x - snd x))) as [Hlt|Hge]; lia.
Qed.

Lemma linf_unfold (a b : list Z) (trav : list nat) :
  linf_dist Z_ops a b trav =
  fold_left (fun mx ab => Z.max mx (Z.abs (fst ab - snd ab))) (zip_trav Z_ops a b trav) 0.
Proof. unfold linf_dist. apply linf_fold_max. Qed.

(* the pairs visited in logical order are the position-wise pairs *)
Lemma zip_seq_combine (a : list Z) :
  forall b, length a = length b ->
  map (fun p => (nth p a 0, nth p b 0)) (seq 0 (length a)) = combine a b.
Proof.
  induction a as [|x a IH]; intros b Hlen.
  - reflexivity.
  - destruct b as [|y b]; [discriminate Hlen|].
    simpl length. cbn [seq]. cbn [map nth combine]. f_equal.
    rewrite <- seq_shift, map_map. cbn [nth]. apply IH. simpl in Hlen. lia.
Qed.

Lemma zip_trav_perm (a b : list Z) (trav : list nat) :
  length a = length b -> Permutation trav (seq 0 (length a)) ->
  Permutation (zip_trav Z_ops a b trav) (combine a b).
Proof.
  intros Hlen HP. rewrite zip_trav_Z, <- (zip_seq_combine a b Hlen). now apply Permutation_map.
Qed.

(* ---------- D1: exact values, independent of the traversal ---------- *)
Section D.
Variables (a b : list Z) (n : nat).
Hypothesis Ha : length a = n.
Hypothesis Hb : length b = n.

Theorem sq_l2_Z (trav : list nat) :
  Permutation trav (seq 0 n) ->
  sq_l2_dist Z_ops a b trav =
  Zsum (map (fun ab => (fst ab - snd ab) * (fst ab - snd ab)) (combine a b)).
Proof.
  intros HP. rewrite sq_l2_unfold.
  rewrite (fold_left_add_perm _ _ (combine a b)).
  - now rewrite fold_left_add_gen.
  - apply zip_trav_perm; [congruence | now rewrite Ha].
Qed.

Theorem l1_Z (trav : list nat) :
  Permutation trav (seq 0 n) ->
  l1_dist Z_ops a b trav = Zsum (map (fun ab => Z.abs (fst ab - snd ab)) (combine a b)).
Proof.
  intros HP. rewrite l1_unfold.
  rewrite (fold_left_add_perm _ _ (combine a b)).
  - now rewrite fold_left_add_gen.
  - apply zip_trav_perm; [congruence | now rewrite Ha].
Qed.

Theorem linf_Z (trav : list nat) :
  Permutation trav (seq 0 n) ->
  linf_dist Z_ops a b trav =
  fold_right Z.max 0 (map (fun ab => Z.abs (fst ab - snd ab)) (combine a b)).
Proof.
  intros HP. rewrite linf_unfold.
  rewrite (fold_left_max_perm _ _ (combine a b)).
  - rewrite fold_left_max_gen. 
    pose proof (Zmaxl_nonneg (map (fun ab => Z.abs (fst ab - snd ab)) (combine a b))) as Hnn. lia.
  - apply zip_trav_perm; [congruence | now rewrite Ha].
Qed.

Corollary sq_l2_trav_indep (trav1 trav2 : list nat) :
  Permutation trav1 (seq 0 n) -> Permutation trav2 (seq 0 n) ->
  sq_l2_dist Z_ops a b trav1 = sq_l2_dist Z_ops a b trav2.
Proof. intros H1 H2. now rewrite (sq_l2_Z trav1 H1), (sq_l2_Z trav2 H2). Qed.

Corollary l1_trav_indep (trav1 trav2 : list nat) :
  Permutation trav1 (seq 0 n) -> Permutation trav2 (seq 0 n) ->
  l1_dist Z_ops a b trav1 = l1_dist Z_ops a b trav2.
Proof. intros H1 H2. now rewrite (l1_Z trav1 H1), (l1_Z trav2 H2). Qed.

Corollary linf_trav_indep (trav1 trav2 : list nat) :
  Permutation trav1 (seq 0 n) -> Permutation trav2 (seq 0 n) ->
  linf_dist Z_ops a b trav1 = linf_dist Z_ops a b trav2.
Proof. intros H1 H2. now rewrite (linf_Z trav1 H1), (linf_Z trav2 H2). Qed.
End D.

(* ---------- D2: symmetry and zero on the diagonal (any traversal, any lengths) ---------- *)
Theorem sq_l2_sym (a b : list Z) (trav : list nat) :
  sq_l2_dist Z_ops a b trav = sq_l2_dist Z_ops b a trav.
Proof.
  rewrite !sq_l2_unfold, !fold_left_add_gen, !zip_trav_Z, !map_map. do 2 f_equal.
  apply map_ext. intros p. simpl. lia.
Qed.

Theorem l1_sym (a b : list Z) (trav : list nat) :
  l1_dist Z_ops a b trav = l1_dist Z_ops b a trav.
Proof.
  rewrite !l1_unfold, !fold_left_add_gen, !zip_trav_Z, !map_map. do 2 f_equal.
  apply map_ext. intros p. simpl. lia.
Qed.

Theorem linf_sym (a b : list Z) (trav : list nat) :
  linf_dist Z_ops a b trav = linf_dist Z_ops b a trav.
Proof.
  rewrite !linf_unfold, !fold_left_max_gen, !zip_trav_Z, !map_map. f_equal.
  apply map_ext. intros p. simpl. lia.
Qed.

Lemma Zsum_zero {A : Type} (f : A -> Z) (l : list A) :
  (forall x, f x = 0) -> Zsum (map f l) = 0.
Proof. intros Hf. induction l as [|x t IH]; simpl; [reflexivity|]. rewrite Hf, IH. reflexivity. Qed.

Lemma Zmaxl_zero {A : Type} (f : A -> Z) (l : list A) :
  (forall x, f x = 0) -> Zmaxl (map f l) = 0.
Proof.
  intros Hf. induction l as [|x t IH]; simpl; [reflexivity|].
  rewrite Hf, IH. reflexivity.
Qed.

Theorem sq_l2_self (a : list Z) (trav : list nat) : sq_l2_dist Z_ops a a trav = 0.
Proof.
  rewrite sq_l2_unfold, fold_left_add_gen, zip_trav_Z, map_map, Zsum_zero; [reflexivity|].
  intros p. simpl. lia.
Qed.

Theorem l1_self (a : list Z) (trav : list nat) : l1_dist Z_ops a a trav = 0.
Proof.
  rewrite l1_unfold, fold_left_add_gen, zip_trav_Z, map_map, Zsum_zero; [reflexivity|].
  intros p. simpl. lia.
Qed.

Theorem linf_self (a : list Z) (trav : list nat) : linf_dist Z_ops a a trav = 0.
Proof.
  rewrite linf_unfold, fold_left_max_gen, zip_trav_Z, map_map, Zmaxl_zero; [reflexivity|].
  intros p. simpl. lia.
Qed.

(* ---------- D3: count_eq / count_neq ---------- *)
Definition count_eq (a b : list Z) : nat :=
  length (filter (fun ab => Z.eqb (fst ab) (snd ab)) (combine a b)).
Definition count_neq (a b : list Z) : nat := (length a - count_eq a b)%nat.

Lemma filter_length_split {A : Type} (f : A -> bool) (l : list A) :
  (length (filter f l) + length (filter (fun x => negb (f x)) l) = length l)%nat.
Proof.
  induction l as [|x t IH]; simpl; [reflexivity|].
  destruct (f x); simpl; lia.
Qed.

Theorem count_eq_le (a b : list Z) : length a = length b -> (count_eq a b <= length a)%nat.
Proof.
  intros Hlen. unfold count_eq.
  pose proof (filter_length_split (fun ab : Z * Z => Z.eqb (fst ab) (snd ab)) (combine a b)) as Hs.
  rewrite combine_length in Hs. lia.
Qed.

Theorem count_eq_neq (a b : list Z) :
  length a = length b -> (count_eq a b + count_neq a b = length a)%nat.
Proof. intros Hlen. pose proof (count_eq_le a b Hlen) as Hle. unfold count_neq. lia. Qed.

Theorem count_neq_filter (a b : list Z) :
  length a = length b ->
  count_neq a b = length (filter (fun ab => negb (Z.eqb (fst ab) (snd ab))) (combine a b)).
Proof.
  intros Hlen. unfold count_neq, count_eq.
  pose proof (filter_length_split (fun ab : Z * Z => Z.eqb (fst ab) (snd ab)) (combine a b)) as Hs.
  rewrite combine_length in Hs. lia.
Qed.

Theorem count_eq_self (a : list Z) : count_eq a a = length a.
Proof.
  unfold count_eq. induction a as [|x t IH]; simpl; [reflexivity|].
  rewrite Z.eqb_refl. simpl. now rewrite IH.
Qed.

Theorem count_neq_self (a : list Z) : count_neq a a = 0%nat.
Proof. unfold count_neq. rewrite count_eq_self. lia. Qed.

Theorem count_eq_sym (a : list Z) : forall b, count_eq a b = count_eq b a.
Proof.
  unfold count_eq. induction a as [|x t IH]; intros b.
  - destruct b; reflexivity.
  - destruct b as [|y b]; [reflexivity|]. simpl.
    rewrite (Z.eqb_sym y x). destruct (Z.eqb x y); simpl; now rewrite IH.
Qed.

(* ---------- D4: non-negativity, linf <= l1 ---------- *)
Lemma Zsum_nonneg {A : Type} (f : A -> Z) (l : list A) :
  (forall x, 0 <= f x) -> 0 <= Zsum (map f l).
Proof.
  intros Hf. induction l as [|x t IH]; simpl; [lia|]. pose proof (Hf x) as Hx. lia.
Qed.

Theorem sq_l2_nonneg (a b : list Z) (trav : list nat) : 0 <= sq_l2_dist Z_ops a b trav.
Proof.
  rewrite sq_l2_unfold, fold_left_add_gen.
  pose proof (Zsum_nonneg (fun ab : Z * Z => (fst ab - snd ab) * (fst ab - snd ab))
                (zip_trav Z_ops a b trav)) as Hnn.
  assert (Hsq : forall x : Z * Z, 0 <= (fst x - snd x) * (fst x - snd x)) by (intros x; apply Z.square_nonneg).
  specialize (Hnn Hsq). lia.
Qed.

Theorem l1_nonneg (a b : list Z) (trav : list nat) : 0 <= l1_dist Z_ops a b trav.
Proof.
  rewrite l1_unfold, fold_left_add_gen.
  pose proof (Zsum_nonneg (fun ab : Z * Z => Z.abs (fst ab - snd ab)) (zip_trav Z_ops a b trav)) as Hnn.
  assert (Hab : forall x : Z * Z, 0 <= Z.abs (fst x - snd x)) by (intros x; lia).
  specialize (Hnn Hab). lia.
Qed.

Theorem linf_nonneg (a b : list Z) (trav : list nat) : 0 <= linf_dist Z_ops a b trav.
Proof.
  rewrite linf_unfold, fold_left_max_gen. apply Zmaxl_nonneg.
Qed.

Lemma Zmaxl_le_Zsum {A : Type} (f : A -> Z) (l : list A) :
  (forall x, 0 <= f x) -> Zmaxl (map f l) <= Zsum (map f l).
Proof.
  intros Hf. induction l as [|x t IH]; simpl; [lia|].
  pose proof (Hf x) as Hx.
  pose proof (Zsum_nonneg f t Hf) as Hs. lia.
Qed.

Theorem linf_le_l1 (a b : list Z) (trav : list nat) :
  linf_dist Z_ops a b trav <= l1_dist Z_ops a b trav.
Proof.
  rewrite linf_unfold, l1_unfold, fold_left_max_gen, fold_left_add_gen.
  pose proof (Zmaxl_le_Zsum (fun ab : Z * Z => Z.abs (fst ab - snd ab)) (zip_trav Z_ops a b trav)) as Hle.
  assert (Hab : forall x : Z * Z, 0 <= Z.abs (fst x - snd x)) by (intros x; lia).
  specialize (Hle Hab).
  pose proof (Zmaxl_nonneg (map (fun ab : Z * Z => Z.abs (fst ab - snd ab)) (zip_trav Z_ops a b trav))) as Hnn.
  lia.
Qed.

Print Assumptions sq_l2_Z.
Print Assumptions l1_Z.
Print Assumptions linf_Z.
Print Assumptions sq_l2_trav_indep.
Print Assumptions l1_trav_indep.
Print Assumptions linf_trav_indep.
Print Assumptions sq_l2_sym.
Print Assumptions l1_sym.
Print Assumptions linf_sym.
Print Assumptions sq_l2_self.
Print Assumptions l1_self.
Print Assumptions linf_self.
Print Assumptions count_eq_neq.
Print Assumptions count_neq_filter.
Print Assumptions count_eq_self.
Print Assumptions count_eq_sym.
Print Assumptions sq_l2_nonneg.
Print Assumptions l1_nonneg.
Print Assumptions linf_nonneg.
Print Assumptions linf_le_l1.
