(* Transfer of the summation-tree error bound (Num/SumError.v, Num/SumBridge.v) to the
   executable binary64 kernels of Num/Kernels.v instantiated at Num/F64Inst.v:
   sequential fold, ndarray's 8-way unrolled fold, ArrayBase::sum under any plan,
   the weighted sum and the mean. *)
From Flocq Require Import Core BinarySingleNaN Plus_error Relative.
Require Import Reals Lra Lia Psatz List ZArith Permutation Bool.
From NS Require Import Num.F64 Num.Ops Num.F64Inst Num.Kernels Num.SumError Num.SumBridge.
From NS Require Import Quantile.IndexProofs.
Import ListNotations.
Open Scope R_scope.

Lemma div8_step n : (S (S (S (S (S (S (S (S n))))))) / 8 = S (n / 8))%nat.
Proof. change (S (S (S (S (S (S (S (S n)))))))) with (1 * 8 + n)%nat. rewrite Nat.div_add_l by lia. lia. Qed.
Lemma div8_le n : (n / 8 <= n)%nat.
Proof. apply Nat.div_le_upper_bound; lia. Qed.

Notation B2R := (@BinarySingleNaN.B2R 53 1024).
Notation ft := (ftree 53 1024).
Notation fev := (feval 53 1024 Hprec64 Hmax64).
Notation tR := (toR 53 1024).
Notation fin := (@BinarySingleNaN.is_finite 53 1024).

(* ------------------------------------------------------------------ *)
(* Real sums, the unit roundoff, g                                     *)
(* ------------------------------------------------------------------ *)
Definition Rsum (l : list R) : R := fold_right Rplus 0 l.
Definition Rasum (l : list R) : R := fold_right (fun x s => Rabs x + s) 0 l.

Definition u64 : R := bpow radix2 (-53).
Definition eta64 : R := bpow radix2 (-1075).
Definition g64 (k : nat) : R := (1 + u64) ^ k - 1.

Lemma u64_eq : u64 = SumError.u 53.
Proof.
  unfold u64, SumError.u, u_ro. change (-53)%Z with (-1 + (-53 + 1))%Z.
  rewrite bpow_plus. change (bpow radix2 (-1)) with (/ 2). reflexivity.
Qed.
Lemma g64_eq k : g64 k = SumError.g 53 k.
Proof. unfold g64, SumError.g. rewrite u64_eq. reflexivity. Qed.
Lemma eta64_eq : eta64 = / 2 * bpow radix2 (-1074).
Proof.
  unfold eta64. change (-1075)%Z with (-1 + -1074)%Z.
  rewrite bpow_plus. change (bpow radix2 (-1)) with (/ 2). reflexivity.
Qed.
Lemma u64_pos : 0 < u64. Proof. apply bpow_gt_0. Qed.
Lemma eta64_pos : 0 < eta64. Proof. apply bpow_gt_0. Qed.
Lemma g64_mono a b : (a <= b)%nat -> g64 a <= g64 b.
Proof. rewrite !g64_eq. apply g_mono. Qed.
Lemma g64_nonneg k : 0 <= g64 k.
Proof. rewrite g64_eq. apply g_nonneg. Qed.
Lemma g64_S k : g64 (S k) = g64 k * (1 + u64) + u64.
Proof. unfold g64. simpl. ring. Qed.

Lemma Rsum_app a b : Rsum (a ++ b) = Rsum a + Rsum b.
Proof. induction a as [|x a IH]; simpl; [lra|]. unfold Rsum in *. simpl. rewrite IH. lra. Qed.
Lemma Rasum_app a b : Rasum (a ++ b) = Rasum a + Rasum b.
Proof. induction a as [|x a IH]; simpl; [unfold Rasum; simpl; lra|]. unfold Rasum in *. simpl. rewrite IH. lra. Qed.
Lemma Rsum_cons x a : Rsum (x :: a) = x + Rsum a. Proof. reflexivity. Qed.
Lemma Rasum_cons x a : Rasum (x :: a) = Rabs x + Rasum a. Proof. reflexivity. Qed.
Lemma Rsum_perm a b : Permutation a b -> Rsum a = Rsum b.
Proof. intros P. induction P as [|x a b P IH|x y a|a b c P1 IH1 P2 IH2]; rewrite ?Rsum_cons; try lra. Qed.
Lemma Rasum_perm a b : Permutation a b -> Rasum a = Rasum b.
Proof. intros P. induction P as [|x a b P IH|x y a|a b c P1 IH1 P2 IH2]; rewrite ?Rasum_cons; try lra. Qed.
Lemma Rasum_nonneg a : 0 <= Rasum a.
Proof. induction a as [|x a IH]; [unfold Rasum; simpl; lra|]. rewrite Rasum_cons. pose proof (Rabs_pos x). lra. Qed.
Lemma Rsum_le_Rasum a : Rabs (Rsum a) <= Rasum a.
Proof.
  induction a as [|x a IH]; [unfold Rsum, Rasum; simpl; rewrite Rabs_R0; lra|].
  rewrite Rsum_cons, Rasum_cons. eapply Rle_trans; [apply Rabs_triang|]. lra.
Qed.

(* ------------------------------------------------------------------ *)
(* Trees of binary64 numbers: leaves, height                           *)
(* ------------------------------------------------------------------ *)
Fixpoint fleaves (t : ft) : list F64 :=
  match t with FLeaf _ _ x => [x] | FNode _ _ l r => fleaves l ++ fleaves r end.
Fixpoint fheight (t : ft) : nat :=
  match t with FLeaf _ _ _ => O | FNode _ _ l r => S (Nat.max (fheight l) (fheight r)) end.

Lemma fev_node l r : fev (FNode _ _ l r) = fadd (fev l) (fev r).
Proof. reflexivity. Qed.
Lemma fev_leaf x : fev (FLeaf _ _ x) = x.
Proof. reflexivity. Qed.

Lemma height_toR t : height (tR t) = fheight t.
Proof. induction t as [x|l IHl r IHr]; simpl; [reflexivity|]. rewrite IHl, IHr. reflexivity. Qed.
Lemma exact_toR t : exact (tR t) = Rsum (map B2R (fleaves t)).
Proof.
  induction t as [x|l IHl r IHr]; simpl.
  - unfold Rsum. simpl. lra.
  - rewrite map_app, Rsum_app, IHl, IHr. reflexivity.
Qed.
Lemma asum_toR t : asum (tR t) = Rasum (map B2R (fleaves t)).
Proof.
  induction t as [x|l IHl r IHr]; simpl.
  - unfold Rasum. simpl. lra.
  - rewrite map_app, Rasum_app, IHl, IHr. reflexivity.
Qed.

(* the tree bound at binary64, in terms of the leaves *)
Theorem ftree_error (t : ft) : fin (fev t) = true ->
  Rabs (B2R (fev t) - Rsum (map B2R (fleaves t))) <= g64 (fheight t) * Rasum (map B2R (fleaves t)).
Proof.
  intros Hf.
  destruct (feval_correct 53 1024 Hprec64 Hmax64 t Hf) as [E L].
  pose proof (sum_tree_error _ 53 Hprec64 _ L) as B.
  rewrite <- E, exact_toR, asum_toR, height_toR, <- g64_eq in B. exact B.
Qed.

Lemma B2R_fzero : B2R fzero = 0. Proof. reflexivity. Qed.
Lemma Rsum_zeros k : Rsum (map B2R (repeat fzero k)) = 0.
Proof. induction k as [|k IH]; cbn [repeat map]; [reflexivity|]. rewrite Rsum_cons, IH, B2R_fzero. lra. Qed.
Lemma Rasum_zeros k : Rasum (map B2R (repeat fzero k)) = 0.
Proof. induction k as [|k IH]; cbn [repeat map]; [reflexivity|]. rewrite Rasum_cons, IH, B2R_fzero, Rabs_R0. lra. Qed.

(* [v] is the value of a summation tree over the multiset xs + k zeros, of height <= h *)
Definition sum_tree_for (v : F64) (xs : list F64) (k h : nat) : Prop :=
  exists t : ft, v = fev t /\ Permutation (fleaves t) (repeat fzero k ++ xs) /\ (fheight t <= h)%nat.

Theorem sum_tree_for_error v xs k h : sum_tree_for v xs k h -> fin v = true ->
  Rabs (B2R v - Rsum (map B2R xs)) <= g64 h * Rasum (map B2R xs).
Proof.
  intros (t & Ev & P & Hh) Hf. subst v.
  pose proof (ftree_error t Hf) as B.
  pose proof (Permutation_map B2R P) as PR.
  rewrite (Rsum_perm _ _ PR), (Rasum_perm _ _ PR) in B.
  rewrite map_app, Rsum_app, Rasum_app, Rsum_zeros, Rasum_zeros, !Rplus_0_l in B.
  eapply Rle_trans; [exact B|].
  apply Rmult_le_compat_r; [apply Rasum_nonneg|]. apply g64_mono. exact Hh.
Qed.

(* ------------------------------------------------------------------ *)
(* F1. Sequential fold                                                 *)
(* ------------------------------------------------------------------ *)
Fixpoint seq_tree (acc : ft) (xs : list F64) : ft :=
  match xs with [] => acc | x :: r => seq_tree (FNode _ _ acc (FLeaf _ _ x)) r end.

Lemma seq_tree_eval xs : forall acc, fold_left fadd xs (fev acc) = fev (seq_tree acc xs).
Proof.
  induction xs as [|x xs IH]; intros acc; [reflexivity|].
  cbn [fold_left seq_tree]. rewrite <- IH. reflexivity.
Qed.
Lemma seq_tree_leaves xs : forall acc, fleaves (seq_tree acc xs) = fleaves acc ++ xs.
Proof.
  induction xs as [|x xs IH]; intros acc; cbn [seq_tree]; [rewrite app_nil_r; reflexivity|].
  rewrite IH. cbn [fleaves]. rewrite <- app_assoc. reflexivity.
Qed.
Lemma seq_tree_height xs : forall acc, fheight (seq_tree acc xs) = (fheight acc + length xs)%nat.
Proof.
  induction xs as [|x xs IH]; intros acc; cbn [seq_tree length]; [lia|].
  rewrite IH. cbn [fheight]. lia.
Qed.

Lemma fold_sum_tree xs : sum_tree_for (fold_left fadd xs fzero) xs 1 (length xs).
Proof.
  exists (seq_tree (FLeaf _ _ fzero) xs). split; [|split].
  - rewrite <- seq_tree_eval. reflexivity.
  - rewrite seq_tree_leaves. apply Permutation_refl.
  - rewrite seq_tree_height. cbn [fheight]. lia.
Qed.

Theorem fold_sum_error xs : fin (fold_left fadd xs fzero) = true ->
  Rabs (B2R (fold_left fadd xs fzero) - Rsum (map B2R xs)) <= g64 (length xs) * Rasum (map B2R xs).
Proof. apply sum_tree_for_error with (k := 1%nat). apply fold_sum_tree. Qed.

(* a sequential fold whose summands are themselves trees *)
Fixpoint seq_treeT (acc : ft) (ts : list ft) : ft :=
  match ts with [] => acc | t :: r => seq_treeT (FNode _ _ acc t) r end.
Lemma seq_treeT_eval ts : forall acc, fold_left fadd (map fev ts) (fev acc) = fev (seq_treeT acc ts).
Proof.
  induction ts as [|t ts IH]; intros acc; [reflexivity|].
  cbn [fold_left seq_treeT map]. rewrite <- IH. reflexivity.
Qed.
Lemma seq_treeT_leaves ts : forall acc, fleaves (seq_treeT acc ts) = fleaves acc ++ concat (map fleaves ts).
Proof.
  induction ts as [|t ts IH]; intros acc; cbn [seq_treeT map concat]; [rewrite app_nil_r; reflexivity|].
  rewrite IH. cbn [fleaves]. rewrite <- app_assoc. reflexivity.
Qed.
Lemma seq_treeT_height H ts : Forall (fun t => (fheight t <= H)%nat) ts ->
  forall acc, (fheight (seq_treeT acc ts) <= Nat.max (fheight acc) H + length ts)%nat.
Proof.
  intros HF. induction HF as [|t ts Ht HF IH]; intros acc; cbn [seq_treeT length]; [lia|].
  eapply Nat.le_trans; [apply IH|]. cbn [fheight]. lia.
Qed.

(* ------------------------------------------------------------------ *)
(* F2. The 8-way unrolled fold                                         *)
(* ------------------------------------------------------------------ *)
Section Kern.
Variables lt et : list (Z * Z).
Let O := f64_ops lt et.

Lemma O_add : o_add O = fadd. Proof. reflexivity. Qed.
Lemma O_zero : o_zero O = fzero. Proof. reflexivity. Qed.
Lemma O_mul : o_mul O = fmul. Proof. reflexivity. Qed.

(* one lane step: p_i + x_i *)
Fixpoint zip_app (ls : list (list F64)) (xs : list F64) : list (list F64) :=
  match ls, xs with
  | l :: ls', x :: xs' => (l ++ [x]) :: zip_app ls' xs'
  | _, _ => []
  end.
Lemma zip_app_perm ls : forall xs, length ls = length xs ->
  Permutation (concat (zip_app ls xs)) (concat ls ++ xs).
Proof.
  induction ls as [|l ls IH]; intros [|x xs] HL; try discriminate; cbn [zip_app concat app]; [constructor|].
  rewrite <- !app_assoc. apply Permutation_app_head. cbn [app].
  eapply Permutation_trans; [|apply Permutation_middle].
  constructor. apply IH. cbn [length] in HL. lia.
Qed.

Lemma perm_pull (a X Y L : list F64) : Permutation L (X ++ Y) -> Permutation (a ++ L) (X ++ a ++ Y).
Proof.
  intros H. eapply Permutation_trans; [apply Permutation_app_head; exact H|].
  rewrite !app_assoc. apply Permutation_app_tail. apply Permutation_app_comm.
Qed.
Lemma perm_pull2 (a x1 x2 Y L : list F64) :
  Permutation L (x1 ++ x2 ++ Y) -> Permutation (a ++ L) (x1 ++ x2 ++ a ++ Y).
Proof. intros H. pose proof (perm_pull a (x1 ++ x2) Y L) as Q. rewrite <- !app_assoc in Q. apply Q. exact H. Qed.
Lemma perm_pull3 (a x1 x2 x3 Y L : list F64) :
  Permutation L (x1 ++ x2 ++ x3 ++ Y) -> Permutation (a ++ L) (x1 ++ x2 ++ x3 ++ a ++ Y).
Proof. intros H. pose proof (perm_pull a (x1 ++ x2 ++ x3) Y L) as Q. rewrite <- !app_assoc in Q. apply Q. exact H. Qed.

Lemma unrolled_loop_spec fuel : forall (xs : list F64) (ps : list ft), length ps = 8%nat ->
  exists (qs : list ft) (rest : list F64),
    unrolled_loop O fuel xs (map fev ps) = (map fev qs, rest) /\
    length qs = 8%nat /\
    Permutation (concat (map fleaves qs) ++ rest) (concat (map fleaves ps) ++ xs) /\
    (forall H, Forall (fun t => (fheight t <= H)%nat) ps ->
               Forall (fun t => (fheight t <= H + length xs / 8)%nat) qs) /\
    ((length xs < 8 * fuel + 8)%nat -> (length rest < 8)%nat).
Proof.
  induction fuel as [|f IH]; intros xs ps Lp.
  - exists ps, xs. split; [reflexivity|]. split; [exact Lp|]. split; [apply Permutation_refl|]. split.
    + intros H HF. eapply Forall_impl; [|exact HF]. intros t Ht. cbv beta in *. lia.
    + intros HL. lia.
  - assert (Short : (length xs < 8)%nat ->
      exists (qs : list ft) (rest : list F64),
        unrolled_loop O (S f) xs (map fev ps) = (map fev qs, rest) /\
        length qs = 8%nat /\
        Permutation (concat (map fleaves qs) ++ rest) (concat (map fleaves ps) ++ xs) /\
        (forall H, Forall (fun t => (fheight t <= H)%nat) ps ->
                   Forall (fun t => (fheight t <= H + length xs / 8)%nat) qs) /\
        ((length xs < 8 * S f + 8)%nat -> (length rest < 8)%nat)).
    { intros HS. exists ps, xs. split.
      - destruct xs as [|x0 [|x1 [|x2 [|x3 [|x4 [|x5 [|x6 [|x7 rest]]]]]]]]; try reflexivity.
        cbn [length] in HS. lia.
      - split; [exact Lp|]. split; [apply Permutation_refl|]. split.
        + intros H HF. eapply Forall_impl; [|exact HF]. intros t Ht. cbv beta in *. lia.
        + intros _. exact HS. }
    destruct xs as [|x0 [|x1 [|x2 [|x3 [|x4 [|x5 [|x6 [|x7 rest]]]]]]]];
      try (apply Short; cbn [length]; lia).
    clear Short.
    destruct ps as [|p0 [|p1 [|p2 [|p3 [|p4 [|p5 [|p6 [|p7 [|p8 ps]]]]]]]]]; try discriminate Lp.
    set (ps' := [FNode _ _ p0 (FLeaf _ _ x0); FNode _ _ p1 (FLeaf _ _ x1); FNode _ _ p2 (FLeaf _ _ x2);
                 FNode _ _ p3 (FLeaf _ _ x3); FNode _ _ p4 (FLeaf _ _ x4); FNode _ _ p5 (FLeaf _ _ x5);
                 FNode _ _ p6 (FLeaf _ _ x6); FNode _ _ p7 (FLeaf _ _ x7)]).
    destruct (IH rest ps' eq_refl) as (qs & rest' & E & Lq & P & HH & HR).
    exists qs, rest'. split; [|split; [exact Lq|split; [|split]]].
    + cbn [unrolled_loop map]. rewrite O_add. exact E.
    + eapply Permutation_trans; [exact P|].
      change (concat (map fleaves ps')) with
        (concat (zip_app [fleaves p0; fleaves p1; fleaves p2; fleaves p3; fleaves p4; fleaves p5; fleaves p6; fleaves p7]
                         [x0; x1; x2; x3; x4; x5; x6; x7])).
      eapply Permutation_trans; [apply Permutation_app_tail; apply zip_app_perm; reflexivity|].
      rewrite <- app_assoc. apply Permutation_refl.
    + intros H HF.
      assert (HF' : Forall (fun t => (fheight t <= S H)%nat) ps').
      { unfold ps'.
        repeat match goal with HF : Forall _ (_ :: _) |- _ => inversion HF; clear HF; subst end.
        repeat (apply Forall_cons; [cbn [fheight]; lia|]). apply Forall_nil. }
      specialize (HH _ HF'). eapply Forall_impl; [|exact HH]. intros t Ht. cbv beta in *.
      cbn [length]. rewrite div8_step. lia.
    + intros HL. apply HR. cbn [length] in HL. lia.
Qed.

Theorem unrolled_sum_tree xs : sum_tree_for (unrolled_sum O xs) xs 9 (length xs / 8 + 12).
Proof.
  unfold unrolled_sum, sum_tree_for.
  set (z := FLeaf 53 1024 fzero).
  destruct (unrolled_loop_spec (length xs) xs [z; z; z; z; z; z; z; z] eq_refl)
    as (qs & rest & E & Lq & P & HH & HR).
  change (unrolled_loop O (length xs) xs
            [o_zero O; o_zero O; o_zero O; o_zero O; o_zero O; o_zero O; o_zero O; o_zero O])
    with (unrolled_loop O (length xs) xs (map fev [z; z; z; z; z; z; z; z])).
  rewrite E.
  destruct qs as [|p0 [|p1 [|p2 [|p3 [|p4 [|p5 [|p6 [|p7 [|p8 qs]]]]]]]]]; try discriminate Lq.
  cbn [map].
  set (T := FNode _ _ (FNode _ _ (FNode _ _ (FNode _ _ z (FNode _ _ p0 p4)) (FNode _ _ p1 p5)) (FNode _ _ p2 p6)) (FNode _ _ p3 p7)).
  exists (seq_tree T rest). split; [|split].
  - rewrite <- seq_tree_eval. reflexivity.
  - rewrite seq_tree_leaves. unfold T. cbn [fleaves].
    cbn [map concat] in P. rewrite app_nil_r in P. cbn [app] in P.
    change (repeat fzero 9) with (fzero :: repeat fzero 8). cbn [app].
    rewrite <- !app_assoc. cbn [app]. constructor.
    eapply Permutation_trans; [|exact P].
    rewrite <- !app_assoc.
    (* reorder p0 p4 p1 p5 p2 p6 p3 p7 -> p0..p7 *)
    apply Permutation_app_head.
    apply perm_pull3. apply Permutation_app_head.
    apply perm_pull2. apply Permutation_app_head.
    apply perm_pull. apply Permutation_refl.
  - assert (HZ : Forall (fun t : ft => (fheight t <= 0)%nat) [z; z; z; z; z; z; z; z]).
    { repeat (apply Forall_cons; [unfold z; cbn [fheight]; lia|]). apply Forall_nil. }
    pose proof (HH _ HZ) as HQ. cbn [plus] in HQ.
    repeat match goal with HF : Forall _ (_ :: _) |- _ => inversion HF; clear HF; subst end.
    assert (HR' : (length rest < 8)%nat) by (apply HR; lia).
    rewrite seq_tree_height. unfold T, z. cbn [fheight]. lia.
Qed.

Theorem unrolled_sum_error_tight xs : fin (unrolled_sum O xs) = true ->
  Rabs (B2R (unrolled_sum O xs) - Rsum (map B2R xs)) <= g64 (length xs / 8 + 12) * Rasum (map B2R xs).
Proof. apply sum_tree_for_error with (k := 9%nat). apply unrolled_sum_tree. Qed.

Theorem unrolled_sum_error xs : fin (unrolled_sum O xs) = true ->
  Rabs (B2R (unrolled_sum O xs) - Rsum (map B2R xs)) <= g64 (length xs + 12) * Rasum (map B2R xs).
Proof.
  intros Hf. eapply Rle_trans; [apply unrolled_sum_error_tight; exact Hf|].
  apply Rmult_le_compat_r; [apply Rasum_nonneg|]. apply g64_mono. pose proof (div8_le (length xs)). lia.
Qed.

(* ------------------------------------------------------------------ *)
(* F3. ArrayBase::sum under any plan                                   *)
(* ------------------------------------------------------------------ *)
Definition plan_positions (pl : plan) : list nat :=
  match pl with PMem order => order | PRows rows => concat (map snd rows) end.
Definition plan_ok (pl : plan) (n : nat) : Prop := Permutation (plan_positions pl) (seq 0 n).

Lemma pick_all_id (data : list F64) : pick_all O data (seq 0 (length data)) = data.
Proof.
  unfold pick_all. induction data as [|x data IH]; [reflexivity|].
  cbn [length seq map nth]. f_equal. rewrite <- seq_shift, map_map. cbn [nth]. exact IH.
Qed.
Lemma pick_all_perm (data : list F64) ps : Permutation ps (seq 0 (length data)) ->
  Permutation (pick_all O data ps) data.
Proof.
  intros P. rewrite <- (pick_all_id data) at 2. unfold pick_all. apply Permutation_map. exact P.
Qed.

(* the accumulator of a fold started at +0 is never -0, so adding the +0 sum of an empty row
   leaves it unchanged *)
Definition mzero : F64 := B754_zero true.

Lemma fadd_fzero_r (s : F64) : s <> mzero -> fadd s fzero = s.
Proof.
  intros Hs. destruct s as [[|]| [|] | |sx mx ex Hx]; try reflexivity. elim Hs. reflexivity.
Qed.

Lemma B2R_finite_neg (m : positive) (e : Z) H : B2R (B754_finite true m e H) < 0.
Proof. unfold BinarySingleNaN.B2R. apply F2R_lt_0. simpl. lia. Qed.

Lemma fadd_nz (s y : F64) : s <> mzero -> fadd s y <> mzero.
Proof.
  intros Hs E.
  destruct s as [sx|sx| |sx mx ex Hx], y as [sy|sy| |sy my ey Hy];
    try (unfold fadd in E; cbn [Bplus] in E; discriminate E).
  - unfold fadd in E. cbn [Bplus] in E. destruct sx, sy; cbn [Bool.eqb] in E; try discriminate E.
    elim Hs. reflexivity.
  - unfold fadd in E. cbn [Bplus] in E. destruct (Bool.eqb sx sy); discriminate E.
  - set (x := B754_finite sx mx ex Hx) in *. set (y := B754_finite sy my ey Hy) in *.
    pose proof (Bplus_correct 53 1024 Hprec64 Hmax64 mode_NE x y eq_refl eq_refl) as C.
    fold (fadd x y) in C. rewrite E in C.
    destruct (Rlt_bool _ _) in C.
    + destruct C as (C1 & _ & C3).
      change (B2R mzero) with 0 in C1. change (Bsign mzero) with true in C3.
      destruct (rnd_plus (-1074) 53 Hprec64 (B2R x) (B2R y)) as (e & He & Ee).
      { apply (generic_format_B2R 53 1024 x). }
      { apply (generic_format_B2R 53 1024 y). }
      unfold rnd in Ee. cbn [round_mode] in C1.
      assert (Z0 : B2R x + B2R y = 0).
      { assert (U : SumError.u 53 < 1) by (rewrite <- u64_eq; unfold u64; apply (bpow_lt radix2 (-53) 0); lia).
        assert (P : (B2R x + B2R y) * (1 + e) = 0).
        { rewrite <- Ee. symmetry. exact C1. }
        apply Rabs_le_inv in He. destruct (Rmult_integral _ _ P) as [Q|Q]; [exact Q|lra]. }
      rewrite Z0, Rcompare_Eq in C3 by reflexivity.
      symmetry in C3. apply andb_true_iff in C3. destruct C3 as [Sx Sy].
      unfold x, y in Sx, Sy. cbn [Bsign] in Sx, Sy. subst sx sy.
      pose proof (B2R_finite_neg mx ex Hx). pose proof (B2R_finite_neg my ey Hy).
      unfold x, y in Z0. lra.
    + destruct C as [C _]. unfold mzero in C. cbn [B2SF] in C.
      unfold binary_overflow in C. cbn [overflow_to_inf] in C. discriminate C.
Qed.

Lemma fold_left_fun_map {A B C} (f : A -> C -> A) (h : B -> C) l : forall a,
  fold_left (fun s r => f s (h r)) l a = fold_left f (map h l) a.
Proof. induction l as [|x l IH]; intros a; [reflexivity|]. cbn [fold_left map]. apply IH. Qed.

Definition row_sum (data : list F64) (r : bool * list nat) : F64 :=
  if fst r then unrolled_sum O (pick_all O data (snd r))
  else fold_left fadd (pick_all O data (snd r)) fzero.
Definition row_nonempty (r : bool * list nat) : bool :=
  match snd r with [] => false | _ => true end.

Lemma nd_sum_rows rows data : nd_sum O (PRows rows) data = fold_left fadd (map (row_sum data) rows) fzero.
Proof.
  unfold nd_sum. rewrite <- (fold_left_fun_map fadd (row_sum data)). reflexivity.
Qed.

Lemma unrolled_sum_nil : unrolled_sum O [] = fzero.
Proof. vm_compute. reflexivity. Qed.

Lemma row_sum_empty data r : row_nonempty r = false -> row_sum data r = fzero.
Proof.
  unfold row_nonempty, row_sum. destruct r as [b [|p ps]]; cbn [fst snd]; [intros _|discriminate].
  destruct b; [exact unrolled_sum_nil | reflexivity].
Qed.

Lemma fold_skip_empty data rows : forall s, s <> mzero ->
  fold_left fadd (map (row_sum data) rows) s =
  fold_left fadd (map (row_sum data) (filter row_nonempty rows)) s.
Proof.
  induction rows as [|r rows IH]; intros s Hs; [reflexivity|].
  cbn [map fold_left filter]. destruct (row_nonempty r) eqn:Er.
  - cbn [map fold_left]. apply IH. apply fadd_nz. exact Hs.
  - rewrite (row_sum_empty data r Er), (fadd_fzero_r s Hs). apply IH. exact Hs.
Qed.

Lemma concat_filter_nonempty rows :
  concat (map snd (filter row_nonempty rows)) = concat (map (@snd bool (list nat)) rows).
Proof.
  induction rows as [|[b [|p ps]] rows IH]; [reflexivity| |].
  - cbn [filter row_nonempty snd map concat app]. exact IH.
  - unfold filter at 1. fold (filter row_nonempty rows). unfold row_nonempty at 1. cbn [snd map concat]. rewrite IH. reflexivity.
Qed.

Lemma rows_len_bound (xss : list (list nat)) : Forall (fun l => (1 <= length l)%nat) xss ->
  (length xss <= length (concat xss))%nat /\
  (list_max (map (@length nat) xss) + length xss <= length (concat xss) + 1)%nat.
Proof.
  intros HF. induction HF as [|l xss Hl HF [IH1 IH2]]; [cbn; lia|].
  cbn [map list_max concat length fold_right]. rewrite app_length.
  change (fold_right Nat.max 0%nat (map (@length nat) xss)) with (list_max (map (@length nat) xss)).
  split; lia.
Qed.

Lemma row_sum_tree data r : exists k,
  sum_tree_for (row_sum data r) (pick_all O data (snd r)) k (length (snd r) + 12).
Proof.
  unfold row_sum. assert (EL : length (pick_all O data (snd r)) = length (snd r)) by apply map_length.
  destruct (fst r).
  - exists 9%nat. destruct (unrolled_sum_tree (pick_all O data (snd r))) as (t & E & P & H).
    exists t. split; [exact E|]. split; [exact P|]. rewrite EL in H.
    pose proof (div8_le (length (snd r))). lia.
  - exists 1%nat. destruct (fold_sum_tree (pick_all O data (snd r))) as (t & E & P & H).
    exists t. split; [exact E|]. split; [exact P|]. rewrite EL in H. lia.
Qed.

Lemma rows_trees data H rows : Forall (fun r => (length (snd r) + 12 <= H)%nat) rows ->
  exists (ts : list ft) (K : nat),
    map fev ts = map (row_sum data) rows /\
    Permutation (concat (map fleaves ts)) (repeat fzero K ++ pick_all O data (concat (map snd rows))) /\
    Forall (fun t => (fheight t <= H)%nat) ts.
Proof.
  intros HF. induction HF as [|r rows Hr HF IH].
  - exists [], 0%nat. split; [reflexivity|]. split; [apply Permutation_refl|constructor].
  - destruct IH as (ts & K & E & P & Hh).
    destruct (row_sum_tree data r) as (k & t & Et & Pt & Ht).
    exists (t :: ts), (k + K)%nat. split; [|split].
    + cbn [map]. rewrite E, <- Et. reflexivity.
    + cbn [map concat]. unfold pick_all at 1. rewrite map_app. fold (pick_all O data (snd r)).
      fold (pick_all O data (concat (map snd rows))).
      rewrite repeat_app, <- !app_assoc.
      eapply Permutation_trans; [apply Permutation_app; [exact Pt|exact P]|].
      rewrite <- !app_assoc. apply Permutation_app_head. apply Permutation_app_swap_app.
    + constructor; [lia|exact Hh].
Qed.

Theorem nd_sum_tree pl data : plan_ok pl (length data) ->
  exists k, sum_tree_for (nd_sum O pl data) data k (length data + 13).
Proof.
  unfold plan_ok. destruct pl as [order|rows]; cbn [plan_positions]; intros P.
  - exists 9%nat. cbn [nd_sum].
    destruct (unrolled_sum_tree (pick_all O data order)) as (t & E & Pt & H).
    exists t. split; [exact E|]. split.
    + eapply Permutation_trans; [exact Pt|]. apply Permutation_app_head. apply pick_all_perm. exact P.
    + unfold pick_all in H. rewrite map_length in H.
      pose proof (Permutation_length P) as L. rewrite seq_length in L.
      pose proof (div8_le (length order)). lia.
  - rewrite nd_sum_rows, fold_skip_empty by discriminate.
    set (rows' := filter row_nonempty rows).
    assert (NE : Forall (fun l => (1 <= length l)%nat) (map snd rows')).
    { apply Forall_forall. intros l Hl. apply in_map_iff in Hl. destruct Hl as (r & <- & Hr).
      apply filter_In in Hr. destruct Hr as [_ Hr]. unfold row_nonempty in Hr.
      destruct (snd r); [discriminate|cbn [length]; lia]. }
    destruct (rows_len_bound _ NE) as [B1 B2].
    assert (LC : length (concat (map snd rows')) = length data).
    { unfold rows'. rewrite concat_filter_nonempty. pose proof (Permutation_length P) as L.
      rewrite seq_length in L. exact L. }
    rewrite LC, map_length in B1, B2.
    set (H := (list_max (map (@length nat) (map snd rows')) + 12)%nat).
    assert (HF : Forall (fun r => (length (snd r) + 12 <= H)%nat) rows').
    { apply Forall_forall. intros r Hr. unfold H.
      pose proof (proj1 (list_max_le (map (@length nat) (map snd rows')) _) (le_n _)) as Q.
      rewrite Forall_forall in Q. specialize (Q (length (snd r))).
      assert (In (length (snd r)) (map (@length nat) (map snd rows'))).
      { apply in_map. apply in_map. exact Hr. }
      specialize (Q H0). lia. }
    destruct (rows_trees data H rows' HF) as (ts & K & E & Pt & Hh).
    exists (S K). exists (seq_treeT (FLeaf _ _ fzero) ts). split; [|split].
    + rewrite <- seq_treeT_eval, E. reflexivity.
    + rewrite seq_treeT_leaves. cbn [fleaves repeat app]. constructor.
      eapply Permutation_trans; [exact Pt|]. apply Permutation_app_head.
      unfold rows'. rewrite concat_filter_nonempty. apply pick_all_perm. exact P.
    + eapply Nat.le_trans; [apply (seq_treeT_height H); exact Hh|]. cbn [fheight].
      assert (EL : length ts = length rows').
      { rewrite <- (map_length fev ts), E, map_length. reflexivity. }
      rewrite EL. unfold H.
      destruct rows' as [|r0 rows0]; [cbn; lia|]. lia.
Qed.

Theorem nd_sum_error_tight pl data : plan_ok pl (length data) -> fin (nd_sum O pl data) = true ->
  Rabs (B2R (nd_sum O pl data) - Rsum (map B2R data)) <= g64 (length data + 13) * Rasum (map B2R data).
Proof.
  intros P Hf. destruct (nd_sum_tree pl data P) as (k & T).
  exact (sum_tree_for_error _ _ _ _ T Hf).
Qed.

Theorem nd_sum_error pl data : plan_ok pl (length data) -> fin (nd_sum O pl data) = true ->
  Rabs (B2R (nd_sum O pl data) - Rsum (map B2R data)) <= g64 (2 * length data + 24) * Rasum (map B2R data).
Proof.
  intros P Hf. eapply Rle_trans; [apply nd_sum_error_tight; assumption|].
  apply Rmult_le_compat_r; [apply Rasum_nonneg|]. apply g64_mono. lia.
Qed.

(* property C20: the result depends on the layout only within the rounding-error bound *)
Theorem nd_sum_layout_indep_tight pl1 pl2 n data : plan_ok pl1 n -> plan_ok pl2 n -> n = length data ->
  fin (nd_sum O pl1 data) = true -> fin (nd_sum O pl2 data) = true ->
  Rabs (B2R (nd_sum O pl1 data) - B2R (nd_sum O pl2 data)) <= 2 * g64 (n + 13) * Rasum (map B2R data).
Proof.
  intros P1 P2 -> F1 F2.
  pose proof (nd_sum_error_tight pl1 data P1 F1) as B1.
  pose proof (nd_sum_error_tight pl2 data P2 F2) as B2.
  replace (B2R (nd_sum O pl1 data) - B2R (nd_sum O pl2 data))
    with ((B2R (nd_sum O pl1 data) - Rsum (map B2R data)) - (B2R (nd_sum O pl2 data) - Rsum (map B2R data))) by ring.
  eapply Rle_trans; [apply Rabs_triang|]. rewrite Rabs_Ropp. lra.
Qed.

Theorem nd_sum_layout_indep pl1 pl2 n data : plan_ok pl1 n -> plan_ok pl2 n -> n = length data ->
  fin (nd_sum O pl1 data) = true -> fin (nd_sum O pl2 data) = true ->
  Rabs (B2R (nd_sum O pl1 data) - B2R (nd_sum O pl2 data)) <= 2 * g64 (2 * n + 24) * Rasum (map B2R data).
Proof.
  intros P1 P2 E F1 F2.
  eapply Rle_trans; [apply (nd_sum_layout_indep_tight pl1 pl2 n data); assumption|].
  pose proof (Rasum_nonneg (map B2R data)) as A.
  assert (G : g64 (n + 13) <= g64 (2 * n + 24)) by (apply g64_mono; lia).
  pose proof (g64_nonneg (n + 13)). nra.
Qed.

(* ------------------------------------------------------------------ *)
(* The standard model of one rounding (with underflow term)            *)
(* ------------------------------------------------------------------ *)
Notation rnd64 := (round radix2 (FLT_exp (-1074) 53) ZnearestE).

Lemma round_model (x : R) : exists e e' : R,
  Rabs e <= u64 /\ Rabs e' <= eta64 /\ rnd64 x = x * (1 + e) + e'.
Proof.
  destruct (error_N_FLT radix2 (-1074) 53 eq_refl (fun z => negb (Z.even z)) x) as (e & e' & He & He' & _ & E).
  exists e, e'. split; [|split].
  - rewrite u64_eq. exact He.
  - rewrite eta64_eq. exact He'.
  - exact E.
Qed.

Lemma not_fin_overflow (x : F64) s : B2SF x = binary_overflow 53 1024 mode_NE s -> fin x = false.
Proof.
  intros E. rewrite <- is_finite_SF_B2SF, E. reflexivity.
Qed.

Lemma fmul_round (d w : F64) : fin (fmul d w) = true -> B2R (fmul d w) = rnd64 (B2R d * B2R w).
Proof.
  intros Hf. pose proof (Bmult_correct 53 1024 Hprec64 Hmax64 mode_NE d w) as C.
  fold (fmul d w) in C. destruct (Rlt_bool _ _) in C.
  - destruct C as [C _]. exact C.
  - apply not_fin_overflow in C. rewrite C in Hf. discriminate Hf.
Qed.

Lemma fdiv_round (x y : F64) : B2R y <> 0 -> fin (fdiv x y) = true ->
  B2R (fdiv x y) = rnd64 (B2R x / B2R y) /\ fin x = true.
Proof.
  intros Hy Hf. pose proof (Bdiv_correct 53 1024 Hprec64 Hmax64 mode_NE x y Hy) as C.
  fold (fdiv x y) in C. destruct (Rlt_bool _ _) in C.
  - destruct C as (C1 & C2 & _). split; [exact C1|]. rewrite <- C2. exact Hf.
  - apply not_fin_overflow in C. rewrite C in Hf. discriminate Hf.
Qed.

Lemma fleaves_finite (t : ft) : fin (fev t) = true -> Forall (fun x => fin x = true) (fleaves t).
Proof.
  induction t as [x|l IHl r IHr]; intros Hf.
  - cbn [fleaves]. constructor; [exact Hf|constructor].
  - rewrite fev_node in Hf. unfold fadd in Hf.
    destruct (Bplus_finite_inv 53 1024 Hprec64 Hmax64 _ _ Hf) as [Fl Fr].
    cbn [fleaves]. apply Forall_app. split; [apply IHl; exact Fl|apply IHr; exact Fr].
Qed.

Lemma fold_finite xs : fin (fold_left fadd xs fzero) = true -> Forall (fun x => fin x = true) xs.
Proof.
  intros Hf. change fzero with (fev (FLeaf _ _ fzero)) in Hf. rewrite seq_tree_eval in Hf.
  apply fleaves_finite in Hf. rewrite seq_tree_leaves in Hf. cbn [fleaves app] in Hf.
  inversion Hf; assumption.
Qed.

(* ------------------------------------------------------------------ *)
(* F4. Weighted sum                                                    *)
(* ------------------------------------------------------------------ *)
Lemma Rsum_abs_Rasum {A} (f : A -> R) l : Rsum (map (fun a => Rabs (f a)) l) = Rasum (map f l).
Proof. induction l as [|a l IH]; [reflexivity|]. cbn [map]. rewrite Rsum_cons, Rasum_cons, IH. reflexivity. Qed.

Lemma rounded_terms {A} (P X : A -> R) (l : list A) :
  Forall (fun a => P a = rnd64 (X a)) l ->
  Rabs (Rsum (map P l) - Rsum (map X l)) <= u64 * Rasum (map X l) + INR (length l) * eta64 /\
  Rasum (map P l) <= (1 + u64) * Rasum (map X l) + INR (length l) * eta64.
Proof.
  intros HF. induction HF as [|a l Ha HF [IH1 IH2]].
  - cbn [map length]. unfold Rsum, Rasum. cbn [fold_right INR]. rewrite Rminus_0_r, Rabs_R0. lra.
  - cbn [map]. rewrite !Rsum_cons, !Rasum_cons. change (length (a :: l)) with (S (length l)). rewrite S_INR.
    destruct (round_model (X a)) as (e & e' & He & He' & E). rewrite Ha, E.
    pose proof u64_pos as Hu. pose proof eta64_pos as Het.
    assert (Q : Rabs (X a) * Rabs e <= Rabs (X a) * u64).
    { apply Rmult_le_compat_l; [apply Rabs_pos|exact He]. }
    split.
    + replace (X a * (1 + e) + e' + Rsum (map P l) - (X a + Rsum (map X l)))
        with (X a * e + e' + (Rsum (map P l) - Rsum (map X l))) by ring.
      eapply Rle_trans; [apply Rabs_triang|]. eapply Rle_trans; [apply Rplus_le_compat_r; apply Rabs_triang|].
      rewrite Rabs_mult. lra.
    + replace (X a * (1 + e) + e') with (X a + (X a * e + e')) by ring.
      eapply Rle_trans; [apply Rplus_le_compat_r; apply Rabs_triang|].
      eapply Rle_trans; [apply Rplus_le_compat_r; apply Rplus_le_compat_l; apply Rabs_triang|].
      rewrite Rabs_mult. lra.
Qed.

Definition rprod (dw : F64 * F64) : R := B2R (fst dw) * B2R (snd dw).

Theorem wsum_error_gen data ws : fin (weighted_sum O data ws) = true ->
  let l := combine data ws in
  Rabs (B2R (weighted_sum O data ws) - Rsum (map rprod l))
    <= g64 (length l + 1) * Rasum (map rprod l) + INR (length l) * (1 + g64 (length l)) * eta64.
Proof.
  intros Hf l. unfold weighted_sum in *. fold l in Hf |- *.
  set (fp := fun dw : F64 * F64 => fmul (fst dw) (snd dw)).
  assert (EW : fold_left (fun acc dw => o_add O acc (o_mul O (fst dw) (snd dw))) l (o_zero O)
               = fold_left fadd (map fp l) fzero).
  { rewrite <- (fold_left_fun_map fadd fp). reflexivity. }
  rewrite EW in Hf |- *.
  pose proof (fold_sum_error _ Hf) as B. rewrite map_map, map_length in B.
  pose proof (fold_finite _ Hf) as FF.
  assert (HR : Forall (fun dw => B2R (fp dw) = rnd64 (rprod dw)) l).
  { rewrite Forall_map in FF. eapply Forall_impl; [|exact FF]. intros dw Hdw. cbv beta in Hdw.
    unfold fp, rprod. apply fmul_round. exact Hdw. }
  destruct (rounded_terms (fun dw => B2R (fp dw)) rprod l HR) as [R1 R2].
  set (n := length l) in *. set (A := Rasum (map rprod l)) in *.
  set (Sp := Rsum (map (fun dw => B2R (fp dw)) l)) in *. set (Ap := Rasum (map (fun dw => B2R (fp dw)) l)) in *.
  set (Sx := Rsum (map rprod l)) in *. set (res := B2R (fold_left fadd (map fp l) fzero)) in *.
  replace (n + 1)%nat with (S n) by lia. rewrite g64_S.
  pose proof (g64_nonneg n) as G. pose proof u64_pos as Hu. pose proof eta64_pos as Het.
  assert (HA : 0 <= A) by apply Rasum_nonneg. assert (HN : 0 <= INR n) by apply pos_INR.
  replace (res - Sx) with ((res - Sp) + (Sp - Sx)) by ring.
  eapply Rle_trans; [apply Rabs_triang|].
  assert (B' : g64 n * Ap <= g64 n * ((1 + u64) * A + INR n * eta64)).
  { apply Rmult_le_compat_l; [exact G|exact R2]. }
  nra.
Qed.

Theorem wsum_error data ws : length ws = length data -> fin (weighted_sum O data ws) = true ->
  Rabs (B2R (weighted_sum O data ws)
        - Rsum (map (fun dw => B2R (fst dw) * B2R (snd dw)) (combine data ws)))
    <= g64 (length data + 1) * Rsum (map (fun dw => Rabs (B2R (fst dw) * B2R (snd dw))) (combine data ws))
       + INR (length data) * (1 + g64 (length data)) * eta64.
Proof.
  intros HL Hf. pose proof (wsum_error_gen data ws Hf) as B. cbv zeta in B.
  rewrite combine_length, HL, Nat.min_id in B.
  rewrite (Rsum_abs_Rasum (fun dw => B2R (fst dw) * B2R (snd dw))). exact B.
Qed.

(* ------------------------------------------------------------------ *)
(* F5. Mean                                                            *)
(* ------------------------------------------------------------------ *)
Lemma div_round_error (s S A G N : R) : 0 < N -> 0 <= G -> Rabs S <= A ->
  Rabs (s - S) <= G * A ->
  Rabs (rnd64 (s / N) - S / N) <= (G * (1 + u64) + u64) * A / N + eta64.
Proof.
  intros HN HG HS HB.
  destruct (round_model (s / N)) as (e & e' & He & He' & E). rewrite E.
  pose proof u64_pos as Hu.
  assert (HA : 0 <= A) by (pose proof (Rabs_pos S); lra).
  replace (s / N * (1 + e) + e' - S / N) with (((s - S) * (1 + e) + S * e) * / N + e') by (field; lra).
  eapply Rle_trans; [apply Rabs_triang|]. apply Rplus_le_compat; [|exact He'].
  rewrite Rabs_mult, (Rabs_pos_eq (/ N)) by (apply Rlt_le, Rinv_0_lt_compat; exact HN).
  unfold Rdiv. apply Rmult_le_compat_r; [apply Rlt_le, Rinv_0_lt_compat; exact HN|].
  eapply Rle_trans; [apply Rabs_triang|]. rewrite !Rabs_mult.
  assert (B2 : Rabs (1 + e) <= 1 + u64).
  { eapply Rle_trans; [apply Rabs_triang|]. rewrite Rabs_R1. lra. }
  assert (P1 : Rabs (s - S) * Rabs (1 + e) <= (G * A) * (1 + u64)).
  { apply Rmult_le_compat; try apply Rabs_pos; assumption. }
  assert (P2 : Rabs S * Rabs e <= A * u64).
  { apply Rmult_le_compat; try apply Rabs_pos; assumption. }
  lra.
Qed.

Lemma mean_unfold pl data : mean O pl data = fdiv (nd_sum O pl data) (f64_of_Z (Z.of_nat (length data))).
Proof. reflexivity. Qed.

Theorem mean_error_tight pl data n : plan_ok pl n -> n = length data ->
  (1 <= n)%nat -> (Z.of_nat n <= 2 ^ 53)%Z -> fin (mean O pl data) = true ->
  Rabs (B2R (mean O pl data) - Rsum (map B2R data) / INR n)
    <= g64 (n + 14) * Rasum (map B2R data) / INR n + eta64.
Proof.
  intros P -> H1 H2 Hf. rewrite mean_unfold in *.
  destruct (f64_of_Z_exact (Z.of_nat (length data))) as [Fn En]; [lia|].
  rewrite <- INR_IZR_INZ in En.
  assert (HN : 0 < INR (length data)) by (apply lt_0_INR; lia).
  destruct (fdiv_round _ _ (ltac:(rewrite En; lra)) Hf) as [Em Fs].
  rewrite Em, En.
  pose proof (nd_sum_error_tight pl data P Fs) as B.
  replace (length data + 14)%nat with (S (length data + 13)) by lia. rewrite g64_S.
  apply div_round_error; [exact HN|apply g64_nonneg|apply Rsum_le_Rasum|exact B].
Qed.

Theorem mean_error pl data n : plan_ok pl n -> n = length data ->
  (1 <= n)%nat -> (Z.of_nat n <= 2 ^ 53)%Z -> fin (mean O pl data) = true ->
  Rabs (B2R (mean O pl data) - Rsum (map B2R data) / INR n)
    <= g64 (2 * n + 25) * Rasum (map B2R data) / INR n + eta64.
Proof.
  intros P E H1 H2 Hf. eapply Rle_trans; [apply (mean_error_tight pl data n); assumption|].
  apply Rplus_le_compat_r. unfold Rdiv. apply Rmult_le_compat_r.
  { apply Rlt_le, Rinv_0_lt_compat, lt_0_INR. lia. }
  apply Rmult_le_compat_r; [apply Rasum_nonneg|]. apply g64_mono. lia.
Qed.
End Kern.

Print Assumptions fold_sum_error.
Print Assumptions unrolled_sum_tree.
Print Assumptions unrolled_sum_error.
Print Assumptions nd_sum_error.
Print Assumptions nd_sum_layout_indep.
Print Assumptions wsum_error.
Print Assumptions mean_error.
