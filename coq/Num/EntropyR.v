(* entropy.rs over the reals: the three routines are the textbook sums (zero terms skipped,
   elements paired by position); KL(p,p) = 0; cross entropy = entropy + KL; Gibbs' inequality;
   entropy <= ln n; entropy >= 0. *)
From Coq Require Import Reals Lra Lia Psatz List Arith Permutation.
Import ListNotations.
From NS Require Import Num.Ops Num.Kernels Num.RInst.
Local Open Scope R_scope.

Fixpoint Rsum (l : list R) : R := match l with [] => 0 | x :: t => x + Rsum t end.

(* ---------- ndarray's sum over the reals is the sum ---------- *)
Lemma fold_left_Rplus (l : list R) :
  forall acc, fold_left (fun a x => a + x) l acc = acc + Rsum l.
Proof.
  induction l as [|x t IH]; intros acc; simpl.
  - lra.
  - rewrite IH. lra.
Qed.

Lemma unrolled_loop_inv (fuel : nat) :
  forall (xs p : list R), length p = 8%nat ->
  length (fst (unrolled_loop R_ops fuel xs p)) = 8%nat /\
  Rsum (fst (unrolled_loop R_ops fuel xs p)) + Rsum (snd (unrolled_loop R_ops fuel xs p))
  = Rsum p + Rsum xs.
Proof.
  induction fuel as [|f IH]; intros xs p Hp.
  - simpl. split; [exact Hp | reflexivity].
  - destruct p as [|p0 [|p1 [|p2 [|p3 [|p4 [|p5 [|p6 [|p7 [|p8 pt]]]]]]]]]; try discriminate Hp.
    destruct xs as [|x0 [|x1 [|x2 [|x3 [|x4 [|x5 [|x6 [|x7 rest]]]]]]]];
      try (simpl; split; [reflexivity | reflexivity]).
    cbn [unrolled_loop].
    destruct (IH rest [o_add R_ops p0 x0; o_add R_ops p1 x1; o_add R_ops p2 x2; o_add R_ops p3 x3;
                       o_add R_ops p4 x4; o_add R_ops p5 x5; o_add R_ops p6 x6; o_add R_ops p7 x7]
                 eq_refl) as [HL HS].
    split; [exact HL|]. rewrite HS. simpl. lra.
Qed.

Theorem unrolled_sum_R (xs : list R) : unrolled_sum R_ops xs = Rsum xs.
Proof.
  unfold unrolled_sum.
  destruct (unrolled_loop_inv (length xs) xs
              [o_zero R_ops; o_zero R_ops; o_zero R_ops; o_zero R_ops;
               o_zero R_ops; o_zero R_ops; o_zero R_ops; o_zero R_ops] eq_refl) as [HL HS].
  destruct (unrolled_loop R_ops (length xs) xs _) as [p rest].
  simpl fst in *. simpl snd in *.
  destruct p as [|p0 [|p1 [|p2 [|p3 [|p4 [|p5 [|p6 [|p7 [|p8 pt]]]]]]]]]; try discriminate HL.
  rewrite fold_left_Rplus. simpl in *. lra.
Qed.

Lemma pick_all_seq (data : list R) : pick_all R_ops data (seq 0 (length data)) = data.
Proof.
  unfold pick_all. induction data as [|x t IH]; simpl; [reflexivity|].
  f_equal. rewrite <- seq_shift, map_map. exact IH.
Qed.

Theorem nd_sum_std (n : nat) (data : list R) :
  n = length data -> nd_sum R_ops (PMem (seq 0 n)) data = Rsum data.
Proof.
  intros Hn. subst n. simpl. now rewrite pick_all_seq, unrolled_sum_R.
Qed.

(* ---------- E1: the three routines are the textbook sums ---------- *)
Definition ent_term (v : R) : R := if Req_EM_T v 0 then 0 else v * ln v.
Definition kl_term (pq : R * R) : R :=
  if Req_EM_T (fst pq) 0 then 0 else fst pq * ln (snd pq / fst pq).
Definition ce_term (pq : R * R) : R :=
  if Req_EM_T (fst pq) 0 then 0 else fst pq * ln (snd pq).

Theorem entropy_R (x : list R) :
  entropy R_ops (PMem (seq 0 (length x))) x =
  - Rsum (map (fun v => if Req_EM_T v 0 then 0 else v * ln v) x).
Proof.
  unfold entropy. cbn [plan_of_map].
  rewrite nd_sum_std by (now rewrite map_length).
  cbn [o_neg R_ops]. do 2 f_equal. apply map_ext. intros v. simpl.
  destruct (Req_EM_T v 0); reflexivity.
Qed.

Theorem kl_R (p q : list R) :
  length p = length q ->
  kl_divergence R_ops p q =
  - Rsum (map (fun pq => if Req_EM_T (fst pq) 0 then 0 else fst pq * ln (snd pq / fst pq))
              (combine p q)).
Proof.
  intros Hlen. unfold kl_divergence.
  rewrite nd_sum_std by (rewrite map_length, combine_length; lia).
  cbn [o_neg R_ops]. do 2 f_equal. apply map_ext. intros pq. simpl.
  destruct (Req_EM_T (fst pq) 0); reflexivity.
Qed.

Theorem cross_R (p q : list R) :
  length p = length q ->
  cross_entropy R_ops p q =
  - Rsum (map (fun pq => if Req_EM_T (fst pq) 0 then 0 else fst pq * ln (snd pq)) (combine p q)).
Proof.
  intros Hlen. unfold cross_entropy.
  rewrite nd_sum_std by (rewrite map_length, combine_length; lia).
  cbn [o_neg R_ops]. do 2 f_equal. apply map_ext. intros pq. simpl.
  destruct (Req_EM_T (fst pq) 0); reflexivity.
Qed.

(* the same with named terms *)
Lemma entropy_R' (x : list R) :
  entropy R_ops (PMem (seq 0 (length x))) x = - Rsum (map ent_term x).
Proof. apply entropy_R. Qed.
Lemma kl_R' (p q : list R) :
  length p = length q -> kl_divergence R_ops p q = - Rsum (map kl_term (combine p q)).
Proof. apply kl_R. Qed.
Lemma cross_R' (p q : list R) :
  length p = length q -> cross_entropy R_ops p q = - Rsum (map ce_term (combine p q)).
Proof. apply cross_R. Qed.

(* ---------- E2: KL(p, p) = 0 ---------- *)
Lemma kl_term_self (v : R) : kl_term (v, v) = 0.
Proof.
  unfold kl_term. simpl. destruct (Req_EM_T v 0) as [Hz|Hnz]; [reflexivity|].
  replace (v / v) with 1 by (field; exact Hnz). rewrite ln_1. lra.
Qed.

Theorem kl_self_gen (p : list R) : kl_divergence R_ops p p = 0.
Proof.
  rewrite kl_R' by reflexivity.
  assert (Hs : Rsum (map kl_term (combine p p)) = 0).
  { induction p as [|v t IH]; simpl; [reflexivity|]. rewrite kl_term_self, IH. lra. }
  rewrite Hs. lra.
Qed.

Theorem kl_self (p : list R) : Forall (fun v => 0 <= v) p -> kl_divergence R_ops p p = 0.
Proof. intros _. apply kl_self_gen. Qed.

(* ---------- E3: cross entropy = entropy + KL ---------- *)
Lemma ln_div_pos (x y : R) : 0 < x -> 0 < y -> ln (x / y) = ln x - ln y.
Proof.
  intros Hx Hy. unfold Rdiv.
  rewrite ln_mult by (try assumption; now apply Rinv_0_lt_compat).
  rewrite ln_Rinv by assumption. lra.
Qed.

Lemma ce_term_split (u v : R) :
  0 <= u -> (0 < u -> 0 < v) -> ce_term (u, v) = ent_term u + kl_term (u, v).
Proof.
  intros Hu Hv. unfold ce_term, ent_term, kl_term. simpl.
  destruct (Req_EM_T u 0) as [Hz|Hnz]; [lra|].
  assert (Hup : 0 < u) by lra. specialize (Hv Hup).
  rewrite (ln_div_pos v u Hv Hup). lra.
Qed.

Lemma sum_ce_split (p : list R) :
  forall q, length p = length q ->
  Forall (fun pq => 0 < fst pq -> 0 < snd pq) (combine p q) ->
  Forall (fun v => 0 <= v) p ->
  Rsum (map ce_term (combine p q)) = Rsum (map ent_term p) + Rsum (map kl_term (combine p q)).
Proof.
  induction p as [|u p IH]; intros q Hlen Hac Hnn.
  - simpl. lra.
  - destruct q as [|v q]; [discriminate Hlen|]. simpl in *.
    inversion Hac as [|x l Hx Hl]; subst. inversion Hnn as [|y l' Hy Hl']; subst.
    rewrite (IH q) by (try assumption; lia).
    rewrite (ce_term_split u v Hy Hx). lra.
Qed.

Theorem cross_eq_entropy_plus_kl (p q : list R) :
  length p = length q ->
  Forall (fun pq => 0 < fst pq -> 0 < snd pq) (combine p q) ->
  Forall (fun v => 0 <= v) p ->
  cross_entropy R_ops p q = entropy R_ops (PMem (seq 0 (length p))) p + kl_divergence R_ops p q.
Proof.
  intros Hlen Hac Hnn.
  rewrite cross_R', entropy_R', kl_R' by exact Hlen.
  rewrite (sum_ce_split p q Hlen Hac Hnn). lra.
Qed.

(* ---------- E4: Gibbs' inequality ---------- *)
Lemma ln_le_minus1 (t : R) : 0 < t -> ln t <= t - 1.
Proof.
  intros Ht. pose proof (exp_ineq1_le (ln t)) as He. rewrite (exp_ln t Ht) in He. lra.
Qed.

Lemma kl_term_le (u v : R) : 0 <= u -> 0 <= v -> (0 < u -> 0 < v) -> kl_term (u, v) <= v - u.
Proof.
  intros Hu Hv Hac. unfold kl_term. simpl.
  destruct (Req_EM_T u 0) as [Hz|Hnz]; [lra|].
  assert (Hup : 0 < u) by lra. specialize (Hac Hup).
  assert (Hq : 0 < v / u) by (apply Rdiv_lt_0_compat; assumption).
  pose proof (ln_le_minus1 (v / u) Hq) as Hln.
  assert (Hm : u * ln (v / u) <= u * (v / u - 1)) by (apply Rmult_le_compat_l; lra).
  replace (u * (v / u - 1)) with (v - u) in Hm by (field; exact Hnz).
  exact Hm.
Qed.

Lemma sum_kl_le (p : list R) :
  forall q, length p = length q ->
  Forall (fun v => 0 <= v) p -> Forall (fun v => 0 <= v) q ->
  Forall (fun pq => 0 < fst pq -> 0 < snd pq) (combine p q) ->
  Rsum (map kl_term (combine p q)) <= Rsum q - Rsum p.
Proof.
  induction p as [|u p IH]; intros q Hlen Hp Hq Hac.
  - destruct q; [simpl; lra | discriminate Hlen].
  - destruct q as [|v q]; [discriminate Hlen|]. simpl in *.
    inversion Hp as [|x1 l1 Hu Hp']; subst. inversion Hq as [|x2 l2 Hv Hq']; subst.
    inversion Hac as [|x3 l3 Huv Hac']; subst.
    assert (Hlen' : length p = length q) by lia.
    pose proof (IH q Hlen' Hp' Hq' Hac') as HI.
    pose proof (kl_term_le u v Hu Hv Huv) as Ht. lra.
Qed.

(* q >= 0, absolutely continuous (p_i > 0 -> q_i > 0), total mass of q at most that of p *)
Theorem gibbs_gen (p q : list R) :
  length p = length q ->
  Forall (fun v => 0 <= v) p -> Forall (fun v => 0 <= v) q ->
  Forall (fun pq => 0 < fst pq -> 0 < snd pq) (combine p q) ->
  Rsum q <= Rsum p ->
  0 <= kl_divergence R_ops p q.
Proof.
  intros Hlen Hp Hq Hac Hm. rewrite kl_R' by exact Hlen.
  pose proof (sum_kl_le p q Hlen Hp Hq Hac) as Hs. lra.
Qed.

Lemma Forall_combine_snd {A B : Type} (P : B -> Prop) (Q : A * B -> Prop) :
  (forall a b, P b -> Q (a, b)) ->
  forall (l : list A) (l' : list B), Forall P l' -> Forall Q (combine l l').
Proof.
  intros HPQ l. induction l as [|a l IH]; intros l' HF; simpl; [constructor|].
  destruct l' as [|b l']; [constructor|].
  inversion HF as [|x t Hb Ht]; subst. constructor; [now apply HPQ | now apply IH].
Qed.

Theorem gibbs (p q : list R) :
  length p = length q ->
  Forall (fun v => 0 <= v) p -> Forall (fun v => 0 < v) q ->
  Rsum p = 1 -> Rsum q = 1 ->
  0 <= kl_divergence R_ops p q.
Proof.
  intros Hlen Hp Hq Hsp Hsq. apply gibbs_gen; try assumption.
  - eapply Forall_impl; [|exact Hq]. intros a Ha. simpl in Ha. lra.
  - apply (Forall_combine_snd (fun v => 0 < v)); [|exact Hq]. intros a b Hb _. exact Hb.
  - lra.
Qed.

(* ---------- E5: entropy <= ln n ---------- *)
Lemma Rsum_repeat (c : R) (n : nat) : Rsum (repeat c n) = INR n * c.
Proof.
  induction n as [|n IH]; [simpl; lra|].
  cbn [repeat Rsum]. rewrite IH, S_INR. lra.
Qed.

Lemma sum_ce_const (c : R) (p : list R) :
  Rsum (map ce_term (combine p (repeat c (length p)))) = ln c * Rsum p.
Proof.
  induction p as [|u p IH]; simpl; [lra|].
  rewrite IH. unfold ce_term at 1. simpl.
  destruct (Req_EM_T u 0) as [Hz|Hnz]; [subst u|]; lra.
Qed.

Theorem entropy_le_ln_n (p : list R) :
  Forall (fun v => 0 <= v) p -> Rsum p = 1 -> (1 <= length p)%nat ->
  entropy R_ops (PMem (seq 0 (length p))) p <= ln (INR (length p)).
Proof.
  intros Hp Hsp Hn.
  set (n := length p) in *.
  assert (Hnpos : 0 < INR n) by (apply lt_0_INR; lia).
  set (c := / INR n).
  assert (Hc : 0 < c) by (apply Rinv_0_lt_compat; exact Hnpos).
  set (q := repeat c n).
  assert (Hlen : length p = length q) by (unfold q; now rewrite repeat_length).
  assert (Hq : Forall (fun v => 0 < v) q).
  { apply Forall_forall. intros v Hv. apply repeat_spec in Hv. now subst v. }
  assert (Hsq : Rsum q = 1).
  { unfold q. rewrite Rsum_repeat. unfold c. field. lra. }
  assert (Hac : Forall (fun pq : R * R => 0 < fst pq -> 0 < snd pq) (combine p q)).
  { apply (Forall_combine_snd (fun v => 0 < v)); [|exact Hq]. intros a b Hb _. exact Hb. }
  pose proof (cross_eq_entropy_plus_kl p q Hlen Hac Hp) as Hsplit.
  pose proof (gibbs p q Hlen Hp Hq Hsp Hsq) as Hg.
  assert (Hce : cross_entropy R_ops p q = ln (INR n)).
  { rewrite cross_R' by exact Hlen. unfold q, n. rewrite sum_ce_const.
    fold n. rewrite Hsp. unfold c. rewrite (ln_Rinv (INR n) Hnpos). lra. }
  fold n in Hsplit. lra.
Qed.

(* ---------- E6: entropy >= 0 on [0,1] ---------- *)
Lemma ent_term_nonpos (v : R) : 0 <= v <= 1 -> ent_term v <= 0.
Proof.
  intros [H0 H1]. unfold ent_term. destruct (Req_EM_T v 0) as [Hz|Hnz]; [lra|].
  assert (Hv : 0 < v) by lra. pose proof (ln_le_minus1 v Hv) as Hln.
  assert (Hl : ln v <= 0) by lra. nra.
Qed.

Theorem entropy_nonneg (p : list R) :
  Forall (fun v => 0 <= v <= 1) p -> 0 <= entropy R_ops (PMem (seq 0 (length p))) p.
Proof.
  intros Hp. rewrite entropy_R'.
  assert (Hs : Rsum (map ent_term p) <= 0).
  { induction Hp as [|v t Hv Ht IH]; simpl; [lra|].
    pose proof (ent_term_nonpos v Hv) as Hnp. lra. }
  lra.
Qed.

Print Assumptions unrolled_sum_R.
Print Assumptions nd_sum_std.
Print Assumptions entropy_R.
Print Assumptions kl_R.
Print Assumptions cross_R.
Print Assumptions kl_self.
Print Assumptions kl_self_gen.
Print Assumptions cross_eq_entropy_plus_kl.
Print Assumptions gibbs.
Print Assumptions gibbs_gen.
Print Assumptions entropy_le_ln_n.
Print Assumptions entropy_nonneg.
