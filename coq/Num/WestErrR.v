(* Real-number core of the forward error analysis of West's incremental weighted variance
   (Num/Kernels.v west_step) in binary64:
   0. the class [rel k] of relative perturbation factors f with (1+u)^-k <= f <= (1+u)^k, closed
      under product and inverse (u = u64 = 2^-53), and elementary facts on g64 k = (1+u)^k - 1;
   1. the algebraic identities that express one floating-point step (every rounding written as a
      factor in [rel 1] plus an absolute underflow term) as a perturbation of the exact step;
   2. the one-step error bounds for the running mean and the running sum of squares;
   3. the closed forms [BM], [BS] of the accumulated bounds and their one-step inequalities.
   Nothing here mentions floating-point numbers; Num/WestErrF64.v instantiates it. *)
From Flocq Require Import Core.
Require Import Reals Lra Lia Psatz.
From NS Require Import Num.SumF64.
Open Scope R_scope.

(* ------------------------------------------------------------------ *)
(* 0. Powers of 1+u, relative factors                                  *)
(* ------------------------------------------------------------------ *)
Definition pu (k : nat) : R := (1 + u64) ^ k.

Lemma pu_g k : pu k = 1 + g64 k.
Proof. unfold pu, g64. ring. Qed.
Lemma pu_0 : pu 0 = 1. Proof. reflexivity. Qed.
Lemma pu_1 : pu 1 = 1 + u64. Proof. unfold pu. ring. Qed.
Lemma pu_S k : pu (S k) = pu k * (1 + u64).
Proof. unfold pu. simpl. ring. Qed.
Lemma pu_plus a b : pu (a + b) = pu a * pu b.
Proof. unfold pu. apply pow_add. Qed.
Lemma pu_ge_1 k : 1 <= pu k.
Proof. rewrite pu_g. pose proof (g64_nonneg k). lra. Qed.
Lemma pu_pos k : 0 < pu k.
Proof. pose proof (pu_ge_1 k). lra. Qed.
Lemma pu_mono a b : (a <= b)%nat -> pu a <= pu b.
Proof. intros H. rewrite !pu_g. pose proof (g64_mono a b H). lra. Qed.
Lemma pu_inv_le_1 k : / pu k <= 1.
Proof.
  rewrite <- Rinv_1. apply Rinv_le_contravar; [lra | apply pu_ge_1].
Qed.
Lemma pu_inv_pos k : 0 < / pu k.
Proof. apply Rinv_0_lt_compat, pu_pos. Qed.

Definition rel (k : nat) (f : R) : Prop := / pu k <= f <= pu k.

Lemma rel_pos k f : rel k f -> 0 < f.
Proof. intros [H _]. pose proof (pu_inv_pos k). lra. Qed.
Lemma rel_nz k f : rel k f -> f <> 0.
Proof. intros H. pose proof (rel_pos k f H). lra. Qed.
Lemma rel_one k : rel k 1.
Proof. split; [apply pu_inv_le_1 | apply pu_ge_1]. Qed.
Lemma rel_mono a b f : (a <= b)%nat -> rel a f -> rel b f.
Proof.
  intros H [L U]. pose proof (pu_mono a b H) as M. split; [|lra].
  apply Rle_trans with (/ pu a); [|exact L].
  apply Rinv_le_contravar; [apply pu_pos | exact M].
Qed.
Lemma rel_mul a b f g : rel a f -> rel b g -> rel (a + b) (f * g).
Proof.
  intros [Lf Uf] [Lg Ug]. unfold rel. rewrite pu_plus.
  pose proof (pu_inv_pos a) as Pa. pose proof (pu_inv_pos b) as Pb.
  rewrite Rinv_mult.
  split; apply Rmult_le_compat; lra.
Qed.
Lemma rel_inv k f : rel k f -> rel k (/ f).
Proof.
  intros H. pose proof (rel_pos k f H) as P. destruct H as [L U]. split.
  - apply Rinv_le_contravar; [exact P | exact U].
  - rewrite <- (Rinv_inv (pu k)).
    apply Rinv_le_contravar; [apply pu_inv_pos | exact L].
Qed.
Lemma rel_div a b f g : rel a f -> rel b g -> rel (a + b) (f / g).
Proof. intros Hf Hg. apply rel_mul; [exact Hf | apply rel_inv; exact Hg]. Qed.
Lemma rel_le k f : rel k f -> f <= pu k.
Proof. intros [_ U]. exact U. Qed.
Lemma rel_abs k f : rel k f -> Rabs f <= pu k.
Proof. intros H. rewrite Rabs_pos_eq; [apply H | apply Rlt_le, (rel_pos k f H)]. Qed.
Lemma rel_err k f : rel k f -> Rabs (f - 1) <= g64 k.
Proof.
  intros [L U]. pose proof (pu_ge_1 k) as P1. pose proof (pu_inv_pos k) as P2.
  assert (E : / pu k * pu k = 1) by (apply Rinv_l; lra).
  rewrite pu_g in *. apply Rabs_le. split; [|lra].
  assert (1 - g64 k <= / (1 + g64 k)); [|lra].
  pose proof (g64_nonneg k). nra.
Qed.
Lemma rel_eps e : Rabs e <= u64 / (1 + u64) -> rel 1 (1 + e).
Proof.
  intros H. apply Rabs_le_inv in H. pose proof u64_pos as Hu. unfold rel. rewrite pu_1.
  assert (E : / (1 + u64) = 1 - u64 / (1 + u64)) by (field; lra).
  assert (Q : u64 / (1 + u64) <= u64).
  { assert (I : 0 < / (1 + u64)) by (apply Rinv_0_lt_compat; lra).
    assert (E2 : (1 + u64) * / (1 + u64) = 1) by (apply Rinv_r; lra).
    unfold Rdiv. nra. }
  rewrite E. lra.
Qed.

(* a convex combination of a factor and 1 is a factor of the same class ... *)
Lemma rel_conv k f a b : rel k f -> 0 <= a -> 0 <= b -> 0 < a + b ->
  rel k ((a * f + b) / (a + b)).
Proof.
  intros [L U] Ha Hb Hab. pose proof (pu_inv_le_1 k) as L1. pose proof (pu_ge_1 k) as U1.
  assert (I : 0 < / (a + b)) by (apply Rinv_0_lt_compat; exact Hab).
  split.
  - apply Rmult_le_reg_r with (a + b); [exact Hab|].
    unfold Rdiv. rewrite Rmult_assoc, Rinv_l, Rmult_1_r by lra. nra.
  - apply Rmult_le_reg_r with (a + b); [exact Hab|].
    unfold Rdiv. rewrite Rmult_assoc, Rinv_l, Rmult_1_r by lra. nra.
Qed.
(* ... and so is the factor divided by it *)
Lemma rel_conv_ratio k f a b : rel k f -> 0 <= a -> 0 <= b -> 0 < a + b ->
  rel k (f / ((a * f + b) / (a + b))).
Proof.
  intros Hf Ha Hb Hab. pose proof (rel_pos k f Hf) as Pf. destruct Hf as [L U].
  pose proof (pu_inv_le_1 k) as L1. pose proof (pu_ge_1 k) as U1.
  set (c := (a * f + b) / (a + b)).
  assert (I : 0 < / (a + b)) by (apply Rinv_0_lt_compat; exact Hab).
  assert (Ec : c * (a + b) = a * f + b).
  { unfold c, Rdiv. rewrite Rmult_assoc, Rinv_l, Rmult_1_r by lra. reflexivity. }
  destruct (Rle_or_lt 1 f) as [F1 | F1].
  - assert (C1 : 1 <= c) by (apply Rmult_le_reg_r with (a + b); [exact Hab | nra]).
    assert (C2 : c <= f) by (apply Rmult_le_reg_r with (a + b); [exact Hab | nra]).
    assert (Ic : 0 < / c) by (apply Rinv_0_lt_compat; lra).
    assert (Ecc : c * / c = 1) by (apply Rinv_r; lra).
    unfold Rdiv. split; nra.
  - assert (C1 : c <= 1) by (apply Rmult_le_reg_r with (a + b); [exact Hab | nra]).
    assert (C2 : f <= c) by (apply Rmult_le_reg_r with (a + b); [exact Hab | nra]).
    assert (Pc : 0 < c) by lra.
    assert (Ic : 0 < / c) by (apply Rinv_0_lt_compat; lra).
    assert (Ecc : c * / c = 1) by (apply Rinv_r; lra).
    unfold Rdiv. split; nra.
Qed.

(* g64 k <= k u (1 + k u) as long as k u <= 1 *)
Lemma g64_poly k : INR k * u64 <= 1 -> g64 k <= INR k * u64 * (1 + INR k * u64).
Proof.
  pose proof u64_pos as Hu. induction k as [|k IH]; intros H.
  - unfold g64. simpl. lra.
  - rewrite S_INR in *. pose proof (pos_INR k) as Hk.
    assert (H' : INR k * u64 <= 1) by nra. specialize (IH H').
    rewrite g64_S.
    assert (P : INR k * INR k * u64 <= INR k + 1) by nra.
    assert (Q : INR k * INR k * u64 * (u64 * u64) <= (INR k + 1) * (u64 * u64)).
    { apply Rmult_le_compat_r; [nra | exact P]. }
    nra.
Qed.

Lemma Rabs_mul_le (a b A B : R) : Rabs a <= A -> Rabs b <= B -> Rabs (a * b) <= A * B.
Proof.
  intros Ha Hb. rewrite Rabs_mult. apply Rmult_le_compat; try apply Rabs_pos; assumption.
Qed.

(* ------------------------------------------------------------------ *)
(* 1. One floating-point step as a perturbation of the exact step      *)
(* ------------------------------------------------------------------ *)
(* Exact step from (W, M, S) with observation x of weight w > 0:
     W' = W + w,  M' = M + w/W' (x - M),  S' = S + W (w/W') (x - M)^2.
   Floating-point step from (Wh, mh, sh) (f_i: rounding factors, h_i: underflow terms):
     Wh' = (Wh + w) f1,  r = w/Wh' f2 + h2,  xmm = (x - mh) f3,  inc = r xmm f4 + h4,
     mh' = (mh + inc) f5,  t = Wh inc f6 + h6,  sinc = t xmm f7 + h7,  sh' = (sh + sinc) f8.  *)
Definition fstep (Wh mh sh x w Wh' mh' sh' : R) : Prop :=
  exists f1 f2 f3 f4 f5 f6 f7 f8 h2 h4 h6 h7 : R,
    (rel 1 f1 /\ rel 1 f2 /\ rel 1 f3 /\ rel 1 f4 /\ rel 1 f5 /\ rel 1 f6 /\ rel 1 f7 /\ rel 1 f8) /\
    (Rabs h2 <= eta64 /\ Rabs h4 <= eta64 /\ Rabs h6 <= eta64 /\ Rabs h7 <= eta64) /\
    Wh' = (Wh + w) * f1 /\
    mh' = (mh + ((w / Wh' * f2 + h2) * ((x - mh) * f3) * f4 + h4)) * f5 /\
    sh' = (sh + ((Wh * ((w / Wh' * f2 + h2) * ((x - mh) * f3) * f4 + h4) * f6 + h6)
                 * ((x - mh) * f3) * f7 + h7)) * f8.

(* the weight sum: Wh = W fW with fW in rel k gives Wh' = W' fc f1 with fc, fW/fc in rel k *)
Lemma wsum_step k (W w fW : R) : 0 <= W -> 0 < w -> rel k fW ->
  exists fc : R, rel k fc /\ rel k (fW / fc) /\ W * fW + w = (W + w) * fc.
Proof.
  intros HW Hw HfW. exists ((W * fW + w) / (W + w)).
  split; [apply rel_conv; [exact HfW | lra | lra | lra]|].
  split; [apply rel_conv_ratio; [exact HfW | lra | lra | lra]|].
  field. lra.
Qed.

Lemma inc_form (W w x mh fc f1 f2 f3 f4 h2 h4 : R) :
  W + w <> 0 -> fc <> 0 -> f1 <> 0 ->
  (w / ((W + w) * fc * f1) * f2 + h2) * ((x - mh) * f3) * f4 + h4
  = w / (W + w) * (f2 * f3 * f4 / (fc * f1)) * (x - mh) + (h2 * (x - mh) * f3 * f4 + h4).
Proof. intros H1 H2 H3. field. repeat split; assumption. Qed.

Lemma mean_core (W w M x mh psi ei f5 : R) : W + w <> 0 ->
  (W + w) * ((mh + (w / (W + w) * psi * (x - mh) + ei)) * f5 - (M + w / (W + w) * (x - M)))
  = (W * (mh - M) + w * ((psi - 1) * (x - mh)) + (W + w) * ei) * f5
    + (f5 - 1) * ((W + w) * (M + w / (W + w) * (x - M))).
Proof. intros H. field. exact H. Qed.

Lemma sinc_form (W w x mh fW psi ei f3 f6 f7 h6 h7 : R) : W + w <> 0 ->
  ((W * fW) * (w / (W + w) * psi * (x - mh) + ei) * f6 + h6) * ((x - mh) * f3) * f7 + h7
  = W * (w / (W + w)) * (fW * psi * f3 * f6 * f7) * (x - mh) ^ 2
    + ((W * fW) * ei * f6 * (x - mh) * f3 * f7 + h6 * (x - mh) * f3 * f7 + h7).
Proof. intros H. field. exact H. Qed.

Lemma s_core (S sh c chi x mh M es f8 : R) :
  (sh + (c * chi * (x - mh) ^ 2 + es)) * f8 - (S + c * (x - M) ^ 2)
  = ((sh - S) + c * (chi - 1) * (x - mh) ^ 2 + c * ((x - mh) ^ 2 - (x - M) ^ 2) + es) * f8
    + (f8 - 1) * (S + c * (x - M) ^ 2).
Proof. ring. Qed.

(* underflow terms of the increment of the mean and of the increment of s *)
Definition eI (Dh : R) : R := eta64 * (Dh * pu 2 + 1).
Definition eS (WhB Dh : R) : R := eta64 * (WhB * (Dh * pu 2 + 1) * Dh * pu 3 + Dh * pu 2 + 1).

Lemma eI_nonneg Dh : 0 <= Dh -> 0 <= eI Dh.
Proof.
  intros H. unfold eI. pose proof eta64_pos. pose proof (pu_pos 2).
  apply Rmult_le_pos; [lra|]. assert (0 <= Dh * pu 2) by (apply Rmult_le_pos; lra). lra.
Qed.
Lemma eS_nonneg WhB Dh : 0 <= WhB -> 0 <= Dh -> 0 <= eS WhB Dh.
Proof.
  intros H1 H2. unfold eS. pose proof eta64_pos. pose proof (pu_pos 2). pose proof (pu_pos 3).
  apply Rmult_le_pos; [lra|].
  assert (A : 0 <= Dh * pu 2) by (apply Rmult_le_pos; lra).
  assert (B : 0 <= WhB * (Dh * pu 2 + 1) * Dh * pu 3).
  { apply Rmult_le_pos; [|lra]. apply Rmult_le_pos; [|lra]. apply Rmult_le_pos; lra. }
  lra.
Qed.

Lemma ei_bound (x mh f3 f4 h2 h4 Dh : R) :
  rel 1 f3 -> rel 1 f4 -> Rabs h2 <= eta64 -> Rabs h4 <= eta64 -> Rabs (x - mh) <= Dh ->
  Rabs (h2 * (x - mh) * f3 * f4 + h4) <= eI Dh.
Proof.
  intros R3 R4 H2 H4 HD. unfold eI.
  eapply Rle_trans; [apply Rabs_triang|].
  assert (P : Rabs (h2 * (x - mh) * f3 * f4) <= eta64 * Dh * pu 1 * pu 1).
  { apply Rabs_mul_le; [|apply rel_abs; exact R4].
    apply Rabs_mul_le; [|apply rel_abs; exact R3].
    apply Rabs_mul_le; assumption. }
  replace (pu 2) with (pu 1 * pu 1) by (rewrite <- pu_plus; reflexivity). lra.
Qed.

Lemma es_bound (Wh x mh ei f3 f6 f7 h6 h7 WhB Dh : R) :
  rel 1 f3 -> rel 1 f6 -> rel 1 f7 -> Rabs h6 <= eta64 -> Rabs h7 <= eta64 ->
  Rabs (x - mh) <= Dh -> Rabs ei <= eI Dh -> Rabs Wh <= WhB ->
  Rabs (Wh * ei * f6 * (x - mh) * f3 * f7 + h6 * (x - mh) * f3 * f7 + h7) <= eS WhB Dh.
Proof.
  intros R3 R6 R7 H6 H7 HD Hei HW. unfold eS.
  eapply Rle_trans; [apply Rabs_triang|].
  eapply Rle_trans; [apply Rplus_le_compat_r; apply Rabs_triang|].
  assert (P : Rabs (Wh * ei * f6 * (x - mh) * f3 * f7) <= WhB * eI Dh * pu 1 * Dh * pu 1 * pu 1).
  { repeat (apply Rabs_mul_le; [|first [apply rel_abs; assumption | assumption]]). assumption. }
  assert (Q : Rabs (h6 * (x - mh) * f3 * f7) <= eta64 * Dh * pu 1 * pu 1).
  { repeat (apply Rabs_mul_le; [|first [apply rel_abs; assumption | assumption]]). assumption. }
  replace (pu 2) with (pu 1 * pu 1) by (rewrite <- pu_plus; reflexivity).
  replace (pu 3) with (pu 1 * pu 1 * pu 1) by (rewrite <- !pu_plus; reflexivity).
  unfold eI in P. replace (pu 2) with (pu 1 * pu 1) in P by (rewrite <- pu_plus; reflexivity).
  lra.
Qed.

(* ------------------------------------------------------------------ *)
(* 2. One-step error bounds                                            *)
(* ------------------------------------------------------------------ *)
(* the running mean *)
Lemma mean_step k (W w M x mh mh' fc f1 f2 f3 f4 f5 h2 h4 B Dh X : R) :
  0 <= W -> 0 < w -> rel k fc ->
  rel 1 f1 -> rel 1 f2 -> rel 1 f3 -> rel 1 f4 -> rel 1 f5 ->
  Rabs h2 <= eta64 -> Rabs h4 <= eta64 ->
  mh' = (mh + ((w / ((W + w) * fc * f1) * f2 + h2) * ((x - mh) * f3) * f4 + h4)) * f5 ->
  Rabs (x - mh) <= Dh -> Rabs (mh - M) <= B -> g64 (k + 4) * Dh <= B ->
  Rabs (M + w / (W + w) * (x - M)) <= X ->
  Rabs (mh' - (M + w / (W + w) * (x - M))) <= (1 + u64) * (B + eI Dh) + u64 * X.
Proof.
  intros HW Hw Rc R1 R2 R3 R4 R5 H2 H4 Emh HD HB HG HM'.
  assert (HW' : 0 < W + w) by lra.
  rewrite inc_form in Emh by (first [lra | eapply rel_nz; eassumption]).
  set (psi := f2 * f3 * f4 / (fc * f1)) in *.
  set (ei := h2 * (x - mh) * f3 * f4 + h4) in *.
  set (M' := M + w / (W + w) * (x - M)) in *.
  assert (Rpsi : rel (k + 4) psi).
  { unfold psi. replace (k + 4)%nat with (1 + 1 + 1 + (k + 1))%nat by lia.
    apply rel_div; [|apply rel_mul; assumption]. repeat apply rel_mul; assumption. }
  pose proof (rel_err _ _ Rpsi) as Epsi.
  pose proof (ei_bound x mh f3 f4 h2 h4 Dh R3 R4 H2 H4 HD) as Eei. fold ei in Eei.
  pose proof (rel_abs _ _ R5) as A5. pose proof (rel_err _ _ R5) as E5.
  rewrite pu_1 in A5. replace (g64 1) with u64 in E5 by (unfold g64; ring).
  assert (Id : (W + w) * (mh' - M') =
    (W * (mh - M) + w * ((psi - 1) * (x - mh)) + (W + w) * ei) * f5 + (f5 - 1) * ((W + w) * M')).
  { rewrite Emh. unfold M'. apply mean_core. lra. }
  assert (HD0 : 0 <= Dh) by (pose proof (Rabs_pos (x - mh)); lra).
  assert (T1 : Rabs (W * (mh - M)) <= W * B).
  { rewrite Rabs_mult, (Rabs_pos_eq W) by lra. apply Rmult_le_compat_l; lra. }
  assert (T2 : Rabs (w * ((psi - 1) * (x - mh))) <= w * B).
  { rewrite Rabs_mult, (Rabs_pos_eq w) by lra. apply Rmult_le_compat_l; [lra|].
    eapply Rle_trans; [apply Rabs_mul_le; [exact Epsi | exact HD]|]. exact HG. }
  assert (T3 : Rabs ((W + w) * ei) <= (W + w) * eI Dh).
  { rewrite Rabs_mult, (Rabs_pos_eq (W + w)) by lra. apply Rmult_le_compat_l; lra. }
  assert (T4 : Rabs (W * (mh - M) + w * ((psi - 1) * (x - mh)) + (W + w) * ei) <= (W + w) * (B + eI Dh)).
  { eapply Rle_trans; [apply Rabs_triang|].
    eapply Rle_trans; [apply Rplus_le_compat_r; apply Rabs_triang|]. lra. }
  assert (T5 : Rabs ((f5 - 1) * ((W + w) * M')) <= u64 * ((W + w) * X)).
  { apply Rabs_mul_le; [exact E5|].
    rewrite Rabs_mult, (Rabs_pos_eq (W + w)) by lra. apply Rmult_le_compat_l; lra. }
  assert (T6 : Rabs ((W + w) * (mh' - M')) <= (W + w) * (B + eI Dh) * (1 + u64) + u64 * ((W + w) * X)).
  { rewrite Id. eapply Rle_trans; [apply Rabs_triang|]. apply Rplus_le_compat; [|exact T5].
    apply Rabs_mul_le; assumption. }
  rewrite Rabs_mult, (Rabs_pos_eq (W + w)) in T6 by lra.
  apply Rmult_le_reg_l with (W + w); [exact HW'|]. lra.
Qed.

(* the running sum of squares *)
Lemma ssq_step k (W w M S x mh sh sh' fW fc f1 f2 f3 f4 f6 f7 f8 h2 h4 h6 h7 B BSk Dh Dd WhB : R) :
  0 <= W -> 0 < w -> 0 <= S -> rel k fc -> rel k (fW / fc) -> rel k fW ->
  rel 1 f1 -> rel 1 f2 -> rel 1 f3 -> rel 1 f4 -> rel 1 f6 -> rel 1 f7 -> rel 1 f8 ->
  Rabs h2 <= eta64 -> Rabs h4 <= eta64 -> Rabs h6 <= eta64 -> Rabs h7 <= eta64 ->
  sh' = (sh + ((W * fW * ((w / ((W + w) * fc * f1) * f2 + h2) * ((x - mh) * f3) * f4 + h4) * f6 + h6)
               * ((x - mh) * f3) * f7 + h7)) * f8 ->
  Rabs (x - mh) <= Dh -> Rabs (x - M) <= Dd -> Rabs (mh - M) <= B -> Rabs (sh - S) <= BSk ->
  W * fW <= WhB ->
  let c := W * (w / (W + w)) in
  let S' := S + c * (x - M) ^ 2 in
  Rabs (sh' - S') <=
    (1 + u64) * (BSk + g64 (k + 7) * (c * (x - M) ^ 2)
                 + (1 + g64 (k + 7)) * (c * (B * (Dd + Dh))) + eS WhB Dh) + u64 * S'.
Proof.
  intros HW Hw HS Rc Rq RW R1 R2 R3 R4 R6 R7 R8 H2 H4 H6 H7 Esh HD HDd HB HBS HWh c S'.
  assert (HW' : 0 < W + w) by lra.
  rewrite inc_form in Esh by (first [lra | eapply rel_nz; eassumption]).
  set (psi := f2 * f3 * f4 / (fc * f1)) in *.
  set (ei := h2 * (x - mh) * f3 * f4 + h4) in *.
  rewrite sinc_form in Esh by lra. fold c in Esh.
  set (chi := fW * psi * f3 * f6 * f7) in *.
  set (es := W * fW * ei * f6 * (x - mh) * f3 * f7 + h6 * (x - mh) * f3 * f7 + h7) in *.
  assert (Rchi : rel (k + 7) chi).
  { replace chi with ((fW / fc) * f2 * f3 * f4 * / f1 * f3 * f6 * f7).
    2:{ unfold chi, psi. field. split; eapply rel_nz; eassumption. }
    replace (k + 7)%nat with (k + 1 + 1 + 1 + 1 + 1 + 1 + 1)%nat by lia.
    repeat apply rel_mul; try assumption. apply rel_inv. exact R1. }
  pose proof (rel_err _ _ Rchi) as Echi.
  pose proof (ei_bound x mh f3 f4 h2 h4 Dh R3 R4 H2 H4 HD) as Eei. fold ei in Eei.
  assert (HWh0 : 0 <= W * fW) by (apply Rmult_le_pos; [lra | apply Rlt_le, (rel_pos _ _ RW)]).
  assert (AWh : Rabs (W * fW) <= WhB) by (rewrite Rabs_pos_eq; assumption).
  pose proof (es_bound (W * fW) x mh ei f3 f6 f7 h6 h7 WhB Dh R3 R6 R7 H6 H7 HD Eei AWh) as Ees.
  fold es in Ees.
  pose proof (rel_abs _ _ R8) as A8. pose proof (rel_err _ _ R8) as E8.
  rewrite pu_1 in A8. replace (g64 1) with u64 in E8 by (unfold g64; ring).
  assert (Hc : 0 <= c).
  { unfold c. apply Rmult_le_pos; [lra|]. apply Rlt_le, Rdiv_lt_0_compat; lra. }
  assert (Hd2 : 0 <= (x - M) ^ 2) by apply pow2_ge_0.
  assert (HS' : 0 <= S') by (unfold S'; nra).
  pose proof (g64_nonneg (k + 7)) as HG.
  assert (HD0 : 0 <= Dh) by (pose proof (Rabs_pos (x - mh)); lra).
  assert (HDd0 : 0 <= Dd) by (pose proof (Rabs_pos (x - M)); lra).
  assert (HB0 : 0 <= B) by (pose proof (Rabs_pos (mh - M)); lra).
  (* (x - mh)^2 - (x - M)^2 *)
  assert (Q1 : Rabs ((x - mh) ^ 2 - (x - M) ^ 2) <= B * (Dd + Dh)).
  { replace ((x - mh) ^ 2 - (x - M) ^ 2) with (- (mh - M) * ((x - M) + (x - mh))) by ring.
    apply Rabs_mul_le; [rewrite Rabs_Ropp; exact HB|].
    eapply Rle_trans; [apply Rabs_triang|]. lra. }
  assert (Q2 : (x - mh) ^ 2 <= (x - M) ^ 2 + B * (Dd + Dh)).
  { apply Rabs_le_inv in Q1. lra. }
  assert (Q3 : 0 <= (x - mh) ^ 2) by apply pow2_ge_0.
  assert (T1 : Rabs (c * (chi - 1) * (x - mh) ^ 2) <= g64 (k + 7) * (c * ((x - M) ^ 2 + B * (Dd + Dh)))).
  { replace (c * (chi - 1) * (x - mh) ^ 2) with ((chi - 1) * (c * (x - mh) ^ 2)) by ring.
    apply Rabs_mul_le; [exact Echi|].
    rewrite Rabs_mult, (Rabs_pos_eq c), (Rabs_pos_eq _ Q3) by exact Hc.
    apply Rmult_le_compat_l; [exact Hc | exact Q2]. }
  assert (T2 : Rabs (c * ((x - mh) ^ 2 - (x - M) ^ 2)) <= c * (B * (Dd + Dh))).
  { rewrite Rabs_mult, (Rabs_pos_eq c) by exact Hc. apply Rmult_le_compat_l; [exact Hc | exact Q1]. }
  assert (T3 : Rabs ((sh - S) + c * (chi - 1) * (x - mh) ^ 2 + c * ((x - mh) ^ 2 - (x - M) ^ 2) + es)
               <= BSk + g64 (k + 7) * (c * (x - M) ^ 2)
                  + (1 + g64 (k + 7)) * (c * (B * (Dd + Dh))) + eS WhB Dh).
  { eapply Rle_trans; [apply Rabs_triang|].
    eapply Rle_trans; [apply Rplus_le_compat_r; apply Rabs_triang|].
    eapply Rle_trans; [apply Rplus_le_compat_r; apply Rplus_le_compat_r; apply Rabs_triang|].
    lra. }
  assert (T4 : Rabs ((f8 - 1) * S') <= u64 * S').
  { apply Rabs_mul_le; [exact E8 | rewrite Rabs_pos_eq; lra]. }
  replace (sh' - S') with
    (((sh - S) + c * (chi - 1) * (x - mh) ^ 2 + c * ((x - mh) ^ 2 - (x - M) ^ 2) + es) * f8
     + (f8 - 1) * S').
  2:{ rewrite Esh. unfold S'. symmetry. apply s_core. }
  eapply Rle_trans; [apply Rabs_triang|]. apply Rplus_le_compat; [|exact T4].
  rewrite Rmult_comm. apply Rabs_mul_le; [exact A8 | exact T3].
Qed.

(* ------------------------------------------------------------------ *)
(* 3. Accumulated bounds                                               *)
(* ------------------------------------------------------------------ *)
Section Acc.
(* N: total number of observations; X >= |x_i|; Dh >= |x_i - mh_(i-1)| (computed running mean);
   Dd >= |x_i - M_(i-1)| (exact running mean); WhB >= every computed weight sum *)
Variables (N : nat) (X Dh Dd WhB : R).
Hypotheses (HX : 0 <= X) (HDh : 0 <= Dh) (HDd : 0 <= Dd) (HWhB : 0 <= WhB).

Definition GM : R := g64 (N + 4).
Definition GS : R := g64 (N + 7).

(* bound on |mh_k - M_k| after k observations *)
Definition BM (k : nat) : R := pu k * (GM * Dh + INR k * (u64 * X + eI Dh)).

Lemma BM_base k : GM * Dh <= BM k.
Proof.
  unfold BM. pose proof (pu_ge_1 k) as P. pose proof (pos_INR k) as Hk. pose proof u64_pos as Hu.
  pose proof (eI_nonneg Dh HDh) as HeI.
  assert (A : 0 <= GM * Dh) by (apply Rmult_le_pos; [apply g64_nonneg | exact HDh]).
  assert (B : 0 <= INR k * (u64 * X + eI Dh)) by (apply Rmult_le_pos; nra).
  nra.
Qed.
Lemma BM_nonneg k : 0 <= BM k.
Proof.
  pose proof (BM_base k). assert (0 <= GM * Dh) by (apply Rmult_le_pos; [apply g64_nonneg | exact HDh]). lra.
Qed.
Lemma BM_step k : (1 + u64) * (BM k + eI Dh) + u64 * X <= BM (S k).
Proof.
  unfold BM. rewrite pu_S, S_INR.
  pose proof (pu_ge_1 k) as P. pose proof (pos_INR k) as Hk. pose proof u64_pos as Hu.
  pose proof (eI_nonneg Dh HDh) as HeI.
  assert (A : 0 <= GM * Dh) by (apply Rmult_le_pos; [apply g64_nonneg | exact HDh]).
  set (a := GM * Dh) in *. set (e := eI Dh) in *. set (p := pu k) in *. set (n := INR k) in *.
  assert (Q : (1 + u64) * e + u64 * X <= p * (1 + u64) * (u64 * X + e)).
  { assert (0 <= u64 * X) by nra.
    assert (0 <= u64 * (u64 * X)) by nra.
    assert (1 * ((1 + u64) * (u64 * X + e)) <= p * ((1 + u64) * (u64 * X + e))).
    { apply Rmult_le_compat_r; [nra | lra]. }
    lra. }
  assert (Q2 : (1 + u64) * (p * (a + n * (u64 * X + e)) + e) + u64 * X
               = p * (1 + u64) * (a + n * (u64 * X + e)) + ((1 + u64) * e + u64 * X)) by ring.
  rewrite Q2. lra.
Qed.
Lemma BM_S_mono k : BM k <= BM (S k).
Proof.
  pose proof (BM_step k) as H. pose proof (BM_nonneg k) as H0. pose proof u64_pos as Hu.
  pose proof (eI_nonneg Dh HDh) as HeI. nra.
Qed.
Lemma BM_mono a b : (a <= b)%nat -> BM a <= BM b.
Proof.
  intros H. induction H as [|b H IH]; [lra|]. pose proof (BM_S_mono b). lra.
Qed.

(* bound on |sh_k - S_k| after k observations with exact weight sum W and exact sum of squares S *)
Definition KS : R := (1 + GS) * (BM N * (Dd + Dh)).
Definition BS (k : nat) (W Sq : R) : R :=
  pu k * ((GS + INR k * u64) * Sq + W * KS + INR k * eS WhB Dh).

Lemma KS_nonneg : 0 <= KS.
Proof.
  unfold KS. apply Rmult_le_pos; [pose proof (g64_nonneg (N + 7)); unfold GS; lra|].
  apply Rmult_le_pos; [apply BM_nonneg | lra].
Qed.
Lemma BS_nonneg k W Sq : 0 <= W -> 0 <= Sq -> 0 <= BS k W Sq.
Proof.
  intros HW HS. unfold BS. apply Rmult_le_pos; [apply Rlt_le, pu_pos|].
  pose proof (g64_nonneg (N + 7)) as G. fold GS in G. pose proof (pos_INR k). pose proof u64_pos.
  pose proof KS_nonneg. pose proof (eS_nonneg WhB Dh HWhB HDh).
  assert (0 <= (GS + INR k * u64) * Sq) by (apply Rmult_le_pos; nra).
  assert (0 <= W * KS) by (apply Rmult_le_pos; lra).
  assert (0 <= INR k * eS WhB Dh) by (apply Rmult_le_pos; lra). lra.
Qed.
Lemma BS_S_mono k W Sq : 0 <= W -> 0 <= Sq -> BS k W Sq <= BS (S k) W Sq.
Proof.
  intros HW HS. unfold BS. rewrite pu_S, S_INR.
  pose proof (pu_ge_1 k) as P. pose proof (pos_INR k) as Hk. pose proof u64_pos as Hu.
  pose proof (g64_nonneg (N + 7)) as G. fold GS in G.
  pose proof KS_nonneg as HK. pose proof (eS_nonneg WhB Dh HWhB HDh) as He.
  assert (A1 : 0 <= (GS + INR k * u64) * Sq) by (apply Rmult_le_pos; nra).
  assert (A2 : 0 <= W * KS) by (apply Rmult_le_pos; lra).
  assert (A3 : 0 <= INR k * eS WhB Dh) by (apply Rmult_le_pos; lra).
  assert (A4 : 0 <= u64 * Sq) by nra.
  set (t := (GS + INR k * u64) * Sq + W * KS + INR k * eS WhB Dh) in *.
  assert (Ht : 0 <= t) by (unfold t; lra).
  replace ((GS + (INR k + 1) * u64) * Sq + W * KS + (INR k + 1) * eS WhB Dh)
    with (t + (u64 * Sq + eS WhB Dh)) by (unfold t; ring).
  assert (pu k * t <= pu k * (1 + u64) * t).
  { apply Rmult_le_compat_r; [exact Ht | nra]. }
  assert (0 <= pu k * (1 + u64) * (u64 * Sq + eS WhB Dh)).
  { apply Rmult_le_pos; [nra | lra]. }
  nra.
Qed.

Lemma BS_step k W w Sq c cd2 B : (k <= N)%nat ->
  0 <= W -> 0 <= w -> 0 <= Sq -> 0 <= c <= w -> 0 <= cd2 -> 0 <= B <= BM N ->
  (1 + u64) * (BS k W Sq + g64 (k + 7) * cd2 + (1 + g64 (k + 7)) * (c * (B * (Dd + Dh))) + eS WhB Dh)
    + u64 * (Sq + cd2) <= BS (S k) (W + w) (Sq + cd2).
Proof.
  intros Hk HW Hw HS [Hc0 Hc] Hcd [HB0 HB].
  pose proof (pu_ge_1 k) as P. pose proof (pos_INR k) as HkR. pose proof u64_pos as Hu.
  pose proof (g64_nonneg (k + 7)) as Gk0.
  assert (Gk : g64 (k + 7) <= GS) by (apply g64_mono; lia).
  pose proof KS_nonneg as HK. pose proof (eS_nonneg WhB Dh HWhB HDh) as He.
  assert (T : (1 + g64 (k + 7)) * (c * (B * (Dd + Dh))) <= w * KS).
  { assert (T0 : c * (B * (Dd + Dh)) <= w * (BM N * (Dd + Dh))).
    { apply Rmult_le_compat; [exact Hc0 | apply Rmult_le_pos; lra | exact Hc |].
      apply Rmult_le_compat_r; lra. }
    assert (T00 : 0 <= c * (B * (Dd + Dh))).
    { apply Rmult_le_pos; [exact Hc0|]. apply Rmult_le_pos; lra. }
    replace (w * KS) with ((1 + GS) * (w * (BM N * (Dd + Dh)))) by (unfold KS; ring).
    apply Rmult_le_compat; [lra | exact T00 | lra | exact T0]. }
  assert (T' : g64 (k + 7) * cd2 <= GS * cd2) by (apply Rmult_le_compat_r; assumption).
  unfold BS. rewrite pu_S, S_INR.
  set (e := eS WhB Dh) in *. set (p := pu k) in *. set (n := INR k) in *.
  set (t := (GS + n * u64) * Sq + W * KS + n * e).
  set (A := GS * cd2 + w * KS + e).
  assert (HA : 0 <= A).
  { unfold A. assert (0 <= GS * cd2) by (apply Rmult_le_pos; lra).
    assert (0 <= w * KS) by (apply Rmult_le_pos; lra). lra. }
  assert (HZ : 0 <= u64 * (Sq + cd2)) by nra.
  assert (Hn : 0 <= n * u64 * cd2) by (apply Rmult_le_pos; [nra | exact Hcd]).
  replace ((GS + (n + 1) * u64) * (Sq + cd2) + (W + w) * KS + (n + 1) * e)
    with (t + (A + n * u64 * cd2 + u64 * (Sq + cd2))) by (unfold t, A; ring).
  assert (L : (1 + u64) * (p * t + g64 (k + 7) * cd2 + (1 + g64 (k + 7)) * (c * (B * (Dd + Dh))) + e)
              <= (1 + u64) * (p * t + A)).
  { apply Rmult_le_compat_l; [lra|]. unfold A. lra. }
  assert (M1 : (1 + u64) * A + u64 * (Sq + cd2) <= p * (1 + u64) * (A + n * u64 * cd2 + u64 * (Sq + cd2))).
  { assert (1 <= p * (1 + u64)) by nra.
    assert (1 * (A + n * u64 * cd2 + u64 * (Sq + cd2)) <= p * (1 + u64) * (A + n * u64 * cd2 + u64 * (Sq + cd2))).
    { apply Rmult_le_compat_r; lra. }
    assert ((1 + u64) * A <= p * (1 + u64) * A).
    { rewrite <- (Rmult_1_l ((1 + u64) * A)) at 1. rewrite Rmult_assoc.
      apply Rmult_le_compat_r; [nra | lra]. }
    assert (0 <= p * (1 + u64) * (n * u64 * cd2)) by (apply Rmult_le_pos; nra).
    assert (u64 * (Sq + cd2) <= p * (1 + u64) * (u64 * (Sq + cd2))).
    { rewrite <- (Rmult_1_l (u64 * (Sq + cd2))) at 1. apply Rmult_le_compat_r; lra. }
    lra. }
  lra.
Qed.
End Acc.
