(* An abstract carrier of the arithmetic the numeric routines use.  The kernels of
   Num/Kernels.v are written once over this record and instantiated at the reals (theorems),
   at binary64 / binary32 (execution, bit-for-bit comparison with the code) and at Z. *)
From Coq Require Import List.
Import ListNotations.

Record ops (T : Type) := mk_ops {
  o_zero : T;
  o_one : T;
  o_add : T -> T -> T;
  o_sub : T -> T -> T;
  o_mul : T -> T -> T;
  o_div : T -> T -> T;
  o_neg : T -> T;
  o_abs : T -> T;
  o_sqrt : T -> T;
  o_of_nat : nat -> T;        (* FromPrimitive::from_usize / `n as f64` *)
  o_is_zero : T -> bool;      (* x == zero *)
  o_ltb : T -> T -> bool;     (* a < b (false when unordered) *)
  o_ln : T -> T;              (* libm: oracle *)
  o_exp : T -> T;             (* libm: oracle *)
}.
Arguments o_zero {T}. Arguments o_one {T}. Arguments o_add {T}. Arguments o_sub {T}.
Arguments o_mul {T}. Arguments o_div {T}. Arguments o_neg {T}. Arguments o_abs {T}.
Arguments o_sqrt {T}. Arguments o_of_nat {T}. Arguments o_is_zero {T}. Arguments o_ltb {T}.
Arguments o_ln {T}. Arguments o_exp {T}.
