(* The derived deviation measures of deviation.rs for element type f64:
     l2_dist          = sqrt(sq_l2_dist)
     mean_abs_err     = l1_dist / n          (n = self.len() as f64)
     mean_sq_err      = sq_l2_dist / n
     root_mean_sq_err = sqrt(mean_sq_err)
     peak_signal_to_noise_ratio = 10 * log10(maxv * maxv / mean_sq_err)
   written once over the abstract carrier of Num/Ops.v (on top of the accumulations of
   Num/Kernels.v) and studied at the IEEE-754 binary64 instance f64_ops: forward-error bounds for
   every traversal order, bit-for-bit symmetry, exact zero on identical (or numerically equal)
   arguments, non-negativity.  The PSNR bound is in Num/PsnrF64.v. *)
From Flocq Require Import Core BinarySingleNaN Plus_error Relative.
Require Import Reals Lra Lia ZArith Psatz Bool List Permutation.
From NS Require Import Num.F64 Num.Ops Num.F64Inst Num.Kernels Num.SumBridge Num.SumF64
  Quantile.IndexProofs Quantile.InterpF64 Num.DeviationF64 Num.MeansF64 Num.OracleF64 Num.RInst.
Import ListNotations.
Open Scope R_scope.

Local Instance prec64_gt_0V : Prec_gt_0 53 := Hprec64.
Local Instance vexp64V : Valid_exp (SpecFloat.fexp 53 1024) := fexp_correct 53 1024 Hprec64.

(* ------------------------------------------------------------------ *)
(* 0. The derived measures over an abstract carrier                    *)
(* ------------------------------------------------------------------ *)
Section Defs.
Context {T : Type}.
Variable O : ops T.

Definition l2_dist (a b : list T) (trav : list nat) : T := o_sqrt O (sq_l2_dist O a b trav).
Definition mean_abs_err (a b : list T) (trav : list nat) : T :=
  o_div O (l1_dist O a b trav) (o_of_nat O (length a)).
Definition mean_sq_err (a b : list T) (trav : list nat) : T :=
  o_div O (sq_l2_dist O a b trav) (o_of_nat O (length a)).
Definition root_mean_sq_err (a b : list T) (trav : list nat) : T := o_sqrt O (mean_sq_err a b trav).
(* log10 is libm's: an oracle function, argument of the definition *)
Definition psnr (flog10 : T -> T) (a b : list T) (trav : list nat) (maxv : T) : T :=
  o_mul O (o_of_nat O 10) (flog10 (o_div O (o_mul O maxv maxv) (mean_sq_err a b trav))).
End Defs.

(* ------------------------------------------------------------------ *)
(* 1. Real-number lemmas                                               *)
(* ------------------------------------------------------------------ *)
Lemma le_sqrt (x y : R) : 0 <= x -> x * x <= y -> x <= sqrt y.
Proof. intros Hx H. rewrite <- (sqrt_square x Hx). apply sqrt_le_1_alt. exact H. Qed.
Lemma sqrt_le_sq (x y : R) : 0 <= x -> y <= x * x -> sqrt y <= x.
Proof. intros Hx H. rewrite <- (sqrt_square x Hx). apply sqrt_le_1_alt. exact H. Qed.

(* the relative error of a square root is half that of its argument, to first order:
   1 - sqrt(1 - g) <= g/2 + g^2/2  and  sqrt(1 + g) - 1 <= g/2 *)
Definition hsq (g : R) : R := g / 2 + g * g / 2.

Lemma hsq_nonneg g : 0 <= g -> 0 <= hsq g.
Proof. intros Hg. unfold hsq. nra. Qed.
Lemma hsq_le g : 0 <= g <= 1 -> hsq g <= g.
Proof. intros Hg. unfold hsq. nra. Qed.
Lemma hsq_mono g g' : 0 <= g <= g' -> hsq g <= hsq g'.
Proof. intros Hg. unfold hsq. nra. Qed.

(* s approximates S with relative error g and absolute error e: the square roots differ by
   (g/2 + g^2/2) sqrt S + sqrt e *)
Lemma sqrt_pert (s S g e : R) : 0 <= s -> 0 <= S -> 0 <= g <= 1 -> 0 <= e ->
  Rabs (s - S) <= g * S + e ->
  Rabs (sqrt s - sqrt S) <= hsq g * sqrt S + sqrt e.
Proof.
  intros Hs HS Hg He HB. apply Rabs_le_inv in HB.
  pose proof (sqrt_pos S) as Hr. pose proof (sqrt_sqrt S HS) as Er.
  pose proof (sqrt_pos e) as Ht. pose proof (sqrt_sqrt e He) as Et.
  pose proof (sqrt_pos s) as Hq.
  set (r := sqrt S) in *. set (t := sqrt e) in *.
  set (c := 1 - hsq g).
  assert (Hc : 0 <= c) by (unfold c, hsq; nra).
  assert (Hcc : c * c <= 1 - g).
  { assert (Q : g / 2 + g * g / 4 <= 3 / 4) by nra.
    replace (c * c) with (1 - g - g * g * (3 / 4 - (g / 2 + g * g / 4))) by (unfold c, hsq; field).
    assert (Q2 : 0 <= g * g * (3 / 4 - (g / 2 + g * g / 4))) by (apply Rmult_le_pos; nra). lra. }
  assert (Hh : 1 + g <= (1 + hsq g) * (1 + hsq g)) by (unfold hsq; nra).
  apply Rabs_le. split.
  - (* lower side *)
    destruct (Rle_or_lt (c * r) t) as [L|L].
    + unfold c in L. nra.
    + assert (Q : c * r - t <= sqrt s).
      { apply le_sqrt; [lra|].
        assert (P1 : t * t <= c * r * t) by nra.
        assert (P2 : c * c * (r * r) <= (1 - g) * (r * r)) by (apply Rmult_le_compat_r; nra).
        nra. }
      unfold c in Q. nra.
  - (* upper side *)
    assert (Q : sqrt s <= r * (1 + hsq g) + t).
    { pose proof (hsq_nonneg g (proj1 Hg)) as Hh0.
      apply sqrt_le_sq; [nra|].
      assert (P1 : (1 + g) * (r * r) <= (1 + hsq g) * (1 + hsq g) * (r * r)) by (apply Rmult_le_compat_r; nra).
      assert (P2 : 0 <= r * (1 + hsq g) * t) by (apply Rmult_le_pos; nra).
      nra. }
    nra.
Qed.

(* alternative without the square root of the absolute term, for S > 0 *)
Lemma sqrt_pert_rel (s S : R) : 0 <= s -> 0 < S ->
  Rabs (sqrt s - sqrt S) <= Rabs (s - S) / sqrt S.
Proof.
  intros Hs HS.
  pose proof (sqrt_lt_R0 S HS) as Hr. pose proof (sqrt_sqrt S (Rlt_le _ _ HS)) as Er.
  pose proof (sqrt_pos s) as Hq. pose proof (sqrt_sqrt s Hs) as Eq.
  set (r := sqrt S) in *. set (q := sqrt s) in *.
  apply Rmult_le_reg_r with r; [exact Hr|].
  unfold Rdiv. rewrite Rmult_assoc, Rinv_l, Rmult_1_r by lra.
  rewrite <- Eq, <- Er. replace (q * q - r * r) with ((q - r) * (q + r)) by ring.
  rewrite Rabs_mult, (Rabs_pos_eq (q + r)) by lra.
  apply Rmult_le_compat_l; [apply Rabs_pos|lra].
Qed.

(* (1 + u)^k <= 1 / (1 - k u): the classical linearisation of gamma_k *)
Lemma g64_le_lin k : INR k * u64 < 1 -> g64 k <= INR k * u64 / (1 - INR k * u64).
Proof.
  intros Hk. pose proof u64_pos as Hu.
  assert (Q : (1 + u64) ^ k * (1 - INR k * u64) <= 1).
  { induction k as [|k IH]; [simpl; lra|].
    rewrite S_INR in Hk |- *.
    assert (Hk' : INR k * u64 < 1) by nra.
    specialize (IH Hk'). cbn [pow].
    assert (P : 0 <= (1 + u64) ^ k) by (apply pow_le; lra).
    assert (P2 : 0 <= (1 + u64) ^ k * (INR k * u64 * u64 + u64 * u64)).
    { apply Rmult_le_pos; [exact P|]. pose proof (pos_INR k) as Hp1. nra. }
    nra. }
  unfold g64. apply Rmult_le_reg_r with (1 - INR k * u64); [lra|].
  unfold Rdiv. rewrite Rmult_assoc, Rinv_l by lra. lra.
Qed.

Lemma u64_le_pow (e : Z) : (-53 <= e)%Z -> u64 <= bpow radix2 e.
Proof. intros He. unfold u64. apply bpow_le. exact He. Qed.

(* a checkable sufficient condition for the smallness hypotheses g64 k <= 1/4 *)
Lemma g64_quarter k : (Z.of_nat k <= 2 ^ 50)%Z -> g64 k <= / 4.
Proof.
  intros Hk. pose proof u64_pos as Hu.
  assert (B : INR k * u64 <= / 8).
  { rewrite INR_IZR_INZ. apply Rle_trans with (IZR (2 ^ 50) * u64).
    - apply Rmult_le_compat_r; [lra|]. apply IZR_le. exact Hk.
    - change (2 ^ 50)%Z with (Zpower radix2 50). rewrite IZR_Zpower by lia.
      unfold u64. rewrite <- bpow_plus. change (/ 8) with (bpow radix2 (-3)). apply bpow_le. lia. }
  assert (P : 0 <= INR k * u64) by (apply Rmult_le_pos; [apply pos_INR|lra]).
  eapply Rle_trans; [apply g64_le_lin; lra|].
  apply Rmult_le_reg_r with (1 - INR k * u64); [lra|].
  unfold Rdiv. rewrite Rmult_assoc, Rinv_l by lra. lra.
Qed.

Lemma Rsum_map_nonneg {A} (f : A -> R) (l : list A) : (forall a, 0 <= f a) -> 0 <= Rsum (map f l).
Proof.
  intros Hf. induction l as [|a l IH]; [unfold Rsum; simpl; lra|].
  cbn [map]. rewrite Rsum_cons. specialize (Hf a). lra.
Qed.

Lemma Rsum_map_perm {A} (f : A -> R) (l l' : list A) : Permutation l l' -> Rsum (map f l) = Rsum (map f l').
Proof. intros P. apply Rsum_perm. apply Permutation_map. exact P. Qed.

(* ------------------------------------------------------------------ *)
(* 2. binary64 square root                                             *)
(* ------------------------------------------------------------------ *)
Lemma fsqrt_value (x : F64) : B2R (fsqrt x) = rnd (sqrt (B2R x)).
Proof. exact (proj1 (Bsqrt_correct 53 1024 Hprec64 Hmax64 mode_NE x)). Qed.

Lemma fsqrt_finite_arg (x : F64) : fin (fsqrt x) = true -> fin x = true.
Proof.
  intros Hf. destruct (Bsqrt_correct 53 1024 Hprec64 Hmax64 mode_NE x) as (_ & C & _).
  fold (fsqrt x) in C. rewrite Hf in C. destruct x as [s|s| |s m e H]; try discriminate C; reflexivity.
Qed.

Lemma fsqrt_fzero : fsqrt fzero = fzero.
Proof. reflexivity. Qed.

(* unconditional: B2R of a non-finite value is 0 *)
Lemma fsqrt_nonneg (x : F64) : 0 <= B2R (fsqrt x).
Proof. rewrite fsqrt_value. apply rnd_ge_0, sqrt_pos. Qed.

Lemma fmt_pos_ge (x : R) : fmt x -> 0 < x -> bpow radix2 (-1074) <= x.
Proof.
  intros Fx Hx. apply (generic_format_ge_bpow radix2 (SpecFloat.fexp 53 1024)); [|exact Hx|exact Fx].
  intros e. unfold SpecFloat.fexp, SpecFloat.emin. lia.
Qed.

(* the square root of a binary64 number is far from the subnormal range: one relative error *)
Lemma rnd_sqrt_rel (x : R) : fmt x -> exists e, Rabs e <= u64 /\ rnd (sqrt x) = sqrt x * (1 + e).
Proof.
  intros Fx. destruct (Rle_or_lt x 0) as [H|H].
  - exists 0. split; [rewrite Rabs_R0; apply Rlt_le, u64_pos|].
    rewrite (sqrt_neg_0 x H), rnd_0. ring.
  - apply rnd_rel. pose proof (fmt_pos_ge x Fx H) as L.
    rewrite Rabs_pos_eq by apply sqrt_pos.
    apply Rle_trans with (bpow radix2 (-537)); [apply bpow_le; lia|].
    apply le_sqrt; [apply bpow_ge_0|]. rewrite <- bpow_plus. exact L.
Qed.

(* rounding the square root of an approximation *)
Lemma sqrt_round_error (s S g e : R) : fmt s -> 0 <= s -> 0 <= S -> 0 <= g <= 1 -> 0 <= e ->
  Rabs (s - S) <= g * S + e ->
  Rabs (rnd (sqrt s) - sqrt S) <= ((1 + u64) * hsq g + u64) * sqrt S + (1 + u64) * sqrt e.
Proof.
  intros Fs Hs HS Hg He HB.
  pose proof (sqrt_pert s S g e Hs HS Hg He HB) as P.
  destruct (rnd_sqrt_rel s Fs) as (d & Hd & E). rewrite E.
  pose proof u64_pos as Hu. pose proof (sqrt_pos S) as Hr. pose proof (sqrt_pos e) as Ht.
  pose proof (hsq_nonneg g (proj1 Hg)) as Hh.
  replace (sqrt s * (1 + d) - sqrt S) with ((sqrt s - sqrt S) * (1 + d) + sqrt S * d) by ring.
  eapply Rle_trans; [apply Rabs_triang|]. rewrite !Rabs_mult, (Rabs_pos_eq (sqrt S)) by exact Hr.
  assert (B2 : Rabs (1 + d) <= 1 + u64).
  { eapply Rle_trans; [apply Rabs_triang|]. rewrite Rabs_R1. lra. }
  assert (P1 : Rabs (sqrt s - sqrt S) * Rabs (1 + d) <= (hsq g * sqrt S + sqrt e) * (1 + u64)).
  { apply Rmult_le_compat; try apply Rabs_pos; assumption. }
  assert (P2 : sqrt S * Rabs d <= sqrt S * u64) by (apply Rmult_le_compat_l; assumption).
  lra.
Qed.

(* a quotient by n of an approximation with relative error G and absolute error e *)
Lemma div_round_error_abs (s S G e N : R) : 0 < N -> 0 <= S ->
  Rabs (s - S) <= G * S + e ->
  Rabs (rnd (s / N) - S / N) <= (G * (1 + u64) + u64) * (S / N) + (1 + u64) * (e / N) + eta64.
Proof.
  intros HN HS HB.
  assert (iN : 0 < / N) by (apply Rinv_0_lt_compat; exact HN).
  assert (HQ : Rabs (S / N) <= S / N).
  { rewrite Rabs_pos_eq; [lra|]. unfold Rdiv. apply Rmult_le_pos; lra. }
  assert (Hd : Rabs (s / N - S / N) <= (G * S + e) / N).
  { unfold Rdiv. rewrite <- Rmult_minus_distr_r, Rabs_mult, (Rabs_pos_eq (/ N)) by lra.
    apply Rmult_le_compat_r; lra. }
  eapply Rle_trans; [apply (round_near _ _ _ _ HQ Hd)|].
  apply Req_le. field. lra.
Qed.

(* ------------------------------------------------------------------ *)
(* 3. binary64 facts used by the metric laws                           *)
(* ------------------------------------------------------------------ *)
Lemma B2R_nonfin (x : F64) : fin x = false -> B2R x = 0.
Proof. destruct x as [s|s| |s m e H]; intros Hf; try reflexivity; discriminate Hf. Qed.

(* x - y for numerically equal finite x, y is a zero (of either sign) *)
Lemma fsub_eq_zero (x y : F64) : fin x = true -> fin y = true -> B2R x = B2R y ->
  exists s, fsub x y = B754_zero s.
Proof.
  intros Fx Fy E.
  pose proof (Bminus_correct 53 1024 Hprec64 Hmax64 mode_NE x y Fx Fy) as C.
  fold (fsub x y) in C. cbn [round_mode] in C.
  rewrite Rminus_diag_eq in C by exact E. rewrite rnd_0, Rabs_R0 in C.
  rewrite Rlt_bool_true in C by apply bpow_gt_0.
  destruct C as (C1 & C2 & _).
  destruct (fsub x y) as [s|s| |s m e H]; try discriminate C2.
  - exists s. reflexivity.
  - exfalso. destruct s.
    + pose proof (B2R_finite_neg m e H) as Hp2. lra.
    + assert (Ppos : 0 < B2R (B754_finite false m e H)); [|lra].
      unfold BinarySingleNaN.B2R. apply F2R_gt_0. simpl. lia.
Qed.

Lemma tsq_zero (ab : F64 * F64) : pair_fin ab -> rdiff ab = 0 -> tsq ab = fzero.
Proof.
  intros [Fx Fy] E. unfold tsq, dsub.
  destruct (fsub_eq_zero (fst ab) (snd ab) Fx Fy) as [s Es]; [unfold rdiff in E; lra|].
  rewrite Es. destruct s; reflexivity.
Qed.
Lemma tabs_zero (ab : F64 * F64) : pair_fin ab -> rdiff ab = 0 -> tabs ab = fzero.
Proof.
  intros [Fx Fy] E. unfold tabs, dsub.
  destruct (fsub_eq_zero (fst ab) (snd ab) Fx Fy) as [s Es]; [unfold rdiff in E; lra|].
  rewrite Es. destruct s; reflexivity.
Qed.

(* 0 / y = +0 for finite positive y *)
Lemma fdiv_fzero_pos (y : F64) : fin y = true -> 0 < B2R y -> fdiv fzero y = fzero.
Proof.
  intros Fy Py. destruct y as [s|s| |s m e H]; try discriminate Fy.
  - cbn [BinarySingleNaN.B2R] in Py. lra.
  - destruct s; [pose proof (B2R_finite_neg m e H); lra|reflexivity].
Qed.

(* n as f64, for 1 <= n <= 2^53 *)
Lemma of_nat_exact (n : nat) : (1 <= n)%nat -> (Z.of_nat n <= 2 ^ 53)%Z ->
  fin (f64_of_Z (Z.of_nat n)) = true /\ B2R (f64_of_Z (Z.of_nat n)) = INR n /\ 0 < INR n.
Proof.
  intros H1 H2. destruct (f64_of_Z_exact (Z.of_nat n)) as [Fn En]; [lia|].
  rewrite <- INR_IZR_INZ in En. split; [exact Fn|split; [exact En|]]. apply lt_0_INR. lia.
Qed.

(* ------------------------------------------------------------------ *)
(* 4. The derived measures at f64_ops                                  *)
(* ------------------------------------------------------------------ *)
(* the exact sums, over the positions in logical order *)
Definition SSE (a b : list F64) : R :=
  Rsum (map (fun p => rdiff_at a b p * rdiff_at a b p) (seq 0 (length a))).
Definition SAE (a b : list F64) : R :=
  Rsum (map (fun p => Rabs (rdiff_at a b p)) (seq 0 (length a))).

Lemma SSE_nonneg a b : 0 <= SSE a b.
Proof. apply Rsum_map_nonneg. intros p. apply Rle_0_sqr. Qed.
Lemma SAE_nonneg a b : 0 <= SAE a b.
Proof. apply Rsum_map_nonneg. intros p. apply Rabs_pos. Qed.

(* a traversal: every position exactly once, in any order *)
Definition is_traversal (trav : list nat) (n : nat) : Prop := Permutation trav (seq 0 n).
Lemma traversal_length trav n : is_traversal trav n -> length trav = n.
Proof. intros P. rewrite (Permutation_length P). apply seq_length. Qed.

Section DerF64.
Variables lt et : list (Z * Z).
Local Notation O := (f64_ops lt et).

Lemma l2_dist_unfold a b trav : l2_dist O a b trav = fsqrt (sq_l2_dist O a b trav).
Proof. reflexivity. Qed.
Lemma mean_abs_err_unfold a b trav :
  mean_abs_err O a b trav = fdiv (l1_dist O a b trav) (f64_of_Z (Z.of_nat (length a))).
Proof. reflexivity. Qed.
Lemma mean_sq_err_unfold a b trav :
  mean_sq_err O a b trav = fdiv (sq_l2_dist O a b trav) (f64_of_Z (Z.of_nat (length a))).
Proof. reflexivity. Qed.
Lemma root_mean_sq_err_unfold a b trav : root_mean_sq_err O a b trav = fsqrt (mean_sq_err O a b trav).
Proof. reflexivity. Qed.

(* ---- finiteness propagates backwards ---- *)
Lemma l2_dist_finite_inv a b trav : fin (l2_dist O a b trav) = true -> fin (sq_l2_dist O a b trav) = true.
Proof. rewrite l2_dist_unfold. apply fsqrt_finite_arg. Qed.
Lemma mean_abs_err_finite_inv a b trav : (1 <= length a)%nat -> (Z.of_nat (length a) <= 2 ^ 53)%Z ->
  fin (mean_abs_err O a b trav) = true -> fin (l1_dist O a b trav) = true.
Proof.
  intros H1 H2 Hf. rewrite mean_abs_err_unfold in Hf.
  destruct (of_nat_exact _ H1 H2) as (_ & En & Pn).
  apply (fdiv_value _ _ (ltac:(rewrite En; lra)) Hf).
Qed.
Lemma mean_sq_err_finite_inv a b trav : (1 <= length a)%nat -> (Z.of_nat (length a) <= 2 ^ 53)%Z ->
  fin (mean_sq_err O a b trav) = true -> fin (sq_l2_dist O a b trav) = true.
Proof.
  intros H1 H2 Hf. rewrite mean_sq_err_unfold in Hf.
  destruct (of_nat_exact _ H1 H2) as (_ & En & Pn).
  apply (fdiv_value _ _ (ltac:(rewrite En; lra)) Hf).
Qed.
Lemma root_mean_sq_err_finite_inv a b trav :
  fin (root_mean_sq_err O a b trav) = true -> fin (mean_sq_err O a b trav) = true.
Proof. rewrite root_mean_sq_err_unfold. apply fsqrt_finite_arg. Qed.

(* ---- E1. l2_dist: over the positions read, any list of positions ---- *)
Theorem l2_dist_error_trav a b trav :
  fin (l2_dist O a b trav) = true -> g64 (length trav + 2) <= 1 ->
  let S := Rsum (map (fun p => rdiff_at a b p * rdiff_at a b p) trav) in
  Rabs (B2R (l2_dist O a b trav) - sqrt S)
    <= ((1 + u64) * hsq (g64 (length trav + 2)) + u64) * sqrt S
       + (1 + u64) * sqrt (INR (length trav) * (1 + g64 (length trav)) * eta64).
Proof.
  intros Hf Hg S. pose proof (l2_dist_finite_inv a b trav Hf) as Fs.
  rewrite l2_dist_unfold, fsqrt_value.
  apply sqrt_round_error.
  - apply fmt_B2R.
  - apply sq_l2_dist_nonneg. exact Fs.
  - apply Rsum_map_nonneg. intros p. apply Rle_0_sqr.
  - split; [apply g64_nonneg|exact Hg].
  - apply Rmult_le_pos; [apply Rmult_le_pos; [apply pos_INR|pose proof (g64_nonneg (length trav)); lra]|].
    apply Rlt_le, eta64_pos.
  - exact (sq_l2_dist_error lt et a b trav Fs).
Qed.

(* the same without a square root of the underflow term, when the exact sum is positive *)
Theorem l2_dist_error_trav_pos a b trav :
  fin (l2_dist O a b trav) = true ->
  let S := Rsum (map (fun p => rdiff_at a b p * rdiff_at a b p) trav) in
  0 < S ->
  Rabs (B2R (l2_dist O a b trav) - sqrt S)
    <= ((1 + u64) * g64 (length trav + 2) + u64) * sqrt S
       + (1 + u64) * (INR (length trav) * (1 + g64 (length trav)) * eta64) / sqrt S.
Proof.
  intros Hf S HS. pose proof (l2_dist_finite_inv a b trav Hf) as Fs.
  rewrite l2_dist_unfold, fsqrt_value.
  pose proof (sq_l2_dist_error lt et a b trav Fs) as B. cbv zeta in B. fold S in B.
  pose proof (sq_l2_dist_nonneg lt et a b trav Fs) as Hs.
  set (s := B2R (sq_l2_dist O a b trav)) in *.
  set (e := INR (length trav) * (1 + g64 (length trav)) * eta64) in *.
  set (g := g64 (length trav + 2)) in *.
  pose proof (sqrt_pert_rel s S Hs HS) as P.
  pose proof (sqrt_lt_R0 S HS) as Hr. pose proof (sqrt_sqrt S (Rlt_le _ _ HS)) as Er.
  destruct (rnd_sqrt_rel s (fmt_B2R _)) as (d & Hd & E). rewrite E.
  pose proof u64_pos as Hu.
  assert (P' : Rabs (sqrt s - sqrt S) <= g * sqrt S + e / sqrt S).
  { eapply Rle_trans; [exact P|]. unfold Rdiv.
    apply Rmult_le_reg_r with (sqrt S); [exact Hr|].
    rewrite Rmult_assoc, Rinv_l, Rmult_1_r by lra.
    rewrite Rmult_plus_distr_r, Rmult_assoc, Er, Rmult_assoc, Rinv_l, Rmult_1_r by lra. exact B. }
  assert (P0 : 0 <= g * sqrt S + e / sqrt S) by (pose proof (Rabs_pos (sqrt s - sqrt S)); lra).
  replace (sqrt s * (1 + d) - sqrt S) with ((sqrt s - sqrt S) * (1 + d) + sqrt S * d) by ring.
  eapply Rle_trans; [apply Rabs_triang|]. rewrite !Rabs_mult, (Rabs_pos_eq (sqrt S)) by lra.
  assert (B2 : Rabs (1 + d) <= 1 + u64).
  { eapply Rle_trans; [apply Rabs_triang|]. rewrite Rabs_R1. lra. }
  assert (P1 : Rabs (sqrt s - sqrt S) * Rabs (1 + d) <= (g * sqrt S + e / sqrt S) * (1 + u64)).
  { apply Rmult_le_compat; try apply Rabs_pos; assumption. }
  assert (P2 : sqrt S * Rabs d <= sqrt S * u64) by (apply Rmult_le_compat_l; lra).
  unfold Rdiv in *. lra.
Qed.

(* ---- E2. mean_abs_err ---- *)
Theorem mean_abs_err_error_trav a b trav n : n = length a -> length trav = n ->
  (1 <= n)%nat -> (Z.of_nat n <= 2 ^ 53)%Z ->
  fin (mean_abs_err O a b trav) = true ->
  let S := Rsum (map (fun p => Rabs (rdiff_at a b p)) trav) in
  Rabs (B2R (mean_abs_err O a b trav) - S / INR n) <= g64 (n + 1) * (S / INR n) + eta64.
Proof.
  intros En Lt H1 H2 Hf S. subst n.
  pose proof (mean_abs_err_finite_inv a b trav H1 H2 Hf) as Fs.
  destruct (of_nat_exact _ H1 H2) as (_ & EN & PN).
  rewrite mean_abs_err_unfold in Hf |- *.
  destruct (fdiv_value _ _ (ltac:(rewrite EN; lra)) Hf) as [Ev _]. rewrite Ev, EN.
  pose proof (l1_dist_error_tight lt et a b trav Fs) as B. cbv zeta in B. fold S in B. rewrite Lt in B.
  assert (HS : 0 <= S) by (apply Rsum_map_nonneg; intros p; apply Rabs_pos).
  replace (length a + 1)%nat with (Datatypes.S (length a)) by lia. rewrite g64_S.
  pose proof (div_round_error (B2R (l1_dist O a b trav)) S S (g64 (length a)) (INR (length a)) PN
                (g64_nonneg _) (ltac:(rewrite Rabs_pos_eq; lra)) B) as Q.
  unfold Rdiv in *. rewrite <- Rmult_assoc. exact Q.
Qed.

(* ---- E3. mean_sq_err ---- *)
Theorem mean_sq_err_error_trav a b trav n : n = length a -> length trav = n ->
  (1 <= n)%nat -> (Z.of_nat n <= 2 ^ 53)%Z ->
  fin (mean_sq_err O a b trav) = true ->
  let S := Rsum (map (fun p => rdiff_at a b p * rdiff_at a b p) trav) in
  Rabs (B2R (mean_sq_err O a b trav) - S / INR n)
    <= g64 (n + 3) * (S / INR n) + (2 + g64 (n + 1)) * eta64.
Proof.
  intros En Lt H1 H2 Hf S. subst n.
  pose proof (mean_sq_err_finite_inv a b trav H1 H2 Hf) as Fs.
  destruct (of_nat_exact _ H1 H2) as (_ & EN & PN).
  rewrite mean_sq_err_unfold in Hf |- *.
  destruct (fdiv_value _ _ (ltac:(rewrite EN; lra)) Hf) as [Ev _]. rewrite Ev, EN.
  pose proof (sq_l2_dist_error lt et a b trav Fs) as B. cbv zeta in B. fold S in B. rewrite Lt in B.
  assert (HS : 0 <= S) by (apply Rsum_map_nonneg; intros p; apply Rle_0_sqr).
  eapply Rle_trans; [apply (div_round_error_abs _ S _ _ (INR (length a)) PN HS B)|].
  replace (length a + 3)%nat with (Datatypes.S (length a + 2)) by lia.
  replace (length a + 1)%nat with (Datatypes.S (length a)) by lia. rewrite !g64_S.
  apply Req_le. field. lra.
Qed.

(* ---- E4. root_mean_sq_err ---- *)
Lemma mean_sq_err_nonneg a b trav : (1 <= length a)%nat -> (Z.of_nat (length a) <= 2 ^ 53)%Z ->
  0 <= B2R (mean_sq_err O a b trav).
Proof.
  intros H1 H2. destruct (fin (mean_sq_err O a b trav)) eqn:Hf; [|rewrite (B2R_nonfin _ Hf); lra].
  pose proof (mean_sq_err_finite_inv a b trav H1 H2 Hf) as Fs.
  destruct (of_nat_exact _ H1 H2) as (_ & EN & PN).
  rewrite mean_sq_err_unfold in Hf |- *.
  destruct (fdiv_value _ _ (ltac:(rewrite EN; lra)) Hf) as [Ev _]. rewrite Ev, EN.
  apply rnd_ge_0. pose proof (sq_l2_dist_nonneg lt et a b trav Fs) as Hp3.
  unfold Rdiv. apply Rmult_le_pos; [assumption|apply Rlt_le, Rinv_0_lt_compat; exact PN].
Qed.

Lemma mean_abs_err_nonneg a b trav : (1 <= length a)%nat -> (Z.of_nat (length a) <= 2 ^ 53)%Z ->
  0 <= B2R (mean_abs_err O a b trav).
Proof.
  intros H1 H2. destruct (fin (mean_abs_err O a b trav)) eqn:Hf; [|rewrite (B2R_nonfin _ Hf); lra].
  pose proof (mean_abs_err_finite_inv a b trav H1 H2 Hf) as Fs.
  destruct (of_nat_exact _ H1 H2) as (_ & EN & PN).
  rewrite mean_abs_err_unfold in Hf |- *.
  destruct (fdiv_value _ _ (ltac:(rewrite EN; lra)) Hf) as [Ev _]. rewrite Ev, EN.
  apply rnd_ge_0. pose proof (l1_dist_nonneg lt et a b trav Fs) as Hp4.
  unfold Rdiv. apply Rmult_le_pos; [assumption|apply Rlt_le, Rinv_0_lt_compat; exact PN].
Qed.

Theorem root_mean_sq_err_error_trav a b trav n : n = length a -> length trav = n ->
  (1 <= n)%nat -> (Z.of_nat n <= 2 ^ 53)%Z ->
  fin (root_mean_sq_err O a b trav) = true -> g64 (n + 3) <= 1 ->
  let S := Rsum (map (fun p => rdiff_at a b p * rdiff_at a b p) trav) in
  Rabs (B2R (root_mean_sq_err O a b trav) - sqrt (S / INR n))
    <= ((1 + u64) * hsq (g64 (n + 3)) + u64) * sqrt (S / INR n)
       + (1 + u64) * sqrt ((2 + g64 (n + 1)) * eta64).
Proof.
  intros En Lt H1 H2 Hf Hg S.
  pose proof (root_mean_sq_err_finite_inv a b trav Hf) as Fm.
  pose proof (mean_sq_err_error_trav a b trav n En Lt H1 H2 Fm) as B. cbv zeta in B. fold S in B.
  assert (PN : 0 < INR n) by (apply lt_0_INR; lia).
  assert (HS : 0 <= S) by (apply Rsum_map_nonneg; intros p; apply Rle_0_sqr).
  rewrite root_mean_sq_err_unfold, fsqrt_value.
  apply sqrt_round_error.
  - apply fmt_B2R.
  - subst n. apply mean_sq_err_nonneg; assumption.
  - unfold Rdiv. apply Rmult_le_pos; [exact HS|apply Rlt_le, Rinv_0_lt_compat; exact PN].
  - split; [apply g64_nonneg|exact Hg].
  - apply Rmult_le_pos; [pose proof (g64_nonneg (n + 1)); lra|apply Rlt_le, eta64_pos].
  - exact B.
Qed.

(* ---- the same for a traversal of all positions, against the sums in logical order ---- *)
Lemma trav_SSE a b trav : is_traversal trav (length a) ->
  Rsum (map (fun p => rdiff_at a b p * rdiff_at a b p) trav) = SSE a b.
Proof. intros P. apply Rsum_map_perm. exact P. Qed.
Lemma trav_SAE a b trav : is_traversal trav (length a) ->
  Rsum (map (fun p => Rabs (rdiff_at a b p)) trav) = SAE a b.
Proof. intros P. apply Rsum_map_perm. exact P. Qed.

Theorem l2_dist_error a b trav n : n = length a -> is_traversal trav n ->
  fin (l2_dist O a b trav) = true -> g64 (n + 2) <= 1 ->
  Rabs (B2R (l2_dist O a b trav) - sqrt (SSE a b))
    <= ((1 + u64) * hsq (g64 (n + 2)) + u64) * sqrt (SSE a b)
       + (1 + u64) * sqrt (INR n * (1 + g64 n) * eta64).
Proof.
  intros En P Hf Hg. pose proof (traversal_length _ _ P) as L. subst n.
  pose proof (l2_dist_error_trav a b trav Hf) as B. cbv zeta in B.
  rewrite L, (trav_SSE a b trav P) in B. exact (B Hg).
Qed.

Theorem l2_dist_error_pos a b trav n : n = length a -> is_traversal trav n ->
  fin (l2_dist O a b trav) = true -> 0 < SSE a b ->
  Rabs (B2R (l2_dist O a b trav) - sqrt (SSE a b))
    <= ((1 + u64) * g64 (n + 2) + u64) * sqrt (SSE a b)
       + (1 + u64) * (INR n * (1 + g64 n) * eta64) / sqrt (SSE a b).
Proof.
  intros En P Hf HS. pose proof (traversal_length _ _ P) as L. subst n.
  pose proof (l2_dist_error_trav_pos a b trav Hf) as B. cbv zeta in B.
  rewrite L, (trav_SSE a b trav P) in B. exact (B HS).
Qed.

Theorem mean_abs_err_error a b trav n : n = length a -> is_traversal trav n ->
  (1 <= n)%nat -> (Z.of_nat n <= 2 ^ 53)%Z ->
  fin (mean_abs_err O a b trav) = true ->
  Rabs (B2R (mean_abs_err O a b trav) - SAE a b / INR n) <= g64 (n + 1) * (SAE a b / INR n) + eta64.
Proof.
  intros En P H1 H2 Hf. pose proof (traversal_length _ _ P) as L.
  pose proof (mean_abs_err_error_trav a b trav n En L H1 H2 Hf) as B. cbv zeta in B.
  subst n. rewrite (trav_SAE a b trav P) in B. exact B.
Qed.

Theorem mean_sq_err_error a b trav n : n = length a -> is_traversal trav n ->
  (1 <= n)%nat -> (Z.of_nat n <= 2 ^ 53)%Z ->
  fin (mean_sq_err O a b trav) = true ->
  Rabs (B2R (mean_sq_err O a b trav) - SSE a b / INR n)
    <= g64 (n + 3) * (SSE a b / INR n) + (2 + g64 (n + 1)) * eta64.
Proof.
  intros En P H1 H2 Hf. pose proof (traversal_length _ _ P) as L.
  pose proof (mean_sq_err_error_trav a b trav n En L H1 H2 Hf) as B. cbv zeta in B.
  subst n. rewrite (trav_SSE a b trav P) in B. exact B.
Qed.

Theorem root_mean_sq_err_error a b trav n : n = length a -> is_traversal trav n ->
  (1 <= n)%nat -> (Z.of_nat n <= 2 ^ 53)%Z ->
  fin (root_mean_sq_err O a b trav) = true -> g64 (n + 3) <= 1 ->
  Rabs (B2R (root_mean_sq_err O a b trav) - sqrt (SSE a b / INR n))
    <= ((1 + u64) * hsq (g64 (n + 3)) + u64) * sqrt (SSE a b / INR n)
       + (1 + u64) * sqrt ((2 + g64 (n + 1)) * eta64).
Proof.
  intros En P H1 H2 Hf Hg. pose proof (traversal_length _ _ P) as L.
  pose proof (root_mean_sq_err_error_trav a b trav n En L H1 H2 Hf Hg) as B. cbv zeta in B.
  subst n. rewrite (trav_SSE a b trav P) in B. exact B.
Qed.
End DerF64.

(* ------------------------------------------------------------------ *)
(* 5. Metric laws of the derived measures                              *)
(* ------------------------------------------------------------------ *)
Lemma sq_l2_pairs_zero l : Forall (fun ab => pair_fin ab /\ rdiff ab = 0) l -> sq_l2_pairs l = fzero.
Proof.
  intros HF. apply fold_fadd_zeros. rewrite Forall_map. eapply Forall_impl; [|exact HF].
  intros ab [F E]. apply tsq_zero; assumption.
Qed.
Lemma l1_pairs_zero l : Forall (fun ab => pair_fin ab /\ rdiff ab = 0) l -> l1_pairs l = fzero.
Proof.
  intros HF. apply fold_fadd_zeros. rewrite Forall_map. eapply Forall_impl; [|exact HF].
  intros ab [F E]. apply tabs_zero; assumption.
Qed.

Lemma Rsum_sq_zero {A} (f : A -> R) (l : list A) :
  Rsum (map (fun p => f p * f p) l) = 0 -> Forall (fun p => f p = 0) l.
Proof.
  induction l as [|p l IH]; intros E; [constructor|].
  cbn [map] in E. rewrite Rsum_cons in E.
  assert (H1 : 0 <= f p * f p) by apply Rle_0_sqr.
  assert (H2 : 0 <= Rsum (map (fun p => f p * f p) l)) by (apply Rsum_map_nonneg; intros q; apply Rle_0_sqr).
  constructor; [nra|apply IH; lra].
Qed.
Lemma Rsum_abs_zero {A} (f : A -> R) (l : list A) :
  Rsum (map (fun p => Rabs (f p)) l) = 0 -> Forall (fun p => f p = 0) l.
Proof.
  induction l as [|p l IH]; intros E; [constructor|].
  cbn [map] in E. rewrite Rsum_cons in E.
  assert (H1 : 0 <= Rabs (f p)) by apply Rabs_pos.
  assert (H2 : 0 <= Rsum (map (fun p => Rabs (f p)) l)) by (apply Rsum_map_nonneg; intros q; apply Rabs_pos).
  constructor; [|apply IH; lra].
  destruct (Req_dec (f p) 0) as [Z|NZ]; [exact Z|]. apply Rabs_pos_lt in NZ. lra.
Qed.

Section Laws.
Variables lt et : list (Z * Z).
Local Notation O := (f64_ops lt et).

Lemma zip_trav_zero a b trav : reads_fin a trav -> reads_fin b trav ->
  Forall (fun p => rdiff_at a b p = 0) trav ->
  Forall (fun ab => pair_fin ab /\ rdiff ab = 0) (zip_trav O a b trav).
Proof.
  intros Fa Fb HZ. unfold zip_trav. rewrite Forall_map. unfold reads_fin in *.
  rewrite Forall_forall in *. intros p Hp. split; [split; cbn [fst snd]; [apply Fa|apply Fb]; exact Hp|].
  exact (HZ p Hp).
Qed.

(* the accumulations are the bit pattern +0 as soon as the exact sum is 0, i.e. when the arrays
   are numerically equal at the positions read (this includes -0 against +0) *)
Theorem sq_l2_dist_zero a b trav : reads_fin a trav -> reads_fin b trav ->
  Rsum (map (fun p => rdiff_at a b p * rdiff_at a b p) trav) = 0 -> sq_l2_dist O a b trav = fzero.
Proof.
  intros Fa Fb E. rewrite sq_l2_dist_pairs. apply sq_l2_pairs_zero, zip_trav_zero; try assumption.
  apply (Rsum_sq_zero (rdiff_at a b)). exact E.
Qed.
Theorem l1_dist_zero a b trav : reads_fin a trav -> reads_fin b trav ->
  Rsum (map (fun p => Rabs (rdiff_at a b p)) trav) = 0 -> l1_dist O a b trav = fzero.
Proof.
  intros Fa Fb E. rewrite l1_dist_pairs. apply l1_pairs_zero, zip_trav_zero; try assumption.
  apply (Rsum_abs_zero (rdiff_at a b)). exact E.
Qed.

(* L1. exact zero: on identical arguments, and more generally when the exact sum is zero *)
Theorem l2_dist_zero a b trav : reads_fin a trav -> reads_fin b trav ->
  Rsum (map (fun p => rdiff_at a b p * rdiff_at a b p) trav) = 0 -> l2_dist O a b trav = fzero.
Proof. intros Fa Fb E. rewrite l2_dist_unfold, (sq_l2_dist_zero a b trav Fa Fb E). reflexivity. Qed.

Theorem mean_abs_err_zero a b trav : reads_fin a trav -> reads_fin b trav ->
  (1 <= length a)%nat -> (Z.of_nat (length a) <= 2 ^ 53)%Z ->
  Rsum (map (fun p => Rabs (rdiff_at a b p)) trav) = 0 -> mean_abs_err O a b trav = fzero.
Proof.
  intros Fa Fb H1 H2 E. rewrite mean_abs_err_unfold, (l1_dist_zero a b trav Fa Fb E).
  destruct (of_nat_exact _ H1 H2) as (Fn & En & Pn). apply fdiv_fzero_pos; [exact Fn|rewrite En; exact Pn].
Qed.

Theorem mean_sq_err_zero a b trav : reads_fin a trav -> reads_fin b trav ->
  (1 <= length a)%nat -> (Z.of_nat (length a) <= 2 ^ 53)%Z ->
  Rsum (map (fun p => rdiff_at a b p * rdiff_at a b p) trav) = 0 -> mean_sq_err O a b trav = fzero.
Proof.
  intros Fa Fb H1 H2 E. rewrite mean_sq_err_unfold, (sq_l2_dist_zero a b trav Fa Fb E).
  destruct (of_nat_exact _ H1 H2) as (Fn & En & Pn). apply fdiv_fzero_pos; [exact Fn|rewrite En; exact Pn].
Qed.

Theorem root_mean_sq_err_zero a b trav : reads_fin a trav -> reads_fin b trav ->
  (1 <= length a)%nat -> (Z.of_nat (length a) <= 2 ^ 53)%Z ->
  Rsum (map (fun p => rdiff_at a b p * rdiff_at a b p) trav) = 0 -> root_mean_sq_err O a b trav = fzero.
Proof.
  intros Fa Fb H1 H2 E. rewrite root_mean_sq_err_unfold, (mean_sq_err_zero a b trav Fa Fb H1 H2 E). reflexivity.
Qed.

Lemma self_sq_zero a trav : Rsum (map (fun p => rdiff_at a a p * rdiff_at a a p) trav) = 0.
Proof.
  induction trav as [|p t IH]; [reflexivity|]. cbn [map]. rewrite Rsum_cons, IH. unfold rdiff_at. ring.
Qed.
Lemma self_abs_zero a trav : Rsum (map (fun p => Rabs (rdiff_at a a p)) trav) = 0.
Proof.
  induction trav as [|p t IH]; [reflexivity|]. cbn [map]. rewrite Rsum_cons, IH. unfold rdiff_at.
  rewrite Rminus_diag_eq, Rabs_R0 by reflexivity. ring.
Qed.

Theorem derived_self a trav : reads_fin a trav -> (1 <= length a)%nat -> (Z.of_nat (length a) <= 2 ^ 53)%Z ->
  l2_dist O a a trav = fzero /\ mean_abs_err O a a trav = fzero /\
  mean_sq_err O a a trav = fzero /\ root_mean_sq_err O a a trav = fzero.
Proof.
  intros Fa H1 H2. repeat split.
  - apply l2_dist_zero; try assumption. apply self_sq_zero.
  - apply mean_abs_err_zero; try assumption. apply self_abs_zero.
  - apply mean_sq_err_zero; try assumption. apply self_sq_zero.
  - apply root_mean_sq_err_zero; try assumption. apply self_sq_zero.
Qed.

(* L2. symmetry, bit for bit (whatever the result: finite, infinite or NaN) *)
Theorem derived_sym a b trav : reads_fin a trav -> reads_fin b trav -> length a = length b ->
  l2_dist O a b trav = l2_dist O b a trav /\ mean_abs_err O a b trav = mean_abs_err O b a trav /\
  mean_sq_err O a b trav = mean_sq_err O b a trav /\ root_mean_sq_err O a b trav = root_mean_sq_err O b a trav.
Proof.
  intros Fa Fb L.
  pose proof (sq_l2_dist_sym lt et a b trav Fa Fb) as E2.
  pose proof (l1_dist_sym lt et a b trav Fa Fb) as E1.
  rewrite !root_mean_sq_err_unfold, !l2_dist_unfold, !mean_abs_err_unfold, !mean_sq_err_unfold.
  rewrite E1, E2, L. repeat split; reflexivity.
Qed.

Theorem psnr_sym flog10 a b trav maxv : reads_fin a trav -> reads_fin b trav -> length a = length b ->
  psnr O flog10 a b trav maxv = psnr O flog10 b a trav maxv.
Proof.
  intros Fa Fb L. unfold psnr. destruct (derived_sym a b trav Fa Fb L) as (_ & _ & E & _). rewrite E. reflexivity.
Qed.

(* L3. non-negativity (of the real value; a non-finite result has real value 0 by convention,
   and is never negative infinity - see derived_not_neg_inf below for the roots) *)
Theorem derived_nonneg a b trav : (1 <= length a)%nat -> (Z.of_nat (length a) <= 2 ^ 53)%Z ->
  0 <= B2R (l2_dist O a b trav) /\ 0 <= B2R (mean_abs_err O a b trav) /\
  0 <= B2R (mean_sq_err O a b trav) /\ 0 <= B2R (root_mean_sq_err O a b trav).
Proof.
  intros H1 H2. repeat split.
  - rewrite l2_dist_unfold. apply fsqrt_nonneg.
  - apply mean_abs_err_nonneg; assumption.
  - apply mean_sq_err_nonneg; assumption.
  - rewrite root_mean_sq_err_unfold. apply fsqrt_nonneg.
Qed.
End Laws.

(* ------------------------------------------------------------------ *)
(* 6. The hypotheses are satisfiable: a concrete run                   *)
(* ------------------------------------------------------------------ *)
Definition ex_a : list F64 := [f64_of_Z 1; f64_of_Z 2; f64_of_Z 4].
Definition ex_b : list F64 := [fhalf; f64_of_Z 3; f64_of_Z 1].
Definition ex_trav : list nat := [2; 0; 1]%nat.
Definition OX : ops F64 := f64_ops [] [].

Lemma ex_traversal : is_traversal ex_trav 3.
Proof.
  unfold is_traversal, ex_trav. cbn [seq].
  eapply perm_trans; [apply perm_swap|]. apply perm_skip. apply perm_swap.
Qed.

Lemma g64_small_ex k : (k <= 1000)%nat -> g64 k <= 1.
Proof. intros Hk. eapply Rle_trans; [apply g64_quarter; lia|lra]. Qed.

(* sqrt(0.25 + 1 + 9), (0.5 + 1 + 3)/3, 10.25/3, sqrt(10.25/3) *)
Example ex_values :
  bits_of_f64 (l2_dist OX ex_a ex_b ex_trav) = 0x40099ccc999fff00%Z /\
  bits_of_f64 (mean_abs_err OX ex_a ex_b ex_trav) = 0x3FF8000000000000%Z /\
  bits_of_f64 (mean_sq_err OX ex_a ex_b ex_trav) = 0x400B555555555555%Z /\
  bits_of_f64 (root_mean_sq_err OX ex_a ex_b ex_trav) = 0x3ffd9323bc1053a7%Z.
Proof. vm_compute. repeat split. Qed.

Lemma ex_finite :
  fin (l2_dist OX ex_a ex_b ex_trav) = true /\ fin (mean_abs_err OX ex_a ex_b ex_trav) = true /\
  fin (mean_sq_err OX ex_a ex_b ex_trav) = true /\ fin (root_mean_sq_err OX ex_a ex_b ex_trav) = true.
Proof. vm_compute. repeat split. Qed.

Lemma B2R_fhalf : B2R fhalf = / 2.
Proof.
  assert (E : exists H, fhalf = B754_finite false 4503599627370496 (-53) H).
  { vm_compute. eexists. reflexivity. }
  destruct E as [H E]. rewrite E.
  unfold BinarySingleNaN.B2R, F2R. cbn [Fnum Fexp cond_Zopp].
  change (4503599627370496)%Z with (Zpower radix2 52). rewrite IZR_Zpower by lia.
  rewrite <- bpow_plus. reflexivity.
Qed.

(* the exact sums of the example: 41/4 and 9/2 *)
Lemma ex_sums : SSE ex_a ex_b = 41 / 4 /\ SAE ex_a ex_b = 9 / 2.
Proof.
  destruct (f64_of_Z_exact 1 ltac:(lia)) as [_ E1]. destruct (f64_of_Z_exact 2 ltac:(lia)) as [_ E2].
  destruct (f64_of_Z_exact 3 ltac:(lia)) as [_ E3]. destruct (f64_of_Z_exact 4 ltac:(lia)) as [_ E4].
  unfold SSE, SAE, ex_a, ex_b, rdiff_at. cbn [length seq map nth]. unfold Rsum. cbn [fold_right].
  rewrite E1, E2, E3, E4, B2R_fhalf. split; [field|].
  rewrite (Rabs_pos_eq (1 - / 2)), (Rabs_left (2 - 3)), (Rabs_pos_eq (4 - 1)) by lra. field.
Qed.

Example ex_l2_error :
  Rabs (B2R (l2_dist OX ex_a ex_b ex_trav) - sqrt (41 / 4))
    <= ((1 + u64) * hsq (g64 5) + u64) * sqrt (41 / 4) + (1 + u64) * sqrt (INR 3 * (1 + g64 3) * eta64).
Proof.
  rewrite <- (proj1 ex_sums).
  apply (l2_dist_error [] [] ex_a ex_b ex_trav 3 eq_refl ex_traversal (proj1 ex_finite)).
  apply g64_small_ex. lia.
Qed.

Example ex_mae_error :
  Rabs (B2R (mean_abs_err OX ex_a ex_b ex_trav) - 9 / 2 / INR 3) <= g64 4 * (9 / 2 / INR 3) + eta64.
Proof.
  rewrite <- (proj2 ex_sums).
  apply (mean_abs_err_error [] [] ex_a ex_b ex_trav 3 eq_refl ex_traversal); [lia|lia|apply ex_finite].
Qed.

Example ex_mse_error :
  Rabs (B2R (mean_sq_err OX ex_a ex_b ex_trav) - 41 / 4 / INR 3)
    <= g64 6 * (41 / 4 / INR 3) + (2 + g64 4) * eta64.
Proof.
  rewrite <- (proj1 ex_sums).
  apply (mean_sq_err_error [] [] ex_a ex_b ex_trav 3 eq_refl ex_traversal); [lia|lia|apply ex_finite].
Qed.

Example ex_rmse_error :
  Rabs (B2R (root_mean_sq_err OX ex_a ex_b ex_trav) - sqrt (41 / 4 / INR 3))
    <= ((1 + u64) * hsq (g64 6) + u64) * sqrt (41 / 4 / INR 3) + (1 + u64) * sqrt ((2 + g64 4) * eta64).
Proof.
  rewrite <- (proj1 ex_sums).
  apply (root_mean_sq_err_error [] [] ex_a ex_b ex_trav 3 eq_refl ex_traversal); [lia|lia|apply ex_finite|].
  apply g64_small_ex. lia.
Qed.

Lemma ex_reads_fin : reads_fin ex_a ex_trav /\ reads_fin ex_b ex_trav.
Proof. split; repeat constructor. Qed.

(* ------------------------------------------------------------------ *)
(* 7. The underflow term cannot be dropped                             *)
(* ------------------------------------------------------------------ *)
(* a purely relative bound  |l2_fl - sqrt S| <= c sqrt S  (c < 1)  is FALSE of the model: for
   a = [2^-540], b = [0] the square underflows to +0, so every derived measure is +0 although
   S = 2^-1080 > 0 *)
Definition cx_a : list F64 := [f64_of_bits 2175238620019949568].
Definition cx_b : list F64 := [fzero].

Theorem derived_relative_bound_refuted :
  l2_dist OX cx_a cx_b [0%nat] = fzero /\ mean_sq_err OX cx_a cx_b [0%nat] = fzero /\
  root_mean_sq_err OX cx_a cx_b [0%nat] = fzero /\ 0 < SSE cx_a cx_b /\
  forall c, c < 1 -> ~ Rabs (B2R (l2_dist OX cx_a cx_b [0%nat]) - sqrt (SSE cx_a cx_b)) <= c * sqrt (SSE cx_a cx_b).
Proof.
  assert (E1 : l2_dist OX cx_a cx_b [0%nat] = fzero) by (apply B2SF_inj; vm_compute; reflexivity).
  assert (E2 : mean_sq_err OX cx_a cx_b [0%nat] = fzero) by (apply B2SF_inj; vm_compute; reflexivity).
  assert (E3 : root_mean_sq_err OX cx_a cx_b [0%nat] = fzero) by (apply B2SF_inj; vm_compute; reflexivity).
  assert (PS : 0 < SSE cx_a cx_b).
  { unfold SSE, cx_a, cx_b, rdiff_at. cbn [length seq map nth]. unfold Rsum. cbn [fold_right].
    b2r_bits 2175238620019949568%Z as E. rewrite E, B2R_fzero. cbn [cond_Zopp].
    assert (Ppos : 0 < 4503599627370496 * powerRZ 2 (-592)).
    { apply Rmult_lt_0_compat; [lra|apply powerRZ_lt; lra]. }
    nra. }
  repeat split; try assumption.
  intros c Hc B. rewrite E1, B2R_fzero in B. pose proof (sqrt_lt_R0 _ PS) as Hr.
  rewrite Rminus_0_l, Rabs_Ropp, Rabs_pos_eq in B by lra. nra.
Qed.

(* ------------------------------------------------------------------ *)
(* 8. The exact references are the same definitions at the real instance *)
(* ------------------------------------------------------------------ *)
Lemma nth_map_B2R (a : list F64) p : nth p (map B2R a) 0 = B2R (nth p a fzero).
Proof. change 0 with (B2R fzero). apply map_nth. Qed.

Lemma fold_sq_R (l : list (R * R)) : forall acc,
  fold_left (fun r ab => o_add R_ops r (o_mul R_ops (o_sub R_ops (fst ab) (snd ab)) (o_sub R_ops (fst ab) (snd ab)))) l acc
  = acc + Rsum (map (fun ab => (fst ab - snd ab) * (fst ab - snd ab)) l).
Proof.
  induction l as [|ab l IH]; intros acc; cbn [fold_left map]; [unfold Rsum; simpl; ring|].
  rewrite IH, Rsum_cons. cbn [o_add o_mul o_sub R_ops]. ring.
Qed.
Lemma fold_abs_R (l : list (R * R)) : forall acc,
  fold_left (fun r ab => o_add R_ops r (o_abs R_ops (o_sub R_ops (fst ab) (snd ab)))) l acc
  = acc + Rsum (map (fun ab => Rabs (fst ab - snd ab)) l).
Proof.
  induction l as [|ab l IH]; intros acc; cbn [fold_left map]; [unfold Rsum; simpl; ring|].
  rewrite IH, Rsum_cons. cbn [o_add o_abs o_sub R_ops]. ring.
Qed.

Theorem sq_l2_dist_R a b trav :
  sq_l2_dist R_ops (map B2R a) (map B2R b) trav = Rsum (map (fun p => rdiff_at a b p * rdiff_at a b p) trav).
Proof.
  unfold sq_l2_dist. rewrite fold_sq_R. cbn [o_zero R_ops]. rewrite Rplus_0_l.
  unfold zip_trav. rewrite map_map. cbn [fst snd o_zero R_ops]. f_equal.
  apply map_ext. intros p. rewrite !nth_map_B2R. reflexivity.
Qed.
Theorem l1_dist_R a b trav :
  l1_dist R_ops (map B2R a) (map B2R b) trav = Rsum (map (fun p => Rabs (rdiff_at a b p)) trav).
Proof.
  unfold l1_dist. rewrite fold_abs_R. cbn [o_zero R_ops]. rewrite Rplus_0_l.
  unfold zip_trav. rewrite map_map. cbn [fst snd o_zero R_ops]. f_equal.
  apply map_ext. intros p. rewrite !nth_map_B2R. reflexivity.
Qed.

(* for a traversal of all positions: sqrt(SSE), SAE/n, SSE/n, sqrt(SSE/n) *)
Theorem derived_R a b trav : is_traversal trav (length a) ->
  l2_dist R_ops (map B2R a) (map B2R b) trav = sqrt (SSE a b) /\
  mean_abs_err R_ops (map B2R a) (map B2R b) trav = SAE a b / INR (length a) /\
  mean_sq_err R_ops (map B2R a) (map B2R b) trav = SSE a b / INR (length a) /\
  root_mean_sq_err R_ops (map B2R a) (map B2R b) trav = sqrt (SSE a b / INR (length a)).
Proof.
  intros P. unfold root_mean_sq_err, l2_dist, mean_abs_err, mean_sq_err.
  rewrite sq_l2_dist_R, l1_dist_R, (Rsum_map_perm _ _ _ P), (Rsum_map_perm _ _ _ P), map_length.
  repeat split; reflexivity.
Qed.

(* ------------------------------------------------------------------ *)
(* 9. First-order forms: g64 k <= 2 k u64 for k u64 <= 1/2              *)
(* ------------------------------------------------------------------ *)
Lemma g64_le_2ku k : INR k * u64 <= / 2 -> g64 k <= 2 * (INR k * u64).
Proof.
  intros Hk. pose proof u64_pos as Hu.
  assert (P : 0 <= INR k * u64) by (apply Rmult_le_pos; [apply pos_INR|lra]).
  eapply Rle_trans; [apply g64_le_lin; lra|].
  apply Rmult_le_reg_r with (1 - INR k * u64); [lra|].
  unfold Rdiv. rewrite Rmult_assoc, Rinv_l by lra. nra.
Qed.

Section Explicit.
Variables lt et : list (Z * Z).
Local Notation O := (f64_ops lt et).

Corollary mean_abs_err_error_lin a b trav n : n = length a -> is_traversal trav n ->
  (1 <= n)%nat -> INR (n + 1) * u64 <= / 2 ->
  fin (mean_abs_err O a b trav) = true ->
  Rabs (B2R (mean_abs_err O a b trav) - SAE a b / INR n)
    <= 2 * (INR (n + 1) * u64) * (SAE a b / INR n) + eta64.
Proof.
  intros En P H1 Hs Hf.
  assert (H2 : (Z.of_nat n <= 2 ^ 53)%Z).
  { apply Z.lt_le_incl. apply lt_IZR. rewrite <- INR_IZR_INZ.
    change (2 ^ 53)%Z with (Zpower radix2 53). rewrite IZR_Zpower by lia.
    rewrite plus_INR in Hs. simpl INR in Hs. pose proof u64_pos as Hu.
    assert (E : u64 * bpow radix2 53 = 1) by (unfold u64; rewrite <- bpow_plus; reflexivity).
    pose proof (bpow_gt_0 radix2 53) as Hb. nra. }
  eapply Rle_trans; [apply (mean_abs_err_error lt et a b trav n); assumption|].
  apply Rplus_le_compat_r. apply Rmult_le_compat_r; [|apply g64_le_2ku; exact Hs].
  unfold Rdiv. apply Rmult_le_pos; [apply SAE_nonneg|apply Rlt_le, Rinv_0_lt_compat, lt_0_INR; lia].
Qed.

Corollary mean_sq_err_error_lin a b trav n : n = length a -> is_traversal trav n ->
  (1 <= n)%nat -> INR (n + 3) * u64 <= / 2 ->
  fin (mean_sq_err O a b trav) = true ->
  Rabs (B2R (mean_sq_err O a b trav) - SSE a b / INR n)
    <= 2 * (INR (n + 3) * u64) * (SSE a b / INR n) + 3 * eta64.
Proof.
  intros En P H1 Hs Hf. pose proof u64_pos as Hu.
  assert (Hs1 : INR (n + 1) * u64 <= / 2).
  { eapply Rle_trans; [|exact Hs]. apply Rmult_le_compat_r; [lra|]. apply le_INR. lia. }
  assert (H2 : (Z.of_nat n <= 2 ^ 53)%Z).
  { apply Z.lt_le_incl. apply lt_IZR. rewrite <- INR_IZR_INZ.
    change (2 ^ 53)%Z with (Zpower radix2 53). rewrite IZR_Zpower by lia.
    rewrite plus_INR in Hs1. simpl INR in Hs1.
    assert (E : u64 * bpow radix2 53 = 1) by (unfold u64; rewrite <- bpow_plus; reflexivity).
    pose proof (bpow_gt_0 radix2 53) as Hb. nra. }
  eapply Rle_trans; [apply (mean_sq_err_error lt et a b trav n); assumption|].
  pose proof (g64_le_2ku _ Hs) as G3. pose proof (g64_le_2ku _ Hs1) as G1. pose proof eta64_pos as Het.
  apply Rplus_le_compat.
  - apply Rmult_le_compat_r; [|exact G3].
    unfold Rdiv. apply Rmult_le_pos; [apply SSE_nonneg|apply Rlt_le, Rinv_0_lt_compat, lt_0_INR; lia].
  - apply Rmult_le_compat_r; lra.
Qed.
End Explicit.

Print Assumptions l2_dist_error.
Print Assumptions l2_dist_error_pos.
Print Assumptions mean_abs_err_error.
Print Assumptions mean_sq_err_error.
Print Assumptions root_mean_sq_err_error.
Print Assumptions derived_self.
Print Assumptions derived_sym.
Print Assumptions derived_nonneg.
Print Assumptions l2_dist_zero.
