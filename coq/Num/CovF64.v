(* Forward error in IEEE-754 binary64 of one entry of the covariance matrix (correlation.rs: cov),
   for ANY evaluation order of the row sums and of the matrix product, with or without fused
   multiply-add.

   - [ffma a b c] is Flocq's [Bfma] (round-to-nearest-even of a*b + c, one rounding).
   - [dot_eval l v h]: v is the value of SOME binary tree of height <= h over the terms a_k*b_k of l
     (any order, zero-initialised accumulators allowed) where each product is either rounded on its
     own ([fmul]) or fused into the addition consuming it ([ffma]).
   - [dot_eval_error]: the Higham-style bound for every such v.
   - [cov_entry_error_f64]: the entry  fdiv v (fsub n ddof)  against the real covariance with EXACT
     means, for centred data d_ik = fsub x_ik m_i' with arbitrary approximate means m_i'.
   - symmetry within twice the bound, non-negativity of diagonal entries.
   - [cov_model_entry_error]: the executable model Num/Cov.v at the binary64 operations is an instance. *)
From Flocq Require Import Core BinarySingleNaN Plus_error Relative Ulp.
Require Import Reals Lra Lia ZArith Psatz Bool List Permutation.
From NS Require Import Num.F64 Num.Ops Num.F64Inst Num.Cov Num.SumBridge Num.SumF64
  Quantile.IndexProofs Quantile.InterpF64 Num.DeviationF64 Num.MeansF64.
Import ListNotations.
Open Scope R_scope.

Local Instance prec64_gt_0C : Prec_gt_0 53 := Hprec64.
Local Instance vexp64C : Valid_exp (SpecFloat.fexp 53 1024) := fexp_correct 53 1024 Hprec64.

(* ------------------------------------------------------------------ *)
(* 0. Fused multiply-add                                               *)
(* ------------------------------------------------------------------ *)
Definition ffma (a b c : F64) : F64 := @Bfma 53 1024 Hprec64 Hmax64 mode_NE a b c.

Lemma ffma_finite_args (a b c : F64) : fin (ffma a b c) = true ->
  fin a = true /\ fin b = true /\ fin c = true.
Proof.
  unfold ffma.
  destruct a as [sa|sa| |sa ma ea Ha], b as [sb|sb| |sb mb eb Hb], c as [sc|sc| |sc mc ec Hc];
    cbn [Bfma is_finite]; intros H; try discriminate H; auto;
    try (destruct (Bool.eqb _ sc); discriminate H).
Qed.

(* the real-number semantics of the fused step: ONE rounding of a*b + c *)
Lemma ffma_value (a b c : F64) : fin (ffma a b c) = true ->
  B2R (ffma a b c) = rnd (B2R a * B2R b + B2R c).
Proof.
  intros Hf. destruct (ffma_finite_args a b c Hf) as (Fa & Fb & Fc).
  pose proof (Bfma_correct 53 1024 Hprec64 Hmax64 mode_NE a b c Fa Fb Fc) as C.
  cbv zeta in C. fold (ffma a b c) in C. destruct (Rlt_bool _ _) in C.
  - destruct C as [C _]. exact C.
  - apply not_fin_overflow in C. rewrite C in Hf. discriminate Hf.
Qed.

(* ------------------------------------------------------------------ *)
(* 1. Evaluation orders                                                *)
(* ------------------------------------------------------------------ *)
(* sums: any summation tree (Num/SumF64.v), zero-initialised accumulators allowed *)
Definition sum_eval (xs : list F64) (v : F64) (h : nat) : Prop := exists k, sum_tree_for v xs k h.

Definition fprod (ab : F64 * F64) : F64 := fmul (fst ab) (snd ab).

Inductive dot_eval : list (F64 * F64) -> F64 -> nat -> Prop :=
| DE_zero h : dot_eval [] fzero h
| DE_prod a b h : dot_eval [(a, b)] (fmul a b) h
| DE_add l1 l2 v1 v2 h : dot_eval l1 v1 h -> dot_eval l2 v2 h -> dot_eval (l1 ++ l2) (fadd v1 v2) (S h)
| DE_fma a b l acc h : dot_eval l acc h -> dot_eval ((a, b) :: l) (ffma a b acc) (S h)
| DE_perm l l' v h : Permutation l l' -> dot_eval l v h -> dot_eval l' v h.

Lemma dot_eval_mono l v h : dot_eval l v h -> forall h', (h <= h')%nat -> dot_eval l v h'.
Proof.
  induction 1 as [h|a b h|l1 l2 v1 v2 h D1 IH1 D2 IH2|a b l acc h D IH|l l' v h P D IH]; intros h' Hh.
  - constructor.
  - constructor.
  - destruct h' as [|h']; [lia|]. apply DE_add; [apply IH1|apply IH2]; lia.
  - destruct h' as [|h']; [lia|]. apply DE_fma. apply IH. lia.
  - eapply DE_perm; [exact P|]. apply IH. exact Hh.
Qed.

(* finiteness of the result propagates to all inputs *)
Definition pair_finite (ab : F64 * F64) : Prop := fin (fst ab) = true /\ fin (snd ab) = true.

Lemma dot_eval_finite l v h : dot_eval l v h -> fin v = true -> Forall pair_finite l.
Proof.
  induction 1 as [h|a b h|l1 l2 v1 v2 h D1 IH1 D2 IH2|a b l acc h D IH|l l' v h P D IH]; intros Hf.
  - constructor.
  - constructor; [|constructor]. exact (fmul_finite_args a b Hf).
  - destruct (fadd_finite_args v1 v2 Hf) as [F1 F2]. apply Forall_app. split; [apply IH1|apply IH2]; assumption.
  - destruct (ffma_finite_args a b acc Hf) as (Fa & Fb & Fc). constructor; [split; assumption|apply IH; exact Fc].
  - eapply Permutation_Forall; [exact P|]. apply IH. exact Hf.
Qed.

(* ------------------------------------------------------------------ *)
(* 2. Real-number steps                                                *)
(* ------------------------------------------------------------------ *)
Lemma g64_S1 k : 1 + g64 (S k) = (1 + g64 k) * (1 + u64).
Proof. unfold g64. simpl. ring. Qed.

Lemma Rabs_1pe (e : R) : Rabs e <= u64 -> Rabs (1 + e) <= 1 + u64.
Proof. intros He. eapply Rle_trans; [apply Rabs_triang|]. rewrite Rabs_R1. lra. Qed.

Lemma add_step (v1 v2 S1 S2 A1 A2 U1 U2 G e : R) :
  0 <= G -> Rabs e <= u64 -> Rabs S1 <= A1 -> Rabs S2 <= A2 ->
  Rabs (v1 - S1) <= G * A1 + U1 -> Rabs (v2 - S2) <= G * A2 + U2 ->
  Rabs ((v1 + v2) * (1 + e) - (S1 + S2))
    <= (G * (1 + u64) + u64) * (A1 + A2) + (U1 + U2) * (1 + u64).
Proof.
  intros HG He H1 H2 B1 B2. pose proof u64_pos as Hu.
  replace ((v1 + v2) * (1 + e) - (S1 + S2))
    with (((v1 - S1) + (v2 - S2)) * (1 + e) + (S1 + S2) * e) by ring.
  eapply Rle_trans; [apply Rabs_triang|]. rewrite !Rabs_mult.
  assert (X1 : Rabs ((v1 - S1) + (v2 - S2)) <= G * (A1 + A2) + (U1 + U2)).
  { eapply Rle_trans; [apply Rabs_triang|]. lra. }
  pose proof (Rabs_1pe e He) as X2.
  assert (X3 : Rabs (S1 + S2) <= A1 + A2).
  { eapply Rle_trans; [apply Rabs_triang|]. lra. }
  assert (P1 : Rabs ((v1 - S1) + (v2 - S2)) * Rabs (1 + e) <= (G * (A1 + A2) + (U1 + U2)) * (1 + u64)).
  { apply Rmult_le_compat; try apply Rabs_pos; assumption. }
  assert (P2 : Rabs (S1 + S2) * Rabs e <= (A1 + A2) * u64).
  { apply Rmult_le_compat; try apply Rabs_pos; assumption. }
  replace ((G * (1 + u64) + u64) * (A1 + A2) + (U1 + U2) * (1 + u64))
    with ((G * (A1 + A2) + (U1 + U2)) * (1 + u64) + (A1 + A2) * u64) by ring.
  lra.
Qed.

Lemma fma_step (p acc S A U G e e' : R) :
  0 <= G -> Rabs e <= u64 -> Rabs e' <= eta64 -> Rabs S <= A ->
  Rabs (acc - S) <= G * A + U ->
  Rabs ((p + acc) * (1 + e) + e' - (p + S))
    <= (G * (1 + u64) + u64) * (Rabs p + A) + (U * (1 + u64) + eta64).
Proof.
  intros HG He He' HS B. pose proof u64_pos as Hu.
  replace ((p + acc) * (1 + e) + e' - (p + S)) with ((acc - S) * (1 + e) + (p + S) * e + e') by ring.
  eapply Rle_trans; [apply Rabs_triang|]. eapply Rle_trans; [apply Rplus_le_compat_r; apply Rabs_triang|].
  rewrite !Rabs_mult.
  pose proof (Rabs_1pe e He) as X2.
  assert (X3 : Rabs (p + S) <= Rabs p + A).
  { eapply Rle_trans; [apply Rabs_triang|]. lra. }
  assert (P1 : Rabs (acc - S) * Rabs (1 + e) <= (G * A + U) * (1 + u64)).
  { apply Rmult_le_compat; try apply Rabs_pos; assumption. }
  assert (P2 : Rabs (p + S) * Rabs e <= (Rabs p + A) * u64).
  { apply Rmult_le_compat; try apply Rabs_pos; assumption. }
  assert (P3 : 0 <= G * (1 + u64) * Rabs p).
  { apply Rmult_le_pos; [apply Rmult_le_pos; lra|apply Rabs_pos]. }
  replace ((G * (1 + u64) + u64) * (Rabs p + A) + (U * (1 + u64) + eta64))
    with ((G * A + U) * (1 + u64) + (Rabs p + A) * u64 + eta64 + G * (1 + u64) * Rabs p) by ring.
  lra.
Qed.

(* ------------------------------------------------------------------ *)
(* 3. The dot-product bound for every evaluation order, fused or not    *)
(* ------------------------------------------------------------------ *)
Definition dot_uflow (n h : nat) : R := INR n * (1 + g64 h) * eta64.

Lemma dot_uflow_nonneg n h : 0 <= dot_uflow n h.
Proof.
  unfold dot_uflow. pose proof (g64_nonneg h). pose proof eta64_pos. pose proof (pos_INR n).
  apply Rmult_le_pos; [apply Rmult_le_pos|]; lra.
Qed.

Lemma dot_eval_error_S l v h : dot_eval l v h -> fin v = true ->
  Rabs (B2R v - Rsum (map rprod l)) <= g64 (S h) * Rasum (map rprod l) + dot_uflow (length l) h.
Proof.
  induction 1 as [h|a b h|l1 l2 v1 v2 h D1 IH1 D2 IH2|a b l acc h D IH|l l' v h P D IH]; intros Hf.
  - cbn [map length]. unfold Rsum, Rasum, dot_uflow. cbn [fold_right INR].
    change (B2R fzero) with 0. rewrite Rminus_0_r, Rabs_R0. lra.
  - cbn [map length]. rewrite (fmul_value a b Hf).
    destruct (rnd_model (B2R a * B2R b)) as (e & e' & He & He' & E). rewrite E.
    unfold Rsum, Rasum, dot_uflow, rprod. cbn [fold_right fst snd INR]. rewrite !Rplus_0_r.
    set (p := B2R a * B2R b).
    replace (p * (1 + e) + e' - p) with (p * e + e') by ring.
    eapply Rle_trans; [apply Rabs_triang|]. rewrite Rabs_mult.
    pose proof (g64_nonneg h) as G. pose proof eta64_pos as Het. pose proof u64_pos as Hu.
    assert (Q : Rabs p * Rabs e <= Rabs p * u64) by (apply Rmult_le_compat_l; [apply Rabs_pos|exact He]).
    assert (G1 : u64 <= g64 (S h)) by (rewrite g64_S; nra).
    assert (Q2 : Rabs p * u64 <= g64 (S h) * Rabs p).
    { rewrite (Rmult_comm (g64 (S h))). apply Rmult_le_compat_l; [apply Rabs_pos|exact G1]. }
    assert (Q3 : eta64 <= 1 * (1 + g64 h) * eta64) by nra.
    lra.
  - destruct (fadd_finite_args v1 v2 Hf) as [F1 F2].
    specialize (IH1 F1). specialize (IH2 F2).
    rewrite (fadd_value v1 v2 Hf).
    destruct (rnd_plus_model (B2R v1) (B2R v2) (fmt_B2R _) (fmt_B2R _)) as (e & He & E). rewrite E.
    assert (He' : Rabs e <= u64) by (pose proof u64_frac_le; lra).
    unfold dot_uflow in *. rewrite !map_app, Rsum_app, Rasum_app, app_length, plus_INR.
    rewrite (g64_S (S h)).
    pose proof (add_step (B2R v1) (B2R v2) _ _ _ _ _ _ (g64 (S h)) e (g64_nonneg _) He'
                  (Rsum_le_Rasum _) (Rsum_le_Rasum _) IH1 IH2) as B.
    eapply Rle_trans; [exact B|]. apply Rplus_le_compat_l.
    rewrite g64_S1. apply Req_le. ring.
  - destruct (ffma_finite_args a b acc Hf) as (Fa & Fb & Fc). specialize (IH Fc).
    rewrite (ffma_value a b acc Hf).
    destruct (rnd_model (B2R a * B2R b + B2R acc)) as (e & e' & He & He' & E). rewrite E.
    cbn [map]. rewrite Rsum_cons, Rasum_cons. unfold dot_uflow in *.
    change (length ((a, b) :: l)) with (S (length l)). rewrite S_INR.
    unfold rprod at 1 3. cbn [fst snd]. rewrite (g64_S (S h)).
    pose proof (fma_step (B2R a * B2R b) (B2R acc) _ _ _ (g64 (S h)) e e' (g64_nonneg _) He He'
                  (Rsum_le_Rasum _) IH) as B.
    eapply Rle_trans; [exact B|]. apply Rplus_le_compat_l.
    rewrite g64_S1.
    pose proof (g64_nonneg h) as G. pose proof eta64_pos as Het. pose proof u64_pos as Hu.
    assert (Q : eta64 <= (1 + g64 h) * (1 + u64) * eta64).
    { assert (1 <= (1 + g64 h) * (1 + u64)) by nra. nra. }
    lra.
  - specialize (IH Hf). pose proof (Permutation_map rprod P) as PR.
    rewrite <- (Rsum_perm _ _ PR), <- (Rasum_perm _ _ PR), <- (Permutation_length P). exact IH.
Qed.

Theorem dot_eval_error l v h : dot_eval l v h -> fin v = true ->
  Rabs (B2R v - Rsum (map rprod l))
    <= g64 (h + 1) * Rasum (map rprod l) + INR (length l) * (1 + g64 h) * eta64.
Proof.
  intros D Hf. replace (h + 1)%nat with (S h) by lia. exact (dot_eval_error_S l v h D Hf).
Qed.

(* sums and fused sums of non-negative terms are non-negative *)
Theorem dot_eval_nonneg l v h : dot_eval l v h -> Forall (fun ab => 0 <= rprod ab) l ->
  fin v = true -> 0 <= B2R v.
Proof.
  induction 1 as [h|a b h|l1 l2 v1 v2 h D1 IH1 D2 IH2|a b l acc h D IH|l l' v h P D IH]; intros HP Hf.
  - change (B2R fzero) with 0. lra.
  - rewrite (fmul_value a b Hf). apply rnd_ge_0. inversion HP as [|? ? Hab _]; subst. exact Hab.
  - destruct (fadd_finite_args v1 v2 Hf) as [F1 F2]. apply Forall_app in HP. destruct HP as [HP1 HP2].
    rewrite (fadd_value v1 v2 Hf). apply rnd_ge_0.
    specialize (IH1 HP1 F1). specialize (IH2 HP2 F2). lra.
  - destruct (ffma_finite_args a b acc Hf) as (Fa & Fb & Fc).
    inversion HP as [|? ? Hab HP']; subst.
    rewrite (ffma_value a b acc Hf). apply rnd_ge_0. specialize (IH HP' Fc).
    unfold rprod in Hab. cbn [fst snd] in Hab. lra.
  - apply IH; [|exact Hf]. eapply Permutation_Forall; [apply Permutation_sym; exact P|exact HP].
Qed.

(* ------------------------------------------------------------------ *)
(* 4. Unfused instances: summation trees over rounded products, and the *)
(*    fused left-to-right accumulation (one matrixmultiply lane)        *)
(* ------------------------------------------------------------------ *)
Definition oprod (o : option (F64 * F64)) : F64 := match o with None => fzero | Some ab => fprod ab end.
Fixpoint somes {A} (l : list (option A)) : list A :=
  match l with [] => [] | None :: r => somes r | Some a :: r => a :: somes r end.

Lemma somes_app {A} (a b : list (option A)) : somes (a ++ b) = somes a ++ somes b.
Proof. induction a as [|[x|] a IH]; cbn [somes app]; [reflexivity|rewrite IH; reflexivity|exact IH]. Qed.
Lemma somes_perm {A} (a b : list (option A)) : Permutation a b -> Permutation (somes a) (somes b).
Proof.
  intros P. induction P as [|[x|] a b P IH|[x|] [y|] a|a b c P1 IH1 P2 IH2]; cbn [somes];
    try (constructor; assumption); try apply Permutation_refl; try assumption.
  eapply Permutation_trans; eassumption.
Qed.
Lemma somes_nones_map {A} k (l : list A) : somes (repeat None k ++ map Some l) = l.
Proof.
  induction k as [|k IH]; cbn [repeat app somes]; [|exact IH].
  induction l as [|a l IHl]; cbn [map somes]; [reflexivity|rewrite IHl; reflexivity].
Qed.

Lemma tree_dot_eval (t : ft) : forall ls, fleaves t = map oprod ls -> dot_eval (somes ls) (fev t) (fheight t).
Proof.
  induction t as [x|l IHl r IHr]; intros ls E.
  - cbn [fleaves] in E. destruct ls as [|o [|o' ls]]; try discriminate E.
    cbn [map] in E. injection E as E. rewrite fev_leaf, E. destruct o as [[a b]|]; cbn [somes oprod fprod fst snd].
    + apply DE_prod.
    + apply DE_zero.
  - cbn [fleaves] in E. symmetry in E. apply map_eq_app in E. destruct E as (ls1 & ls2 & -> & E1 & E2).
    rewrite somes_app, fev_node. cbn [fheight]. apply DE_add.
    + eapply dot_eval_mono; [apply IHl; symmetry; exact E1|lia].
    + eapply dot_eval_mono; [apply IHr; symmetry; exact E2|lia].
Qed.

Theorem sum_tree_dot_eval (l : list (F64 * F64)) v k h :
  sum_tree_for v (map fprod l) k h -> dot_eval l v h.
Proof.
  intros (t & Ev & P & Hh). subst v.
  assert (E : repeat fzero k ++ map fprod l = map oprod (repeat None k ++ map Some l)).
  { rewrite map_app, map_map. f_equal. clear. induction k as [|k IH]; cbn [repeat map oprod]; [reflexivity|rewrite IH; reflexivity]. }
  rewrite E in P.
  destruct (Permutation_map_inv _ _ P) as (ls' & E' & P').
  apply (dot_eval_mono _ _ (fheight t)); [|exact Hh].
  eapply DE_perm; [|apply tree_dot_eval; exact E'].
  pose proof (somes_perm _ _ P') as Q. rewrite somes_nones_map in Q. apply Permutation_sym. exact Q.
Qed.

(* acc = fma(a_k, b_k, acc), starting from +0 *)
Definition fma_dot (l : list (F64 * F64)) : F64 :=
  fold_left (fun acc ab => ffma (fst ab) (snd ab) acc) l fzero.

Lemma fma_dot_eval_gen l : forall done acc h, dot_eval done acc h ->
  dot_eval (rev l ++ done) (fold_left (fun acc ab => ffma (fst ab) (snd ab) acc) l acc) (h + length l).
Proof.
  induction l as [|[a b] l IH]; intros done acc h D.
  - cbn [rev app fold_left length]. rewrite Nat.add_0_r. exact D.
  - cbn [rev fold_left length fst snd]. rewrite <- app_assoc. cbn [app].
    replace (h + S (length l))%nat with (S h + length l)%nat by lia.
    apply IH. apply DE_fma. exact D.
Qed.

Theorem fma_dot_eval l : dot_eval l (fma_dot l) (length l).
Proof.
  pose proof (fma_dot_eval_gen l [] fzero 0%nat (DE_zero 0)) as D. rewrite app_nil_r in D.
  eapply DE_perm; [apply Permutation_sym, Permutation_rev|exact D].
Qed.

(* ------------------------------------------------------------------ *)
(* 5. Real-number algebra of the centred products                      *)
(* ------------------------------------------------------------------ *)
Lemma Rsum_nil : Rsum [] = 0. Proof. reflexivity. Qed.

Lemma Rsum_map_plus {A} (f g : A -> R) l :
  Rsum (map (fun a => f a + g a) l) = Rsum (map f l) + Rsum (map g l).
Proof. induction l as [|a l IH]; cbn [map]; rewrite ?Rsum_nil, ?Rsum_cons; [lra|rewrite IH; lra]. Qed.
Lemma Rsum_map_scal {A} (c : R) (f : A -> R) l : Rsum (map (fun a => c * f a) l) = c * Rsum (map f l).
Proof. induction l as [|a l IH]; cbn [map]; rewrite ?Rsum_nil, ?Rsum_cons; [lra|rewrite IH; lra]. Qed.
Lemma Rsum_map_ext {A} (f g : A -> R) l : (forall a, f a = g a) -> Rsum (map f l) = Rsum (map g l).
Proof. intros E. induction l as [|a l IH]; cbn [map]; rewrite ?Rsum_cons; [reflexivity|rewrite IH, E; reflexivity]. Qed.
Lemma Rsum_map_le {A} (f g : A -> R) l : (forall a, f a <= g a) -> Rsum (map f l) <= Rsum (map g l).
Proof. intros E. induction l as [|a l IH]; cbn [map]; rewrite ?Rsum_cons; [lra|specialize (E a); lra]. Qed.
Lemma Rsum_map_nonneg {A} (f : A -> R) l : (forall a, 0 <= f a) -> 0 <= Rsum (map f l).
Proof. intros E. induction l as [|a l IH]; cbn [map]; rewrite ?Rsum_nil, ?Rsum_cons; [lra|specialize (E a); lra]. Qed.

(* the products around shifted centres:  a_k = x_k - mx,  b_k = y_k - my,  shifts ex, ey *)
Lemma shifted_products {A} (a b : A -> R) (ex ey : R) l :
  Rsum (map (fun k => (a k + ex) * (b k + ey)) l)
  = Rsum (map (fun k => a k * b k) l) + ey * Rsum (map a l) + ex * Rsum (map b l)
    + INR (length l) * ex * ey.
Proof.
  induction l as [|k l IH]; cbn [map length]; rewrite ?Rsum_nil, ?Rsum_cons.
  - cbn [INR]. ring.
  - rewrite IH. change (length (k :: l)) with (S (length l)). rewrite S_INR. ring.
Qed.

Lemma shifted_products_abs {A} (a b : A -> R) (ex ey dx dy : R) l :
  Rabs ex <= dx -> Rabs ey <= dy ->
  Rsum (map (fun k => Rabs ((a k + ex) * (b k + ey))) l)
  <= Rsum (map (fun k => Rabs (a k) * Rabs (b k)) l) + dy * Rsum (map (fun k => Rabs (a k)) l)
     + dx * Rsum (map (fun k => Rabs (b k)) l) + INR (length l) * dx * dy.
Proof.
  intros Hx Hy. pose proof (Rabs_pos ex) as Px. pose proof (Rabs_pos ey) as Py.
  induction l as [|k l IH]; cbn [map length]; rewrite ?Rsum_nil, ?Rsum_cons.
  - cbn [INR]. lra.
  - change (length (k :: l)) with (S (length l)). rewrite S_INR.
    assert (T : Rabs ((a k + ex) * (b k + ey)) <= (Rabs (a k) + dx) * (Rabs (b k) + dy)).
    { rewrite Rabs_mult. apply Rmult_le_compat; try apply Rabs_pos;
        (eapply Rle_trans; [apply Rabs_triang|]; lra). }
    replace ((Rabs (a k) + dx) * (Rabs (b k) + dy))
      with (Rabs (a k) * Rabs (b k) + dy * Rabs (a k) + dx * Rabs (b k) + dx * dy) in T by ring.
    replace (Rsum (map (fun k0 => Rabs (a k0) * Rabs (b k0)) l) + Rabs (a k) * Rabs (b k)) with
      (Rabs (a k) * Rabs (b k) + Rsum (map (fun k0 => Rabs (a k0) * Rabs (b k0)) l)) by ring.
    nra.
Qed.

Lemma two_eps_g (e1 e2 : R) : Rabs e1 <= u64 -> Rabs e2 <= u64 ->
  Rabs ((1 + e1) * (1 + e2) - 1) <= g64 2.
Proof.
  intros H1 H2. apply Rabs_le_inv in H1. apply Rabs_le_inv in H2.
  pose proof u64_pos as Hu0. pose proof u64_small as Hu.
  unfold g64. cbn [pow]. rewrite Rmult_1_r. apply Rabs_le. split; nra.
Qed.

(* 1/(1+d) for the relative error d of a rounded sum/difference is again 1 + d' with |d'| <= u *)
Lemma inv_1pd (d : R) : Rabs d <= u64 / (1 + u64) -> exists d', Rabs d' <= u64 /\ / (1 + d) = 1 + d'.
Proof.
  intros Hd. pose proof u64_pos as Hu0. pose proof u64_small as Hu.
  assert (T : u64 / (1 + u64) * (1 + u64) = u64) by (field; lra).
  set (t := u64 / (1 + u64)) in *.
  assert (Ht : 0 <= t) by (unfold t; apply Rmult_le_pos; [lra|apply Rlt_le, Rinv_0_lt_compat; lra]).
  assert (Ht1 : t <= u64) by nra.
  apply Rabs_le_inv in Hd.
  assert (P : 0 < 1 + d) by lra.
  exists (/ (1 + d) - 1). split; [|ring].
  replace (/ (1 + d) - 1) with (- d * / (1 + d)) by (field; lra).
  assert (I : 0 < / (1 + d)) by (apply Rinv_0_lt_compat; exact P).
  apply Rabs_le.
  assert (K : (1 + d) * / (1 + d) = 1) by (field; lra).
  split.
  - (* -u <= -d/(1+d)  <=>  d <= u (1+d) *)
    apply Rmult_le_reg_r with (1 + d); [exact P|].
    rewrite Rmult_assoc, (Rmult_comm (/ (1 + d))), K. nra.
  - apply Rmult_le_reg_r with (1 + d); [exact P|].
    rewrite Rmult_assoc, (Rmult_comm (/ (1 + d))), K. nra.
Qed.

(* rounding of  v / (D (1 + d))  against  C / D *)
Lemma div_step (v C D d e e' E A : R) :
  D <> 0 -> Rabs d <= u64 / (1 + u64) -> Rabs e <= u64 -> Rabs e' <= eta64 ->
  Rabs (v - C) <= E -> Rabs C <= A ->
  Rabs (v / (D * (1 + d)) * (1 + e) + e' - C / D)
    <= (E * (1 + g64 2) + g64 2 * A) / Rabs D + eta64.
Proof.
  intros HD Hd He He' HE HA.
  destruct (inv_1pd d Hd) as (d' & Hd' & Ed).
  pose proof u64_pos as Hu0. pose proof u64_small as Hu.
  assert (P : 1 + d <> 0).
  { assert (T : u64 / (1 + u64) * (1 + u64) = u64) by (field; lra).
    apply Rabs_le_inv in Hd. assert (u64 / (1 + u64) <= u64) by apply u64_frac_le. lra. }
  pose proof (two_eps_g d' e Hd' He) as W. set (w := (1 + d') * (1 + e)) in *.
  replace (v / (D * (1 + d)) * (1 + e) + e' - C / D)
    with (((v - C) * w + C * (w - 1)) * / D + e').
  2:{ unfold w. rewrite <- Ed. field. split; assumption. }
  eapply Rle_trans; [apply Rabs_triang|]. apply Rplus_le_compat; [|exact He'].
  rewrite Rabs_mult, Rabs_inv. unfold Rdiv.
  apply Rmult_le_compat_r; [apply Rlt_le, Rinv_0_lt_compat, Rabs_pos_lt; exact HD|].
  eapply Rle_trans; [apply Rabs_triang|]. rewrite !Rabs_mult.
  assert (W1 : Rabs w <= 1 + g64 2).
  { replace w with (1 + (w - 1)) by ring. eapply Rle_trans; [apply Rabs_triang|]. rewrite Rabs_R1. lra. }
  assert (E0 : 0 <= E) by (pose proof (Rabs_pos (v - C)); lra).
  assert (A0 : 0 <= A) by (pose proof (Rabs_pos C); lra).
  assert (P1 : Rabs (v - C) * Rabs w <= E * (1 + g64 2)).
  { apply Rmult_le_compat; try apply Rabs_pos; assumption. }
  assert (P2 : Rabs C * Rabs (w - 1) <= A * g64 2).
  { apply Rmult_le_compat; try apply Rabs_pos; assumption. }
  lra.
Qed.

(* ------------------------------------------------------------------ *)
(* 6. The covariance entry                                             *)
(* ------------------------------------------------------------------ *)
(* exact mean, centred data with a GIVEN (approximate) binary64 mean, exact cross products *)
Definition meanR (x : list F64) : R := Rsum (map B2R x) / INR (length x).
Definition dev (x : list F64) (m : F64) : list F64 := map (fun v : F64 => fsub v m) x.
Definition cxy (x y : list F64) : R :=
  Rsum (map (fun p : F64 * F64 => (B2R (fst p) - meanR x) * (B2R (snd p) - meanR y)) (combine x y)).
Definition axy (x y : list F64) : R :=
  Rsum (map (fun p : F64 * F64 => Rabs (B2R (fst p) - meanR x) * Rabs (B2R (snd p) - meanR y)) (combine x y)).
Definition adev (x : list F64) : R := Rsum (map (fun v : F64 => Rabs (B2R v - meanR x)) x).

(* Q = sum|a||b| + em_j sum|a| + em_i sum|b| + n em_i em_j, the bound on sum |(x_ik - m_i')(x_jk - m_j')| *)
Definition covQ (n : nat) (ei ej : R) (x y : list F64) : R :=
  axy x y + ej * adev x + ei * adev y + INR n * ei * ej.
(* the final bound;  h = height of the dot-product tree,  D = n - ddof *)
Definition cov_bound (h n : nat) (ei ej : R) (x y : list F64) (D : R) : R :=
  (g64 (h + 5) * covQ n ei ej x y
   + (1 + g64 2) * (INR n * ei * ej + INR n * (1 + g64 h) * eta64)) / Rabs D + eta64.

Lemma combine_map_map' {A B C D} (f : A -> C) (g : B -> D) (a : list A) (b : list B) :
  combine (map f a) (map g b) = map (fun p => (f (fst p), g (snd p))) (combine a b).
Proof.
  revert b. induction a as [|x a IH]; intros [|y b]; cbn [map combine fst snd]; try reflexivity.
  rewrite IH. reflexivity.
Qed.
Lemma map_fst_combine {A B} (a : list A) (b : list B) : length a = length b -> map fst (combine a b) = a.
Proof.
  revert b. induction a as [|x a IH]; intros [|y b] HL; cbn [map combine fst length] in *; try reflexivity; try discriminate.
  rewrite IH by lia. reflexivity.
Qed.
Lemma map_snd_combine {A B} (a : list A) (b : list B) : length a = length b -> map snd (combine a b) = b.
Proof.
  revert b. induction a as [|x a IH]; intros [|y b] HL; cbn [map combine snd length] in *; try reflexivity; try discriminate.
  rewrite IH by lia. reflexivity.
Qed.
Lemma combine_swap {A B} (a : list A) (b : list B) :
  combine b a = map (fun p => (snd p, fst p)) (combine a b).
Proof.
  revert b. induction a as [|x a IH]; intros [|y b]; cbn [map combine fst snd]; try reflexivity.
  rewrite IH. reflexivity.
Qed.

(* the deviations from the exact mean sum to zero *)
Lemma centred_sum_zero (x : list F64) : (1 <= length x)%nat ->
  Rsum (map (fun v => B2R v - meanR x) x) = 0.
Proof.
  intros Hn.
  assert (E : Rsum (map (fun v => B2R v + - meanR x) x) = Rsum (map B2R x) + INR (length x) * - meanR x).
  { rewrite (Rsum_map_plus B2R (fun _ => - meanR x)), Rsum_const. reflexivity. }
  unfold Rminus. rewrite E. unfold meanR. field. apply not_0_INR. lia.
Qed.

Lemma centred_fst_zero (x y : list F64) : length x = length y -> (1 <= length x)%nat ->
  Rsum (map (fun p : F64 * F64 => B2R (fst p) - meanR x) (combine x y)) = 0.
Proof.
  intros HL Hn. rewrite <- (map_map fst (fun v => B2R v - meanR x)), map_fst_combine by exact HL.
  apply centred_sum_zero. exact Hn.
Qed.
Lemma centred_snd_zero (x y : list F64) : length x = length y -> (1 <= length x)%nat ->
  Rsum (map (fun p : F64 * F64 => B2R (snd p) - meanR y) (combine x y)) = 0.
Proof.
  intros HL Hn. rewrite <- (map_map snd (fun v => B2R v - meanR y)), map_snd_combine by exact HL.
  apply centred_sum_zero. lia.
Qed.

Lemma cxy_le_axy x y : Rabs (cxy x y) <= axy x y.
Proof.
  unfold cxy, axy. eapply Rle_trans; [apply Rabs_Rsum_le|].
  apply Req_le. apply Rsum_map_ext. intros p. apply Rabs_mult.
Qed.
Lemma axy_nonneg x y : 0 <= axy x y.
Proof. unfold axy. apply Rsum_map_nonneg. intros p. apply Rmult_le_pos; apply Rabs_pos. Qed.
Lemma adev_nonneg x : 0 <= adev x.
Proof. unfold adev. apply Rsum_map_nonneg. intros p. apply Rabs_pos. Qed.

Lemma cxy_sym x y : cxy y x = cxy x y.
Proof.
  unfold cxy. rewrite (combine_swap x y), map_map. apply Rsum_map_ext. intros p. cbn [fst snd]. apply Rmult_comm.
Qed.
Lemma axy_sym x y : axy y x = axy x y.
Proof.
  unfold axy. rewrite (combine_swap x y), map_map. apply Rsum_map_ext. intros p. cbn [fst snd]. apply Rmult_comm.
Qed.
Lemma covQ_sym n ei ej x y : covQ n ej ei y x = covQ n ei ej x y.
Proof. unfold covQ. rewrite axy_sym. ring. Qed.
Lemma cov_bound_sym h n ei ej x y D : cov_bound h n ej ei y x D = cov_bound h n ei ej x y D.
Proof. unfold cov_bound. rewrite covQ_sym. f_equal. f_equal. ring. Qed.

(* the exact sum of the rounded centred products against the exact centred cross product *)
Lemma centred_products_error (xi xj : list F64) (mi mj : F64) (n : nat) (emi emj : R) :
  length xi = n -> length xj = n -> (1 <= n)%nat ->
  Rabs (B2R mi - meanR xi) <= emi -> Rabs (B2R mj - meanR xj) <= emj ->
  Forall pair_finite (combine (dev xi mi) (dev xj mj)) ->
  let L := combine (dev xi mi) (dev xj mj) in
  Rabs (Rsum (map rprod L) - cxy xi xj) <= g64 2 * covQ n emi emj xi xj + INR n * emi * emj /\
  Rasum (map rprod L) <= (1 + g64 2) * covQ n emi emj xi xj.
Proof.
  intros Li Lj Hn Hmi Hmj HF L.
  set (l := combine xi xj).
  assert (EL : L = map (fun p => (fsub (fst p) mi, fsub (snd p) mj)) l).
  { unfold L, dev, l. exact (combine_map_map' (fun v => fsub v mi) (fun v => fsub v mj) xi xj). }
  set (P := fun p : F64 * F64 => B2R (fsub (fst p) mi) * B2R (fsub (snd p) mj)).
  set (X := fun p : F64 * F64 => (B2R (fst p) - B2R mi) * (B2R (snd p) - B2R mj)).
  assert (EP : map rprod L = map P l).
  { rewrite EL, map_map. reflexivity. }
  assert (HT : Forall (fun p => Rabs (P p - X p) <= g64 2 * Rabs (X p) + 0) l).
  { fold L in HF. rewrite EL, Forall_map in HF. eapply Forall_impl; [|exact HF].
    intros p [F1 F2]. cbn [fst snd] in F1, F2. unfold P, X.
    rewrite (fsub_value _ _ F1), (fsub_value _ _ F2).
    destruct (rnd_minus_model (B2R (fst p)) (B2R mi) (fmt_B2R _) (fmt_B2R _)) as (e1 & He1 & M1).
    destruct (rnd_minus_model (B2R (snd p)) (B2R mj) (fmt_B2R _) (fmt_B2R _)) as (e2 & He2 & M2).
    rewrite M1, M2. pose proof u64_frac_le as Hfr.
    assert (He1' : Rabs e1 <= u64) by lra. assert (He2' : Rabs e2 <= u64) by lra.
    pose proof (two_eps_g e1 e2 He1' He2') as T.
    set (a := B2R (fst p) - B2R mi). set (b := B2R (snd p) - B2R mj).
    replace (a * (1 + e1) * (b * (1 + e2)) - a * b) with (a * b * ((1 + e1) * (1 + e2) - 1)) by ring.
    rewrite Rabs_mult, Rplus_0_r, (Rmult_comm (g64 2)).
    apply Rmult_le_compat_l; [apply Rabs_pos|exact T]. }
  destruct (approx_terms P X (fun _ => 0) (g64 2) l HT) as [R1 R2].
  rewrite Rsum_const, Rmult_0_r, Rplus_0_r in R1, R2.
  (* the shifted centres *)
  set (ei := meanR xi - B2R mi). set (ej := meanR xj - B2R mj).
  set (a := fun p : F64 * F64 => B2R (fst p) - meanR xi).
  set (b := fun p : F64 * F64 => B2R (snd p) - meanR xj).
  assert (HLl : length l = n).
  { unfold l. rewrite combine_length, Li, Lj. apply Nat.min_id. }
  assert (Hei : Rabs ei <= emi) by (unfold ei; rewrite Rabs_minus_sym; exact Hmi).
  assert (Hej : Rabs ej <= emj) by (unfold ej; rewrite Rabs_minus_sym; exact Hmj).
  assert (EX : Rsum (map X l) = cxy xi xj + INR n * ei * ej).
  { rewrite (Rsum_map_ext X (fun k => (a k + ei) * (b k + ej))).
    2:{ intros p. unfold X, a, b, ei, ej. ring. }
    rewrite shifted_products, HLl. unfold a, b, l.
    rewrite (centred_fst_zero xi xj), (centred_snd_zero xi xj) by lia.
    unfold cxy. cbv beta. fold l. ring. }
  assert (AX : Rasum (map X l) <= covQ n emi emj xi xj).
  { rewrite <- Rsum_abs_Rasum.
    rewrite (Rsum_map_ext (fun p => Rabs (X p)) (fun k => Rabs ((a k + ei) * (b k + ej)))).
    2:{ intros p. unfold X, a, b, ei, ej. f_equal. ring. }
    eapply Rle_trans; [apply (shifted_products_abs a b ei ej emi emj l Hei Hej)|].
    rewrite HLl. unfold covQ, axy, adev, a, b, l. cbv beta.
    rewrite <- (map_map fst (fun v => Rabs (B2R v - meanR xi))), map_fst_combine
      by (transitivity n; [exact Li|symmetry; exact Lj]).
    rewrite <- (map_map snd (fun v => Rabs (B2R v - meanR xj))), map_snd_combine
      by (transitivity n; [exact Li|symmetry; exact Lj]).
    apply Rle_refl. }
  pose proof (g64_nonneg 2) as G2.
  assert (Emi : 0 <= emi) by (pose proof (Rabs_pos ei); lra).
  assert (Emj : 0 <= emj) by (pose proof (Rabs_pos ej); lra).
  rewrite EP. split.
  - replace (Rsum (map P l) - cxy xi xj) with ((Rsum (map P l) - Rsum (map X l)) + INR n * ei * ej)
      by (rewrite EX; ring).
    eapply Rle_trans; [apply Rabs_triang|].
    assert (Q1 : g64 2 * Rasum (map X l) <= g64 2 * covQ n emi emj xi xj)
      by (apply Rmult_le_compat_l; assumption).
    assert (Q2 : Rabs (INR n * ei * ej) <= INR n * emi * emj).
    { rewrite !Rabs_mult, (Rabs_pos_eq (INR n)) by apply pos_INR.
      rewrite !Rmult_assoc. apply Rmult_le_compat_l; [apply pos_INR|].
      apply Rmult_le_compat; try apply Rabs_pos; assumption. }
    lra.
  - eapply Rle_trans; [exact R2|]. apply Rmult_le_compat_l; [lra|exact AX].
Qed.

Lemma nf_spec (n : nat) : (Z.of_nat n <= 2 ^ 53)%Z ->
  fin (f64_of_Z (Z.of_nat n)) = true /\ B2R (f64_of_Z (Z.of_nat n)) = INR n.
Proof.
  intros Hn. destruct (f64_of_Z_exact (Z.of_nat n)) as [F E]; [lia|].
  split; [exact F|]. rewrite E, <- INR_IZR_INZ. reflexivity.
Qed.

(* n - ddof never overflows for finite ddof: |n - ddof| <= MAX + 2^53 rounds to at most MAX + 2^54 *)
Lemma divisor_finite (n : nat) (ddof : F64) : (Z.of_nat n <= 2 ^ 53)%Z -> fin ddof = true ->
  fin (fsub (f64_of_Z (Z.of_nat n)) ddof) = true.
Proof.
  intros Hn Fd. destruct (nf_spec n Hn) as [Fn En].
  apply (fsub_correct _ _ Fn Fd). rewrite En.
  set (M := bpow radix2 1024 - bpow radix2 971).
  assert (FM : fmt M).
  { replace M with (pred radix2 fx (bpow radix2 1024)).
    - apply generic_format_pred; [apply vexp64C|]. apply fmt_bpow. lia.
    - rewrite pred_bpow. reflexivity. }
  assert (Hd : Rabs (B2R ddof) <= M) by apply (abs_B2R_le_emax_minus_prec 53 1024 Hprec64).
  assert (HnR : 0 <= INR n <= bpow radix2 53).
  { split; [apply pos_INR|]. rewrite INR_IZR_INZ. change (bpow radix2 53) with (IZR (2 ^ 53)). apply IZR_le. exact Hn. }
  assert (Hx : Rabs (INR n - B2R ddof) <= M + bpow radix2 53).
  { eapply Rle_trans; [apply Rabs_triang|]. rewrite Rabs_Ropp, (Rabs_pos_eq (INR n)) by lra. lra. }
  rewrite <- rnd_abs.
  eapply Rle_lt_trans; [apply rnd_le; exact Hx|].
  set (z := M + bpow radix2 53).
  destruct (round_N_pt radix2 fx (fun x => negb (Z.even x)) z) as [_ N]. specialize (N M FM).
  assert (E : Rabs (M - z) = bpow radix2 53).
  { unfold z. replace (M - (M + bpow radix2 53)) with (- bpow radix2 53) by ring.
    rewrite Rabs_Ropp. apply Rabs_pos_eq. apply bpow_ge_0. }
  rewrite E in N. apply Rabs_le_inv in N.
  assert (L : bpow radix2 53 + bpow radix2 53 < bpow radix2 971).
  { replace (bpow radix2 53 + bpow radix2 53) with (bpow radix2 54).
    - apply bpow_lt. lia.
    - change (bpow radix2 54) with (bpow radix2 (1 + 53)). rewrite bpow_plus. change (bpow radix2 1) with 2. ring. }
  unfold z, M in *. lra.
Qed.

(* the divisor n - ddof as computed *)
Lemma divisor_model (n : nat) (ddof : F64) : (Z.of_nat n <= 2 ^ 53)%Z ->
  fin ddof = true ->
  exists d, Rabs d <= u64 / (1 + u64) /\
    B2R (fsub (f64_of_Z (Z.of_nat n)) ddof) = (INR n - B2R ddof) * (1 + d) /\ 0 < 1 + d.
Proof.
  intros Hn Fd. pose proof (divisor_finite n ddof Hn Fd) as FD. destruct (nf_spec n Hn) as [_ En].
  rewrite (fsub_value _ _ FD), En.
  destruct (rnd_minus_model (INR n) (B2R ddof)) as (d & Hd & M).
  { rewrite <- En. apply fmt_B2R. }
  { apply fmt_B2R. }
  exists d. split; [exact Hd|]. split; [exact M|].
  pose proof u64_pos as Hu0. pose proof u64_small as Hu. pose proof u64_frac_le as Hfr.
  apply Rabs_le_inv in Hd. lra.
Qed.

(* MAIN THEOREM.  m_i', m_j' are arbitrary binary64 approximations of the exact means;
   v is the value of any evaluation (any order, fused or not) of the product of the centred rows. *)
Theorem cov_entry_error_f64 (xi xj : list F64) (mi mj ddof v : F64) (h n : nat) (emi emj : R) :
  length xi = n -> length xj = n -> (1 <= n)%nat -> (Z.of_nat n <= 2 ^ 53)%Z ->
  Rabs (B2R mi - meanR xi) <= emi -> Rabs (B2R mj - meanR xj) <= emj ->
  dot_eval (combine (dev xi mi) (dev xj mj)) v h ->
  INR n - B2R ddof <> 0 ->
  fin ddof = true ->
  fin (fdiv v (fsub (f64_of_Z (Z.of_nat n)) ddof)) = true ->
  Rabs (B2R (fdiv v (fsub (f64_of_Z (Z.of_nat n)) ddof)) - cxy xi xj / (INR n - B2R ddof))
    <= cov_bound h n emi emj xi xj (INR n - B2R ddof).
Proof.
  intros Li Lj Hn Hn53 Hmi Hmj HD HN FD Hf.
  destruct (divisor_model n ddof Hn53 FD) as (d & Hd & ED & Pd).
  set (D := INR n - B2R ddof) in *.
  assert (ND : B2R (fsub (f64_of_Z (Z.of_nat n)) ddof) <> 0).
  { rewrite ED. apply Rmult_integral_contrapositive_currified; [exact HN|lra]. }
  destruct (fdiv_value _ _ ND Hf) as [Ev Fv]. rewrite Ev, ED.
  destruct (rnd_model (B2R v / (D * (1 + d)))) as (e & e' & He & He' & E). rewrite E.
  pose proof (dot_eval_finite _ _ _ HD Fv) as HF.
  pose proof (dot_eval_error_S _ _ _ HD Fv) as BV.
  destruct (centred_products_error xi xj mi mj n emi emj Li Lj Hn Hmi Hmj HF) as [C1 C2].
  set (L := combine (dev xi mi) (dev xj mj)) in *.
  assert (HLL : length L = n).
  { unfold L, dev. rewrite combine_length, !map_length, Li, Lj. apply Nat.min_id. }
  rewrite HLL in BV. fold (dot_uflow n h).
  set (Q := covQ n emi emj xi xj) in *.
  pose proof (g64_nonneg (S h)) as G1. pose proof (g64_nonneg 2) as G2.
  pose proof (dot_uflow_nonneg n h) as U0.
  assert (Q0 : 0 <= Q).
  { pose proof (Rasum_nonneg (map rprod L)). assert (0 <= (1 + g64 2) * Q) by lra. nra. }
  assert (BE : Rabs (B2R v - cxy xi xj) <= g64 (h + 3) * Q + INR n * emi * emj + dot_uflow n h).
  { replace (B2R v - cxy xi xj) with ((B2R v - Rsum (map rprod L)) + (Rsum (map rprod L) - cxy xi xj)) by ring.
    eapply Rle_trans; [apply Rabs_triang|].
    assert (T : g64 (S h) * Rasum (map rprod L) <= g64 (S h) * ((1 + g64 2) * Q))
      by (apply Rmult_le_compat_l; assumption).
    replace (h + 3)%nat with (S h + 2)%nat by lia. rewrite (g64_add (S h) 2).
    replace (((1 + g64 (S h)) * (1 + g64 2) - 1) * Q) with (g64 (S h) * ((1 + g64 2) * Q) + g64 2 * Q) by ring.
    lra. }
  pose proof (div_step (B2R v) (cxy xi xj) D d e e' _ _ HN Hd He He' BE (cxy_le_axy xi xj)) as B.
  eapply Rle_trans; [exact B|]. unfold cov_bound. fold Q. fold (dot_uflow n h).
  apply Rplus_le_compat_r. unfold Rdiv.
  apply Rmult_le_compat_r; [apply Rlt_le, Rinv_0_lt_compat, Rabs_pos_lt; exact HN|].
  assert (AQ : axy xi xj <= Q).
  { unfold Q, covQ. pose proof (adev_nonneg xi). pose proof (adev_nonneg xj).
    assert (Emi : 0 <= emi) by (pose proof (Rabs_pos (B2R mi - meanR xi)); lra).
    assert (Emj : 0 <= emj) by (pose proof (Rabs_pos (B2R mj - meanR xj)); lra).
    pose proof (pos_INR n).
    assert (0 <= emj * adev xi) by (apply Rmult_le_pos; assumption).
    assert (0 <= emi * adev xj) by (apply Rmult_le_pos; assumption).
    assert (0 <= INR n * emi * emj) by (apply Rmult_le_pos; [apply Rmult_le_pos|]; assumption).
    lra. }
  replace (h + 5)%nat with ((h + 3) + 2)%nat by lia. rewrite (g64_add (h + 3) 2).
  assert (T : g64 2 * axy xi xj <= g64 2 * Q) by (apply Rmult_le_compat_l; assumption).
  unfold dot_uflow.
  replace (((1 + g64 (h + 3)) * (1 + g64 2) - 1) * Q
           + (1 + g64 2) * (INR n * emi * emj + INR n * (1 + g64 h) * eta64))
    with ((g64 (h + 3) * Q + INR n * emi * emj + INR n * (1 + g64 h) * eta64) * (1 + g64 2) + g64 2 * Q) by ring.
  lra.
Qed.

(* ------------------------------------------------------------------ *)
(* 7. The mean computed by any summation tree                          *)
(* ------------------------------------------------------------------ *)
Definition mean_err (hm n : nat) (x : list F64) : R :=
  g64 (hm + 1) * Rasum (map B2R x) / INR n + eta64.

Theorem mean_tree_error (x : list F64) (s : F64) (hm n : nat) :
  sum_eval x s hm -> length x = n -> (1 <= n)%nat -> (Z.of_nat n <= 2 ^ 53)%Z ->
  fin (fdiv s (f64_of_Z (Z.of_nat n))) = true ->
  Rabs (B2R (fdiv s (f64_of_Z (Z.of_nat n))) - meanR x) <= mean_err hm n x.
Proof.
  intros (k & T) Lx Hn Hn53 Hf. destruct (nf_spec n Hn53) as [_ En].
  assert (HN : 0 < INR n) by (apply lt_0_INR; lia).
  destruct (fdiv_value s _ (ltac:(rewrite En; lra)) Hf) as [Em Fs]. rewrite Em, En.
  pose proof (sum_tree_for_error _ _ _ _ T Fs) as B.
  unfold mean_err, meanR. rewrite Lx. replace (hm + 1)%nat with (S hm) by lia. rewrite g64_S.
  apply div_round_error; [exact HN|apply g64_nonneg|apply Rsum_le_Rasum|exact B].
Qed.

(* the entry with both means computed by arbitrary summation trees of height <= hm *)
Theorem cov_entry_error_f64_means (xi xj : list F64) (si sj ddof v : F64) (h hm n : nat) :
  length xi = n -> length xj = n -> (1 <= n)%nat -> (Z.of_nat n <= 2 ^ 53)%Z ->
  sum_eval xi si hm -> sum_eval xj sj hm ->
  let nf := f64_of_Z (Z.of_nat n) in
  dot_eval (combine (dev xi (fdiv si nf)) (dev xj (fdiv sj nf))) v h ->
  INR n - B2R ddof <> 0 ->
  fin ddof = true ->
  fin (fdiv v (fsub nf ddof)) = true ->
  Rabs (B2R (fdiv v (fsub nf ddof)) - cxy xi xj / (INR n - B2R ddof))
    <= cov_bound h n (mean_err hm n xi) (mean_err hm n xj) xi xj (INR n - B2R ddof).
Proof.
  intros Li Lj Hn Hn53 Ti Tj nf HD HN FD Hf.
  (* the means are finite because the result is *)
  destruct (divisor_model n ddof Hn53 FD) as (d & Hd & ED & Pd).
  assert (ND : B2R (fsub nf ddof) <> 0).
  { unfold nf. rewrite ED. apply Rmult_integral_contrapositive_currified; [exact HN|lra]. }
  destruct (fdiv_value _ _ ND Hf) as [_ Fv].
  pose proof (dot_eval_finite _ _ _ HD Fv) as HF.
  assert (Fm : fin (fdiv si nf) = true /\ fin (fdiv sj nf) = true).
  { destruct xi as [|a xi]; [cbn [length] in Li; lia|]. destruct xj as [|b xj]; [cbn [length] in Lj; lia|].
    cbn [dev map combine] in HF. inversion HF as [|? ? [F1 F2] _]; subst. cbn [fst snd] in F1, F2.
    split; [exact (proj2 (fsub_finite_args _ _ F1))|exact (proj2 (fsub_finite_args _ _ F2))]. }
  destruct Fm as [Fmi Fmj].
  apply (cov_entry_error_f64 xi xj (fdiv si nf) (fdiv sj nf) ddof v h n); try assumption.
  - apply (mean_tree_error xi si hm n); assumption.
  - apply (mean_tree_error xj sj hm n); assumption.
Qed.

(* ------------------------------------------------------------------ *)
(* 8. Symmetry within the bound, non-negative diagonal                  *)
(* ------------------------------------------------------------------ *)
Theorem cov_f64_symmetric_error (xi xj : list F64) (mi mj ddof vij vji : F64) (h n : nat) (emi emj : R) :
  length xi = n -> length xj = n -> (1 <= n)%nat -> (Z.of_nat n <= 2 ^ 53)%Z ->
  Rabs (B2R mi - meanR xi) <= emi -> Rabs (B2R mj - meanR xj) <= emj ->
  dot_eval (combine (dev xi mi) (dev xj mj)) vij h ->
  dot_eval (combine (dev xj mj) (dev xi mi)) vji h ->
  INR n - B2R ddof <> 0 ->
  let Df := fsub (f64_of_Z (Z.of_nat n)) ddof in
  fin ddof = true -> fin (fdiv vij Df) = true -> fin (fdiv vji Df) = true ->
  let B := cov_bound h n emi emj xi xj (INR n - B2R ddof) in
  Rabs (B2R (fdiv vij Df) - cxy xi xj / (INR n - B2R ddof)) <= B /\
  Rabs (B2R (fdiv vji Df) - cxy xi xj / (INR n - B2R ddof)) <= B /\
  Rabs (B2R (fdiv vij Df) - B2R (fdiv vji Df)) <= 2 * B.
Proof.
  intros Li Lj Hn Hn53 Hmi Hmj Dij Dji HN Df FD Fij Fji B.
  pose proof (cov_entry_error_f64 xi xj mi mj ddof vij h n emi emj Li Lj Hn Hn53 Hmi Hmj Dij HN FD Fij) as B1.
  pose proof (cov_entry_error_f64 xj xi mj mi ddof vji h n emj emi Lj Li Hn Hn53 Hmj Hmi Dji HN FD Fji) as B2.
  rewrite cxy_sym, cov_bound_sym in B2. fold Df in B1, B2. fold B in B1, B2.
  split; [exact B1|]. split; [exact B2|].
  set (c := cxy xi xj / (INR n - B2R ddof)) in *.
  replace (B2R (fdiv vij Df) - B2R (fdiv vji Df))
    with ((B2R (fdiv vij Df) - c) - (B2R (fdiv vji Df) - c)) by ring.
  eapply Rle_trans; [apply Rabs_triang|]. rewrite Rabs_Ropp. lra.
Qed.

Theorem cov_f64_diag_nonneg (x : list F64) (m ddof v : F64) (h n : nat) :
  (Z.of_nat n <= 2 ^ 53)%Z ->
  dot_eval (combine (dev x m) (dev x m)) v h ->
  0 < INR n - B2R ddof ->
  fin ddof = true ->
  fin (fdiv v (fsub (f64_of_Z (Z.of_nat n)) ddof)) = true ->
  0 <= B2R (fdiv v (fsub (f64_of_Z (Z.of_nat n)) ddof)).
Proof.
  intros Hn53 HD HN FD Hf.
  destruct (divisor_model n ddof Hn53 FD) as (d & Hd & ED & Pd).
  assert (PD : 0 < B2R (fsub (f64_of_Z (Z.of_nat n)) ddof)).
  { rewrite ED. apply Rmult_lt_0_compat; assumption. }
  assert (ND : B2R (fsub (f64_of_Z (Z.of_nat n)) ddof) <> 0) by lra.
  destruct (fdiv_value _ _ ND Hf) as [Ev Fv]. rewrite Ev.
  apply rnd_ge_0.
  assert (V0 : 0 <= B2R v).
  { apply (dot_eval_nonneg _ _ _ HD); [|exact Fv].
    unfold dev. rewrite combine_map_map', Forall_map. apply Forall_forall. intros p Hp.
    unfold rprod. cbn [fst snd].
    assert (E : fst p = snd p).
    { clear -Hp. induction x as [|a x IH]; cbn [combine] in Hp; [contradiction|].
      destruct Hp as [<-|Hp]; [reflexivity|apply IH; exact Hp]. }
    rewrite E. apply Rle_0_sqr. }
  apply Rmult_le_pos; [exact V0|]. apply Rlt_le, Rinv_0_lt_compat. exact PD.
Qed.

(* ------------------------------------------------------------------ *)
(* 9. The executable model Num/Cov.v at binary64 is an instance        *)
(* ------------------------------------------------------------------ *)
Lemma nth_map_in {A B} (f : A -> B) (l : list A) (i : nat) (d : A) (d' : B) :
  (i < length l)%nat -> nth i (map f l) d' = f (nth i l d).
Proof.
  intros Hi. rewrite (nth_indep (map f l) d' (f d)) by (rewrite map_length; exact Hi). apply map_nth.
Qed.

Section Model.
Variables lt et : list (Z * Z).
Let O := f64_ops lt et.
Variable sum_o : list F64 -> F64.
Variable hf : nat -> nat.
Hypothesis sum_o_tree : forall l, sum_eval l (sum_o l) (hf (length l)).

Lemma row_mean_unfold r : row_mean O sum_o r = fdiv (sum_o r) (f64_of_Z (Z.of_nat (length r))).
Proof. reflexivity. Qed.
Lemma denoise_dev r : denoise O sum_o r = dev r (row_mean O sum_o r).
Proof. reflexivity. Qed.
Lemma dot_unfold a b : dot O sum_o a b = sum_o (map fprod (combine a b)).
Proof. reflexivity. Qed.

Lemma model_dot_eval a b : dot_eval (combine a b) (dot O sum_o a b) (hf (length (combine a b))).
Proof.
  rewrite dot_unfold. destruct (sum_o_tree (map fprod (combine a b))) as (k & T).
  rewrite map_length in T. exact (sum_tree_dot_eval _ _ _ _ T).
Qed.

Lemma cov_model_entry (rows : list (list F64)) (ddof : F64) (n i j : nat) :
  Forall (fun r => length r = n) rows -> (i < length rows)%nat -> (j < length rows)%nat ->
  nth j (nth i (cov O sum_o rows ddof) []) fzero
  = fdiv (dot O sum_o (denoise O sum_o (nth i rows [])) (denoise O sum_o (nth j rows [])))
         (fsub (f64_of_Z (Z.of_nat n)) ddof).
Proof.
  intros HR Hi Hj. unfold cov.
  assert (Hh : length (hd [] rows) = n).
  { destruct rows as [|r rows]; [cbn [length] in Hi; lia|]. inversion HR; subst. reflexivity. }
  rewrite Hh.
  rewrite (nth_map_in _ (map (denoise O sum_o) rows) i [] []) by (rewrite map_length; exact Hi).
  rewrite (nth_map_in _ (map (denoise O sum_o) rows) j [] fzero) by (rewrite map_length; exact Hj).
  rewrite (nth_map_in _ rows i [] []) by exact Hi.
  rewrite (nth_map_in _ rows j [] []) by exact Hj.
  reflexivity.
Qed.

Theorem cov_model_entry_error (rows : list (list F64)) (ddof : F64) (n i j : nat) :
  Forall (fun r => length r = n) rows -> (i < length rows)%nat -> (j < length rows)%nat ->
  (1 <= n)%nat -> (Z.of_nat n <= 2 ^ 53)%Z ->
  let xi := nth i rows [] in let xj := nth j rows [] in
  let c := nth j (nth i (cov O sum_o rows ddof) []) fzero in
  INR n - B2R ddof <> 0 ->
  fin ddof = true ->
  fin c = true ->
  Rabs (B2R c - cxy xi xj / (INR n - B2R ddof))
    <= cov_bound (hf n) n (mean_err (hf n) n xi) (mean_err (hf n) n xj) xi xj (INR n - B2R ddof).
Proof.
  intros HR Hi Hj Hn Hn53 xi xj c HN FD Hf.
  assert (Li : length xi = n).
  { unfold xi. rewrite Forall_forall in HR. apply HR. apply nth_In. exact Hi. }
  assert (Lj : length xj = n).
  { unfold xj. rewrite Forall_forall in HR. apply HR. apply nth_In. exact Hj. }
  unfold c in *. rewrite (cov_model_entry rows ddof n i j HR Hi Hj) in *. fold xi xj in Hf |- *.
  pose proof (model_dot_eval (denoise O sum_o xi) (denoise O sum_o xj)) as DE.
  rewrite !denoise_dev, !row_mean_unfold, Li, Lj in *.
  assert (HL : length (combine (dev xi (fdiv (sum_o xi) (f64_of_Z (Z.of_nat n))))
                               (dev xj (fdiv (sum_o xj) (f64_of_Z (Z.of_nat n))))) = n).
  { unfold dev. rewrite combine_length, !map_length, Li, Lj. apply Nat.min_id. }
  rewrite HL in DE.
  pose proof (sum_o_tree xi) as Ti. rewrite Li in Ti.
  pose proof (sum_o_tree xj) as Tj. rewrite Lj in Tj.
  exact (cov_entry_error_f64_means xi xj (sum_o xi) (sum_o xj) ddof _ (hf n) (hf n) n
           Li Lj Hn Hn53 Ti Tj DE HN FD Hf).
Qed.

Theorem cov_model_diag_nonneg (rows : list (list F64)) (ddof : F64) (n i : nat) :
  Forall (fun r => length r = n) rows -> (i < length rows)%nat -> (Z.of_nat n <= 2 ^ 53)%Z ->
  let c := nth i (nth i (cov O sum_o rows ddof) []) fzero in
  0 < INR n - B2R ddof ->
  fin ddof = true ->
  fin c = true -> 0 <= B2R c.
Proof.
  intros HR Hi Hn53 c HN FD Hf.
  unfold c in *. rewrite (cov_model_entry rows ddof n i i HR Hi Hi) in *.
  pose proof (model_dot_eval (denoise O sum_o (nth i rows [])) (denoise O sum_o (nth i rows []))) as DE.
  rewrite denoise_dev in *.
  exact (cov_f64_diag_nonneg _ _ ddof _ _ n Hn53 DE HN FD Hf).
Qed.
End Model.

(* ------------------------------------------------------------------ *)
(* 10. Examples: the hypotheses are satisfiable                        *)
(* ------------------------------------------------------------------ *)
Definition zf (z : Z) : F64 := f64_of_Z z.
Definition ex_x : list F64 := [zf 1; zf 2; zf 4].
Definition ex_y : list F64 := [zf 2; zf 1; zf 6].
Definition ex_rows : list (list F64) := [ex_x; ex_y].
Definition ex_sum (l : list F64) : F64 := fold_left fadd l fzero.
Definition ex_nf : F64 := f64_of_Z (Z.of_nat 3).
Definition ex_mean (l : list F64) : F64 := fdiv (ex_sum l) ex_nf.
Definition ex_div : F64 := fsub ex_nf fone.

Lemma ex_sum_eval l : sum_eval l (ex_sum l) (length l).
Proof. exists 1%nat. apply fold_sum_tree. Qed.

Lemma ex_div_ne : INR 3 - B2R fone <> 0.
Proof. rewrite (proj2 fone_spec). cbn [INR]. lra. Qed.
Lemma ex_div_pos : 0 < INR 3 - B2R fone.
Proof. rewrite (proj2 fone_spec). cbn [INR]. lra. Qed.
Lemma ex_n53 : (Z.of_nat 3 <= 2 ^ 53)%Z. Proof. lia. Qed.
Lemma ex_n1 : (1 <= 3)%nat. Proof. lia. Qed.
Lemma ex_ddof_fin : fin fone = true. Proof. exact (proj1 fone_spec). Qed.

(* a mixed evaluation: one product rounded on its own, one fused, pairwise addition on top *)
Example dot_eval_error_example :
  let l := [(zf 1, zf 3); (zf 5, zf 7); (zf 2, zf 9)] in
  let v := fadd (fmul (zf 1) (zf 3)) (ffma (zf 5) (zf 7) (fmul (zf 2) (zf 9))) in
  dot_eval l v 2 /\ fin v = true /\
  Rabs (B2R v - Rsum (map rprod l)) <= g64 (2 + 1) * Rasum (map rprod l) + INR (length l) * (1 + g64 2) * eta64.
Proof.
  intros l v.
  assert (D : dot_eval l v 2).
  { unfold l, v. apply (DE_add [(zf 1, zf 3)] [(zf 5, zf 7); (zf 2, zf 9)]).
    - apply DE_prod.
    - apply DE_fma. apply DE_prod. }
  assert (F : fin v = true) by (vm_compute; reflexivity).
  split; [exact D|]. split; [exact F|]. exact (dot_eval_error l v 2 D F).
Qed.

(* the fused accumulation acc = fma(a_k, b_k, acc) over the centred example rows *)
Example cov_entry_fused_example :
  let v := fma_dot (combine (dev ex_x (ex_mean ex_x)) (dev ex_y (ex_mean ex_y))) in
  fin (fdiv v ex_div) = true /\
  Rabs (B2R (fdiv v ex_div) - cxy ex_x ex_y / (INR 3 - B2R fone))
    <= cov_bound 3 3 (mean_err 3 3 ex_x) (mean_err 3 3 ex_y) ex_x ex_y (INR 3 - B2R fone).
Proof.
  intros v. assert (F : fin (fdiv v ex_div) = true) by (vm_compute; reflexivity).
  split; [exact F|].
  exact (cov_entry_error_f64_means ex_x ex_y (ex_sum ex_x) (ex_sum ex_y) fone v 3 3 3
           eq_refl eq_refl ex_n1 ex_n53 (ex_sum_eval ex_x) (ex_sum_eval ex_y)
           (fma_dot_eval (combine (dev ex_x (ex_mean ex_x)) (dev ex_y (ex_mean ex_y))))
           ex_div_ne ex_ddof_fin F).
Qed.

(* entry (0,1) fused, entry (1,0) unfused and summed left to right: both within the bound *)
Example cov_symmetric_example :
  let mx := ex_mean ex_x in let my := ex_mean ex_y in
  let vij := fma_dot (combine (dev ex_x mx) (dev ex_y my)) in
  let vji := ex_sum (map fprod (combine (dev ex_y my) (dev ex_x mx))) in
  let B := cov_bound 3 3 (mean_err 3 3 ex_x) (mean_err 3 3 ex_y) ex_x ex_y (INR 3 - B2R fone) in
  Rabs (B2R (fdiv vij ex_div) - B2R (fdiv vji ex_div)) <= 2 * B.
Proof.
  intros mx my vij vji B.
  assert (Fx : fin mx = true) by (vm_compute; reflexivity).
  assert (Fy : fin my = true) by (vm_compute; reflexivity).
  pose proof (mean_tree_error ex_x (ex_sum ex_x) 3 3 (ex_sum_eval ex_x) eq_refl ex_n1 ex_n53 Fx) as Mx.
  pose proof (mean_tree_error ex_y (ex_sum ex_y) 3 3 (ex_sum_eval ex_y) eq_refl ex_n1 ex_n53 Fy) as My.
  assert (Dij : dot_eval (combine (dev ex_x mx) (dev ex_y my)) vij 3).
  { exact (fma_dot_eval (combine (dev ex_x mx) (dev ex_y my))). }
  assert (Dji : dot_eval (combine (dev ex_y my) (dev ex_x mx)) vji 3).
  { apply (sum_tree_dot_eval _ _ 1). exact (fold_sum_tree (map fprod (combine (dev ex_y my) (dev ex_x mx)))). }
  assert (Fij : fin (fdiv vij ex_div) = true) by (vm_compute; reflexivity).
  assert (Fji : fin (fdiv vji ex_div) = true) by (vm_compute; reflexivity).
  exact (proj2 (proj2 (cov_f64_symmetric_error ex_x ex_y mx my fone vij vji 3 3 _ _
            eq_refl eq_refl ex_n1 ex_n53 Mx My Dij Dji ex_div_ne ex_ddof_fin Fij Fji))).
Qed.

Example cov_diag_example :
  let mx := ex_mean ex_x in
  let v := fma_dot (combine (dev ex_x mx) (dev ex_x mx)) in
  fin (fdiv v ex_div) = true /\ 0 <= B2R (fdiv v ex_div).
Proof.
  intros mx v. assert (F : fin (fdiv v ex_div) = true) by (vm_compute; reflexivity).
  split; [exact F|].
  exact (cov_f64_diag_nonneg ex_x mx fone v 3 3 ex_n53
           (fma_dot_eval (combine (dev ex_x mx) (dev ex_x mx))) ex_div_pos ex_ddof_fin F).
Qed.

(* the executable model Num/Cov.v on 2 x 3 data, ddof = 1, left-to-right sums *)
Lemma ex_rows_len : Forall (fun r : list F64 => length r = 3%nat) ex_rows.
Proof. repeat constructor. Qed.

Example cov_model_example :
  let c := nth 1 (nth 0 (cov (f64_ops [] []) ex_sum ex_rows fone) []) fzero in
  fin c = true /\
  Rabs (B2R c - cxy ex_x ex_y / (INR 3 - B2R fone))
    <= cov_bound 3 3 (mean_err 3 3 ex_x) (mean_err 3 3 ex_y) ex_x ex_y (INR 3 - B2R fone).
Proof.
  intros c. assert (F : fin c = true) by (vm_compute; reflexivity).
  split; [exact F|].
  assert (H0 : (0 < length ex_rows)%nat) by (unfold ex_rows; cbn [length]; lia).
  assert (H1 : (1 < length ex_rows)%nat) by (unfold ex_rows; cbn [length]; lia).
  exact (cov_model_entry_error [] [] ex_sum (fun n => n) ex_sum_eval ex_rows fone 3 0 1
           ex_rows_len H0 H1 ex_n1 ex_n53 ex_div_ne ex_ddof_fin F).
Qed.

Example cov_model_diag_example :
  let c := nth 0 (nth 0 (cov (f64_ops [] []) ex_sum ex_rows fone) []) fzero in
  fin c = true /\ 0 <= B2R c.
Proof.
  intros c. assert (F : fin c = true) by (vm_compute; reflexivity).
  split; [exact F|].
  assert (H0 : (0 < length ex_rows)%nat) by (unfold ex_rows; cbn [length]; lia).
  exact (cov_model_diag_nonneg [] [] ex_sum (fun n => n) ex_sum_eval ex_rows fone 3 0
           ex_rows_len H0 ex_n53 ex_div_pos ex_ddof_fin F).
Qed.

(* FINDING: the hypothesis [fin ddof = true] cannot be dropped.  Rust's cov only checks
   ddof < n; with ddof = -infinity the divisor is +infinity and every entry is a finite zero,
   whatever the data (and B2R of an infinity is 0, so the real-number right-hand side would be
   cxy / n). *)
Example divisor_finite_needed :
  let ninf : F64 := B754_infinity true in
  let d := fsub (zf 3) ninf in
  fin d = false /\ fin (fdiv (zf 7) d) = true /\ fdiv (zf 7) d = fzero.
Proof. vm_compute. repeat split; reflexivity. Qed.
