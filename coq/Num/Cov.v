(* correlation.rs: cov and pearson_correlation.  Rows are random variables, columns are
   observations.  ndarray's mean_axis / dot / std_axis are modelled by their mathematical
   definitions over an arbitrary summation oracle [sum_o] (their operation order depends on the
   layout and on matrixmultiply's kernels: trusted base). *)
From Coq Require Import List Arith Bool.
Import ListNotations.
From NS Require Import Num.Ops.

Section C.
Context {T : Type}.
Variable O : ops T.
Variable sum_o : list T -> T.

Definition row_mean (r : list T) : T := o_div O (sum_o r) (o_of_nat O (length r)).
Definition denoise (r : list T) : list T := map (fun x => o_sub O x (row_mean r)) r.
Definition dot (a b : list T) : T := sum_o (map (fun ab => o_mul O (fst ab) (snd ab)) (combine a b)).

(* cov(ddof): (self - mean).dot((self - mean).t()) / (n_observations - ddof) *)
Definition cov (rows : list (list T)) (ddof : T) : list (list T) :=
  let n := o_of_nat O (length (hd [] rows)) in
  let d := map denoise rows in
  map (fun ri => map (fun rj => o_div O (dot ri rj) (o_sub O n ddof)) d) d.

(* std_axis(Axis(1), 0): sqrt of the mean squared deviation *)
Definition std0 (r : list T) : T :=
  o_sqrt O (o_div O (dot (denoise r) (denoise r)) (o_of_nat O (length r))).

(* pearson_correlation: cov(0) / (std std^T), element-wise *)
Definition pearson (rows : list (list T)) : list (list T) :=
  let c := cov rows (o_zero O) in
  let sd := map std0 rows in
  map (fun ci_si => map (fun cij_sj => o_div O (fst cij_sj) (o_mul O (snd ci_si) (snd cij_sj)))
                        (combine (fst ci_si) sd))
      (combine c sd).
End C.
