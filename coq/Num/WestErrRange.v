(* West's weighted variance in binary64: the SHARP form of the error bounds (Num/WestErrF64.v
   gives the a-priori form in terms of X = max |x_i| only).  When the observations of non-zero
   weight lie in [lo, hi] the error of the sum of squares is governed by
       S  +  W * (hi - lo) * (hi - lo + X)
   instead of  S + W X^2 :  the condition-number form of Chan, Golub and LeVeque.
   Route: the exact running mean stays in [lo, hi]; the computed one is within the a-priori bound
   [mean_bound] of it at EVERY prefix; hence every observation is within (hi - lo) + mean_bound
   of the computed mean, which feeds the parametric theorem [west_err_param]. *)
From Flocq Require Import Core BinarySingleNaN Plus_error Relative.
Require Import Reals Lra Lia ZArith Psatz Bool List.
From NS Require Import Num.F64 Num.Ops Num.F64Inst Num.RInst Num.Kernels Num.SumBridge Num.SumF64.
From NS Require Import Quantile.IndexProofs Quantile.InterpF64 Num.WestF64.
From NS Require Import Num.WestErrR Num.WestErrF64 Num.WestErrVar.
From NS Require Num.KernelsR.
Import ListNotations.
Open Scope R_scope.

Notation estep := (west_step R_ops).

(* ------------------------------------------------------------------ *)
(* 1. Prefixes of a run                                                *)
(* ------------------------------------------------------------------ *)
Lemma west_run_ok_app l1 : forall st l2, west_run_ok st (l1 ++ l2) ->
  west_run_ok st l1 /\ west_run_ok (fold_left (west_step OW) l1 st) l2.
Proof.
  induction l1 as [|xw l1 IH]; intros st l2 H; [split; [exact I | exact H]|].
  cbn [app] in H. destruct H as [H1 H2]. destruct (IH _ _ H2) as [A B].
  split; [split; assumption | exact B].
Qed.

Lemma erun_app l1 l2 ste : erun (l1 ++ l2) ste = erun l2 (erun l1 ste).
Proof. unfold erun. rewrite map_app, fold_left_app. reflexivity. Qed.

Lemma wsumR_app l1 l2 : wsumR (l1 ++ l2) = wsumR l1 + wsumR l2.
Proof. unfold wsumR. rewrite map_app, Rsum_app. reflexivity. Qed.

(* pointwise side conditions at every split give the recursive predicate *)
Lemma devs_ok_of_splits (X Dh Dd : R) l : forall stf ste,
  (forall l1 xw l2, l = l1 ++ xw :: l2 ->
     dev_ok1 X Dh Dd (fold_left (west_step OW) l1 stf) (erun l1 ste) xw) ->
  devs_ok X Dh Dd stf ste l.
Proof.
  induction l as [|xw l IH]; intros stf ste H; [exact I|].
  cbn [devs_ok]. split.
  - exact (H [] xw l eq_refl).
  - apply IH. intros l1 xw' l2 E. specialize (H (xw :: l1) xw' l2).
    cbn [app fold_left] in H. unfold erun in H. cbn [map fold_left] in H.
    apply H. rewrite E. reflexivity.
Qed.

(* ------------------------------------------------------------------ *)
(* 2. The exact running mean stays in the range of the observations    *)
(* ------------------------------------------------------------------ *)
Definition obs_in (lo hi : R) (l : list (F64 * F64)) : Prop :=
  Forall (fun xw : F64 * F64 => B2R (snd xw) <> 0 -> lo <= B2R (fst xw) <= hi) l.

Lemma conv_range (W w M x lo hi : R) : 0 <= W -> 0 < w -> (0 < W -> lo <= M <= hi) -> lo <= x <= hi ->
  lo <= M + w / (W + w) * (x - M) <= hi.
Proof.
  intros HW Hw HM Hx.
  destruct (Req_dec W 0) as [Z | NZ].
  - subst W. replace (M + w / (0 + w) * (x - M)) with x by (field; lra). exact Hx.
  - assert (HWp : 0 < W) by lra. specialize (HM HWp). set (r := w / (W + w)).
    assert (I : 0 < / (W + w)) by (apply Rinv_0_lt_compat; lra).
    assert (E : (W + w) * / (W + w) = 1) by (apply Rinv_r; lra).
    assert (Hr : 0 <= r <= 1) by (unfold r, Rdiv; split; nra).
    split; nra.
Qed.

Lemma erun_range lo hi l : forall ste, 0 <= eW ste -> (0 < eW ste -> lo <= eM ste <= hi) ->
  Forall (fun xw : F64 * F64 => 0 <= B2R (snd xw)) l -> obs_in lo hi l ->
  0 <= eW (erun l ste) /\ (0 < eW (erun l ste) -> lo <= eM (erun l ste) <= hi).
Proof.
  induction l as [|[x w] l IH]; intros ste HW HM HF Hobs; [split; assumption|].
  inversion HF as [|? ? Hw HF']; subst. inversion Hobs as [|? ? Hx Hobs']; subst.
  cbn [fst snd] in Hw, Hx.
  unfold erun. cbn [map fold_left]. fold (erun l (estep ste (rpair (x, w)))).
  unfold rpair. cbn [fst snd]. destruct ste as [[W M] Q]. unfold eW, eM in HW, HM. cbn [fst snd] in HW, HM.
  destruct (Req_dec (B2R w) 0) as [Z | NZ].
  - rewrite (KernelsR.west_step_zero _ (B2R x) (B2R w) Z). apply IH; assumption.
  - rewrite (KernelsR.west_step_nz W M Q (B2R x) (B2R w) NZ).
    apply IH; try assumption; unfold eW, eM; cbn [fst snd]; [lra|].
    intros _. apply conv_range; [exact HW | lra | exact HM | exact (Hx NZ)].
Qed.

(* ------------------------------------------------------------------ *)
(* 3. The a-priori invariant at every prefix                           *)
(* ------------------------------------------------------------------ *)
Lemma apriori_prefix (l1 l2 : list (F64 * F64)) (X : R) :
  0 <= X -> west_run_ok st0 (l1 ++ l2) -> obs_le X (l1 ++ l2) ->
  let N := length (l1 ++ l2) in
  Inv N X (DhX N X) (2 * X) (dW (l1 ++ l2)) (length l1) (frun l1) (erun l1 (0, 0, 0)).
Proof.
  intros HX Hok Hobs N.
  destruct (west_run_ok_app l1 st0 l2 Hok) as [Hok1 Hok2].
  assert (HDh : 0 <= DhX N X).
  { unfold DhX. apply Rmult_le_pos; [exact HX|]. pose proof (pu_pos (N + 3)). lra. }
  pose proof (wsumR_nonneg _ (run_ok_weights _ _ Hok)) as HWT. fold (dW (l1 ++ l2)) in HWT.
  pose proof (wsumR_nonneg _ (run_ok_weights _ _ Hok1)) as HW1.
  pose proof (wsumR_nonneg _ (run_ok_weights _ _ Hok2)) as HW2.
  assert (HN : (0 + length l1 <= N)%nat) by (unfold N; rewrite app_length; lia).
  assert (Hobs1 : obs_le X l1) by (unfold obs_le in *; apply Forall_app in Hobs; tauto).
  pose proof (run_inv N X (DhX N X) (2 * X) (dW (l1 ++ l2)) HX HDh ltac:(lra) HWT l1 0%nat st0 (0, 0, 0)) as H.
  cbn [plus] in H. apply H.
  - exact HN.
  - exact west_inv2_init.
  - apply Inv_init; try assumption; lra.
  - exact Hok1.
  - apply (crude_devs N X HX l1 0%nat); try assumption.
    + exact west_inv2_init.
    + unfold sm, st0. cbn [fst snd]. rewrite B2R_fzero, Rabs_R0.
      apply Rmult_le_pos; [exact HX | apply Rlt_le, pu_pos].
    + unfold eW. cbn [fst]. lra.
    + unfold eM. cbn [fst snd]. rewrite Rabs_R0. exact HX.
  - unfold eW, dW. cbn [fst]. rewrite wsumR_app. lra.
Qed.

Lemma DhX_nonneg N X : 0 <= X -> 0 <= DhX N X.
Proof. intros HX. unfold DhX. apply Rmult_le_pos; [exact HX|]. pose proof (pu_pos (N + 3)). lra. Qed.
Lemma mean_bound_nonneg n X : 0 <= X -> 0 <= mean_bound n X.
Proof. intros HX. unfold mean_bound. apply BM_nonneg; [exact HX | apply DhX_nonneg; exact HX]. Qed.

(* ------------------------------------------------------------------ *)
(* 4. The sharp form                                                   *)
(* ------------------------------------------------------------------ *)
Theorem west_err_range (l : list (F64 * F64)) (lo hi X : R) :
  0 <= X -> lo <= hi -> west_run_ok st0 l -> obs_le X l -> obs_in lo hi l ->
  let n := length l in
  Inv n X (hi - lo + mean_bound n X) (hi - lo) (dW l) n (frun l) (erun l (0, 0, 0)).
Proof.
  intros HX Hlh Hok Hobs Hin n.
  pose proof (mean_bound_nonneg n X HX) as HE1.
  apply west_err_param; [exact HX | lra | lra | exact Hok|].
  apply devs_ok_of_splits. intros l1 xw l2 E NZ.
  assert (Hx : Rabs (B2R (fst xw)) <= X).
  { unfold obs_le in Hobs. rewrite E in Hobs. apply Forall_app in Hobs. destruct Hobs as [_ Hobs].
    inversion Hobs as [|? ? H1 _]; subst. exact (H1 NZ). }
  assert (Hxin : lo <= B2R (fst xw) <= hi).
  { unfold obs_in in Hin. rewrite E in Hin. apply Forall_app in Hin. destruct Hin as [_ Hin].
    inversion Hin as [|? ? H1 _]; subst. exact (H1 NZ). }
  split; [exact Hx|]. intros HWpos.
  assert (Hok' : west_run_ok st0 (l1 ++ xw :: l2)) by (rewrite <- E; exact Hok).
  assert (Hobs' : obs_le X (l1 ++ xw :: l2)) by (rewrite <- E; exact Hobs).
  pose proof (apriori_prefix l1 (xw :: l2) X HX Hok' Hobs') as P. cbv zeta in P.
  rewrite <- E in P. fold n in P. destruct P as (_ & _ & _ & _ & HM & _).
  fold (frun l1).
  assert (HM' : Rabs (B2R (sm (frun l1)) - eM (erun l1 (0, 0, 0))) <= mean_bound n X).
  { eapply Rle_trans; [exact HM|]. unfold mean_bound. apply BM_mono.
    - exact HX.
    - apply DhX_nonneg; exact HX.
    - unfold n. rewrite E, app_length. lia. }
  destruct (west_run_ok_app l1 st0 (xw :: l2) Hok') as [Hok1 _].
  assert (Hin1 : obs_in lo hi l1).
  { unfold obs_in in *. rewrite E in Hin. apply Forall_app in Hin. tauto. }
  destruct (erun_range lo hi l1 (0, 0, 0)) as [_ HR]; try assumption.
  { unfold eW. cbn [fst]. lra. }
  { unfold eW. cbn [fst]. intros H0. lra. }
  { exact (run_ok_weights _ _ Hok1). }
  specialize (HR HWpos).
  assert (Hd : Rabs (B2R (fst xw) - eM (erun l1 (0, 0, 0))) <= hi - lo) by (apply Rabs_le; lra).
  split; [|exact Hd].
  replace (B2R (fst xw) - B2R (sm (frun l1)))
    with ((B2R (fst xw) - eM (erun l1 (0, 0, 0))) - (B2R (sm (frun l1)) - eM (erun l1 (0, 0, 0)))) by ring.
  unfold Rminus at 1. eapply Rle_trans; [apply Rabs_triang|]. rewrite Rabs_Ropp. lra.
Qed.

(* the explicit bounds of the sharp form: D = hi - lo *)
Definition mean_bound_range (n : nat) (X D : R) : R := BM n X (D + mean_bound n X) n.
Definition ssq_bound_range (n : nat) (X D W Sq : R) : R :=
  BS n X (D + mean_bound n X) D (W * pu n) n W Sq.

Theorem west_mean_error_range (l : list (F64 * F64)) (lo hi X : R) :
  0 <= X -> lo <= hi -> west_run_ok st0 l -> obs_le X l -> obs_in lo hi l -> 0 < dW l ->
  Rabs (B2R (sm (frun l)) - dM l) <= mean_bound_range (length l) X (hi - lo).
Proof.
  intros HX Hlh Hok Hobs Hin HW.
  pose proof (west_err_range l lo hi X HX Hlh Hok Hobs Hin) as (_ & _ & _ & _ & HM & _).
  rewrite (erun_closed l (run_ok_weights _ _ Hok) HW) in HM. exact HM.
Qed.

Theorem west_ssq_error_range (l : list (F64 * F64)) (lo hi X : R) :
  0 <= X -> lo <= hi -> west_run_ok st0 l -> obs_le X l -> obs_in lo hi l -> 0 < dW l ->
  Rabs (B2R (ss (frun l)) - dS l) <= ssq_bound_range (length l) X (hi - lo) (dW l) (dS l).
Proof.
  intros HX Hlh Hok Hobs Hin HW.
  pose proof (west_err_range l lo hi X HX Hlh Hok Hobs Hin) as (_ & _ & _ & _ & _ & HS & _).
  rewrite (erun_closed l (run_ok_weights _ _ Hok) HW) in HS. exact HS.
Qed.


(* ------------------------------------------------------------------ *)
(* 5. Polynomial form under  n u <= 1/64                               *)
(* ------------------------------------------------------------------ *)
(* the a-priori mean error in polynomial form, and D enlarged by it *)
Definition E1p (n : nat) (X : R) : R :=
  (63 / 20 * INR n + 17 / 2) * u64 * X + INR n * (eta64 * (11 / 5 * X + 11 / 10)).
Definition Dp (n : nat) (X D : R) : R := D + E1p n X.
(* the sharp mean bound in polynomial form *)
Definition MRp (n : nat) (X D : R) : R :=
  (31 / 30 * (INR n + 4) * Dp n X D + 61 / 60 * INR n * X) * u64
  + INR n * (eta64 * (21 / 20 * Dp n X D + 61 / 60)).
(* the sharp sum-of-squares bound in polynomial form *)
Definition SRp (n : nat) (X D W Sq : R) : R :=
  (21 / 10 * INR n + 15 / 2) * Sq * u64
  + 21 / 20 * (W * (MRp n X D * (D + Dp n X D)))
  + INR n * (eta64 * (W * Dp n X D * (11 / 10 * Dp n X D + 11 / 10) + 21 / 20 * Dp n X D + 61 / 60)).

Section PolyRange.
Variable n : nat.
Hypothesis Hn : INR n * u64 <= / 64.
Variables X D : R.
Hypotheses (HX : 0 <= X) (HD : 0 <= D).
Let t := INR n.
Let Dh := D + mean_bound n X.

Lemma E1p_nonneg : 0 <= E1p n X.
Proof.
  unfold E1p. pose proof (pos_INR n). pose proof u64_pos. pose proof eta64_pos.
  assert (0 <= (63 / 20 * INR n + 17 / 2) * u64 * X) by (apply Rmult_le_pos; [apply Rmult_le_pos|]; lra).
  assert (0 <= INR n * (eta64 * (11 / 5 * X + 11 / 10))).
  { apply Rmult_le_pos; [lra|]. apply Rmult_le_pos; lra. }
  lra.
Qed.

Lemma Dh_Dp : 0 <= Dh <= Dp n X D.
Proof.
  unfold Dh, Dp, E1p. pose proof (mean_bound_nonneg n X HX). pose proof (mean_bound_poly n Hn X HX). lra.
Qed.

Lemma mean_bound_range_poly : mean_bound_range n X D <= MRp n X D.
Proof.
  unfold mean_bound_range, BM, MRp, GM. fold Dh. fold t.
  pose proof Dh_Dp as [D0 D1]. set (P := Dp n X D) in *.
  pose proof (pu_n_small n Hn) as Pn. pose proof (pu_pos n) as Pn0.
  pose proof (pu2_small n Hn) as P2s. pose proof (pu_pos 2) as P20.
  pose proof (g64_lin n Hn 4 ltac:(lia)) as G. pose proof (g64_nonneg (n + 4)) as G0.
  rewrite plus_INR in G. fold t in G. replace (INR 4) with 4 in G by (rewrite INR_IZR_INZ; reflexivity).
  pose proof u64_pos as Hu. pose proof (pos_INR n) as Ht. fold t in Ht. pose proof eta64_pos as Het.
  set (a1 := u64 * P). set (a2 := t * (u64 * P)). set (a3 := t * (u64 * X)).
  set (a4 := t * (eta64 * P)). set (a5 := t * eta64).
  assert (HP : 0 <= P) by lra.
  assert (H1 : 0 <= a1) by (unfold a1; nra).
  assert (H2 : 0 <= a2) by (unfold a2; apply Rmult_le_pos; [lra | nra]).
  assert (H3 : 0 <= a3) by (unfold a3; apply Rmult_le_pos; [lra | nra]).
  assert (H4 : 0 <= a4) by (unfold a4; apply Rmult_le_pos; [lra | nra]).
  assert (H5 : 0 <= a5) by (unfold a5; nra).
  assert (A1 : g64 (n + 4) * Dh <= 64 / 63 * ((t + 4) * u64) * P) by (apply Rmult_le_compat; lra).
  assert (A2 : eI Dh <= eta64 * (61 / 60 * P + 1)).
  { unfold eI. apply Rmult_le_compat_l; [lra|].
    assert (Dh * pu 2 <= P * (61 / 60)) by (apply Rmult_le_compat; lra). lra. }
  assert (A2' : 0 <= eI Dh) by (apply eI_nonneg; exact D0).
  assert (A3 : t * (u64 * X + eI Dh) <= a3 + (61 / 60 * a4 + a5)).
  { replace (a3 + (61 / 60 * a4 + a5)) with (t * (u64 * X + eta64 * (61 / 60 * P + 1)))
      by (unfold a3, a4, a5; ring).
    apply Rmult_le_compat_l; lra. }
  assert (A4 : 0 <= g64 (n + 4) * Dh + t * (u64 * X + eI Dh)).
  { assert (0 <= g64 (n + 4) * Dh) by (apply Rmult_le_pos; lra).
    assert (0 <= t * (u64 * X + eI Dh)) by (apply Rmult_le_pos; [lra|]; nra). lra. }
  assert (A5 : pu n * (g64 (n + 4) * Dh + t * (u64 * X + eI Dh))
               <= 61 / 60 * (64 / 63 * (a2 + 4 * a1) + (a3 + (61 / 60 * a4 + a5)))).
  { apply Rmult_le_compat; try lra.
    replace (64 / 63 * (a2 + 4 * a1)) with (64 / 63 * ((t + 4) * u64) * P) by (unfold a1, a2; ring). lra. }
  eapply Rle_trans; [exact A5|].
  replace ((31 / 30 * (t + 4) * P + 61 / 60 * t * X) * u64 + t * (eta64 * (21 / 20 * P + 61 / 60)))
    with (31 / 30 * (a2 + 4 * a1) + 61 / 60 * a3 + 21 / 20 * a4 + 61 / 60 * a5)
    by (unfold a1, a2, a3, a4, a5; ring).
  lra.
Qed.

Lemma MRp_nonneg : 0 <= MRp n X D.
Proof.
  eapply Rle_trans; [|exact mean_bound_range_poly]. unfold mean_bound_range. apply BM_nonneg; [exact HX|].
  pose proof (mean_bound_nonneg n X HX). lra.
Qed.

Variables W Sq : R.
Hypotheses (HW : 0 <= W) (HSq : 0 <= Sq).

Lemma ssq_bound_range_poly : ssq_bound_range n X D W Sq <= SRp n X D W Sq.
Proof.
  unfold ssq_bound_range, BS, KS, SRp. fold Dh. fold (mean_bound_range n X D). fold t.
  pose proof Dh_Dp as [D0 D1]. set (P := Dp n X D) in *.
  pose proof mean_bound_range_poly as MRB. pose proof MRp_nonneg as MR0.
  assert (MB0 : 0 <= mean_bound_range n X D).
  { unfold mean_bound_range. apply BM_nonneg; [exact HX | exact D0]. }
  set (MR := MRp n X D) in *.
  pose proof (pu_n_small n Hn) as Pn. pose proof (pu_pos n) as Pn0.
  pose proof (pu2_small n Hn) as P2s. pose proof (pu_pos 2) as P20.
  pose proof (pu3_small n Hn) as P3s. pose proof (pu_pos 3) as P30.
  pose proof (g64_lin n Hn 7 ltac:(lia)) as G. pose proof (g64_nonneg (n + 7)) as G0.
  rewrite plus_INR in G. fold t in G. replace (INR 7) with 7 in G by (rewrite INR_IZR_INZ; reflexivity).
  pose proof (pu_small n Hn 7 ltac:(lia)) as P7. rewrite pu_g in P7.
  pose proof u64_pos as Hu. pose proof (pos_INR n) as Ht. fold t in Ht. pose proof eta64_pos as Het.
  unfold GS.
  assert (HP : 0 <= P) by lra.
  set (m1 := u64 * Sq). set (m2 := t * (u64 * Sq)).
  set (K := W * (MR * (D + P))).
  set (b1 := t * (eta64 * (W * (P * P)))). set (b2 := t * (eta64 * (W * P))).
  set (b3 := t * (eta64 * P)). set (b4 := t * eta64).
  assert (HPP : 0 <= P * P) by nra. assert (HWP : 0 <= W * P) by nra. assert (HWPP : 0 <= W * (P * P)) by nra.
  assert (H1 : 0 <= m1) by (unfold m1; nra).
  assert (H2 : 0 <= m2) by (unfold m2; apply Rmult_le_pos; [lra | nra]).
  assert (HK : 0 <= K) by (unfold K; apply Rmult_le_pos; [lra|]; apply Rmult_le_pos; lra).
  assert (Hb1 : 0 <= b1) by (unfold b1; apply Rmult_le_pos; [lra | nra]).
  assert (Hb2 : 0 <= b2) by (unfold b2; apply Rmult_le_pos; [lra | nra]).
  assert (Hb3 : 0 <= b3) by (unfold b3; apply Rmult_le_pos; [lra | nra]).
  assert (Hb4 : 0 <= b4) by (unfold b4; nra).
  (* A: the S part *)
  assert (A : (g64 (n + 7) + t * u64) * Sq <= 127 / 63 * m2 + 64 / 9 * m1).
  { replace (127 / 63 * m2 + 64 / 9 * m1) with ((64 / 63 * ((t + 7) * u64) + t * u64) * Sq) by (unfold m1, m2; field).
    apply Rmult_le_compat_r; lra. }
  (* B: the cross term *)
  assert (B1 : (1 + g64 (n + 7)) * (mean_bound_range n X D * (D + Dh)) <= 61 / 60 * (MR * (D + P))).
  { apply Rmult_le_compat; [lra | apply Rmult_le_pos; lra | lra |]. apply Rmult_le_compat; lra. }
  assert (B2 : W * ((1 + g64 (n + 7)) * (mean_bound_range n X D * (D + Dh))) <= 61 / 60 * K).
  { replace (61 / 60 * K) with (W * (61 / 60 * (MR * (D + P)))) by (unfold K; ring).
    apply Rmult_le_compat_l; [exact HW | exact B1]. }
  (* C: the underflow term of s *)
  assert (C0 : Dh * pu 2 + 1 <= 61 / 60 * P + 1).
  { assert (Dh * pu 2 <= P * (61 / 60)) by (apply Rmult_le_compat; lra). lra. }
  assert (C0' : Dh * pu 3 <= 61 / 60 * P).
  { assert (Dh * pu 3 <= P * (61 / 60)) by (apply Rmult_le_compat; lra). lra. }
  assert (C1 : W * pu n * (Dh * pu 2 + 1) * Dh * pu 3 <= 61 / 60 * W * (61 / 60 * P + 1) * (61 / 60 * P)).
  { rewrite (Rmult_assoc _ Dh (pu 3)).
    assert (0 <= Dh * pu 2) by (apply Rmult_le_pos; lra).
    apply Rmult_le_compat; [| apply Rmult_le_pos; lra | | exact C0'].
    - apply Rmult_le_pos; [apply Rmult_le_pos; lra | lra].
    - apply Rmult_le_compat; [apply Rmult_le_pos; lra | lra | | exact C0].
      rewrite (Rmult_comm (61 / 60)). apply Rmult_le_compat_l; lra. }
  assert (C2 : t * eS (W * pu n) Dh
               <= 61 / 60 * (61 / 60) * (61 / 60) * b1 + 61 / 60 * (61 / 60) * b2 + 61 / 60 * b3 + b4).
  { unfold eS.
    replace (61 / 60 * (61 / 60) * (61 / 60) * b1 + 61 / 60 * (61 / 60) * b2 + 61 / 60 * b3 + b4)
      with (t * (eta64 * (61 / 60 * W * (61 / 60 * P + 1) * (61 / 60 * P) + (61 / 60 * P + 1))))
      by (unfold b1, b2, b3, b4; field).
    apply Rmult_le_compat_l; [exact Ht|]. apply Rmult_le_compat_l; [lra|]. lra. }
  set (T := (g64 (n + 7) + t * u64) * Sq + W * ((1 + g64 (n + 7)) * (mean_bound_range n X D * (D + Dh)))
            + t * eS (W * pu n) Dh) in *.
  assert (T0 : 0 <= T).
  { unfold T. assert (0 <= (g64 (n + 7) + t * u64) * Sq) by (apply Rmult_le_pos; nra).
    assert (0 <= W * ((1 + g64 (n + 7)) * (mean_bound_range n X D * (D + Dh)))).
    { apply Rmult_le_pos; [exact HW|]. apply Rmult_le_pos; [lra|]. apply Rmult_le_pos; lra. }
    assert (0 <= t * eS (W * pu n) Dh).
    { apply Rmult_le_pos; [exact Ht|]. apply eS_nonneg; [apply Rmult_le_pos; lra | exact D0]. }
    lra. }
  assert (DD : pu n * T <= 61 / 60 * T) by (apply Rmult_le_compat_r; lra).
  eapply Rle_trans; [exact DD|].
  replace ((21 / 10 * t + 15 / 2) * Sq * u64 + 21 / 20 * K
           + t * (eta64 * (W * P * (11 / 10 * P + 11 / 10) + 21 / 20 * P + 61 / 60)))
    with (21 / 10 * m2 + 15 / 2 * m1 + 21 / 20 * K + 11 / 10 * b1 + 11 / 10 * b2 + 21 / 20 * b3 + 61 / 60 * b4)
    by (unfold m1, m2, K, b1, b2, b3, b4; field).
  unfold T. lra.
Qed.
End PolyRange.

Theorem west_mean_error_range_poly (l : list (F64 * F64)) (lo hi X : R) :
  0 <= X -> lo <= hi -> west_run_ok st0 l -> obs_le X l -> obs_in lo hi l -> 0 < dW l ->
  INR (length l) * u64 <= / 64 ->
  Rabs (B2R (sm (frun l)) - dM l) <= MRp (length l) X (hi - lo).
Proof.
  intros HX Hlh Hok Hobs Hin HW Hn.
  eapply Rle_trans; [apply (west_mean_error_range l lo hi X); assumption|].
  apply mean_bound_range_poly; [exact Hn | exact HX | lra].
Qed.

Theorem west_ssq_error_range_poly (l : list (F64 * F64)) (lo hi X : R) :
  0 <= X -> lo <= hi -> west_run_ok st0 l -> obs_le X l -> obs_in lo hi l -> 0 < dW l ->
  INR (length l) * u64 <= / 64 ->
  Rabs (B2R (ss (frun l)) - dS l) <= SRp (length l) X (hi - lo) (dW l) (dS l).
Proof.
  intros HX Hlh Hok Hobs Hin HW Hn.
  eapply Rle_trans; [apply (west_ssq_error_range l lo hi X); assumption|].
  apply ssq_bound_range_poly; try assumption; try lra.
  apply dS_nonneg, (run_ok_weights _ _ Hok).
Qed.

(* ------------------------------------------------------------------ *)
(* 6. The digestible form: when the a-priori mean error is below the    *)
(*    spread, E1p <= D, the bounds are  u * (S + W D (D + X))-like      *)
(* ------------------------------------------------------------------ *)
Definition MR2 (n : nat) (X D : R) : R :=
  (31 / 15 * (INR n + 4) * D + 61 / 60 * INR n * X) * u64 + INR n * (eta64 * (21 / 10 * D + 61 / 60)).
Definition SR2 (n : nat) (X D W Sq : R) : R :=
  ((21 / 10 * INR n + 15 / 2) * Sq
   + W * D * (131 / 20 * (INR n + 4) * D + 13 / 4 * INR n * X)) * u64
  + INR n * (eta64 * (W * D * (12 * D + 6) + 11 / 5 * D + 11 / 10)).

Section Clean.
Variable n : nat.
Variables X D W Sq : R.
Hypotheses (HX : 0 <= X) (HD : 0 <= D) (HW : 0 <= W).
Hypothesis HE : E1p n X <= D.
Let t := INR n.

Lemma Dp_2D : 0 <= Dp n X D <= 2 * D.
Proof. unfold Dp. pose proof (E1p_nonneg n X HX). lra. Qed.

Lemma MRp_MR2 : 0 <= MRp n X D <= MR2 n X D.
Proof.
  unfold MRp, MR2. fold t. pose proof Dp_2D as [P0 P1]. set (P := Dp n X D) in *.
  pose proof u64_pos as Hu. pose proof eta64_pos as Het. pose proof (pos_INR n) as Ht. fold t in Ht.
  assert (A1 : 31 / 30 * (t + 4) * P <= 31 / 15 * (t + 4) * D).
  { replace (31 / 15 * (t + 4) * D) with (31 / 30 * (t + 4) * (2 * D)) by field.
    apply Rmult_le_compat_l; [nra | exact P1]. }
  assert (A0 : 0 <= 31 / 30 * (t + 4) * P) by (apply Rmult_le_pos; nra).
  assert (A2 : 0 <= 61 / 60 * t * X) by (apply Rmult_le_pos; nra).
  assert (A3 : (31 / 30 * (t + 4) * P + 61 / 60 * t * X) * u64 <= (31 / 15 * (t + 4) * D + 61 / 60 * t * X) * u64).
  { apply Rmult_le_compat_r; lra. }
  assert (A4 : t * (eta64 * (21 / 20 * P + 61 / 60)) <= t * (eta64 * (21 / 10 * D + 61 / 60))).
  { apply Rmult_le_compat_l; [exact Ht|]. apply Rmult_le_compat_l; lra. }
  assert (A5 : 0 <= (31 / 30 * (t + 4) * P + 61 / 60 * t * X) * u64) by (apply Rmult_le_pos; lra).
  assert (A6 : 0 <= t * (eta64 * (21 / 20 * P + 61 / 60))).
  { apply Rmult_le_pos; [exact Ht|]. apply Rmult_le_pos; lra. }
  lra.
Qed.

Lemma SRp_SR2 : SRp n X D W Sq <= SR2 n X D W Sq.
Proof.
  unfold SRp, SR2. fold t. pose proof Dp_2D as [P0 P1]. pose proof MRp_MR2 as [M0 M1].
  set (P := Dp n X D) in *. set (MR := MRp n X D) in *.
  pose proof u64_pos as Hu. pose proof eta64_pos as Het. pose proof (pos_INR n) as Ht. fold t in Ht.
  assert (B1 : MR * (D + P) <= MR2 n X D * (3 * D)) by (apply Rmult_le_compat; lra).
  assert (B2 : W * (MR * (D + P)) <= W * (MR2 n X D * (3 * D))) by (apply Rmult_le_compat_l; assumption).
  assert (C1 : W * P * (11 / 10 * P + 11 / 10) <= W * (2 * D) * (11 / 5 * D + 11 / 10)).
  { apply Rmult_le_compat; [apply Rmult_le_pos; lra | lra | apply Rmult_le_compat_l; lra | lra]. }
  assert (C2 : t * (eta64 * (W * P * (11 / 10 * P + 11 / 10) + 21 / 20 * P + 61 / 60))
               <= t * (eta64 * (W * (2 * D) * (11 / 5 * D + 11 / 10) + 21 / 10 * D + 61 / 60))).
  { apply Rmult_le_compat_l; [exact Ht|]. apply Rmult_le_compat_l; lra. }
  eapply Rle_trans.
  { apply Rplus_le_compat; [apply Rplus_le_compat_l; apply Rmult_le_compat_l; [lra | exact B2] | exact C2]. }
  unfold MR2. fold t.
  (* monomials *)
  set (q1 := t * (u64 * (W * (D * D)))). set (q2 := u64 * (W * (D * D))). set (q3 := t * (u64 * (W * (D * X)))).
  set (r1 := t * (eta64 * (W * (D * D)))). set (r2 := t * (eta64 * (W * D))).
  set (r3 := t * (eta64 * D)). set (r4 := t * eta64).
  set (s0 := (21 / 10 * t + 15 / 2) * Sq * u64).
  assert (HDD : 0 <= W * (D * D)) by (apply Rmult_le_pos; nra).
  assert (HDX : 0 <= W * (D * X)) by (apply Rmult_le_pos; nra).
  assert (HWD : 0 <= W * D) by nra.
  assert (Q1 : 0 <= q1) by (unfold q1; apply Rmult_le_pos; [lra | nra]).
  assert (Q2 : 0 <= q2) by (unfold q2; nra).
  assert (Q3 : 0 <= q3) by (unfold q3; apply Rmult_le_pos; [lra | nra]).
  assert (R1 : 0 <= r1) by (unfold r1; apply Rmult_le_pos; [lra | nra]).
  assert (R2 : 0 <= r2) by (unfold r2; apply Rmult_le_pos; [lra | nra]).
  assert (R3 : 0 <= r3) by (unfold r3; apply Rmult_le_pos; [lra | nra]).
  assert (R4 : 0 <= r4) by (unfold r4; nra).
  replace (s0 +
           21 / 20 * (W * (((31 / 15 * (t + 4) * D + 61 / 60 * t * X) * u64
                            + t * (eta64 * (21 / 10 * D + 61 / 60))) * (3 * D))) +
           t * (eta64 * (W * (2 * D) * (11 / 5 * D + 11 / 10) + 21 / 10 * D + 61 / 60)))
    with (s0 + 63 / 20 * (31 / 15) * (q1 + 4 * q2) + 63 / 20 * (61 / 60) * q3
          + 63 / 20 * (21 / 10) * r1 + 63 / 20 * (61 / 60) * r2
          + (22 / 5 * r1 + 11 / 5 * r2 + 21 / 10 * r3 + 61 / 60 * r4))
    by (unfold s0, q1, q2, q3, r1, r2, r3, r4; field).
  replace (((21 / 10 * t + 15 / 2) * Sq + W * D * (131 / 20 * (t + 4) * D + 13 / 4 * t * X)) * u64 +
           t * (eta64 * (W * D * (12 * D + 6) + 11 / 5 * D + 11 / 10)))
    with (s0 + 131 / 20 * (q1 + 4 * q2) + 13 / 4 * q3 + 12 * r1 + 6 * r2 + 11 / 5 * r3 + 11 / 10 * r4)
    by (unfold s0, q1, q2, q3, r1, r2, r3, r4; field).
  lra.
Qed.
End Clean.

Theorem west_mean_error_range_clean (l : list (F64 * F64)) (lo hi X : R) :
  0 <= X -> lo <= hi -> west_run_ok st0 l -> obs_le X l -> obs_in lo hi l -> 0 < dW l ->
  INR (length l) * u64 <= / 64 -> E1p (length l) X <= hi - lo ->
  Rabs (B2R (sm (frun l)) - dM l) <= MR2 (length l) X (hi - lo).
Proof.
  intros HX Hlh Hok Hobs Hin HW Hn HE.
  eapply Rle_trans; [apply (west_mean_error_range_poly l lo hi X); assumption|].
  apply MRp_MR2; [exact HX | lra | exact HE].
Qed.

Theorem west_ssq_error_range_clean (l : list (F64 * F64)) (lo hi X : R) :
  0 <= X -> lo <= hi -> west_run_ok st0 l -> obs_le X l -> obs_in lo hi l -> 0 < dW l ->
  INR (length l) * u64 <= / 64 -> E1p (length l) X <= hi - lo ->
  Rabs (B2R (ss (frun l)) - dS l) <= SR2 (length l) X (hi - lo) (dW l) (dS l).
Proof.
  intros HX Hlh Hok Hobs Hin HW Hn HE.
  eapply Rle_trans; [apply (west_ssq_error_range_poly l lo hi X); assumption|].
  apply SRp_SR2; try assumption; lra.
Qed.

(* the returned variance with the sharp bound *)
Theorem west_var_error_range (data ws : list F64) (ddof : F64) (lo hi X : R) :
  let l := combine data ws in
  let n := length l in
  let Del := dW l - B2R ddof in
  0 <= X -> lo <= hi -> west_run_ok st0 l -> obs_le X l -> obs_in lo hi l ->
  fis_finite ddof = true -> 0 <= B2R ddof -> 0 < Del ->
  INR n * u64 <= / 64 -> dW l <= 12 * Del ->
  fis_finite (west OW data ws ddof) = true ->
  Rabs (B2R (west OW data ws ddof) - dS l / Del)
    <= 4 / 3 * (SRp n X (hi - lo) (dW l) (dS l)
                + dS l * (64 / 63 * ((INR n + 1) * u64) * dW l / Del)) / Del * (1 + u64)
       + dS l / Del * u64 + eta64.
Proof.
  intros l n Del HX Hlh Hok Hobs Hin Fd Hd0 HDel Hn Hk Fres.
  assert (HW : 0 < dW l) by (unfold Del in HDel; lra).
  pose proof (g64_lin n Hn 1 ltac:(lia)) as G. rewrite plus_INR in G.
  replace (INR 1) with 1 in G by (rewrite INR_IZR_INZ; reflexivity).
  pose proof (small_j n Hn 1 ltac:(lia)) as Hs. rewrite plus_INR in Hs.
  replace (INR 1) with 1 in Hs by (rewrite INR_IZR_INZ; reflexivity).
  pose proof (g64_nonneg (n + 1)) as G0.
  assert (Hsmall : g64 (n + 1) * dW l <= / 4 * Del).
  { assert (g64 (n + 1) <= / 48) by lra.
    assert (g64 (n + 1) * dW l <= / 48 * dW l) by (apply Rmult_le_compat_r; lra). lra. }
  pose proof (west_ssq_error_range_poly l lo hi X HX Hlh Hok Hobs Hin HW Hn) as E3. fold n in E3.
  pose proof (west_var_error_gen data ws ddof _ Hok E3 Fd Hd0 HDel Hsmall Fres) as B.
  cbv zeta in B. fold l n Del in B.
  eapply Rle_trans; [exact B|].
  pose proof (dS_nonneg l (run_ok_weights _ _ Hok)) as HS0.
  assert (IDel : 0 < / Del) by (apply Rinv_0_lt_compat; exact HDel).
  pose proof u64_pos as Hu.
  assert (Q : dS l * (g64 (n + 1) * dW l / Del) <= dS l * (64 / 63 * ((INR n + 1) * u64) * dW l / Del)).
  { apply Rmult_le_compat_l; [exact HS0|]. unfold Rdiv. apply Rmult_le_compat_r; [lra|].
    apply Rmult_le_compat_r; lra. }
  apply Rplus_le_compat_r. apply Rplus_le_compat_r.
  apply Rmult_le_compat_r; [lra|]. unfold Rdiv. apply Rmult_le_compat_r; [lra|].
  apply Rmult_le_compat_l; lra.
Qed.

(* ------------------------------------------------------------------ *)
(* 7. Checkable hypotheses and an example                              *)
(* ------------------------------------------------------------------ *)
Lemma obs_in_le lo hi l : obs_in lo hi l -> obs_le (Rmax (Rabs lo) (Rabs hi)) l.
Proof.
  unfold obs_in, obs_le. intros H. eapply Forall_impl; [|exact H]. intros xw Hx NZ.
  specialize (Hx NZ). apply Rabs_le_Rmax. exact Hx.
Qed.

(* executable check of [obs_in (B2R flo) (B2R fhi)]: every observation of non-zero weight is
   finite and between the two binary64 numbers *)
Definition obs_inb (flo fhi : F64) (l : list (F64 * F64)) : bool :=
  forallb (fun xw : F64 * F64 =>
             feq (snd xw) fzero || (fis_finite (fst xw) && fle flo (fst xw) && fle (fst xw) fhi)) l.

Lemma obs_inb_sound flo fhi l : fis_finite flo = true -> fis_finite fhi = true ->
  obs_inb flo fhi l = true -> obs_in (B2R flo) (B2R fhi) l.
Proof.
  intros Flo Fhi H. unfold obs_inb in H. rewrite forallb_forall in H.
  unfold obs_in. apply Forall_forall. intros xw Hin NZ. specialize (H xw Hin).
  apply orb_prop in H. destruct H as [Z | H].
  - elim NZ. exact (feq_zero_B2R _ Z).
  - apply andb_prop in H. destruct H as [H H3]. apply andb_prop in H. destruct H as [Fx H2].
    split; [apply (fle_spec flo (fst xw) Flo Fx); exact H2 | apply (fle_spec (fst xw) fhi Fx Fhi); exact H3].
Qed.

(* data [1; 2; 4; -3], weights [1; 0; 2; 0.5]: lo = -3, hi = 4, X = 4, D = 7 *)
Definition ex_lo : F64 := fneg (f64_of_Z 3).
Definition ex_hi : F64 := f64_of_Z 4.
Lemma ex_lo_spec : fis_finite ex_lo = true /\ B2R ex_lo = -3.
Proof.
  destruct (f64_of_Z_exact 3 ltac:(lia)) as [F E]. unfold ex_lo, fneg, fis_finite.
  rewrite is_finite_Bopp, B2R_Bopp. split; [exact F | rewrite E; reflexivity].
Qed.
Lemma ex_hi_spec : fis_finite ex_hi = true /\ B2R ex_hi = 4.
Proof. exact (f64_of_Z_exact 4 ltac:(lia)). Qed.

Lemma eta64_le_u64 : eta64 <= u64.
Proof. unfold eta64, u64. apply bpow_le. lia. Qed.

Example west_range_example :
  Rabs (B2R (sm (frun ex_l)) - dM ex_l) <= MR2 4 4 7 /\
  Rabs (B2R (ss (frun ex_l)) - dS ex_l) <= SR2 4 4 7 (dW ex_l) (dS ex_l).
Proof.
  destruct ex_lo_spec as [Flo Elo]. destruct ex_hi_spec as [Fhi Ehi].
  assert (Hin : obs_in (-3) 4 ex_l).
  { rewrite <- Elo, <- Ehi. apply obs_inb_sound; [exact Flo | exact Fhi | vm_compute; reflexivity]. }
  assert (Hle : obs_le 4 ex_l).
  { pose proof (obs_in_le _ _ _ Hin) as H.
    replace (Rmax (Rabs (-3)) (Rabs 4)) with 4 in H; [exact H|].
    rewrite (Rabs_left (-3)) by lra. rewrite (Rabs_pos_eq 4) by lra. symmetry. apply Rmax_right. lra. }
  assert (E4 : INR (length ex_l) = 4).
  { change (length ex_l) with 4%nat. rewrite INR_IZR_INZ. reflexivity. }
  assert (HE : E1p (length ex_l) 4 <= 4 - -3).
  { unfold E1p. rewrite E4. pose proof u64_tiny. pose proof u64_pos. pose proof eta64_pos.
    pose proof eta64_le_u64. lra. }
  pose proof (west_mean_error_range_clean ex_l (-3) 4 4 ltac:(lra) ltac:(lra) ex_run_ok Hle Hin
                ex_dW_pos ex_small HE) as T1.
  pose proof (west_ssq_error_range_clean ex_l (-3) 4 4 ltac:(lra) ltac:(lra) ex_run_ok Hle Hin
                ex_dW_pos ex_small HE) as T2.
  change (length ex_l) with 4%nat in T1, T2.
  replace (4 - -3) with 7 in T1, T2 by ring. split; assumption.
Qed.

(* ------------------------------------------------------------------ *)
(* 8. Two lists data, ws of equal length                               *)
(* ------------------------------------------------------------------ *)
Lemma dW_combine (data ws : list F64) : length ws = length data ->
  dW (combine data ws) = Rsum (map B2R ws).
Proof.
  intros HL. unfold dW, wsumR. f_equal. revert ws HL.
  induction data as [|x data IH]; intros [|w ws] HL; try discriminate HL; [reflexivity|].
  cbn [combine map snd]. f_equal. apply IH. cbn [length] in HL. lia.
Qed.

Lemma length_combine_eq (data ws : list F64) : length ws = length data ->
  length (combine data ws) = length data.
Proof. intros HL. rewrite combine_length, HL. apply Nat.min_id. Qed.

(* (1) as asked: |wsum_fl - W| <= g64 n * W *)
Theorem west_final_wsum_error (data ws : list F64) : length ws = length data ->
  west_run_ok (fzero, fzero, fzero) (combine data ws) ->
  Rabs (B2R (sw (west_final data ws)) - Rsum (map B2R ws)) <= g64 (length data) * Rsum (map B2R ws).
Proof.
  intros HL Hok. pose proof (west_wsum_error (combine data ws) Hok) as H.
  rewrite frun_west_final, (dW_combine data ws HL), (length_combine_eq data ws HL) in H. exact H.
Qed.

Print Assumptions west_mean_error_range.
Print Assumptions west_ssq_error_range.
Print Assumptions west_mean_error_range_poly.
Print Assumptions west_ssq_error_range_poly.
Print Assumptions west_ssq_error_range_clean.
Print Assumptions west_var_error_range.
Print Assumptions west_range_example.
Print Assumptions west_final_wsum_error.
