(* C07, floating-point half, REPAIRED routine (defect D7 repaired: central_moment_coefficients takes the
   binomial coefficients of order p = len(moments) - 1): forward-error bound in IEEE-754 binary64 for
   central_moment (means.rs; Num/Kernels.v) of every order 2 <= p <= 53, any length, any valid plan.

   With the binomials of order p the exact polynomial is, by the binomial theorem (binom_thm,
   rho_binom_identity),
        sum_(j=0..p) C(p,j) rho_(p-j) c^j = (1/n) sum_i (d_i + c)^p          for EVERY c,
   so at c = - rho_1 (minus the exact mean of the computed shifted data d_i) it is the central moment
   of the d_i about THEIR OWN mean, in which the error  m - xbar  of the computed mean cancels exactly:
        d_i - dbar = (x_i - xbar) + (w_i - wbar),   w_i = (x_i - m) e_i,  |e_i| <= u64    (centred_elem).
   The error of the mean therefore enters the bound only multiplied by u64 (through
   a_i = |x_i - xbar| + mdelta, b_i = a_i + A_1) or through kappa multiplied by rounding errors:

     cm_bound_rep = p u64 (1 + g64 (p-1)) S_p                                   (relative perturbations e_i)
                  + p E_1 T_(p-1)                                               (corr = -r_1 instead of -rho_1)
                  + sum_j C(p,j) Eraw_(p-j) kp^j                                (errors of the raw moments)
                  + kp * sum_(j>=1) (C(p,j) Rbd_(p-j) u64 + eta64) kp^(j-1)     (roundings of the coefficients)
                  + g64(2p+2) * sum_j cbd_j kp^j + hornerU (p+1) kp             (Horner's rule)

   S_k = (1/n) sum b_i^k,  T_k = (1/n) sum ((1+u64) b_i + E_1)^k,  E_1 = Eraw n 1 A,  kp = kappa n A mdelta. *)
From Flocq Require Import Core BinarySingleNaN Plus_error Relative.
Require Import Reals Lra Lia ZArith Psatz Bool List Arith Permutation.
From NS Require Import Num.F64 Num.Ops Num.F64Inst Num.Kernels Num.SumBridge Num.SumF64
  Quantile.IndexProofs Quantile.InterpF64 Num.DeviationF64 Num.MeansF64 Num.CovF64 Num.PowiF64
  Num.MomentsErrF64 Num.HornerF64 Num.CentralMomentF64 Num.MomentsBoundF64.
Import ListNotations.
Open Scope R_scope.

Local Instance prec64_gt_0R : Prec_gt_0 53 := Hprec64.
Local Instance vexp64R : Valid_exp (SpecFloat.fexp 53 1024) := fexp_correct 53 1024 Hprec64.

(* ------------------------------------------------------------------ *)
(* 1. The binomial theorem for [binom]; the polynomial identity         *)
(* ------------------------------------------------------------------ *)
Lemma Rsum_map_ext_in {A} (f g : A -> R) l : (forall a, In a l -> f a = g a) -> Rsum (map f l) = Rsum (map g l).
Proof.
  induction l as [|a l IH]; intros H; cbn [map]; rewrite ?Rsum_cons; [reflexivity|].
  rewrite (H a (or_introl eq_refl)), IH; [reflexivity|]. intros b Hb. apply H. right. exact Hb.
Qed.

Theorem binom_thm p (d c : R) :
  Rsum (map (fun i => INR (binom p i) * d ^ (p - i) * c ^ i) (seq 0 (S p))) = (d + c) ^ p.
Proof.
  induction p as [|p IH].
  - cbn [seq map]. rewrite Rsum_cons, Rsum_nil. simpl. ring.
  - change (seq 0 (S (S p))) with (0%nat :: seq 1 (S p)). rewrite <- seq_shift. cbn [map]. rewrite Rsum_cons, map_map.
    rewrite binom_0_r, Nat.sub_0_r.
    rewrite (Rsum_map_ext (fun k => INR (binom (S p) (S k)) * d ^ (S p - S k) * c ^ S k)
               (fun k => c * (INR (binom p k) * d ^ (p - k) * c ^ k) + INR (binom p (S k)) * d ^ (p - k) * c ^ S k)).
    2:{ intros k. rewrite binom_SS, plus_INR. replace (S p - S k)%nat with (p - k)%nat by lia. simpl. ring. }
    rewrite Rsum_map_plus, Rsum_map_scal, IH.
    (* d^(S p) + the second sum = d * (d + c)^p *)
    assert (E : INR 1 * d ^ S p * c ^ 0 + Rsum (map (fun k => INR (binom p (S k)) * d ^ (p - k) * c ^ S k) (seq 0 (S p)))
                = d * (d + c) ^ p).
    { rewrite <- IH. change (seq 0 (S p)) with (0%nat :: seq 1 p) at 2. rewrite <- seq_shift. cbn [map].
      rewrite Rsum_cons, map_map, binom_0_r, Nat.sub_0_r.
      rewrite seq_S, map_app, Rsum_app. cbn [map plus]. rewrite Rsum_cons, Rsum_nil.
      rewrite (binom_gt p (S p)) by lia.
      rewrite Rmult_plus_distr_l, <- Rsum_map_scal.
      rewrite (Rsum_map_ext_in (fun k => INR (binom p (S k)) * d ^ (p - k) * c ^ S k)
                 (fun k => d * (INR (binom p (S k)) * d ^ (p - S k) * c ^ S k)) (seq 0 p)).
      2:{ intros k Hk. apply in_seq in Hk. replace (p - k)%nat with (S (p - S k)) by lia. simpl. ring. }
      simpl. ring. }
    change ((d + c) ^ S p) with ((d + c) * (d + c) ^ p).
    set (G := Rsum (map (fun k => INR (binom p (S k)) * d ^ (p - k) * c ^ S k) (seq 0 (S p)))) in *.
    set (Y := (d + c) ^ p) in *. set (W := INR 1 * d ^ S p * c ^ 0) in *. lra.
Qed.

Lemma Rsum_exchange {A B} (F : A -> B -> R) (la : list A) (lb : list B) :
  Rsum (map (fun a => Rsum (map (fun b => F a b) lb)) la) = Rsum (map (fun b => Rsum (map (fun a => F a b) la)) lb).
Proof.
  induction la as [|a la IH]; cbn [map].
  - rewrite Rsum_nil. transitivity (Rsum (map (fun _ : B => 0) lb)); [rewrite Rsum_const; ring|].
    apply Rsum_map_ext. intros b. reflexivity.
  - rewrite Rsum_cons, IH, <- Rsum_map_plus. apply Rsum_map_ext. intros b. rewrite Rsum_cons. reflexivity.
Qed.

Lemma Rsum_map_scal2 {A} (k1 k2 : R) (f : A -> R) l : Rsum (map (fun a => k1 * f a * k2) l) = k1 * Rsum (map f l) * k2.
Proof. induction l as [|a l IH]; cbn [map]; rewrite ?Rsum_nil, ?Rsum_cons; [ring|rewrite IH; ring]. Qed.

(* sum_j C(p,j) rho_(p-j) c^j = (1/n) sum (d_i + c)^p, for every c *)
Theorem rho_binom_identity (ds : list F64) p (c : R) :
  hornerR (map (fun j => INR (binom p j) * rho ds (p - j)) (seq 0 (S p))) c
  = Rsum (map (fun d : F64 => (B2R d + c) ^ p) ds) / INR (length ds).
Proof.
  rewrite hornerR_as_sum. cbn [plus].
  rewrite (Rsum_map_ext (fun d : F64 => (B2R d + c) ^ p)
             (fun d : F64 => Rsum (map (fun i => INR (binom p i) * B2R d ^ (p - i) * c ^ i) (seq 0 (S p)))))
    by (intros d; symmetry; apply binom_thm).
  rewrite (Rsum_exchange (fun (d : F64) i => INR (binom p i) * B2R d ^ (p - i) * c ^ i)).
  unfold Rdiv. rewrite Rmult_comm, <- Rsum_map_scal. apply Rsum_map_ext. intros i.
  rewrite Rsum_map_scal2. unfold rho. unfold Rdiv. ring.
Qed.

(* ------------------------------------------------------------------ *)
(* 2. Real-number lemmas on Horner polynomials and powers               *)
(* ------------------------------------------------------------------ *)
Lemma hornerR_map_minus {A} (f g : A -> R) l x :
  hornerR (map f l) x - hornerR (map g l) x = hornerR (map (fun a => f a - g a) l) x.
Proof. induction l as [|a l IH]; cbn [map]; [unfold hornerR; simpl; ring|]. rewrite !hornerR_cons, <- IH. ring. Qed.

Lemma hornerR_map_abs_le {A} (f h : A -> R) l x y : (forall a, In a l -> Rabs (f a) <= h a) -> Rabs x <= y ->
  Rabs (hornerR (map f l) x) <= hornerR (map h l) y.
Proof.
  intros H Hx. eapply Rle_trans; [apply hornerR_abs|]. rewrite map_map.
  apply (hornerR_map_le (fun a => Rabs (f a)) h).
  - intros a Ha. split; [apply Rabs_pos|apply H; exact Ha].
  - split; [apply Rabs_pos|exact Hx].
Qed.

Lemma pow_pert (z t b : R) p : Rabs t <= b -> Rabs (z - t) <= u64 * b ->
  Rabs (z ^ p - t ^ p) <= INR p * u64 * (1 + g64 (p - 1)) * b ^ p.
Proof.
  intros Ht Hz. pose proof u64_pos as Hu. pose proof (Rabs_pos t) as T0.
  assert (b0 : 0 <= b) by lra.
  pose proof (pow_diff_abs t (z - t) p) as P. replace (t + (z - t)) with z in P by ring.
  assert (M : (Rabs t + Rabs (z - t)) ^ p <= (Rabs t + u64 * b) ^ p).
  { apply pow_incr. pose proof (Rabs_pos (z - t)). lra. }
  assert (ub0 : 0 <= u64 * b) by (apply Rmult_le_pos; lra).
  pose proof (pow_diff_le (Rabs t) (u64 * b) p T0 ub0) as Q.
  destruct p as [|q].
  - simpl in *. lra.
  - replace (S q - 1)%nat with q in * by lia.
    assert (B : (Rabs t + u64 * b) ^ q <= (b * (1 + u64)) ^ q) by (apply pow_incr; lra).
    rewrite Rpow_mult_distr, <- g64_1p in B.
    assert (B0 : 0 <= (Rabs t + u64 * b) ^ q) by (apply pow_le; lra).
    assert (C : INR (S q) * (u64 * b) * (Rabs t + u64 * b) ^ q <= INR (S q) * (u64 * b) * (b ^ q * (1 + g64 q))).
    { apply Rmult_le_compat_l; [|exact B]. apply Rmult_le_pos; [apply pos_INR|exact ub0]. }
    replace (INR (S q) * u64 * (1 + g64 q) * b ^ S q) with (INR (S q) * (u64 * b) * (b ^ q * (1 + g64 q))) by (simpl; ring).
    lra.
Qed.

Lemma pow_shift (z dlt E B : R) p : Rabs dlt <= E -> Rabs z <= B ->
  Rabs ((z - dlt) ^ p - z ^ p) <= INR p * E * (B + E) ^ (p - 1).
Proof.
  intros Hd Hz. pose proof (Rabs_pos z) as Z0. pose proof (Rabs_pos dlt) as D0.
  pose proof (pow_diff_abs z (- dlt) p) as P. replace (z + - dlt) with (z - dlt) in P by ring.
  rewrite Rabs_Ropp in P.
  pose proof (pow_diff_le (Rabs z) (Rabs dlt) p Z0 D0) as Q.
  assert (M : (Rabs z + Rabs dlt) ^ (p - 1) <= (B + E) ^ (p - 1)) by (apply pow_incr; lra).
  assert (M0 : 0 <= (Rabs z + Rabs dlt) ^ (p - 1)) by (apply pow_le; lra).
  assert (C : INR p * Rabs dlt * (Rabs z + Rabs dlt) ^ (p - 1) <= INR p * E * (B + E) ^ (p - 1)).
  { apply Rmult_le_compat; [apply Rmult_le_pos; [apply pos_INR|exact D0]|exact M0| |exact M].
    apply Rmult_le_compat_l; [apply pos_INR|exact Hd]. }
  lra.
Qed.

(* ------------------------------------------------------------------ *)
(* 3. The shifted data about their own mean                             *)
(* ------------------------------------------------------------------ *)
(* b_i = a_i + A_1 *)
Definition bdev (xs : list F64) (x : F64) : R := sdev xs x + Amom xs 1.
Definition Smom (xs : list F64) (k : nat) : R := Rsum (map (fun x => bdev xs x ^ k) xs) / INR (length xs).
Definition Tmom (xs : list F64) (E : R) (k : nat) : R :=
  Rsum (map (fun x => ((1 + u64) * bdev xs x + E) ^ k) xs) / INR (length xs).

Lemma bdev_pos xs x : 0 < bdev xs x.
Proof. unfold bdev. pose proof (sdev_pos xs x). pose proof (Amom_nonneg xs 1). lra. Qed.

Section Own.
Variable xs : list F64.
Variable m : F64.
Hypothesis Hn : (1 <= length xs)%nat.
Hypothesis Hm : Rabs (B2R m - meanR xs) <= mdelta xs.
Hypothesis Hfin : Forall (fun x => fin (fsub x m) = true) xs.

Let N := INR (length xs).
Let dbar := rho (dev xs m) 1.

Lemma own_N_pos : 0 < N. Proof. apply lt_0_INR. exact Hn. Qed.

(* the exact mean of the computed shifted data *)
Lemma dbar_close : Rabs (dbar - (meanR xs - B2R m)) <= u64 * Amom xs 1.
Proof.
  unfold dbar. rewrite (rho_dev xs m). unfold Amom. fold N. pose proof own_N_pos as HN.
  assert (iN : 0 < / N) by (apply Rinv_0_lt_compat; exact HN).
  rewrite (Rsum_map_ext (fun x => B2R (fsub x m) ^ 1) (fun x => B2R (fsub x m))) by (intros; apply pow_1).
  rewrite (Rsum_map_ext (fun x => sdev xs x ^ 1) (fun x => sdev xs x)) by (intros; apply pow_1).
  pose proof (Rsum_map_absdiff_in (fun x => B2R (fsub x m)) (fun x => B2R x - B2R m)
                (fun x => u64 * sdev xs x) xs) as D.
  rewrite Rsum_map_minus_const, Rsum_map_scal in D. fold N in D.
  assert (D' : Rabs (Rsum (map (fun x : F64 => B2R (fsub x m)) xs) - (Rsum (map B2R xs) - N * B2R m))
               <= u64 * Rsum (map (fun x : F64 => sdev xs x) xs)).
  { apply D. intros x Hx. exact (proj1 (proj2 (proj2 (dev_elem xs m Hm Hfin x Hx)))). }
  clear D.
  set (Sd := Rsum (map (fun x : F64 => B2R (fsub x m)) xs)) in *.
  set (Sa := Rsum (map (fun x : F64 => sdev xs x) xs)) in *.
  replace (Sd / N - (meanR xs - B2R m)) with ((Sd - (Rsum (map B2R xs) - N * B2R m)) * / N)
    by (unfold meanR; fold N; field; lra).
  rewrite Rabs_mult, (Rabs_pos_eq (/ N)) by lra. unfold Rdiv. rewrite <- Rmult_assoc.
  apply Rmult_le_compat_r; [lra|exact D'].
Qed.

(* d_i - dbar = (x_i - xbar) + (w_i - wbar): the error of the mean has cancelled *)
Lemma centred_elem (x : F64) : In x xs ->
  let z := B2R (fsub x m) - dbar in let t := B2R x - meanR xs in
  Rabs (z - t) <= u64 * bdev xs x /\ Rabs t <= bdev xs x /\ Rabs z <= (1 + u64) * bdev xs x.
Proof.
  intros Hx z t. destruct (dev_elem xs m Hm Hfin x Hx) as (_ & _ & Hw & _).
  pose proof dbar_close as Db. pose proof u64_pos as Hu.
  pose proof (Amom_nonneg xs 1) as A1. pose proof (mdelta_pos xs) as D0.
  assert (Ht : Rabs t <= bdev xs x).
  { unfold t, bdev, sdev. lra. }
  assert (Hz : Rabs (z - t) <= u64 * bdev xs x).
  { unfold z, t, bdev.
    replace (B2R (fsub x m) - dbar - (B2R x - meanR xs))
      with ((B2R (fsub x m) - (B2R x - B2R m)) + - (dbar - (meanR xs - B2R m))) by ring.
    eapply Rle_trans; [apply Rabs_triang|]. rewrite Rabs_Ropp. lra. }
  split; [exact Hz|]. split; [exact Ht|].
  replace z with (t + (z - t)) by ring. eapply Rle_trans; [apply Rabs_triang|]. lra.
Qed.

(* the central moment of the computed shifted data about their own mean against mu_p *)
Theorem own_central_vs_mu p :
  Rabs (Rsum (map (fun x => (B2R (fsub x m) - dbar) ^ p) xs) / N - cmu xs p)
    <= INR p * u64 * (1 + g64 (p - 1)) * Smom xs p.
Proof.
  unfold cmu, Smom. fold N. pose proof own_N_pos as HN.
  assert (iN : 0 < / N) by (apply Rinv_0_lt_compat; exact HN).
  unfold Rdiv. rewrite <- Rmult_minus_distr_r, Rabs_mult, (Rabs_pos_eq (/ N)) by lra.
  rewrite <- Rmult_assoc. apply Rmult_le_compat_r; [lra|].
  rewrite <- Rsum_map_scal. apply Rsum_map_absdiff_in. intros x Hx.
  destruct (centred_elem x Hx) as (Hz & Ht & _). apply pow_pert; assumption.
Qed.

(* evaluating at  - dbar - dlt  instead of  - dbar *)
Theorem own_shift_error p (dlt E : R) : Rabs dlt <= E ->
  Rabs (Rsum (map (fun x => (B2R (fsub x m) + (- dbar - dlt)) ^ p) xs) / N
        - Rsum (map (fun x => (B2R (fsub x m) - dbar) ^ p) xs) / N)
    <= INR p * E * Tmom xs E (p - 1).
Proof.
  intros Hd. unfold Tmom. fold N. pose proof own_N_pos as HN.
  assert (iN : 0 < / N) by (apply Rinv_0_lt_compat; exact HN).
  unfold Rdiv. rewrite <- Rmult_minus_distr_r, Rabs_mult, (Rabs_pos_eq (/ N)) by lra.
  rewrite <- Rmult_assoc. apply Rmult_le_compat_r; [lra|].
  rewrite <- Rsum_map_scal. apply Rsum_map_absdiff_in. intros x Hx.
  destruct (centred_elem x Hx) as (_ & _ & Hz).
  replace (B2R (fsub x m) + (- dbar - dlt)) with ((B2R (fsub x m) - dbar) - dlt) by ring.
  apply pow_shift; assumption.
Qed.
End Own.

(* ------------------------------------------------------------------ *)
(* 4. The bound and the headline theorem for the repaired routine       *)
(* ------------------------------------------------------------------ *)
Definition cpert (n p : nat) (A : nat -> R) (j : nat) : R := INR (binom p j) * Rbd n (p - j) A * u64 + eta64.
Definition cerr (n p : nat) (A : nat -> R) (j : nat) : R := INR (binom p j) * Eraw n (p - j) A.

Definition cm_bound_rep (n p : nat) (A : nat -> R) (Sp Tm dl : R) : R :=
  let kp := kappa n A dl in
  INR p * u64 * (1 + g64 (p - 1)) * Sp
  + INR p * Eraw n 1 A * Tm
  + hornerR (map (cerr n p A) (seq 0 (S p))) kp
  + kp * hornerR (map (cpert n p A) (seq 1 p)) kp
  + g64 (2 * S p) * hornerR (map (cbdq p n p A) (seq 0 (S p))) kp
  + hornerU (S p) kp.

Lemma rho_0 (ds : list F64) : (1 <= length ds)%nat -> rho ds 0 = 1.
Proof.
  intros H. unfold rho. rewrite (Rsum_map_ext _ (fun _ => 1)) by (intros; reflexivity).
  rewrite Rsum_const. field. apply not_0_INR. lia.
Qed.

Section Rep.
Variables lt et : list (Z * Z).
Let O := f64_ops lt et.

Theorem central_moment_error pl (xs : list F64) p n :
  plan_ok pl n -> n = length xs -> (1 <= n)%nat -> (Z.of_nat n <= 2 ^ 53)%Z ->
  (2 <= p <= 53)%nat -> fin (central_moment O pl xs p) = true ->
  Rabs (B2R (central_moment O pl xs p) - cmu xs p)
    <= cm_bound_rep n p (Amom xs) (Smom xs p) (Tmom xs (Eraw n 1 (Amom xs)) (p - 1)) (mdelta xs).
Proof.
  intros HP En H1 H2 Hp Hf.
  rewrite (central_moment_shape lt et) in Hf |- * by lia. cbv zeta in Hf |- *.
  destruct (cm_run_facts lt et p pl xs p n HP En H1 H2 ltac:(lia) ltac:(lia) Hf)
    as (Hm & Hfin & RB & Ecorr & Hcorr & Ecf & EH).
  cbv zeta in *. fold O in Hm, Hfin, RB, Ecorr, Hcorr, Ecf, EH |- *.
  set (m := mean O pl xs) in *. set (ds := dev xs m) in *.
  set (rm := mom_k lt et (plan_of_map pl (length xs)) ds) in *.
  set (cf := fun j => fmul (f64_of_Z (Z.of_nat (binom p j))) (rm (p - j)%nat)) in *.
  set (corr := fneg (rm 1%nat)) in *.
  set (A := Amom xs) in *. set (dl := mdelta xs) in *.
  assert (Hn' : (1 <= length xs)%nat) by lia.
  assert (Ld : length ds = length xs) by (unfold ds, dev; apply map_length).
  set (kp := kappa n A dl) in *.
  set (X := B2R corr) in *.
  assert (XX : 0 <= Rabs X <= kp) by (split; [apply Rabs_pos|exact Hcorr]).
  assert (kp0 : 0 <= kp) by lra.
  assert (A0 : forall k, 0 <= A k) by (intros k; apply Amom_nonneg).
  pose proof u64_pos as Hu. pose proof eta64_pos as Het.
  (* T1: rounding in Horner's rule *)
  set (res := B2R (horner O (map cf (seq 0 (S p))) corr)) in *.
  assert (Hcf : forall j, In j (seq 0 (S p)) -> 0 <= Rabs (B2R (cf j)) <= cbdq p n p A j).
  { intros j Hj. apply in_seq in Hj. split; [apply Rabs_pos|].
    unfold cf. rewrite (Ecf j ltac:(lia)).
    eapply Rle_trans; [apply coef_abs|]. unfold cbdq. apply Rplus_le_compat_r.
    apply Rmult_le_compat_r; [lra|].
    apply Rmult_le_compat_l; [apply pos_INR|]. apply (RB (p - j)%nat). lia. }
  assert (T1 : Rabs (res - hornerR (map B2R (map cf (seq 0 (S p)))) X)
               <= g64 (2 * S p) * hornerR (map (cbdq p n p A) (seq 0 (S p))) kp + hornerU (S p) kp).
  { eapply Rle_trans; [exact EH|]. apply Rplus_le_compat.
    - apply Rmult_le_compat_l; [apply g64_nonneg|]. rewrite map_map.
      apply (hornerR_map_le (fun j => Rabs (B2R (cf j))) (cbdq p n p A)); assumption.
    - apply hornerU_mono. exact XX. }
  rewrite map_map in T1.
  (* T2: the roundings of the coefficients *)
  set (Pr := hornerR (map (fun j => INR (binom p j) * B2R (rm (p - j)%nat)) (seq 0 (S p))) X).
  assert (T2 : Rabs (hornerR (map (fun j => B2R (cf j)) (seq 0 (S p))) X - Pr)
               <= kp * hornerR (map (cpert n p A) (seq 1 p)) kp).
  { unfold Pr. rewrite hornerR_map_minus. cbn [seq map]. rewrite hornerR_cons.
    assert (E0 : B2R (cf 0%nat) - INR (binom p 0) * B2R (rm (p - 0)%nat) = 0).
    { unfold cf. rewrite (Ecf 0%nat ltac:(lia)), binom_0_r. simpl INR. rewrite Rmult_1_l, (rnd_id _ (fmt_B2R _)). ring. }
    rewrite E0, Rplus_0_l, Rabs_mult.
    apply Rmult_le_compat; try apply Rabs_pos; [exact Hcorr|].
    apply hornerR_map_abs_le; [|exact Hcorr].
    intros j Hj. apply in_seq in Hj. unfold cf. rewrite (Ecf j ltac:(lia)).
    destruct (rnd_model (INR (binom p j) * B2R (rm (p - j)%nat))) as (e & e' & He & He' & E). rewrite E.
    replace (INR (binom p j) * B2R (rm (p - j)%nat) * (1 + e) + e' - INR (binom p j) * B2R (rm (p - j)%nat))
      with (INR (binom p j) * B2R (rm (p - j)%nat) * e + e') by ring.
    eapply Rle_trans; [apply Rabs_triang|]. unfold cpert. apply Rplus_le_compat; [|exact He'].
    rewrite !Rabs_mult, (Rabs_pos_eq (INR (binom p j))) by apply pos_INR.
    apply Rmult_le_compat; [apply Rmult_le_pos; [apply pos_INR|apply Rabs_pos]|apply Rabs_pos| |exact He].
    apply Rmult_le_compat_l; [apply pos_INR|]. apply (RB (p - j)%nat). lia. }
  (* T3: the errors of the raw moments *)
  set (Q := hornerR (map (fun j => INR (binom p j) * rho ds (p - j)) (seq 0 (S p))) X).
  assert (T3 : Rabs (Pr - Q) <= hornerR (map (cerr n p A) (seq 0 (S p))) kp).
  { unfold Pr, Q. rewrite hornerR_map_minus. apply hornerR_map_abs_le; [|exact Hcorr].
    intros j Hj. apply in_seq in Hj. unfold cerr.
    rewrite <- Rmult_minus_distr_l, Rabs_mult, (Rabs_pos_eq (INR (binom p j))) by apply pos_INR.
    apply Rmult_le_compat_l; [apply pos_INR|].
    destruct (Nat.eq_dec j p) as [->|Hne].
    - rewrite Nat.sub_diag. change (rm 0%nat) with fone. rewrite (proj2 fone_spec), (rho_0 ds) by lia.
      rewrite Rminus_diag_eq, Rabs_R0 by reflexivity. apply Eraw_nonneg, A0.
    - apply (RB (p - j)%nat); lia. }
  (* the binomial theorem: Q is the p-th moment of the d_i about  - X *)
  assert (EQ : Q = Rsum (map (fun x => (B2R (fsub x m) + X) ^ p) xs) / INR (length xs)).
  { unfold Q. rewrite rho_binom_identity, Ld. unfold ds, dev. rewrite map_map. reflexivity. }
  (* T4: X = - dbar - dlt1 *)
  set (dbar := rho ds 1).
  destruct (RB 1%nat ltac:(lia)) as [_ B1]. specialize (B1 (le_n 1)). fold dbar in B1.
  assert (EX : X = - dbar - (B2R (rm 1%nat) - dbar)) by (rewrite Ecorr; ring).
  pose proof (own_shift_error xs m Hn' Hm Hfin p (B2R (rm 1%nat) - dbar) (Eraw n 1 A) B1) as T4.
  fold ds dbar in T4. rewrite <- EX in T4. rewrite <- EQ in T4.
  pose proof (own_central_vs_mu xs m Hn' Hm Hfin p) as T5. fold ds dbar in T5.
  set (Mown := Rsum (map (fun x => (B2R (fsub x m) - dbar) ^ p) xs) / INR (length xs)) in *.
  unfold cm_bound_rep. fold kp.
  replace (res - cmu xs p)
    with ((res - hornerR (map (fun j => B2R (cf j)) (seq 0 (S p))) X)
          + (hornerR (map (fun j => B2R (cf j)) (seq 0 (S p))) X - Pr) + (Pr - Q) + (Q - Mown) + (Mown - cmu xs p)) by ring.
  eapply Rle_trans; [apply Rabs_triang|].
  eapply Rle_trans; [apply Rplus_le_compat_r, Rabs_triang|].
  eapply Rle_trans; [apply Rplus_le_compat_r, Rplus_le_compat_r, Rabs_triang|].
  eapply Rle_trans; [apply Rplus_le_compat_r, Rplus_le_compat_r, Rplus_le_compat_r, Rabs_triang|].
  fold A in T4, T5. lra.
Qed.
End Rep.

Print Assumptions binom_thm.
Print Assumptions rho_binom_identity.
Print Assumptions central_moment_error.
