(* geometric_mean of Num/Kernels.v ( exp(mean(map ln data)) ) at the binary64 instance f64_ops,
   with libm's ln and exp as oracle tables: a forward-error bound relative to
       GM = exp((1/n) sum ln x_i) = (prod x_i)^(1/n)
   under accuracy premises on the two tables (relative error eln of ln, eexp of exp), for strictly
   positive data and every summation plan:
       |gm_fl - GM| <= GM (exp(E) (1 + eexp) - 1),
       E = ((1 + eln)(1 + g64(n+14)) - 1) (1/n) sum |ln x_i| + eta64
   (E bounds the absolute error of the mean-of-logs stage).  Over the reals: GM^n = prod x_i and
   min x_i <= GM <= max x_i. *)
From Flocq Require Import Core BinarySingleNaN Plus_error Relative.
Require Import Reals RList Lra Lia ZArith Psatz Bool List Permutation.
From NS Require Import Num.F64 Num.Ops Num.F64Inst Num.Kernels Num.SumBridge Num.SumF64
  Quantile.IndexProofs Quantile.InterpF64 Num.DeviationF64 Num.MeansF64 Num.OracleF64 Num.RInst.
From NS Require Num.KernelsR.
Import ListNotations.
Open Scope R_scope.

(* ------------------------------------------------------------------ *)
(* 1. The geometric mean over the reals                                *)
(* ------------------------------------------------------------------ *)
Definition GM (xs : list R) : R := exp (Rsum (map ln xs) / INR (length xs)).
Definition Rprod (xs : list R) : R := fold_right Rmult 1 xs.

Lemma exp_Rsum_ln xs : Forall (fun x => 0 < x) xs -> exp (Rsum (map ln xs)) = Rprod xs.
Proof.
  intros HF. induction HF as [|x xs Hx HF IH]; [unfold Rsum; simpl; apply exp_0|].
  cbn [map]. rewrite Rsum_cons, exp_plus, IH, (exp_ln x Hx). reflexivity.
Qed.

Lemma exp_pow_nat (x : R) (n : nat) : exp x ^ n = exp (INR n * x).
Proof.
  induction n as [|n IH]; [simpl; rewrite Rmult_0_l, exp_0; reflexivity|].
  rewrite S_INR. cbn [pow]. rewrite IH, <- exp_plus. f_equal. ring.
Qed.

(* GM is the positive n-th root of the product (no Rpower involved) *)
Theorem GM_pow xs : xs <> [] -> Forall (fun x => 0 < x) xs ->
  0 < GM xs /\ GM xs ^ length xs = Rprod xs.
Proof.
  intros NE HF. split; [apply exp_pos|]. unfold GM.
  assert (PN : 0 < INR (length xs)).
  { apply lt_0_INR. destruct xs; [elim NE; reflexivity|cbn [length]; lia]. }
  rewrite exp_pow_nat.
  replace (INR (length xs) * (Rsum (map ln xs) / INR (length xs))) with (Rsum (map ln xs)) by (field; lra).
  apply exp_Rsum_ln. exact HF.
Qed.

Theorem GM_between xs lo hi : xs <> [] -> 0 < lo -> Forall (fun x => lo <= x <= hi) xs ->
  lo <= GM xs <= hi.
Proof.
  intros NE Hlo HF. unfold GM.
  assert (PN : 0 < INR (length xs)).
  { apply lt_0_INR. destruct xs; [elim NE; reflexivity|cbn [length]; lia]. }
  assert (Hhi : 0 < hi).
  { destruct xs as [|x xs]; [elim NE; reflexivity|]. inversion HF; subst. lra. }
  assert (HL : Forall (fun x => ln lo <= ln x <= ln hi) xs).
  { eapply Forall_impl; [|exact HF]. intros x [H1 H2]. cbv beta.
    split.
    - destruct H1 as [H1|H1]; [apply Rlt_le, ln_increasing; lra|rewrite H1; lra].
    - destruct H2 as [H2|H2]; [apply Rlt_le, ln_increasing; lra|rewrite H2; lra]. }
  pose proof (Rsum_bounds ln xs _ _ HL) as [B1 B2].
  set (S := Rsum (map ln xs)) in *. set (N := INR (length xs)) in *.
  assert (M1 : ln lo <= S / N).
  { apply Rmult_le_reg_r with N; [exact PN|]. unfold Rdiv. rewrite Rmult_assoc, Rinv_l by lra. lra. }
  assert (M2 : S / N <= ln hi).
  { apply Rmult_le_reg_r with N; [exact PN|]. unfold Rdiv. rewrite Rmult_assoc, Rinv_l by lra. lra. }
  split.
  - apply Rle_trans with (exp (ln lo)); [rewrite (exp_ln lo Hlo); lra|].
    destruct M1 as [M1|M1]; [apply Rlt_le, exp_increasing; exact M1|rewrite M1; lra].
  - apply Rle_trans with (exp (ln hi)); [|rewrite (exp_ln hi Hhi); lra].
    destruct M2 as [M2|M2]; [apply Rlt_le, exp_increasing; exact M2|rewrite M2; lra].
Qed.

(* min x_i <= GM <= max x_i *)
Corollary GM_min_max xs : xs <> [] -> Forall (fun x => 0 < x) xs ->
  MinRlist xs <= GM xs <= MaxRlist xs.
Proof.
  intros NE HF. apply GM_between; [exact NE| |].
  - apply MinRlist_P2. rewrite Forall_forall in HF. exact HF.
  - apply Forall_forall. intros x Hx. split; [apply MinRlist_P1|apply MaxRlist_P1]; exact Hx.
Qed.

(* GM is what the kernel computes at the real instance (Num/KernelsR.v), for every plan *)
Lemma KernelsR_Rsum_eq (l : list R) : KernelsR.Rsum l = Rsum l.
Proof. induction l as [|x l IH]; [reflexivity|]. cbn [KernelsR.Rsum]. rewrite IH. reflexivity. Qed.

Theorem geometric_mean_R_GM pl (xs : list R) : plan_ok pl (length xs) ->
  geometric_mean R_ops pl xs = GM xs.
Proof.
  intros HP. rewrite (KernelsR.geometric_mean_R pl xs HP), KernelsR_Rsum_eq. reflexivity.
Qed.

(* ------------------------------------------------------------------ *)
(* 2. Accuracy premises on the oracle tables                           *)
(* ------------------------------------------------------------------ *)
(* the same premise as ln_table_accurate of Props/C10_f64.v *)
Definition ln_tab_accurate (lt et : list (Z * Z)) (eln : R) : Prop :=
  forall x : F64, fin x = true -> 0 < B2R x ->
    tab_lookup lt (bits_of_f64 x) <> None -> fin (o_ln (f64_ops lt et) x) = true ->
    Rabs (B2R (o_ln (f64_ops lt et) x) - ln (B2R x)) <= eln * Rabs (ln (B2R x)).

(* every entry of the exp table with a finite argument and a finite result has relative error
   at most eexp *)
Definition exp_table_accurate (lt et : list (Z * Z)) (eexp : R) : Prop :=
  forall x : F64, fin x = true ->
    tab_lookup et (bits_of_f64 x) <> None -> fin (o_exp (f64_ops lt et) x) = true ->
    Rabs (B2R (o_exp (f64_ops lt et) x) - exp (B2R x)) <= eexp * exp (B2R x).

(* ------------------------------------------------------------------ *)
(* 3. The error bound                                                  *)
(* ------------------------------------------------------------------ *)
Section Geom.
Variables lt et : list (Z * Z).
Local Notation O := (f64_ops lt et).
Variables eln eexp : R.
Hypothesis eexp_nonneg : 0 <= eexp.
Hypothesis ln_acc : ln_tab_accurate lt et eln.
Hypothesis exp_acc : exp_table_accurate lt et eexp.

(* the mean-of-logs stage *)
Definition log_mean (pl : plan) (data : list F64) : F64 :=
  mean O (plan_of_map pl (length data)) (map (o_ln O) data).

Lemma geometric_mean_unfold pl data : geometric_mean O pl data = tab_fn et (log_mean pl data).
Proof. reflexivity. Qed.

Definition mean_ln (data : list F64) : R := Rsum (map (fun x => ln (B2R x)) data) / INR (length data).
Definition mean_abs_ln (data : list F64) : R :=
  Rsum (map (fun x => Rabs (ln (B2R x))) data) / INR (length data).
Definition log_stage_bound (data : list F64) : R :=
  ((1 + eln) * (1 + g64 (length data + 14)) - 1) * mean_abs_ln data + eta64.

Theorem log_mean_error pl (data : list F64) n :
  plan_ok pl n -> n = length data -> (1 <= n)%nat -> (Z.of_nat n <= 2 ^ 53)%Z ->
  Forall (fun x => 0 < B2R x) data ->
  fin (log_mean pl data) = true ->
  Rabs (B2R (log_mean pl data) - mean_ln data) <= log_stage_bound data.
Proof.
  intros HP En H1 H2 Hpos Fm. unfold log_mean in *. rewrite <- En in *.
  set (plm := plan_of_map pl n) in *. set (ls := map (o_ln O) data) in *.
  assert (Ll : length ls = n) by (unfold ls; rewrite map_length; symmetry; exact En).
  assert (HPm : plan_ok plm n) by (apply plan_of_map_ok; exact HP).
  assert (PN : 0 < INR n) by (apply lt_0_INR; lia).
  (* the logarithms are finite *)
  assert (Fls : Forall (fun x => fin x = true) ls).
  { assert (Fm' : fin (fdiv (nd_sum O plm ls) (f64_of_Z (Z.of_nat (length ls)))) = true) by exact Fm.
    rewrite Ll in Fm'.
    destruct (f64_of_Z_exact (Z.of_nat n)) as [_ EN]; [lia|].
    destruct (fdiv_value _ _ (ltac:(rewrite EN; apply not_0_IZR; lia)) Fm') as [_ Fs].
    apply (nd_sum_finite_args lt et plm ls); [rewrite Ll; exact HPm|exact Fs]. }
  (* each one within eln of the logarithm *)
  set (Pf := fun x : F64 => B2R (tab_fn lt x)). set (X := fun x : F64 => ln (B2R x)).
  assert (HT : Forall (fun x => Rabs (Pf x - X x) <= eln * Rabs (X x) + 0) data).
  { unfold ls in Fls. rewrite Forall_map in Fls. rewrite Forall_forall in *.
    intros x Hx. specialize (Hpos x Hx). specialize (Fls x Hx). cbv beta in Fls.
    change (o_ln O x) with (tab_fn lt x) in Fls.
    pose proof (ln_acc x (B2R_pos_fin x Hpos) Hpos (fin_tab_fn_present lt x Fls) Fls) as B.
    unfold Pf, X. change (o_ln O x) with (tab_fn lt x) in B. lra. }
  destruct (approx_terms Pf X (fun _ => 0) eln data HT) as [R1 R2].
  rewrite Rsum_const, Rmult_0_r, Rplus_0_r in R1, R2.
  pose proof (mean_error_tight lt et plm ls n HPm (eq_sym Ll) H1 H2 Fm) as BM.
  unfold ls at 2 3 in BM. rewrite map_map in BM.
  change (map (fun x => B2R (o_ln O x)) data) with (map Pf data) in BM.
  unfold log_stage_bound, mean_ln, mean_abs_ln. rewrite <- En.
  change (map (fun x => ln (B2R x)) data) with (map X data).
  change (map (fun x => Rabs (ln (B2R x))) data) with (map (fun a => Rabs (X a)) data).
  rewrite (Rsum_abs_Rasum X data).
  set (m := B2R (mean O plm ls)) in *. set (g := g64 (n + 14)) in *.
  pose proof (g64_nonneg (n + 14)) as G. fold g in G.
  set (Sp := Rsum (map Pf data)) in *. set (Ap := Rasum (map Pf data)) in *.
  set (Sx := Rsum (map X data)) in *. set (Ax := Rasum (map X data)) in *.
  assert (iN : 0 < / INR n) by (apply Rinv_0_lt_compat; exact PN).
  replace (m - Sx / INR n) with ((m - Sp / INR n) + (Sp - Sx) * / INR n) by (field; lra).
  eapply Rle_trans; [apply Rabs_triang|].
  rewrite Rabs_mult, (Rabs_pos_eq (/ INR n)) by lra.
  assert (Q1 : Rabs (Sp - Sx) * / INR n <= eln * Ax * / INR n) by (apply Rmult_le_compat_r; lra).
  assert (Q2 : g * Ap / INR n <= g * ((1 + eln) * Ax) / INR n).
  { unfold Rdiv. apply Rmult_le_compat_r; [lra|]. apply Rmult_le_compat_l; lra. }
  unfold Rdiv in *. nra.
Qed.

Theorem geometric_mean_error pl (data : list F64) n :
  plan_ok pl n -> n = length data -> (1 <= n)%nat -> (Z.of_nat n <= 2 ^ 53)%Z ->
  Forall (fun x => 0 < B2R x) data ->
  fin (log_mean pl data) = true ->
  fin (geometric_mean O pl data) = true ->
  Rabs (B2R (geometric_mean O pl data) - GM (map B2R data))
    <= GM (map B2R data) * (exp (log_stage_bound data) * (1 + eexp) - 1).
Proof.
  intros HP En H1 H2 Hpos Fm Fg.
  pose proof (log_mean_error pl data n HP En H1 H2 Hpos Fm) as BL.
  rewrite geometric_mean_unfold in Fg |- *.
  set (mf := log_mean pl data) in *.
  pose proof (exp_acc mf Fm (fin_tab_fn_present et mf Fg) Fg) as BE.
  change (o_exp O mf) with (tab_fn et mf) in BE.
  assert (EG : GM (map B2R data) = exp (mean_ln data)).
  { unfold GM, mean_ln. rewrite map_map, map_length. reflexivity. }
  rewrite EG. set (mu := mean_ln data) in *. set (E := log_stage_bound data) in *.
  set (r := B2R (tab_fn et mf)) in *. set (m := B2R mf) in *.
  pose proof (exp_pos mu) as Pmu. pose proof (exp_pos m) as Pm. pose proof (exp_pos E) as PE.
  assert (Em : exp m = exp mu * exp (m - mu)) by (rewrite <- exp_plus; f_equal; ring).
  pose proof (exp_m1_le (m - mu) E BL) as B1.
  assert (B2 : exp (m - mu) <= exp E).
  { apply Rabs_le_inv in B1. lra. }
  assert (B3 : Rabs (exp m - exp mu) <= exp mu * (exp E - 1)).
  { rewrite Em. replace (exp mu * exp (m - mu) - exp mu) with (exp mu * (exp (m - mu) - 1)) by ring.
    rewrite Rabs_mult, (Rabs_pos_eq (exp mu)) by lra. apply Rmult_le_compat_l; lra. }
  assert (B4 : eexp * exp m <= eexp * (exp mu * exp E)).
  { apply Rmult_le_compat_l; [exact eexp_nonneg|]. rewrite Em. apply Rmult_le_compat_l; lra. }
  replace (r - exp mu) with ((r - exp m) + (exp m - exp mu)) by ring.
  eapply Rle_trans; [apply Rabs_triang|]. nra.
Qed.

(* first-order form: exp(E) <= 1 / (1 - E) *)
Lemma exp_le_inv_1m (E : R) : E < 1 -> exp E <= / (1 - E).
Proof.
  intros HE. pose proof (exp_ineq1_le (- E)) as L. pose proof (exp_pos E) as P.
  assert (I : exp E * exp (- E) = 1) by (rewrite exp_Ropp; field; lra).
  apply Rmult_le_reg_r with (1 - E); [lra|]. rewrite Rinv_l by lra. nra.
Qed.

Corollary geometric_mean_error_lin pl (data : list F64) n :
  plan_ok pl n -> n = length data -> (1 <= n)%nat -> (Z.of_nat n <= 2 ^ 53)%Z ->
  Forall (fun x => 0 < B2R x) data ->
  fin (log_mean pl data) = true ->
  fin (geometric_mean O pl data) = true ->
  log_stage_bound data < 1 ->
  Rabs (B2R (geometric_mean O pl data) - GM (map B2R data))
    <= GM (map B2R data) * ((log_stage_bound data + eexp) / (1 - log_stage_bound data)).
Proof.
  intros HP En H1 H2 Hpos Fm Fg HE.
  eapply Rle_trans; [apply (geometric_mean_error pl data n); assumption|].
  apply Rmult_le_compat_l; [apply Rlt_le, exp_pos|].
  pose proof (exp_le_inv_1m _ HE) as B. set (E := log_stage_bound data) in *.
  assert (Q : exp E * (1 + eexp) <= / (1 - E) * (1 + eexp)) by (apply Rmult_le_compat_r; lra).
  replace ((E + eexp) / (1 - E)) with (/ (1 - E) * (1 + eexp) - 1) by (field; lra).
  lra.
Qed.
End Geom.

Print Assumptions geometric_mean_R_GM.
Print Assumptions GM_pow.
Print Assumptions GM_min_max.
Print Assumptions log_mean_error.
Print Assumptions geometric_mean_error.
