(* Corollaries of Num/CentralMomentF64.v in IEEE-754 binary64:
     - orders 0 and 1 are exactly 1 and 0;  central_moments is central_moment order by order;
     - kurtosis = m4 / powi m2 2  and  skewness = m3 / powi (sqrt m2) 3: forward error from the
       errors of the central moments through MeansF64.quot_error, when the computed denominator is
       within a quarter of the exact one (kurtosis_error, skewness_error);
     - concrete inputs satisfying every hypothesis of the theorems. *)
From Flocq Require Import Core BinarySingleNaN Plus_error Relative.
Require Import Reals Lra Lia ZArith Psatz Bool List Arith Permutation.
From NS Require Num.KernelsR Num.WestF64.
From NS Require Import Num.F64 Num.Ops Num.F64Inst Num.Kernels Num.SumBridge Num.SumF64
  Quantile.IndexProofs Quantile.InterpF64 Num.DeviationF64 Num.MeansF64 Num.CovF64 Num.PowiF64
  Num.MomentsErrF64 Num.HornerF64 Num.CentralMomentF64 Num.MomentsBoundF64 Num.CentralMomentRepF64
  Num.MomentsBoundRepF64.
Import ListNotations.
Open Scope R_scope.

Local Instance prec64_gt_0K : Prec_gt_0 53 := Hprec64.
Local Instance vexp64K : Valid_exp (SpecFloat.fexp 53 1024) := fexp_correct 53 1024 Hprec64.

(* ------------------------------------------------------------------ *)
(* 0. Real-number lemmas                                                *)
(* ------------------------------------------------------------------ *)
Lemma denom_nonzero (D D' eD : R) : D <> 0 -> Rabs (D' - D) <= eD -> eD <= Rabs D / 4 -> D' <> 0.
Proof.
  intros HD Hd He Z. subst D'. assert (P : 0 < Rabs D) by (apply Rabs_pos_lt; exact HD).
  replace (0 - D) with (- D) in Hd by ring. rewrite Rabs_Ropp in Hd. lra.
Qed.

(* a rounded quotient of two approximations *)
Lemma quot_prop (N N' D D' eN eD : R) : D <> 0 ->
  Rabs (N' - N) <= eN -> Rabs (D' - D) <= eD -> eD <= Rabs D / 4 ->
  Rabs (rnd (N' / D') - N / D)
    <= 4 / 3 * (eN + Rabs N * (eD / Rabs D)) / Rabs D * (1 + u64) + Rabs (N / D) * u64 + eta64.
Proof.
  intros HD HN Hd He. assert (P : 0 < Rabs D) by (apply Rabs_pos_lt; exact HD).
  assert (eD0 : 0 <= eD) by (pose proof (Rabs_pos (D' - D)); lra).
  set (c := eD / Rabs D).
  assert (Hc : 0 <= c <= / 4).
  { unfold c. split; [apply Rmult_le_pos; [lra|apply Rlt_le, Rinv_0_lt_compat; exact P]|].
    apply Rmult_le_reg_r with (Rabs D); [exact P|]. unfold Rdiv. rewrite Rmult_assoc, Rinv_l by lra. lra. }
  assert (Hd' : Rabs (D' - D) <= c * Rabs D) by (unfold c; unfold Rdiv; rewrite Rmult_assoc, Rinv_l by lra; lra).
  assert (HE : Rabs (N' - N) + Rabs N * c <= eN + Rabs N * c) by lra.
  destruct (quot_error N N' D D' _ c HD Hc Hd' HE) as [_ Q].
  apply (round_near (N / D) (N' / D') (Rabs (N / D)) _ (Rle_refl _) Q).
Qed.

Lemma sqrt_diff (a b : R) : 0 <= a -> 0 < b -> Rabs (sqrt a - sqrt b) <= Rabs (a - b) / sqrt b.
Proof.
  intros Ha Hb. pose proof (sqrt_pos a) as Sa. pose proof (sqrt_lt_R0 b Hb) as Sb.
  pose proof (sqrt_sqrt a Ha) as Ea. pose proof (sqrt_sqrt b (Rlt_le _ _ Hb)) as Eb.
  set (sa := sqrt a) in *. set (sb := sqrt b) in *.
  apply Rmult_le_reg_r with sb; [exact Sb|]. unfold Rdiv. rewrite Rmult_assoc, Rinv_l, Rmult_1_r by lra.
  assert (E : a - b = (sa - sb) * (sa + sb)) by (rewrite <- Ea, <- Eb; ring).
  rewrite E, Rabs_mult, (Rabs_pos_eq (sa + sb)) by lra.
  apply Rmult_le_compat_l; [apply Rabs_pos|lra].
Qed.

Lemma fsqrt_value (x : F64) : B2R (fsqrt x) = rnd (sqrt (B2R x)).
Proof. exact (proj1 (Bsqrt_correct 53 1024 Hprec64 Hmax64 mode_NE x)). Qed.
Lemma fsqrt_fin_arg (x : F64) : fin (fsqrt x) = true -> fin x = true.
Proof.
  intros Hf. pose proof (proj1 (proj2 (Bsqrt_correct 53 1024 Hprec64 Hmax64 mode_NE x))) as H.
  unfold fsqrt in Hf. rewrite H in Hf. destruct x as [s|s| |s m e Hx]; try discriminate Hf; reflexivity.
Qed.

(* the exact central moment of the real-number half of C07 (Num/KernelsR.v: mu, central_moment_R) *)
Lemma Rsum_KernelsR (l : list R) : KernelsR.Rsum l = Rsum l.
Proof. induction l as [|x l IH]; [reflexivity|]. cbn [KernelsR.Rsum]. rewrite IH. reflexivity. Qed.

Theorem cmu_is_mu (xs : list F64) k : cmu xs k = KernelsR.mu (map B2R xs) k.
Proof.
  unfold cmu, KernelsR.mu, meanR. rewrite map_map, map_length. reflexivity.
Qed.

(* the structured error bound of the repaired central_moment (Num/CentralMomentRepF64.v) *)
Definition cm_err (xs : list F64) (n p : nat) : R :=
  cm_bound_rep n p (Amom xs) (Smom xs p) (Tmom xs (Eraw n 1 (Amom xs)) (p - 1)) (mdelta xs).

Section Cor.
Variables lt et : list (Z * Z).
Let O := f64_ops lt et.

(* ------------------------------------------------------------------ *)
(* 1. Orders 0 and 1; the list of central moments                       *)
(* ------------------------------------------------------------------ *)
Theorem central_moment_order0 pl (xs : list F64) :
  central_moment O pl xs 0 = fone /\ B2R (central_moment O pl xs 0) = 1.
Proof. split; [reflexivity|exact (proj2 fone_spec)]. Qed.
Theorem central_moment_order1 pl (xs : list F64) :
  central_moment O pl xs 1 = fzero /\ B2R (central_moment O pl xs 1) = 0.
Proof. split; reflexivity. Qed.

Theorem central_moment_v0_orders01 pl (xs : list F64) :
  B2R (central_moment_v0 O pl xs 0) = 1 /\ B2R (central_moment_v0 O pl xs 1) = 0.
Proof. split; [exact (proj2 fone_spec)|reflexivity]. Qed.

Theorem central_moments_error pl (xs : list F64) p k n :
  plan_ok pl n -> n = length xs -> (1 <= n)%nat -> (Z.of_nat n <= 2 ^ 53)%Z ->
  (2 <= k <= p)%nat -> (k <= 53)%nat ->
  fin (nth k (central_moments O pl xs p) fzero) = true ->
  Rabs (B2R (nth k (central_moments O pl xs p) fzero) - cmu xs k) <= cm_err xs n k.
Proof.
  intros HP En H1 H2 Hk Hk52 Hf.
  rewrite (KernelsR.central_moments_nth _ O pl xs p k fzero) in Hf |- * by lia.
  apply (central_moment_error lt et pl xs k n); try assumption. lia.
Qed.

(* ------------------------------------------------------------------ *)
(* 2. Kurtosis                                                          *)
(* ------------------------------------------------------------------ *)
Lemma kurtosis_unfold pl (xs : list F64) :
  kurtosis O pl xs = fdiv (central_moment O pl xs 4) (powi O (central_moment O pl xs 2) 2).
Proof.
  unfold kurtosis. cbv zeta.
  rewrite !(KernelsR.central_moments_nth _ O pl xs 4 _ (o_zero O)) by lia. reflexivity.
Qed.

Theorem kurtosis_error pl (xs : list F64) n :
  plan_ok pl n -> n = length xs -> (1 <= n)%nat -> (Z.of_nat n <= 2 ^ 53)%Z ->
  fin (kurtosis O pl xs) = true -> fin (powi O (central_moment O pl xs 2) 2) = true ->
  let mu2 := cmu xs 2 in let mu4 := cmu xs 4 in
  let e2 := cm_err xs n 2 in let e4 := cm_err xs n 4 in
  let eD := g64 2 * (Rabs mu2 + e2) ^ 2 + INR 2 * (1 + g64 2) * eta64 + e2 * (2 * Rabs mu2 + e2) in
  mu2 <> 0 -> eD <= mu2 ^ 2 / 4 ->
  Rabs (B2R (kurtosis O pl xs) - mu4 / mu2 ^ 2)
    <= 4 / 3 * (e4 + Rabs mu4 * (eD / mu2 ^ 2)) / mu2 ^ 2 * (1 + u64) + Rabs (mu4 / mu2 ^ 2) * u64 + eta64.
Proof.
  intros HP En H1 H2 Hf Fd mu2 mu4 e2 e4 eD Hmu HeD.
  rewrite kurtosis_unfold in Hf |- *.
  set (m2 := central_moment O pl xs 2) in *. set (m4 := central_moment O pl xs 4) in *.
  pose proof (powi_fin_arg lt et m2 2 ltac:(lia) Fd) as F2.
  pose proof (central_moment_error lt et pl xs 2 n HP En H1 H2 ltac:(lia) F2) as E2.
  change (Rabs (B2R m2 - mu2) <= e2) in E2.
  pose proof (powi_error lt et m2 2 Fd) as EP. fold O in EP.
  set (M2 := B2R m2) in *. set (D' := B2R (powi O m2 2)) in *.
  assert (e20 : 0 <= e2) by (pose proof (Rabs_pos (M2 - mu2)); lra).
  assert (AM : Rabs M2 <= Rabs mu2 + e2).
  { replace M2 with (mu2 + (M2 - mu2)) by ring. eapply Rle_trans; [apply Rabs_triang|]. lra. }
  assert (HD : Rabs (D' - mu2 ^ 2) <= eD).
  { replace (D' - mu2 ^ 2) with ((D' - M2 ^ 2) + (M2 - mu2) * (M2 + mu2)) by ring.
    eapply Rle_trans; [apply Rabs_triang|]. rewrite Rabs_mult.
    assert (Q1 : Rabs M2 ^ 2 <= (Rabs mu2 + e2) ^ 2) by (apply pow_incr; split; [apply Rabs_pos|exact AM]).
    assert (Q2 : g64 2 * Rabs M2 ^ 2 <= g64 2 * (Rabs mu2 + e2) ^ 2).
    { apply Rmult_le_compat_l; [apply g64_nonneg|exact Q1]. }
    assert (Q3 : Rabs (M2 + mu2) <= 2 * Rabs mu2 + e2).
    { eapply Rle_trans; [apply Rabs_triang|]. lra. }
    assert (Q4 : Rabs (M2 - mu2) * Rabs (M2 + mu2) <= e2 * (2 * Rabs mu2 + e2)).
    { apply Rmult_le_compat; try apply Rabs_pos; assumption. }
    unfold eD. lra. }
  assert (ND : mu2 ^ 2 <> 0) by (apply pow_nonzero; exact Hmu).
  assert (AD : Rabs (mu2 ^ 2) = mu2 ^ 2) by (apply Rabs_pos_eq; simpl; nra).
  assert (HeD' : eD <= Rabs (mu2 ^ 2) / 4) by (rewrite AD; exact HeD).
  pose proof (denom_nonzero _ _ _ ND HD HeD') as ND'.
  destruct (fdiv_value _ _ ND' Hf) as [Ev F4]. rewrite Ev.
  pose proof (central_moment_error lt et pl xs 4 n HP En H1 H2 ltac:(lia) F4) as E4.
  change (Rabs (B2R m4 - mu4) <= e4) in E4.
  pose proof (quot_prop mu4 (B2R m4) (mu2 ^ 2) D' e4 eD ND E4 HD HeD') as Q.
  rewrite AD in Q. exact Q.
Qed.

(* ------------------------------------------------------------------ *)
(* 3. Skewness                                                          *)
(* ------------------------------------------------------------------ *)
Lemma skewness_unfold pl (xs : list F64) :
  skewness O pl xs = fdiv (central_moment O pl xs 3) (powi O (fsqrt (central_moment O pl xs 2)) 3).
Proof.
  unfold skewness. cbv zeta.
  rewrite !(KernelsR.central_moments_nth _ O pl xs 3 _ (o_zero O)) by lia. reflexivity.
Qed.

Theorem skewness_error pl (xs : list F64) n :
  plan_ok pl n -> n = length xs -> (1 <= n)%nat -> (Z.of_nat n <= 2 ^ 53)%Z ->
  fin (skewness O pl xs) = true -> fin (powi O (fsqrt (central_moment O pl xs 2)) 3) = true ->
  let mu2 := cmu xs 2 in let mu3 := cmu xs 3 in
  let e2 := cm_err xs n 2 in let e3 := cm_err xs n 3 in
  let s := sqrt mu2 in
  let es := e2 / s * (1 + u64) + s * u64 + eta64 in
  let eD := g64 3 * (s + es) ^ 3 + INR 3 * (1 + g64 3) * eta64 + ((s + es) ^ 3 - s ^ 3) in
  0 < mu2 -> e2 <= mu2 -> eD <= s ^ 3 / 4 ->
  Rabs (B2R (skewness O pl xs) - mu3 / s ^ 3)
    <= 4 / 3 * (e3 + Rabs mu3 * (eD / s ^ 3)) / s ^ 3 * (1 + u64) + Rabs (mu3 / s ^ 3) * u64 + eta64.
Proof.
  intros HP En H1 H2 Hf Fd mu2 mu3 e2 e3 s es eD Hmu He2 HeD.
  rewrite skewness_unfold in Hf |- *.
  set (m2 := central_moment O pl xs 2) in *. set (m3 := central_moment O pl xs 3) in *.
  pose proof (powi_fin_arg lt et (fsqrt m2) 3 ltac:(lia) Fd) as Fs.
  pose proof (fsqrt_fin_arg m2 Fs) as F2.
  pose proof (central_moment_error lt et pl xs 2 n HP En H1 H2 ltac:(lia) F2) as E2.
  change (Rabs (B2R m2 - mu2) <= e2) in E2.
  pose proof (powi_error lt et (fsqrt m2) 3 Fd) as EP. fold O in EP. rewrite fsqrt_value in EP.
  set (M2 := B2R m2) in *. set (D' := B2R (powi O (fsqrt m2) 3)) in *.
  assert (s0 : 0 < s) by (apply sqrt_lt_R0; exact Hmu).
  assert (M20 : 0 <= M2) by (apply Rabs_le_inv in E2; lra).
  (* the square root *)
  assert (Es : Rabs (rnd (sqrt M2) - s) <= es).
  { pose proof (sqrt_diff M2 mu2 M20 Hmu) as Sd. fold s in Sd.
    assert (Sd' : Rabs (sqrt M2 - s) <= e2 / s).
    { eapply Rle_trans; [exact Sd|]. unfold Rdiv. apply Rmult_le_compat_r; [apply Rlt_le, Rinv_0_lt_compat; exact s0|exact E2]. }
    assert (Qs : Rabs s <= s) by (rewrite Rabs_pos_eq; lra).
    exact (round_near s (sqrt M2) s (e2 / s) Qs Sd'). }
  set (S' := rnd (sqrt M2)) in *.
  assert (es0 : 0 <= es) by (pose proof (Rabs_pos (S' - s)); lra).
  assert (AS : Rabs S' <= s + es).
  { replace S' with (s + (S' - s)) by ring. eapply Rle_trans; [apply Rabs_triang|]. rewrite (Rabs_pos_eq s); lra. }
  assert (HD : Rabs (D' - s ^ 3) <= eD).
  { replace (D' - s ^ 3) with ((D' - S' ^ 3) + (S' ^ 3 - s ^ 3)) by ring.
    eapply Rle_trans; [apply Rabs_triang|].
    assert (Q1 : Rabs S' ^ 3 <= (s + es) ^ 3) by (apply pow_incr; split; [apply Rabs_pos|exact AS]).
    assert (Q2 : g64 3 * Rabs S' ^ 3 <= g64 3 * (s + es) ^ 3).
    { apply Rmult_le_compat_l; [apply g64_nonneg|exact Q1]. }
    pose proof (pow_diff_abs s (S' - s) 3) as Pd. replace (s + (S' - s)) with S' in Pd by ring.
    rewrite (Rabs_pos_eq s) in Pd by lra.
    assert (Q3 : (s + Rabs (S' - s)) ^ 3 <= (s + es) ^ 3).
    { apply pow_incr. split; [pose proof (Rabs_pos (S' - s)); lra|lra]. }
    unfold eD. lra. }
  assert (s30 : 0 < s ^ 3) by (apply pow_lt; exact s0).
  assert (ND : s ^ 3 <> 0) by lra.
  assert (AD : Rabs (s ^ 3) = s ^ 3) by (apply Rabs_pos_eq; lra).
  assert (HeD' : eD <= Rabs (s ^ 3) / 4) by (rewrite AD; exact HeD).
  pose proof (denom_nonzero _ _ _ ND HD HeD') as ND'.
  destruct (fdiv_value _ _ ND' Hf) as [Ev F3]. rewrite Ev.
  pose proof (central_moment_error lt et pl xs 3 n HP En H1 H2 ltac:(lia) F3) as E3.
  change (Rabs (B2R m3 - mu3) <= e3) in E3.
  pose proof (quot_prop mu3 (B2R m3) (s ^ 3) D' e3 eD ND E3 HD HeD') as Q.
  rewrite AD in Q. exact Q.
Qed.
End Cor.

(* ------------------------------------------------------------------ *)
(* 4. The hypotheses are satisfiable: concrete runs                     *)
(* ------------------------------------------------------------------ *)
Definition exm_xs : list F64 := map f64_of_Z [1; 2; 4; 7; 11; 16; 22]%Z.
(* 0.1, 0.2, 0.3 (inexact in binary64), -2.5, 1, 2^-1060 (subnormal) *)
Definition exm_ys : list F64 :=
  map f64_of_bits [0x3fb999999999999a; 0x3fc999999999999a; 0x3fd3333333333333;
                   0xc004000000000000; 0x3ff0000000000000; 0x0000000000004000]%Z.
Definition exm_pl1 : plan := PMem (seq 0 7).
Definition exm_pl2 : plan := PRows [(true, [0; 1; 2; 3]%nat); (false, [4; 5; 6]%nat)].
Definition exm_pl3 : plan := PMem (seq 0 6).
Definition OE : ops F64 := f64_ops [] [].

Lemma exm_pl1_ok : plan_ok exm_pl1 7. Proof. apply Permutation_refl. Qed.
Lemma exm_pl2_ok : plan_ok exm_pl2 7. Proof. apply Permutation_refl. Qed.
Lemma exm_pl3_ok : plan_ok exm_pl3 6. Proof. apply Permutation_refl. Qed.

Example central_moment_error_example : forall p, In p [2; 3; 4; 9; 20]%nat ->
  Rabs (B2R (central_moment OE exm_pl1 exm_xs p) - cmu exm_xs p) <= cm_err exm_xs 7 p /\
  Rabs (B2R (central_moment OE exm_pl2 exm_xs p) - cmu exm_xs p) <= cm_err exm_xs 7 p /\
  Rabs (B2R (central_moment OE exm_pl3 exm_ys p) - cmu exm_ys p) <= cm_err exm_ys 6 p.
Proof.
  intros p Hp.
  assert (Hp' : (2 <= p <= 53)%nat) by (cbn [In] in Hp; lia).
  split; [|split].
  - apply (central_moment_error [] [] exm_pl1 exm_xs p 7 exm_pl1_ok eq_refl); [lia|lia|exact Hp'|].
    cbn [In] in Hp. repeat (destruct Hp as [<-|Hp]; [vm_compute; reflexivity|]). elim Hp.
  - apply (central_moment_error [] [] exm_pl2 exm_xs p 7 exm_pl2_ok eq_refl); [lia|lia|exact Hp'|].
    cbn [In] in Hp. repeat (destruct Hp as [<-|Hp]; [vm_compute; reflexivity|]). elim Hp.
  - apply (central_moment_error [] [] exm_pl3 exm_ys p 6 exm_pl3_ok eq_refl); [lia|lia|exact Hp'|].
    cbn [In] in Hp. repeat (destruct Hp as [<-|Hp]; [vm_compute; reflexivity|]). elim Hp.
Qed.

(* the same runs of the pre-repair routine *)
Example central_moment_v0_error_example : forall p, In p [2; 3; 4; 9; 20]%nat ->
  Rabs (B2R (central_moment_v0 OE exm_pl1 exm_xs p) - cmu exm_xs p) <= cm_bound 7 p (Amom exm_xs) (mdelta exm_xs) /\
  Rabs (B2R (central_moment_v0 OE exm_pl3 exm_ys p) - cmu exm_ys p) <= cm_bound 6 p (Amom exm_ys) (mdelta exm_ys).
Proof.
  intros p Hp.
  assert (Hp' : (2 <= p <= 52)%nat) by (cbn [In] in Hp; lia).
  split.
  - apply (central_moment_v0_error [] [] exm_pl1 exm_xs p 7 exm_pl1_ok eq_refl); [lia|lia|exact Hp'|].
    cbn [In] in Hp. repeat (destruct Hp as [<-|Hp]; [vm_compute; reflexivity|]). elim Hp.
  - apply (central_moment_v0_error [] [] exm_pl3 exm_ys p 6 exm_pl3_ok eq_refl); [lia|lia|exact Hp'|].
    cbn [In] in Hp. repeat (destruct Hp as [<-|Hp]; [vm_compute; reflexivity|]). elim Hp.
Qed.

(* the finiteness hypotheses of the kurtosis / skewness corollaries hold on these runs *)
Example kurtosis_skewness_finite_example :
  fin (kurtosis OE exm_pl1 exm_xs) = true /\ fin (powi OE (central_moment OE exm_pl1 exm_xs 2) 2) = true /\
  fin (skewness OE exm_pl1 exm_xs) = true /\ fin (powi OE (fsqrt (central_moment OE exm_pl1 exm_xs 2)) 3) = true /\
  fin (kurtosis OE exm_pl3 exm_ys) = true /\ fin (powi OE (central_moment OE exm_pl3 exm_ys 2) 2) = true /\
  fin (skewness OE exm_pl3 exm_ys) = true /\ fin (powi OE (fsqrt (central_moment OE exm_pl3 exm_ys 2)) 3) = true.
Proof. vm_compute. repeat split; reflexivity. Qed.

(* why the finiteness of the denominator is stated separately: a quotient by an overflowed (infinite)
   denominator is a finite zero, so finiteness of the quotient does not give finiteness of the
   denominator *)
Example fdiv_by_infinity_is_finite : fin (fdiv fone (B754_infinity false)) = true.
Proof. vm_compute. reflexivity. Qed.

(* ------------------------------------------------------------------ *)
(* 5. The conditioning term cannot be dropped                           *)
(* ------------------------------------------------------------------ *)
(* DEFECT D7 (pre-repair routine central_moment_v0, binomials of order p + 1).  The literal reading
   "error <= C * u64 * (1/n) sum |x_i - xbar|^p" is FALSE of it, because the error of the computed mean
   enters to first order: data [2^52+1; 2^52+2], exact mean 2^52 + 1.5, computed mean 2^52 + 2.
   Order 2: computed 1/2, exact 1/4 = (1/n) sum |x_i - xbar|^2 (error = 100% = 2^53 * u64 times it).
   Order 3: computed 1/4, exact 0, (1/n) sum |x_i - xbar|^3 = 1/8.
   The REPAIRED routine returns the exact values 1/4 and 0 on the same input
   (central_moment_repaired_on_witness: the regression pin of the defect). *)
Definition cx_mom_xs : list F64 := [f64_of_Z (2 ^ 52 + 1); f64_of_Z (2 ^ 52 + 2)].
Definition cx_mom_pl : plan := PMem [0; 1]%nat.

Lemma B2R_half : B2R (f64_of_bits 0x3FE0000000000000) = / 2.
Proof. vm_compute f64_of_bits. unfold BinarySingleNaN.B2R, F2R. simpl. lra. Qed.
Lemma B2R_quarter : B2R (f64_of_bits 0x3FD0000000000000) = / 4.
Proof. vm_compute f64_of_bits. unfold BinarySingleNaN.B2R, F2R. simpl. lra. Qed.

Theorem naive_moment_bound_refuted :
  plan_ok cx_mom_pl 2 /\
  fin (central_moment_v0 OE cx_mom_pl cx_mom_xs 2) = true /\ fin (central_moment_v0 OE cx_mom_pl cx_mom_xs 3) = true /\
  meanR cx_mom_xs = IZR (2 ^ 52) + 3 / 2 /\
  cmu cx_mom_xs 2 = / 4 /\ cmu cx_mom_xs 3 = 0 /\
  Rsum (map (fun x : F64 => Rabs (B2R x - meanR cx_mom_xs) ^ 2) cx_mom_xs) / 2 = / 4 /\
  Rsum (map (fun x : F64 => Rabs (B2R x - meanR cx_mom_xs) ^ 3) cx_mom_xs) / 2 = / 8 /\
  B2R (central_moment_v0 OE cx_mom_pl cx_mom_xs 2) = / 2 /\
  B2R (central_moment_v0 OE cx_mom_pl cx_mom_xs 3) = / 4.
Proof.
  destruct (f64_of_Z_exact (2 ^ 52 + 1) ltac:(lia)) as [_ V1].
  destruct (f64_of_Z_exact (2 ^ 52 + 2) ltac:(lia)) as [_ V2].
  assert (EM : meanR cx_mom_xs = IZR (2 ^ 52) + 3 / 2).
  { unfold meanR, cx_mom_xs. cbn [map length]. rewrite V1, V2. unfold Rsum. cbn [fold_right INR].
    rewrite !plus_IZR. lra. }
  split; [apply Permutation_refl|]. split; [vm_compute; reflexivity|]. split; [vm_compute; reflexivity|].
  split; [exact EM|].
  assert (T1 : B2R (f64_of_Z (2 ^ 52 + 1)) - meanR cx_mom_xs = - / 2).
  { rewrite EM, V1, plus_IZR. lra. }
  assert (T2 : B2R (f64_of_Z (2 ^ 52 + 2)) - meanR cx_mom_xs = / 2).
  { rewrite EM, V2, plus_IZR. lra. }
  assert (A1 : Rabs (- / 2) = / 2) by (rewrite Rabs_Ropp, Rabs_pos_eq; lra).
  assert (A2 : Rabs (/ 2) = / 2) by (rewrite Rabs_pos_eq; lra).
  repeat split.
  - unfold cmu, cx_mom_xs. cbn [map length]. fold cx_mom_xs. rewrite T1, T2. unfold Rsum. cbn [fold_right INR]. lra.
  - unfold cmu, cx_mom_xs. cbn [map length]. fold cx_mom_xs. rewrite T1, T2. unfold Rsum. cbn [fold_right INR]. lra.
  - unfold cx_mom_xs. cbn [map]. fold cx_mom_xs. rewrite T1, T2, A1, A2. unfold Rsum. cbn [fold_right]. lra.
  - unfold cx_mom_xs. cbn [map]. fold cx_mom_xs. rewrite T1, T2, A1, A2. unfold Rsum. cbn [fold_right]. lra.
  - rewrite <- B2R_half. apply (WestF64.feq_spec _ _); vm_compute; reflexivity.
  - rewrite <- B2R_quarter. apply (WestF64.feq_spec _ _); vm_compute; reflexivity.
Qed.

(* regression pin: bit patterns of both routines on the witness, orders 2, 3, 4
   (0x3FD0.. = 1/4, 0x3FE0.. = 1/2, 0 = +0.0, 0x3FB0.. = 1/16, 0x3FC8.. = 3/16) *)
Theorem central_moment_repaired_on_witness :
  map (fun p => (bits_of_f64 (central_moment OE cx_mom_pl cx_mom_xs p),
                 bits_of_f64 (central_moment_v0 OE cx_mom_pl cx_mom_xs p))) [2; 3; 4]%nat
  = [(0x3FD0000000000000, 0x3FE0000000000000); (0, 0x3FD0000000000000);
     (0x3FB0000000000000, 0x3FC8000000000000)]%Z /\
  B2R (central_moment OE cx_mom_pl cx_mom_xs 2) = cmu cx_mom_xs 2 /\
  B2R (central_moment OE cx_mom_pl cx_mom_xs 3) = cmu cx_mom_xs 3.
Proof.
  destruct naive_moment_bound_refuted as (_ & _ & _ & _ & M2 & M3 & _).
  split; [vm_compute; reflexivity|]. rewrite M2, M3. split.
  - rewrite <- B2R_quarter. apply (WestF64.feq_spec _ _); vm_compute; reflexivity.
  - change 0 with (B2R fzero). apply (WestF64.feq_spec _ _); vm_compute; reflexivity.
Qed.

Print Assumptions central_moments_error.
Print Assumptions kurtosis_error.
Print Assumptions skewness_error.
