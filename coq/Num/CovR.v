(* cov / pearson_correlation over the reals: the model of Num/Cov.v instantiated at [R_ops]
   with the exact summation [Rsum] computes the textbook covariance matrix and Pearson
   correlation matrix; symmetry, non-negative diagonal, Cauchy-Schwarz, range [-1,1],
   affine invariance, and the cancellation of [ddof] in the correlation. *)
From Coq Require Import Reals Lra Lia Psatz List Arith.
Import ListNotations.
From NS Require Import Num.Ops Num.RInst Num.Cov.
Local Open Scope R_scope.

Fixpoint Rsum (l : list R) : R := match l with [] => 0 | x :: t => x + Rsum t end.

Definition covR := cov R_ops Rsum.
Definition pearsonR := pearson R_ops Rsum.
Definition denoiseR := denoise R_ops Rsum.
Definition dotR := dot R_ops Rsum.
Definition std0R := std0 R_ops Rsum.

Definition entry (m : list (list R)) (i j : nat) : R := nth j (nth i m []) 0.

(* the mathematical vocabulary *)
Definition mean (x : list R) : R := Rsum x / INR (length x).
Definition sxy (x y : list R) : R :=
  Rsum (map (fun ab => (fst ab - mean x) * (snd ab - mean y)) (combine x y)).
Definition ssq (x : list R) : R := Rsum (map (fun v => (v - mean x) * (v - mean x)) x).
Definition r (x y : list R) : R := sxy x y / (sqrt (ssq x) * sqrt (ssq y)).

(* ---------- list helpers ---------- *)

Lemma nth_map_lt : forall (A B : Type) (f : A -> B) (l : list A) (k : nat) (d : A) (d' : B),
  (k < length l)%nat -> nth k (map f l) d' = f (nth k l d).
Proof.
  intros A B f l; induction l as [|a l IHl]; intros k d d' Hk; simpl in *.
  - lia.
  - destruct k as [|k]; [reflexivity|]. apply IHl. lia.
Qed.

Lemma combine_map_map : forall (A B C D : Type) (f : A -> C) (g : B -> D) (a : list A) (b : list B),
  combine (map f a) (map g b) = map (fun ab => (f (fst ab), g (snd ab))) (combine a b).
Proof.
  intros A B C D f g a; induction a as [|x a IHa]; intros b; simpl; [reflexivity|].
  destruct b as [|y b]; simpl; [reflexivity|]. now rewrite IHa.
Qed.

Lemma combine_diag : forall (A : Type) (x : list A), combine x x = map (fun v => (v, v)) x.
Proof. intros A x; induction x as [|v x IHx]; simpl; [reflexivity|]. now rewrite IHx. Qed.

Lemma Forall_nth_len : forall (rows : list (list R)) (n i : nat),
  Forall (fun row => length row = n) rows -> (i < length rows)%nat -> length (nth i rows []) = n.
Proof.
  intros rows n i HF Hi. rewrite Forall_forall in HF. apply HF. now apply nth_In.
Qed.

Lemma Forall_hd_len : forall (rows : list (list R)) (n i : nat),
  Forall (fun row => length row = n) rows -> (i < length rows)%nat -> length (hd [] rows) = n.
Proof.
  intros rows n i HF Hi. destruct rows as [|r0 rows]; simpl in *; [lia|].
  now inversion HF.
Qed.

(* ---------- Rsum helpers ---------- *)

Lemma Rsum_map_ext : forall (A : Type) (f g : A -> R) (l : list A),
  (forall v, f v = g v) -> Rsum (map f l) = Rsum (map g l).
Proof. intros A f g l H; induction l as [|v l IHl]; simpl; [reflexivity|]. now rewrite H, IHl. Qed.

Lemma Rsum_map_scal : forall (A : Type) (c : R) (f : A -> R) (l : list A),
  Rsum (map (fun v => c * f v) l) = c * Rsum (map f l).
Proof. intros A c f l; induction l as [|v l IHl]; simpl; [ring|]. rewrite IHl; ring. Qed.

Lemma Rsum_map_sq_nonneg : forall (A : Type) (f : A -> R) (l : list A),
  0 <= Rsum (map (fun v => f v * f v) l).
Proof.
  intros A f l; induction l as [|v l IHl]; simpl; [lra|]. pose proof (Rle_0_sqr (f v)) as H.
  unfold Rsqr in H. lra.
Qed.

Lemma Rsum_affine : forall (a b : R) (x : list R),
  Rsum (map (fun v => a * v + b) x) = a * Rsum x + INR (length x) * b.
Proof.
  intros a b x; induction x as [|v x IHx].
  - simpl; ring.
  - change (length (v :: x)) with (S (length x)). rewrite S_INR. simpl. rewrite IHx. ring.
Qed.

Lemma Rsum_opp : forall x : list R, Rsum (map Ropp x) = - Rsum x.
Proof. intros x; induction x as [|v x IHx]; simpl; [ring|]. rewrite IHx; ring. Qed.

(* ---------- model unfolding ---------- *)

Lemma denoiseR_eq : forall x, denoiseR x = map (fun v => v - mean x) x.
Proof. reflexivity. Qed.

Lemma dotR_eq : forall a b, dotR a b = Rsum (map (fun ab => fst ab * snd ab) (combine a b)).
Proof. reflexivity. Qed.

Lemma dotR_denoise : forall x y, dotR (denoiseR x) (denoiseR y) = sxy x y.
Proof.
  intros x y. rewrite dotR_eq, !denoiseR_eq, combine_map_map, map_map. reflexivity.
Qed.

Lemma sxy_diag : forall x, sxy x x = ssq x.
Proof. intros x. unfold sxy, ssq. rewrite combine_diag, map_map. reflexivity. Qed.

Lemma ssq_nonneg : forall x, 0 <= ssq x.
Proof. intros x. unfold ssq. apply (Rsum_map_sq_nonneg R (fun v => v - mean x)). Qed.

Lemma sxy_comm : forall x y, sxy x y = sxy y x.
Proof.
  intros x y. unfold sxy. generalize (mean x) (mean y). intros mx my. revert y.
  induction x as [|u x IHx]; intros y; destruct y as [|v y]; simpl; try reflexivity.
  rewrite IHx. ring.
Qed.

(* ---------- V1: shape and entries of cov ---------- *)

Lemma covR_length : forall rows ddof, length (covR rows ddof) = length rows.
Proof. intros rows ddof. unfold covR, cov. now rewrite !map_length. Qed.

Lemma covR_row_length : forall rows ddof i,
  (i < length rows)%nat -> length (nth i (covR rows ddof) []) = length rows.
Proof.
  intros rows ddof i Hi. unfold covR, cov.
  rewrite (nth_map_lt _ _ _ _ i [] []) by now rewrite map_length.
  now rewrite !map_length.
Qed.

Lemma cov_entry_sxy : forall rows n ddof i j,
  Forall (fun row => length row = n) rows ->
  (i < length rows)%nat -> (j < length rows)%nat ->
  entry (covR rows ddof) i j = sxy (nth i rows []) (nth j rows []) / (INR n - ddof).
Proof.
  intros rows n ddof i j HF Hi Hj. unfold entry, covR, cov.
  rewrite (nth_map_lt _ _ _ _ i [] []) by now rewrite map_length.
  rewrite (nth_map_lt _ _ _ _ j [] 0) by now rewrite map_length.
  rewrite (nth_map_lt _ _ _ _ i [] []) by assumption.
  rewrite (nth_map_lt _ _ _ _ j [] []) by assumption.
  rewrite (Forall_hd_len rows n i HF Hi).
  change (dotR (denoiseR (nth i rows [])) (denoiseR (nth j rows [])) / (INR n - ddof)
          = sxy (nth i rows []) (nth j rows []) / (INR n - ddof)).
  now rewrite dotR_denoise.
Qed.

Theorem cov_entry : forall rows n ddof i j,
  Forall (fun row => length row = n) rows ->
  (i < length rows)%nat -> (j < length rows)%nat ->
  let xi := nth i rows [] in let xj := nth j rows [] in
  let mean_i := Rsum xi / INR n in let mean_j := Rsum xj / INR n in
  entry (covR rows ddof) i j
  = Rsum (map (fun ab => (fst ab - mean_i) * (snd ab - mean_j)) (combine xi xj)) / (INR n - ddof).
Proof.
  intros rows n ddof i j HF Hi Hj xi xj mean_i mean_j.
  rewrite (cov_entry_sxy rows n ddof i j HF Hi Hj). unfold sxy, mean.
  fold xi xj. unfold xi at 2, xj at 2.
  rewrite (Forall_nth_len rows n i HF Hi), (Forall_nth_len rows n j HF Hj). reflexivity.
Qed.

(* ---------- V2: symmetry ---------- *)

Theorem cov_sym : forall rows n ddof i j,
  Forall (fun row => length row = n) rows ->
  (i < length rows)%nat -> (j < length rows)%nat ->
  entry (covR rows ddof) i j = entry (covR rows ddof) j i.
Proof.
  intros rows n ddof i j HF Hi Hj.
  rewrite (cov_entry_sxy rows n ddof i j HF Hi Hj), (cov_entry_sxy rows n ddof j i HF Hj Hi).
  now rewrite sxy_comm.
Qed.

(* ---------- V3: non-negative diagonal ---------- *)

Theorem cov_diag_nonneg : forall rows n ddof i,
  Forall (fun row => length row = n) rows -> (i < length rows)%nat ->
  0 < INR n - ddof -> 0 <= entry (covR rows ddof) i i.
Proof.
  intros rows n ddof i HF Hi Hd.
  rewrite (cov_entry_sxy rows n ddof i i HF Hi Hi), sxy_diag.
  apply Rmult_le_pos; [apply ssq_nonneg|]. left; now apply Rinv_0_lt_compat.
Qed.

(* ---------- V4: Cauchy-Schwarz ---------- *)

Lemma quad_sum : forall (a b : list R), length a = length b -> forall t : R,
  Rsum (map (fun ab => (fst ab * t + snd ab) * (fst ab * t + snd ab)) (combine a b))
  = Rsum (map (fun x => x * x) a) * (t * t)
    + 2 * Rsum (map (fun ab => fst ab * snd ab) (combine a b)) * t
    + Rsum (map (fun x => x * x) b).
Proof.
  intros a; induction a as [|u a IHa]; intros b Hl t; destruct b as [|v b]; simpl in *;
    try discriminate; [ring|].
  rewrite (IHa b) by lia. ring.
Qed.

Lemma discriminant : forall A B C : R, 0 <= A ->
  (forall t : R, 0 <= A * (t * t) + 2 * B * t + C) -> B * B <= A * C.
Proof.
  intros A B C HA Hq. destruct (Req_dec A 0) as [HA0|HA0].
  - subst A. destruct (Req_dec B 0) as [HB0|HB0].
    + subst B. lra.
    + exfalso. pose proof (Hq (- (C + 1) / (2 * B))) as H.
      replace (0 * (- (C + 1) / (2 * B) * (- (C + 1) / (2 * B))) + 2 * B * (- (C + 1) / (2 * B)) + C)
        with (-1) in H by (field; assumption). lra.
  - assert (HApos : 0 < A) by lra.
    pose proof (Hq (- B / A)) as H.
    replace (A * (- B / A * (- B / A)) + 2 * B * (- B / A) + C)
      with ((A * C - B * B) / A) in H by (field; assumption).
    assert (H2 : 0 <= (A * C - B * B) / A * A) by (apply Rmult_le_pos; lra).
    replace ((A * C - B * B) / A * A) with (A * C - B * B) in H2 by (field; assumption). lra.
Qed.

Theorem cauchy_schwarz : forall a b : list R, length a = length b ->
  (Rsum (map (fun ab => fst ab * snd ab) (combine a b))) ^ 2
  <= Rsum (map (fun x => x * x) a) * Rsum (map (fun x => x * x) b).
Proof.
  intros a b Hl.
  replace (Rsum (map (fun ab => fst ab * snd ab) (combine a b)) ^ 2)
    with (Rsum (map (fun ab => fst ab * snd ab) (combine a b))
          * Rsum (map (fun ab => fst ab * snd ab) (combine a b))) by ring.
  apply discriminant.
  - apply (Rsum_map_sq_nonneg R (fun x => x)).
  - intros t. rewrite <- (quad_sum a b Hl t).
    apply (Rsum_map_sq_nonneg (R * R) (fun ab => fst ab * t + snd ab)).
Qed.

Lemma sxy_cauchy_schwarz : forall x y, length x = length y -> sxy x y * sxy x y <= ssq x * ssq y.
Proof.
  intros x y Hl.
  pose proof (cauchy_schwarz (denoiseR x) (denoiseR y)) as H.
  rewrite <- !dotR_eq in H. rewrite dotR_denoise in H.
  assert (Hx : Rsum (map (fun v => v * v) (denoiseR x)) = ssq x).
  { rewrite denoiseR_eq, map_map. reflexivity. }
  assert (Hy : Rsum (map (fun v => v * v) (denoiseR y)) = ssq y).
  { rewrite denoiseR_eq, map_map. reflexivity. }
  rewrite Hx, Hy in H.
  replace (sxy x y * sxy x y) with (sxy x y ^ 2) by ring. apply H.
  rewrite !denoiseR_eq, !map_length. exact Hl.
Qed.

(* ---------- V5: pearson ---------- *)

Lemma std0R_eq : forall x, std0R x = sqrt (ssq x / INR (length x)).
Proof.
  intros x. change (std0R x) with (sqrt (dotR (denoiseR x) (denoiseR x) / INR (length x))).
  now rewrite dotR_denoise, sxy_diag.
Qed.

Lemma cov0_diag : forall rows n i,
  Forall (fun row => length row = n) rows -> (i < length rows)%nat ->
  entry (covR rows 0) i i = ssq (nth i rows []) / INR n.
Proof.
  intros rows n i HF Hi. rewrite (cov_entry_sxy rows n 0 i i HF Hi Hi), sxy_diag.
  now rewrite Rminus_0_r.
Qed.

Theorem pearson_entry : forall rows n i j,
  Forall (fun row => length row = n) rows ->
  (i < length rows)%nat -> (j < length rows)%nat ->
  entry (pearsonR rows) i j
  = entry (covR rows 0) i j
    / (sqrt (entry (covR rows 0) i i) * sqrt (entry (covR rows 0) j j)).
Proof.
  intros rows n i j HF Hi Hj.
  rewrite (cov0_diag rows n i HF Hi), (cov0_diag rows n j HF Hj).
  rewrite <- (Forall_nth_len rows n i HF Hi) at 1.
  rewrite <- (Forall_nth_len rows n j HF Hj) at 1.
  rewrite <- !std0R_eq.
  unfold entry at 1. unfold pearsonR, pearson. fold std0R.
  change (cov R_ops Rsum rows (o_zero R_ops)) with (covR rows 0).
  assert (Hlen : length (covR rows 0) = length (map std0R rows))
    by now rewrite covR_length, map_length.
  rewrite (nth_map_lt _ _ _ _ i ([], 0) [])
    by (rewrite combine_length, <- Hlen, Nat.min_id, covR_length; assumption).
  rewrite (combine_nth _ _ i [] 0 Hlen). cbn [fst snd].
  assert (Hlen' : length (nth i (covR rows 0) []) = length (map std0R rows))
    by now rewrite covR_row_length, map_length.
  rewrite (nth_map_lt _ _ _ _ j (0, 0) 0)
    by (rewrite combine_length, <- Hlen', Nat.min_id, covR_row_length; assumption).
  rewrite (combine_nth _ _ j 0 0 Hlen'). cbn [fst snd].
  rewrite (nth_map_lt _ _ _ _ i [] 0) by assumption.
  rewrite (nth_map_lt _ _ _ _ j [] 0) by assumption.
  reflexivity.
Qed.

Theorem pearson_diag : forall rows n i,
  Forall (fun row => length row = n) rows -> (i < length rows)%nat ->
  0 < entry (covR rows 0) i i -> entry (pearsonR rows) i i = 1.
Proof.
  intros rows n i HF Hi Hpos. rewrite (pearson_entry rows n i i HF Hi Hi).
  rewrite sqrt_sqrt by lra. field. lra.
Qed.

Lemma cov0_cauchy_schwarz : forall rows n i j,
  Forall (fun row => length row = n) rows ->
  (i < length rows)%nat -> (j < length rows)%nat ->
  entry (covR rows 0) i j * entry (covR rows 0) i j
  <= entry (covR rows 0) i i * entry (covR rows 0) j j.
Proof.
  intros rows n i j HF Hi Hj.
  rewrite (cov0_diag rows n i HF Hi), (cov0_diag rows n j HF Hj).
  rewrite (cov_entry_sxy rows n 0 i j HF Hi Hj), Rminus_0_r.
  assert (Hl : length (nth i rows []) = length (nth j rows []))
    by now rewrite (Forall_nth_len rows n i HF Hi), (Forall_nth_len rows n j HF Hj).
  pose proof (sxy_cauchy_schwarz _ _ Hl) as Hcs.
  set (S := sxy (nth i rows []) (nth j rows [])) in *.
  set (Si := ssq (nth i rows [])) in *. set (Sj := ssq (nth j rows [])) in *.
  replace (S / INR n * (S / INR n)) with (S * S * (/ INR n * / INR n)) by (unfold Rdiv; ring).
  replace (Si / INR n * (Sj / INR n)) with (Si * Sj * (/ INR n * / INR n)) by (unfold Rdiv; ring).
  apply Rmult_le_compat_r; [|exact Hcs].
  pose proof (Rle_0_sqr (/ INR n)) as Hsq. unfold Rsqr in Hsq. exact Hsq.
Qed.

Theorem pearson_range : forall rows n i j,
  Forall (fun row => length row = n) rows ->
  (i < length rows)%nat -> (j < length rows)%nat ->
  0 < entry (covR rows 0) i i -> 0 < entry (covR rows 0) j j ->
  -1 <= entry (pearsonR rows) i j <= 1.
Proof.
  intros rows n i j HF Hi Hj Hvi Hvj.
  rewrite (pearson_entry rows n i j HF Hi Hj).
  pose proof (cov0_cauchy_schwarz rows n i j HF Hi Hj) as Hcs.
  set (c := entry (covR rows 0) i j) in *.
  set (vi := entry (covR rows 0) i i) in *. set (vj := entry (covR rows 0) j j) in *.
  pose proof (sqrt_lt_R0 vi Hvi) as Hsi. pose proof (sqrt_lt_R0 vj Hvj) as Hsj.
  assert (Hs : 0 < sqrt vi * sqrt vj) by now apply Rmult_lt_0_compat.
  assert (Hs2 : (sqrt vi * sqrt vj) * (sqrt vi * sqrt vj) = vi * vj).
  { replace (sqrt vi * sqrt vj * (sqrt vi * sqrt vj))
      with ((sqrt vi * sqrt vi) * (sqrt vj * sqrt vj)) by ring.
    now rewrite !sqrt_sqrt by lra. }
  set (s := sqrt vi * sqrt vj) in *.
  assert (Hb : - s <= c <= s) by (split; nra).
  split.
  - apply Rmult_le_reg_r with s; [exact Hs|].
    replace (c / s * s) with c by (field; lra). lra.
  - apply Rmult_le_reg_r with s; [exact Hs|].
    replace (c / s * s) with c by (field; lra). lra.
Qed.

(* ---------- the 1/m normalisation cancels in the correlation ---------- *)

Lemma norm_cancel : forall S S1 S2 m : R, 0 < m ->
  (S / m) / (sqrt (S1 / m) * sqrt (S2 / m)) = S / (sqrt S1 * sqrt S2).
Proof.
  intros S S1 S2 m Hm.
  rewrite !sqrt_div_alt by assumption.
  pose proof (sqrt_lt_R0 m Hm) as Hsm.
  pose proof (sqrt_sqrt m (Rlt_le _ _ Hm)) as Hmm.
  unfold Rdiv. rewrite !Rinv_mult, !Rinv_inv.
  replace (S * / m * (/ sqrt S1 * sqrt m * (/ sqrt S2 * sqrt m)))
    with (S * (/ sqrt S1 * / sqrt S2) * (/ m * (sqrt m * sqrt m))) by ring.
  rewrite Hmm. rewrite Rinv_l by lra. ring.
Qed.

Theorem pearson_entry_r : forall rows n i j,
  Forall (fun row => length row = n) rows -> (1 <= n)%nat ->
  (i < length rows)%nat -> (j < length rows)%nat ->
  entry (pearsonR rows) i j = r (nth i rows []) (nth j rows []).
Proof.
  intros rows n i j HF Hn Hi Hj.
  rewrite (pearson_entry rows n i j HF Hi Hj).
  rewrite (cov0_diag rows n i HF Hi), (cov0_diag rows n j HF Hj).
  rewrite (cov_entry_sxy rows n 0 i j HF Hi Hj), Rminus_0_r.
  unfold r. apply norm_cancel. apply lt_0_INR. lia.
Qed.

(* ---------- V7: ddof cancels ---------- *)

Theorem cov_ddof_cancels : forall rows n ddof i j,
  Forall (fun row => length row = n) rows -> (1 <= n)%nat ->
  (i < length rows)%nat -> (j < length rows)%nat ->
  0 < INR n - ddof ->
  entry (covR rows ddof) i j
    / (sqrt (entry (covR rows ddof) i i) * sqrt (entry (covR rows ddof) j j))
  = entry (covR rows 0) i j
    / (sqrt (entry (covR rows 0) i i) * sqrt (entry (covR rows 0) j j)).
Proof.
  intros rows n ddof i j HF Hn Hi Hj Hd.
  rewrite !(cov_entry_sxy rows n ddof _ _ HF) by assumption.
  rewrite !(cov_entry_sxy rows n 0 _ _ HF) by assumption.
  rewrite !sxy_diag.
  rewrite norm_cancel by assumption.
  rewrite norm_cancel; [reflexivity|]. rewrite Rminus_0_r. apply lt_0_INR. lia.
Qed.

(* ---------- V6: invariances of the coefficient ---------- *)

Lemma mean_affine : forall a b x, x <> [] ->
  mean (map (fun v => a * v + b) x) = a * mean x + b.
Proof.
  intros a b x Hne. unfold mean. rewrite map_length, Rsum_affine.
  assert (Hn : INR (length x) <> 0).
  { apply not_0_INR. destruct x; simpl; [congruence|lia]. }
  field. exact Hn.
Qed.

Lemma mean_opp : forall x, mean (map Ropp x) = - mean x.
Proof. intros x. unfold mean. rewrite map_length, Rsum_opp. unfold Rdiv. ring. Qed.

Lemma sxy_map_l : forall (f : R -> R) (c : R) x y,
  (forall v, f v - mean (map f x) = c * (v - mean x)) ->
  sxy (map f x) y = c * sxy x y.
Proof.
  intros f c x y Hf. unfold sxy.
  replace (combine (map f x) y) with (combine (map f x) (map (fun v => v) y)) by now rewrite map_id.
  rewrite combine_map_map, map_map. cbn [fst snd].
  rewrite <- Rsum_map_scal. apply Rsum_map_ext. intros [u v]. cbn [fst snd].
  rewrite Hf. ring.
Qed.

Lemma ssq_map : forall (f : R -> R) (c : R) x,
  (forall v, f v - mean (map f x) = c * (v - mean x)) ->
  ssq (map f x) = c * c * ssq x.
Proof.
  intros f c x Hf. unfold ssq. rewrite map_map.
  rewrite <- Rsum_map_scal. apply Rsum_map_ext. intros v. rewrite Hf. ring.
Qed.

Theorem r_affine : forall a b x y, 0 < a -> r (map (fun v => a * v + b) x) y = r x y.
Proof.
  intros a b x y Ha. destruct x as [|x0 x]; [reflexivity|].
  set (xs := x0 :: x).
  assert (Hdev : forall v, a * v + b - mean (map (fun v => a * v + b) xs) = a * (v - mean xs)).
  { intros v. rewrite mean_affine by (unfold xs; congruence). ring. }
  unfold r.
  rewrite (sxy_map_l (fun v => a * v + b) a xs y Hdev).
  rewrite (ssq_map (fun v => a * v + b) a xs Hdev).
  rewrite sqrt_mult_alt by nra. rewrite sqrt_square by lra.
  unfold Rdiv. rewrite !Rinv_mult.
  replace (a * sxy xs y * (/ a * / sqrt (ssq xs) * / sqrt (ssq y)))
    with ((a * / a) * (sxy xs y * (/ sqrt (ssq xs) * / sqrt (ssq y)))) by ring.
  rewrite Rinv_r by lra. ring.
Qed.

Theorem r_neg : forall x y, r (map Ropp x) y = - r x y.
Proof.
  intros x y.
  assert (Hdev : forall v, - v - mean (map Ropp x) = -1 * (v - mean x)).
  { intros v. rewrite mean_opp. ring. }
  unfold r.
  rewrite (sxy_map_l Ropp (-1) x y Hdev).
  rewrite (ssq_map Ropp (-1) x Hdev).
  replace (-1 * -1 * ssq x) with (ssq x) by ring.
  unfold Rdiv. ring.
Qed.

(* a negative affine map flips the sign *)
Corollary r_affine_neg : forall a b x y, a < 0 -> r (map (fun v => a * v + b) x) y = - r x y.
Proof.
  intros a b x y Ha.
  replace (map (fun v => a * v + b) x) with (map Ropp (map (fun v => (- a) * v + (- b)) x)).
  - rewrite r_neg, r_affine by lra. reflexivity.
  - rewrite map_map. apply map_ext. intros v. ring.
Qed.

Print Assumptions covR_length.
Print Assumptions covR_row_length.
Print Assumptions cov_entry.
Print Assumptions cov_sym.
Print Assumptions cov_diag_nonneg.
Print Assumptions cauchy_schwarz.
Print Assumptions pearson_entry.
Print Assumptions pearson_diag.
Print Assumptions pearson_range.
Print Assumptions pearson_entry_r.
Print Assumptions r_affine.
Print Assumptions r_neg.
Print Assumptions r_affine_neg.
Print Assumptions cov_ddof_cancels.
