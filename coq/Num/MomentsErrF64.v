(* Forward error in IEEE-754 binary64 of the first stages of the central-moment scheme of
   means.rs (Num/Kernels.v: mean, the shift x_i - mean, moments):

     m      = fl(mean)                 |m - xbar| <= mdelta                          (mean_delta)
     d_i    = fl(x_i - m)              d_i = (x_i - m)(1 + e_i), |e_i| <= u64         (shift_elem)
     r_k    = fl((sum_i powi d_i k)/n) |r_k - rho_k| <= g64(n+k+14) alpha_k + (k(1+g64(n+k+14))+1) eta64
                                                                                      (raw_moment_error)
   where rho_k = (1/n) sum d_i^k, alpha_k = (1/n) sum |d_i|^k are the exact raw moments of the
   COMPUTED shifted data, and their comparison with the exact central moments of the data
   (shifted_moment_vs_central):  with  a_i = |x_i - xbar| + mdelta,  A_k = (1/n) sum a_i^k,

     |rho_k - mu_k| <= g64 k * A_k + k * mdelta * A_(k-1)       alpha_k <= (1 + g64 k) A_k
     |rho_1|        <= mdelta + u64 * A_1.

   The term  k * mdelta * A_(k-1)  is the conditioning term of the error of the mean. *)
From Flocq Require Import Core BinarySingleNaN Plus_error Relative.
Require Import Reals Lra Lia ZArith Psatz Bool List Arith Permutation.
From NS Require Import Num.F64 Num.Ops Num.F64Inst Num.Kernels Num.SumBridge Num.SumF64
  Quantile.IndexProofs Quantile.InterpF64 Num.DeviationF64 Num.MeansF64 Num.CovF64 Num.PowiF64.
Import ListNotations.
Open Scope R_scope.

Local Instance prec64_gt_0Mo : Prec_gt_0 53 := Hprec64.
Local Instance vexp64Mo : Valid_exp (SpecFloat.fexp 53 1024) := fexp_correct 53 1024 Hprec64.

(* ------------------------------------------------------------------ *)
(* 0. Real-number lemmas                                                *)
(* ------------------------------------------------------------------ *)
Lemma pow_diff_abs (t h : R) p :
  Rabs ((t + h) ^ p - t ^ p) <= (Rabs t + Rabs h) ^ p - Rabs t ^ p.
Proof.
  induction p as [|p IH].
  - simpl. rewrite Rminus_diag_eq, Rabs_R0 by reflexivity. lra.
  - cbn [pow].
    replace ((t + h) * (t + h) ^ p - t * t ^ p) with ((t + h) * ((t + h) ^ p - t ^ p) + h * t ^ p) by ring.
    eapply Rle_trans; [apply Rabs_triang|]. rewrite !Rabs_mult, <- (RPow_abs t p).
    pose proof (Rabs_triang t h) as T.
    set (a := Rabs t) in *. set (b := Rabs h) in *. set (D := Rabs ((t + h) ^ p - t ^ p)) in *.
    assert (a0 : 0 <= a) by apply Rabs_pos. assert (b0 : 0 <= b) by apply Rabs_pos.
    assert (D0 : 0 <= D) by apply Rabs_pos.
    assert (Q : Rabs (t + h) * D <= (a + b) * ((a + b) ^ p - a ^ p)).
    { apply Rmult_le_compat; try apply Rabs_pos; assumption. }
    lra.
Qed.

Lemma pow_diff_le (s d : R) p : 0 <= s -> 0 <= d ->
  (s + d) ^ p - s ^ p <= INR p * d * (s + d) ^ (p - 1).
Proof.
  intros Hs Hd. induction p as [|p IH].
  - simpl. lra.
  - replace (S p - 1)%nat with p by lia. rewrite S_INR. cbn [pow].
    assert (M : s ^ p <= (s + d) ^ p) by (apply pow_incr; lra).
    assert (P0 : 0 <= (s + d) ^ p) by (apply pow_le; lra).
    destruct p as [|q].
    + simpl in *. lra.
    + replace (S q - 1)%nat with q in IH by lia.
      assert (Q : (s + d) * ((s + d) ^ S q - s ^ S q) <= (s + d) * (INR (S q) * d * (s + d) ^ q)).
      { apply Rmult_le_compat_l; [lra|exact IH]. }
      assert (Q2 : d * s ^ S q <= d * (s + d) ^ S q) by (apply Rmult_le_compat_l; assumption).
      cbn [pow] in *. lra.
Qed.

Lemma div_round_error_abs (s S A G T N : R) : 0 < N -> 0 <= G -> 0 <= T -> Rabs S <= A ->
  Rabs (s - S) <= G * A + T ->
  Rabs (rnd (s / N) - S / N) <= (G * (1 + u64) + u64) * A / N + T * (1 + u64) / N + eta64.
Proof.
  intros HN HG HT HS HB.
  destruct (rnd_model (s / N)) as (e & e' & He & He' & E). rewrite E.
  pose proof u64_pos as Hu.
  assert (HA : 0 <= A) by (pose proof (Rabs_pos S); lra).
  replace (s / N * (1 + e) + e' - S / N) with (((s - S) * (1 + e) + S * e) * / N + e') by (field; lra).
  eapply Rle_trans; [apply Rabs_triang|]. apply Rplus_le_compat; [|exact He'].
  assert (iN : 0 < / N) by (apply Rinv_0_lt_compat; exact HN).
  rewrite Rabs_mult, (Rabs_pos_eq (/ N)) by lra.
  replace ((G * (1 + u64) + u64) * A / N + T * (1 + u64) / N)
    with (((G * A + T) * (1 + u64) + A * u64) * / N) by (field; lra).
  apply Rmult_le_compat_r; [lra|].
  eapply Rle_trans; [apply Rabs_triang|]. rewrite !Rabs_mult.
  assert (B2 : Rabs (1 + e) <= 1 + u64).
  { eapply Rle_trans; [apply Rabs_triang|]. rewrite Rabs_R1. lra. }
  apply Rplus_le_compat; apply Rmult_le_compat; try apply Rabs_pos; assumption.
Qed.

Lemma Rsum_map_le_in {A} (f g : A -> R) l :
  (forall a, In a l -> f a <= g a) -> Rsum (map f l) <= Rsum (map g l).
Proof.
  induction l as [|a l IH]; intros H; cbn [map]; rewrite ?Rsum_cons; [lra|].
  pose proof (H a (or_introl eq_refl)). assert (Rsum (map f l) <= Rsum (map g l)).
  { apply IH. intros b Hb. apply H. right. exact Hb. }
  lra.
Qed.

Lemma Rsum_map_absdiff_in {A} (f g h : A -> R) l :
  (forall a, In a l -> Rabs (f a - g a) <= h a) ->
  Rabs (Rsum (map f l) - Rsum (map g l)) <= Rsum (map h l).
Proof.
  induction l as [|a l IH]; intros H; cbn [map]; rewrite ?Rsum_cons.
  - rewrite Rsum_nil, Rminus_diag_eq, Rabs_R0 by reflexivity. lra.
  - pose proof (H a (or_introl eq_refl)).
    assert (Rabs (Rsum (map f l) - Rsum (map g l)) <= Rsum (map h l)).
    { apply IH. intros b Hb. apply H. right. exact Hb. }
    replace (f a + Rsum (map f l) - (g a + Rsum (map g l)))
      with ((f a - g a) + (Rsum (map f l) - Rsum (map g l))) by ring.
    eapply Rle_trans; [apply Rabs_triang|]. lra.
Qed.

Lemma Rsum_map_minus_const {A} (f : A -> R) (c : R) l :
  Rsum (map (fun a => f a - c) l) = Rsum (map f l) - INR (length l) * c.
Proof.
  induction l as [|a l IH]; cbn [map length]; rewrite ?Rsum_nil, ?Rsum_cons.
  - cbn [INR]. ring.
  - rewrite IH. change (length (a :: l)) with (S (length l)). rewrite S_INR. ring.
Qed.

Lemma Rabs_Rsum_map_le {A} (f : A -> R) l : Rabs (Rsum (map f l)) <= Rsum (map (fun a => Rabs (f a)) l).
Proof. rewrite Rsum_abs_Rasum. apply Rsum_le_Rasum. Qed.

(* ------------------------------------------------------------------ *)
(* 1. The exact quantities                                              *)
(* ------------------------------------------------------------------ *)
(* the bound on the error of the computed mean *)
Definition mdelta (xs : list F64) : R :=
  g64 (length xs + 14) * Rasum (map B2R xs) / INR (length xs) + eta64.
(* a_i = |x_i - xbar| + mdelta *)
Definition sdev (xs : list F64) (x : F64) : R := Rabs (B2R x - meanR xs) + mdelta xs.
(* A_k = (1/n) sum a_i^k *)
Definition Amom (xs : list F64) (k : nat) : R := Rsum (map (fun x => sdev xs x ^ k) xs) / INR (length xs).
(* the exact central moment mu_k = (1/n) sum (x_i - xbar)^k *)
Definition cmu (xs : list F64) (k : nat) : R :=
  Rsum (map (fun x : F64 => (B2R x - meanR xs) ^ k) xs) / INR (length xs).
(* exact raw moments of a list of binary64 numbers, and their absolute version *)
Definition rho (ds : list F64) (k : nat) : R := Rsum (map (fun d : F64 => B2R d ^ k) ds) / INR (length ds).
Definition alpha (ds : list F64) (k : nat) : R := Rsum (map (fun d : F64 => Rabs (B2R d) ^ k) ds) / INR (length ds).

Lemma mdelta_pos xs : 0 < mdelta xs.
Proof.
  unfold mdelta. pose proof eta64_pos. pose proof (g64_nonneg (length xs + 14)).
  pose proof (Rasum_nonneg (map B2R xs)).
  assert (0 <= g64 (length xs + 14) * Rasum (map B2R xs) / INR (length xs)); [|lra].
  unfold Rdiv. apply Rmult_le_pos; [apply Rmult_le_pos; assumption|].
  destruct (length xs) as [|k]; [simpl; rewrite Rinv_0; lra|].
  apply Rlt_le, Rinv_0_lt_compat, lt_0_INR. lia.
Qed.
Lemma sdev_ge_delta xs x : mdelta xs <= sdev xs x.
Proof. unfold sdev. pose proof (Rabs_pos (B2R x - meanR xs)). lra. Qed.
Lemma sdev_pos xs x : 0 < sdev xs x.
Proof. pose proof (sdev_ge_delta xs x). pose proof (mdelta_pos xs). lra. Qed.
Lemma Amom_nonneg xs k : 0 <= Amom xs k.
Proof.
  unfold Amom, Rdiv. apply Rmult_le_pos.
  - apply Rsum_map_nonneg. intros x. apply pow_le, Rlt_le, sdev_pos.
  - destruct (length xs) as [|j]; [simpl; rewrite Rinv_0; lra|].
    apply Rlt_le, Rinv_0_lt_compat, lt_0_INR. lia.
Qed.
Lemma Amom_0 xs : (1 <= length xs)%nat -> Amom xs 0 = 1.
Proof.
  intros Hn. unfold Amom. rewrite (Rsum_map_ext _ (fun _ => 1)) by (intros; reflexivity).
  rewrite Rsum_const. field. apply not_0_INR. lia.
Qed.

(* ------------------------------------------------------------------ *)
(* 2. One shifted element and its powers (real-number level)            *)
(* ------------------------------------------------------------------ *)
Lemma shift_elem (X M mb dl : R) : fmt X -> fmt M -> Rabs (M - mb) <= dl ->
  let d := rnd (X - M) in let t := X - mb in let a := Rabs t + dl in
  (exists e, Rabs e <= u64 /\ d = (X - M) * (1 + e)) /\
  Rabs (d - t) <= dl + u64 * a /\ Rabs (d - (X - M)) <= u64 * a /\ Rabs d <= a * (1 + u64).
Proof.
  intros GX GM HM d t a.
  destruct (rnd_minus_model X M GX GM) as (e & He & E).
  assert (He' : Rabs e <= u64) by (pose proof u64_frac_le; lra).
  pose proof u64_pos as Hu.
  assert (HXM : Rabs (X - M) <= a).
  { unfold a, t. replace (X - M) with ((X - mb) + - (M - mb)) by ring.
    eapply Rle_trans; [apply Rabs_triang|]. rewrite Rabs_Ropp. lra. }
  assert (Q : Rabs ((X - M) * e) <= u64 * a).
  { rewrite Rabs_mult, Rmult_comm. apply Rmult_le_compat; try apply Rabs_pos; assumption. }
  split; [exists e; split; [exact He'|exact E]|].
  unfold d. rewrite E. split; [|split].
  - replace ((X - M) * (1 + e) - t) with (- (M - mb) + (X - M) * e) by (unfold t; ring).
    eapply Rle_trans; [apply Rabs_triang|]. rewrite Rabs_Ropp. lra.
  - replace ((X - M) * (1 + e) - (X - M)) with ((X - M) * e) by ring. exact Q.
  - replace ((X - M) * (1 + e)) with ((X - M) + (X - M) * e) by ring.
    eapply Rle_trans; [apply Rabs_triang|]. lra.
Qed.

Lemma pow_elem (d t dl : R) k : 0 <= dl ->
  let a := Rabs t + dl in
  Rabs (d - t) <= dl + u64 * a ->
  Rabs (d ^ k - t ^ k) <= g64 k * a ^ k + INR k * dl * a ^ (k - 1).
Proof.
  intros Hdl a Hd. pose proof u64_pos as Hu.
  pose proof (pow_diff_abs t (d - t) k) as P. replace (t + (d - t)) with d in P by ring.
  assert (a0 : 0 <= a) by (unfold a; pose proof (Rabs_pos t); lra).
  assert (M : (Rabs t + Rabs (d - t)) ^ k <= (a * (1 + u64)) ^ k).
  { apply pow_incr. split; [pose proof (Rabs_pos t); pose proof (Rabs_pos (d - t)); lra|].
    unfold a in *. lra. }
  rewrite Rpow_mult_distr, <- g64_1p in M.
  pose proof (pow_diff_le (Rabs t) dl k (Rabs_pos t) Hdl) as Q. fold a in Q.
  lra.
Qed.

Lemma pow_abs_elem (d a : R) k : 0 <= a -> Rabs d <= a * (1 + u64) -> Rabs d ^ k <= (1 + g64 k) * a ^ k.
Proof.
  intros Ha Hd. rewrite g64_1p, Rmult_comm, <- Rpow_mult_distr. apply pow_incr.
  split; [apply Rabs_pos|exact Hd].
Qed.

(* ------------------------------------------------------------------ *)
(* 3. The shifted data against the exact central moments                *)
(* ------------------------------------------------------------------ *)
Section Shift.
Variable xs : list F64.
Variable m : F64.
Hypothesis Hn : (1 <= length xs)%nat.
Hypothesis Hm : Rabs (B2R m - meanR xs) <= mdelta xs.
Hypothesis Hfin : Forall (fun x => fin (fsub x m) = true) xs.

Let n := length xs.
Let Nn := INR n.
Let dl := mdelta xs.

Lemma Nn_pos : 0 < Nn. Proof. apply lt_0_INR. exact Hn. Qed.

Lemma dev_length : length (dev xs m) = n. Proof. apply map_length. Qed.

(* the element-wise facts *)
Lemma dev_elem (x : F64) : In x xs ->
  let d := B2R (fsub x m) in let t := B2R x - meanR xs in let a := sdev xs x in
  (exists e, Rabs e <= u64 /\ d = (B2R x - B2R m) * (1 + e)) /\
  Rabs (d - t) <= dl + u64 * a /\ Rabs (d - (B2R x - B2R m)) <= u64 * a /\ Rabs d <= a * (1 + u64).
Proof.
  intros Hx. rewrite Forall_forall in Hfin. specialize (Hfin x Hx).
  cbv zeta. rewrite (fsub_value _ _ Hfin).
  exact (shift_elem (B2R x) (B2R m) (meanR xs) dl (fmt_B2R x) (fmt_B2R m) Hm).
Qed.

(* (2) d_i = (x_i - m)(1 + e_i), |e_i| <= u64: no underflow in a subtraction *)
Theorem shift_relative (x : F64) : In x xs ->
  exists e, Rabs e <= u64 /\ B2R (fsub x m) = (B2R x - B2R m) * (1 + e).
Proof. intros Hx. exact (proj1 (dev_elem x Hx)). Qed.

Lemma rho_dev k : rho (dev xs m) k = Rsum (map (fun x => B2R (fsub x m) ^ k) xs) / Nn.
Proof. unfold rho. rewrite dev_length. unfold dev. rewrite map_map. reflexivity. Qed.
Lemma alpha_dev k : alpha (dev xs m) k = Rsum (map (fun x => Rabs (B2R (fsub x m)) ^ k) xs) / Nn.
Proof. unfold alpha. rewrite dev_length. unfold dev. rewrite map_map. reflexivity. Qed.

(* alpha_k <= (1 + g64 k) A_k *)
Theorem alpha_le_Amom k : alpha (dev xs m) k <= (1 + g64 k) * Amom xs k.
Proof.
  rewrite alpha_dev. unfold Amom. fold n Nn. pose proof Nn_pos as HN.
  unfold Rdiv. rewrite <- Rmult_assoc. apply Rmult_le_compat_r; [apply Rlt_le, Rinv_0_lt_compat; exact HN|].
  rewrite <- Rsum_map_scal. apply Rsum_map_le_in. intros x Hx.
  destruct (dev_elem x Hx) as (_ & _ & _ & H). apply pow_abs_elem; [apply Rlt_le, sdev_pos|exact H].
Qed.

Lemma alpha_nonneg k : 0 <= alpha (dev xs m) k.
Proof.
  rewrite alpha_dev. unfold Rdiv. apply Rmult_le_pos; [|apply Rlt_le, Rinv_0_lt_compat, Nn_pos].
  apply Rsum_map_nonneg. intros x. apply pow_le, Rabs_pos.
Qed.

Lemma rho_le_alpha k : Rabs (rho (dev xs m) k) <= alpha (dev xs m) k.
Proof.
  rewrite rho_dev, alpha_dev. unfold Rdiv. pose proof Nn_pos as HN.
  rewrite Rabs_mult, (Rabs_pos_eq (/ Nn)) by (apply Rlt_le, Rinv_0_lt_compat; exact HN).
  apply Rmult_le_compat_r; [apply Rlt_le, Rinv_0_lt_compat; exact HN|].
  eapply Rle_trans; [apply Rabs_Rsum_map_le|]. apply Req_le. apply Rsum_map_ext.
  intros x. symmetry. apply RPow_abs.
Qed.

(* |rho_k - mu_k| <= g64 k A_k + k mdelta A_(k-1) *)
Theorem shifted_moment_vs_central k :
  Rabs (rho (dev xs m) k - cmu xs k) <= g64 k * Amom xs k + INR k * dl * Amom xs (k - 1).
Proof.
  rewrite rho_dev. unfold cmu, Amom. fold n Nn. pose proof Nn_pos as HN.
  assert (iN : 0 < / Nn) by (apply Rinv_0_lt_compat; exact HN).
  unfold Rdiv. rewrite <- Rmult_minus_distr_r, Rabs_mult, (Rabs_pos_eq (/ Nn)) by lra.
  replace (g64 k * (Rsum (map (fun x => sdev xs x ^ k) xs) * / Nn)
           + INR k * dl * (Rsum (map (fun x => sdev xs x ^ (k - 1)) xs) * / Nn))
    with ((g64 k * Rsum (map (fun x => sdev xs x ^ k) xs)
           + INR k * dl * Rsum (map (fun x => sdev xs x ^ (k - 1)) xs)) * / Nn) by ring.
  apply Rmult_le_compat_r; [lra|].
  rewrite <- !Rsum_map_scal, <- Rsum_map_plus.
  apply Rsum_map_absdiff_in. intros x Hx.
  destruct (dev_elem x Hx) as (_ & H & _ & _).
  apply (pow_elem _ _ dl k); [apply Rlt_le, mdelta_pos|exact H].
Qed.

(* the mean of the shifted data: a rounding residue *)
Theorem shifted_mean_small : Rabs (rho (dev xs m) 1) <= dl + u64 * Amom xs 1.
Proof.
  rewrite rho_dev. unfold Amom. fold n Nn. pose proof Nn_pos as HN.
  assert (iN : 0 < / Nn) by (apply Rinv_0_lt_compat; exact HN).
  rewrite (Rsum_map_ext (fun x => B2R (fsub x m) ^ 1) (fun x => B2R (fsub x m))) by (intros; apply pow_1).
  rewrite (Rsum_map_ext (fun x => sdev xs x ^ 1) (fun x => sdev xs x)) by (intros; apply pow_1).
  pose proof (Rsum_map_absdiff_in (fun x => B2R (fsub x m)) (fun x => B2R x - B2R m)
                (fun x => u64 * sdev xs x) xs) as D.
  rewrite Rsum_map_minus_const, Rsum_map_scal in D. fold n Nn in D.
  assert (D' : Rabs (Rsum (map (fun x : F64 => B2R (fsub x m)) xs) - (Rsum (map B2R xs) - Nn * B2R m))
               <= u64 * Rsum (map (fun x : F64 => sdev xs x) xs)).
  { apply D. intros x Hx.
    exact (proj1 (proj2 (proj2 (dev_elem x Hx)))). }
  clear D.
  assert (EM : Rsum (map B2R xs) - Nn * B2R m = - Nn * (B2R m - meanR xs)).
  { unfold meanR. fold n Nn. field. lra. }
  rewrite EM in D'.
  set (Sd := Rsum (map (fun x : F64 => B2R (fsub x m)) xs)) in *.
  set (Sa := Rsum (map (fun x : F64 => sdev xs x) xs)) in *.
  replace (Sd / Nn) with ((Sd - - Nn * (B2R m - meanR xs)) * / Nn + - (B2R m - meanR xs)) by (field; lra).
  eapply Rle_trans; [apply Rabs_triang|]. rewrite Rabs_Ropp, Rabs_mult, (Rabs_pos_eq (/ Nn)) by lra.
  assert (Q : Rabs (Sd - - Nn * (B2R m - meanR xs)) * / Nn <= u64 * Sa * / Nn).
  { apply Rmult_le_compat_r; [lra|exact D']. }
  unfold Rdiv. fold dl in Hm. lra.
Qed.
End Shift.

(* ------------------------------------------------------------------ *)
(* 4. The computed mean and raw moments                                 *)
(* ------------------------------------------------------------------ *)
Section Mom.
Variables lt et : list (Z * Z).
Let O := f64_ops lt et.

(* (2) the mean *)
Theorem mean_delta pl (xs : list F64) n : plan_ok pl n -> n = length xs -> (1 <= n)%nat ->
  (Z.of_nat n <= 2 ^ 53)%Z -> fin (mean O pl xs) = true ->
  Rabs (B2R (mean O pl xs) - meanR xs) <= mdelta xs.
Proof.
  intros HP En H1 H2 Hf. unfold meanR, mdelta. rewrite <- En.
  exact (mean_error_tight lt et pl xs n HP En H1 H2 Hf).
Qed.

(* the k-th entry of [moments], k >= 2 *)
Definition raw_mom (plm : plan) (ds : list F64) (k : nat) : F64 :=
  fdiv (nd_sum O plm (map (fun d => powi O d k) ds)) (f64_of_Z (Z.of_nat (length ds))).

(* (3) raw moments of order k >= 0 computed through powi *)
Theorem raw_moment_error plm (ds : list F64) n k : plan_ok plm n -> n = length ds -> (1 <= n)%nat ->
  (Z.of_nat n <= 2 ^ 53)%Z -> fin (raw_mom plm ds k) = true ->
  Rabs (B2R (raw_mom plm ds k) - rho ds k)
    <= g64 (n + k + 14) * alpha ds k + (INR k * (1 + g64 (n + k + 14)) + 1) * eta64
  /\ Forall (fun d => fin (powi O d k) = true) ds.
Proof.
  intros HP En H1 H2 Hf. unfold raw_mom in *. rewrite <- En in *.
  destruct (f64_of_Z_exact (Z.of_nat n)) as [_ EN]; [lia|]. rewrite <- INR_IZR_INZ in EN.
  assert (HN : 0 < INR n) by (apply lt_0_INR; lia).
  destruct (fdiv_value _ _ (ltac:(rewrite EN; lra)) Hf) as [Ev Fs]. rewrite Ev, EN.
  assert (HP' : plan_ok plm (length (map (fun d => powi O d k) ds))) by (rewrite map_length, <- En; exact HP).
  split; [|pose proof (nd_sum_finite_args lt et plm _ HP' Fs) as FF; rewrite Forall_map in FF; exact FF].
  assert (HP2 : plan_ok plm (length ds)) by (rewrite <- En; exact HP).
  pose proof (terms_sum_error lt et (fun d => powi O d k) (fun d : F64 => B2R d ^ k)
                (fun _ => INR k * (1 + g64 k) * eta64) (g64 k) plm ds HP2 Fs) as B.
  rewrite Rsum_const, <- En in B.
  assert (HT : Forall (fun a : F64 => fin (powi O a k) = true ->
              Rabs (B2R (powi O a k) - B2R a ^ k) <= g64 k * Rabs (B2R a ^ k) + INR k * (1 + g64 k) * eta64) ds).
  { apply Forall_forall. intros d _ Fd. rewrite <- RPow_abs. exact (powi_error lt et d k Fd). }
  specialize (B HT). clear HT.
  assert (EA : Rasum (map (fun d : F64 => B2R d ^ k) ds) = Rsum (map (fun d : F64 => Rabs (B2R d) ^ k) ds)).
  { rewrite <- Rsum_abs_Rasum. apply Rsum_map_ext. intros d. symmetry. apply RPow_abs. }
  rewrite EA in B.
  unfold rho, alpha. rewrite <- En.
  set (Sx := Rsum (map (fun d : F64 => B2R d ^ k) ds)) in *.
  set (Ax := Rsum (map (fun d : F64 => Rabs (B2R d) ^ k) ds)) in *.
  set (s := B2R (nd_sum O plm (map (fun d => powi O d k) ds))) in *.
  assert (HSA : Rabs Sx <= Ax).
  { rewrite <- EA. unfold Sx. apply Rsum_le_Rasum. }
  assert (G1 : (1 + g64 k) * (1 + g64 (n + 13)) - 1 = g64 (n + k + 13)).
  { rewrite g64_add. replace (k + (n + 13))%nat with (n + k + 13)%nat by lia. ring. }
  rewrite G1 in B.
  assert (T0 : 0 <= INR n * (INR k * (1 + g64 k) * eta64)).
  { pose proof eta64_pos. pose proof (g64_nonneg k). pose proof (pos_INR k).
    apply Rmult_le_pos; [lra|]. apply Rmult_le_pos; [apply Rmult_le_pos|]; lra. }
  assert (T1 : 0 <= (1 + g64 (n + 13)) * (INR n * (INR k * (1 + g64 k) * eta64))).
  { pose proof (g64_nonneg (n + 13)). apply Rmult_le_pos; lra. }
  pose proof (div_round_error_abs s Sx Ax (g64 (n + k + 13)) _ (INR n) HN (g64_nonneg _) T1 HSA B) as D.
  eapply Rle_trans; [exact D|].
  replace (n + k + 14)%nat with (S (n + k + 13)) by lia. rewrite g64_S.
  assert (E2 : (1 + g64 (n + 13)) * (INR n * (INR k * (1 + g64 k) * eta64)) * (1 + u64) / INR n
               = INR k * ((1 + g64 k) * (1 + g64 (n + 13)) * (1 + u64)) * eta64) by (field; lra).
  rewrite E2. rewrite g64_add, <- g64_S'. replace (S (k + (n + 13))) with (S (n + k + 13)) by lia.
  rewrite g64_S. unfold Rdiv. lra.
Qed.

(* the first raw moment is computed without powi *)
Theorem raw_moment1_error pl1 (ds : list F64) n : plan_ok pl1 n -> n = length ds -> (1 <= n)%nat ->
  (Z.of_nat n <= 2 ^ 53)%Z -> fin (mean O pl1 ds) = true ->
  Rabs (B2R (mean O pl1 ds) - rho ds 1)
    <= g64 (n + 1 + 14) * alpha ds 1 + (INR 1 * (1 + g64 (n + 1 + 14)) + 1) * eta64
  /\ Forall (fun d => fin d = true) ds.
Proof.
  intros HP En H1 H2 Hf.
  pose proof (mean_error_tight lt et pl1 ds n HP En H1 H2 Hf) as B. fold O in B.
  assert (HN : 0 < INR n) by (apply lt_0_INR; lia).
  split.
  - unfold rho, alpha. rewrite <- En.
    rewrite (Rsum_map_ext (fun d : F64 => B2R d ^ 1) (fun d : F64 => B2R d)) by (intros; apply pow_1).
    rewrite (Rsum_map_ext (fun d : F64 => Rabs (B2R d) ^ 1) (fun d : F64 => Rabs (B2R d))) by (intros; apply pow_1).
    rewrite Rsum_abs_Rasum.
    eapply Rle_trans; [exact B|].
    pose proof (g64_mono (n + 14) (n + 1 + 14) ltac:(lia)) as Gm.
    pose proof (g64_nonneg (n + 1 + 14)) as G0. pose proof eta64_pos as He.
    pose proof (Rasum_nonneg (map B2R ds)) as A0.
    assert (iN : 0 < / INR n) by (apply Rinv_0_lt_compat; exact HN).
    assert (Q : g64 (n + 14) * Rasum (map B2R ds) / INR n <= g64 (n + 1 + 14) * (Rasum (map B2R ds) / INR n)).
    { unfold Rdiv. rewrite Rmult_assoc. apply Rmult_le_compat_r; [|exact Gm].
      apply Rmult_le_pos; lra. }
    assert (0 <= g64 (n + 1 + 14) * eta64) by (apply Rmult_le_pos; lra). simpl INR.
    apply Rplus_le_compat; [exact Q|lra].
  - change (fin (fdiv (nd_sum O pl1 ds) (f64_of_Z (Z.of_nat (length ds)))) = true) in Hf.
    destruct (f64_of_Z_exact (Z.of_nat (length ds))) as [_ EN]; [lia|].
    destruct (fdiv_value _ _ (ltac:(rewrite EN; apply not_0_IZR; lia)) Hf) as [_ Fs].
    apply (nd_sum_finite_args lt et pl1 ds); [rewrite <- En; exact HP|exact Fs].
Qed.
End Mom.

Print Assumptions shifted_moment_vs_central.
Print Assumptions shifted_mean_small.
Print Assumptions raw_moment_error.
