(* The deviation kernels of Num/Kernels.v (sq_l2_dist, l1_dist, linf_dist) instantiated at
   IEEE-754 binary64 (Num/F64Inst.v): non-negativity, zero on identical arguments,
   bit-for-bit symmetry, the characterisation of linf_dist as a rounded maximum, and
   rounding-error bounds for sq_l2_dist and l1_dist. *)
From Flocq Require Import Core BinarySingleNaN Plus_error Relative.
Require Import Reals Lra Lia ZArith Psatz Bool List.
From NS Require Import Num.F64 Num.Ops Num.F64Inst Num.Kernels Num.SumBridge Num.SumF64
  Quantile.IndexProofs Quantile.InterpF64.
Import ListNotations.
Open Scope R_scope.

Local Instance prec64_gt_0D : Prec_gt_0 53 := Hprec64.
Local Instance vexp64D : Valid_exp (SpecFloat.fexp 53 1024) := fexp_correct 53 1024 Hprec64.

(* ------------------------------------------------------------------ *)
(* 0. binary64 facts                                                   *)
(* ------------------------------------------------------------------ *)
Definition pinf : F64 := B754_infinity false.

Lemma overflow_NE_inf (d : F64) s : B2SF d = binary_overflow 53 1024 mode_NE s -> d = B754_infinity s.
Proof.
  intros E. apply B2SF_inj. rewrite E. reflexivity.
Qed.

Lemma finite_pos_zero (z : F64) : fin z = true -> B2R z = 0 -> Bsign z = false -> z = fzero.
Proof.
  intros Fz Rz Sz. apply B2R_Bsign_inj; [exact Fz|reflexivity|rewrite Rz; reflexivity|rewrite Sz; reflexivity].
Qed.

Lemma rnd_opp (x : R) : rnd (- x) = - rnd x.
Proof. apply round_NE_opp. Qed.
Lemma rnd_abs (x : R) : rnd (Rabs x) = Rabs (rnd x).
Proof. apply round_NE_abs. auto with typeclass_instances. Qed.

(* x - x = +0 *)
Lemma fsub_diag (x : F64) : fin x = true -> fsub x x = fzero.
Proof.
  intros Fx.
  pose proof (Bminus_correct 53 1024 Hprec64 Hmax64 mode_NE x x Fx Fx) as C.
  fold (fsub x x) in C. cbn [round_mode] in C.
  rewrite Rminus_diag_eq in C by reflexivity. rewrite rnd_0, Rabs_R0 in C.
  rewrite Rlt_bool_true in C by apply bpow_gt_0.
  destruct C as (C1 & C2 & C3). rewrite Rcompare_Eq in C3 by reflexivity.
  apply finite_pos_zero; [exact C2|exact C1|]. rewrite C3. destruct (Bsign x); reflexivity.
Qed.

(* y - x is the negation of x - y, except that both are +0 when x and y are equal zeros or
   equal finite numbers of the same sign *)
Lemma fsub_swap (x y : F64) : fin x = true -> fin y = true ->
  fsub y x = fneg (fsub x y) \/ (fsub x y = fzero /\ fsub y x = fzero).
Proof.
  intros Fx Fy.
  pose proof (Bminus_correct 53 1024 Hprec64 Hmax64 mode_NE x y Fx Fy) as C.
  pose proof (Bminus_correct 53 1024 Hprec64 Hmax64 mode_NE y x Fy Fx) as C'.
  fold (fsub x y) in C. fold (fsub y x) in C'. cbn [round_mode] in C, C'.
  replace (B2R y - B2R x) with (- (B2R x - B2R y)) in C' by ring.
  rewrite rnd_opp, Rabs_Ropp in C'.
  set (r := B2R x - B2R y) in *.
  destruct (Rlt_bool (Rabs (rnd r)) (bpow radix2 1024)).
  - destruct C as (C1 & C2 & C3). destruct C' as (C1' & C2' & C3').
    destruct (Rcompare_spec r 0) as [Hr|Hr|Hr].
    + left. rewrite Rcompare_Gt in C3' by lra.
      apply B2R_Bsign_inj; [exact C2'|unfold fneg; rewrite is_finite_Bopp; exact C2| |].
      * unfold fneg. rewrite B2R_Bopp, C1', C1. reflexivity.
      * unfold fneg. rewrite Bsign_Bopp, C3, C3'; [reflexivity|].
        destruct (fsub x y); try reflexivity; discriminate C2.
    + rewrite Hr, Ropp_0, Rcompare_Eq in C3' by reflexivity. rewrite Hr in C1, C1'.
      rewrite rnd_0 in C1, C1'. rewrite Ropp_0 in C1'.
      destruct (Bsign x) eqn:Sx, (Bsign y) eqn:Sy; cbn [andb negb] in C3, C3'.
      * right. split; apply finite_pos_zero; assumption.
      * left. apply B2R_Bsign_inj; [exact C2'|unfold fneg; rewrite is_finite_Bopp; exact C2| |].
        -- unfold fneg. rewrite B2R_Bopp, C1', C1. lra.
        -- unfold fneg. rewrite Bsign_Bopp, C3, C3'; [reflexivity|].
           destruct (fsub x y); try reflexivity; discriminate C2.
      * left. apply B2R_Bsign_inj; [exact C2'|unfold fneg; rewrite is_finite_Bopp; exact C2| |].
        -- unfold fneg. rewrite B2R_Bopp, C1', C1. lra.
        -- unfold fneg. rewrite Bsign_Bopp, C3, C3'; [reflexivity|].
           destruct (fsub x y); try reflexivity; discriminate C2.
      * right. split; apply finite_pos_zero; assumption.
    + left. rewrite Rcompare_Lt in C3' by lra.
      apply B2R_Bsign_inj; [exact C2'|unfold fneg; rewrite is_finite_Bopp; exact C2| |].
      * unfold fneg. rewrite B2R_Bopp, C1', C1. reflexivity.
      * unfold fneg. rewrite Bsign_Bopp, C3, C3'; [reflexivity|].
        destruct (fsub x y); try reflexivity; discriminate C2.
  - left. destruct C as (C1 & C2). destruct C' as (C1' & C2').
    apply overflow_NE_inf in C1. apply overflow_NE_inf in C1'.
    rewrite C1, C1', C2. unfold fneg. cbn [Bopp]. rewrite negb_involutive. reflexivity.
Qed.

Lemma fabs_fneg (d : F64) : fabs (fneg d) = fabs d.
Proof. destruct d as [s|s| |s m e H]; reflexivity. Qed.

(* (-d) * (-d) = d * d, bit for bit *)
Lemma fmul_sq_fneg (d : F64) : fmul (fneg d) (fneg d) = fmul d d.
Proof.
  destruct d as [s|s| |s m e H]; try (destruct s; reflexivity); try reflexivity.
  set (d := B754_finite s m e H). set (nd := fneg d).
  assert (Rn : B2R nd = - B2R d) by apply B2R_Bopp.
  assert (Fn : fin nd = fin d) by apply is_finite_Bopp.
  pose proof (Bmult_correct 53 1024 Hprec64 Hmax64 mode_NE d d) as C.
  pose proof (Bmult_correct 53 1024 Hprec64 Hmax64 mode_NE nd nd) as C'.
  fold (fmul d d) in C. fold (fmul nd nd) in C'. cbn [round_mode] in C, C'.
  rewrite Rn, Fn in C'.
  replace (- B2R d * - B2R d) with (B2R d * B2R d) in C' by ring.
  rewrite xorb_nilpotent in C, C'.
  destruct (Rlt_bool (Rabs (rnd (B2R d * B2R d))) (bpow radix2 1024)).
  - destruct C as (C1 & C2 & C3). destruct C' as (C1' & C2' & C3').
    assert (F : fin (fmul d d) = true) by (rewrite C2; reflexivity).
    assert (F' : fin (fmul nd nd) = true) by (rewrite C2'; reflexivity).
    apply B2R_Bsign_inj; [exact F'|exact F|rewrite C1, C1'; reflexivity|].
    rewrite C3, C3'; [reflexivity| |].
    + destruct (fmul nd nd); try reflexivity; discriminate F'.
    + destruct (fmul d d); try reflexivity; discriminate F.
  - apply B2SF_inj. rewrite C, C'. reflexivity.
Qed.

(* finiteness propagates backwards through the three operations *)
Lemma fsub_finite_args (x y : F64) : fin (fsub x y) = true -> fin x = true /\ fin y = true.
Proof.
  unfold fsub.
  destruct x as [sx|sx| |sx mx ex Hx], y as [sy|sy| |sy my ey Hy]; cbn [Bminus is_finite];
    auto; try discriminate;
    try (destruct (Bool.eqb sx (negb sy)); cbn [is_finite]; auto; discriminate).
Qed.

Lemma fmul_finite_args (x y : F64) : fin (fmul x y) = true -> fin x = true /\ fin y = true.
Proof.
  intros Hf. pose proof (Bmult_correct 53 1024 Hprec64 Hmax64 mode_NE x y) as C.
  fold (fmul x y) in C. destruct (Rlt_bool _ _) in C.
  - destruct C as (_ & C2 & _). rewrite Hf in C2. symmetry in C2. apply andb_true_iff in C2. exact C2.
  - apply not_fin_overflow in C. rewrite C in Hf. discriminate Hf.
Qed.

Lemma fadd_finite_args (x y : F64) : fin (fadd x y) = true -> fin x = true /\ fin y = true.
Proof. intros Hf. exact (Bplus_finite_inv 53 1024 Hprec64 Hmax64 _ _ Hf). Qed.

Lemma fsub_value (x y : F64) : fin (fsub x y) = true -> B2R (fsub x y) = rnd (B2R x - B2R y).
Proof.
  intros Hf. destruct (fsub_finite_args x y Hf) as [Fx Fy].
  apply (fsub_correct x y Fx Fy). apply (fsub_finite_inv x y Fx Fy Hf).
Qed.

Lemma fadd_value (x y : F64) : fin (fadd x y) = true -> B2R (fadd x y) = rnd (B2R x + B2R y).
Proof.
  intros Hf. destruct (fadd_finite_args x y Hf) as [Fx Fy].
  apply (fadd_correct x y Fx Fy). apply (fadd_finite_inv x y Fx Fy Hf).
Qed.

Lemma fmul_value (x y : F64) : fin (fmul x y) = true -> B2R (fmul x y) = rnd (B2R x * B2R y).
Proof. intros Hf. exact (fmul_round x y Hf). Qed.

(* finite - finite is finite or an infinity, never NaN *)
Lemma fsub_fin_or_inf (x y : F64) : fin x = true -> fin y = true ->
  fin (fsub x y) = true \/ exists s, fsub x y = B754_infinity s.
Proof.
  intros Fx Fy.
  pose proof (Bminus_correct 53 1024 Hprec64 Hmax64 mode_NE x y Fx Fy) as C.
  fold (fsub x y) in C. destruct (Rlt_bool _ _) in C.
  - left. destruct C as (_ & C2 & _). exact C2.
  - right. destruct C as (C1 & _). apply overflow_NE_inf in C1. eexists. exact C1.
Qed.

Lemma flt_spec (a b : F64) : fin a = true -> fin b = true -> (flt a b = true <-> B2R a < B2R b).
Proof.
  intros Fa Fb. unfold flt, fcmp.
  rewrite (Bcompare_correct 53 1024 a b Fa Fb).
  destruct (Rcompare_spec (B2R a) (B2R b)) as [H | H | H]; split; intros H'; try reflexivity; try lra; discriminate.
Qed.

Lemma flt_pinf_l (d : F64) : flt pinf d = false.
Proof. destruct d as [s|[|]| |s m e H]; reflexivity. Qed.

Lemma flt_fin_pinf (m : F64) : fin m = true -> flt m pinf = true.
Proof. intros Fm. destruct m as [s|s| |s m e H]; try discriminate Fm; reflexivity. Qed.

Lemma flt_nan_r (m : F64) : flt m B754_nan = false.
Proof. destruct m as [s|s| |s m e H]; reflexivity. Qed.

(* ------------------------------------------------------------------ *)
(* 1. The three kernels as folds over the list of pairs read           *)
(* ------------------------------------------------------------------ *)
Definition dsub (ab : F64 * F64) : F64 := fsub (fst ab) (snd ab).
Definition tsq (ab : F64 * F64) : F64 := fmul (dsub ab) (dsub ab).
Definition tabs (ab : F64 * F64) : F64 := fabs (dsub ab).
Definition maxstep (mx d : F64) : F64 := if flt mx d then d else mx.
Definition swap (ab : F64 * F64) : F64 * F64 := (snd ab, fst ab).

Definition sq_l2_pairs (l : list (F64 * F64)) : F64 := fold_left fadd (map tsq l) fzero.
Definition l1_pairs (l : list (F64 * F64)) : F64 := fold_left fadd (map tabs l) fzero.
Definition linf_pairs (l : list (F64 * F64)) : F64 := fold_left maxstep (map tabs l) fzero.

(* the exact quantities *)
Definition rdiff (ab : F64 * F64) : R := B2R (fst ab) - B2R (snd ab).
Definition rsq (ab : F64 * F64) : R := rdiff ab * rdiff ab.
Definition rabsd (ab : F64 * F64) : R := Rabs (rdiff ab).
Definition Rmaxl (xs : list R) : R := fold_left Rmax xs 0.

Definition pair_fin (ab : F64 * F64) : Prop := fin (fst ab) = true /\ fin (snd ab) = true.

Section Dev.
Variables lt et : list (Z * Z).
Let O := f64_ops lt et.

Lemma sq_l2_dist_pairs a b trav : sq_l2_dist O a b trav = sq_l2_pairs (zip_trav O a b trav).
Proof. unfold sq_l2_dist, sq_l2_pairs. rewrite <- (fold_left_fun_map fadd tsq). reflexivity. Qed.
Lemma l1_dist_pairs a b trav : l1_dist O a b trav = l1_pairs (zip_trav O a b trav).
Proof. unfold l1_dist, l1_pairs. rewrite <- (fold_left_fun_map fadd tabs). reflexivity. Qed.
Lemma linf_dist_pairs a b trav : linf_dist O a b trav = linf_pairs (zip_trav O a b trav).
Proof. unfold linf_dist, linf_pairs. rewrite <- (fold_left_fun_map maxstep tabs). reflexivity. Qed.

Lemma zip_trav_swap a b trav : zip_trav O b a trav = map swap (zip_trav O a b trav).
Proof. unfold zip_trav. rewrite map_map. reflexivity. Qed.
Lemma zip_trav_length a b trav : length (zip_trav O a b trav) = length trav.
Proof. unfold zip_trav. apply map_length. Qed.

End Dev.

(* ------------------------------------------------------------------ *)
(* 2. Folds of fadd and of maxstep                                     *)
(* ------------------------------------------------------------------ *)
Lemma fold_fadd_finite_acc ts : forall acc, fin (fold_left fadd ts acc) = true -> fin acc = true.
Proof.
  induction ts as [|t ts IH]; intros acc Hf; [exact Hf|].
  cbn [fold_left] in Hf. apply IH in Hf. apply fadd_finite_args in Hf. apply Hf.
Qed.

Lemma fold_fadd_nonneg ts : Forall (fun t => fin t = true -> 0 <= B2R t) ts ->
  forall acc, fin (fold_left fadd ts acc) = true -> 0 <= B2R acc -> 0 <= B2R (fold_left fadd ts acc).
Proof.
  intros HF. induction HF as [|t ts Ht HF IH]; intros acc Hf Hacc; [exact Hacc|].
  cbn [fold_left] in Hf |- *. apply IH; [exact Hf|].
  pose proof (fold_fadd_finite_acc _ _ Hf) as Fs.
  destruct (fadd_finite_args _ _ Fs) as [_ Ft].
  rewrite (fadd_value _ _ Fs). apply rnd_ge_0. specialize (Ht Ft). lra.
Qed.

Lemma fold_fadd_zeros ts : Forall (fun t => t = fzero) ts -> fold_left fadd ts fzero = fzero.
Proof.
  intros HF. induction HF as [|t ts Ht HF IH]; [reflexivity|].
  cbn [fold_left]. rewrite Ht. exact IH.
Qed.

Lemma fold_maxstep_zeros ts : Forall (fun t => t = fzero) ts -> fold_left maxstep ts fzero = fzero.
Proof.
  intros HF. induction HF as [|t ts Ht HF IH]; [reflexivity|].
  cbn [fold_left]. rewrite Ht. exact IH.
Qed.

(* the running maximum is the initial value or one of the candidates *)
Lemma fold_maxstep_mem ds : forall mx, fold_left maxstep ds mx = mx \/ In (fold_left maxstep ds mx) ds.
Proof.
  induction ds as [|d ds IH]; intros mx; [left; reflexivity|].
  cbn [fold_left]. destruct (IH (maxstep mx d)) as [E|E].
  - rewrite E. unfold maxstep. destruct (flt mx d); [right; left; reflexivity|left; reflexivity].
  - right. right. exact E.
Qed.

Lemma fold_maxstep_nonneg ds : Forall (fun d => 0 <= B2R d) ds ->
  forall mx, 0 <= B2R mx -> 0 <= B2R (fold_left maxstep ds mx).
Proof.
  intros HF. induction HF as [|d ds Hd HF IH]; intros mx Hmx; [exact Hmx|].
  cbn [fold_left]. apply IH. unfold maxstep. destruct (flt mx d); assumption.
Qed.

Lemma fold_maxstep_pinf ds : fold_left maxstep ds pinf = pinf.
Proof.
  induction ds as [|d ds IH]; [reflexivity|]. cbn [fold_left]. unfold maxstep at 2.
  rewrite flt_pinf_l. exact IH.
Qed.

Definition fin_or_pinf (d : F64) : Prop := fin d = true \/ d = pinf.

(* when the candidates are finite or +inf, a finite result means everything was finite *)
Lemma fold_maxstep_finite_inv ds : Forall fin_or_pinf ds ->
  forall mx, fin_or_pinf mx -> fin (fold_left maxstep ds mx) = true ->
  fin mx = true /\ Forall (fun d => fin d = true) ds.
Proof.
  intros HF. induction HF as [|d ds Hd HF IH]; intros mx Hmx Hf.
  - split; [exact Hf|constructor].
  - cbn [fold_left] in Hf.
    destruct Hmx as [Fm|Em].
    2:{ subst mx. unfold maxstep in Hf at 2. rewrite flt_pinf_l, fold_maxstep_pinf in Hf. discriminate Hf. }
    destruct Hd as [Fd|Ed].
    2:{ subst d. unfold maxstep in Hf at 2. rewrite (flt_fin_pinf mx Fm), fold_maxstep_pinf in Hf. discriminate Hf. }
    assert (Gs : fin_or_pinf (maxstep mx d)).
    { left. unfold maxstep. destruct (flt mx d); assumption. }
    destruct (IH _ Gs Hf) as [_ Fds]. split; [exact Fm|constructor; assumption].
Qed.

Lemma maxstep_value (mx d : F64) : fin mx = true -> fin d = true ->
  fin (maxstep mx d) = true /\ B2R (maxstep mx d) = Rmax (B2R mx) (B2R d).
Proof.
  intros Fm Fd. unfold maxstep. destruct (flt mx d) eqn:E.
  - apply (flt_spec mx d Fm Fd) in E. split; [exact Fd|]. rewrite Rmax_right by lra. reflexivity.
  - split; [exact Fm|]. rewrite Rmax_left; [reflexivity|].
    destruct (Rle_or_lt (B2R d) (B2R mx)) as [H|H]; [exact H|].
    apply (flt_spec mx d Fm Fd) in H. rewrite H in E. discriminate E.
Qed.

Lemma fold_maxstep_value ds : Forall (fun d => fin d = true) ds ->
  forall mx, fin mx = true ->
  fin (fold_left maxstep ds mx) = true /\
  B2R (fold_left maxstep ds mx) = fold_left Rmax (map B2R ds) (B2R mx).
Proof.
  intros HF. induction HF as [|d ds Hd HF IH]; intros mx Fm; [split; [exact Fm|reflexivity]|].
  cbn [fold_left map]. destruct (maxstep_value mx d Fm Hd) as [Fs Es].
  destruct (IH _ Fs) as [F1 E1]. split; [exact F1|]. rewrite E1, Es. reflexivity.
Qed.

Lemma fold_Rmax_ge_acc xs : forall m, m <= fold_left Rmax xs m.
Proof.
  induction xs as [|x xs IH]; intros m; [apply Rle_refl|].
  cbn [fold_left]. eapply Rle_trans; [apply (Rmax_l m x)|apply IH].
Qed.
Lemma fold_Rmax_ge xs : forall m x, In x xs -> x <= fold_left Rmax xs m.
Proof.
  induction xs as [|y xs IH]; intros m x Hx; [destruct Hx|].
  cbn [fold_left]. destruct Hx as [<-|Hx].
  - eapply Rle_trans; [apply (Rmax_r m y)|apply fold_Rmax_ge_acc].
  - apply IH. exact Hx.
Qed.

Lemma rnd_Rmax (x y : R) : rnd (Rmax x y) = Rmax (rnd x) (rnd y).
Proof.
  destruct (Rle_or_lt x y) as [H|H].
  - rewrite !Rmax_right; [reflexivity|apply rnd_le; exact H|exact H].
  - rewrite !Rmax_left; [reflexivity|apply rnd_le; lra|lra].
Qed.
Lemma fold_Rmax_rnd xs : forall m, fold_left Rmax (map (fun x => rnd x) xs) (rnd m) = rnd (fold_left Rmax xs m).
Proof.
  induction xs as [|x xs IH]; intros m; [reflexivity|].
  cbn [fold_left map]. rewrite <- rnd_Rmax. apply IH.
Qed.

(* ------------------------------------------------------------------ *)
(* 3. Per-pair facts                                                   *)
(* ------------------------------------------------------------------ *)
Lemma tsq_nonneg ab : fin (tsq ab) = true -> 0 <= B2R (tsq ab).
Proof.
  intros Hf. unfold tsq in *. rewrite (fmul_value _ _ Hf). apply rnd_ge_0.
  apply Rle_0_sqr.
Qed.
Lemma tabs_nonneg ab : 0 <= B2R (tabs ab).
Proof. unfold tabs, fabs. rewrite B2R_Babs. apply Rabs_pos. Qed.

Lemma dsub_diag (ab : F64 * F64) : fst ab = snd ab -> fin (fst ab) = true -> dsub ab = fzero.
Proof. intros E Fx. unfold dsub. rewrite <- E. apply fsub_diag. exact Fx. Qed.
Lemma tsq_diag (ab : F64 * F64) : fst ab = snd ab -> fin (fst ab) = true -> tsq ab = fzero.
Proof. intros E Fx. unfold tsq. rewrite (dsub_diag ab E Fx). reflexivity. Qed.
Lemma tabs_diag (ab : F64 * F64) : fst ab = snd ab -> fin (fst ab) = true -> tabs ab = fzero.
Proof. intros E Fx. unfold tabs. rewrite (dsub_diag ab E Fx). reflexivity. Qed.

Lemma tsq_swap ab : pair_fin ab -> tsq (swap ab) = tsq ab.
Proof.
  intros [Fx Fy]. unfold tsq, dsub, swap. cbn [fst snd].
  destruct (fsub_swap (fst ab) (snd ab) Fx Fy) as [E|[E1 E2]].
  - rewrite E. apply fmul_sq_fneg.
  - rewrite E1, E2. reflexivity.
Qed.
Lemma tabs_swap ab : pair_fin ab -> tabs (swap ab) = tabs ab.
Proof.
  intros [Fx Fy]. unfold tabs, dsub, swap. cbn [fst snd].
  destruct (fsub_swap (fst ab) (snd ab) Fx Fy) as [E|[E1 E2]].
  - rewrite E. apply fabs_fneg.
  - rewrite E1, E2. reflexivity.
Qed.

Lemma map_swap_eq (g : F64 * F64 -> F64) l :
  (forall ab, pair_fin ab -> g (swap ab) = g ab) -> Forall pair_fin l -> map g (map swap l) = map g l.
Proof.
  intros Hg HF. rewrite map_map. induction HF as [|ab l Hab HF IH]; [reflexivity|].
  cbn [map]. rewrite IH, (Hg ab Hab). reflexivity.
Qed.

Lemma tabs_fin_or_pinf ab : pair_fin ab -> fin_or_pinf (tabs ab).
Proof.
  intros [Fx Fy]. unfold tabs, dsub.
  destruct (fsub_fin_or_inf (fst ab) (snd ab) Fx Fy) as [F|[s E]].
  - left. unfold fabs. rewrite is_finite_Babs. exact F.
  - right. rewrite E. reflexivity.
Qed.

Lemma tabs_value ab : fin (tabs ab) = true -> B2R (tabs ab) = rnd (rabsd ab).
Proof.
  unfold tabs, fabs, rabsd, rdiff. rewrite is_finite_Babs, B2R_Babs. intros Hf.
  unfold dsub in *. rewrite (fsub_value _ _ Hf), rnd_abs. reflexivity.
Qed.

(* ------------------------------------------------------------------ *)
(* D1. Metric laws, on the list of pairs read                          *)
(* ------------------------------------------------------------------ *)
Theorem sq_l2_pairs_nonneg l : fin (sq_l2_pairs l) = true -> 0 <= B2R (sq_l2_pairs l).
Proof.
  intros Hf. apply fold_fadd_nonneg; [|exact Hf|rewrite B2R_fzero; lra].
  apply Forall_forall. intros t Ht. apply in_map_iff in Ht. destruct Ht as (ab & <- & _). apply tsq_nonneg.
Qed.

Theorem l1_pairs_nonneg l : fin (l1_pairs l) = true -> 0 <= B2R (l1_pairs l).
Proof.
  intros Hf. apply fold_fadd_nonneg; [|exact Hf|rewrite B2R_fzero; lra].
  apply Forall_forall. intros t Ht. apply in_map_iff in Ht. destruct Ht as (ab & <- & _). intros _. apply tabs_nonneg.
Qed.

(* no finiteness hypothesis: B2R of an infinity is 0 and the maximum is never NaN or negative *)
Theorem linf_pairs_nonneg l : 0 <= B2R (linf_pairs l).
Proof.
  apply fold_maxstep_nonneg; [|rewrite B2R_fzero; lra].
  apply Forall_forall. intros t Ht. apply in_map_iff in Ht. destruct Ht as (ab & <- & _). apply tabs_nonneg.
Qed.

Theorem sq_l2_pairs_diag l : Forall (fun ab : F64 * F64 => fst ab = snd ab /\ fin (fst ab) = true) l -> sq_l2_pairs l = fzero.
Proof.
  intros HF. apply fold_fadd_zeros. rewrite Forall_map. eapply Forall_impl; [|exact HF].
  intros ab [E Fx]. apply tsq_diag; assumption.
Qed.
Theorem l1_pairs_diag l : Forall (fun ab : F64 * F64 => fst ab = snd ab /\ fin (fst ab) = true) l -> l1_pairs l = fzero.
Proof.
  intros HF. apply fold_fadd_zeros. rewrite Forall_map. eapply Forall_impl; [|exact HF].
  intros ab [E Fx]. apply tabs_diag; assumption.
Qed.
Theorem linf_pairs_diag l : Forall (fun ab : F64 * F64 => fst ab = snd ab /\ fin (fst ab) = true) l -> linf_pairs l = fzero.
Proof.
  intros HF. apply fold_maxstep_zeros. rewrite Forall_map. eapply Forall_impl; [|exact HF].
  intros ab [E Fx]. apply tabs_diag; assumption.
Qed.

Theorem sq_l2_pairs_sym l : Forall pair_fin l -> sq_l2_pairs (map swap l) = sq_l2_pairs l.
Proof. intros HF. unfold sq_l2_pairs. rewrite (map_swap_eq tsq l tsq_swap HF). reflexivity. Qed.
Theorem l1_pairs_sym l : Forall pair_fin l -> l1_pairs (map swap l) = l1_pairs l.
Proof. intros HF. unfold l1_pairs. rewrite (map_swap_eq tabs l tabs_swap HF). reflexivity. Qed.
Theorem linf_pairs_sym l : Forall pair_fin l -> linf_pairs (map swap l) = linf_pairs l.
Proof. intros HF. unfold linf_pairs. rewrite (map_swap_eq tabs l tabs_swap HF). reflexivity. Qed.

(* linf: the result is +0 or one of the computed |a_p - b_p| (bit for bit, unconditionally) *)
Theorem linf_pairs_attained l : linf_pairs l = fzero \/ exists ab, In ab l /\ linf_pairs l = tabs ab.
Proof.
  unfold linf_pairs. destruct (fold_maxstep_mem (map tabs l) fzero) as [E|E]; [left; exact E|right].
  apply in_map_iff in E. destruct E as (ab & E & Hab). exists ab. split; [exact Hab|symmetry; exact E].
Qed.

(* linf on finite inputs: a finite result means every |a_p - b_p| was finite; the result is then
   the maximum of the computed terms, which is the rounding of the exact maximum *)
Theorem linf_pairs_terms_finite l : Forall pair_fin l -> fin (linf_pairs l) = true ->
  Forall (fun ab => fin (tabs ab) = true) l.
Proof.
  intros HF Hf. unfold linf_pairs in Hf.
  assert (G : Forall fin_or_pinf (map tabs l)).
  { rewrite Forall_map. eapply Forall_impl; [|exact HF]. intros ab. apply tabs_fin_or_pinf. }
  destruct (fold_maxstep_finite_inv _ G fzero (or_introl eq_refl) Hf) as [_ Fd].
  rewrite Forall_map in Fd. exact Fd.
Qed.

Theorem linf_pairs_finite_iff l : Forall pair_fin l ->
  (fin (linf_pairs l) = true <-> Forall (fun ab => fin (tabs ab) = true) l).
Proof.
  intros HF. split; [apply linf_pairs_terms_finite; exact HF|].
  intros Fd. unfold linf_pairs. apply fold_maxstep_value; [rewrite Forall_map; exact Fd|reflexivity].
Qed.

Theorem linf_pairs_value l : Forall pair_fin l -> fin (linf_pairs l) = true ->
  B2R (linf_pairs l) = Rmaxl (map (fun ab => B2R (tabs ab)) l) /\
  B2R (linf_pairs l) = rnd (Rmaxl (map rabsd l)).
Proof.
  intros HF Hf. pose proof (linf_pairs_terms_finite l HF Hf) as Fd.
  assert (Fd' : Forall (fun d => fin d = true) (map tabs l)) by (rewrite Forall_map; exact Fd).
  destruct (fold_maxstep_value _ Fd' fzero eq_refl) as [_ E].
  fold (linf_pairs l) in E. rewrite map_map, B2R_fzero in E. split; [exact E|].
  rewrite E. unfold Rmaxl. rewrite <- fold_Rmax_rnd, rnd_0, map_map. f_equal.
  clear -Fd. induction Fd as [|ab l Hab Fd IH]; [reflexivity|]. cbn [map]. rewrite IH, (tabs_value ab Hab). reflexivity.
Qed.

Theorem linf_pairs_upper l ab : Forall pair_fin l -> fin (linf_pairs l) = true -> In ab l ->
  B2R (tabs ab) <= B2R (linf_pairs l).
Proof.
  intros HF Hf Hab. destruct (linf_pairs_value l HF Hf) as [E _]. rewrite E. unfold Rmaxl.
  apply fold_Rmax_ge. apply (in_map (fun ab => B2R (tabs ab))). exact Hab.
Qed.

(* ------------------------------------------------------------------ *)
(* D2. Rounding-error bounds                                           *)
(* ------------------------------------------------------------------ *)
Lemma g64_add a b : g64 (a + b) = (1 + g64 a) * (1 + g64 b) - 1.
Proof. unfold g64. rewrite pow_add. ring. Qed.

Lemma three_eps (e1 e2 : R) : Rabs e1 <= u64 -> Rabs e2 <= u64 ->
  Rabs ((1 + e1) * (1 + e1) * (1 + e2) - 1) <= g64 3.
Proof.
  intros H1 H2. apply Rabs_le_inv in H1. apply Rabs_le_inv in H2.
  pose proof u64_pos as Hu0. pose proof u64_small as Hu.
  unfold g64. cbn [pow]. rewrite Rmult_1_r.
  set (u := u64) in *. set (p := 1 + e1). set (q := 1 + e2).
  assert (Hp : 1 - u <= p <= 1 + u) by (unfold p; lra).
  assert (Hq : 1 - u <= q <= 1 + u) by (unfold q; lra).
  assert (Hpp : (1 - u) * (1 - u) <= p * p <= (1 + u) * (1 + u)) by (split; nra).
  assert (Hppq : (1 - u) * (1 - u) * (1 - u) <= p * p * q <= (1 + u) * (1 + u) * (1 + u)).
  { split.
    - apply Rle_trans with ((1 - u) * (1 - u) * q); [apply Rmult_le_compat_l; nra|apply Rmult_le_compat_r; lra].
    - apply Rle_trans with ((1 + u) * (1 + u) * q); [apply Rmult_le_compat_r; lra|apply Rmult_le_compat_l; nra]. }
  apply Rabs_le. split; nra.
Qed.

(* one squared difference: two roundings of relative size u on the difference, one on the product *)
Lemma tsq_model ab : fin (tsq ab) = true ->
  Rabs (B2R (tsq ab) - rsq ab) <= g64 3 * rsq ab + eta64.
Proof.
  intros Hf. unfold tsq in Hf.
  destruct (fmul_finite_args _ _ Hf) as [Fd _].
  pose proof (fmul_value _ _ Hf) as Et. fold (tsq ab) in Et.
  unfold dsub in Fd. pose proof (fsub_value _ _ Fd) as Ed. fold (dsub ab) in Ed. fold (rdiff ab) in Ed.
  destruct (rnd_minus_model (B2R (fst ab)) (B2R (snd ab)) (fmt_B2R _) (fmt_B2R _)) as (e1 & He1 & M1).
  fold (rdiff ab) in M1.
  destruct (rnd_model (B2R (dsub ab) * B2R (dsub ab))) as (e2 & e' & He2 & He' & M2).
  rewrite Et, M2, Ed, M1. unfold rsq. set (x := rdiff ab).
  assert (He1' : Rabs e1 <= u64) by (pose proof u64_frac_le; lra).
  pose proof (three_eps e1 e2 He1' He2) as T.
  replace (x * (1 + e1) * (x * (1 + e1)) * (1 + e2) + e' - x * x)
    with (x * x * ((1 + e1) * (1 + e1) * (1 + e2) - 1) + e') by ring.
  eapply Rle_trans; [apply Rabs_triang|]. apply Rplus_le_compat; [|exact He'].
  rewrite Rabs_mult, (Rabs_pos_eq (x * x)) by apply Rle_0_sqr.
  rewrite (Rmult_comm (g64 3)). apply Rmult_le_compat_l; [apply Rle_0_sqr|exact T].
Qed.

Lemma tabs_model ab : fin (tabs ab) = true ->
  Rabs (B2R (tabs ab) - rabsd ab) <= u64 * rabsd ab + 0.
Proof.
  intros Hf. rewrite (tabs_value ab Hf). unfold rabsd. rewrite rnd_abs. unfold rdiff.
  destruct (rnd_minus_model (B2R (fst ab)) (B2R (snd ab)) (fmt_B2R _) (fmt_B2R _)) as (e1 & He1 & M1).
  rewrite M1. set (x := B2R (fst ab) - B2R (snd ab)).
  assert (He1' : Rabs e1 <= u64) by (pose proof u64_frac_le; lra).
  rewrite Rabs_mult. replace (Rabs x * Rabs (1 + e1) - Rabs x) with (Rabs x * (Rabs (1 + e1) - 1)) by ring.
  rewrite Rabs_mult, Rabs_Rabsolu, Rplus_0_r, (Rmult_comm u64).
  apply Rmult_le_compat_l; [apply Rabs_pos|].
  pose proof u64_small as Hu. apply Rabs_le_inv in He1'.
  rewrite (Rabs_pos_eq (1 + e1)) by lra. apply Rabs_le. lra.
Qed.

(* termwise relative perturbation c and absolute perturbation e of non-negative terms *)
Lemma terms_bound {A} (P X : A -> R) (c e : R) (l : list A) : 0 <= c -> 0 <= e ->
  Forall (fun a => 0 <= X a /\ Rabs (P a - X a) <= c * X a + e) l ->
  Rabs (Rsum (map P l) - Rsum (map X l)) <= c * Rsum (map X l) + INR (length l) * e /\
  Rasum (map P l) <= (1 + c) * Rsum (map X l) + INR (length l) * e /\
  0 <= Rsum (map X l).
Proof.
  intros Hc He HF. induction HF as [|a l [Ha0 Ha] HF (IH1 & IH2 & IH3)].
  - cbn [map length]. unfold Rsum, Rasum. cbn [fold_right INR]. rewrite Rminus_0_r, Rabs_R0. lra.
  - cbn [map]. rewrite !Rsum_cons, !Rasum_cons. change (length (a :: l)) with (S (length l)). rewrite S_INR.
    split; [|split; [|lra]].
    + replace (P a + Rsum (map P l) - (X a + Rsum (map X l)))
        with ((P a - X a) + (Rsum (map P l) - Rsum (map X l))) by ring.
      eapply Rle_trans; [apply Rabs_triang|]. lra.
    + replace (P a) with (X a + (P a - X a)) by ring.
      eapply Rle_trans; [apply Rplus_le_compat_r; apply Rabs_triang|].
      rewrite (Rabs_pos_eq (X a)) by exact Ha0. lra.
Qed.

(* the first addition +0 + t is exact (t is never -0 here), so a fold over n terms is a
   summation tree of height n - 1 *)
Lemma fadd_fzero_l (t : F64) : t <> mzero -> fadd fzero t = t.
Proof.
  intros Ht. destruct t as [[|]|s| |s m e H]; try reflexivity. elim Ht. reflexivity.
Qed.

Lemma fold_sum_error_hd xs : hd fzero xs <> mzero -> fin (fold_left fadd xs fzero) = true ->
  Rabs (B2R (fold_left fadd xs fzero) - Rsum (map B2R xs)) <= g64 (length xs - 1) * Rasum (map B2R xs).
Proof.
  destruct xs as [|x r]; intros Hh Hf.
  - cbn [fold_left map length]. unfold Rsum, Rasum. cbn [fold_right]. rewrite B2R_fzero, Rminus_0_r, Rabs_R0. lra.
  - cbn [hd] in Hh. cbn [fold_left] in Hf |- *. rewrite (fadd_fzero_l x Hh) in Hf |- *.
    apply sum_tree_for_error with (k := 0%nat); [|exact Hf].
    exists (seq_tree (FLeaf _ _ x) r). split; [|split].
    + rewrite <- seq_tree_eval. reflexivity.
    + rewrite seq_tree_leaves. apply Permutation.Permutation_refl.
    + rewrite seq_tree_height. cbn [fheight length]. lia.
Qed.

Lemma tsq_not_mzero ab : tsq ab <> mzero.
Proof.
  intros E. unfold tsq in E.
  pose proof (Bmult_correct 53 1024 Hprec64 Hmax64 mode_NE (dsub ab) (dsub ab)) as C.
  fold (fmul (dsub ab) (dsub ab)) in C. rewrite E in C. destruct (Rlt_bool _ _) in C.
  - destruct C as (_ & _ & C3). specialize (C3 eq_refl). rewrite xorb_nilpotent in C3. discriminate C3.
  - discriminate C.
Qed.
Lemma tabs_not_mzero ab : tabs ab <> mzero.
Proof. unfold tabs. destruct (dsub ab) as [s|s| |s m e H]; discriminate. Qed.

Lemma hd_map_not_mzero (g : F64 * F64 -> F64) l : (forall ab, g ab <> mzero) -> hd fzero (map g l) <> mzero.
Proof. intros Hg. destruct l as [|ab l]; cbn [map hd]; [discriminate|apply Hg]. Qed.

Lemma sq_l2_pairs_error_gen l (m : nat) : fin (sq_l2_pairs l) = true ->
  Rabs (B2R (sq_l2_pairs l) - Rsum (map B2R (map tsq l))) <= g64 m * Rasum (map B2R (map tsq l)) ->
  Rabs (B2R (sq_l2_pairs l) - Rsum (map rsq l))
    <= g64 (m + 3) * Rsum (map rsq l) + INR (length l) * (1 + g64 m) * eta64.
Proof.
  intros Hf B. unfold sq_l2_pairs in *. rewrite map_map in B.
  pose proof (fold_finite _ Hf) as FF. rewrite Forall_map in FF.
  assert (HT : Forall (fun ab => 0 <= rsq ab /\ Rabs (B2R (tsq ab) - rsq ab) <= g64 3 * rsq ab + eta64) l).
  { eapply Forall_impl; [|exact FF]. intros ab Hab. split; [apply Rle_0_sqr|apply tsq_model; exact Hab]. }
  destruct (terms_bound (fun ab => B2R (tsq ab)) rsq (g64 3) eta64 l (g64_nonneg 3) (Rlt_le _ _ eta64_pos) HT)
    as (R1 & R2 & R3).
  rewrite g64_add.
  set (n := length l) in *. set (S := Rsum (map rsq l)) in *.
  set (Sp := Rsum (map (fun ab => B2R (tsq ab)) l)) in *. set (Ap := Rasum (map (fun ab => B2R (tsq ab)) l)) in *.
  set (res := B2R (fold_left fadd (map tsq l) fzero)) in *.
  pose proof (g64_nonneg m) as G. pose proof (g64_nonneg 3) as G3. pose proof eta64_pos as Het.
  assert (HN : 0 <= INR n) by apply pos_INR.
  replace (res - S) with ((res - Sp) + (Sp - S)) by ring.
  eapply Rle_trans; [apply Rabs_triang|].
  assert (B' : g64 m * Ap <= g64 m * ((1 + g64 3) * S + INR n * eta64)).
  { apply Rmult_le_compat_l; [exact G|exact R2]. }
  nra.
Qed.

(* S = sum of (a_p - b_p)^2 over the pairs read *)
Theorem sq_l2_pairs_error l : fin (sq_l2_pairs l) = true ->
  Rabs (B2R (sq_l2_pairs l) - Rsum (map rsq l))
    <= g64 (length l + 2) * Rsum (map rsq l) + INR (length l) * (1 + g64 (length l)) * eta64.
Proof.
  intros Hf.
  pose proof (fold_sum_error_hd (map tsq l) (hd_map_not_mzero tsq l tsq_not_mzero) Hf) as B.
  rewrite map_length in B. fold (sq_l2_pairs l) in B.
  destruct l as [|ab l'].
  - cbn [map length]. unfold sq_l2_pairs, Rsum. cbn [map fold_left fold_right INR].
    rewrite B2R_fzero, Rminus_0_r, Rabs_R0. lra.
  - pose proof (sq_l2_pairs_error_gen (ab :: l') (length l') Hf) as Q.
    replace (length (ab :: l') - 1)%nat with (length l') in B by (cbn [length]; lia). specialize (Q B).
    change (length (ab :: l')) with (Datatypes.S (length l')) in *.
    replace (Datatypes.S (length l') + 2)%nat with (length l' + 3)%nat by lia.
    eapply Rle_trans; [exact Q|]. apply Rplus_le_compat_l.
    pose proof (g64_mono (length l') (Datatypes.S (length l')) (Nat.le_succ_diag_r _)) as M.
    pose proof (pos_INR (Datatypes.S (length l'))) as HN. pose proof eta64_pos as Het.
    apply Rmult_le_compat_r; [lra|]. apply Rmult_le_compat_l; [exact HN|lra].
Qed.

Lemma l1_pairs_error_gen l (m : nat) : fin (l1_pairs l) = true ->
  Rabs (B2R (l1_pairs l) - Rsum (map B2R (map tabs l))) <= g64 m * Rasum (map B2R (map tabs l)) ->
  Rabs (B2R (l1_pairs l) - Rsum (map rabsd l)) <= g64 (m + 1) * Rsum (map rabsd l).
Proof.
  intros Hf B. unfold l1_pairs in *. rewrite map_map in B.
  pose proof (fold_finite _ Hf) as FF. rewrite Forall_map in FF.
  assert (HT : Forall (fun ab => 0 <= rabsd ab /\ Rabs (B2R (tabs ab) - rabsd ab) <= u64 * rabsd ab + 0) l).
  { eapply Forall_impl; [|exact FF]. intros ab Hab. split; [apply Rabs_pos|apply tabs_model; exact Hab]. }
  destruct (terms_bound (fun ab => B2R (tabs ab)) rabsd u64 0 l (Rlt_le _ _ u64_pos) (Rle_refl 0) HT)
    as (R1 & R2 & R3).
  replace (m + 1)%nat with (Datatypes.S m) by lia. rewrite g64_S.
  set (n := length l) in *. set (S := Rsum (map rabsd l)) in *.
  set (Sp := Rsum (map (fun ab => B2R (tabs ab)) l)) in *. set (Ap := Rasum (map (fun ab => B2R (tabs ab)) l)) in *.
  set (res := B2R (fold_left fadd (map tabs l) fzero)) in *.
  pose proof (g64_nonneg m) as G. pose proof u64_pos as Hu.
  replace (res - S) with ((res - Sp) + (Sp - S)) by ring.
  eapply Rle_trans; [apply Rabs_triang|].
  assert (B' : g64 m * Ap <= g64 m * ((1 + u64) * S + INR n * 0)).
  { apply Rmult_le_compat_l; [exact G|exact R2]. }
  nra.
Qed.

(* the first addition is exact and each term carries one rounding: n roundings for n >= 1 terms *)
Theorem l1_pairs_error_tight l : fin (l1_pairs l) = true ->
  Rabs (B2R (l1_pairs l) - Rsum (map rabsd l)) <= g64 (length l) * Rsum (map rabsd l).
Proof.
  intros Hf.
  pose proof (fold_sum_error_hd (map tabs l) (hd_map_not_mzero tabs l tabs_not_mzero) Hf) as B.
  rewrite map_length in B. fold (l1_pairs l) in B.
  destruct l as [|ab l'].
  - cbn [map length]. unfold l1_pairs, Rsum. cbn [map fold_left fold_right].
    rewrite B2R_fzero, Rminus_0_r, Rabs_R0. lra.
  - pose proof (l1_pairs_error_gen (ab :: l') (length l') Hf) as Q.
    replace (length (ab :: l') - 1)%nat with (length l') in B by (cbn [length]; lia). specialize (Q B).
    change (length (ab :: l')) with (Datatypes.S (length l')).
    replace (Datatypes.S (length l')) with (length l' + 1)%nat by lia. exact Q.
Qed.

Theorem l1_pairs_error l : fin (l1_pairs l) = true ->
  Rabs (B2R (l1_pairs l) - Rsum (map rabsd l)) <= g64 (length l + 1) * Rsum (map rabsd l).
Proof.
  intros Hf. eapply Rle_trans; [apply l1_pairs_error_tight; exact Hf|].
  apply Rmult_le_compat_r; [|apply g64_mono; lia].
  clear Hf. induction l as [|ab l IH]; [unfold Rsum; cbn; lra|].
  cbn [map]. rewrite Rsum_cons. pose proof (Rabs_pos (rdiff ab)). unfold rabsd at 1. lra.
Qed.

(* ------------------------------------------------------------------ *)
(* The kernels of Num/Kernels.v at f64_ops                             *)
(* ------------------------------------------------------------------ *)
(* every position read holds a finite number (positions past the end read +0, as in zip_trav) *)
Definition reads_fin (a : list F64) (trav : list nat) : Prop :=
  Forall (fun p => fis_finite (nth p a fzero) = true) trav.
Definition rdiff_at (a b : list F64) (p : nat) : R := B2R (nth p a fzero) - B2R (nth p b fzero).
Definition fabsd_at (a b : list F64) (p : nat) : F64 := fabs (fsub (nth p a fzero) (nth p b fzero)).

Lemma all_fin_reads a trav : Forall (fun x => fis_finite x = true) a -> reads_fin a trav.
Proof.
  intros Fa. apply Forall_forall. intros p _.
  revert p. induction Fa as [|x a Hx Fa IH]; intros [|p]; cbn [nth]; try reflexivity; [exact Hx|apply IH].
Qed.

Section DevList.
Variables lt et : list (Z * Z).
Local Notation O := (f64_ops lt et).

Lemma zip_trav_reads_fin a b trav : reads_fin a trav -> reads_fin b trav -> Forall pair_fin (zip_trav O a b trav).
Proof.
  intros Fa Fb. unfold zip_trav. rewrite Forall_map. unfold reads_fin in *.
  rewrite Forall_forall in *. intros p Hp. split; cbn [fst snd]; [apply Fa|apply Fb]; exact Hp.
Qed.
Lemma zip_trav_reads_diag a trav : reads_fin a trav ->
  Forall (fun ab : F64 * F64 => fst ab = snd ab /\ fin (fst ab) = true) (zip_trav O a a trav).
Proof.
  intros Fa. unfold zip_trav. rewrite Forall_map. unfold reads_fin in *.
  rewrite Forall_forall in *. intros p Hp. split; cbn [fst snd]; [reflexivity|apply Fa; exact Hp].
Qed.
Lemma zip_trav_rsq a b trav : map rsq (zip_trav O a b trav) = map (fun p => rdiff_at a b p * rdiff_at a b p) trav.
Proof. unfold zip_trav. rewrite map_map. reflexivity. Qed.
Lemma zip_trav_rabsd a b trav : map rabsd (zip_trav O a b trav) = map (fun p => Rabs (rdiff_at a b p)) trav.
Proof. unfold zip_trav. rewrite map_map. reflexivity. Qed.

(* D1 (i): non-negativity *)
Theorem sq_l2_dist_nonneg a b trav :
  fis_finite (sq_l2_dist O a b trav) = true -> 0 <= B2R (sq_l2_dist O a b trav).
Proof. rewrite sq_l2_dist_pairs. apply sq_l2_pairs_nonneg. Qed.
Theorem l1_dist_nonneg a b trav :
  fis_finite (l1_dist O a b trav) = true -> 0 <= B2R (l1_dist O a b trav).
Proof. rewrite l1_dist_pairs. apply l1_pairs_nonneg. Qed.
Theorem linf_dist_nonneg a b trav : 0 <= B2R (linf_dist O a b trav).
Proof. rewrite linf_dist_pairs. apply linf_pairs_nonneg. Qed.

(* D1 (ii): the distance of an array to itself is +0, bit for bit *)
Theorem sq_l2_dist_self a trav : reads_fin a trav -> sq_l2_dist O a a trav = fzero.
Proof. intros Fa. rewrite sq_l2_dist_pairs. apply sq_l2_pairs_diag, zip_trav_reads_diag, Fa. Qed.
Theorem l1_dist_self a trav : reads_fin a trav -> l1_dist O a a trav = fzero.
Proof. intros Fa. rewrite l1_dist_pairs. apply l1_pairs_diag, zip_trav_reads_diag, Fa. Qed.
Theorem linf_dist_self a trav : reads_fin a trav -> linf_dist O a a trav = fzero.
Proof. intros Fa. rewrite linf_dist_pairs. apply linf_pairs_diag, zip_trav_reads_diag, Fa. Qed.

(* D1 (iii): symmetry, bit for bit (also when the result overflows) *)
Theorem sq_l2_dist_sym a b trav : reads_fin a trav -> reads_fin b trav ->
  sq_l2_dist O a b trav = sq_l2_dist O b a trav.
Proof.
  intros Fa Fb. rewrite !sq_l2_dist_pairs, (zip_trav_swap _ _ a b). symmetry.
  apply sq_l2_pairs_sym, zip_trav_reads_fin; assumption.
Qed.
Theorem l1_dist_sym a b trav : reads_fin a trav -> reads_fin b trav ->
  l1_dist O a b trav = l1_dist O b a trav.
Proof.
  intros Fa Fb. rewrite !l1_dist_pairs, (zip_trav_swap _ _ a b). symmetry.
  apply l1_pairs_sym, zip_trav_reads_fin; assumption.
Qed.
Theorem linf_dist_sym a b trav : reads_fin a trav -> reads_fin b trav ->
  linf_dist O a b trav = linf_dist O b a trav.
Proof.
  intros Fa Fb. rewrite !linf_dist_pairs, (zip_trav_swap _ _ a b). symmetry.
  apply linf_pairs_sym, zip_trav_reads_fin; assumption.
Qed.

(* linf_dist: attained, an upper bound of every computed |a_p - b_p|, the rounded exact maximum *)
Theorem linf_dist_attained a b trav :
  linf_dist O a b trav = fzero \/ exists p, In p trav /\ linf_dist O a b trav = fabsd_at a b p.
Proof.
  rewrite linf_dist_pairs. destruct (linf_pairs_attained (zip_trav O a b trav)) as [E|(ab & Hab & E)]; [left; exact E|right].
  unfold zip_trav in Hab. apply in_map_iff in Hab. destruct Hab as (p & <- & Hp).
  exists p. split; [exact Hp|exact E].
Qed.

Theorem linf_dist_finite_iff a b trav : reads_fin a trav -> reads_fin b trav ->
  (fis_finite (linf_dist O a b trav) = true <-> Forall (fun p => fis_finite (fabsd_at a b p) = true) trav).
Proof.
  intros Fa Fb. rewrite linf_dist_pairs.
  rewrite (linf_pairs_finite_iff _ (zip_trav_reads_fin a b trav Fa Fb)).
  unfold zip_trav. rewrite Forall_map. reflexivity.
Qed.

Theorem linf_dist_upper a b trav p : reads_fin a trav -> reads_fin b trav ->
  fis_finite (linf_dist O a b trav) = true -> In p trav ->
  B2R (fabsd_at a b p) <= B2R (linf_dist O a b trav).
Proof.
  intros Fa Fb Hf Hp. rewrite linf_dist_pairs in *.
  apply (linf_pairs_upper (zip_trav O a b trav) (nth p a fzero, nth p b fzero));
    [apply zip_trav_reads_fin; assumption|exact Hf|].
  unfold zip_trav. apply (in_map (fun p => (nth p a (o_zero O), nth p b (o_zero O)))). exact Hp.
Qed.

Theorem linf_dist_value a b trav : reads_fin a trav -> reads_fin b trav ->
  fis_finite (linf_dist O a b trav) = true ->
  B2R (linf_dist O a b trav) = rnd (Rmaxl (map (fun p => Rabs (rdiff_at a b p)) trav)).
Proof.
  intros Fa Fb Hf. rewrite linf_dist_pairs in *.
  destruct (linf_pairs_value _ (zip_trav_reads_fin a b trav Fa Fb) Hf) as [_ E].
  rewrite E, zip_trav_rabsd. reflexivity.
Qed.

(* D2: rounding error *)
Theorem sq_l2_dist_error a b trav : fis_finite (sq_l2_dist O a b trav) = true ->
  let S := Rsum (map (fun p => rdiff_at a b p * rdiff_at a b p) trav) in
  Rabs (B2R (sq_l2_dist O a b trav) - S)
    <= g64 (length trav + 2) * S + INR (length trav) * (1 + g64 (length trav)) * eta64.
Proof.
  intros Hf S. unfold S. rewrite sq_l2_dist_pairs in *.
  pose proof (sq_l2_pairs_error _ Hf) as B. rewrite zip_trav_rsq, zip_trav_length in B. exact B.
Qed.

Theorem l1_dist_error_tight a b trav : fis_finite (l1_dist O a b trav) = true ->
  let S := Rsum (map (fun p => Rabs (rdiff_at a b p)) trav) in
  Rabs (B2R (l1_dist O a b trav) - S) <= g64 (length trav) * S.
Proof.
  intros Hf S. unfold S. rewrite l1_dist_pairs in *.
  pose proof (l1_pairs_error_tight _ Hf) as B. rewrite zip_trav_rabsd, zip_trav_length in B. exact B.
Qed.

Theorem l1_dist_error a b trav : fis_finite (l1_dist O a b trav) = true ->
  let S := Rsum (map (fun p => Rabs (rdiff_at a b p)) trav) in
  Rabs (B2R (l1_dist O a b trav) - S) <= g64 (length trav + 1) * S.
Proof.
  intros Hf S. unfold S. rewrite l1_dist_pairs in *.
  pose proof (l1_pairs_error _ Hf) as B. rewrite zip_trav_rabsd, zip_trav_length in B. exact B.
Qed.
End DevList.

Print Assumptions sq_l2_dist_nonneg.
Print Assumptions l1_dist_nonneg.
Print Assumptions linf_dist_nonneg.
Print Assumptions sq_l2_dist_self.
Print Assumptions l1_dist_self.
Print Assumptions linf_dist_self.
Print Assumptions sq_l2_dist_sym.
Print Assumptions l1_dist_sym.
Print Assumptions linf_dist_sym.
Print Assumptions linf_dist_attained.
Print Assumptions linf_dist_finite_iff.
Print Assumptions linf_dist_upper.
Print Assumptions linf_dist_value.
Print Assumptions sq_l2_dist_error.
Print Assumptions l1_dist_error_tight.
Print Assumptions l1_dist_error.
