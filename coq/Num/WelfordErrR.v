(* Real-number core of the forward error analysis of Welford's update with a fused multiply-add
   (Num/WelfordF64.v welford_step, ndarray var_axis):
   1. one floating-point step in the rounding-factor model of Num/WestErrR.v (every rounding is a
      factor in [rel 1] plus, where underflow is possible, an absolute term <= eta64) as a
      perturbation of the exact step
          M' = M + (x - M) / c,   S' = S + (x - M') (x - M),       c = k + 1;
   2. the one-step error bounds for the running mean and the running sum of squares;
   3. closed forms [wBM], [wBS] of the accumulated bounds and their one-step inequalities;
   4. the same bounds as polynomials in n under  n u <= 1/64.
   Nothing here mentions floating-point numbers; Num/WelfordErrF64.v instantiates it.
   Compared with West's weighted update the counter is exact, so the factor classes do not grow
   with k; the running mean is a convex combination, so its error accumulates as (k+1)/2 u X. *)
From Flocq Require Import Core.
Require Import Reals Lra Lia Psatz.
From NS Require Import Num.SumF64 Num.WestErrR.
Open Scope R_scope.

(* ------------------------------------------------------------------ *)
(* 1. One floating-point step as a perturbation of the exact step       *)
(* ------------------------------------------------------------------ *)
(*   delta = (x - mh) f3,  q = delta / c * f2 + h2,  mh' = (mh + q) f5,
     d2 = (x - mh') f6,    sh' = (d2 * delta + sh) f8 + h8                               *)
Definition wfstep (c mh sh x mh' sh' : R) : Prop :=
  exists f2 f3 f5 f6 f8 h2 h8 : R,
    (rel 1 f2 /\ rel 1 f3 /\ rel 1 f5 /\ rel 1 f6 /\ rel 1 f8) /\
    (Rabs h2 <= eta64 /\ Rabs h8 <= eta64) /\
    mh' = (mh + ((x - mh) * f3 / c * f2 + h2)) * f5 /\
    sh' = ((x - mh') * f6 * ((x - mh) * f3) + sh) * f8 + h8.

Lemma g64_1 : g64 1 = u64.
Proof. unfold g64. ring. Qed.

Lemma wmean_core (k M x mh psi h2 f5 : R) : k + 1 <> 0 ->
  (k + 1) * ((mh + ((x - mh) * psi / (k + 1) + h2)) * f5 - (M + (x - M) / (k + 1)))
  = (k * (mh - M) + (psi - 1) * (x - mh) + (k + 1) * h2) * f5
    + (f5 - 1) * ((k + 1) * (M + (x - M) / (k + 1))).
Proof. intros H. field. exact H. Qed.

Lemma wssq_core (S sh x mh mh' M M' chi f8 h8 : R) :
  ((x - mh') * (x - mh) * chi + sh) * f8 + h8 - (S + (x - M') * (x - M))
  = ((sh - S) + (chi - 1) * ((x - mh') * (x - mh)) + ((x - mh') * (x - mh) - (x - M') * (x - M))) * f8
    + (f8 - 1) * (S + (x - M') * (x - M)) + h8.
Proof. ring. Qed.

(* ------------------------------------------------------------------ *)
(* 2. One-step error bounds                                            *)
(* ------------------------------------------------------------------ *)
(* the running mean; k observations so far, B bounds the error before the step *)
Lemma wmean_step (k M x mh mh' f2 f3 f5 h2 B D X : R) :
  0 <= k -> rel 1 f2 -> rel 1 f3 -> rel 1 f5 -> Rabs h2 <= eta64 ->
  mh' = (mh + ((x - mh) * f3 / (k + 1) * f2 + h2)) * f5 ->
  Rabs (x - mh) <= D -> Rabs (mh - M) <= B -> Rabs (M + (x - M) / (k + 1)) <= X ->
  (k + 1) * Rabs (mh' - (M + (x - M) / (k + 1)))
    <= (1 + u64) * (k * B + g64 2 * D + (k + 1) * eta64) + u64 * ((k + 1) * X).
Proof.
  intros Hk R2 R3 R5 H2 Emh HD HB HM'.
  assert (Hc : 0 < k + 1) by lra.
  set (M' := M + (x - M) / (k + 1)) in *.
  set (psi := f3 * f2).
  assert (Rpsi : rel 2 psi) by (unfold psi; apply (rel_mul 1 1); assumption).
  pose proof (rel_err _ _ Rpsi) as Epsi.
  pose proof (rel_abs _ _ R5) as A5. pose proof (rel_err _ _ R5) as E5.
  rewrite pu_1 in A5. rewrite g64_1 in E5.
  assert (Emh' : mh' = (mh + ((x - mh) * psi / (k + 1) + h2)) * f5).
  { rewrite Emh. unfold psi. f_equal. f_equal. f_equal. field. lra. }
  assert (Id : (k + 1) * (mh' - M')
               = (k * (mh - M) + (psi - 1) * (x - mh) + (k + 1) * h2) * f5 + (f5 - 1) * ((k + 1) * M')).
  { rewrite Emh'. unfold M'. apply wmean_core. lra. }
  assert (HD0 : 0 <= D) by (pose proof (Rabs_pos (x - mh)); lra).
  assert (HB0 : 0 <= B) by (pose proof (Rabs_pos (mh - M)); lra).
  assert (T1 : Rabs (k * (mh - M)) <= k * B).
  { rewrite Rabs_mult, (Rabs_pos_eq k) by lra. apply Rmult_le_compat_l; lra. }
  assert (T2 : Rabs ((psi - 1) * (x - mh)) <= g64 2 * D) by (apply Rabs_mul_le; assumption).
  assert (T3 : Rabs ((k + 1) * h2) <= (k + 1) * eta64).
  { rewrite Rabs_mult, (Rabs_pos_eq (k + 1)) by lra. apply Rmult_le_compat_l; lra. }
  assert (T4 : Rabs (k * (mh - M) + (psi - 1) * (x - mh) + (k + 1) * h2)
               <= k * B + g64 2 * D + (k + 1) * eta64).
  { eapply Rle_trans; [apply Rabs_triang|].
    eapply Rle_trans; [apply Rplus_le_compat_r; apply Rabs_triang|]. lra. }
  assert (T5 : Rabs ((f5 - 1) * ((k + 1) * M')) <= u64 * ((k + 1) * X)).
  { apply Rabs_mul_le; [exact E5|].
    rewrite Rabs_mult, (Rabs_pos_eq (k + 1)) by lra. apply Rmult_le_compat_l; lra. }
  replace ((k + 1) * Rabs (mh' - M')) with (Rabs ((k + 1) * (mh' - M')))
    by (rewrite Rabs_mult, (Rabs_pos_eq (k + 1)) by lra; reflexivity).
  rewrite Id. eapply Rle_trans; [apply Rabs_triang|]. apply Rplus_le_compat; [|exact T5].
  rewrite (Rmult_comm (1 + u64)). apply Rabs_mul_le; assumption.
Qed.

(* the running sum of squares; Bk, Bk1 bound the error of the mean before / after the step,
   D bounds |x - new computed mean| and |x - old exact mean| *)
Lemma wssq_step (S sh sh' x mh mh' M M' f3 f6 f8 h8 Bk Bk1 E D : R) :
  rel 1 f3 -> rel 1 f6 -> rel 1 f8 -> Rabs h8 <= eta64 ->
  sh' = ((x - mh') * f6 * ((x - mh) * f3) + sh) * f8 + h8 ->
  Rabs (x - mh') <= D -> Rabs (x - M) <= D ->
  Rabs (mh - M) <= Bk -> Rabs (mh' - M') <= Bk1 -> Rabs (sh - S) <= E ->
  0 <= S -> 0 <= (x - M') * (x - M) ->
  Rabs (sh' - (S + (x - M') * (x - M)))
    <= (1 + u64) * (E + g64 2 * ((x - M') * (x - M)) + (1 + g64 2) * (D * (Bk + Bk1)))
       + u64 * (S + (x - M') * (x - M)) + eta64.
Proof.
  intros R3 R6 R8 H8 Esh HD1 HD2 HBk HBk1 HE HS Hb.
  set (b := (x - M') * (x - M)) in *.
  set (a := (x - mh') * (x - mh)).
  set (chi := f6 * f3).
  assert (Rchi : rel 2 chi) by (unfold chi; apply (rel_mul 1 1); assumption).
  pose proof (rel_err _ _ Rchi) as Echi.
  pose proof (rel_abs _ _ R8) as A8. pose proof (rel_err _ _ R8) as E8.
  rewrite pu_1 in A8. rewrite g64_1 in E8.
  pose proof (g64_nonneg 2) as G2.
  assert (HD0 : 0 <= D) by (pose proof (Rabs_pos (x - M)); lra).
  assert (HBk0 : 0 <= Bk) by (pose proof (Rabs_pos (mh - M)); lra).
  assert (HBk10 : 0 <= Bk1) by (pose proof (Rabs_pos (mh' - M')); lra).
  assert (Q1 : Rabs (a - b) <= D * (Bk + Bk1)).
  { replace (a - b) with (- ((x - mh') * (mh - M)) + - ((mh' - M') * (x - M))) by (unfold a, b; ring).
    eapply Rle_trans; [apply Rabs_triang|]. rewrite !Rabs_Ropp.
    assert (P1 : Rabs ((x - mh') * (mh - M)) <= D * Bk) by (apply Rabs_mul_le; assumption).
    assert (P2 : Rabs ((mh' - M') * (x - M)) <= Bk1 * D) by (apply Rabs_mul_le; assumption).
    lra. }
  assert (Q2 : Rabs a <= b + D * (Bk + Bk1)).
  { replace a with (b + (a - b)) by ring. eapply Rle_trans; [apply Rabs_triang|].
    rewrite (Rabs_pos_eq b) by exact Hb. lra. }
  assert (Q0 : 0 <= D * (Bk + Bk1)) by (apply Rmult_le_pos; lra).
  assert (T1 : Rabs ((chi - 1) * a) <= g64 2 * (b + D * (Bk + Bk1))).
  { apply Rabs_mul_le; assumption. }
  assert (T3 : Rabs ((sh - S) + (chi - 1) * a + (a - b))
               <= E + g64 2 * b + (1 + g64 2) * (D * (Bk + Bk1))).
  { eapply Rle_trans; [apply Rabs_triang|].
    eapply Rle_trans; [apply Rplus_le_compat_r; apply Rabs_triang|]. lra. }
  assert (T4 : Rabs ((f8 - 1) * (S + b)) <= u64 * (S + b)).
  { apply Rabs_mul_le; [exact E8 | rewrite Rabs_pos_eq; lra]. }
  replace (sh' - (S + b)) with
    (((sh - S) + (chi - 1) * a + (a - b)) * f8 + (f8 - 1) * (S + b) + h8).
  2:{ rewrite Esh. unfold a, b, chi. symmetry.
      replace ((x - mh') * f6 * ((x - mh) * f3)) with ((x - mh') * (x - mh) * (f6 * f3)) by ring.
      apply wssq_core. }
  eapply Rle_trans; [apply Rabs_triang|]. apply Rplus_le_compat; [|exact H8].
  eapply Rle_trans; [apply Rabs_triang|]. apply Rplus_le_compat; [|exact T4].
  rewrite (Rmult_comm (1 + u64)). apply Rabs_mul_le; assumption.
Qed.

(* ------------------------------------------------------------------ *)
(* 3. Accumulated bounds                                               *)
(* ------------------------------------------------------------------ *)
Section WAcc.
(* N: total number of observations;  D >= max - min of the observations;  X >= |x_i| *)
Variables (N : nat) (D X : R).
Hypotheses (HD : 0 <= D) (HX : 0 <= X).

Definition wW : R := u64 * X + eta64.
Definition wcw (k : nat) : R := g64 2 * D + (INR k + 1) / 2 * wW.
(* bound on |mh_k - M_k| after k observations *)
Definition wBM (k : nat) : R := pu k * wcw k.

Lemma wW_nonneg : 0 <= wW.
Proof. unfold wW. pose proof u64_pos. pose proof eta64_pos. nra. Qed.
Lemma wcw_nonneg k : 0 <= wcw k.
Proof.
  unfold wcw. pose proof wW_nonneg. pose proof (pos_INR k). pose proof (g64_nonneg 2).
  assert (0 <= g64 2 * D) by (apply Rmult_le_pos; lra).
  assert (0 <= (INR k + 1) / 2 * wW) by (apply Rmult_le_pos; lra). lra.
Qed.
Lemma wcw_S k : wcw (S k) = wcw k + wW / 2.
Proof. unfold wcw. rewrite S_INR. field. Qed.
Lemma wBM_nonneg k : 0 <= wBM k.
Proof. unfold wBM. apply Rmult_le_pos; [apply Rlt_le, pu_pos | apply wcw_nonneg]. Qed.
Lemma wBM_S_mono k : wBM k <= wBM (S k).
Proof.
  unfold wBM. rewrite pu_S, wcw_S. pose proof (pu_ge_1 k). pose proof (wcw_nonneg k).
  pose proof wW_nonneg. pose proof u64_pos.
  assert (pu k * wcw k <= pu k * (1 + u64) * wcw k) by (apply Rmult_le_compat_r; [lra | nra]).
  assert (0 <= pu k * (1 + u64) * (wW / 2)) by (apply Rmult_le_pos; [nra | lra]).
  lra.
Qed.
Lemma wBM_mono a b : (a <= b)%nat -> wBM a <= wBM b.
Proof. intros H. induction H as [|b H IH]; [lra|]. pose proof (wBM_S_mono b). lra. Qed.

Lemma wBM_step k :
  (1 + u64) * (INR k * wBM k + g64 2 * D + (INR k + 1) * eta64) + u64 * ((INR k + 1) * X)
    <= (INR k + 1) * wBM (S k).
Proof.
  unfold wBM. rewrite pu_S. unfold wcw. rewrite S_INR.
  pose proof (pu_ge_1 k) as P. pose proof (pos_INR k) as Hk. pose proof u64_pos as Hu.
  pose proof eta64_pos as He. pose proof (g64_nonneg 2) as G2. pose proof wW_nonneg as HW.
  set (p := pu k) in *. set (t := INR k) in *. set (a := g64 2 * D).
  assert (Ha : 0 <= a) by (unfold a; apply Rmult_le_pos; lra).
  set (z := a + (t + 1) * wW).
  assert (Hz : 0 <= z) by (unfold z; assert (0 <= (t + 1) * wW) by (apply Rmult_le_pos; lra); lra).
  assert (K : (t + 1) * (p * (1 + u64) * (a + (t + 1 + 1) / 2 * wW))
              = (1 + u64) * (t * (p * (a + (t + 1) / 2 * wW))) + (1 + u64) * (p * z)) by (unfold z; field).
  rewrite K.
  assert (Z1 : z <= p * z) by nra.
  set (tx := (t + 1) * (u64 * X)).
  assert (Htx : 0 <= tx) by (unfold tx; apply Rmult_le_pos; [lra | nra]).
  assert (Z2 : z = a + (t + 1) * eta64 + tx) by (unfold z, tx, wW; ring).
  assert (Z3 : u64 * ((t + 1) * X) = tx) by (unfold tx; ring).
  assert (Z4 : 0 <= u64 * tx) by nra.
  assert (Z5 : (1 + u64) * z <= (1 + u64) * (p * z)) by (apply Rmult_le_compat_l; lra).
  rewrite Z3. rewrite Z2 in Z5 at 1. lra.
Qed.

(* the cumulative sum of the cores of wBM 1 .. wBM k *)
Fixpoint wcK (k : nat) : R := match k with O => 0 | S j => wcK j + wcw (S j) end.
Lemma wcK_closed k : wcK k = INR k * (g64 2 * D) + INR k * (INR k + 3) / 4 * wW.
Proof.
  induction k as [|k IH]; [cbn [wcK INR]; field|].
  cbn [wcK]. rewrite IH. unfold wcw. rewrite !S_INR. field.
Qed.
Lemma wcK_nonneg k : 0 <= wcK k.
Proof. induction k as [|k IH]; [cbn [wcK]; lra|]. cbn [wcK]. pose proof (wcw_nonneg (S k)). lra. Qed.

Definition wKc : R := 2 * D * (1 + g64 2) * pu N.
Lemma wKc_nonneg : 0 <= wKc.
Proof.
  unfold wKc. pose proof (g64_nonneg 2). pose proof (pu_pos N).
  apply Rmult_le_pos; [apply Rmult_le_pos|]; lra.
Qed.

(* bound on |sh_k - S_k| after k observations with exact sum of squares Sq *)
Definition wBS (k : nat) (Sq : R) : R :=
  pu k * ((g64 2 + INR k * u64) * Sq + wKc * wcK k + INR k * eta64).

Lemma wBS_nonneg k Sq : 0 <= Sq -> 0 <= wBS k Sq.
Proof.
  intros HS. unfold wBS. apply Rmult_le_pos; [apply Rlt_le, pu_pos|].
  pose proof (g64_nonneg 2). pose proof (pos_INR k). pose proof u64_pos. pose proof eta64_pos.
  pose proof wKc_nonneg. pose proof (wcK_nonneg k).
  assert (0 <= (g64 2 + INR k * u64) * Sq) by (apply Rmult_le_pos; nra).
  assert (0 <= wKc * wcK k) by (apply Rmult_le_pos; lra).
  assert (0 <= INR k * eta64) by nra. lra.
Qed.

Lemma wBS_step k Sq b : (S k <= N)%nat -> 0 <= Sq -> 0 <= b ->
  (1 + u64) * (wBS k Sq + g64 2 * b + (1 + g64 2) * (D * (wBM k + wBM (S k))))
    + u64 * (Sq + b) + eta64 <= wBS (S k) (Sq + b).
Proof.
  intros HkN HS Hb.
  pose proof (pu_ge_1 k) as P. pose proof (pos_INR k) as Hk. pose proof u64_pos as Hu.
  pose proof eta64_pos as He. pose proof (g64_nonneg 2) as G2.
  pose proof wKc_nonneg as HK. pose proof (wcK_nonneg k) as HcK. pose proof (wcw_nonneg (S k)) as Hcw.
  (* the cross term is at most wKc * wcw (S k) *)
  assert (T : (1 + g64 2) * (D * (wBM k + wBM (S k))) <= wKc * wcw (S k)).
  { pose proof (wBM_S_mono k) as M1. pose proof (wBM_nonneg k) as M0.
    assert (M2 : wBM (S k) <= pu N * wcw (S k)).
    { unfold wBM. apply Rmult_le_compat_r; [exact Hcw | apply pu_mono; exact HkN]. }
    assert (M3 : D * (wBM k + wBM (S k)) <= D * (2 * (pu N * wcw (S k)))) by (apply Rmult_le_compat_l; lra).
    replace (wKc * wcw (S k)) with ((1 + g64 2) * (D * (2 * (pu N * wcw (S k))))) by (unfold wKc; ring).
    apply Rmult_le_compat_l; lra. }
  unfold wBS. cbn [wcK]. rewrite pu_S, S_INR.
  set (p := pu k) in *. set (t := INR k) in *. set (cw := wcw (S k)) in *. set (cK := wcK k) in *.
  set (A := g64 2 * b + wKc * cw).
  assert (HA : 0 <= A).
  { unfold A. assert (0 <= g64 2 * b) by (apply Rmult_le_pos; lra).
    assert (0 <= wKc * cw) by (apply Rmult_le_pos; lra). lra. }
  set (t0 := (g64 2 + t * u64) * Sq + wKc * cK + t * eta64).
  assert (Ht0 : 0 <= t0).
  { unfold t0. assert (0 <= (g64 2 + t * u64) * Sq) by (apply Rmult_le_pos; nra).
    assert (0 <= wKc * cK) by (apply Rmult_le_pos; lra). assert (0 <= t * eta64) by nra. lra. }
  set (r := u64 * (Sq + b) + t * u64 * b + eta64).
  assert (Hr : 0 <= r).
  { unfold r. assert (0 <= u64 * (Sq + b)) by nra.
    assert (0 <= t * u64 * b) by (apply Rmult_le_pos; [nra | lra]). lra. }
  replace ((g64 2 + (t + 1) * u64) * (Sq + b) + wKc * (cK + cw) + (t + 1) * eta64)
    with (t0 + A + r) by (unfold t0, A, r; ring).
  assert (L : (1 + u64) * (p * t0 + g64 2 * b + (1 + g64 2) * (D * (wBM k + wBM (S k))))
              <= (1 + u64) * (p * t0 + A)).
  { apply Rmult_le_compat_l; [lra|]. unfold A. lra. }
  assert (M1 : (1 + u64) * A <= p * (1 + u64) * A).
  { rewrite <- (Rmult_1_l ((1 + u64) * A)) at 1. rewrite Rmult_assoc.
    apply Rmult_le_compat_r; [nra | lra]. }
  assert (M2 : u64 * (Sq + b) + eta64 <= p * (1 + u64) * r).
  { assert (1 * r <= p * (1 + u64) * r) by (apply Rmult_le_compat_r; [lra | nra]).
    assert (u64 * (Sq + b) + eta64 <= r).
    { unfold r. assert (0 <= t * u64 * b) by (apply Rmult_le_pos; [nra | lra]). lra. }
    lra. }
  lra.
Qed.
End WAcc.

(* ------------------------------------------------------------------ *)
(* 4. Polynomial form under  n u <= 1/64                               *)
(* ------------------------------------------------------------------ *)
Lemma u64_tiny' : u64 <= / 1048576.
Proof. unfold u64. change (/ 1048576) with (bpow radix2 (-20)). apply bpow_le. lia. Qed.

Lemma g64_2_small : g64 2 <= 2001 / 1000 * u64.
Proof. unfold g64. pose proof u64_tiny'. pose proof u64_pos. nra. Qed.

Lemma pu_n_small' (n : nat) : INR n * u64 <= / 64 -> pu n <= 61 / 60.
Proof.
  intros Hn. rewrite pu_g.
  assert (H1 : INR n * u64 <= 1) by lra.
  pose proof (g64_poly n H1) as G.
  assert (0 <= INR n * u64) by (apply Rmult_le_pos; [apply pos_INR | apply Rlt_le, u64_pos]).
  nra.
Qed.

(* |mean_fl - mean| <= 2.05 u D + 0.51 (n + 1) (u X + eta) *)
Definition wMp (n : nat) (D X : R) : R :=
  41 / 20 * u64 * D + 61 / 120 * (INR n + 1) * (u64 * X + eta64).
(* |sum_sq_fl - S| <= (1.02 n + 2.05) u S + D (4.25 n u D + 0.525 n (n + 3) (u X + eta)) + 1.02 n eta *)
Definition wSp (n : nat) (D X Sq : R) : R :=
  (61 / 60 * INR n + 41 / 20) * u64 * Sq
  + D * (17 / 4 * INR n * u64 * D + 21 / 40 * INR n * (INR n + 3) * (u64 * X + eta64))
  + 61 / 60 * INR n * eta64.

Section WPoly.
Variable n : nat.
Hypothesis Hn : INR n * u64 <= / 64.
Variables D X : R.
Hypotheses (HD : 0 <= D) (HX : 0 <= X).
Let t := INR n.

Lemma wBM_poly : wBM D X n <= wMp n D X.
Proof.
  unfold wBM, wcw, wMp. fold (wW X). fold t.
  pose proof (pu_n_small' n Hn) as Pn. pose proof (pu_pos n) as Pn0.
  pose proof g64_2_small as G2s. pose proof (g64_nonneg 2) as G2.
  pose proof (wW_nonneg X HX) as HW. pose proof u64_pos as Hu.
  assert (Ht : 0 <= t) by apply pos_INR.
  assert (A1 : g64 2 * D <= 2001 / 1000 * u64 * D) by (apply Rmult_le_compat_r; lra).
  assert (A2 : 0 <= (t + 1) / 2 * wW X) by (apply Rmult_le_pos; lra).
  assert (A0 : 0 <= g64 2 * D) by (apply Rmult_le_pos; lra).
  assert (A3 : pu n * (g64 2 * D + (t + 1) / 2 * wW X)
               <= 61 / 60 * (2001 / 1000 * u64 * D + (t + 1) / 2 * wW X)).
  { apply Rmult_le_compat; lra. }
  eapply Rle_trans; [exact A3|].
  assert (0 <= u64 * D) by nra.
  assert (0 <= (t + 1) * wW X) by (apply Rmult_le_pos; lra).
  lra.
Qed.

Variable Sq : R.
Hypothesis HSq : 0 <= Sq.

Lemma wBS_poly : wBS n D X n Sq <= wSp n D X Sq.
Proof.
  unfold wBS, wSp. rewrite wcK_closed. unfold wKc. fold (wW X). fold t.
  pose proof (pu_n_small' n Hn) as Pn. pose proof (pu_pos n) as Pn0. pose proof (pu_ge_1 n) as Pn1.
  pose proof g64_2_small as G2s. pose proof (g64_nonneg 2) as G2.
  pose proof (wW_nonneg X HX) as HW. pose proof u64_pos as Hu. pose proof eta64_pos as He.
  pose proof u64_tiny' as Hut.
  assert (Ht : 0 <= t) by apply pos_INR.
  (* monomials *)
  set (m1 := u64 * Sq). set (m2 := t * (u64 * Sq)).
  set (d1 := t * (u64 * (D * D))). set (d2 := t * (t + 3) * (D * wW X)). set (e1 := t * eta64).
  assert (H1 : 0 <= m1) by (unfold m1; nra).
  assert (H2 : 0 <= m2) by (unfold m2; apply Rmult_le_pos; [lra | nra]).
  assert (HDD : 0 <= D * D) by nra.
  assert (H3 : 0 <= d1) by (unfold d1; apply Rmult_le_pos; [lra | nra]).
  assert (H4 : 0 <= d2).
  { unfold d2. apply Rmult_le_pos; [apply Rmult_le_pos; lra | apply Rmult_le_pos; lra]. }
  assert (H5 : 0 <= e1) by (unfold e1; nra).
  assert (A : (g64 2 + t * u64) * Sq <= m2 + 2001 / 1000 * m1).
  { replace (m2 + 2001 / 1000 * m1) with ((2001 / 1000 * u64 + t * u64) * Sq) by (unfold m1, m2; ring).
    apply Rmult_le_compat_r; lra. }
  assert (Kc : 2 * D * (1 + g64 2) * pu n <= 41 / 20 * D).
  { assert (g64 2 <= / 1000) by lra.
    assert ((1 + g64 2) * pu n <= (1 + / 1000) * (61 / 60)) by (apply Rmult_le_compat; lra).
    replace (2 * D * (1 + g64 2) * pu n) with (D * (2 * ((1 + g64 2) * pu n))) by ring.
    rewrite (Rmult_comm (41 / 20)). apply Rmult_le_compat_l; lra. }
  assert (Kc0 : 0 <= 2 * D * (1 + g64 2) * pu n).
  { apply Rmult_le_pos; [apply Rmult_le_pos|]; lra. }
  assert (cK1 : t * (g64 2 * D) + t * (t + 3) / 4 * wW X
                <= 2001 / 1000 * (t * (u64 * D)) + t * (t + 3) / 4 * wW X).
  { assert (t * (g64 2 * D) <= t * (2001 / 1000 * u64 * D)).
    { apply Rmult_le_compat_l; [lra|]. apply Rmult_le_compat_r; lra. }
    lra. }
  assert (cK0 : 0 <= t * (g64 2 * D) + t * (t + 3) / 4 * wW X).
  { assert (0 <= t * (g64 2 * D)) by (apply Rmult_le_pos; [lra | apply Rmult_le_pos; lra]).
    assert (0 <= t * (t + 3) / 4 * wW X).
    { apply Rmult_le_pos; [|lra]. assert (0 <= t * (t + 3)) by (apply Rmult_le_pos; lra). lra. }
    lra. }
  assert (B : 2 * D * (1 + g64 2) * pu n * (t * (g64 2 * D) + t * (t + 3) / 4 * wW X)
              <= 41 / 20 * (2001 / 1000) * d1 + 41 / 80 * d2).
  { replace (41 / 20 * (2001 / 1000) * d1 + 41 / 80 * d2)
      with (41 / 20 * D * (2001 / 1000 * (t * (u64 * D)) + t * (t + 3) / 4 * wW X))
      by (unfold d1, d2; field).
    apply Rmult_le_compat; lra. }
  set (T := (g64 2 + t * u64) * Sq
            + 2 * D * (1 + g64 2) * pu n * (t * (g64 2 * D) + t * (t + 3) / 4 * wW X) + t * eta64) in *.
  assert (T0 : 0 <= T).
  { unfold T. assert (0 <= (g64 2 + t * u64) * Sq) by (apply Rmult_le_pos; nra).
    assert (0 <= 2 * D * (1 + g64 2) * pu n * (t * (g64 2 * D) + t * (t + 3) / 4 * wW X))
      by (apply Rmult_le_pos; lra).
    fold e1. lra. }
  assert (DD : pu n * T <= 61 / 60 * T) by (apply Rmult_le_compat_r; lra).
  eapply Rle_trans; [exact DD|].
  replace ((61 / 60 * t + 41 / 20) * u64 * Sq
           + D * (17 / 4 * t * u64 * D + 21 / 40 * t * (t + 3) * wW X) + 61 / 60 * t * eta64)
    with (61 / 60 * m2 + 41 / 20 * m1 + 17 / 4 * d1 + 21 / 40 * d2 + 61 / 60 * e1)
    by (unfold m1, m2, d1, d2, e1; ring).
  unfold T. fold e1. lra.
Qed.
End WPoly.
