(* Exact rational instance, used to evaluate the reference semantics of the covariance model on
   the (dyadic) input values and to bound the implementation's floating-point result. *)
From Coq Require Import ZArith QArith Qabs List Bool.
From Flocq Require Import Core BinarySingleNaN.
From NS Require Import Num.Ops Num.F64.

Definition Q_ops : ops Q := {|
  o_zero := 0; o_one := 1;
  o_add := fun a b => Qred (a + b); o_sub := fun a b => Qred (a - b);
  o_mul := fun a b => Qred (a * b); o_div := fun a b => Qred (a / b);
  o_neg := Qopp; o_abs := Qabs; o_sqrt := fun x => x;
  o_of_nat := fun n => inject_Z (Z.of_nat n);
  o_is_zero := fun x => Qeq_bool x 0;
  o_ltb := fun a b => negb (Qle_bool b a);
  o_ln := fun x => x; o_exp := fun x => x |}.

(* exact value of a finite binary64 *)
Definition f64_to_Q (x : F64) : option Q :=
  match x with
  | BinarySingleNaN.B754_zero _ => Some 0%Q
  | BinarySingleNaN.B754_finite s m e _ =>
    let mz := if s then Zneg m else Zpos m in
    Some (if (0 <=? e)%Z then inject_Z (mz * 2 ^ e) else Qred (Qmake mz (Z.to_pos (2 ^ (- e)))))
  | _ => None
  end.
