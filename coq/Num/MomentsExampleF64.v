(* The real-number hypotheses of kurtosis_error / skewness_error (Num/MomentsCorF64.v) are
   satisfiable: they are discharged for the data exm_xs = [1; 2; 4; 7; 11; 16; 22] (mean 9,
   mu_2 = 52), through the closed form of the bound (Num/MomentsBoundF64.v):
   cm_err exm_xs 7 2 <= 1/1000, hence the denominators are within a quarter of their exact values. *)
From Flocq Require Import Core BinarySingleNaN Plus_error Relative.
Require Import Reals Lra Lia ZArith Psatz Bool List Arith Permutation.
From NS Require Import Num.F64 Num.Ops Num.F64Inst Num.Kernels Num.SumBridge Num.SumF64
  Quantile.IndexProofs Quantile.InterpF64 Num.DeviationF64 Num.MeansF64 Num.CovF64 Num.PowiF64
  Num.MomentsErrF64 Num.HornerF64 Num.CentralMomentF64 Num.MomentsBoundF64 Num.CentralMomentRepF64
  Num.MomentsBoundRepF64 Num.MomentsCorF64.
Import ListNotations.
Open Scope R_scope.

Lemma map_B2R_of_Z (l : list Z) : Forall (fun z => (0 <= z <= 2 ^ 53)%Z) l ->
  map B2R (map f64_of_Z l) = map IZR l.
Proof.
  intros H. induction H as [|z l Hz H IH]; cbn [map]; [reflexivity|].
  rewrite (proj2 (f64_of_Z_exact z Hz)), IH. reflexivity.
Qed.

Lemma exm_vals : map B2R exm_xs = [1; 2; 4; 7; 11; 16; 22].
Proof. unfold exm_xs. rewrite map_B2R_of_Z by (repeat constructor; lia). reflexivity. Qed.

Lemma exm_len : length exm_xs = 7%nat. Proof. reflexivity. Qed.

Lemma exm_mean : meanR exm_xs = 9.
Proof. unfold meanR. rewrite exm_vals, exm_len. unfold Rsum. cbn [fold_right]. simpl INR. lra. Qed.

Lemma exm_cmu k : cmu exm_xs k = Rsum (map (fun v => (v - 9) ^ k) [1; 2; 4; 7; 11; 16; 22]) / 7.
Proof.
  unfold cmu. rewrite exm_mean, exm_len, <- (map_map B2R (fun v => (v - 9) ^ k)), exm_vals.
  simpl INR. f_equal. lra.
Qed.

Lemma exm_mu2 : cmu exm_xs 2 = 52.
Proof. rewrite exm_cmu. unfold Rsum. cbn [map fold_right]. simpl pow. lra. Qed.

Lemma u64_le_2p40 : u64 <= / 1099511627776.
Proof.
  unfold u64. apply Rle_trans with (bpow radix2 (-40)); [apply bpow_le; lia|]. simpl. lra.
Qed.
Lemma eta64_le_u64 : eta64 <= u64.
Proof. unfold eta64, u64. apply bpow_le. lia. Qed.

Lemma g64_lin_small k : (k <= 1000)%nat -> g64 k <= 2 * INR k * u64.
Proof.
  intros Hk. apply g64_le_lin. pose proof u64_le_2p40 as Hu. pose proof u64_pos as Hu0.
  assert (INR k <= 1000) by (replace 1000 with (INR 1000) by (simpl; lra); apply le_INR; exact Hk).
  nra.
Qed.

(* mdelta, the deviations, A_1, A_2 *)
Lemma exm_mdelta : mdelta exm_xs <= 400 * u64.
Proof.
  unfold mdelta. rewrite exm_vals, exm_len. unfold Rasum. cbn [fold_right].
  rewrite !Rabs_pos_eq by lra. simpl INR.
  pose proof (g64_lin_small 21 ltac:(lia)) as G. simpl INR in G. pose proof eta64_le_u64. pose proof u64_pos.
  change (7 + 14)%nat with 21%nat. lra.
Qed.

Lemma exm_sdev x : In x exm_xs -> sdev exm_xs x <= 14.
Proof.
  intros Hx. unfold sdev. rewrite exm_mean.
  pose proof exm_mdelta as D. pose proof u64_le_2p40 as Hu. pose proof u64_pos as Hu0.
  apply (in_map B2R) in Hx. rewrite exm_vals in Hx. cbn [In] in Hx.
  assert (Rabs (B2R x - 9) <= 13); [|lra].
  apply Rabs_le. repeat (destruct Hx as [<-|Hx]; [lra|]). elim Hx.
Qed.

Lemma exm_A1 : Amom exm_xs 1 <= 14.
Proof. rewrite <- (pow_1 14). apply Amom_le_pow; [rewrite exm_len; lia|exact exm_sdev]. Qed.
Lemma exm_A2 : Amom exm_xs 2 <= 196.
Proof. replace 196 with (14 ^ 2) by (simpl; lra). apply Amom_le_pow; [rewrite exm_len; lia|exact exm_sdev]. Qed.

(* the constants of the closed form at n = 7, p = 2, th = 4 *)
Lemma exm_K : cmK 2 4 = 128. Proof. unfold cmK. simpl. lra. Qed.

Lemma exm_T : cmT 2 = 16. Proof. unfold cmT. simpl. lra. Qed.

Lemma exm_G : cmG 7 2 <= / 1000.
Proof.
  unfold cmG. pose proof (g64_lin_small (7 + 2 * 2 + 15) ltac:(lia)) as G. simpl INR in G.
  pose proof u64_le_2p40. pose proof u64_pos. lra.
Qed.

Lemma exm_D2 : 0 <= cmD2 7 2 4 <= 13312 * u64.
Proof.
  pose proof u64_le_2p40 as Hu. pose proof u64_pos as Hu0.
  destruct (cmD2_first_order 7 2 4 ltac:(lra) ltac:(simpl INR; lra)) as [D0 D]. split; [exact D0|].
  eapply Rle_trans; [exact D|]. rewrite exm_K. simpl INR. lra.
Qed.

Lemma exm_D1 : 0 <= cmD1 7 2 4 <= 24114 * u64.
Proof.
  pose proof u64_le_2p40 as Hu. pose proof u64_pos as Hu0. split.
  - unfold cmD1. destruct exm_D2 as [D0 _].
    pose proof (g64_nonneg (2 - 1)). pose proof (g64_nonneg (7 + 16)). pose proof (g64_nonneg (2 * 3)).
    pose proof (g64_nonneg (7 + 2 * 2 + 14)) as Gc0. fold (cmGc 7 2) in Gc0.
    pose proof (g64_nonneg (7 + 2 * 2 + 15)) as G0. fold (cmG 7 2) in G0.
    rewrite exm_K, exm_T. unfold cmr1. simpl INR. simpl pow.
    assert (0 <= cmD2 7 2 4 * g64 (7 + 16)) by (apply Rmult_le_pos; lra). nra.
  - eapply Rle_trans; [apply cmD1_first_order; [lia|lra|simpl INR; lra]|].
    rewrite exm_K, exm_T. simpl INR. simpl pow. lra.
Qed.

Lemma exm_D3 : 0 <= cmD3 7 2 4 <= 2000.
Proof.
  unfold cmD3, cmr1, cmr2, cmr3. rewrite exm_K, exm_T. pose proof exm_G as HG.
  pose proof (g64_nonneg (7 + 2 * 2 + 15)) as G0. fold (cmG 7 2) in G0. set (G := cmG 7 2) in *.
  pose proof u64_le_2p40 as Hu. pose proof u64_pos as Hu0. destruct exm_D2 as [D20 D2].
  pose proof (g64_lin_small (2 * 3) ltac:(lia)) as G6. pose proof (g64_nonneg (2 * 3)) as G60.
  pose proof (g64_lin_small (2 * 2 + 1) ltac:(lia)) as G5. pose proof (g64_nonneg (2 * 2 + 1)) as G50.
  simpl INR in *. simpl pow.
  set (g6 := g64 (2 * 3)) in *. set (g5 := g64 (2 * 2 + 1)) in *. set (D := cmD2 7 2 4) in *.
  assert (H6 : g6 <= / 1000) by lra. assert (H5 : g5 <= / 1000) by lra. assert (HD : D <= / 1000) by lra.
  set (r3 := (1 + 1) * (1 + G) + 1). assert (R3 : 3 <= r3 <= 4) by (unfold r3; lra).
  set (r2 := r3 * (1 + u64) + 1). assert (R2 : 4 <= r2 <= 6) by (unfold r2; split; nra).
  assert (T6 : 0 <= g6 * ((1 + 1 + 1) * 128 * r2) <= 3).
  { split; [apply Rmult_le_pos; lra|]. replace 3 with (/ 1000 * 3000) by lra. apply Rmult_le_compat; lra. }
  assert (T7 : 0 <= D * (2 + G) <= 1).
  { split; [apply Rmult_le_pos; lra|]. replace 1 with (/ 1000 * 1000) by lra. apply Rmult_le_compat; lra. }
  assert (T8 : 0 <= u64 * r3 <= 1) by (split; nra).
  split; nra.
Qed.

(* the error bound of the second central moment (repaired routine) is tiny *)
Lemma exm_e2 : 0 <= cm_err exm_xs 7 2 <= / 1000.
Proof.
  split.
  - pose proof (central_moment_error [] [] exm_pl1 exm_xs 2 7 exm_pl1_ok eq_refl ltac:(lia) ltac:(lia) ltac:(lia)
                  ltac:(vm_compute; reflexivity)) as E.
    pose proof (Rabs_pos (B2R (central_moment (f64_ops [] []) exm_pl1 exm_xs 2) - cmu exm_xs 2)).
    unfold cm_err. lra.
  - pose proof u64_le_2p40 as Hu. pose proof u64_pos as Hu0. pose proof eta64_le_u64 as He. pose proof eta64_pos as He0.
    unfold cm_err. eapply Rle_trans.
    { apply (cm_bound_rep_Amom_closed exm_xs 7 2 eq_refl); [lia|lia|].
      apply g64_small_of_lin. simpl INR. lra. }
    change (2 - 1)%nat with 1%nat.
    destruct exm_D1 as [K1 C1]. destruct exm_D2 as [K2 C2]. pose proof exm_D3 as C3.
    pose proof exm_A1 as A1. pose proof exm_A2 as A2. pose proof exm_mdelta as D.
    pose proof (Amom_nonneg exm_xs 1) as A10. pose proof (Amom_nonneg exm_xs 2) as A20.
    pose proof (mdelta_pos exm_xs) as D0.
    assert (T1 : cmD1 7 2 4 * Amom exm_xs 2 <= (24114 * u64) * 196) by (apply Rmult_le_compat; lra).
    assert (T2 : mdelta exm_xs * Amom exm_xs 1 <= (400 * u64) * 14) by (apply Rmult_le_compat; lra).
    assert (T2' : cmD2 7 2 4 * (mdelta exm_xs * Amom exm_xs 1) <= (13312 * u64) * ((400 * u64) * 14)).
    { apply Rmult_le_compat; [lra|apply Rmult_le_pos; lra|lra|lra]. }
    assert (T3 : eta64 * (1 + Amom exm_xs 2) <= u64 * 197) by (apply Rmult_le_compat; lra).
    assert (T3' : cmD3 7 2 4 * (eta64 * (1 + Amom exm_xs 2)) <= 2000 * (u64 * 197)).
    { apply Rmult_le_compat; [lra|apply Rmult_le_pos; lra|lra|lra]. }
    assert (UU : u64 * u64 <= u64 * / 1099511627776) by (apply Rmult_le_compat_l; lra).
    replace (13312 * u64 * (400 * u64 * 14)) with (74547200 * (u64 * u64)) in T2' by ring.
    lra.
Qed.

(* every hypothesis of kurtosis_error holds on this run *)
Example kurtosis_error_example :
  let mu2 := cmu exm_xs 2 in let mu4 := cmu exm_xs 4 in
  let e2 := cm_err exm_xs 7 2 in let e4 := cm_err exm_xs 7 4 in
  let eD := g64 2 * (Rabs mu2 + e2) ^ 2 + INR 2 * (1 + g64 2) * eta64 + e2 * (2 * Rabs mu2 + e2) in
  Rabs (B2R (kurtosis OE exm_pl1 exm_xs) - mu4 / mu2 ^ 2)
    <= 4 / 3 * (e4 + Rabs mu4 * (eD / mu2 ^ 2)) / mu2 ^ 2 * (1 + u64) + Rabs (mu4 / mu2 ^ 2) * u64 + eta64.
Proof.
  destruct kurtosis_skewness_finite_example as (F1 & F2 & _).
  apply (kurtosis_error [] [] exm_pl1 exm_xs 7 exm_pl1_ok eq_refl ltac:(lia) ltac:(lia) F1 F2).
  - rewrite exm_mu2. lra.
  - rewrite exm_mu2. destruct exm_e2 as [E0 E1]. set (e2 := cm_err exm_xs 7 2) in *.
    pose proof u64_le_2p40 as Hu. pose proof u64_pos as Hu0. pose proof eta64_le_u64 as He. pose proof eta64_pos as He0.
    pose proof (g64_lin_small 2 ltac:(lia)) as G2. pose proof (g64_nonneg 2) as G20. simpl INR in *.
    rewrite (Rabs_pos_eq 52) by lra. simpl pow. nra.
Qed.

(* ... and every hypothesis of skewness_error *)
Lemma sqrt52 : 7 <= sqrt 52 <= 8.
Proof.
  split.
  - replace 7 with (sqrt (7 * 7)) by (apply sqrt_square; lra). apply sqrt_le_1_alt. lra.
  - replace 8 with (sqrt (8 * 8)) by (apply sqrt_square; lra). apply sqrt_le_1_alt. lra.
Qed.

Example skewness_error_example :
  let mu2 := cmu exm_xs 2 in let mu3 := cmu exm_xs 3 in
  let e2 := cm_err exm_xs 7 2 in let e3 := cm_err exm_xs 7 3 in
  let s := sqrt mu2 in
  let es := e2 / s * (1 + u64) + s * u64 + eta64 in
  let eD := g64 3 * (s + es) ^ 3 + INR 3 * (1 + g64 3) * eta64 + ((s + es) ^ 3 - s ^ 3) in
  Rabs (B2R (skewness OE exm_pl1 exm_xs) - mu3 / s ^ 3)
    <= 4 / 3 * (e3 + Rabs mu3 * (eD / s ^ 3)) / s ^ 3 * (1 + u64) + Rabs (mu3 / s ^ 3) * u64 + eta64.
Proof.
  destruct kurtosis_skewness_finite_example as (_ & _ & F1 & F2 & _).
  destruct exm_e2 as [E0 E1].
  apply (skewness_error [] [] exm_pl1 exm_xs 7 exm_pl1_ok eq_refl ltac:(lia) ltac:(lia) F1 F2).
  - rewrite exm_mu2. lra.
  - rewrite exm_mu2. lra.
  - rewrite exm_mu2. set (e2 := cm_err exm_xs 7 2) in *.
    pose proof sqrt52 as [S1 S2]. set (s := sqrt 52) in *.
    pose proof u64_le_2p40 as Hu. pose proof u64_pos as Hu0. pose proof eta64_le_u64 as He. pose proof eta64_pos as He0.
    pose proof (g64_lin_small 3 ltac:(lia)) as G3. pose proof (g64_nonneg 3) as G30. simpl INR in *.
    set (es := e2 / s * (1 + u64) + s * u64 + eta64).
    assert (Es : 0 <= es <= / 1000).
    { unfold es. assert (Q : 0 <= e2 / s <= / 7000).
      { unfold Rdiv. assert (iS : 0 < / s <= / 7).
        { split; [apply Rinv_0_lt_compat; lra|apply Rinv_le_contravar; lra]. }
        split; [apply Rmult_le_pos; lra|]. replace (/ 7000) with (/ 1000 * / 7) by lra.
        apply Rmult_le_compat; lra. }
      split; [nra|nra]. }
    pose proof (pow_diff_le s es 3 ltac:(lra) (proj1 Es)) as Pd. simpl INR in Pd. change (3 - 1)%nat with 2%nat in Pd.
    assert (B2 : (s + es) ^ 2 <= 81) by (simpl pow; nra).
    assert (B3 : (s + es) ^ 3 <= 729) by (simpl pow; nra).
    assert (B0 : 343 <= s ^ 3) by (simpl pow; nra).
    assert (Pd' : (s + es) ^ 3 - s ^ 3 <= (1 + 1 + 1) * (/ 1000) * 81).
    { eapply Rle_trans; [exact Pd|]. apply Rmult_le_compat; [nra|apply pow_le; lra|nra|exact B2]. }
    assert (Gt : g64 3 * (s + es) ^ 3 <= (6 * u64) * 729).
    { apply Rmult_le_compat; [lra|apply pow_le; lra|lra|exact B3]. }
    nra.
Qed.

Print Assumptions kurtosis_error_example.
Print Assumptions skewness_error_example.
