(* The kernels over unbounded integers (integer element types without overflow). *)
From Coq Require Import ZArith List.
From NS Require Import Num.Ops.
Local Open Scope Z_scope.

Definition Z_ops : ops Z := {|
  o_zero := 0; o_one := 1;
  o_add := Z.add; o_sub := Z.sub; o_mul := Z.mul; o_div := Z.quot;   (* Rust's / truncates *)
  o_neg := Z.opp; o_abs := Z.abs; o_sqrt := Z.sqrt;
  o_of_nat := Z.of_nat;
  o_is_zero := fun x => Z.eqb x 0;
  o_ltb := Z.ltb;
  o_ln := fun x => x; o_exp := fun x => x |}.
