(* West's incremental weighted variance (src/summary_statistics/means.rs inner_weighted_var) in
   IEEE-754 binary64.

   DEFECT D6 (Num/Kernels.v west_step_v1 / west_v1, the pre-repair loop
   [m' = m + (w / wsum') * (x - m);  s' = s + w * (x - m) * (x - m')]).
   With non-negative weights the computed sum of squares [s] can become NEGATIVE (so
   weighted_var < 0 and weighted_std = NaN): when a weight [w] absorbs the running weight sum
   ([fl(wsum + w) = w] with [wsum > 0]) the ratio [w / wsum'] is exactly 1 and the new mean is
   [fl(m + fl(x - m))], which can overshoot [x]; then [(x - m)] and [(x - m')] have opposite
   signs.  [west_v1_nonneg_refuted] exhibits data = [-1; 3*2^-54], weights = [2^-100; 1].
   Sections 1-6: under a no-absorption side condition (for every non-zero weight either nothing
   was accumulated before, or [w < fl(wsum + w)]) every increment of the old loop is >= 0,
   [s >= 0] throughout, the result is >= 0, and the running mean stays within the data range.

   REPAIRED LOOP (Num/Kernels.v west_step / west, West's original update
   [inc = (w / wsum') * (x - m);  m' = m + inc;  s' = s + wsum * inc * (x - m)], wsum the OLD
   weight sum).  Sections 7-8: UNCONDITIONALLY, for non-negative weights and finite states,
   every increment is >= 0, [s >= 0] throughout and the result is never NaN and >= 0
   ([west_step_s_nonneg], [west_s_nonneg_f64], [west_nonneg_f64]). *)
From Flocq Require Import Core BinarySingleNaN Plus_error Relative.
Require Import Reals Lra Lia ZArith Psatz Bool List.
From NS Require Import Num.F64 Num.Ops Num.F64Inst Num.Kernels Num.SumBridge Num.SumF64.
From NS Require Import Quantile.IndexProofs Quantile.InterpF64.
Import ListNotations.
Open Scope R_scope.

Local Instance prec64_gt_0W : Prec_gt_0 53 := Hprec64.
Local Instance vexp64W : Valid_exp fx := fexp_correct 53 1024 Hprec64.

Definition OW : ops F64 := f64_ops [] [].

(* ------------------------------------------------------------------ *)
(* 0. Refutation of unconditional non-negativity                       *)
(* ------------------------------------------------------------------ *)
(* data    = [-1.0 ; 0x1.8p-53]   bits 0xbff0000000000000, 0x3ca8000000000000
   weights = [0x1p-100 ; 1.0]     bits 0x39b0000000000000, 0x3ff0000000000000
   result  = -0x1.0000000000001p-54  bits 0xbc90000000000001 *)
Definition cx_data : list F64 := [f64_of_bits 0xbff0000000000000; f64_of_bits 0x3ca8000000000000].
Definition cx_ws : list F64 := [f64_of_bits 0x39b0000000000000; f64_of_bits 0x3ff0000000000000].

Lemma cx_v1_value : bits_of_f64 (west_v1 OW cx_data cx_ws fzero) = 0xbc90000000000001%Z.
Proof. vm_compute. reflexivity. Qed.

Lemma flt_spec (a b : F64) :
  fis_finite a = true -> fis_finite b = true -> (flt a b = true <-> B2R a < B2R b).
Proof.
  intros Fa Fb. unfold flt, fcmp.
  rewrite (Bcompare_correct 53 1024 a b Fa Fb).
  destruct (Rcompare_spec (B2R a) (B2R b)) as [H | H | H]; split; intros H'; try reflexivity; try lra; discriminate.
Qed.

Lemma feq_spec (a b : F64) :
  fis_finite a = true -> fis_finite b = true -> (feq a b = true <-> B2R a = B2R b).
Proof.
  intros Fa Fb. unfold feq, fcmp.
  rewrite (Bcompare_correct 53 1024 a b Fa Fb).
  destruct (Rcompare_spec (B2R a) (B2R b)) as [H | H | H]; split; intros H'; try reflexivity; try lra; discriminate.
Qed.

Lemma is_zero_spec (w : F64) : fis_finite w = true -> (o_is_zero OW w = true <-> B2R w = 0).
Proof. intros Fw. change (o_is_zero OW w) with (feq w fzero). rewrite (feq_spec w fzero Fw eq_refl). reflexivity. Qed.

(* the final accumulator triple of the run *)
Definition west_v1_final (data ws : list F64) : F64 * F64 * F64 :=
  fold_left (west_step_v1 OW) (combine data ws) (fzero, fzero, fzero).

Lemma west_v1_unfold data ws ddof :
  west_v1 OW data ws ddof =
  let '(wsum, m, s) := west_v1_final data ws in fdiv s (fsub wsum ddof).
Proof. reflexivity. Qed.

Theorem west_v1_nonneg_refuted : exists data ws : list F64,
  length data = length ws /\
  Forall (fun x => fis_finite x = true) data /\
  Forall (fun w => fis_finite w = true /\ 0 < B2R w) ws /\
  (let '(wsum, m, s) := west_v1_final data ws in
   fis_finite wsum = true /\ fis_finite m = true /\ fis_finite s = true /\
   B2R s < 0 /\ B2R fzero < B2R wsum) /\
  fis_finite (west_v1 OW data ws fzero) = true /\
  B2R (west_v1 OW data ws fzero) < 0.
Proof.
  exists cx_data, cx_ws.
  assert (Pos : forall w, fis_finite w = true -> flt fzero w = true -> fis_finite w = true /\ 0 < B2R w).
  { intros w Fw H. split; [exact Fw|]. apply (flt_spec fzero w eq_refl Fw) in H. exact H. }
  split; [reflexivity|]. split; [|split; [|split; [|split]]].
  - repeat constructor.
  - repeat constructor; apply Pos; vm_compute; reflexivity.
  - destruct (west_v1_final cx_data cx_ws) as [[wsum m] s] eqn:E.
    assert (Ew : wsum = fst (fst (west_v1_final cx_data cx_ws))) by (rewrite E; reflexivity).
    assert (Em : m = snd (fst (west_v1_final cx_data cx_ws))) by (rewrite E; reflexivity).
    assert (Es : s = snd (west_v1_final cx_data cx_ws)) by (rewrite E; reflexivity).
    assert (Fw : fis_finite wsum = true) by (rewrite Ew; vm_compute; reflexivity).
    assert (Fm : fis_finite m = true) by (rewrite Em; vm_compute; reflexivity).
    assert (Fs : fis_finite s = true) by (rewrite Es; vm_compute; reflexivity).
    split; [exact Fw|]. split; [exact Fm|]. split; [exact Fs|]. split.
    + apply (flt_spec s fzero Fs eq_refl). rewrite Es. vm_compute. reflexivity.
    + apply (flt_spec fzero wsum eq_refl Fw). rewrite Ew. vm_compute. reflexivity.
  - vm_compute. reflexivity.
  - assert (Fr : fis_finite (west_v1 OW cx_data cx_ws fzero) = true) by (vm_compute; reflexivity).
    apply (flt_spec _ fzero Fr eq_refl). vm_compute. reflexivity.
Qed.

(* ------------------------------------------------------------------ *)
(* 1. Real-number core: one update of the mean with a ratio r < 1      *)
(* ------------------------------------------------------------------ *)
Lemma fmt_0 : fmt 0. Proof. apply generic_format_0. Qed.
Lemma fmt_1 : fmt 1. Proof. change 1 with (bpow radix2 0). apply fmt_bpow. lia. Qed.
Lemma fmt_opp x : fmt x -> fmt (- x). Proof. apply generic_format_opp. Qed.

Lemma u64_two : bpow radix2 (1 - 53) = 2 * u64.
Proof. unfold u64. change (1 - 53)%Z with (1 + -53)%Z. rewrite bpow_plus. change (bpow radix2 1) with 2. reflexivity. Qed.

(* a binary64 number below 1 is at most 1 - 2^-53 *)
Lemma fmt_lt_1 (r : R) : fmt r -> r < 1 -> r <= 1 - u64.
Proof.
  intros Gr Hr.
  pose proof (pred_ge_gt radix2 fx r 1 Gr fmt_1 Hr) as H.
  assert (E : pred radix2 fx 1 = 1 - u64).
  { change 1 with (bpow radix2 0) at 1. rewrite pred_bpow. reflexivity. }
  rewrite E in H. exact H.
Qed.

Lemma rnd_le_0 (x : R) : x <= 0 -> rnd x <= 0.
Proof. intros H. apply rnd_le_fmt; [exact fmt_0 | exact H]. Qed.

(* the damped increment never exceeds the exact difference *)
Lemma west_core_up (x m r : R) : fmt x -> fmt m -> fmt r -> 0 <= r -> r < 1 -> m <= x ->
  0 <= rnd (r * rnd (x - m)) <= x - m.
Proof.
  intros Gx Gm Gr Hr0 Hr1 Hmx.
  set (y := x - m). assert (Hy : 0 <= y) by (unfold y; lra).
  assert (Hxmm : 0 <= rnd y) by (apply rnd_ge_0; exact Hy).
  split; [apply rnd_ge_0; nra|].
  destruct (generic_format_EM radix2 fx y) as [Gy | NGy].
  { rewrite (rnd_id y Gy). apply rnd_le_fmt; [exact Gy | nra]. }
  assert (Big : bpow radix2 (-1021) < y).
  { destruct (Rle_or_lt y (bpow radix2 (-1021))) as [Sm | B]; [|exact B].
    exfalso. apply NGy. unfold y. apply fmt_minus_small; [exact Gx | exact Gm|].
    fold y. rewrite Rabs_pos_eq by exact Hy. exact Sm. }
  pose proof (round_DN_UP_lt radix2 fx y NGy) as [HD HU].
  set (D := round radix2 fx Zfloor y) in *. set (U := round radix2 fx Zceil y) in *.
  assert (GD : fmt D) by (apply generic_format_round; auto with typeclass_instances).
  assert (D0 : 0 <= D).
  { unfold D. rewrite <- (round_0 radix2 fx Zfloor). apply round_le; auto with typeclass_instances. }
  destruct (round_DN_or_UP radix2 fx ZnearestE y) as [E | E]; fold D in E; fold U in E; rewrite E.
  - apply Rle_trans with D; [|lra]. apply rnd_le_fmt; [exact GD | nra].
  - apply Rle_trans with D; [|lra].
    apply round_N_le_midp; [auto with typeclass_instances | exact GD |].
    unfold D at 2. rewrite (succ_DN_eq_UP radix2 fx y NGy). fold U. fold D.
    pose proof (round_UP_DN_ulp radix2 fx y NGy) as EU. fold U in EU. fold D in EU.
    assert (Hulp : ulp radix2 fx y <= y * (2 * u64)).
    { pose proof (ulp_FLT_le radix2 (-1074) 53 y) as L.
      rewrite u64_two in L. rewrite (Rabs_pos_eq y Hy) in L. apply L.
      apply Rle_trans with (bpow radix2 (-1021)); [apply bpow_le; lia | lra]. }
    pose proof (fmt_lt_1 r Gr Hr1) as Hr. pose proof u64_pos as Hu.
    assert (P : r * U <= (1 - u64) * U) by (apply Rmult_le_compat_r; lra).
    assert (Q : y * u64 < U * u64) by (apply Rmult_lt_compat_r; lra).
    lra.
Qed.

Lemma west_core_dn (x m r : R) : fmt x -> fmt m -> fmt r -> 0 <= r -> r < 1 -> x <= m ->
  x - m <= rnd (r * rnd (x - m)) <= 0.
Proof.
  intros Gx Gm Gr Hr0 Hr1 Hxm.
  assert (Hmx : - m <= - x) by lra.
  pose proof (west_core_up (- x) (- m) r (fmt_opp x Gx) (fmt_opp m Gm) Gr Hr0 Hr1 Hmx) as H.
  replace (- x - - m) with (- (x - m)) in H by ring.
  rewrite round_NE_opp in H.
  replace (r * - rnd (x - m)) with (- (r * rnd (x - m))) in H by ring.
  rewrite round_NE_opp in H. lra.
Qed.

(* the new mean as a function of the old mean, the datum and the rounded ratio *)
Definition Rmean' (M X r : R) : R := rnd (M + rnd (r * rnd (X - M))).

Lemma mean_between_up (M X r : R) : fmt X -> fmt M -> fmt r -> 0 <= r -> r < 1 -> M <= X ->
  M <= Rmean' M X r <= X.
Proof.
  intros GX GM Gr Hr0 Hr1 HMX. destruct (west_core_up X M r GX GM Gr Hr0 Hr1 HMX) as [T0 T1].
  unfold Rmean'. split; [apply rnd_ge_fmt; [exact GM | lra] | apply rnd_le_fmt; [exact GX | lra]].
Qed.

Lemma mean_between_dn (M X r : R) : fmt X -> fmt M -> fmt r -> 0 <= r -> r < 1 -> X <= M ->
  X <= Rmean' M X r <= M.
Proof.
  intros GX GM Gr Hr0 Hr1 HXM. destruct (west_core_dn X M r GX GM Gr Hr0 Hr1 HXM) as [T0 T1].
  unfold Rmean'. split; [apply rnd_ge_fmt; [exact GX | lra] | apply rnd_le_fmt; [exact GM | lra]].
Qed.

(* from a zero mean any ratio in [0,1] is harmless *)
Lemma mean_from_zero (X r : R) : fmt X -> 0 <= r <= 1 ->
  (0 <= X -> 0 <= Rmean' 0 X r <= X) /\ (X <= 0 -> X <= Rmean' 0 X r <= 0).
Proof.
  intros GX Hr. unfold Rmean'. replace (X - 0) with X by ring. rewrite (rnd_id X GX).
  rewrite Rplus_0_l. rewrite (rnd_id _ (rnd_fmt _)). split; intros HX.
  - split; [apply rnd_ge_0; nra | apply rnd_le_fmt; [exact GX | nra]].
  - split; [apply rnd_ge_fmt; [exact GX | nra] | apply rnd_le_0; nra].
Qed.

Lemma mean_from_zero_one (X : R) : fmt X -> Rmean' 0 X 1 = X.
Proof.
  intros GX. unfold Rmean'. replace (X - 0) with X by ring. rewrite (rnd_id X GX).
  rewrite Rmult_1_l, (rnd_id X GX), Rplus_0_l. apply rnd_id. exact GX.
Qed.

(* sign of the increment w * (x - m) * (x - m') *)
Lemma inc_nonneg (w xmm d : R) : 0 <= w ->
  (0 <= xmm /\ 0 <= d) \/ (xmm <= 0 /\ d <= 0) -> 0 <= rnd (rnd (w * xmm) * d).
Proof.
  intros Hw [[H1 H2] | [H1 H2]]; apply rnd_ge_0.
  - assert (0 <= rnd (w * xmm)) by (apply rnd_ge_0; nra). nra.
  - assert (rnd (w * xmm) <= 0) by (apply rnd_le_0; nra). nra.
Qed.

Lemma ratio_01 (w W' : R) : 0 < w -> w <= W' -> 0 <= rnd (w / W') <= 1.
Proof.
  intros Hw HW. assert (I : 0 < / W') by (apply Rinv_0_lt_compat; lra).
  assert (E : W' * / W' = 1) by (apply Rinv_r; lra). unfold Rdiv.
  split; [apply rnd_ge_0; nra | apply rnd_le_fmt; [exact fmt_1 | nra]].
Qed.

(* the ratio of two distinct positive binary64 numbers never rounds up to 1 *)
Lemma ratio_lt_1 (a b : R) : fmt a -> fmt b -> 0 < a -> a < b -> rnd (a / b) < 1.
Proof.
  intros Ga Gb Ha Hab.
  assert (I : 0 < / b) by (apply Rinv_0_lt_compat; lra).
  assert (Eb : b * / b = 1) by (apply Rinv_r; lra).
  set (z := a / b). assert (Hz : 0 < z < 1) by (unfold z, Rdiv; split; nra).
  destruct (Rle_or_lt z (/ 2)) as [Small | Large].
  { assert (G : fmt (/ 2)) by (change (/ 2) with (bpow radix2 (-1)); apply fmt_bpow; lia).
    pose proof (rnd_le_fmt z (/ 2) G Small). lra. }
  destruct (Rlt_or_le (rnd z) 1) as [Done | Bad]; [exact Done | exfalso].
  destruct (relative_error_N_FLT_ex radix2 (-1074) 53 Hprec64 (fun t => negb (Z.even t)) z) as (eps & Heps & E).
  { rewrite Rabs_pos_eq by lra. apply Rle_trans with (/ 2); [|lra].
    change (/ 2) with (bpow radix2 (-1)). apply bpow_le. lia. }
  change (round radix2 (FLT_exp (-1074) 53) (Znearest (fun t => negb (Z.even t))) z) with (rnd z) in E.
  change (- (53) + 1)%Z with (1 - 53)%Z in Heps. rewrite u64_two in Heps.
  apply Rabs_le_inv in Heps. pose proof u64_pos as Hu.
  assert (Hb1 : b <= a * (1 + u64)).
  { assert (1 <= z * (1 + u64)) by nra.
    assert (b * 1 <= b * (z * (1 + u64))) by (apply Rmult_le_compat_l; lra).
    unfold z, Rdiv in *. nra. }
  pose proof (succ_le_lt radix2 fx a b Ga Gb Hab) as Hs.
  rewrite succ_eq_pos in Hs by lra.
  assert (Hul : a * u64 < ulp radix2 fx a).
  { rewrite ulp_neq_0 by lra. unfold cexp.
    pose proof (bpow_mag_gt radix2 a) as Hm. rewrite Rabs_pos_eq in Hm by lra.
    apply Rlt_le_trans with (bpow radix2 (mag radix2 a) * u64); [apply Rmult_lt_compat_r; lra|].
    unfold u64. rewrite <- bpow_plus. apply bpow_le. unfold fx, SpecFloat.fexp. lia. }
  lra.
Qed.

(* ------------------------------------------------------------------ *)
(* 2. binary64 operations with a finite result                         *)
(* ------------------------------------------------------------------ *)
Lemma fadd_val (x y : F64) : fis_finite (fadd x y) = true ->
  fis_finite x = true /\ fis_finite y = true /\ B2R (fadd x y) = rnd (B2R x + B2R y).
Proof.
  intros Hf. destruct (SumBridge.Bplus_finite_inv 53 1024 Hprec64 Hmax64 _ _ Hf) as [Fx Fy].
  split; [exact Fx|]. split; [exact Fy|].
  exact (proj2 (fadd_correct x y Fx Fy (fadd_finite_inv x y Fx Fy Hf))).
Qed.

Lemma fsub_fin_inv (x y : F64) : fis_finite (fsub x y) = true -> fis_finite x = true /\ fis_finite y = true.
Proof.
  intros Hf.
  destruct x as [sx|sx| |sx mx ex Hx], y as [sy|sy| |sy my ey Hy]; try (split; reflexivity);
    exfalso; unfold fsub, Bminus in Hf; try discriminate Hf;
    destruct (Bool.eqb sx (negb sy)); discriminate Hf.
Qed.

Lemma fsub_val (x y : F64) : fis_finite (fsub x y) = true ->
  fis_finite x = true /\ fis_finite y = true /\ B2R (fsub x y) = rnd (B2R x - B2R y).
Proof.
  intros Hf. destruct (fsub_fin_inv x y Hf) as [Fx Fy].
  split; [exact Fx|]. split; [exact Fy|].
  exact (proj2 (fsub_correct x y Fx Fy (fsub_finite_inv x y Fx Fy Hf))).
Qed.

Lemma fmul_fin_inv (x y : F64) : fis_finite (fmul x y) = true -> fis_finite x = true /\ fis_finite y = true.
Proof.
  intros Hf.
  destruct x as [sx|sx| |sx mx ex Hx], y as [sy|sy| |sy my ey Hy]; try (split; reflexivity);
    exfalso; unfold fmul, Bmult in Hf; discriminate Hf.
Qed.

Lemma fmul_val (x y : F64) : fis_finite (fmul x y) = true ->
  fis_finite x = true /\ fis_finite y = true /\ B2R (fmul x y) = rnd (B2R x * B2R y).
Proof.
  intros Hf. destruct (fmul_fin_inv x y Hf) as [Fx Fy].
  split; [exact Fx|]. split; [exact Fy|]. exact (fmul_round x y Hf).
Qed.

Lemma fdiv_val (x y : F64) : B2R y <> 0 -> fis_finite (fdiv x y) = true ->
  fis_finite x = true /\ B2R (fdiv x y) = rnd (B2R x / B2R y).
Proof.
  intros Hy Hf. destruct (fdiv_round x y Hy Hf) as [E Fx]. split; [exact Fx | exact E].
Qed.

Lemma fdiv_not_nan (x y : F64) : fis_finite x = true -> B2R y <> 0 -> fis_nan (fdiv x y) = false.
Proof.
  intros Fx Hy. pose proof (Bdiv_correct 53 1024 Hprec64 Hmax64 mode_NE x y Hy) as C.
  fold (fdiv x y) in C. destruct (Rlt_bool _ _) in C.
  - destruct C as (_ & C2 & _). apply finite_not_nan. unfold fis_finite. rewrite C2. exact Fx.
  - unfold fis_nan. rewrite <- is_nan_SF_B2SF, C. apply is_nan_binary_overflow.
Qed.

(* the final division s / (wsum - ddof) *)
Lemma final_div_nonneg (wsum s ddof : F64) :
  fis_finite wsum = true -> fis_finite s = true -> 0 <= B2R s ->
  fis_finite ddof = true -> 0 <= B2R ddof -> B2R ddof < B2R wsum ->
  fis_nan (fdiv s (fsub wsum ddof)) = false /\
  (fis_finite (fdiv s (fsub wsum ddof)) = true -> 0 <= B2R (fdiv s (fsub wsum ddof))).
Proof.
  intros Fwsum Fs Hs Fd Hd0 Hd.
  destruct (rnd_minus_model (B2R wsum) (B2R ddof) (fmt_B2R wsum) (fmt_B2R ddof)) as (e & He & Ee).
  pose proof u64_frac_le as Hu1. pose proof u64_small as Hu2. apply Rabs_le_inv in He.
  assert (Hpos : 0 < rnd (B2R wsum - B2R ddof)) by (rewrite Ee; nra).
  assert (Hle : rnd (B2R wsum - B2R ddof) <= B2R wsum) by (apply rnd_le_fmt; [apply fmt_B2R | lra]).
  assert (Hb : Rabs (rnd (B2R wsum - B2R ddof)) < bpow radix2 1024).
  { rewrite Rabs_pos_eq by lra. pose proof (B2R_bound wsum Fwsum) as B.
    apply Rabs_def2 in B. lra. }
  destruct (fsub_correct wsum ddof Fwsum Fd Hb) as (Fden & Eden).
  assert (Hden : B2R (fsub wsum ddof) <> 0) by lra.
  split; [exact (fdiv_not_nan s (fsub wsum ddof) Fs Hden)|].
  intros Fres. destruct (fdiv_val s (fsub wsum ddof) Hden Fres) as (_ & E).
  rewrite E. apply rnd_ge_0. rewrite Eden.
  assert (I : 0 < / rnd (B2R wsum - B2R ddof)) by (apply Rinv_0_lt_compat; exact Hpos).
  unfold Rdiv. nra.
Qed.

(* ------------------------------------------------------------------ *)
(* 3. One step of the pre-repair recurrence (west_step_v1)                                    *)
(* ------------------------------------------------------------------ *)
Lemma west_step_v1_eq (wsum m s x w : F64) :
  west_step_v1 OW (wsum, m, s) (x, w) =
  if feq w fzero then (wsum, m, s) else
  let wsum' := fadd wsum w in
  let xmm := fsub x m in
  let m' := fadd m (fmul (fdiv w wsum') xmm) in
  (wsum', m', fadd s (fmul (fmul w xmm) (fsub x m'))).
Proof. reflexivity. Qed.

(* All values of a step whose resulting state is finite, as roundings of real expressions.
   Finiteness of every operand and intermediate follows from finiteness of the new state. *)
Lemma west_step_v1_vals (wsum m s x w : F64) :
  let wsum' := fadd wsum w in
  let xmm := fsub x m in
  let r := fdiv w wsum' in
  let m' := fadd m (fmul r xmm) in
  let s' := fadd s (fmul (fmul w xmm) (fsub x m')) in
  fis_finite wsum' = true -> fis_finite m' = true -> fis_finite s' = true ->
  0 <= B2R wsum -> 0 < B2R w ->
  (fis_finite wsum = true /\ fis_finite m = true /\ fis_finite s = true /\
   fis_finite x = true /\ fis_finite w = true) /\
  B2R wsum' = rnd (B2R wsum + B2R w) /\
  B2R w <= B2R wsum' /\
  B2R r = rnd (B2R w / B2R wsum') /\
  B2R m' = Rmean' (B2R m) (B2R x) (B2R r) /\
  B2R s' = rnd (B2R s + rnd (rnd (B2R w * rnd (B2R x - B2R m)) * rnd (B2R x - B2R m'))).
Proof.
  intros wsum' xmm r m' s' Fwsum' Fm' Fs' Hwsum Hw.
  destruct (fadd_val wsum w Fwsum') as (Fwsum & Fw & Ewsum'). fold wsum' in Ewsum'.
  destruct (fadd_val m (fmul r xmm) Fm') as (Fm & Ft & Em'). fold m' in Em'.
  destruct (fmul_val r xmm Ft) as (Fr & Fxmm & Et).
  destruct (fsub_val x m Fxmm) as (Fx & _ & Exmm). fold xmm in Exmm.
  destruct (fadd_val s _ Fs') as (Fs & Finc & Es'). fold s' in Es'.
  destruct (fmul_val _ _ Finc) as (Fa & Fd & Einc).
  destruct (fmul_val _ _ Fa) as (_ & _ & Ea).
  destruct (fsub_val x m' Fd) as (_ & _ & Ed).
  assert (Hge : B2R w <= B2R wsum').
  { rewrite Ewsum'. apply rnd_ge_fmt; [apply fmt_B2R | lra]. }
  assert (Hnz : B2R wsum' <> 0) by lra.
  destruct (fdiv_val w wsum' Hnz Fr) as (_ & Er). fold r in Er.
  split; [repeat split; assumption|].
  split; [exact Ewsum'|]. split; [exact Hge|]. split; [exact Er|]. split.
  - rewrite Em', Et, Exmm. reflexivity.
  - rewrite Es', Einc, Ea, Ed, Exmm. reflexivity.
Qed.

(* W1.  Sign invariant of one step.  The side condition is: either the old mean is zero (first
   accumulated observation) or the weight does not absorb the running sum. *)
Theorem west_step_v1_s_nonneg (wsum m s x w : F64) :
  let wsum' := fadd wsum w in
  let xmm := fsub x m in
  let m' := fadd m (fmul (fdiv w wsum') xmm) in
  let inc := fmul (fmul w xmm) (fsub x m') in
  let s' := fadd s inc in
  fis_finite wsum' = true -> fis_finite m' = true -> fis_finite s' = true ->
  0 <= B2R wsum -> 0 < B2R w ->
  B2R m = 0 \/ B2R w < B2R wsum' ->
  0 <= B2R inc /\ (0 <= B2R s -> 0 <= B2R s').
Proof.
  cbv zeta. intros Fwsum' Fm' Fs' Hwsum Hw Hside.
  destruct (west_step_v1_vals wsum m s x w Fwsum' Fm' Fs' Hwsum Hw)
    as ((Fwsum & Fm & Fs & Fx & Fw) & Ewsum' & Hge & Er & Em' & Es').
  set (wsum' := fadd wsum w) in *. set (xmm := fsub x m) in *. set (r := fdiv w wsum') in *.
  set (m' := fadd m (fmul r xmm)) in *. set (inc := fmul (fmul w xmm) (fsub x m')) in *.
  set (s' := fadd s inc) in *.
  destruct (fadd_val s inc Fs') as (_ & Finc & _).
  destruct (fmul_val _ _ Finc) as (Fa & Fd & Einc).
  destruct (fmul_val _ _ Fa) as (_ & Fxmm & Ea).
  destruct (fsub_val x m Fxmm) as (_ & _ & Exmm). fold xmm in Exmm.
  destruct (fsub_val x m' Fd) as (_ & _ & Ed).
  pose proof (ratio_01 (B2R w) (B2R wsum') Hw Hge) as Hr01. rewrite <- Er in Hr01.
  assert (Hinc : 0 <= B2R inc).
  { unfold inc. rewrite Einc, Ea, Ed, Exmm. apply inc_nonneg; [lra|].
    destruct (Rle_or_lt (B2R m) (B2R x)) as [Hmx | Hxm].
    - left. split; [apply rnd_ge_0; lra|]. apply rnd_ge_0.
      destruct Hside as [M0 | Hlt].
      + rewrite Em', M0. rewrite M0 in Hmx.
        destruct (mean_from_zero (B2R x) (B2R r) (fmt_B2R x) Hr01) as [H _]. specialize (H Hmx). lra.
      + assert (Hr1 : B2R r < 1).
        { rewrite Er. apply ratio_lt_1; [apply fmt_B2R | apply fmt_B2R | exact Hw | exact Hlt]. }
        pose proof (mean_between_up (B2R m) (B2R x) (B2R r) (fmt_B2R x) (fmt_B2R m) (fmt_B2R r)
                      (proj1 Hr01) Hr1 Hmx) as H. rewrite <- Em' in H. lra.
    - right. split; [apply rnd_le_0; lra|]. apply rnd_le_0.
      destruct Hside as [M0 | Hlt].
      + rewrite Em', M0. rewrite M0 in Hxm.
        destruct (mean_from_zero (B2R x) (B2R r) (fmt_B2R x) Hr01) as [_ H].
        assert (Hx0 : B2R x <= 0) by lra. specialize (H Hx0). lra.
      + assert (Hr1 : B2R r < 1).
        { rewrite Er. apply ratio_lt_1; [apply fmt_B2R | apply fmt_B2R | exact Hw | exact Hlt]. }
        assert (Hxm' : B2R x <= B2R m) by lra.
        pose proof (mean_between_dn (B2R m) (B2R x) (B2R r) (fmt_B2R x) (fmt_B2R m) (fmt_B2R r)
                      (proj1 Hr01) Hr1 Hxm') as H. rewrite <- Em' in H. lra. }
  split; [exact Hinc|]. intros Hs.
  destruct (fadd_val s inc Fs') as (_ & _ & E). fold s' in E. rewrite E. apply rnd_ge_0. lra.
Qed.

(* W3 (one step).  The new mean lies between the old mean and the datum. *)
Theorem west_step_v1_mean_between (wsum m s x w : F64) :
  let wsum' := fadd wsum w in
  let m' := fadd m (fmul (fdiv w wsum') (fsub x m)) in
  let s' := fadd s (fmul (fmul w (fsub x m)) (fsub x m')) in
  fis_finite wsum' = true -> fis_finite m' = true -> fis_finite s' = true ->
  0 <= B2R wsum -> 0 < B2R w ->
  B2R m = 0 \/ B2R w < B2R wsum' ->
  Rmin (B2R m) (B2R x) <= B2R m' <= Rmax (B2R m) (B2R x).
Proof.
  cbv zeta. intros Fwsum' Fm' Fs' Hwsum Hw Hside.
  destruct (west_step_v1_vals wsum m s x w Fwsum' Fm' Fs' Hwsum Hw)
    as ((Fwsum & Fm & Fs & Fx & Fw) & Ewsum' & Hge & Er & Em' & Es').
  set (wsum' := fadd wsum w) in *. set (r := fdiv w wsum') in *.
  set (m' := fadd m (fmul r (fsub x m))) in *.
  pose proof (ratio_01 (B2R w) (B2R wsum') Hw Hge) as Hr01. rewrite <- Er in Hr01.
  assert (Hr1 : B2R w < B2R wsum' -> B2R r < 1).
  { intros Hlt. rewrite Er. apply ratio_lt_1; [apply fmt_B2R | apply fmt_B2R | exact Hw | exact Hlt]. }
  destruct (Rle_or_lt (B2R m) (B2R x)) as [Hmx | Hxm].
  - rewrite Rmin_left, Rmax_right by lra. destruct Hside as [M0 | Hlt].
    + rewrite Em', M0. rewrite M0 in Hmx.
      destruct (mean_from_zero (B2R x) (B2R r) (fmt_B2R x) Hr01) as [H _]. exact (H Hmx).
    + rewrite Em'. apply mean_between_up; try apply fmt_B2R; [lra | exact (Hr1 Hlt) | exact Hmx].
  - rewrite Rmin_right, Rmax_left by lra. destruct Hside as [M0 | Hlt].
    + rewrite Em', M0. rewrite M0 in Hxm.
      destruct (mean_from_zero (B2R x) (B2R r) (fmt_B2R x) Hr01) as [_ H]. apply H. lra.
    + rewrite Em'. apply mean_between_dn; try apply fmt_B2R; [lra | exact (Hr1 Hlt) | lra].
Qed.

(* first accumulated observation: the mean becomes the datum exactly *)
Lemma west_step_v1_first (wsum m s x w : F64) :
  let wsum' := fadd wsum w in
  let m' := fadd m (fmul (fdiv w wsum') (fsub x m)) in
  let s' := fadd s (fmul (fmul w (fsub x m)) (fsub x m')) in
  fis_finite wsum' = true -> fis_finite m' = true -> fis_finite s' = true ->
  B2R wsum = 0 -> B2R m = 0 -> 0 < B2R w ->
  B2R wsum' = B2R w /\ B2R m' = B2R x.
Proof.
  cbv zeta. intros Fwsum' Fm' Fs' W0 M0 Hw.
  assert (Hwsum : 0 <= B2R wsum) by lra.
  destruct (west_step_v1_vals wsum m s x w Fwsum' Fm' Fs' Hwsum Hw)
    as (_ & Ewsum' & Hge & Er & Em' & _).
  set (wsum' := fadd wsum w) in *. set (r := fdiv w wsum') in *.
  set (m' := fadd m (fmul r (fsub x m))) in *.
  assert (E1 : B2R wsum' = B2R w).
  { rewrite Ewsum', W0, Rplus_0_l. apply rnd_id. apply fmt_B2R. }
  split; [exact E1|].
  rewrite Em', Er, E1, M0. unfold Rdiv. rewrite Rinv_r by lra. rewrite (rnd_id 1 fmt_1).
  apply mean_from_zero_one. apply fmt_B2R.
Qed.

(* ------------------------------------------------------------------ *)
(* 4. The whole pre-repair run                                                 *)
(* ------------------------------------------------------------------ *)
Definition sw (st : F64 * F64 * F64) : F64 := fst (fst st).
Definition sm (st : F64 * F64 * F64) : F64 := snd (fst st).
Definition ss (st : F64 * F64 * F64) : F64 := snd st.

Definition st_finite (st : F64 * F64 * F64) : Prop :=
  fis_finite (sw st) = true /\ fis_finite (sm st) = true /\ fis_finite (ss st) = true.

(* hypotheses on one step from state [st] with observation/weight [xw]:
   the weight is finite and >= 0, the new state is finite, and (unless the weight is zero, or
   nothing has been accumulated yet) the weight does not absorb the running weight sum *)
Definition step_v1_ok (st : F64 * F64 * F64) (xw : F64 * F64) : Prop :=
  let st' := west_step_v1 OW st xw in
  fis_finite (snd xw) = true /\ 0 <= B2R (snd xw) /\ st_finite st' /\
  (B2R (snd xw) = 0 \/ B2R (sw st) = 0 \/ B2R (snd xw) < B2R (sw st')).

Fixpoint west_v1_run_ok (st : F64 * F64 * F64) (l : list (F64 * F64)) : Prop :=
  match l with
  | [] => True
  | xw :: l' => step_v1_ok st xw /\ west_v1_run_ok (west_step_v1 OW st xw) l'
  end.

Definition west_inv (st : F64 * F64 * F64) : Prop :=
  st_finite st /\ 0 <= B2R (sw st) /\ 0 <= B2R (ss st) /\ (B2R (sw st) = 0 -> B2R (sm st) = 0).

Lemma west_inv_init : west_inv (fzero, fzero, fzero).
Proof.
  unfold west_inv, st_finite, sw, sm, ss. cbn [fst snd]. rewrite B2R_fzero.
  repeat split; try reflexivity; lra.
Qed.

Lemma west_step_v1_inv (st : F64 * F64 * F64) (xw : F64 * F64) :
  west_inv st -> step_v1_ok st xw ->
  let st' := west_step_v1 OW st xw in
  west_inv st' /\ B2R (sw st) <= B2R (sw st') /\
  (forall lo hi : R,
     B2R (sw st) = 0 \/ lo <= B2R (sm st) <= hi ->
     (B2R (snd xw) <> 0 -> lo <= B2R (fst xw) <= hi) ->
     B2R (sw st') = 0 \/ lo <= B2R (sm st') <= hi).
Proof.
  destruct st as [[wsum m] s]. destruct xw as [x w].
  intros ((Fwsum & Fm & Fs) & Hwsum & Hs & Hm0) (Fw & Hw0 & Hfin' & Hside).
  cbv zeta in *. unfold sw, sm, ss in *. cbn [fst snd] in *.
  rewrite west_step_v1_eq in *.
  destruct (feq w fzero) eqn:Ez.
  - (* skipped *)
    unfold west_inv, st_finite, sw, sm, ss in *. cbn [fst snd] in *.
    split; [split; [repeat split; assumption | split; [exact Hwsum | split; [exact Hs | exact Hm0]]]|].
    split; [lra|]. intros lo hi Hr _. exact Hr.
  - assert (Hwnz : B2R w <> 0).
    { intros E. apply (proj2 (feq_spec w fzero Fw eq_refl)) in E. rewrite E in Ez. discriminate Ez. }
    assert (Hw : 0 < B2R w) by lra.
    cbv zeta in *. cbn [fst snd] in *.
    destruct Hfin' as (Fwsum' & Fm' & Fs').
    destruct (west_step_v1_vals wsum m s x w Fwsum' Fm' Fs' Hwsum Hw)
      as (_ & Ewsum' & Hge & _).
    assert (Hside' : B2R m = 0 \/ B2R w < B2R (fadd wsum w)).
    { destruct Hside as [Z | [Z | L]]; [contradiction | left; exact (Hm0 Z) | right; exact L]. }
    destruct (west_step_v1_s_nonneg wsum m s x w Fwsum' Fm' Fs' Hwsum Hw Hside') as (_ & Hs').
    pose proof (west_step_v1_mean_between wsum m s x w Fwsum' Fm' Fs' Hwsum Hw Hside') as Hbt.
    cbv zeta in Hs', Hbt.
    assert (Hmono : B2R wsum <= B2R (fadd wsum w)).
    { rewrite Ewsum'. apply rnd_ge_fmt; [apply fmt_B2R | lra]. }
    unfold west_inv, st_finite, sw, sm, ss in *. cbn [fst snd] in *.
    split; [split; [repeat split; assumption | split; [lra | split; [exact (Hs' Hs) | intros Z; lra]]]|].
    split; [lra|].
    intros lo hi Hr Hx. right. specialize (Hx Hwnz).
    destruct (Req_dec (B2R wsum) 0) as [W0 | Wnz].
    + destruct (west_step_v1_first wsum m s x w Fwsum' Fm' Fs' W0 (Hm0 W0) Hw) as (_ & E).
      cbv zeta in E. rewrite E. exact Hx.
    + destruct Hr as [Z | Hr]; [contradiction|].
      revert Hbt. apply Rmin_case; apply Rmax_case; intros; lra.
Qed.

Lemma west_v1_run_inv (l : list (F64 * F64)) : forall st,
  west_inv st -> west_v1_run_ok st l -> west_inv (fold_left (west_step_v1 OW) l st).
Proof.
  induction l as [|xw l IH]; intros st Hinv Hok; [exact Hinv|].
  destruct Hok as [Hstep Hrest]. cbn [fold_left]. apply IH; [|exact Hrest].
  exact (proj1 (west_step_v1_inv st xw Hinv Hstep)).
Qed.

Lemma west_v1_run_range (lo hi : R) (l : list (F64 * F64)) : forall st,
  west_inv st -> west_v1_run_ok st l ->
  B2R (sw st) = 0 \/ lo <= B2R (sm st) <= hi ->
  Forall (fun xw => B2R (snd xw) <> 0 -> lo <= B2R (fst xw) <= hi) l ->
  let st' := fold_left (west_step_v1 OW) l st in
  B2R (sw st') = 0 \/ lo <= B2R (sm st') <= hi.
Proof.
  induction l as [|xw l IH]; intros st Hinv Hok Hr Hall; [exact Hr|].
  destruct Hok as [Hstep Hrest]. cbn [fold_left]. inversion Hall as [|? ? Hx Hall']; subst.
  destruct (west_step_v1_inv st xw Hinv Hstep) as (Hinv' & _ & Hrange).
  apply IH; [exact Hinv' | exact Hrest | exact (Hrange lo hi Hr Hx) | exact Hall'].
Qed.

(* W2.  Non-negativity of the accumulated sum of squares over the whole run. *)
Theorem west_v1_s_nonneg (data ws : list F64) :
  west_v1_run_ok (fzero, fzero, fzero) (combine data ws) ->
  let st := west_v1_final data ws in
  st_finite st /\ 0 <= B2R (sw st) /\ 0 <= B2R (ss st).
Proof.
  intros Hok. destruct (west_v1_run_inv _ _ west_inv_init Hok) as (Hf & Hw & Hs & _).
  split; [exact Hf|]. split; [exact Hw | exact Hs].
Qed.

(* ... and of the result: never NaN, and >= 0 when finite (it may overflow to +infinity). *)
Theorem west_v1_nonneg (data ws : list F64) (ddof : F64) :
  west_v1_run_ok (fzero, fzero, fzero) (combine data ws) ->
  fis_finite ddof = true -> 0 <= B2R ddof -> B2R ddof < B2R (sw (west_v1_final data ws)) ->
  fis_nan (west_v1 OW data ws ddof) = false /\
  (fis_finite (west_v1 OW data ws ddof) = true -> 0 <= B2R (west_v1 OW data ws ddof)).
Proof.
  intros Hok Fd Hd0 Hd. rewrite west_v1_unfold.
  destruct (west_v1_s_nonneg data ws Hok) as ((Fwsum & Fm & Fs) & Hw & Hs).
  destruct (west_v1_final data ws) as [[wsum m] s]. unfold sw, sm, ss in *. cbn [fst snd] in *.
  exact (final_div_nonneg wsum s ddof Fwsum Fs Hs Fd Hd0 Hd).
Qed.

(* W3.  The running mean stays within the range of the observations of non-zero weight. *)
Theorem west_v1_mean_in_range (data ws : list F64) (lo hi : R) :
  west_v1_run_ok (fzero, fzero, fzero) (combine data ws) ->
  Forall (fun xw => B2R (snd xw) <> 0 -> lo <= B2R (fst xw) <= hi) (combine data ws) ->
  let st := west_v1_final data ws in
  B2R (sw st) = 0 \/ lo <= B2R (sm st) <= hi.
Proof.
  intros Hok Hall. apply (west_v1_run_range lo hi _ _ west_inv_init Hok); [|exact Hall].
  left. reflexivity.
Qed.

(* ------------------------------------------------------------------ *)
(* 5. A sufficient condition for the no-absorption side condition      *)
(* ------------------------------------------------------------------ *)
(* a weight below 2^53 times the weight accumulated so far is not absorbing *)
Lemma no_absorb_R (W w : R) : fmt W -> fmt w -> 0 < w -> u64 * w < W -> w < rnd (W + w).
Proof.
  intros GW Gw Hw HW. pose proof u64_pos as Hu.
  assert (HW0 : 0 < W) by nra.
  assert (Hhalf : ulp radix2 fx w / 2 < W).
  { destruct (Rle_or_lt (bpow radix2 (-1022)) w) as [N | S].
    - pose proof (ulp_FLT_le radix2 (-1074) 53 w) as L.
      rewrite u64_two in L. rewrite (Rabs_pos_eq w) in L by lra.
      assert (L' : ulp radix2 fx w <= w * (2 * u64)) by (apply L; exact N). lra.
    - pose proof (ulp_FLT_small radix2 (-1074) 53 w) as L.
      assert (L' : ulp radix2 fx w = bpow radix2 (-1074)).
      { apply L. rewrite Rabs_pos_eq by lra. apply Rlt_le_trans with (1 := S). apply bpow_le. lia. }
      assert (B : bpow radix2 (-1074) <= W).
      { apply (generic_format_ge_bpow radix2 fx (-1074)); [|exact HW0 | exact GW].
        intros e. unfold fx, SpecFloat.fexp, SpecFloat.emin. lia. }
      pose proof (bpow_gt_0 radix2 (-1074)). lra. }
  assert (Hs : succ radix2 fx w <= rnd (W + w)).
  { apply round_N_ge_midp; [auto with typeclass_instances | apply generic_format_succ; auto with typeclass_instances |].
    rewrite pred_succ by (auto with typeclass_instances).
    rewrite succ_eq_pos by lra. lra. }
  assert (Hgt : w < succ radix2 fx w) by (apply succ_gt_id; lra).
  lra.
Qed.

Lemma no_absorb_f64 (wsum w : F64) : 0 < B2R w -> u64 * B2R w < B2R wsum ->
  fis_finite (fadd wsum w) = true -> B2R w < B2R (fadd wsum w).
Proof.
  intros Hw HW Hf. destruct (fadd_val wsum w Hf) as (_ & _ & E). rewrite E.
  apply no_absorb_R; [apply fmt_B2R | apply fmt_B2R | exact Hw | exact HW].
Qed.

(* ------------------------------------------------------------------ *)
(* 6. An executable check of the run hypotheses (non-vacuity)          *)
(* ------------------------------------------------------------------ *)
Definition step_v1_okb (st : F64 * F64 * F64) (xw : F64 * F64) : bool :=
  let st' := west_step_v1 OW st xw in
  fis_finite (snd xw) && fle fzero (snd xw) &&
  (fis_finite (sw st') && fis_finite (sm st') && fis_finite (ss st')) &&
  (feq (snd xw) fzero || feq (sw st) fzero || flt (snd xw) (sw st')).

Fixpoint west_v1_run_okb (st : F64 * F64 * F64) (l : list (F64 * F64)) : bool :=
  match l with
  | [] => true
  | xw :: l' => step_v1_okb st xw && west_v1_run_okb (west_step_v1 OW st xw) l'
  end.

Lemma feq_zero_B2R (a : F64) : feq a fzero = true -> B2R a = 0.
Proof.
  destruct a as [sa|sa| |sa ma ea Ha]; intros H; try reflexivity.
  exfalso. destruct sa; discriminate H.
Qed.

Lemma step_v1_okb_sound st xw : step_v1_okb st xw = true -> step_v1_ok st xw.
Proof.
  unfold step_v1_okb, step_v1_ok. cbv zeta. intros H.
  apply andb_prop in H. destruct H as [H Hside].
  apply andb_prop in H. destruct H as [H Hfin].
  apply andb_prop in H. destruct H as [Fw Hle].
  apply andb_prop in Hfin. destruct Hfin as [Hfin F3].
  apply andb_prop in Hfin. destruct Hfin as [F1 F2].
  split; [exact Fw|]. split.
  { apply (fle_spec fzero (snd xw) eq_refl Fw) in Hle. exact Hle. }
  split; [split; [exact F1 | split; [exact F2 | exact F3]]|].
  apply orb_prop in Hside. destruct Hside as [Hside | Hlt].
  - apply orb_prop in Hside. destruct Hside as [Z | Z].
    + left. exact (feq_zero_B2R _ Z).
    + right. left. exact (feq_zero_B2R _ Z).
  - right. right. apply (flt_spec _ _ Fw F1). exact Hlt.
Qed.

Lemma west_v1_run_okb_sound l : forall st, west_v1_run_okb st l = true -> west_v1_run_ok st l.
Proof.
  induction l as [|xw l IH]; intros st H; [exact I|].
  cbn [west_v1_run_okb] in H. apply andb_prop in H. destruct H as [H1 H2].
  split; [exact (step_v1_okb_sound st xw H1) | exact (IH _ H2)].
Qed.

(* the hypotheses hold e.g. for data [1; 2; 4; -3] with weights [1; 0; 2; 0.5] ... *)
Definition ex_data : list F64 :=
  [f64_of_bits 0x3ff0000000000000; f64_of_bits 0x4000000000000000;
   f64_of_bits 0x4010000000000000; f64_of_bits 0xc008000000000000].
Definition ex_ws : list F64 :=
  [f64_of_bits 0x3ff0000000000000; fzero; f64_of_bits 0x4000000000000000; f64_of_bits 0x3fe0000000000000].
Example west_v1_run_ok_example : west_v1_run_ok (fzero, fzero, fzero) (combine ex_data ex_ws).
Proof. apply west_v1_run_okb_sound. vm_compute. reflexivity. Qed.
(* ... and fail (as they must) on the counterexample *)
Example west_v1_run_okb_cx : west_v1_run_okb (fzero, fzero, fzero) (combine cx_data cx_ws) = false.
Proof. vm_compute. reflexivity. Qed.

(* ================================================================== *)
(* 7. THE REPAIRED LOOP (west_step / west): one step                   *)
(* ================================================================== *)
Lemma west_step_eq (wsum m s x w : F64) :
  west_step OW (wsum, m, s) (x, w) =
  if feq w fzero then (wsum, m, s) else
  let wsum' := fadd wsum w in
  let xmm := fsub x m in
  let inc := fmul (fdiv w wsum') xmm in
  (wsum', fadd m inc, fadd s (fmul (fmul wsum inc) xmm)).
Proof. reflexivity. Qed.

(* sign of West's increment  wsum * (r * xmm) * xmm  under rounding *)
Lemma sinc_nonneg (W r xmm : R) : 0 <= W -> 0 <= r -> 0 <= rnd (rnd (W * rnd (r * xmm)) * xmm).
Proof.
  intros HW Hr. apply rnd_ge_0. destruct (Rle_or_lt 0 xmm) as [H | H].
  - assert (0 <= rnd (r * xmm)) by (apply rnd_ge_0; nra).
    assert (0 <= rnd (W * rnd (r * xmm))) by (apply rnd_ge_0; nra). nra.
  - assert (rnd (r * xmm) <= 0) by (apply rnd_le_0; nra).
    assert (rnd (W * rnd (r * xmm)) <= 0) by (apply rnd_le_0; nra). nra.
Qed.

(* All values of a repaired step whose resulting state is finite. *)
Lemma west_step_vals (wsum m s x w : F64) :
  let wsum' := fadd wsum w in
  let xmm := fsub x m in
  let r := fdiv w wsum' in
  let inc := fmul r xmm in
  let m' := fadd m inc in
  let sinc := fmul (fmul wsum inc) xmm in
  let s' := fadd s sinc in
  fis_finite wsum' = true -> fis_finite m' = true -> fis_finite s' = true ->
  0 <= B2R wsum -> 0 < B2R w ->
  (fis_finite wsum = true /\ fis_finite m = true /\ fis_finite s = true /\
   fis_finite x = true /\ fis_finite w = true /\ fis_finite sinc = true) /\
  B2R wsum' = rnd (B2R wsum + B2R w) /\
  B2R w <= B2R wsum' /\
  B2R r = rnd (B2R w / B2R wsum') /\
  B2R m' = Rmean' (B2R m) (B2R x) (B2R r) /\
  B2R sinc = rnd (rnd (B2R wsum * rnd (B2R r * rnd (B2R x - B2R m))) * rnd (B2R x - B2R m)) /\
  B2R s' = rnd (B2R s + B2R sinc).
Proof.
  cbv zeta. intros Fwsum' Fm' Fs' Hwsum Hw.
  destruct (fadd_val wsum w Fwsum') as (Fwsum & Fw & Ewsum').
  destruct (fadd_val m _ Fm') as (Fm & Finc & Em').
  destruct (fmul_val _ _ Finc) as (Fr & Fxmm & Einc).
  destruct (fsub_val x m Fxmm) as (Fx & _ & Exmm).
  destruct (fadd_val s _ Fs') as (Fs & Fsinc & Es').
  destruct (fmul_val _ _ Fsinc) as (Fa & _ & Esinc).
  destruct (fmul_val _ _ Fa) as (_ & _ & Ea).
  assert (Hge : B2R w <= B2R (fadd wsum w)).
  { rewrite Ewsum'. apply rnd_ge_fmt; [apply fmt_B2R | lra]. }
  assert (Hnz : B2R (fadd wsum w) <> 0) by lra.
  destruct (fdiv_val w (fadd wsum w) Hnz Fr) as (_ & Er).
  split; [repeat split; assumption|].
  split; [exact Ewsum'|]. split; [exact Hge|]. split; [exact Er|]. split; [|split].
  - rewrite Em', Einc, Exmm. reflexivity.
  - rewrite Esinc, Ea, Einc, Exmm. reflexivity.
  - exact Es'.
Qed.

(* MAIN STEP THEOREM (repaired loop): unconditional sign invariant. *)
Theorem west_step_s_nonneg (wsum m s x w : F64) :
  let wsum' := fadd wsum w in
  let xmm := fsub x m in
  let inc := fmul (fdiv w wsum') xmm in
  let m' := fadd m inc in
  let sinc := fmul (fmul wsum inc) xmm in
  let s' := fadd s sinc in
  fis_finite wsum' = true -> fis_finite m' = true -> fis_finite s' = true ->
  0 <= B2R wsum -> 0 < B2R w ->
  0 <= B2R sinc /\ (0 <= B2R s -> 0 <= B2R s') /\ 0 < B2R wsum'.
Proof.
  cbv zeta. intros Fwsum' Fm' Fs' Hwsum Hw.
  destruct (west_step_vals wsum m s x w Fwsum' Fm' Fs' Hwsum Hw)
    as (_ & Ewsum' & Hge & Er & _ & Esinc & Es').
  cbv zeta in *.
  pose proof (ratio_01 (B2R w) (B2R (fadd wsum w)) Hw Hge) as Hr01. rewrite <- Er in Hr01.
  assert (Hsinc : 0 <= B2R (fmul (fmul wsum (fmul (fdiv w (fadd wsum w)) (fsub x m))) (fsub x m))).
  { rewrite Esinc. apply sinc_nonneg; [exact Hwsum | exact (proj1 Hr01)]. }
  split; [exact Hsinc|]. split; [|lra].
  intros Hs. rewrite Es'. apply rnd_ge_0. lra.
Qed.

(* ================================================================== *)
(* 8. THE REPAIRED LOOP: the whole run                                 *)
(* ================================================================== *)
Definition west_final (data ws : list F64) : F64 * F64 * F64 :=
  fold_left (west_step OW) (combine data ws) (fzero, fzero, fzero).

Lemma west_unfold data ws ddof :
  west OW data ws ddof =
  let '(wsum, m, s) := west_final data ws in fdiv s (fsub wsum ddof).
Proof. reflexivity. Qed.

(* hypotheses on one step: the weight is finite and >= 0 and the new state is finite
   (NO absorption condition) *)
Definition step_ok (st : F64 * F64 * F64) (xw : F64 * F64) : Prop :=
  fis_finite (snd xw) = true /\ 0 <= B2R (snd xw) /\ st_finite (west_step OW st xw).

Fixpoint west_run_ok (st : F64 * F64 * F64) (l : list (F64 * F64)) : Prop :=
  match l with
  | [] => True
  | xw :: l' => step_ok st xw /\ west_run_ok (west_step OW st xw) l'
  end.

Definition west_inv2 (st : F64 * F64 * F64) : Prop :=
  st_finite st /\ 0 <= B2R (sw st) /\ 0 <= B2R (ss st).

Lemma west_inv2_init : west_inv2 (fzero, fzero, fzero).
Proof.
  unfold west_inv2, st_finite, sw, sm, ss. cbn [fst snd]. rewrite B2R_fzero.
  repeat split; try reflexivity; lra.
Qed.

Lemma west_step_inv (st : F64 * F64 * F64) (xw : F64 * F64) :
  west_inv2 st -> step_ok st xw ->
  west_inv2 (west_step OW st xw) /\ B2R (sw st) <= B2R (sw (west_step OW st xw)) /\
  B2R (ss st) <= B2R (ss (west_step OW st xw)).
Proof.
  destruct st as [[wsum m] s]. destruct xw as [x w].
  intros ((Fwsum & Fm & Fs) & Hwsum & Hs) (Fw & Hw0 & Hfin').
  unfold sw, sm, ss in *. cbn [fst snd] in *.
  rewrite west_step_eq in *.
  destruct (feq w fzero) eqn:Ez.
  - unfold west_inv2, st_finite, sw, sm, ss. cbn [fst snd].
    split; [split; [repeat split; assumption | split; assumption]|]. split; lra.
  - assert (Hwnz : B2R w <> 0).
    { intros E. apply (proj2 (feq_spec w fzero Fw eq_refl)) in E. rewrite E in Ez. discriminate Ez. }
    assert (Hw : 0 < B2R w) by lra.
    cbv zeta in *. unfold st_finite, sw, sm, ss in Hfin'. cbn [fst snd] in Hfin'.
    destruct Hfin' as (Fwsum' & Fm' & Fs').
    destruct (west_step_s_nonneg wsum m s x w Fwsum' Fm' Fs' Hwsum Hw) as (Hsinc & Hs' & Hw').
    destruct (west_step_vals wsum m s x w Fwsum' Fm' Fs' Hwsum Hw)
      as (_ & Ewsum' & _ & _ & _ & _ & Es').
    cbv zeta in *.
    assert (Hmono : B2R wsum <= B2R (fadd wsum w)).
    { rewrite Ewsum'. apply rnd_ge_fmt; [apply fmt_B2R | lra]. }
    assert (Hsmono : B2R s <=
      B2R (fadd s (fmul (fmul wsum (fmul (fdiv w (fadd wsum w)) (fsub x m))) (fsub x m)))).
    { rewrite Es'. apply rnd_ge_fmt; [apply fmt_B2R | lra]. }
    unfold west_inv2, st_finite, sw, sm, ss. cbn [fst snd].
    split; [split; [repeat split; assumption | split; [lra | exact (Hs' Hs)]]|].
    split; [exact Hmono | exact Hsmono].
Qed.

Lemma west_run_inv (l : list (F64 * F64)) : forall st,
  west_inv2 st -> west_run_ok st l -> west_inv2 (fold_left (west_step OW) l st).
Proof.
  induction l as [|xw l IH]; intros st Hinv Hok; [exact Hinv|].
  destruct Hok as [Hstep Hrest]. cbn [fold_left]. apply IH; [|exact Hrest].
  exact (proj1 (west_step_inv st xw Hinv Hstep)).
Qed.

(* MAIN THEOREM (repaired loop): for finite non-negative weights and finite intermediate states
   the accumulated sum of squares and the weight sum are non-negative - no side condition. *)
Theorem west_s_nonneg_f64 (data ws : list F64) :
  west_run_ok (fzero, fzero, fzero) (combine data ws) ->
  let st := west_final data ws in
  st_finite st /\ 0 <= B2R (sw st) /\ 0 <= B2R (ss st).
Proof. intros Hok. exact (west_run_inv _ _ west_inv2_init Hok). Qed.

Theorem west_nonneg_f64 (data ws : list F64) (ddof : F64) :
  west_run_ok (fzero, fzero, fzero) (combine data ws) ->
  fis_finite ddof = true -> 0 <= B2R ddof -> B2R ddof < B2R (sw (west_final data ws)) ->
  fis_nan (west OW data ws ddof) = false /\
  (fis_finite (west OW data ws ddof) = true -> 0 <= B2R (west OW data ws ddof)).
Proof.
  intros Hok Fd Hd0 Hd. rewrite west_unfold.
  destruct (west_s_nonneg_f64 data ws Hok) as ((Fwsum & Fm & Fs) & Hw & Hs).
  destruct (west_final data ws) as [[wsum m] s]. unfold sw, sm, ss in *. cbn [fst snd] in *.
  exact (final_div_nonneg wsum s ddof Fwsum Fs Hs Fd Hd0 Hd).
Qed.

(* the run hypotheses from list-level hypotheses: finite non-negative weights and every state
   of the scan finite *)
Fixpoint west_scan (st : F64 * F64 * F64) (l : list (F64 * F64)) : list (F64 * F64 * F64) :=
  match l with
  | [] => []
  | xw :: l' => west_step OW st xw :: west_scan (west_step OW st xw) l'
  end.

Lemma west_run_ok_of_scan (l : list (F64 * F64)) : forall st,
  Forall (fun xw => fis_finite (snd xw) = true /\ 0 <= B2R (snd xw)) l ->
  Forall st_finite (west_scan st l) -> west_run_ok st l.
Proof.
  induction l as [|xw l IH]; intros st Hw Hs; [exact I|].
  inversion Hw as [|? ? [Fw Hw0] Hw']; subst. cbn [west_scan] in Hs.
  inversion Hs as [|? ? Hs1 Hs']; subst.
  split; [split; [exact Fw | split; [exact Hw0 | exact Hs1]] | exact (IH _ Hw' Hs')].
Qed.

(* executable check of the run hypotheses *)
Definition step_okb (st : F64 * F64 * F64) (xw : F64 * F64) : bool :=
  let st' := west_step OW st xw in
  fis_finite (snd xw) && fle fzero (snd xw) &&
  (fis_finite (sw st') && fis_finite (sm st') && fis_finite (ss st')).

Fixpoint west_run_okb (st : F64 * F64 * F64) (l : list (F64 * F64)) : bool :=
  match l with
  | [] => true
  | xw :: l' => step_okb st xw && west_run_okb (west_step OW st xw) l'
  end.

Lemma step_okb_sound st xw : step_okb st xw = true -> step_ok st xw.
Proof.
  unfold step_okb, step_ok. cbv zeta. intros H.
  apply andb_prop in H. destruct H as [H Hfin].
  apply andb_prop in H. destruct H as [Fw Hle].
  apply andb_prop in Hfin. destruct Hfin as [Hfin F3].
  apply andb_prop in Hfin. destruct Hfin as [F1 F2].
  split; [exact Fw|]. split.
  { apply (fle_spec fzero (snd xw) eq_refl Fw) in Hle. exact Hle. }
  split; [exact F1 | split; [exact F2 | exact F3]].
Qed.

Lemma west_run_okb_sound l : forall st, west_run_okb st l = true -> west_run_ok st l.
Proof.
  induction l as [|xw l IH]; intros st H; [exact I|].
  cbn [west_run_okb] in H. apply andb_prop in H. destruct H as [H1 H2].
  split; [exact (step_okb_sound st xw H1) | exact (IH _ H2)].
Qed.

Example west_run_ok_example : west_run_ok (fzero, fzero, fzero) (combine ex_data ex_ws).
Proof. apply west_run_okb_sound. vm_compute. reflexivity. Qed.

(* the counterexample input satisfies the hypotheses of the repaired loop (it has an absorbing
   weight, which no longer matters) ... *)
Example west_run_ok_cx : west_run_ok (fzero, fzero, fzero) (combine cx_data cx_ws).
Proof. apply west_run_okb_sound. vm_compute. reflexivity. Qed.

(* ... and the repaired loop returns 0x1.0000000000002p-100 = 2^-100 * (1 + 2^-51) on it
   (the exact variance is 2^-100 * (1 + 1.5*2^-52 - ...): the result is within 1 ulp) *)
Theorem west_repaired_on_cx :
  bits_of_f64 (west OW cx_data cx_ws fzero) = 0x39b0000000000002%Z /\
  fis_finite (west OW cx_data cx_ws fzero) = true /\
  0 < B2R (west OW cx_data cx_ws fzero).
Proof.
  split; [vm_compute; reflexivity|].
  assert (Fr : fis_finite (west OW cx_data cx_ws fzero) = true) by (vm_compute; reflexivity).
  split; [exact Fr|]. apply (flt_spec fzero _ eq_refl Fr). vm_compute. reflexivity.
Qed.

(* pre-repair loop (defect D6) *)
Print Assumptions west_v1_nonneg_refuted.
Print Assumptions west_step_v1_s_nonneg.
Print Assumptions west_step_v1_mean_between.
Print Assumptions west_v1_s_nonneg.
Print Assumptions west_v1_nonneg.
Print Assumptions west_v1_mean_in_range.
Print Assumptions no_absorb_f64.
Print Assumptions west_v1_run_okb_sound.
(* repaired loop *)
Print Assumptions west_step_s_nonneg.
Print Assumptions west_s_nonneg_f64.
Print Assumptions west_nonneg_f64.
Print Assumptions west_run_ok_of_scan.
Print Assumptions west_run_okb_sound.
Print Assumptions west_repaired_on_cx.
