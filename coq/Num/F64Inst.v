(* The kernels over binary64 (Flocq), for execution and bit-for-bit comparison with the code.
   libm's ln / exp are oracle tables (argument bits -> result bits) recorded from the
   implementation's own libm by the harness. *)
From Coq Require Import ZArith List Bool.
Import ListNotations.
From NS Require Import Num.Ops Num.F64.

Fixpoint tab_lookup (tab : list (Z * Z)) (k : Z) : option Z :=
  match tab with
  | [] => None
  | (a, b) :: t => if Z.eqb a k then Some b else tab_lookup t k
  end.

Definition fnan : F64 := f64_of_bits nan_bits.

Definition tab_fn (tab : list (Z * Z)) (x : F64) : F64 :=
  match tab_lookup tab (bits_of_f64 x) with
  | Some b => f64_of_bits b
  | None => fnan
  end.

Definition f64_ops (ln_tab exp_tab : list (Z * Z)) : ops F64 := {|
  o_zero := fzero; o_one := fone;
  o_add := fadd; o_sub := fsub; o_mul := fmul; o_div := fdiv;
  o_neg := fneg; o_abs := fabs; o_sqrt := fsqrt;
  o_of_nat := fun n => f64_of_Z (Z.of_nat n);
  o_is_zero := fun x => feq x fzero;
  o_ltb := flt;
  o_ln := tab_fn ln_tab; o_exp := tab_fn exp_tab |}.
